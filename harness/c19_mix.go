package main

import (
	"fmt"
	"strings"

	"go.uber.org/zap"
)

// C19, wire kind 5: mixed histories of RegisterSink, Open, RegisterEncoder, Config.Build
// and RedirectStdLog[At] on the same two registries.  Every operation runs under the
// watchdog of c19.go and is observed on its own (opener calls, constructor calls, sinks
// and std-stream lines of that operation, then the sorted keys of the registries).
// The point of the kind: whatever an operation rejected - a duplicate scheme in any
// spelling, a malformed or empty name, a failing path, an unknown encoding, a missing
// Level, an invalid level - every later operation must still return and behave as the
// model says on the unchanged registries.

type c19mop struct {
	kind   int // 0 RegisterSink, 1 Open, 2 RegisterEncoder, 3 Config.Build, 4 redirection
	name   string
	ok     bool // RegisterEncoder: the constructor succeeds
	b      c19build
	which  int
	flags  int
	prefix string
	level  int
}

func mRegS(name string) c19mop          { return c19mop{kind: 0, name: name} }
func mRegE(name string, ok bool) c19mop { return c19mop{kind: 2, name: name, ok: ok} }
func mOpen(nw int, raws ...string) c19mop {
	return c19mop{kind: 1, b: c19build{out: raws, nw: nw}}
}
func mBuild(encoding string, level bool, out, errp []string, nw int) c19mop {
	return c19mop{kind: 3, b: c19build{encoding: encoding, timeKey: true, encTime: true, level: level, out: out, errp: errp, nw: nw}}
}
func mRedirect(which, flags int, prefix string, level int) c19mop {
	return c19mop{kind: 4, which: which, flags: flags, prefix: prefix, level: level}
}

func (o c19mop) String() string {
	switch o.kind {
	case 0:
		return fmt.Sprintf("RegisterSink(%q)", o.name)
	case 1:
		return fmt.Sprintf("Open(%q)", o.b.out)
	case 2:
		return fmt.Sprintf("RegisterEncoder(%q)", o.name)
	case 3:
		return fmt.Sprintf("Config{Encoding:%q,Level:%v,Out:%q,Err:%q}.Build", o.b.encoding, o.b.level, o.b.out, o.b.errp)
	}
	return fmt.Sprintf("RedirectStdLog[At](which=%d,level=%d)", o.which, o.level)
}

func c19mix(c *Ctx, ops []c19mop, class string) {
	xs := make([]SX, len(ops))
	for i, o := range ops {
		switch o.kind {
		case 0:
			xs[i] = L(I(0), Str(o.name), Str(strings.ToLower(o.name)))
		case 1:
			ps, ok := c19purls(c, o.b.out)
			if !ok {
				return
			}
			xs[i] = L(I(1), L(ps...), I(o.b.nw))
		case 2:
			xs[i] = L(I(2), Str(o.name), Bool(o.ok))
		case 3:
			po, ok1 := c19purls(c, o.b.out)
			pe, ok2 := c19purls(c, o.b.errp)
			if !ok1 || !ok2 {
				return
			}
			xs[i] = L(I(3), Bool(o.b.timeKey), Bool(o.b.encTime), Str(o.b.encoding), Bool(o.b.level), L(po...), L(pe...), I(o.b.nw))
		default:
			xs[i] = L(I(4), I(o.which), I(o.flags), Str(o.prefix), I(o.level))
		}
	}
	input := L(I(5), L(xs...))
	e, ok := c19begin(c)
	if !ok {
		return
	}
	defer e.end()
	var obs []SX
	rejected, st, at := 0, 0, -1
	for i, o := range ops {
		i, o := i, o
		var ob SX
		e.mark()
		switch o.kind {
		case 0:
			cls := 0
			ob, st = c19guard(c, "RegisterSink", input, func() SX {
				cls = c19sregCls(zap.RegisterSink(o.name, e.factory(i+2)))
				return nil
			})
			if st == 0 {
				if cls != 0 {
					rejected++
				}
				ks := e.skeys()
				ob = L(I(0), I(cls), ks)
			}
		case 1:
			failed := false
			ob, st = c19guard(c, "zap.Open", input, func() SX {
				o1, f := e.openObs(c, o.b.out, o.b.nw, input)
				failed = f
				return o1
			})
			if st == 0 {
				if failed {
					rejected++
				}
				ks := e.skeys()
				ob = L(ob, ks)
			}
		case 2:
			cls := 0
			ob, st = c19guard(c, "RegisterEncoder", input, func() SX {
				cls = c19eregCls(e.registerEnc(o.name, i+2, o.ok))
				return nil
			})
			if st == 0 {
				if cls != 0 {
					rejected++
				}
				ks := e.ekeys()
				ob = L(I(0), I(cls), ks)
			}
		case 3:
			failed := false
			ob, st = c19guard(c, "Config.Build", input, func() SX {
				o1, f := e.buildObs(c, o.b, input)
				failed = f
				return o1
			})
			if st == 0 {
				if failed {
					rejected++
				}
				ob = L(ob, e.skeys(), e.ekeys())
			}
		default:
			ob, st = c19redirectObs(c, o.which, o.flags, o.prefix, o.level, input)
			if st == 0 && (o.which != 0 && (o.level < -1 || o.level > 5)) {
				rejected++
			}
		}
		obs = append(obs, ob)
		if st != 0 {
			at = i
			break // the rest of the history is not run
		}
	}
	if st == 1 {
		var h []string
		for _, o := range ops[:at+1] {
			h = append(h, o.String())
		}
		c.Info("c19-blocked", strings.ReplaceAll(fmt.Sprintf("case-%d:operation-%d-of:%s", c.Cases, at, strings.Join(h, ";")), "\t", " "))
	}
	c.Emit(input, L(obs...), e.meta(len(ops) >= 2 && rejected > 0, class, st, "ops", fmt.Sprint(len(ops))))
}

// ---------------- generators ----------------

// registration attempts of which several are rejected: duplicates in other spellings,
// the empty name, malformed names, the built-in scheme
var c19regNamesRej = []string{"c19t", "C19T", "", "C19Up", "1x", "c19up", "c19x+y.z-w", "FILE", "a b", "C19X+Y.Z-W", "\u212Aelvin"}

func c19caseVariant(r *RNG, s string) string {
	switch r.Intn(4) {
	case 0:
		return strings.ToUpper(s)
	case 1:
		return c19asciiLower(s)
	case 2:
		b := []byte(s)
		for i, ch := range b {
			if r.Bool() {
				if 'a' <= ch && ch <= 'z' {
					b[i] = ch - 32
				} else if 'A' <= ch && ch <= 'Z' {
					b[i] = ch + 32
				}
			}
		}
		return string(b)
	}
	return s
}

// the operations that must be rejected (given c19mixSetup) ...
func c19mixRejected() []c19mop {
	return []c19mop{
		mRegS("c19t"), mRegS("C19T"), mRegS("c19T"), mRegS("c19up"), mRegS("C19UP"), mRegS("file"), mRegS("FILE"), mRegS("File"),
		mRegS(""), mRegS("1a"), mRegS("a b"), mRegS("a_b"), mRegS("\u212Aelvin"), mRegS("a\xffb"),
		mRegE("mine", true), mRegE("json", true), mRegE("console", false), mRegE("", true),
		mOpen(1, "nosuch://h/x"), mOpen(2, "c19t://h/ok1", "/abs/"+c19marker), mOpen(0, "file://user@localhost/x"), mOpen(1, ":x"),
		mOpen(1, "c19t://h/"+c19marker, "stdout"),
		mBuild("nope", true, []string{"c19t://h/ok1"}, nil, 1), mBuild("json", false, []string{"c19t://h/ok1"}, nil, 1),
		mBuild("json", true, []string{"c19t://h/ok1", "/abs/" + c19marker}, []string{"stderr"}, 1),
		mBuild("json", true, []string{"c19t://h/ok1"}, []string{"stderr", "nosuch://x"}, 1),
		mBuild("", true, nil, nil, 1), mBuild("minebad", true, []string{"/abs/ok"}, nil, 1),
		{kind: 3, b: c19build{encoding: "json", timeKey: true, encTime: false, level: true, out: []string{"c19up://h/ok"}}},
		mRedirect(1, 3, "p: ", 77), mRedirect(1, 0, "", -2),
	}
}

// ... and the operations that must still work after any of them
func c19mixFollowUps() []c19mop {
	return []c19mop{
		mOpen(1, "c19t://h/ok"), mOpen(2, "C19UP://h/ok1", "stdout", "/abs/ok2", "file:///x/ok3"), mOpen(1, "rel/ok.log"), mOpen(1, "stderr"),
		mBuild("json", true, []string{"c19t://h/ok1", "stdout"}, []string{"stderr"}, 1),
		mBuild("mine", true, []string{"/abs/ok"}, []string{"C19T://h/ok2"}, 2),
		mBuild("console", true, nil, nil, 1),
		mRegS("fresh"), mRegS("c19t"), mRegE("fresh", true), mRegE("mine", true),
		mRedirect(1, 5, "q", 0), mRedirect(0, 0, "", 0),
	}
}

func c19mixSetup() []c19mop {
	return []c19mop{mRegS("c19t"), mRegS("C19Up"), mRegE("mine", true), mRegE("minebad", false)}
}

func c19mixDirected(c *Ctx) {
	setup, rej, fol := c19mixSetup(), c19mixRejected(), c19mixFollowUps()
	cat := func(xs ...[]c19mop) []c19mop {
		var out []c19mop
		for _, x := range xs {
			out = append(out, x...)
		}
		return out
	}
	// fault at every site: every rejected operation followed by every follow-up
	for _, x := range rej {
		for _, y := range fol {
			c19mix(c, cat(setup, []c19mop{x, y}), "dir-mix")
		}
		c19mix(c, cat(setup, []c19mop{x}, fol), "dir-mix")
		// without any prior registration: only the built-ins
		c19mix(c, cat([]c19mop{x}, fol), "dir-mix")
	}
	c19mix(c, cat(setup, rej, fol), "dir-mix")
	c19mix(c, cat(setup, fol, rej, fol), "dir-mix")
	c19mix(c, nil, "dir-mix")
}

// a path for a mixed history: built from the schemes registered so far and the
// usual suspects
func c19mixPath(r *RNG, regd []string, i int) string {
	fail := r.Chance(25)
	base := fmt.Sprintf("ok%d.log", i)
	if fail {
		base = fmt.Sprintf("%s%d.log", c19marker, i)
	}
	switch r.Intn(10) {
	case 0, 1, 2:
		if len(regd) > 0 {
			return c19caseVariant(r, regd[r.Intn(len(regd))]) + "://h/" + base
		}
		return "file:///x/" + base
	case 3:
		return "/abs/" + base
	case 4:
		return c19caseVariant(r, "file") + ":///x/" + base
	case 5:
		return "rel/" + base
	case 6:
		if r.Bool() {
			return "stdout"
		}
		return "stderr"
	case 7:
		return c19failEarly[r.Intn(len(c19failEarly))]
	case 8:
		return c19url(r)
	}
	return c19mkPath(r.Intn(8), fail, i)
}

func c19mixPaths(r *RNG, regd []string, lo, hi int) []string {
	n := r.Range(lo, hi)
	if n == 0 {
		return nil
	}
	out := make([]string, n)
	for i := range out {
		out[i] = c19mixPath(r, regd, i)
	}
	return out
}

func c19mixRandom(c *Ctx, r *RNG) {
	n := r.Range(2, 12)
	ops := make([]c19mop, 0, n)
	var regd, encd []string
	prefixes := []string{"", "p", "pre: ", "[zap] "}
	for i := 0; i < n; i++ {
		switch k := r.Intn(100); {
		case k < 28: // RegisterSink: a new name, or an earlier one in another spelling
			nm := c19name(r)
			if len(regd) > 0 && r.Chance(45) {
				nm = c19caseVariant(r, regd[r.Intn(len(regd))])
			} else if r.Chance(10) {
				nm = c19caseVariant(r, "file")
			}
			ops = append(ops, mRegS(nm))
			regd = append(regd, nm)
		case k < 53:
			ops = append(ops, mOpen(r.Intn(3), c19mixPaths(r, regd, 0, 3)...))
		case k < 68: // RegisterEncoder: names are exact
			nm := c19name(r)
			if len(encd) > 0 && r.Chance(40) {
				nm = encd[r.Intn(len(encd))]
				if r.Chance(25) {
					nm = c19caseVariant(r, nm)
				}
			} else if r.Chance(10) {
				nm = c19pick(r, []string{"json", "console", "JSON"})
			}
			ops = append(ops, mRegE(nm, r.Chance(85)))
			encd = append(encd, nm)
		case k < 92:
			enc := c19pick(r, []string{"json", "json", "console", "", "nope", "JSON"})
			if len(encd) > 0 && r.Chance(40) {
				enc = encd[r.Intn(len(encd))]
			}
			b := c19build{encoding: enc, timeKey: r.Chance(70), encTime: r.Chance(85), level: r.Chance(85),
				out: c19mixPaths(r, regd, 0, 2), errp: c19mixPaths(r, regd, 0, 2), nw: r.Intn(3)}
			ops = append(ops, c19mop{kind: 3, b: b})
		default:
			lv := r.Range(-3, 8)
			if r.Chance(20) {
				lv = r.Range(-128, 127)
			}
			ops = append(ops, mRedirect(r.Intn(2), r.Intn(64), c19pick(r, prefixes), lv))
		}
	}
	c19mix(c, ops, "mix")
}

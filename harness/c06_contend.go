package main

// C06, class contend: the Sync of ioCore.Write under CONTENTION.
//
// Everywhere else in this check a terminal call runs alone: nobody else touches the WriteSyncer below the IO core
// between the core's Write and its Sync.  Here other goroutines keep the very same locked WriteSyncer
// (zapcore.Lock / zap.CombineWriteSyncers around BufferedWriteSyncers and recording sinks whose Write only stages
// and whose Sync commits) busy while a DPanic / Panic / Fatal call is made through the core:
//
//	scenario 0  a writer is parked INSIDE the sink (it holds the lock), the terminal call queues up behind it, an
//	            Info call through the same logger queues up behind that; then the gate opens (slow sink: every
//	            Write takes 1.5 ms, so the lock is handed from waiter to waiter)
//	scenario 1  the same with a direct writer (another core / another user of the same syncer) behind the call
//	scenario 2  a Sync of somebody else queued before the call, an Info call behind it
//	scenario 3  no gate: three goroutines write big chunks back to back through the slow sink
//	scenario 4  no gate: two goroutines log at Info through the same logger, one writes directly
//	scenario 5  parked writer, the call, then an Info call, a direct writer and a Sync behind it
//	stress      (Conc 6) for a bounded time direct writers, Info loggers and a Sync-er hammer the syncer while the
//	            calls of the case are made again and again
//
// Observation (the existing one, projected on the call): the Write / Sync events of the calling goroutine (a Write
// is the call's when it carries the call's message - every call has a message of its own -, every Sync is: nobody
// else logs above Error), the terminal action, and per recording sink the bytes OF THE CALL'S ENTRY that are not
// committed at the moment control is lost (read in the custom terminal hook, else in the deferred function of the
// calling goroutine).  What the other goroutines wrote is the environment's and is not accounted for.  The model
// and the oracle are the sequential ones: whoever else uses the sink, a Sync issued after a Write under the same
// lock commits that Write - 0 bytes pending.

import (
	"bytes"
	"fmt"
	"runtime"
	"sync"
	"sync/atomic"
	"time"

	"go.uber.org/zap"
	"go.uber.org/zap/zapcore"
)

// what the tops of the stacks report to
type c06contRT struct {
	mu      sync.Mutex
	marker  []byte
	events  []SX
	lens    []int
	entries map[int][]byte // leaf id -> the bytes the call at hand wrote to the leaf's sink
}

func (rt *c06contRT) reset(marker []byte) {
	rt.mu.Lock()
	rt.marker, rt.events, rt.lens, rt.entries = marker, nil, nil, map[int][]byte{}
	rt.mu.Unlock()
}

// the top of a stack (what the IO core writes to) when other goroutines write as well
type c06ctop struct {
	st *c06stack
	rt *c06contRT
}

func (t *c06ctop) Write(p []byte) (int, error) {
	rt := t.rt
	rt.mu.Lock()
	if rt.marker != nil && bytes.Contains(p, rt.marker) {
		rt.events = append(rt.events, L(I(0), I(t.st.id)))
		rt.lens = append(rt.lens, len(p))
		rt.entries[t.st.id] = append(rt.entries[t.st.id], p...)
	}
	rt.mu.Unlock()
	return t.st.top.Write(p)
}
func (t *c06ctop) Sync() error {
	rt := t.rt
	rt.mu.Lock()
	rt.events = append(rt.events, L(I(1), I(t.st.id)))
	rt.mu.Unlock()
	return t.st.top.Sync()
}

// the bytes of entry that committed does not hold (the entry goes through the stack as one piece: every stack of
// this class serialises its writers)
func c06entryPending(entry, committed []byte) int {
	if len(entry) == 0 || bytes.Contains(committed, entry) {
		return 0
	}
	for k := len(entry) - 1; k > 0; k-- {
		if bytes.HasSuffix(committed, entry[:k]) {
			return len(entry) - k
		}
	}
	return len(entry)
}

type c06contEnv struct {
	cs     *c06case
	lg     *zap.Logger
	stacks []*c06stack
	rt     *c06contRT
	big    []byte
}

func (x *c06contEnv) pending() SX {
	x.rt.mu.Lock()
	defer x.rt.mu.Unlock()
	ps := make([]SX, len(x.stacks))
	for i, st := range x.stacks {
		out := make([]SX, len(st.sinks))
		for k, s := range st.sinks {
			s.mu.Lock()
			out[k] = I(c06entryPending(x.rt.entries[st.id], s.committed))
			s.mu.Unlock()
		}
		ps[i] = L(out...)
	}
	return L(ps...)
}

// between two calls (nobody else is running): forget what the sinks hold
func (x *c06contEnv) forget() {
	for _, st := range x.stacks {
		for _, s := range st.sinks {
			s.mu.Lock()
			s.committed = s.committed[:0]
			s.mu.Unlock()
		}
	}
}

const c06contSlow = 1500 * time.Microsecond

func (x *c06contEnv) bystander(i int) {
	x.lg.Info("bystander", zap.Int("i", i), zap.ByteString("pad", x.big))
}

// one call under one scenario; call() makes it (and returns once control is back in the harness)
func (x *c06contEnv) scenario(sc int, target *c06stack, call func()) {
	ws := target.top // the locked syncer itself: what another core or another user of the sink writes to
	gs := target.sinks[0]
	park := sc == 0 || sc == 1 || sc == 2 || sc == 5
	var n atomic.Int32
	entered, gate := make(chan struct{}), make(chan struct{})
	h := func([]byte) {
		if park && n.Add(1) == 1 {
			close(entered)
			<-gate
		}
		time.Sleep(c06contSlow)
	}
	gs.onWrite.Store(&h)
	defer gs.onWrite.Store(nil)
	var wg sync.WaitGroup
	spawn := func(f func()) {
		wg.Add(1)
		go func() { defer wg.Done(); f() }()
	}
	pause := func() { time.Sleep(c06contSlow) }
	if park {
		spawn(func() { ws.Write(x.big); ws.Write(x.big) })
		select {
		case <-entered:
		case <-time.After(500 * time.Millisecond): // the big write did not reach the sink: no gate then
		}
		if sc == 2 {
			spawn(func() { ws.Sync() })
			pause()
		}
		spawn(call)
		pause()
		switch sc {
		case 0, 2:
			spawn(func() { x.bystander(0) })
		case 1:
			spawn(func() { ws.Write(x.big) })
		case 5:
			spawn(func() { x.bystander(0) })
			pause()
			spawn(func() { ws.Write(x.big) })
			spawn(func() { ws.Sync() })
		}
		pause()
		close(gate)
		wg.Wait()
		return
	}
	var stop atomic.Bool
	if sc == 3 {
		for g := 0; g < 3; g++ {
			spawn(func() {
				for i := 0; i < 3 || (i < 64 && !stop.Load()); i++ {
					ws.Write(x.big)
				}
			})
		}
	} else {
		for g := 0; g < 2; g++ {
			spawn(func() {
				for i := 0; i < 3 || (i < 64 && !stop.Load()); i++ {
					x.bystander(i)
				}
			})
		}
		spawn(func() {
			for i := 0; i < 3 || (i < 64 && !stop.Load()); i++ {
				ws.Write(x.big)
			}
		})
	}
	pause()
	pause()
	call()
	stop.Store(true)
	wg.Wait()
}

func c06runContend(cs *c06case) SX {
	env := c05newEnv(&c05case{cells: cs.Cells})
	x := &c06contEnv{cs: cs, rt: &c06contRT{entries: map[int][]byte{}}}
	x.big = append(bytes.Repeat([]byte("x"), 9000), '\n') // larger than every buffer of the class: goes straight to the sinks
	env.mkSink = func(id int) zapcore.WriteSyncer {
		st := &c06stack{id: id}
		st.top = st.build(cs.stackOf(id), nil)
		x.stacks = append(x.stacks, st)
		return &c06ctop{st: st, rt: x.rt}
	}
	defer func() {
		for _, st := range x.stacks {
			st.stop()
		}
	}()
	customRan, hook6Ran := -1, -1
	var seen []SX
	var pend SX
	snapshot := func() {
		if pend == nil {
			pend = x.pending()
		}
	}
	x.lg = c06logger(cs, env, &c06rt{
		custom: func(k int) { customRan = k; snapshot() },
		hook6:  func(k int) { hook6Ran = k },
		saw:    func(l zapcore.Level, msg, name string) { seen = append(seen, L(I(int(l)), Str(msg), Str(name))) },
	})
	// one call, from the reset of the recorders to its outcome as the observation spells it
	one := func(i int, around func(call func())) SX {
		cl := cs.Calls[i]
		customRan, hook6Ran, seen, pend = -1, -1, nil, nil
		x.forget()
		marker := []byte(cl.text())
		if k := bytes.IndexByte(marker, '#'); k >= 0 {
			marker = marker[:k+1]
		}
		x.rt.reset(marker)
		var o c06outcome
		around(func() { o = c06guarded(func() { c06invoke(x.lg, cl) }, snapshot) })
		x.rt.mu.Lock()
		evs, lens := x.rt.events, x.rt.lens
		x.rt.marker = nil
		x.rt.mu.Unlock()
		if cs.Calls[i].Lens == nil {
			cs.Calls[i].Lens = append([]int{}, lens...)
		}
		term := o.term()
		if customRan >= 0 && o.returned && hook6Ran < 0 {
			term = L(I(3), I(customRan))
		}
		if hook6Ran >= 0 {
			term = L(I(4), I(hook6Ran), term)
		}
		return L(L(evs...), term, pend, L(), L(seen...))
	}
	outs := make([]SX, len(cs.Calls))
	if cs.Noise.Conc == 5 {
		for i := range cs.Calls {
			sc := (cs.Noise.Reps + i) % 6
			target := x.stacks[(cs.Noise.Reps+i/6)%len(x.stacks)]
			outs[i] = one(i, func(call func()) { x.scenario(sc, target, call) })
		}
		return L(L(outs...), L())
	}
	// bounded stress: everybody hammers every stack; of the outcomes of a call the first is shipped unless a later
	// one differs from it (on the correct tree they are all alike)
	var stop atomic.Bool
	var wg sync.WaitGroup
	slow := func([]byte) { time.Sleep(200 * time.Microsecond) }
	for _, st := range x.stacks {
		st.sinks[0].onWrite.Store(&slow)
		ws := st.top
		for g := 0; g < 2; g++ {
			wg.Add(1)
			go func() {
				defer wg.Done()
				for !stop.Load() {
					ws.Write(x.big)
					runtime.Gosched()
				}
			}()
		}
		wg.Add(1)
		go func() {
			defer wg.Done()
			for !stop.Load() {
				ws.Sync()
				time.Sleep(300 * time.Microsecond)
			}
		}()
	}
	for g := 0; g < 2; g++ {
		wg.Add(1)
		go func() {
			defer wg.Done()
			for i := 0; !stop.Load(); i++ {
				x.bystander(i)
				runtime.Gosched()
			}
		}()
	}
	deadline := time.Now().Add(time.Duration(cs.Noise.Millis) * time.Millisecond)
	texts := make([]string, len(cs.Calls))
	differs := make([]bool, len(cs.Calls))
	for rep := 0; rep == 0 || time.Now().Before(deadline); rep++ {
		for i := range cs.Calls {
			if rep > 0 && time.Now().After(deadline) {
				break
			}
			o := one(i, func(call func()) { call() })
			if t := Render(o); rep == 0 {
				outs[i], texts[i] = o, t
			} else if t != texts[i] && !differs[i] {
				outs[i], differs[i] = o, true // keep the first outcome that differs
			}
		}
	}
	stop.Store(true)
	wg.Wait()
	for _, st := range x.stacks {
		st.sinks[0].onWrite.Store(nil)
	}
	return L(L(outs...), L())
}

// the stacks of the class: every one serialises its writers at the top (a lock, or the mutex of a
// BufferedWriteSyncer) and has a Lock somewhere above the recording sinks
func c06contendStacks() []*c06ws {
	return []*c06ws{
		wsLock(wsBuf(4096, wsSink())),                    // zapcore.Lock(&BufferedWriteSyncer{WS: sink})
		wsLock(wsMulti(wsBuf(4096, wsSink()), wsSink())), // zap.CombineWriteSyncers(buffered, plain)
		wsLock(wsSink()),                                 // a staging sink right below the lock
		wsLock(wsMulti(wsBuf(512, wsSink()))),            // zap.CombineWriteSyncers(buffered)
		wsLock(wsLock(wsBuf(1024, wsSink()))),            // locked twice
		wsLock(wsAddSync(wsBuf(256, wsSink()))),          //
		wsLock(wsBuf(2048, wsLock(wsSink()))),            // a second lock below the buffer
		wsLock(wsMulti(wsSink(), wsBuf(0, wsSink()))),    // default-size buffer next to a plain sink
		wsLock(wsBuf(64, wsBuf(4096, wsSink()))),         // "wrap twice" below the lock
		wsBuf(1024, wsLock(wsSink())),                    // the buffer's own mutex on top, the lock below
		wsLock(wsMulti(wsLock(wsBuf(128, wsSink())), wsLock(wsSink()), wsBuf(4096, wsSink()))),
	}
}

func c06contendPlan(c *Ctx, plan *c06plan, table []c06method) {
	never := fnOf(func(int) bool { return false })
	trees := []*c05node{
		leafN(0, thr(-1)),
		teeN(leafN(0, thr(-1)), leafN(1, thr(0))),
		teeN(leafN(0, thr(6)), leafN(1, thr(-1)), filtN(leafN(2, thr(-1)), never)),
		filtN(teeN(leafN(0, thr(-1)), leafN(1, thr(3))), thr(3)),
	}
	cPanic := []c06hook{{5, 7, 0}, {0, 0, 0}, {2, 0, 0}, {3, 0, 0}, {1, 0, 0}}
	cFatal := []c06hook{{5, 9, 0}, {2, 0, 0}, {3, 0, 0}}
	stacks := c06contendStacks()
	pairs := c06terminalPairs(table)
	r := NewRNG(c.Seed + 0xc06c).Fork()
	mkCalls := func(cs *c06case, k, want int) {
		stride := len(pairs) / want
		if stride < 1 {
			stride = 1
		}
		off := r.Intn(stride)
		for j := off; j < len(pairs); j += stride {
			cl := pairs[j]
			if cs.expectExit(cl.L) {
				continue
			}
			n := len(cs.Calls)
			// a message of its own (the recorders recognise the call's Writes by it), shorter / longer than the buffers
			text := fmt.Sprintf("c06 contended final words %d.%d#", k, n)
			switch (k + n) % 3 {
			case 1:
				text += string(c06longText(5000, n))
			case 2:
				text += string(c06longText(r.Range(40, 700), n))
			}
			cl.T = []byte(text)
			if cl.M.Recv == 4 {
				cl.V = (k + n) % 6 // Print / Println / Printf, both constructors
			}
			cs.Calls = append(cs.Calls, cl)
		}
	}
	ncases, per := 22, 14
	if c.Thorough {
		ncases, per = 132, 40
	}
	for k := 0; k < ncases; k++ {
		t := trees[k%len(trees)]
		nz := c06noise{Conc: 5, Reps: k}
		cs := &c06case{Tree: toJ(t), Dev: k%3 != 2, OnPanic: cPanic[k%len(cPanic)], OnFatal: cFatal[(k/2)%len(cFatal)], Variant: k % 2, Noise: &nz}
		_, leaves, _ := t.size()
		for l := 0; l < leaves; l++ {
			cs.Stacks = append(cs.Stacks, stacks[(k+3*l)%len(stacks)])
		}
		mkCalls(cs, k, per)
		plan.add(cs, "contend", "")
	}
	nstress, millis := 2, 400
	if c.Thorough {
		nstress, millis = 6, 3000
	}
	for k := 0; k < nstress; k++ {
		t := trees[k%2]
		nz := c06noise{Conc: 6, Reps: 1 << 20, Millis: millis}
		cs := &c06case{Tree: toJ(t), Dev: true, OnPanic: cPanic[k%len(cPanic)], OnFatal: cFatal[k%len(cFatal)], Variant: k % 2, Noise: &nz}
		_, leaves, _ := t.size()
		for l := 0; l < leaves; l++ {
			cs.Stacks = append(cs.Stacks, stacks[(2*k+l)%len(stacks)])
		}
		mkCalls(cs, 1000+k, 24)
		plan.add(cs, "contend-stress", "")
	}
}

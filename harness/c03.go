package main

// C03: every exported field constructor of zap / zapfield (enumerated from the source by
// gen/c03_ctors.go -> gen_c03_registry.go) is executed on boundary and random values of its
// parameter type; the returned Field and the calls Field.AddTo makes on a recording encoder are the
// observation.  zap.Any is run on the same values (dynamic type + implemented interfaces shipped
// with the case) and compared with the typed constructor; Field.Equals is run on pairs.
//
//	(0 #name #key val #stack (la lb))               -> (field calls) | (-1)
//	(1 dynty (iface..) #key val #typedname (la lb)) -> (anyfield anycalls typedfield equals) | (-1)
//	(2 (#name #key val) (#name #key val) (la lb))   -> (r12 r21 r11 r22)   r: 0 false, 1 true, 2 panic
//
// Concurrent calls (c03_conc.go).  The constructors and zap.Any are functions of their arguments and are
// called from many goroutines at once; classes "concurrent:*" / "concurrent-any:*" are cases of kind 0 / 1
// whose Field was returned by a call made WHILE other goroutines were calling zap.Any and the constructors
// on other dynamic types and values: every call whose Field differs from the one the same call returns
// when made alone, and a sample of the agreeing ones.
//
// Errors.  An error value is projected with everything an encoder can learn from it (c03EInfo: does
// Error() panic, on a nil pointer or not; the message; the %+v text of a fmt.Formatter; the members of an
// error group, recursively), and the recording encoder observes an error as the calls
// zapcore.encodeError makes for the value zap hands it: "the caller's error" and "something that
// forwards Error()" are different observations.
//
// Ambient state.  A Field is a value that is routinely encoded later than it is built (With,
// WithLazy, buffering / sampling cores, zaptest/observer), and what the encoder then receives must
// still be the value the caller supplied -- not something re-derived from a process global that has
// changed in the meantime.  The process global a Field could depend on is time.Local (time.Unix,
// time.Now, Time.Local read it), an assignable variable (`time.Local = time.UTC`).  Every case
// therefore carries (la lb): the identity of the location time.Local pointed to while the Field was
// built / while it was encoded (Equals pairs: while the first / the second Field was built).  In
// the "ambient" classes time.Local is re-pointed between the two moments: the values are made and
// the Fields built with time.Local = a, then time.Local = b, then Field.AddTo and Field.Equals.

import (
	"fmt"
	"math"
	"reflect"
	"time"

	"go.uber.org/zap"
	"go.uber.org/zap/zapcore"
)

type c03v struct {
	rv    reflect.Value // a value of exactly the parameter type
	sx    SX
	nt    bool // not the zero value
	kf    bool // holds a payload that does not equal itself (NaN inside a value-kind user payload)
	class string
}

var (
	c03ObjMType     = reflect.TypeOf((*zapcore.ObjectMarshaler)(nil)).Elem()
	c03ArrMType     = reflect.TypeOf((*zapcore.ArrayMarshaler)(nil)).Elem()
	c03ErrorType    = reflect.TypeOf((*error)(nil)).Elem()
	c03StringerType = reflect.TypeOf((*fmt.Stringer)(nil)).Elem()
	c03AnyType      = reflect.TypeOf((*interface{})(nil)).Elem()
	c03DurType      = reflect.TypeOf(time.Duration(0))
	c03AddrObjType  = reflect.TypeOf(c03AddrObj{})
)

func c03IntBoundaries(bits int) []int64 {
	min := int64(-1) << (bits - 1)
	max := -(min + 1)
	out := []int64{0, 1, -1, min, min + 1, max, max - 1}
	for _, k := range []int{7, 8, 15, 16, 31, 32, 53} {
		if k < bits-1 {
			out = append(out, int64(1)<<k, -(int64(1) << k), int64(1)<<k-1, -(int64(1)<<k)-1)
		}
	}
	return out
}
func c03UintBoundaries(bits int) []uint64 {
	max := ^uint64(0) >> (64 - bits)
	out := []uint64{0, 1, max, max - 1, uint64(1) << (bits - 1), uint64(1)<<(bits-1) - 1}
	for _, k := range []int{7, 8, 15, 16, 31, 32, 53} {
		if k < bits-1 {
			out = append(out, uint64(1)<<k, uint64(1)<<k-1)
		}
	}
	return out
}

var c03F64Bits = []uint64{0, 1 << 63, 0x3FF0000000000000, 0xBFF0000000000000, 0x7FF0000000000000, 0xFFF0000000000000,
	0x7FF8000000000000, 0x7FF0000000000001, 0x7FF8DEADBEEF0001, 0xFFF8000000000001, 0x7FEFFFFFFFFFFFFF, 1, 0x400921FB54442D18, 0x7FFFFFFFFFFFFFFF, 0xFFFFFFFFFFFFFFFF}
var c03F32Bits = []uint32{0, 1 << 31, 0x3F800000, 0xBF800000, 0x7F800000, 0xFF800000, 0x7FC00000, 0x7F800001, 0x7FC0BEEF, 0xFFC00001, 0x7F7FFFFF, 1, 0x40490FDB, 0x7FFFFFFF, 0xFFFFFFFF}

func c03Times() []time.Time {
	c03InitLocs()
	ny := c03Locs[len(c03Locs)-1]
	return []time.Time{
		{}, // zero time: year 1, outside the int64-nanosecond range
		time.Unix(0, 0), time.Unix(0, 0).UTC(),
		time.Unix(0, math.MinInt64), time.Unix(0, math.MinInt64).Add(-1), time.Unix(0, math.MinInt64).Add(1),
		time.Unix(0, math.MaxInt64), time.Unix(0, math.MaxInt64).Add(1), time.Unix(0, math.MaxInt64).Add(-1),
		time.Unix(0, math.MinInt64).UTC(), time.Unix(0, math.MaxInt64).In(c03Locs[2]), time.Unix(0, math.MaxInt64).Add(1).In(c03Locs[3]),
		time.Date(9999, 12, 31, 23, 59, 59, 999999999, time.UTC), time.Date(2262, 4, 11, 23, 47, 16, 854775807, time.UTC),
		time.Date(2262, 4, 11, 23, 47, 16, 854775808, c03Locs[4]), time.Date(1677, 9, 21, 0, 12, 43, 145224192, time.UTC),
		time.Date(1677, 9, 21, 0, 12, 43, 145224191, c03Locs[5]), time.Date(292277026596, 12, 4, 15, 30, 7, 999999999, time.UTC),
		time.Date(-292277022399, 1, 1, 0, 0, 0, 0, time.UTC), time.Date(2024, 2, 29, 12, 0, 0, 1, ny), time.Date(1969, 12, 31, 23, 59, 59, 999999999, c03Locs[2]),
		time.Now(), time.Now().UTC(), time.Now().In(c03Locs[3]),
		// in the zone that is local AT THIS MOMENT (time.Local is re-pointed by the ambient classes) ...
		time.Unix(1700000000, 123456789), time.Date(2024, 7, 1, 12, 0, 0, 0, time.Local), time.Unix(0, math.MaxInt64).Add(1).UTC().Local(),
		// ... and in each of the zones time.Local is, was or will be pointed to
		time.Unix(1700000000, 1).In(c03AmbLocs[0]), time.Unix(1700000000, 2).In(c03AmbLocs[1]), time.Unix(1700000000, 3).In(c03AmbLocs[2]),
		time.Unix(1700000000, 4).In(c03AmbLocs[3]), time.Unix(0, math.MinInt64).In(c03AmbLocs[4]), time.Unix(1700000000, 5).In(c03AmbLocs[len(c03AmbLocs)-1]),
	}
}

// time.Local is re-pointed from a to b between building a Field and encoding it
type c03amb struct{ a, b *time.Location }

// does a value of type t hold a time.Time (any: it may)
func c03TimeBearing(t reflect.Type) bool {
	switch {
	case t == nil:
		return false
	case t == c03TimeType || t == c03AnyType:
		return true
	case t.Kind() == reflect.Ptr || t.Kind() == reflect.Slice:
		return c03TimeBearing(t.Elem())
	}
	return false
}

type c03gen struct {
	r     *RNG
	depth int
}

func (g *c03gen) nanF(p int) float64 {
	if g.r.Chance(p) {
		return math.NaN()
	}
	return 0
}

// user payloads implementing the interface type t (never a nil interface here)
func (g *c03gen) userValue(t reflect.Type) interface{} {
	c := int64(g.r.Intn(4))
	f := g.nanF(20)
	sl := func() []float64 { return []float64{float64(c), f} }
	mp := func() map[string]float64 { return map[string]float64{"c": float64(c), "f": f} }
	reg := func(x interface{}) interface{} { c03Register(x); return x }
	var opts []func() interface{}
	switch t {
	case c03ObjMType:
		opts = []func() interface{}{
			func() interface{} { return c03ObjM{c, f} }, func() interface{} { return reg(&c03ObjPS{c, f}) },
			func() interface{} { return (*c03ObjPS)(nil) }, func() interface{} { return reg(c03ObjSl(sl())) },
			func() interface{} { return reg(c03ObjMap(mp())) }, func() interface{} { return c03ObjStrErr{c, f} },
			func() interface{} { return c03ObjArr{c, f} }}
	case c03ArrMType:
		opts = []func() interface{}{
			func() interface{} { return c03ArrM{c, f} }, func() interface{} { return reg(c03ArrSl(sl())) },
			func() interface{} { return c03ArrErr{c, f} }, func() interface{} { return c03ObjArr{c, f} }}
	case c03ErrorType:
		opts = []func() interface{}{
			func() interface{} { return c03Err{c, f} }, func() interface{} { return reg(&c03ErrPS{c, f}) },
			func() interface{} { return (*c03ErrPS)(nil) }, func() interface{} { return reg(c03ErrSl(sl())) },
			func() interface{} { return c03ErrStr{c, f} }, func() interface{} { return c03ObjStrErr{c, f} },
			func() interface{} { return c03ArrErr{c, f} },
			// errors that expose more than Error(): Formatters, groups, nil pointers / panicking Error methods
			func() interface{} { return c03ErrFmt{c, f} }, func() interface{} { return c03ErrFmtSame{c, f} },
			func() interface{} { return reg(&c03ErrFmtPS{c, f}) }, func() interface{} { return (*c03ErrFmtPS)(nil) },
			func() interface{} { return c03ErrGroup{c, f} }, func() interface{} { return reg(c03ErrMulti(sl())) },
			func() interface{} { return (*c03ErrV)(nil) }, func() interface{} { return reg(&c03ErrV{c, f}) },
			func() interface{} { return (*c03ErrFmtV)(nil) }, func() interface{} { return reg(&c03ErrFmtV{c, f}) },
			func() interface{} { return c03ErrPanic{c, f} }, func() interface{} { return reg(&c03ErrPanicPS{c, f}) }}
	case c03StringerType:
		opts = []func() interface{}{
			func() interface{} { return c03Stringer{c, f} }, func() interface{} { return reg(&c03StringerPS{c, f}) },
			func() interface{} { return (*c03StringerPS)(nil) }, func() interface{} { return reg(c03StringerSl(sl())) },
			func() interface{} { return reg(c03StringerMap(mp())) }, func() interface{} { return c03ErrStr{c, f} },
			func() interface{} { return c03ObjStrErr{c, f} }}
	default: // any
		opts = []func() interface{}{
			func() interface{} { return c03Plain{c, f} }, func() interface{} { return reg(&c03PlainPS{c, f}) },
			func() interface{} { return (*c03PlainPS)(nil) }, func() interface{} { return reg(c03PlainMap(mp())) },
			func() interface{} { return c03NamedInt(c) }, func() interface{} { return c03NamedDur(c) },
			func() interface{} { return g.userValue(c03ObjMType) }, func() interface{} { return g.userValue(c03ArrMType) },
			func() interface{} { return g.userValue(c03ErrorType) }, func() interface{} { return g.userValue(c03StringerType) }}
	}
	return opts[g.r.Intn(len(opts))]()
}

// Boundary values of the parameter type `error` (after nil): every way in which an error value can
// expose more -- or less -- than an Error() string, each with comparable and uncomparable dynamic types:
// plain errors; fmt.Formatter errors (a %+v form of their own; %+v equal to Error(); on the pointer);
// error groups (empty; nil members; nested groups, nil-pointer members; a member whose Error()
// panics; an uncomparable group that is also a Formatter); nil pointers whose Error method handles
// nil, and nil pointers on which it cannot be called; Error methods that panic.
func (g *c03gen) errorBoundaries() []func() interface{} {
	reg := func(x interface{}) interface{} { c03Register(x); return x }
	nan := math.NaN()
	return []func() interface{}{
		func() interface{} { return c03Err{1, 0} }, func() interface{} { return reg(&c03ErrPS{1, 0}) },
		func() interface{} { return (*c03ErrPS)(nil) }, func() interface{} { return reg(c03ErrSl{2, 0}) },
		func() interface{} { return c03ErrStr{1, 0} }, func() interface{} { return c03ObjStrErr{1, 0} },
		func() interface{} { return c03ArrErr{1, 0} },
		func() interface{} { return c03ErrFmt{1, 0} }, func() interface{} { return c03ErrFmtSame{1, 0} },
		func() interface{} { return reg(&c03ErrFmtPS{2, 0}) }, func() interface{} { return (*c03ErrFmtPS)(nil) },
		func() interface{} { return c03ErrGroup{0, 0} }, func() interface{} { return c03ErrGroup{1, 0} },
		func() interface{} { return c03ErrGroup{2, 0} }, func() interface{} { return c03ErrGroup{3, 0} },
		func() interface{} { return reg(c03ErrMulti{1, 0}) },
		func() interface{} { return (*c03ErrV)(nil) }, func() interface{} { return reg(&c03ErrV{1, 0}) },
		func() interface{} { return (*c03ErrFmtV)(nil) }, func() interface{} { return reg(&c03ErrFmtV{3, 0}) },
		func() interface{} { return c03ErrPanic{1, 0} }, func() interface{} { return reg(&c03ErrPanicPS{2, 0}) },
		func() interface{} { return c03ErrFmt{2, nan} }, func() interface{} { return reg(c03ErrMulti{3, nan}) },
	}
}

func c03IsKf(x interface{}) bool {
	id, ok := x.(c03ider)
	if !ok {
		switch v := x.(type) {
		case float64:
			return v != v
		case float32:
			return v != v
		case complex128:
			return v != v
		case complex64:
			return v != v
		}
		return false
	}
	_, _, f := id.c03id()
	k := reflect.ValueOf(x).Kind()
	return f != f && k != reflect.Ptr && k != reflect.Map && k != reflect.Slice
}

// the projection of a value drops its Go type, so values of different types under `any` are kept
// distinguishable by their contents
func c03PtrTo[T any](x T) *T { return &x }

// scalar values under `any` (Reflect / zap.Any)
func (g *c03gen) anyScalar() interface{} {
	opts := []interface{}{int(-5), int8(-128), int16(1 << 14), int32(math.MinInt32), int64(math.MaxInt64), uint(7), uint8(255), uint16(65535),
		uint32(math.MaxUint32), uint64(math.MaxUint64), uintptr(1 << 40), float64(1.5), math.NaN(), float32(2.5), complex(1, math.NaN()), complex64(complex(1, 2)),
		"text", true, []byte("bin"), []byte(nil), time.Duration(-1), time.Unix(0, 42).UTC(), time.Time{}, time.Unix(1700000000, 42), c03PtrTo(time.Unix(1700000000, 43)),
		[]int{1, -2}, []string{"a", ""}, []bool(nil), []float64{math.NaN()}, []time.Duration{1, 2}, []uint8{1, 2}, []int32{math.MinInt32},
		c03PtrTo(int(11)), c03PtrTo(true), c03PtrTo("p"), c03PtrTo(time.Duration(12)), c03PtrTo(float64(1.25)), c03PtrTo(uint8(13)), c03PtrTo(complex64(complex(1, 2))),

		[]error{c03Err{1, 0}, nil}, []zapcore.Field{zap.Int("i", 1), zap.String("s", "x")},
		[]error{nil, c03ErrFmt{1, 0}, c03ErrGroup{2, 0}, (*c03ErrV)(nil)}}
	return opts[g.r.Intn(len(opts))]
}

// a value of type t.  idx >= 0 selects the idx-th boundary value (ok=false when there are no more),
// idx < 0 draws a random one.
func (g *c03gen) value(t reflect.Type, idx int) (v c03v, ok bool) {
	r := g.r
	mk := func(x interface{}, s SX, nt bool) (c03v, bool) {
		rv := reflect.ValueOf(x)
		if rv.Type() != t {
			rv = rv.Convert(t)
		}
		return c03v{rv: rv, sx: s, nt: nt}, true
	}
	switch t.Kind() {
	case reflect.Bool:
		b := idx == 1 || (idx < 0 && r.Bool())
		if idx > 1 {
			return v, false
		}
		return mk(b, c03VBool(b), b)
	case reflect.Int, reflect.Int8, reflect.Int16, reflect.Int32, reflect.Int64:
		bs := c03IntBoundaries(t.Bits())
		var z int64
		if idx >= len(bs) {
			return v, false
		} else if idx >= 0 {
			z = bs[idx]
		} else {
			z = int64(r.Next()) >> uint(r.Intn(64))
			z = z << (64 - uint(t.Bits())) >> (64 - uint(t.Bits()))
		}
		rv := reflect.New(t).Elem()
		rv.SetInt(z)
		return c03v{rv: rv, sx: c03VI(z), nt: z != 0}, true
	case reflect.Uint, reflect.Uint8, reflect.Uint16, reflect.Uint32, reflect.Uint64, reflect.Uintptr:
		bs := c03UintBoundaries(t.Bits())
		var z uint64
		if idx >= len(bs) {
			return v, false
		} else if idx >= 0 {
			z = bs[idx]
		} else {
			z = r.Next() >> uint(r.Intn(64))
			z = z << (64 - uint(t.Bits())) >> (64 - uint(t.Bits()))
		}
		rv := reflect.New(t).Elem()
		rv.SetUint(z)
		return c03v{rv: rv, sx: c03VU(z), nt: z != 0}, true
	case reflect.Float64:
		var b uint64
		if idx >= len(c03F64Bits) {
			return v, false
		} else if idx >= 0 {
			b = c03F64Bits[idx]
		} else {
			b = r.Next()
			if r.Chance(15) {
				b |= 0x7FF0000000000000 // NaN / Inf payloads
			}
		}
		return mk(math.Float64frombits(b), c03VF64(b), b != 0)
	case reflect.Float32:
		var b uint32
		if idx >= len(c03F32Bits) {
			return v, false
		} else if idx >= 0 {
			b = c03F32Bits[idx]
		} else {
			b = uint32(r.Next())
			if r.Chance(15) {
				b |= 0x7F800000
			}
		}
		return mk(math.Float32frombits(b), c03VF32(b), b != 0)
	case reflect.Complex128:
		n := len(c03F64Bits)
		var a, b uint64
		if idx >= 2*n {
			return v, false
		} else if idx >= 0 {
			a, b = c03F64Bits[idx%n], c03F64Bits[(idx*7+idx/n*3)%n]
		} else {
			a, b = r.Next(), r.Next()
			if r.Chance(15) {
				b |= 0x7FF0000000000000
			}
		}
		c := complex(math.Float64frombits(a), math.Float64frombits(b))
		return mk(c, c03VC128(c), a != 0 || b != 0)
	case reflect.Complex64:
		n := len(c03F32Bits)
		var a, b uint32
		if idx >= 2*n {
			return v, false
		} else if idx >= 0 {
			a, b = c03F32Bits[idx%n], c03F32Bits[(idx*7+idx/n*3)%n]
		} else {
			a, b = uint32(r.Next()), uint32(r.Next())
			if r.Chance(15) {
				a |= 0x7F800000
			}
		}
		c := complex(math.Float32frombits(a), math.Float32frombits(b))
		return mk(c, c03VC64(c), a != 0 || b != 0)
	case reflect.String:
		bs := []string{"", "a", "h\u00e9llo \x00\xff\"\\\n", "0123456789012345678901234567890123456789012345678901234567890123456789"}
		var s string
		if idx >= len(bs) {
			return v, false
		} else if idx >= 0 {
			s = bs[idx]
		} else {
			s = string(r.Bytes(r.Intn(12), []byte("ab\x00\xff \"\\xyz\n")))
		}
		return mk(s, c03VStr(s), s != "")
	case reflect.Struct:
		switch t {
		case c03TimeType:
			ts := c03Times()
			var tm time.Time
			if idx >= len(ts) {
				return v, false
			} else if idx >= 0 {
				tm = ts[idx]
			} else {
				switch r.Intn(4) {
				case 0: // anywhere in the int64 range
					tm = time.Unix(0, int64(r.Next()))
				case 1: // near the boundaries
					if r.Bool() {
						tm = time.Unix(0, math.MaxInt64).Add(time.Duration(r.Intn(7) - 3))
					} else {
						tm = time.Unix(0, math.MinInt64).Add(time.Duration(r.Intn(7) - 3))
					}
				case 2: // outside the range
					tm = time.Unix(int64(r.Next())>>uint(1+r.Intn(30)), int64(r.Intn(1000000000)))
					if y := tm.Year(); y > 292277026000 || y < -292277022000 { // keep away from time.Time's own limits
						tm = time.Date(20000+r.Intn(1000), 1, 1, 0, 0, 0, r.Intn(1000000000), time.UTC)
					}
				default:
					tm = time.Unix(int64(r.Intn(1<<31)), int64(r.Intn(1000000000)))
				}
				if r.Chance(25) { // the zone that is local at this moment
					tm = tm.In(time.Local)
				} else {
					tm = tm.In(c03Locs[r.Intn(len(c03Locs))])
				}
			}
			return mk(tm, c03VTime(tm), !tm.IsZero())
		case c03AddrObjType:
			if idx > 4 {
				return v, false
			}
			o := c03AddrObj{int64(r.Intn(4)), g.nanF(20)}
			if idx >= 0 { // pairwise distinct contents, so that a slice of them shows which element was delivered
				o.C = int64(idx)
			}
			if idx == 1 {
				o.F = math.NaN()
			}
			return c03v{rv: reflect.ValueOf(o), sx: c03Opq(o), nt: true, kf: o.F != o.F}, true
		case c03FieldType:
			if idx > 12 {
				return v, false
			}
			f := g.field(idx)
			return c03v{rv: reflect.ValueOf(f.f), sx: c03ProjField(f.f), nt: true, kf: f.kf}, true
		}
	case reflect.Ptr:
		if idx == 0 || (idx < 0 && r.Chance(12)) {
			return c03v{rv: reflect.Zero(t), sx: c03VNil(), nt: false}, true
		}
		ei := idx - 1
		if idx < 0 {
			ei = -1
		}
		e, ok := g.value(t.Elem(), ei)
		if !ok {
			return v, false
		}
		p := reflect.New(t.Elem())
		p.Elem().Set(e.rv)
		return c03v{rv: p, sx: c03VPtr(e.sx), nt: true, kf: e.kf}, true
	case reflect.Slice:
		if t.Elem().Kind() == reflect.Uint8 && t.Name() == "" { // []byte
			backing := []byte("\x00backing\xffarray")
			bs := [][]byte{nil, {}, []byte("hello"), backing[1:4], backing[2:8], {0xff, 0, 0x80}}
			var b []byte
			if idx >= len(bs) {
				return v, false
			} else if idx >= 0 {
				b = bs[idx]
			} else {
				b = r.Bytes(r.Intn(10), []byte("ab\x00\xff\x80z"))
			}
			return c03v{rv: reflect.ValueOf(b), sx: c03VBytes(b), nt: len(b) > 0}, true
		}
		// nil, empty, singleton, every boundary element at once, an aliasing sub-slice (a window into the
		// middle of a larger backing array), every boundary element twice behind a prefix window, random
		var elems []c03v
		switch {
		case idx == 0:
			z := reflect.Zero(t)
			return c03v{rv: z, sx: c03VSlice(z, nil), nt: false}, true
		case idx == 1:
			z := reflect.MakeSlice(t, 0, 0)
			return c03v{rv: z, sx: c03VSlice(z, nil), nt: false}, true
		case idx >= 2 && idx <= 5:
			for i := 0; ; i++ {
				e, ok := g.value(t.Elem(), i)
				if !ok || i > 40 {
					break
				}
				elems = append(elems, e)
				if idx == 5 {
					elems = append(elems, e)
				}
			}
			if idx == 2 && len(elems) > 1 {
				elems = elems[len(elems)-1:]
			}
		case idx > 5:
			return v, false
		default:
			n := r.Intn(6)
			for i := 0; i < n; i++ {
				e, _ := g.value(t.Elem(), -1)
				elems = append(elems, e)
			}
		}
		s := reflect.MakeSlice(t, len(elems), len(elems)+2)
		kf := false
		for i, e := range elems {
			s.Index(i).Set(e.rv)
			kf = kf || e.kf
		}
		lo, hi := 0, len(elems)
		if idx == 4 && len(elems) > 2 { // aliasing: a window into a larger backing array
			lo, hi = 1, len(elems)-1
		}
		if idx == 5 && len(elems) > 1 { // a prefix of a larger backing array: same first address, other identity
			hi = len(elems) - 1
		}
		s = s.Slice(lo, hi)
		sxs := make([]SX, 0, hi-lo)
		for _, e := range elems[lo:hi] {
			sxs = append(sxs, e.sx)
		}
		return c03v{rv: s, sx: c03VSlice(s, sxs), nt: hi > lo, kf: kf}, true
	case reflect.Interface:
		var directed []func() interface{}
		if t == c03ErrorType {
			directed = g.errorBoundaries()
		}
		if (directed == nil && idx > 14) || (directed != nil && idx > len(directed)) {
			return v, false
		}
		rv := reflect.New(t).Elem()
		nilOK := t == c03ErrorType || t == c03AnyType
		if nilOK && (idx == 0 || (idx < 0 && r.Chance(10))) {
			return c03v{rv: rv, sx: c03VNil(), nt: false}, true
		}
		var x interface{}
		if directed != nil && idx >= 1 {
			x = directed[idx-1]()
		} else if t == c03AnyType && idx >= 0 && idx%3 == 0 { // an error under `any`: every boundary error in turn
			eb := g.errorBoundaries()
			x = eb[[]int{7, 13, 16, 20, 15}[(idx/3-1)%5]]() // Formatter, group, nil pointer, panicking Error, uncomparable group
		} else if t == c03AnyType && (idx%3 == 2 || (idx < 0 && r.Chance(35))) {
			x = g.anyScalar()
		} else {
			x = g.userValue(t)
		}
		rv.Set(reflect.ValueOf(x))
		return c03v{rv: rv, sx: c03Proj(x), nt: true, kf: c03IsKf(x)}, true
	}
	panic("c03: no generator for type " + t.String())
}

type c03built struct {
	f  zapcore.Field
	kf bool
}

// a Field for Dict's argument list
func (g *c03gen) field(idx int) c03built {
	r := g.r
	key := fmt.Sprintf("k%d", r.Intn(3))
	if idx < 0 {
		idx = r.Intn(13)
	}
	switch idx {
	case 0:
		return c03built{f: zap.Int64(key, int64(r.Next()))}
	case 1:
		return c03built{f: zap.String(key, "v")}
	case 2:
		return c03built{f: zap.Bool(key, r.Bool())}
	case 3:
		return c03built{f: zap.Float64(key, math.NaN())}
	case 4:
		return c03built{f: zap.Binary(key, []byte{1, 2})}
	case 5:
		return c03built{f: zap.Time(key, time.Unix(0, int64(r.Next())).UTC())}
	case 6:
		c := int64(r.Intn(4))
		switch r.Intn(4) {
		case 0:
			return c03built{f: zap.NamedError(key, c03ErrFmt{c, 0})}
		case 1:
			return c03built{f: zap.NamedError(key, c03ErrGroup{c, 0})}
		case 2:
			return c03built{f: zap.Errors(key, []error{c03ErrFmt{c, 0}, nil, (*c03ErrV)(nil)})}
		}
		return c03built{f: zap.NamedError(key, c03Err{c, 0})}
	case 7:
		return c03built{f: zap.Reflect(key, nil)}
	case 8:
		return c03built{f: zap.Ints(key, []int{1, -1, math.MinInt64})}
	case 9:
		return c03built{f: zap.Skip()}
	case 10:
		return c03built{f: zap.Namespace(key)}
	case 11:
		o := c03Stringer{int64(r.Intn(3)), g.nanF(30)}
		return c03built{f: zap.Stringer(key, o), kf: o.F != o.F}
	default:
		if g.depth >= 2 {
			return c03built{f: zap.Uint8(key, uint8(r.Next()))}
		}
		g.depth++
		defer func() { g.depth-- }()
		a, b := g.field(-1), g.field(-1)
		return c03built{f: zap.Dict(key, a.f, b.f), kf: a.kf || b.kf}
	}
}

// ---------- Go types -> gty encoding (C03/Model.v gty_of_sx) ----------

var c03UserTypeIDs = map[reflect.Type]int{}

func c03Gty(t reflect.Type) SX {
	if t == nil {
		return L(I(16), I(0))
	}
	num := func(i int) SX { return L(I(1), I(i)) }
	named := t.PkgPath() != ""
	switch {
	case t == c03DurType:
		return num(11)
	case t == c03TimeType:
		return L(I(8))
	case t == c03FieldType:
		return L(I(13))
	case named || t.Kind() == reflect.Map || t.Kind() == reflect.Array || t.Kind() == reflect.Struct || t.Kind() == reflect.Func ||
		t.Kind() == reflect.Chan || t.Kind() == reflect.Interface:
		id, ok := c03UserTypeIDs[t]
		if !ok {
			id = len(c03UserTypeIDs) + 1
			c03UserTypeIDs[t] = id
		}
		return L(I(16), I(id))
	}
	switch t.Kind() {
	case reflect.Bool:
		return L(I(0))
	case reflect.Int:
		return num(0)
	case reflect.Int64:
		return num(1)
	case reflect.Int32:
		return num(2)
	case reflect.Int16:
		return num(3)
	case reflect.Int8:
		return num(4)
	case reflect.Uint:
		return num(5)
	case reflect.Uint64:
		return num(6)
	case reflect.Uint32:
		return num(7)
	case reflect.Uint16:
		return num(8)
	case reflect.Uint8:
		return num(9)
	case reflect.Uintptr:
		return num(10)
	case reflect.Float64:
		return L(I(2))
	case reflect.Float32:
		return L(I(3))
	case reflect.Complex128:
		return L(I(4))
	case reflect.Complex64:
		return L(I(5))
	case reflect.String:
		return L(I(6))
	case reflect.Ptr:
		return L(I(11), c03Gty(t.Elem()))
	case reflect.Slice:
		if t.Elem().Kind() == reflect.Uint8 && t.Elem().PkgPath() == "" {
			return L(I(7))
		}
		if t.Elem() == c03ErrorType {
			return L(I(12), L(I(10), I(2)))
		}
		return L(I(12), c03Gty(t.Elem()))
	}
	return L(I(16), I(0))
}

func c03Impls(t reflect.Type) SX {
	var l []SX
	if t != nil {
		for i, it := range []reflect.Type{c03ObjMType, c03ArrMType, c03ErrorType, c03StringerType} {
			if t.Implements(it) {
				l = append(l, I(i))
			}
		}
	}
	return L(l...)
}

// ---------- running the real code ----------

func c03CallCtor(e genC03Ctor, key string, v c03v) (f zapcore.Field, panicked string) {
	defer func() {
		if p := recover(); p != nil {
			panicked = fmt.Sprint(p)
		}
	}()
	fn := reflect.ValueOf(e.Fn)
	var args []reflect.Value
	if e.HasKey {
		args = append(args, reflect.ValueOf(key).Convert(fn.Type().In(0)))
	}
	if e.HasVal {
		args = append(args, v.rv)
	}
	var out []reflect.Value
	if e.Variadic {
		out = fn.CallSlice(args)
	} else {
		out = fn.Call(args)
	}
	return out[0].Interface().(zapcore.Field), ""
}

func c03AddTo(f zapcore.Field) (calls SX, panicked string) {
	defer func() {
		if p := recover(); p != nil {
			panicked = fmt.Sprint(p)
		}
	}()
	rec := &c03rec{}
	f.AddTo(rec)
	rec.finish()
	return c03VCalls(rec.calls), ""
}

func c03Equals(a, b zapcore.Field) (res int) {
	defer func() {
		if p := recover(); p != nil {
			res = 2
		}
	}()
	if a.Equals(b) {
		return 1
	}
	return 0
}

func c03ValType(e genC03Ctor) reflect.Type {
	ft := reflect.TypeOf(e.Fn)
	if !e.HasVal {
		return nil
	}
	return ft.In(ft.NumIn() - 1)
}

type c03made struct {
	e   genC03Ctor
	key string
	v   c03v
	f   zapcore.Field
	la  int     // what time.Local pointed to while f was built
	amb *c03amb // non-nil: built in an ambient class
}

func (m c03made) triple() SX {
	return L(Str(m.e.Name), Str(m.key), m.v.sx)
}

var c03NoVal = c03v{sx: L(I(11))}

const c03KF = "equals-deepequal-nonreflexive"

func c03(c *Ctx) {
	c03InitLocs()
	r := NewRNG(c.Seed)
	g := &c03gen{r: r}
	nRandom := 12
	nPairs := 1500
	if c.Thorough {
		nRandom, nPairs = 600, 60000
	}
	keys := []string{"k", "", "key with \"quotes\" \x00\xff", "error"}
	var pool, ambMade []c03made
	perCtor := map[string][]c03made{}
	// whatever happens, C03 leaves time.Local as it found it
	defer c03SetLocal(c03OrigLocal)

	// One constructor on one value: build the Field (and zap.Any's Field for the same value) while
	// time.Local is what it is (amb != nil: amb.a, set by the caller BEFORE it made the value, so that
	// "local" times are local to amb.a), then -- amb != nil -- re-point time.Local to amb.b, then
	// encode both Fields and compare them.  time.Local is amb.a again on return.
	runCtor := func(e genC03Ctor, key string, v c03v, class string, amb *c03amb) {
		anyClass := "any"
		if amb != nil {
			anyClass = "ambient-any"
			defer c03SetLocal(amb.a)
		}
		anySx := v.sx
		if e.GoParam == "[]uint8" { // the same Go type as []byte, but a slice of integers for this constructor
			b := v.rv.Bytes()
			l := make([]SX, len(b))
			for i, x := range b {
				l[i] = c03VU(uint64(x))
			}
			v.sx = c03VSlice(v.rv, l)
		}
		// ---- moment 1: the Fields are built ----
		la := c03AmbID()
		f, p := c03CallCtor(e, key, v)
		stack := ""
		if e.Name == "Stack" || e.Name == "StackSkip" {
			stack = f.String
		}
		meta := map[string]string{"class": class + ":" + e.Name, "nt": "0", "ctor": e.Name}
		if v.nt {
			meta["nt"] = "1"
		}
		// zap.Any on the same value
		withAny := p == "" && e.HasVal && e.Name != "StackSkip"
		var (
			ain    SX
			ameta  map[string]string
			af, tf zapcore.Field
			ap     string
			tcName string
			dt     reflect.Type
		)
		if withAny {
			var x interface{}
			if v.rv.IsValid() && !(v.rv.Kind() == reflect.Interface && v.rv.IsNil()) {
				x = v.rv.Interface()
			}
			if x != nil {
				dt = reflect.TypeOf(x)
			}
			tcName, tf = e.Name, f
			if e.GoParam == "[]uint8" { // zap.Any cannot tell []uint8 from []byte: its typed counterpart is Binary
				tcName, tf = "Binary", zap.Binary(key, v.rv.Bytes())
			}
			ameta = map[string]string{"class": anyClass + ":" + e.Name, "nt": meta["nt"], "ctor": e.Name}
			func() {
				defer func() {
					if p := recover(); p != nil {
						ap = fmt.Sprint(p)
					}
				}()
				af = zap.Any(key, x)
			}()
		}
		// ---- between the two moments the ambient state changes ----
		if amb != nil {
			c03SetLocal(amb.b)
		}
		// ---- moment 2: the Fields are encoded and compared ----
		lb := c03AmbID()
		ambSx := L(I(la), I(lb))
		in := L(I(0), Str(e.Name), Str(key), v.sx, Str(stack), ambSx)
		if withAny {
			ain = L(I(1), c03Gty(dt), c03Impls(dt), Str(key), anySx, Str(tcName), ambSx)
		}
		if p != "" {
			c.Emit(in, L(Z(-1)), meta)
			return
		}
		// elements delivered by address are identified against the slice the caller passed
		c03ElemBase = reflect.Value{}
		if v.rv.IsValid() && v.rv.Kind() == reflect.Slice && v.rv.Type().Elem() == c03AddrObjType {
			c03ElemBase = v.rv
		}
		calls, p2 := c03AddTo(f)
		c03ElemBase = reflect.Value{}
		if p2 != "" {
			c.Emit(in, L(Z(-1)), meta)
		} else {
			c.Emit(in, L(c03ProjField(f), calls), meta)
			if stack == "" { // Stack fields hold environment-dependent text: not part of the Equals pairs
				m := c03made{e, key, v, f, la, amb}
				if amb != nil {
					ambMade = append(ambMade, m)
				} else {
					perCtor[e.Name] = append(perCtor[e.Name], m)
				}
				pool = append(pool, m)
			}
		}
		if !withAny || p2 != "" {
			return
		}
		if ap != "" {
			c.Emit(ain, L(Z(-1)), ameta)
			return
		}
		acalls, ap2 := c03AddTo(af)
		if ap2 != "" {
			c.Emit(ain, L(Z(-1)), ameta)
			return
		}
		c.Emit(ain, L(c03ProjField(af), acalls, c03ProjField(tf), I(c03Equals(af, tf))), ameta)
	}

	// 1. directed: every constructor at every boundary value of its parameter type
	for _, e := range genC03Ctors {
		t := c03ValType(e)
		if t == nil {
			for _, k := range keys[:2] {
				runCtor(e, k, c03NoVal, "boundary", nil)
			}
			continue
		}
		if e.Name == "StackSkip" {
			for i := 0; i < 3; i++ {
				runCtor(e, "st", c03v{rv: reflect.ValueOf(i), sx: c03VI(int64(i)), nt: i != 0}, "boundary", nil)
			}
			continue
		}
		for i := 0; ; i++ {
			v, ok := g.value(t, i)
			if !ok {
				break
			}
			runCtor(e, keys[i%len(keys)], v, "boundary", nil)
		}
	}
	// 2. random values
	for _, e := range genC03Ctors {
		t := c03ValType(e)
		if t == nil || e.Name == "StackSkip" {
			continue
		}
		for i := 0; i < nRandom; i++ {
			v, _ := g.value(t, -1)
			runCtor(e, keys[r.Intn(len(keys))], v, "random", nil)
		}
	}
	// 2b. ambient state: time.Local is re-pointed between building a Field and encoding it.  Every
	// ordered pair (a, b) of distinct locations out of c03AmbLocs (the original local zone, UTC, fixed
	// non-UTC zones, a zone named "Local", a tzdata zone): the values are made with time.Local = a (so
	// time.Unix / time.Now / time.Date(.., time.Local) / t.Local() values are in a, others are in UTC, in
	// fixed zones, in b), the Fields are built, time.Local = b, the Fields are encoded.  Constructors
	// whose parameter can hold a time.Time get every boundary value under every pair; all the others a
	// few values under two pairs each (nothing they deliver may depend on time.Local either).
	var ambs []c03amb
	for _, a := range c03AmbLocs {
		for _, b := range c03AmbLocs {
			if a != b {
				ambs = append(ambs, c03amb{a, b})
			}
		}
	}
	nAmbRandom := 2
	if c.Thorough {
		nAmbRandom = 40
	}
	ambRun := func(e genC03Ctor, t reflect.Type, amb c03amb, idx int) bool {
		c03SetLocal(amb.a)
		defer c03SetLocal(c03OrigLocal)
		v, ok := g.value(t, idx)
		if !ok {
			return false
		}
		k := keys[0]
		if idx < 0 {
			k = keys[r.Intn(len(keys))]
		} else {
			k = keys[idx%len(keys)]
		}
		runCtor(e, k, v, "ambient", &amb)
		return true
	}
	for ei, e := range genC03Ctors {
		t := c03ValType(e)
		if t == nil || e.Name == "StackSkip" {
			continue
		}
		if c03TimeBearing(t) {
			for _, amb := range ambs {
				for i := 0; ambRun(e, t, amb, i); i++ {
				}
				for i := 0; i < nAmbRandom; i++ {
					ambRun(e, t, amb, -1)
				}
			}
			continue
		}
		for j := 0; j < 2; j++ {
			amb := ambs[(2*ei+j*7)%len(ambs)]
			for i := 0; i < 3 && ambRun(e, t, amb, i); i++ {
			}
			ambRun(e, t, amb, -1)
		}
	}
	// 3. Field.Equals on pairs: a field with itself, with a field rebuilt from the same input, with
	// another value of the same constructor, with a field of another constructor under the same key
	skippedRepr := 0
	emitPair := func(a, b c03made, class string) {
		// The value model identifies a time.Time with (instant, Location()).  Go's == on time.Time also
		// sees the internal representation: a UTC time holds a nil *Location after t.UTC() / t.In(time.UTC)
		// and a non-nil one when it comes from time.Unix / time.Now while time.Local points to UTC.  Where a
		// Field holds the time.Time itself (instants outside the int64-nanosecond range; Reflect) two inputs with the
		// same projection that are not the same Go value are not "equal inputs" for ==, but the oracle could
		// not tell: such a pair is not emitted (counted in the info line time_repr_pairs_skipped).  Times
		// inside the range travel as (UnixNano, Location()) and are compared whatever their representation.
		if a.v.rv.IsValid() && b.v.rv.IsValid() && Render(a.triple()) == Render(b.triple()) && c03TimeReprDiffers(a.v.rv, b.v.rv) {
			skippedRepr++
			return
		}
		in := L(I(2), a.triple(), b.triple(), L(I(a.la), I(b.la)))
		meta := map[string]string{"class": "equals:" + class, "nt": "1"}
		if a.v.kf || b.v.kf {
			meta["kf"] = c03KF
		}
		c.Emit(in, L(I(c03Equals(a.f, b.f)), I(c03Equals(b.f, a.f)), I(c03Equals(a.f, a.f)), I(c03Equals(b.f, b.f))), meta)
	}
	// a Field built now, with time.Local pointing to loc (nil: left alone)
	build := func(e genC03Ctor, key string, v c03v, loc *time.Location) (c03made, bool) {
		if loc != nil {
			c03SetLocal(loc)
			defer c03SetLocal(c03OrigLocal)
		}
		la := c03AmbID()
		f, p := c03CallCtor(e, key, v)
		return c03made{e: e, key: key, v: v, f: f, la: la}, p == ""
	}
	for _, ms := range perCtorOrdered(perCtor) {
		for i, m := range ms {
			if i > 60 && !c.Thorough {
				break
			}
			// rebuilt from the same input (same Go value: shared pointers, aliasing slices)
			if m2, ok := build(m.e, m.key, m.v, nil); ok {
				emitPair(m, m2, "same-input")
			}
			// the next value of the same constructor, under the same key (so that the payloads are compared)
			n := ms[(i+1)%len(ms)]
			if m3, ok := build(n.e, m.key, n.v, nil); ok {
				emitPair(m, m3, "same-ctor")
			}
		}
	}
	// ambient state: the first Field was built with time.Local = a; the same Go value is turned into
	// a Field again after time.Local has been re-pointed to b (and, every other time, compared while
	// time.Local still points to b): same input, so the same Field, and Equal -- both ways
	for i, m := range ambMade {
		if !c.Thorough && !c03TimeBearing(c03ValType(m.e)) && i%2 == 1 {
			continue
		}
		func() {
			m2, ok := build(m.e, m.key, m.v, m.amb.b)
			if !ok {
				return
			}
			if i%2 == 0 {
				c03SetLocal(m.amb.b)
				defer c03SetLocal(c03OrigLocal)
			}
			emitPair(m, m2, "ambient-same-input")
			if n := ambMade[(i+1)%len(ambMade)]; n.e.Name == m.e.Name {
				if m3, ok := build(n.e, m.key, n.v, m.amb.b); ok {
					emitPair(m, m3, "ambient-same-ctor")
				}
			}
		}()
	}
	for i := 0; i < nPairs && len(pool) > 1; i++ {
		a := pool[r.Intn(len(pool))]
		b := pool[r.Intn(len(pool))]
		if r.Chance(70) { // same key, so that the payload comparison is reached
			var loc *time.Location // a Field of an ambient class: rebuilt under the OTHER location of its pair
			if b.amb != nil {
				loc = b.amb.b
			}
			b2, ok := build(b.e, a.key, b.v, loc)
			if !ok {
				continue
			}
			b = b2
		}
		emitPair(a, b, "cross")
	}
	// 4. concurrent calls: G goroutines call zap.Any and the constructors in parallel on different dynamic
	// types and values; every Field is compared with the one the same call returns when made alone (c03_conc.go)
	c03Concurrent(c, g, keys)
	c.Info("time_repr_pairs_skipped", fmt.Sprint(skippedRepr))
	c.Info("constructors", fmt.Sprint(len(genC03Ctors)))
	c.Info("user_types", fmt.Sprint(len(c03UserTypeIDs)))
}

// do two values of the same shape hold, at the same place, time.Time values that a Field stores as
// time.Time (instants outside the int64-nanosecond range; any time under an interface-typed
// parameter: Reflect, generic `any`) and that are not == ?
func c03TimeReprDiffers(a, b reflect.Value) bool { return c03TimeReprDiffers1(a, b, false) }

func c03TimeReprDiffers1(a, b reflect.Value, underIface bool) bool {
	if !a.IsValid() || !b.IsValid() || a.Type() != b.Type() {
		return false
	}
	if a.Type() == c03TimeType {
		ta, tb := a.Interface().(time.Time), b.Interface().(time.Time)
		return ta != tb && (underIface || ta.Before(time.Unix(0, math.MinInt64)) || ta.After(time.Unix(0, math.MaxInt64)))
	}
	switch a.Kind() {
	case reflect.Ptr, reflect.Interface:
		if a.IsNil() || b.IsNil() {
			return false
		}
		return c03TimeReprDiffers1(a.Elem(), b.Elem(), underIface || a.Kind() == reflect.Interface)
	case reflect.Slice:
		if a.Len() != b.Len() {
			return false
		}
		for i := 0; i < a.Len(); i++ {
			if c03TimeReprDiffers1(a.Index(i), b.Index(i), underIface) {
				return true
			}
		}
	}
	return false
}

func perCtorOrdered(m map[string][]c03made) [][]c03made {
	var out [][]c03made
	for _, e := range genC03Ctors {
		if l := m[e.Name]; len(l) > 0 {
			out = append(out, l)
		}
	}
	return out
}

func init() { registry["C03"] = c03 }

package main

// C16: bytes of one console-encoded entry (real consoleEncoder behind a real ioCore,
// With chain through Core.With) for every generated case.

func c16(c *Ctx) {
	r := NewRNG(c.Seed ^ 0xC16)
	n := 3500
	if c.Thorough {
		n = 120000
	}
	for i := 0; i < n; i++ {
		ec := genEncCase(r.Fork(), i%5 == 4)
		out, pmsg, panicked := ec.runJSON(true)
		if panicked {
			c.Viol("a panic escaped the console encoder: "+pmsg, ec.sx)
			c.Emit(ec.sx, L(), ec.meta)
			continue
		}
		c.Emit(ec.sx, L(B(out)), ec.meta)
	}
	// the same cases' lines must not depend on what else is being encoded at the same time (c16_conc.go)
	c16Concurrent(c)
	reportFloatMonitor(c)
}

func init() { registry["C16"] = c16 }

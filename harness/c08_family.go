package main

// C08, SHARED CONFIGURATION.  Not everything an encoder holds is pooled or per call.  The encoder a
// constructor returns keeps a POINTER to its EncoderConfig, and clone() copies that pointer: the
// logger's long-lived encoder, the per-call clone EncodeEntry works on, every encoder derived through
// With / Named / WithOptions / Clone / Core.With, and a console encoder's embedded JSON encoder all look
// at ONE EncoderConfig - the function-valued fields EncodeLevel / EncodeTime / EncodeDuration /
// EncodeCaller / EncodeName / NewReflectedEncoder, LineEnding, ConsoleSeparator, the keys.  A per-call
// path that ASSIGNS through that pointer (or to a field of the long-lived receiver) makes one unusual
// entry change how every later entry of every relative is encoded: the bytes of an identical call then
// depend on the history, which is exactly what C08 excludes - without any pool being involved.
//
// The places where zap deviates from the configured callbacks are its FALLBACK paths: an EncodeLevel /
// EncodeName / EncodeCaller that appends nothing makes EncodeEntry append Level.String() / the name /
// Caller.String() itself, an EncodeTime / EncodeDuration that appends nothing makes AppendTime /
// AppendDuration append nanoseconds.  Built-in callbacks never take these paths, always-silent ones
// always do; only a callback that is silent for SOME inputs (a switch over the seven standard levels
// with no default, a time encoder that skips times before 1970, a caller encoder that skips callers
// without a file, a name encoder that skips dotted names) puts a fallback in the MIDDLE of a history.
//
// This file therefore has
//   * PARTIAL CALLBACKS (c08PartCfg): every callback of the configuration is user-supplied, distinct
//     from all built-in ones, and silent for some inputs; LineEnding, ConsoleSeparator and
//     NewReflectedEncoder are non-default too, so that "reset to the default" is visible;
//   * FAMILIES (c08Family): one constructor call (JSON resp. console) and everything derived from it -
//     root Logger, With / Named / sibling / With-chain children kept alive, children made on the spot
//     (With, WithLazy, Sugar), the ioCore, a derived core, a tee, a bare Check+Write, the Encoder itself,
//     a kept Clone with context, a Clone made on the spot with Add* calls;
//   * UNUSUAL ENTRIES (c08FamTrigger): Level(42), Level(-7), an entry time before 1970 / the zero time,
//     a defined caller without a file, an undefined caller, a dotted name, an empty name, zero / old
//     time fields, negative / zero duration fields, arrays of those, a With context of those, reflected
//     values, everything at once;
//   * two LONG-LIVED families (one per process, like a service's logger): the probes
//     family-json-shared-config / family-console-shared-config make the same ordinary calls through
//     every member; history operation kind 20 sends an unusual (or ordinary) entry through a random
//     member, and a directed stage sends every unusual entry through every member, each followed by the
//     family's probe - judged by the oracle (equality with the fresh-state bytes);
//   * the probe family-fresh-partial-callbacks: two families made on the spot, the ordinary calls before
//     and after every unusual entry, compared inside the probe (reported even in a fresh state) and by
//     the oracle.

import (
	"encoding/json"
	"fmt"
	"io"
	"strconv"
	"strings"
	"sync"
	"time"

	"go.uber.org/zap"
	"go.uber.org/zap/zapcore"
)

// ---------- partial callbacks ----------

// knows the seven standard levels, appends nothing for any other
func c08PartLevel(l zapcore.Level, enc zapcore.PrimitiveArrayEncoder) {
	switch l {
	case zapcore.DebugLevel:
		enc.AppendString("D")
	case zapcore.InfoLevel:
		enc.AppendString("I")
	case zapcore.WarnLevel:
		enc.AppendString("W")
	case zapcore.ErrorLevel:
		enc.AppendString("E")
	case zapcore.DPanicLevel:
		enc.AppendString("DP")
	case zapcore.PanicLevel:
		enc.AppendString("P")
	case zapcore.FatalLevel:
		enc.AppendString("F")
	}
}

// knows no time before 1970 (and not the zero time)
func c08PartTime(t time.Time, enc zapcore.PrimitiveArrayEncoder) {
	if t.IsZero() || t.Unix() < 0 {
		return
	}
	enc.AppendString("t+" + strconv.FormatInt(t.UnixNano(), 10))
}

// knows positive durations only
func c08PartDuration(d time.Duration, enc zapcore.PrimitiveArrayEncoder) {
	if d <= 0 {
		return
	}
	enc.AppendString("d+" + strconv.FormatInt(int64(d/time.Microsecond), 10) + "us")
}

// skips callers without a file
func c08PartCaller(c zapcore.EntryCaller, enc zapcore.PrimitiveArrayEncoder) {
	if !c.Defined || c.File == "" {
		return
	}
	enc.AppendString("@" + c.TrimmedPath())
}

// skips empty and dotted names
func c08PartName(n string, enc zapcore.PrimitiveArrayEncoder) {
	if n == "" || strings.Contains(n, ".") {
		return
	}
	enc.AppendString("<" + n + ">")
}

// zap's default does not escape HTML; this one does
func c08PartReflect(w io.Writer) zapcore.ReflectedEncoder {
	e := json.NewEncoder(w)
	e.SetEscapeHTML(true)
	return e
}

func c08PartCfg() zapcore.EncoderConfig {
	return zapcore.EncoderConfig{
		MessageKey: "M", LevelKey: "L", TimeKey: "T", NameKey: "N", CallerKey: "C", FunctionKey: "F", StacktraceKey: "S",
		LineEnding: "|\r\n", ConsoleSeparator: " ; ",
		EncodeLevel: c08PartLevel, EncodeTime: c08PartTime, EncodeDuration: c08PartDuration,
		EncodeCaller: c08PartCaller, EncodeName: c08PartName, NewReflectedEncoder: c08PartReflect,
	}
}

// ---------- families ----------

// the one sink of a family: whoever observes the family binds it to a sink of his own
type c08Switch struct {
	mu sync.Mutex
	to *c08Sink
}

func (s *c08Switch) Write(p []byte) (int, error) {
	s.mu.Lock()
	to := s.to
	s.mu.Unlock()
	if to == nil {
		return len(p), nil
	}
	return to.Write(p)
}
func (*c08Switch) Sync() error { return nil }
func (s *c08Switch) bind(to *c08Sink) {
	s.mu.Lock()
	s.to = to
	s.mu.Unlock()
}

const (
	c08MLg       = iota // the root Logger
	c08MWith            // lg.With(...), kept alive
	c08MNamed           // lg.Named("fam"), kept alive
	c08MSib             // a second With child of the root
	c08MDeep            // a With child of the With child
	c08MSpot            // lg.With(...) made for the call
	c08MSugar           // lg.Sugar()
	c08MLazy            // lg.WithLazy(...) made for the call
	c08MOpts            // lg.WithOptions(AddCallerSkip, Fields) made for the call
	c08MCore            // the ioCore: Write
	c08MCoreKept        // core.With(...), kept alive
	c08MCoreSpot        // core.With(...) made for the call
	c08MTee             // a tee of the core and the kept derived core
	c08MBare            // core.Check(ent, nil).Write(...): no Logger
	c08MEnc             // the Encoder the constructor returned: EncodeEntry
	c08MEncKept         // enc.Clone() with context, kept alive
	c08MEncSpot         // enc.Clone() + Add* made for the call
	c08NFamMembers
)

var c08FamMemberNames = [c08NFamMembers]string{"lg", "lg-with", "lg-named", "lg-sibling", "lg-with-with", "lg-with-on-the-spot", "lg-sugar",
	"lg-withlazy-on-the-spot", "lg-withoptions-on-the-spot", "core", "core-with", "core-with-on-the-spot", "tee", "bare-check",
	"encoder", "encoder-clone", "encoder-clone-on-the-spot"}

type c08Family struct {
	console  bool
	sw       *c08Switch
	enc      zapcore.Encoder
	encKept  zapcore.Encoder
	core     zapcore.Core
	coreKept zapcore.Core
	lgs      [5]*zap.Logger
}

// ONE constructor call: every member is derived from its result, hence looks at the same EncoderConfig
func c08NewFamily(console bool) *c08Family {
	f := &c08Family{console: console, sw: &c08Switch{}}
	what := "JSON"
	if console {
		what = "console"
		f.enc = zapcore.NewConsoleEncoder(c08PartCfg())
	} else {
		f.enc = zapcore.NewJSONEncoder(c08PartCfg())
	}
	f.core = zapcore.NewCore(f.enc, f.sw, zapcore.Level(-128))
	f.coreKept = f.core.With([]zapcore.Field{zap.String("core", "with"), zap.Duration("cd", 3*time.Second)})
	f.encKept = f.enc.Clone()
	f.encKept.AddString("kept", "clone")
	f.encKept.AddTime("kt", time.Unix(1600000000, 0).UTC())
	lg := zap.New(f.core, zap.WithClock(c08Clock{}), zap.AddCaller(),
		zap.ErrorOutput(c08Quiet{"the " + what + " logger family (whose sink never fails)"}))
	f.lgs[c08MLg] = lg
	f.lgs[c08MWith] = lg.With(zap.Int("w", 1), zap.Time("wt", time.Unix(1650000000, 0).UTC()), zap.Namespace("ns"))
	f.lgs[c08MNamed] = lg.Named("fam")
	f.lgs[c08MSib] = lg.With(zap.String("sib", "s"))
	f.lgs[c08MDeep] = f.lgs[c08MWith].With(zap.Reflect("wr", []string{"<w>"}))
	return f
}

var c08Fams struct {
	once [2]sync.Once
	f    [2]*c08Family
}

// the long-lived families of the process
func c08Fam(console bool) *c08Family {
	i := 0
	if console {
		i = 1
	}
	c08Fams.once[i].Do(func() { c08Fams.f[i] = c08NewFamily(console) })
	return c08Fams.f[i]
}

// one entry, as far as a caller can determine it
type c08FamCall struct {
	lvl       zapcore.Level
	setT      bool // an entry time other than the clock's
	t         time.Time
	setCaller bool
	caller    zapcore.EntryCaller
	sub       string // an extra Named segment
	noName    bool   // the entry has no logger name
	msg       string
	fs        []zapcore.Field
	ctx       []zapcore.Field // a With context derived for this call
}

func (f *c08Family) emit(m int, c c08FamCall) {
	switch {
	case m <= c08MOpts:
		var l *zap.Logger
		switch m {
		case c08MSpot:
			l = f.lgs[c08MLg].With(zap.Int("spot", 1), zap.Duration("sd", time.Millisecond))
		case c08MLazy:
			l = f.lgs[c08MNamed].WithLazy(zap.Int("lazy", 1), zap.Time("lt", time.Unix(1500000000, 0).UTC()))
		case c08MOpts:
			l = f.lgs[c08MLg].WithOptions(zap.AddCallerSkip(1), zap.Fields(zap.String("opt", "o")))
		case c08MSugar:
			l = f.lgs[c08MLg]
		default:
			l = f.lgs[m]
		}
		if len(c.ctx) > 0 {
			l = l.With(c.ctx...)
		}
		if c.sub != "" {
			l = l.Named(c.sub)
		}
		plain := !c.setT && !c.setCaller && !c.noName
		switch {
		case plain && m == c08MSugar:
			args := make([]interface{}, len(c.fs))
			for i := range c.fs {
				args[i] = c.fs[i]
			}
			l.Sugar().Logw(c.lvl, c.msg, args...)
		case plain && m%2 == 0:
			l.Log(c.lvl, c.msg, c.fs...)
		default:
			if ce := l.Check(c.lvl, c.msg); ce != nil {
				if c.setT {
					ce.Time = c.t
				}
				if c.setCaller {
					ce.Caller = c.caller
				}
				if c.noName {
					ce.LoggerName = ""
				}
				ce.Write(c.fs...)
			}
		}
	default:
		ent := zapcore.Entry{Level: c.lvl, Time: c08Clock{}.Now(), LoggerName: "fam", Message: c.msg,
			Caller: zapcore.EntryCaller{Defined: true, File: "/srv/fam/member.go", Line: 40 + m, Function: "fam.member"}}
		if c.setT {
			ent.Time = c.t
		}
		if c.setCaller {
			ent.Caller = c.caller
		}
		if c.sub != "" {
			ent.LoggerName += "." + c.sub
		}
		if c.noName {
			ent.LoggerName = ""
		}
		if m >= c08MEnc {
			e := f.enc
			switch m {
			case c08MEncKept:
				e = f.encKept
			case c08MEncSpot:
				e = f.enc.Clone()
				e.AddString("spot", "clone")
				e.AddDuration("sd", 2*time.Millisecond)
				e.AddTime("st", time.Unix(1400000000, 0).UTC())
			}
			if len(c.ctx) > 0 { // never added to a long-lived member: its context would legitimately change
				e = e.Clone()
				for _, fld := range c.ctx {
					fld.AddTo(e)
				}
			}
			if buf, err := e.EncodeEntry(ent, c.fs); err == nil {
				_, _ = f.sw.Write(buf.Bytes())
				buf.Free()
			}
			return
		}
		core := f.core
		switch m {
		case c08MCoreKept:
			core = f.coreKept
		case c08MCoreSpot:
			core = f.core.With([]zapcore.Field{zap.Int("spot", 1), zap.Time("st", time.Unix(1450000000, 0).UTC())})
		case c08MTee:
			core = zapcore.NewTee(f.core, f.coreKept)
		}
		if len(c.ctx) > 0 {
			core = core.With(c.ctx)
		}
		if m == c08MBare {
			if ce := core.Check(ent, nil); ce != nil {
				ce.Write(c.fs...)
			}
			return
		}
		_ = core.Write(ent, c.fs)
	}
}

// the ordinary entry of member m: standard level, the clock's time, a caller with a file, no dotted name,
// values every callback knows
func c08FamOrdinary(m int) c08FamCall {
	return c08FamCall{
		lvl: [...]zapcore.Level{zapcore.InfoLevel, zapcore.WarnLevel, zapcore.ErrorLevel, zapcore.DebugLevel}[m%4],
		msg: "ordinary entry",
		fs: []zapcore.Field{zap.Int("member", m), zap.Time("at", time.Unix(1700000100, 5).UTC()), zap.Duration("took", 1500*time.Millisecond),
			zap.Times("ts", []time.Time{time.Unix(1, 0).UTC(), time.Unix(2, 0).UTC()}), zap.Durations("ds", []time.Duration{time.Second, time.Minute}),
			zap.Reflect("r", map[string]string{"tag": "<b>&"})},
	}
}

// the identical calls: the ordinary entry through every member, one after the other
func (f *c08Family) probe() {
	for m := 0; m < c08NFamMembers; m++ {
		f.emit(m, c08FamOrdinary(m))
	}
}

const c08NFamVariants = 14

var c08FamVariantNames = [c08NFamVariants + 1]string{"level-42", "level-minus-7", "entry-time-before-1970", "entry-time-zero",
	"caller-without-file", "caller-undefined", "dotted-name", "empty-name", "time-fields-zero-and-old", "duration-fields-negative-and-zero",
	"time-and-duration-arrays", "with-context-of-skipped-values", "reflected-values", "everything-at-once", "ordinary"}

type c08HTML struct {
	A string `json:"a"`
	B []string
}

// the unusual entry of variant v (v = c08NFamVariants: an ordinary one)
func c08FamTrigger(v, m int) c08FamCall {
	old, zero := time.Unix(-86400, 0).UTC(), time.Time{}
	c := c08FamCall{lvl: zapcore.InfoLevel, msg: "unusual entry", fs: []zapcore.Field{zap.Int("v", v)}}
	switch v {
	case 0:
		c.lvl = zapcore.Level(42)
	case 1:
		c.lvl = zapcore.Level(-7)
	case 2:
		c.setT, c.t = true, old
	case 3:
		c.setT, c.t = true, zero
	case 4:
		c.setCaller, c.caller = true, zapcore.EntryCaller{Defined: true}
	case 5:
		c.setCaller, c.caller = true, zapcore.EntryCaller{}
	case 6:
		c.sub = "a.b"
	case 7:
		c.noName = true
	case 8:
		c.fs = append(c.fs, zap.Time("zero", zero), zap.Time("old", old), zap.Time("fine", time.Unix(7, 0).UTC()))
	case 9:
		c.fs = append(c.fs, zap.Duration("neg", -time.Second), zap.Duration("none", 0), zap.Duration("fine", time.Hour))
	case 10:
		c.fs = append(c.fs, zap.Times("ts", []time.Time{zero, time.Unix(7, 0).UTC(), old}), zap.Durations("ds", []time.Duration{0, 5 * time.Second, -1}))
	case 11:
		c.ctx = []zapcore.Field{zap.Time("czero", zero), zap.Duration("cneg", -1), zap.Namespace("cns"), zap.Time("cold", old)}
	case 12:
		c.fs = append(c.fs, zap.Reflect("html", c08HTML{"<a href=\"x\">&</a>", []string{"<", ">"}}), zap.Reflect("bad", badJSON{}), zap.Reflect("nil", nil))
	case 13:
		c.lvl = zapcore.Level(42)
		c.setT, c.t = true, old
		c.setCaller, c.caller = true, zapcore.EntryCaller{Defined: true, Line: 3}
		c.sub = "x.y"
		c.ctx = []zapcore.Field{zap.Duration("cneg", -5), zap.Time("czero", zero)}
		c.fs = append(c.fs, zap.Time("zero", zero), zap.Duration("neg", -time.Minute), zap.Times("ts", []time.Time{old}),
			zap.Durations("ds", []time.Duration{0}), zap.Reflect("html", c08HTML{A: "<>"}))
	default:
		c = c08FamOrdinary(m)
		c.msg = "ordinary entry of the history"
	}
	return c
}

// ---------- history operation kind 20: an entry through a member of a long-lived family ----------
const c08KFamily = 20

// set by the directed stage: (console, member, variant) of the next family operation
var c08FamPlan *[3]int

func c08FamLabel(console bool, m, v int) string {
	enc := "json"
	if console {
		enc = "console"
	}
	return "family-" + enc + "." + c08FamMemberNames[m] + "." + c08FamVariantNames[v]
}

// the abstract history item: the pooled operation the call amounts to; elements ten and eleven (member *
// 100 + variant, label) are kept for the replay and not read by the model, whose configurations are
// values (coq/theories/C08/Shared.v is where sharing is modelled)
func c08FamAbs(console bool, m, v int) SX {
	k := 0
	if console {
		k = 1
	}
	flags := 0
	switch {
	case v == 11 || v == 13:
		k, flags = 2, k
	case m <= c08MOpts:
		k, flags = 3, 2
	case m == c08MBare:
		k = 6
	}
	return L(I(k), I(2), I(1), I(0), I(0), I(0), I(flags), I(0), I(0), I(m*100+v), sz{c08FamLabel(console, m, v)})
}

func c08FamOp(sc *c08Scope, r *RNG, quiet func(func())) (desc SX, class string) {
	console, m, v := r.Bool(), r.Intn(c08NFamMembers), r.Intn(c08NFamVariants+2)
	if v > c08NFamVariants {
		v = c08NFamVariants
	}
	if pl := c08FamPlan; pl != nil {
		console, m, v = pl[0] == 1, pl[1], pl[2]
	}
	quiet(func() {
		fam := c08Fam(console)
		fam.sw.bind(sc.sink(0, false))
		defer fam.sw.bind(nil)
		fam.emit(m, c08FamTrigger(v, m))
	})
	return c08FamAbs(console, m, v), "f"
}

// ---------- probes ----------
func c08FamilyProbes(seed uint64, add func(kind int, label string, sx SX, abs SX, run func(sc *c08Scope, act int) []byte)) {
	long := func(console bool) func(sc *c08Scope, act int) []byte {
		return func(sc *c08Scope, act int) []byte {
			fam := c08Fam(console)
			s := sc.sink(act, false)
			fam.sw.bind(s)
			defer fam.sw.bind(nil)
			fam.probe()
			return append([]byte(nil), s.Bytes()...)
		}
	}
	add(1, "family-json-shared-config", nil, c08Abs(3, 3, 1, 0, 0, 0, 2), long(false))
	add(1, "family-console-shared-config", nil, c08Abs(3, 3, 1, 0, 0, 0, 2), long(true))
	// two families made on the spot: the ordinary calls before and after every unusual entry (through three
	// members per kind of entry, rotating with the seed; the directed stage of c08 covers all of them on the
	// long-lived families)
	add(1, "family-fresh-partial-callbacks", nil, c08Abs(3, 3, 1, 0, 0, 0, 2), func(sc *c08Scope, act int) []byte {
		var out []byte
		for _, console := range []bool{false, true} {
			fam := c08NewFamily(console)
			s := sc.sink(act, false)
			fam.sw.bind(s)
			take := func() []byte {
				b := append([]byte(nil), s.Bytes()...)
				s.Reset()
				return b
			}
			same := make([]*c08Same, c08NFamMembers)
			for m := range same {
				same[m] = &c08Same{what: c08FamLabel(console, m, c08NFamVariants), after: "nothing"}
			}
			// the ordinary calls: recorded the first time, compared with it every other time
			small := func(after string, members ...int) {
				for _, m := range members {
					fam.emit(m, c08FamOrdinary(m))
					same[m].after = after
					b := take()
					same[m].check(b)
					if same[m].n == 1 {
						out = append(out, b...)
					}
				}
			}
			all := make([]int, c08NFamMembers)
			for m := range all {
				all[m] = m
			}
			small("nothing", all...)
			for v := 0; v < c08NFamVariants; v++ {
				var since []string
				for i := 0; i < 3; i++ {
					m := (int(seed%uint64(c08NFamMembers)) + 7*v + 6*i) % c08NFamMembers
					fam.emit(m, c08FamTrigger(v, m))
					out = append(out, []byte(fmt.Sprintf("<%s:", c08FamLabel(console, m, v)))...)
					out = append(out, take()...)
					out = append(out, '>')
					since = append(since, c08FamLabel(console, m, v))
					if act == 0 {
						// right away: the member itself, the root logger, the encoder, one more
						small("the entry "+c08FamLabel(console, m, v), m, c08MLg, c08MEnc, (m+5+v)%c08NFamMembers)
					}
				}
				// every member (with active sinks, whose every Write logs, blocks or yields: four times in all)
				if act == 0 || v%4 == 1 || v == c08NFamVariants-1 {
					small("the entries "+strings.Join(since, ", "), all...)
				}
			}
			fam.sw.bind(nil)
		}
		return out
	})
}

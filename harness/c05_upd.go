package main

import (
	"encoding/json"
	"flag"
	"fmt"
	"io"
	"net/http"
	"net/http/httptest"
	"net/url"
	"strconv"
	"strings"
	"sync"
	"unicode/utf8"

	"go.uber.org/zap"
	"go.uber.org/zap/zapcore"
	"go.uber.org/zap/zapgrpc"
	"gopkg.in/yaml.v3"
)

// C05: every way the API offers to change a shared AtomicLevel, through any of its handles.
//
// An AtomicLevel value is a handle on one shared cell: the copy a core was built with, the Level
// field of a live zap.Config, the handler registered with a mux and plain copies all share it.
// Besides SetLevel the cell changes through UnmarshalText (directly, via flag.TextVar, via
// json/yaml decoding into a live AtomicLevel or Config) and through the ServeHTTP PUT handler.
// Whatever the route and the handle, every core/logger/wrapper derived EARLIER must honour the
// change on its next call (model: C05/Updates.v; wire format: C05/Model.v ops 6, 7).

const (
	c05rSet       = 0 // SetLevel (op kind 0)
	c05rUnmarshal = 1
	c05rFlag      = 2
	c05rJSON      = 3
	c05rYAML      = 4
	c05rPutJSON   = 5
	c05rPutForm   = 6
)

const c05levelPath = "/log/level"

// handles on the cells other than the variables the cores are built from; all of them are made
// BEFORE the cores are built
type c05handles struct {
	env   *c05env
	early []zap.AtomicLevel // plain copies
	cfgs  []*zap.Config     // live Configs whose Level field holds a copy
	muxes []*http.ServeMux  // a copy registered as the handler of /log/level
}

func c05liveConfig(lvl zap.AtomicLevel) *zap.Config {
	cfg := zap.NewProductionConfig()
	cfg.Level = lvl
	cfg.Sampling = nil
	cfg.OutputPaths = nil
	cfg.ErrorOutputPaths = nil
	cfg.DisableCaller = true
	cfg.DisableStacktrace = true
	return &cfg
}

func c05newHandles(env *c05env) *c05handles {
	hs := &c05handles{env: env}
	for _, al := range env.cells {
		hs.early = append(hs.early, al)
		hs.cfgs = append(hs.cfgs, c05liveConfig(al))
		mux := http.NewServeMux()
		mux.Handle(c05levelPath, al)
		hs.muxes = append(hs.muxes, mux)
	}
	return hs
}

// the handle of kind hk on cell a: 0 the variable the cores were built from, 1 a copy of the
// struct made now, 2 the Level field of the live Config, 3 the copy made before the cores were built
func (hs *c05handles) handle(a, hk int) *zap.AtomicLevel {
	switch hk {
	case 0:
		return &hs.env.cells[a]
	case 1:
		v := hs.env.cells[a]
		return &v
	case 2:
		return &hs.cfgs[a].Level
	}
	return &hs.early[a]
}

// documents denoting a text exactly (encoding/json and yaml.v3 are oracles: a text they do not
// round-trip is not sent by that route)
func c05jsonDoc(text string) ([]byte, bool) {
	doc, err := json.Marshal(text)
	var back string
	if err != nil || json.Unmarshal(doc, &back) != nil || back != text {
		return nil, false
	}
	return doc, true
}

func c05yamlDoc(text string) (doc []byte, ok bool) {
	if !utf8.ValidString(text) {
		return nil, false
	}
	defer func() {
		if recover() != nil {
			doc, ok = nil, false
		}
	}()
	doc, err := yaml.Marshal(text)
	var back string
	if err != nil || yaml.Unmarshal(doc, &back) != nil || back != text {
		return nil, false
	}
	return doc, true
}

// can the text be sent by the route without the carrier changing it?
func c05routeCarries(route int, text string) bool {
	switch route {
	case c05rJSON, c05rPutJSON:
		_, ok := c05jsonDoc(text)
		return ok
	case c05rYAML:
		_, ok := c05yamlDoc(text)
		return ok
	case c05rPutForm:
		v, err := url.ParseQuery("level=" + url.QueryEscape(text))
		return err == nil && v.Get("level") == text
	}
	return true
}

// send the text to cell a by the route, through the handle of kind hk; reports whether the route
// succeeded and what Level() says afterwards through the handle used
func (hs *c05handles) update(a, route, hk int, text string) (ok bool, after zapcore.Level) {
	h := hs.handle(a, hk)
	switch route {
	case c05rFlag:
		fs := flag.NewFlagSet("c05", flag.ContinueOnError)
		fs.SetOutput(io.Discard)
		fs.TextVar(h, "level", *h, "log level")
		ok = fs.Parse([]string{"-level=" + text}) == nil
	case c05rJSON:
		doc, _ := c05jsonDoc(text)
		if hk == 2 { // hot reload: the document is decoded into the live Config
			ok = json.Unmarshal([]byte(`{"level":`+string(doc)+`}`), hs.cfgs[a]) == nil
		} else {
			ok = json.Unmarshal(doc, h) == nil
		}
	case c05rYAML:
		doc, _ := c05yamlDoc(text)
		if hk == 2 {
			ok = yaml.Unmarshal(append([]byte("level: "), doc...), hs.cfgs[a]) == nil
		} else {
			ok = yaml.Unmarshal(doc, h) == nil
		}
	case c05rPutJSON, c05rPutForm:
		var req *http.Request
		if route == c05rPutJSON {
			doc, _ := c05jsonDoc(text)
			req = httptest.NewRequest(http.MethodPut, c05levelPath, strings.NewReader(`{"level":`+string(doc)+`}`))
			req.Header.Set("Content-Type", "application/json")
		} else {
			req = httptest.NewRequest(http.MethodPut, c05levelPath, strings.NewReader("level="+url.QueryEscape(text)))
			req.Header.Set("Content-Type", "application/x-www-form-urlencoded")
		}
		rec := httptest.NewRecorder()
		if hk == 3 {
			hs.muxes[a].ServeHTTP(rec, req)
		} else {
			h.ServeHTTP(rec, req)
		}
		ok = rec.Code == http.StatusOK
	default:
		ok = h.UnmarshalText([]byte(text)) == nil
	}
	return ok, h.Level()
}

// ---------- a root logger built by a live zap.Config ----------
// Case mode 1 (and at least one cell): the logger is cfg.Build(WrapCore(c => NewTee(c, tree))) for
// the live Config of cell 0, i.e. the core tree of the case is
//
//	NewTee(<the ioCore Config.Build makes over cfg.Level>, tree)
//
// and that is the tree the case text shows: the Config's own core is IO leaf c05cfgLeaf on cell 0.
// Its output path is a registered sink that records the writes like c05sink does.
const c05cfgLeaf = 900

var (
	c05memEnvs sync.Map // key -> *c05env
	c05memNext int
	c05memLock sync.Mutex
)

type c05memSink struct{ *c05sink }

func (c05memSink) Close() error { return nil }

func init() {
	err := zap.RegisterSink("c05mem", func(u *url.URL) (zap.Sink, error) {
		env, ok := c05memEnvs.Load(u.Host)
		if !ok {
			return nil, fmt.Errorf("c05mem: no environment %q", u.Host)
		}
		return c05memSink{&c05sink{env.(*c05env), c05cfgLeaf}}, nil
	})
	if err != nil {
		panic(err)
	}
}

func (cs *c05case) viaConfig() bool { return cs.mode == 1 && len(cs.cells) > 0 }

// the tree the model is shown
func (cs *c05case) shownTree() *c05node {
	if cs.viaConfig() {
		return teeN(leafN(c05cfgLeaf, atom(0)), cs.tree)
	}
	return cs.tree
}

func (hs *c05handles) buildViaConfig(tree zapcore.Core, opts []zap.Option) *zap.Logger {
	c05memLock.Lock()
	c05memNext++
	key := "e" + strconv.Itoa(c05memNext)
	c05memLock.Unlock()
	c05memEnvs.Store(key, hs.env)
	defer c05memEnvs.Delete(key)
	cfg := hs.cfgs[0]
	cfg.OutputPaths = []string{"c05mem://" + key}
	cfg.EncoderConfig = c05encCfg
	wrap := zap.WrapCore(func(own zapcore.Core) zapcore.Core { return zapcore.NewTee(own, tree) })
	lg, err := cfg.Build(append([]zap.Option{wrap}, opts...)...)
	if err != nil {
		panic(err)
	}
	return lg
}

// ---------- loggers derived in the course of a history ----------
// a logger with the front ends that are derived from it once (sugar, gRPC adapters): they too are
// "derived earlier" when the level changes
type c05lg struct {
	lg *zap.Logger
	s  *zap.SugaredLogger
	g  *zapgrpc.Logger
	gd *zapgrpc.Logger // WithDebug: Print* log at debug
}

func c05newLg(lg *zap.Logger) *c05lg {
	return &c05lg{lg: lg, s: lg.Sugar(), g: zapgrpc.NewLogger(lg), gd: zapgrpc.NewLogger(lg, zapgrpc.WithDebug())}
}

// derive kinds (Model.v [derive])
func c05derive(env *c05env, cur *zap.Logger, o c05op, i int) *zap.Logger {
	t := zapcore.Level(o.v)
	switch o.n {
	case 0:
		return cur.With(zap.Int("k", i))
	case 1:
		return cur.WithLazy(zap.Int("lz", i))
	case 2:
		return cur.Named(fmt.Sprintf("n%d", i))
	case 3:
		return cur.WithOptions(zap.AddCallerSkip(1))
	case 4:
		return cur.Sugar().Desugar()
	case 5:
		return cur.WithOptions(zap.IncreaseLevel(t))
	case 6:
		return cur.WithOptions(zap.Hooks(env.hookFn(o.a)))
	case 7:
		return cur.WithOptions(zap.WrapCore(func(c zapcore.Core) zapcore.Core { return zapcore.RegisterHooks(c, env.hookFn(o.a)) }))
	}
	return cur.WithOptions()
}

// ---------- texts ----------
var c05names = []string{"debug", "info", "warn", "error", "dpanic", "panic", "fatal"}

// texts that name no level
var c05badTexts = []string{"trace", "Level(3)", "3", "-1", "inf", "debug ", " warn", "errorr", "d", "FATAL!", "İNFO", "warn\n", "de bug", "null", "off"}

func c05cap(name string) string {
	if name == "" {
		return name
	}
	return strings.ToUpper(name[:1]) + name[1:]
}

func c05spell(r *RNG, name string) string {
	switch r.Intn(4) {
	case 0:
		return name
	case 1:
		return strings.ToUpper(name)
	case 2:
		return c05cap(name)
	}
	b := []byte(name)
	for i := range b {
		if r.Bool() {
			b[i] = b[i] - 'a' + 'A'
		}
	}
	return string(b)
}

func (g *c05gen) text() string {
	x := g.r.Intn(100)
	switch {
	case x < 8:
		return ""
	case x < 22:
		return c05badTexts[g.r.Intn(len(c05badTexts))]
	case x < 30:
		return c05spell(g.r, "warning")
	}
	return c05spell(g.r, c05names[g.r.Intn(len(c05names))])
}

// an update of cell a: SetLevel or a text by some route, through some handle
func (g *c05gen) updateOp(a int) c05op {
	hk := g.r.Intn(4)
	if g.r.Chance(35) {
		return c05op{kind: 0, a: a, v: g.level(), hk: hk}
	}
	route := g.r.Range(1, 6)
	text := g.text()
	if !c05routeCarries(route, text) {
		route = c05rUnmarshal
	}
	return c05op{kind: 6, a: a, route: route, hk: hk, text: text}
}

func updN(a, route, hk int, text string) c05op {
	return c05op{kind: 6, a: a, route: route, hk: hk, text: text}
}

// ---------- directed histories ----------
// after a change: handles of two kinds read every cell, then count of the total loggers derived so
// far (starting with number from) report their level and log - each through other families and at
// other levels as step advances
func c05probeOps(ncells, total, count, from, step int) []c05op {
	var ops []c05op
	for a := 0; a < ncells; a++ {
		ops = append(ops, c05op{kind: 7, a: a, hk: (a + step) % 4}, c05op{kind: 7, a: a, hk: (a + step + 2) % 4})
	}
	fams := []int{0, 4, 2, 1, 6, 5, 3, 7, 8, 9, 10, 11}
	for k := 0; k < count; k++ {
		j := (from + k) % total
		ops = append(ops, c05op{kind: 8, n: j}, c05op{kind: 3})
		for q := 0; q < 3; q++ {
			fam := fams[(step+k*3+q)%len(fams)]
			lv := c05famLevels(fam)
			l := int8((step+k+q*2)%5 - 1)
			if lv != nil {
				l = lv[(step+k+q)%len(lv)]
			}
			ops = append(ops, c05op{kind: 2, v: l}, c05op{kind: 1, fam: fam, v: l})
		}
		ops = append(ops, c05op{kind: 4, n: (step + k) % 4})
	}
	return ops
}

// the loggers derived before any change: With, WithLazy, Named, Sugar().Desugar(), WithOptions,
// IncreaseLevel (accepted or not), With of the lazy one - all from the root or from each other
func c05deriveOps() (ops []c05op, n int) {
	ops = []c05op{
		{kind: 5, n: 0},       // 1: root.With
		{kind: 5, n: 2},       // 2: .Named
		{kind: 8, n: 0},       //
		{kind: 5, n: 1},       // 3: root.WithLazy
		{kind: 5, n: 0},       // 4: .With (the lazy wrapper dissolves)
		{kind: 8, n: 0},       //
		{kind: 5, n: 4},       // 5: root.Sugar().Desugar()
		{kind: 5, n: 5, v: 1}, // 6: .WithOptions(IncreaseLevel(warn))
		{kind: 8, n: 3},       //
		{kind: 5, n: 3},       // 7: lazy.WithOptions(AddCallerSkip)
	}
	return ops, 8
}

func c05directedUpdates(c *Ctx) {
	odd := fnOf(func(l int) bool { return l%2 != 0 })
	trees := []struct {
		t     *c05node
		cells []int8
		obs   []int
	}{
		// the root core alone, IO and observer
		{leafN(0, atom(0)), []int8{0}, nil},
		{leafN(0, atom(0)), []int8{1}, []int{0}},
		// a tee of two leaves on one cell, one on another, one static
		{teeN(leafN(0, atom(0)), hookN(leafN(1, atom(0)), 3), leafN(2, atom(1)), leafN(3, thr(2))), []int8{0, 2}, []int{1, 3}},
		// hooked, increase-level (static over shared, shared over static, shared over shared), lazy, With
		{hookN(teeN(filtN(leafN(0, atom(0)), thr(1)), filtN(leafN(1, thr(-1)), atom(0)), filtN(leafN(2, atom(1)), atom(0))), 5), []int8{-1, -1}, []int{2}},
		{wrapN(7, wrapN(6, teeN(hookN(leafN(0, atom(0)), 1), wrapN(6, leafN(1, atom(1))), leafN(2, odd)))), []int8{0, 0}, nil},
		// samplers (never dropping and dropping) over and under the shared level
		{teeN(wrapN(5, leafN(0, atom(0))), sampN(hookN(leafN(1, atom(0)), 2), 2, 2), leafN(2, atom(0)), sampN(filtN(leafN(3, thr(-1)), atom(1)), 1, 0)), []int8{0, -1}, []int{2}},
		// everything disabled but for the shared level, next to a no-op core
		{teeN(nopN(), hookN(filtN(teeN(leafN(0, atom(0)), leafN(1, atom(0))), atom(0)), 4)), []int8{5}, []int{0}},
	}
	texts := []string{"debug", "ERROR", "nope", "Warning", "", "fatal", "Info", "DPANIC", "debug", "Level(1)", "panic", "warn"}
	derive, nlg := c05deriveOps()
	for ti, t := range trees {
		for route := 0; route <= 6; route++ {
			for hk := 0; hk < 4; hk++ {
				ops := append([]c05op{}, derive...)
				ops = append(ops, c05probeOps(len(t.cells), nlg, nlg, 0, 0)...)
				for step, text := range texts {
					a := step % len(t.cells)
					if route == c05rSet {
						ops = append(ops, c05op{kind: 0, a: a, v: []int8{-1, 2, 1, 5, 0, 3, -1, 4, 0, 6, 1, -2}[step], hk: hk})
					} else if c05routeCarries(route, text) {
						ops = append(ops, updN(a, route, hk, text))
					} else {
						ops = append(ops, updN(a, c05rUnmarshal, hk, text))
					}
					// three of the loggers per step, all of them over the history
					ops = append(ops, c05probeOps(len(t.cells), nlg, 3, step*3, step+1)...)
					if step == 5 {
						// loggers derived AFTER some changes, from an old one
						ops = append(ops, c05op{kind: 8, n: 2}, c05op{kind: 5, n: 0}, c05op{kind: 8, n: 6}, c05op{kind: 5, n: 1})
					}
				}
				ops = append(ops, c05probeOps(len(t.cells), nlg+2, nlg+2, 0, 7)...)
				c05emit(c, &c05case{tree: t.t, cells: t.cells, obs: t.obs, ops: ops, mode: (ti + route + hk) % 2}, "directed-upd")
			}
		}
		// all routes and handles in one history, every level name in every spelling
		var ops []c05op
		ops = append(ops, derive...)
		step := 0
		for _, name := range append(append([]string{}, c05names...), "warning", "", "trace") {
			for sp, text := range []string{name, strings.ToUpper(name), c05cap(name)} {
				route := 1 + (step % 6)
				if !c05routeCarries(route, text) {
					route = c05rUnmarshal
				}
				ops = append(ops, updN(step%len(t.cells), route, (step/2+sp)%4, text))
				ops = append(ops, c05probeOps(len(t.cells), nlg, 2, step*2, step)...)
				step++
			}
		}
		c05emit(c, &c05case{tree: t.t, cells: t.cells, obs: t.obs, ops: ops, mode: ti % 2}, "directed-upd-mix")
		// a full level sweep after a change by text, on a derived logger
		for _, route := range []int{c05rUnmarshal, c05rJSON, c05rPutForm} {
			ops = append([]c05op{}, derive...)
			ops = append(ops, updN(0, route, route%4, "DEBUG"), c05op{kind: 8, n: route})
			ops = append(ops, c05sweepOps([]int{0, 1, 2, 3, 4, 5, 6})...)
			ops = append(ops, updN(0, route, (route+1)%4, "Error"))
			ops = append(ops, c05allFamOps()...)
			c05emit(c, &c05case{tree: t.t, cells: t.cells, obs: t.obs, ops: ops}, "directed-upd-sweep")
		}
	}
}

package main

// C06: composite cores written through their own Write method, and cores whose Write fails.
//
// zap's own wrappers (tee, hooks, IncreaseLevel, sampler, WithLazy) let the cores beneath them register
// individually in Core.Check, so CheckedEntry.Write calls the IO cores directly and multiCore.Write,
// levelFilterCore.Write, lazyWithCore.Write, the sampler's promoted Write and hooked.Write are off the path.
// A user-defined wrapper of the usual shape (filter / audit / metrics core: embed the Core, add yourself in Check,
// forward Write) puts them on it.  Tree tag 9 = such a wrapper (id = its number); c06case.Fails = the leaves
// whose sink fails every Write (closed file, broken pipe, full disk).  Wire format: coq/theories/C06/Model.v.

import (
	"fmt"
	"time"

	"go.uber.org/zap"
	"go.uber.org/zap/zapcore"
)

// the wrapper: registers ITSELF with the CheckedEntry when the wrapped core is enabled, forwards Write
type c06fwdCore struct{ zapcore.Core }

func (c c06fwdCore) With(fs []zapcore.Field) zapcore.Core { return c06fwdCore{c.Core.With(fs)} }
func (c c06fwdCore) Check(ent zapcore.Entry, ce *zapcore.CheckedEntry) *zapcore.CheckedEntry {
	if c.Enabled(ent.Level) {
		return ce.AddCore(ent, c)
	}
	return ce
}
func (c c06fwdCore) Write(ent zapcore.Entry, fs []zapcore.Field) error {
	return c.Core.Write(ent, fs)
}

// the same with a pointer receiver and state of its own (a metrics core)
type c06countCore struct {
	zapcore.Core
	n int
}

func (c *c06countCore) With(fs []zapcore.Field) zapcore.Core {
	return &c06countCore{Core: c.Core.With(fs)}
}
func (c *c06countCore) Check(ent zapcore.Entry, ce *zapcore.CheckedEntry) *zapcore.CheckedEntry {
	if !c.Core.Enabled(ent.Level) {
		return ce
	}
	return ce.AddCore(ent, c)
}
func (c *c06countCore) Write(ent zapcore.Entry, fs []zapcore.Field) error {
	c.n++
	err := c.Core.Write(ent, fs)
	return err
}

// a sink that fails every Write; the attempt (and a Sync, should one follow) is recorded, nothing reaches
// what is below
type c06failSink struct {
	id  int
	rec func(kind, id int)
}

func (s *c06failSink) Write(p []byte) (int, error) {
	s.rec(0, s.id)
	return 0, fmt.Errorf("leaf %d: write failed", s.id)
}
func (s *c06failSink) Sync() error {
	s.rec(1, s.id)
	return nil
}

// builds the real cores of a tree with wrappers and failing leaves (c05env.build for everything else: the
// numbering of the samplers, the events and the reports are the same).  rec records what the sinks and hooks
// of c05env do not: kind 0 / 1 = Write / Sync of a failing sink, 3 = a hook set beneath a wrapper ran.
type c06bld struct {
	env   *c05env
	fails map[int]bool
	rec   func(kind, id int)
}

func (b *c06bld) build(n *c05node, inFwd bool) zapcore.Core {
	env := b.env
	switch n.tag {
	case 0:
		var sink zapcore.WriteSyncer = &c05sink{env, n.id}
		if env.mkSink != nil {
			sink = env.mkSink(n.id) // also for a failing leaf: the stacks and files are handed out in pre-order
		}
		if b.fails[n.id] {
			sink = &c06failSink{n.id, b.rec}
		}
		return zapcore.NewCore(zapcore.NewJSONEncoder(c05encCfg), sink, env.enabler(n.en))
	case 1:
		return zapcore.NewNopCore()
	case 2:
		cs := make([]zapcore.Core, len(n.kids))
		for i, k := range n.kids {
			cs[i] = b.build(k, inFwd)
		}
		return zapcore.NewTee(cs...)
	case 3:
		id := n.id
		return zapcore.RegisterHooks(b.build(n.kids[0], inFwd), func(e zapcore.Entry) error {
			if inFwd {
				b.rec(3, id)
			} else {
				if env.onHook != nil {
					env.onHook(id)
				}
				env.events = append(env.events, c05ev{1, id})
			}
			if env.onEntry != nil {
				env.onEntry(id, e)
			}
			if id%2 == 1 {
				return fmt.Errorf("hook %d failed", id) // as in c05env.build: odd hook sets fail after they ran
			}
			return nil
		})
	case 4:
		inner := b.build(n.kids[0], inFwd)
		c, err := zapcore.NewIncreaseLevelCore(inner, env.enabler(n.en))
		if err != nil {
			env.nerr++
			return inner
		}
		return c
	case 5, 8:
		first, there, tick := 1<<30, 0, time.Second
		if n.tag == 8 {
			first, there, tick = n.first, n.there, time.Hour
		}
		if inFwd {
			// beneath a wrapper Check is never called: the sampler is not numbered, and if it ever
			// reports a decision the run does not match the model
			return zapcore.NewSamplerWithOptions(b.build(n.kids[0], true), tick, first, there, zapcore.SamplerHook(func(zapcore.Entry, zapcore.SamplingDecision) {
				b.rec(4, 0)
			}))
		}
		k := env.nsamp
		env.nsamp++
		hook := zapcore.SamplerHook(func(_ zapcore.Entry, d zapcore.SamplingDecision) {
			env.samp = append(env.samp, c05samp{k, d&zapcore.LogDropped != 0})
			if env.onSamp != nil {
				env.onSamp(k, d&zapcore.LogDropped != 0)
			}
		})
		return zapcore.NewSamplerWithOptions(b.build(n.kids[0], false), tick, first, there, hook)
	case 6:
		return zapcore.NewLazyWith(b.build(n.kids[0], inFwd), []zapcore.Field{zap.Int("lazy", 1)})
	case 9:
		inner := b.build(n.kids[0], true)
		if n.id%2 == 1 {
			return &c06countCore{Core: inner}
		}
		return c06fwdCore{inner}
	}
	return b.build(n.kids[0], inFwd).With([]zapcore.Field{zap.Int("with", 1)})
}

// the tree on the wire (c05node.sx plus tag 9)
func c06treeSX(n *c05node) SX {
	switch n.tag {
	case 0, 1:
		return n.sx()
	case 2:
		xs := []SX{I(2)}
		for _, k := range n.kids {
			xs = append(xs, c06treeSX(k))
		}
		return L(xs...)
	case 3:
		return L(I(3), c06treeSX(n.kids[0]), I(n.id))
	case 4:
		return L(I(4), c06treeSX(n.kids[0]), n.en.sx())
	case 8:
		return L(I(8), c06treeSX(n.kids[0]), I(n.first), I(n.there))
	case 9:
		return L(I(9), c06treeSX(n.kids[0]), I(n.id))
	}
	return L(I(n.tag), c06treeSX(n.kids[0]))
}

func fwdN(k *c05node, id int) *c05node { return &c05node{tag: 9, id: id, kids: []*c05node{k}} }

func c06hasFwd(n *c05node) bool {
	if n.tag == 9 {
		return true
	}
	for _, k := range n.kids {
		if c06hasFwd(k) {
			return true
		}
	}
	return false
}

// ---------- generation ----------
type c06fwdShape struct {
	name  string
	t     *c05node
	cells []int8
	fails []int
	samp  bool // a sampler that really drops sits above a wrapper
}

// the directed compositions: a tee of k IO cores (leaves 0..k-1, enabled everywhere) some of which fail - the
// failing ones at every position - inside every context: a wrapper around it, wrappers around wrappers, a wrapper
// next to plain cores, around / beneath a filter, a sampler, a lazy core, a hooked core, With, around a tee of
// tees, around a tee that holds a failing hooked core, two wrappers side by side; and the tee alone (no wrapper:
// CheckedEntry.Write itself must go on after a core that fails)
func c06fwdShapes() []c06fwdShape {
	tee := func(k, base int) *c05node {
		n := &c05node{tag: 2}
		for i := 0; i < k; i++ {
			n.kids = append(n.kids, leafN(base+i, thr(-1)))
		}
		return n
	}
	type ctx struct {
		name string
		f    func(t *c05node) *c05node
		samp bool
	}
	ctxs := []ctx{
		{"F(T)", func(t *c05node) *c05node { return fwdN(t, 100) }, false},
		{"F'(T)", func(t *c05node) *c05node { return fwdN(t, 101) }, false},
		{"F(F(T))", func(t *c05node) *c05node { return fwdN(fwdN(t, 101), 100) }, false},
		{"T(L,F(T),L)", func(t *c05node) *c05node { return teeN(leafN(10, thr(-1)), fwdN(t, 100), leafN(11, thr(0))) }, false},
		{"F(filter(T))", func(t *c05node) *c05node { return fwdN(filtN(t, thr(4)), 100) }, false},
		{"filter(F(T))", func(t *c05node) *c05node { return filtN(fwdN(t, 100), thr(3)) }, false},
		{"F(sampler(T))", func(t *c05node) *c05node { return fwdN(sampN(t, 0, 0), 102) }, false},
		{"sampler(F(T))", func(t *c05node) *c05node { return sampN(fwdN(t, 100), 1, 0) }, true},
		{"F(lazy(T))", func(t *c05node) *c05node { return fwdN(wrapN(6, t), 100) }, false},
		{"lazy(F(T))", func(t *c05node) *c05node { return wrapN(6, fwdN(t, 101)) }, false},
		{"F(hooked(T))", func(t *c05node) *c05node { return fwdN(hookN(t, 2), 100) }, false},
		{"hooked(F(T))", func(t *c05node) *c05node { return hookN(fwdN(t, 100), 4) }, false},
		{"F(T(hooked-failing(L),T))", func(t *c05node) *c05node { return fwdN(teeN(hookN(leafN(10, thr(-1)), 3), t), 100) }, false},
		{"With(F(T(lazy(L),T)))", func(t *c05node) *c05node { return wrapN(7, fwdN(teeN(wrapN(6, leafN(10, thr(-1))), t), 100)) }, false},
		{"F(T(F(T),L))", func(t *c05node) *c05node { return fwdN(teeN(fwdN(t, 103), leafN(10, thr(-1))), 100) }, false},
		{"T", func(t *c05node) *c05node { return t }, false},
		{"F(T(T,L))", func(t *c05node) *c05node { return fwdN(teeN(t, leafN(10, thr(-1))), 100) }, false},
		{"F(T(L,T))", func(t *c05node) *c05node { return fwdN(teeN(leafN(10, thr(-1)), t), 101) }, false},
		{"T(F(T),F(L),nop)", func(t *c05node) *c05node { return teeN(fwdN(t, 100), fwdN(leafN(10, thr(-1)), 102), nopN()) }, false},
		{"F(T(filter-fatal-only(L),T))", func(t *c05node) *c05node { return fwdN(teeN(filtN(leafN(10, thr(-1)), thr(5)), t), 100) }, false},
		{"sampler(T(F(T),L))", func(t *c05node) *c05node { return sampN(teeN(fwdN(t, 100), leafN(10, thr(-1))), 2, 2) }, true},
		{"F(T) on a cell", func(t *c05node) *c05node { t.kids[len(t.kids)-1].en = atom(0); return fwdN(t, 100) }, false},
		{"F(nop-tee)", func(t *c05node) *c05node {
			return teeN(fwdN(teeN(nopN(), filtN(t, fnOf(func(int) bool { return false }))), 100), leafN(10, thr(4)))
		}, false},
	}
	masks := map[int][][]int{
		2: {{0}, {1}},
		3: {{0}, {1}, {2}, {0, 2}, {}},
		4: {{0, 1}, {1, 3}, {0, 1, 2, 3}},
	}
	var out []c06fwdShape
	for ci, cx := range ctxs {
		for _, k := range []int{2, 3, 4} {
			for mi, m := range masks[k] {
				if k == 4 && (ci+mi)%3 != 0 {
					continue
				}
				sh := c06fwdShape{name: fmt.Sprintf("%s k=%d fails=%v", cx.name, k, m), t: cx.f(tee(k, 0)), fails: m, samp: cx.samp}
				if cx.name == "F(T) on a cell" {
					sh.cells = []int8{3}
				}
				// the sibling of the composite fails instead of (or as well as) a core of the tee
				if ids := c06allLeafIDs(sh.t); len(ids) > k && (ci+k+mi)%4 == 0 {
					sh.fails = append(append([]int{}, m...), 10)
				}
				out = append(out, sh)
			}
		}
	}
	return out
}

func c06allLeafIDs(n *c05node) []int {
	var ids []int
	c06leafIDs(n, &ids)
	return ids
}

// a random tree of C05's generator with wrappers put around random nodes and random leaves failing
func c06randFwd(r *RNG, n *c05node, next *int, p int) *c05node {
	for i, k := range n.kids {
		n.kids[i] = c06randFwd(r, k, next, p)
	}
	if n.tag != 1 && r.Chance(p) {
		*next++
		return fwdN(n, *next)
	}
	return n
}

package main

// C03, concurrent phase.
//
// zap.Any and the field constructors are specified as FUNCTIONS of their arguments, and they are
// called from arbitrary goroutines at the same time: every key/value pair of a SugaredLogger call
// goes through zap.Any on whatever goroutine logs.  A function of its arguments returns, under any
// interleaving with other calls, the Field it returns when it is called alone.  All other C03 cases
// call the constructors from one goroutine, one call at a time -- state shared between calls
// (a dispatch variable, a scratch Field, a cache parked at package level) is invisible to them.
//
// Here G goroutines (GOMAXPROCS, clamped to 2..8; VERIF_C03_G overrides) call zap.Any and the
// constructors in parallel for a bounded time (about two seconds in the quick tier), in three phases:
// (A) zap.Any only, in a tight loop, each goroutine walking the pool of inputs from its own starting point
// so that at any moment the goroutines are busy with DIFFERENT dynamic types (state shared by all calls of
// zap.Any: its dispatch); (B) all goroutines on the SAME constructor at the same time, on different values,
// constructor after constructor -- the typed call (scalar, pointer, slice, generic constructors, zap.Dict)
// and zap.Any on the same value (state shared by the calls of one constructor: a scratch Field, a cached
// wrapper); (C) the typed constructors and zap.Any mixed, the goroutines spread over the pool again.  Every input
// was first run alone (the sequential reference: the Field the other case classes hand to the model
// and the oracle), and every Field a concurrent call returns is compared with it: Type, Integer, Key
// and String (by string header: same bytes of the same caller-owned string), Interface (dynamic type;
// identity for pointers, slices and maps; == otherwise; bitwise for complex values).  A call whose
// Field differs (or that panics) is emitted as an ordinary case -- the input and the Field that call
// returned, with what Field.AddTo then hands an encoder -- so that model and oracle judge it like any
// other observation; a sample of agreeing calls is emitted the same way.
//
// Nothing in the parallel section touches the harness's own global state (identity registries, the
// recording encoder): inputs, references and projections are made before, findings are projected after.

import (
	"fmt"
	"math"
	"os"
	"reflect"
	"runtime"
	"runtime/debug"
	"strconv"
	"sync"
	"sync/atomic"
	"time"
	"unsafe"

	"go.uber.org/zap"
	"go.uber.org/zap/zapcore"
)

type c03cItem struct {
	e    genC03Ctor
	key  string
	v    c03v
	fn   reflect.Value
	args []reflect.Value
	ref  zapcore.Field // what the typed constructor returns for this input when called alone
	weak bool          // two calls made alone do not compare the same (a NaN inside a value-kind payload): Interface by type only
	// zap.Any on the same value
	hasAny  bool
	x       interface{}
	dt      reflect.Type
	anyRef  zapcore.Field
	anyWeak bool
	anySx   SX
	tcName  string
	tf      zapcore.Field
	sample  int // >= 0: the Field of the last concurrent call is kept and emitted as an agreeing sample
}

type c03cFinding struct {
	it       *c03cItem
	any      bool
	got      zapcore.Field
	panicked bool
}

type c03cWorker struct {
	findings []c03cFinding
	lastAny  map[int]zapcore.Field
	lastTyp  map[int]zapcore.Field
	anyCalls int64
	typCalls int64
}

func c03SameStr(a, b string) bool {
	if len(a) != len(b) {
		return false
	}
	return len(a) == 0 || unsafe.StringData(a) == unsafe.StringData(b)
}

// Do two Field.Interface payloads hold the same value?  Never dereferences a payload (a Field that a
// broken constructor assembled from the wrong pieces may hold anything).
func c03SameIface(a, b interface{}, weak bool) bool {
	ta, tb := reflect.TypeOf(a), reflect.TypeOf(b)
	if ta != tb {
		return false
	}
	if ta == nil || weak {
		return true
	}
	switch ta.Kind() {
	case reflect.Ptr, reflect.Map, reflect.Chan, reflect.Func, reflect.UnsafePointer:
		return reflect.ValueOf(a).Pointer() == reflect.ValueOf(b).Pointer()
	case reflect.Slice:
		va, vb := reflect.ValueOf(a), reflect.ValueOf(b)
		return va.Pointer() == vb.Pointer() && va.Len() == vb.Len()
	case reflect.Complex128, reflect.Complex64:
		ca, cb := reflect.ValueOf(a).Complex(), reflect.ValueOf(b).Complex()
		return math.Float64bits(real(ca)) == math.Float64bits(real(cb)) && math.Float64bits(imag(ca)) == math.Float64bits(imag(cb))
	case reflect.Float64, reflect.Float32:
		return math.Float64bits(reflect.ValueOf(a).Float()) == math.Float64bits(reflect.ValueOf(b).Float())
	case reflect.String:
		return c03SameStr(reflect.ValueOf(a).String(), reflect.ValueOf(b).String())
	case reflect.Bool, reflect.Int, reflect.Int8, reflect.Int16, reflect.Int32, reflect.Int64,
		reflect.Uint, reflect.Uint8, reflect.Uint16, reflect.Uint32, reflect.Uint64, reflect.Uintptr:
		return a == b
	case reflect.Struct:
		if ta == c03TimeType {
			return a == b // wall, ext, *Location: no dereference
		}
		if _, ok := a.(c03ider); ok && ta.Comparable() {
			return a == b // the harness's own payload types: {int64, float64}
		}
	}
	return true
}

// The dynamic types that occur in the Fields (and inputs) of the lone calls.  An interface word of a
// Field returned by a concurrent call is looked at only if its type word is one of these: a type word
// assembled from the wrong pieces is not a type, and the runtime dies on it (not a recoverable fault).
var c03cKnown = map[reflect.Type]bool{}

func c03cLearn(rv reflect.Value, depth int) {
	if depth > 6 || !rv.IsValid() {
		return
	}
	switch rv.Kind() {
	case reflect.Interface, reflect.Ptr:
		if rv.IsNil() {
			return
		}
		if rv.Kind() == reflect.Interface {
			c03cKnown[rv.Elem().Type()] = true
		}
		c03cLearn(rv.Elem(), depth+1)
	case reflect.Slice:
		for i := 0; i < rv.Len() && i < 64; i++ {
			c03cLearn(rv.Index(i), depth+1)
		}
	case reflect.Struct:
		if rv.Type() == c03TimeType {
			return
		}
		for i := 0; i < rv.NumField(); i++ {
			c03cLearn(rv.Field(i), depth+1)
		}
	}
}

func c03cLearnField(f zapcore.Field) {
	if f.Interface != nil {
		c03cKnown[reflect.TypeOf(f.Interface)] = true
		c03cLearn(reflect.ValueOf(f.Interface), 0)
	}
}

// is the type word of this interface value one we know?  (no dereference)
func c03cKnownIface(x interface{}) bool { return x == nil || c03cKnown[reflect.TypeOf(x)] }

// A Field that a broken constructor assembled from the wrong pieces (a slice header read from the
// registers of a string, a length that is really a pointer) cannot be projected: is this one sane?
func c03cSane(f zapcore.Field) (ok bool) {
	defer func() {
		if recover() != nil {
			ok = false
		}
	}()
	const maxLen = 1 << 16
	if len(f.Key) > maxLen || len(f.String) > maxLen {
		return false
	}
	var walk func(rv reflect.Value, depth int) bool
	walk = func(rv reflect.Value, depth int) bool {
		if depth > 6 || !rv.IsValid() {
			return depth <= 6
		}
		switch rv.Kind() {
		case reflect.String:
			return rv.Len() <= maxLen
		case reflect.Slice:
			if rv.Len() > maxLen || rv.Len() > rv.Cap() || (rv.Len() > 0 && rv.Pointer() < 4096) {
				return false
			}
			for i := 0; i < rv.Len(); i++ {
				if !walk(rv.Index(i), depth+1) {
					return false
				}
			}
		case reflect.Ptr, reflect.Interface:
			if rv.IsNil() {
				return true
			}
			if rv.Kind() == reflect.Ptr && rv.Pointer() < 4096 {
				return false
			}
			if rv.Kind() == reflect.Interface && !c03cKnown[rv.Elem().Type()] {
				return false
			}
			return walk(rv.Elem(), depth+1)
		case reflect.Struct:
			if rv.Type() == c03TimeType {
				return true
			}
			for i := 0; i < rv.NumField(); i++ {
				if !walk(rv.Field(i), depth+1) {
					return false
				}
			}
		}
		return true
	}
	if !c03cKnownIface(f.Interface) {
		return false
	}
	_ = f.Key + f.String // readable
	return walk(reflect.ValueOf(f.Interface), 0)
}

func c03cTypeName(x interface{}) (s string) {
	defer func() {
		if recover() != nil {
			s = "?"
		}
	}()
	if x == nil {
		return "nil"
	}
	if !c03cKnownIface(x) {
		return fmt.Sprintf("<not a type: %p>", reflect.TypeOf(x))
	}
	return reflect.TypeOf(x).String()
}

func c03QuickSame(a, b zapcore.Field, weak bool) bool {
	return a.Type == b.Type && a.Integer == b.Integer && c03SameStr(a.Key, b.Key) && c03SameStr(a.String, b.String) &&
		c03SameIface(a.Interface, b.Interface, weak)
}

// the comparison a worker makes: type words first (no dereference), everything else behind a recover
func c03cSame(got, ref zapcore.Field, weak bool) (same bool) {
	defer func() {
		if recover() != nil {
			same = false
		}
	}()
	return c03QuickSame(got, ref, weak)
}

func c03cCallAny(key string, x interface{}) (f zapcore.Field, panicked bool) {
	defer func() {
		if recover() != nil {
			panicked = true
		}
	}()
	return zap.Any(key, x), false
}

func c03cCallTyped(it *c03cItem) (f zapcore.Field, panicked bool) {
	defer func() {
		if recover() != nil {
			panicked = true
		}
	}()
	var out []reflect.Value
	if it.e.Variadic {
		out = it.fn.CallSlice(it.args)
	} else {
		out = it.fn.Call(it.args)
	}
	return out[0].Interface().(zapcore.Field), false
}

// the inputs: every constructor on boundary values of its parameter type and on random ones, each
// first run alone (twice: inputs on which two lone calls already differ under the quick comparison
// -- NaN-bearing value-kind payloads -- are compared without the Interface value)
func c03cPool(g *c03gen, keys []string, thorough bool) []*c03cItem {
	var pool []*c03cItem
	nBoundary, nRandom := 10, 3
	if thorough {
		nBoundary, nRandom = 40, 12
	}
	for _, e := range genC03Ctors {
		if e.Name == "Stack" || e.Name == "StackSkip" { // the text depends on the calling goroutine's stack
			continue
		}
		t := c03ValType(e)
		var vals []c03v
		if t == nil {
			vals = []c03v{c03NoVal}
		} else {
			for i := 0; i < nBoundary; i++ {
				v, ok := g.value(t, i)
				if !ok {
					break
				}
				vals = append(vals, v)
			}
			for i := 0; i < nRandom; i++ {
				v, _ := g.value(t, -1)
				vals = append(vals, v)
			}
		}
		for i, v := range vals {
			it := &c03cItem{e: e, key: keys[i%len(keys)], v: v, fn: reflect.ValueOf(e.Fn), sample: -1}
			if e.HasKey {
				it.args = append(it.args, reflect.ValueOf(it.key).Convert(it.fn.Type().In(0)))
			}
			if e.HasVal {
				it.args = append(it.args, v.rv)
			}
			if e.GoParam == "[]uint8" {
				b := v.rv.Bytes()
				l := make([]SX, len(b))
				for i, x := range b {
					l[i] = c03VU(uint64(x))
				}
				it.anySx, it.v.sx = v.sx, c03VSlice(v.rv, l)
			} else {
				it.anySx = v.sx
			}
			f1, p1 := c03cCallTyped(it)
			f2, p2 := c03cCallTyped(it)
			if p1 || p2 {
				continue
			}
			it.ref = f1
			if !c03QuickSame(f1, f2, false) {
				if !c03QuickSame(f1, f2, true) {
					continue
				}
				it.weak = true
			}
			if e.HasVal {
				var x interface{}
				if v.rv.IsValid() && !(v.rv.Kind() == reflect.Interface && v.rv.IsNil()) {
					x = v.rv.Interface()
				}
				if x != nil {
					it.dt = reflect.TypeOf(x)
				}
				it.x = x
				it.tcName, it.tf = e.Name, f1
				if e.GoParam == "[]uint8" {
					it.tcName, it.tf = "Binary", zap.Binary(it.key, v.rv.Bytes())
				}
				a1, q1 := c03cCallAny(it.key, x)
				a2, q2 := c03cCallAny(it.key, x)
				if !q1 && !q2 {
					it.hasAny, it.anyRef = true, a1
					if !c03QuickSame(a1, a2, false) {
						it.anyWeak = true
						it.hasAny = c03QuickSame(a1, a2, true)
					}
				}
			}
			c03cLearnField(it.ref)
			c03cLearnField(it.tf)
			if it.hasAny {
				c03cLearnField(it.anyRef)
			}
			pool = append(pool, it)
		}
	}
	return pool
}

func c03Concurrent(c *Ctx, g *c03gen, keys []string) {
	G := runtime.GOMAXPROCS(0)
	if s := os.Getenv("VERIF_C03_G"); s != "" {
		if n, err := strconv.Atoi(s); err == nil {
			G = n
		}
	}
	if G < 2 {
		G = 2
	}
	if G > 8 {
		G = 8
	}
	if prev := runtime.GOMAXPROCS(0); prev < G { // the interleavings of interest need goroutines that really run in parallel
		runtime.GOMAXPROCS(G)
		defer runtime.GOMAXPROCS(prev)
	}
	anyDur, sameDur, mixDur := 1000*time.Millisecond, 800*time.Millisecond, 300*time.Millisecond
	if c.Thorough {
		anyDur, sameDur, mixDur = 10*time.Second, 8*time.Second, 3*time.Second
	}
	if s := os.Getenv("VERIF_C03_CONC_MS"); s != "" {
		if n, err := strconv.Atoi(s); err == nil {
			d := time.Duration(n) * time.Millisecond
			anyDur, sameDur, mixDur = d/2, d*3/8, d/8
		}
	}
	const maxFindings = 48

	pool := c03cPool(g, keys, c.Thorough)
	var anyItems []*c03cItem
	for _, it := range pool {
		if it.hasAny {
			anyItems = append(anyItems, it)
		}
	}
	// agreeing samples: the first input of every constructor
	nSamples := 0
	seenCtor := map[string]bool{}
	for _, it := range pool {
		if !seenCtor[it.e.Name] {
			seenCtor[it.e.Name] = true
			it.sample = nSamples
			nSamples++
		}
	}
	la := c03AmbID()
	ambSx := L(I(la), I(la))

	workers := make([]*c03cWorker, G)
	var nFound atomic.Int64
	var stop atomic.Bool
	var firstFound atomic.Int64
	phase := func(d time.Duration, body func(w *c03cWorker, gi int)) {
		stop.Store(false)
		deadline := time.Now().Add(d)
		var wg sync.WaitGroup
		for gi := 0; gi < G; gi++ {
			wg.Add(1)
			go func(gi int) {
				defer wg.Done()
				debug.SetPanicOnFault(true)
				w := workers[gi]
				for !stop.Load() && time.Now().Before(deadline) {
					body(w, gi)
					if t := firstFound.Load(); t != 0 && time.Now().UnixNano()-t > int64(150*time.Millisecond) {
						stop.Store(true)
					}
				}
			}(gi)
		}
		wg.Wait()
	}
	// A Field assembled from the wrong pieces may hold words that are not pointers where the collector
	// expects pointers: from the first finding on the collector is off, the phases end shortly after, and
	// it is switched on again when the findings have been written out and dropped.
	gcPercent := -2
	found := func(w *c03cWorker, f c03cFinding) {
		w.findings = append(w.findings, f)
		n := nFound.Add(1)
		if n == 1 {
			gcPercent = debug.SetGCPercent(-1)
			firstFound.Store(time.Now().UnixNano())
		}
		if n >= maxFindings {
			stop.Store(true)
		}
	}
	defer func() {
		if gcPercent != -2 {
			for _, w := range workers {
				w.findings, w.lastAny, w.lastTyp = nil, nil, nil
			}
			debug.SetGCPercent(gcPercent)
		}
	}()
	for gi := range workers {
		workers[gi] = &c03cWorker{lastAny: map[int]zapcore.Field{}, lastTyp: map[int]zapcore.Field{}}
	}
	// phase A: zap.Any only, a tight loop; goroutine gi starts gi/G of the way into the pool
	if len(anyItems) > 0 {
		phase(anyDur, func(w *c03cWorker, gi int) {
			n := len(anyItems)
			off := gi * n / G
			for i := 0; i < n && !stop.Load(); i++ {
				it := anyItems[(off+i)%n]
				got, pan := c03cCallAny(it.key, it.x)
				w.anyCalls++
				if pan || !c03cSame(got, it.anyRef, it.anyWeak) {
					found(w, c03cFinding{it: it, any: true, got: got, panicked: pan})
				} else if it.sample >= 0 {
					w.lastAny[it.sample] = got
				}
			}
		})
	}
	// phase B: everybody on the SAME constructor at the same time, on different values (state shared between
	// the calls of one constructor: a scratch Field, a cached wrapper): time is cut into slots, slot s
	// belongs to constructor s mod #constructors, and goroutine gi walks that constructor's inputs from its
	// own starting point -- the typed call, then zap.Any on the same value
	var groups [][]*c03cItem
	gidx := map[string]int{}
	for _, it := range pool {
		i, ok := gidx[it.e.Name]
		if !ok {
			i = len(groups)
			gidx[it.e.Name] = i
			groups = append(groups, nil)
		}
		groups[i] = append(groups[i], it)
	}
	if len(groups) > 0 && nFound.Load() == 0 {
		start := time.Now()
		slot := sameDur / time.Duration(2*len(groups)) // every constructor gets two slots
		if slot < time.Millisecond {
			slot = time.Millisecond
		}
		phase(sameDur, func(w *c03cWorker, gi int) {
			grp := groups[int(time.Since(start)/slot)%len(groups)]
			n := len(grp)
			for r := 0; r < 4; r++ {
				for i := 0; i < n && !stop.Load(); i++ {
					it := grp[(gi+i)%n]
					got, pan := c03cCallTyped(it)
					w.typCalls++
					if pan || !c03cSame(got, it.ref, it.weak) {
						found(w, c03cFinding{it: it, got: got, panicked: pan})
					}
					if it.hasAny {
						got, pan := c03cCallAny(it.key, it.x)
						w.anyCalls++
						if pan || !c03cSame(got, it.anyRef, it.anyWeak) {
							found(w, c03cFinding{it: it, any: true, got: got, panicked: pan})
						}
					}
				}
			}
		})
	}
	// phase C: the typed constructors (through reflect), each followed by zap.Any on the same value,
	// the goroutines spread over the pool again
	if len(pool) > 0 && nFound.Load() == 0 {
		phase(mixDur, func(w *c03cWorker, gi int) {
			n := len(pool)
			off := gi * n / G
			for i := 0; i < n && !stop.Load(); i++ {
				it := pool[(off+i)%n]
				got, pan := c03cCallTyped(it)
				w.typCalls++
				if pan || !c03cSame(got, it.ref, it.weak) {
					found(w, c03cFinding{it: it, got: got, panicked: pan})
				} else if it.sample >= 0 {
					w.lastTyp[it.sample] = got
				}
				if it.hasAny {
					got, pan := c03cCallAny(it.key, it.x)
					w.anyCalls++
					if pan || !c03cSame(got, it.anyRef, it.anyWeak) {
						found(w, c03cFinding{it: it, any: true, got: got, panicked: pan})
					}
				}
			}
		})
	}

	// ---- sequential again: project and emit ----
	defer debug.SetPanicOnFault(debug.SetPanicOnFault(true))
	proj := func(f zapcore.Field) (s SX, ok bool) {
		defer func() {
			if recover() != nil {
				ok = false
			}
		}()
		if !c03cSane(f) {
			return s, false
		}
		s = c03ProjField(f)
		_ = Render(s)
		return s, true
	}
	addTo := func(it *c03cItem, f zapcore.Field) (SX, bool) {
		c03ElemBase = reflect.Value{}
		if it.v.rv.IsValid() && it.v.rv.Kind() == reflect.Slice && it.v.rv.Type().Elem() == c03AddrObjType {
			c03ElemBase = it.v.rv
		}
		defer func() { c03ElemBase = reflect.Value{} }()
		calls, p := c03AddTo(f)
		return calls, p == ""
	}
	emitTyped := func(it *c03cItem, f zapcore.Field, panicked bool, class string) {
		in := L(I(0), Str(it.e.Name), Str(it.key), it.v.sx, Str(""), ambSx)
		meta := map[string]string{"class": class + ":" + it.e.Name, "nt": "0", "ctor": it.e.Name}
		if it.v.nt {
			meta["nt"] = "1"
		}
		fs, ok := proj(f)
		if panicked || !ok {
			c.Emit(in, L(Z(-1)), meta)
			return
		}
		calls, ok := addTo(it, f)
		if !ok {
			c.Emit(in, L(Z(-1)), meta)
			return
		}
		c.Emit(in, L(fs, calls), meta)
	}
	emitAny := func(it *c03cItem, af zapcore.Field, panicked bool, class string) {
		in := L(I(1), c03Gty(it.dt), c03Impls(it.dt), Str(it.key), it.anySx, Str(it.tcName), ambSx)
		meta := map[string]string{"class": class + ":" + it.e.Name, "nt": "0", "ctor": it.e.Name}
		if it.v.nt {
			meta["nt"] = "1"
		}
		afs, ok := proj(af)
		tfs, ok2 := proj(it.tf)
		if panicked || !ok || !ok2 {
			c.Emit(in, L(Z(-1)), meta)
			return
		}
		acalls, ok := addTo(it, af)
		if !ok {
			c.Emit(in, L(Z(-1)), meta)
			return
		}
		c.Emit(in, L(afs, acalls, tfs, I(c03Equals(af, it.tf))), meta)
	}
	// the lone call must itself be a clean observation (AddTo included) for a finding to be judged against it
	clean := func(it *c03cItem, f zapcore.Field) bool {
		_, ok := proj(f)
		if !ok {
			return false
		}
		_, ok = addTo(it, f)
		return ok
	}
	mism, unconfirmed, malformed := 0, 0, 0
	var anyCalls, typCalls int64
	// the findings that are plainly well-formed first (no payload; then a payload of a known type), each
	// written out at once: should a malformed one further down kill the process, these are on file
	var all []c03cFinding
	for rank := 0; rank < 3; rank++ {
		for _, w := range workers {
			for _, f := range w.findings {
				r := 2
				if f.got.Interface == nil {
					r = 0
				} else if c03cKnownIface(f.got.Interface) {
					r = 1
				}
				if r == rank {
					all = append(all, f)
				}
			}
		}
	}
	for _, w := range workers {
		anyCalls += w.anyCalls
		typCalls += w.typCalls
	}
	{
		for _, f := range all {
			c.out.Flush()
			ref := f.it.ref
			if f.any {
				ref = f.it.anyRef
			}
			if !clean(f.it, ref) {
				continue
			}
			// confirm on the projections (the quick comparison is by identity of strings and payloads)
			if !f.panicked {
				gs, ok1 := proj(f.got)
				rs, ok2 := proj(ref)
				if ok1 && ok2 && Render(gs) == Render(rs) {
					unconfirmed++
					continue
				}
			}
			mism++
			if _, ok := proj(f.got); !ok && !f.panicked {
				// not a Go value any more (a slice header assembled from the wrong pieces, a length that is
				// really a pointer): there is no Field to hand to the oracle; reported with its input
				malformed++
				what, in := "zap.Any", L(I(1), c03Gty(f.it.dt), c03Impls(f.it.dt), Str(f.it.key), f.it.anySx, Str(f.it.tcName), ambSx)
				if !f.any {
					what, in = f.it.e.Name, L(I(0), Str(f.it.e.Name), Str(f.it.key), f.it.v.sx, Str(""), ambSx)
				}
				if malformed <= 3 {
					c.Viol(fmt.Sprintf("%s, called while other goroutines call zap.Any and the constructors on other types, returned a malformed Field (Type %d, Integer %d, %d-byte String, Interface of type %s that cannot be read) for an input for which it returns a well-formed one when called alone",
						what, f.got.Type, f.got.Integer, len(f.got.String), c03cTypeName(f.got.Interface)), in)
				}
				continue
			}
			if f.any {
				emitAny(f.it, f.got, f.panicked, "concurrent-any")
			} else {
				emitTyped(f.it, f.got, f.panicked, "concurrent")
			}
		}
	}
	c.out.Flush()
	// agreeing samples: the Field the LAST concurrent call of that input returned
	for _, it := range pool {
		if it.sample < 0 {
			continue
		}
		w := workers[it.sample%G]
		if f, ok := w.lastTyp[it.sample]; ok && clean(it, it.ref) {
			emitTyped(it, f, false, "concurrent")
		}
		if f, ok := w.lastAny[it.sample]; ok && it.hasAny && clean(it, it.anyRef) {
			emitAny(it, f, false, "concurrent-any")
		}
	}
	c.Info("conc_goroutines", fmt.Sprint(G))
	c.Info("conc_inputs", fmt.Sprint(len(pool)))
	c.Info("conc_any_calls", fmt.Sprint(anyCalls))
	c.Info("conc_typed_calls", fmt.Sprint(typCalls))
	c.Info("conc_mismatches", fmt.Sprint(mism))
	c.Info("conc_unconfirmed", fmt.Sprint(unconfirmed))
	c.Info("conc_malformed", fmt.Sprint(malformed))
}

package main

import "fmt"

// C17, streams whose lines are far longer than any plausible size or capacity
// threshold of Writer.buff (bytes.Buffer): 2^8 .. 2^20 bytes, cut into Write calls in
// many ways, with Sync/Close at every kind of position, followed by ordinary
// short streams on the SAME Writer.  Every other generator of C17 keeps the
// partial-line buffer below a few KiB, so behaviour that depends on how large
// the buffer has grown (dropping, truncating, early flushing, "don't retain an
// oversized buffer") was out of reach.  The Coq statements already quantify
// over all streams; model and oracle run by the driver are linear-time,
// tail-recursive versions proved equal to the reference ones (C17_model_fast,
// C17_spec_fast), so whole cases are shipped and judged byte for byte.

const (
	c17KiB = 1024
	c17MiB = 1024 * 1024
)

// n bytes, none of them a newline.  kind 0: letters; kind 1: arbitrary bytes
// (NUL, CR, 0xff, invalid UTF-8 ...); kind 2: position-coded decimal counters,
// so that a replay shows at a glance which part of a line went missing.
func c17fill(r *RNG, n, kind int) []byte {
	out := make([]byte, n)
	switch kind {
	case 2:
		for i := 0; i < n; {
			s := fmt.Sprintf("%d.", i)
			i += copy(out[i:], s)
		}
	default:
		for i := 0; i < n; i += 8 {
			v := r.Next()
			for j := 0; j < 8 && i+j < n; j++ {
				b := byte(v >> (8 * uint(j)))
				if kind == 0 {
					b = 'a' + b%26
				} else if b == '\n' {
					b = '\r'
				}
				out[i+j] = b
			}
		}
	}
	return out
}

// short ordinary lines: 0..40 bytes each, empty lines included
func c17short(r *RNG, nlines int, terminated bool) []byte {
	var s []byte
	for i := 0; i < nlines; i++ {
		ln := 0
		if !r.Chance(20) {
			ln = r.Range(1, 40)
		}
		s = append(s, c17fill(r, ln, 0)...)
		if i < nlines-1 || terminated {
			s = append(s, '\n')
		}
	}
	return s
}

// cut a stream into Write ops at the given offsets (ascending, inside (0,len))
func c17cut(stream []byte, cuts []int) []c17op {
	var ops []c17op
	start := 0
	for _, c := range cuts {
		if c <= start || c >= len(stream) {
			continue
		}
		ops = append(ops, c17op{kind: 0, chunk: stream[start:c]})
		start = c
	}
	return append(ops, c17op{kind: 0, chunk: stream[start:]})
}

func c17fixed(n, k int) []int {
	var cuts []int
	for p := k; p < n; p += k {
		cuts = append(cuts, p)
	}
	return cuts
}

// random chunk sizes, about `target` chunks
func c17randcuts(r *RNG, n, target int) []int {
	var cuts []int
	avg := n/target + 1
	for p := 0; p < n; {
		p += r.Range(1, 2*avg)
		cuts = append(cuts, p)
	}
	return cuts
}

// cut right after (delta=1) or right before (delta=0) every newline: a Write per
// line (fast path), or the terminator arriving at the head of the next chunk
func c17nlcuts(stream []byte, delta int) []int {
	var cuts []int
	for i, b := range stream {
		if b == '\n' {
			cuts = append(cuts, i+delta)
		}
	}
	return cuts
}

func c17merge(a, b []int) []int {
	seen := map[int]bool{}
	var out []int
	for _, x := range append(append([]int(nil), a...), b...) {
		if !seen[x] {
			seen[x] = true
			out = append(out, x)
		}
	}
	for i := 1; i < len(out); i++ { // insertion sort: a few hundred entries
		for j := i; j > 0 && out[j] < out[j-1]; j-- {
			out[j], out[j-1] = out[j-1], out[j]
		}
	}
	return out
}

// Sync/Close placements.  where: 0 none, 1 after the first Write (inside the first
// long line when it is split), 2 after the Write that carries the first newline,
// 3 before the last Write, 4 everywhere with probability p percent
func c17syncs(r *RNG, ops []c17op, where, p int) []c17op {
	if where == 0 {
		return ops
	}
	firstNL := -1
	for i, o := range ops {
		for _, b := range o.chunk {
			if b == '\n' {
				firstNL = i
				break
			}
		}
		if firstNL >= 0 {
			break
		}
	}
	var out []c17op
	for i, o := range ops {
		if where == 3 && i == len(ops)-1 && i > 0 {
			out = append(out, c17op{kind: 1})
		}
		out = append(out, o)
		if (where == 1 && i == 0) || (where == 2 && i == firstNL) || (where == 4 && r.Chance(p)) {
			out = append(out, c17op{kind: 1})
		}
	}
	return out
}

// an ordinary short stream in small chunks (what every other generator produces),
// appended to a history so that it runs on the Writer the long lines went through
func c17tailPhase(r *RNG) []c17op {
	s := c17short(r, r.Range(2, 6), r.Bool())
	if len(s) < 2 {
		s = []byte("foo\nbar")
	}
	ops := c17cut(s, c17randcuts(r, len(s), r.Range(1, 6)))
	if r.Chance(30) {
		ops = c17syncs(r, ops, 4, 30)
	}
	return ops
}

// the harness runs Sync on even operation indices and Close on odd ones; a no-op
// empty Write in front flips which of the two every later (1) is
func c17flip(ops []c17op) []c17op {
	return append([]c17op{{kind: 0, chunk: []byte{}}}, ops...)
}

type c17chunker struct {
	name string
	cuts func(stream []byte) []int
}

func c17big(c *Ctx) {
	r := NewRNG(c.Seed ^ 0xC17B16B0FF)
	emit := func(en0 bool, ops []c17op, class string) {
		ops = append(ops, c17op{kind: 1})
		c17emit(c, en0, ops, class)
	}

	// ---- 1. ladder: a line of 2^k +- 1 bytes; all but its last byte is pending when
	// the first Write returns; the second Write carries the last byte, the
	// terminator and the head of the next line; the third completes that line.
	// The smallest rung on which something goes wrong brackets the threshold.
	for k := 8; k <= 20; k++ {
		for _, d := range []int{-1, 1} {
			if k >= 18 && d < 0 && !c.Thorough {
				continue
			}
			n := 1<<uint(k) + d
			line := c17fill(r, n, 2)
			ops := []c17op{
				{kind: 0, chunk: line[:n-1]},
				{kind: 0, chunk: append(append([]byte(nil), line[n-1:]...), []byte("\nfoo")...)},
				{kind: 0, chunk: []byte("bar\n")},
			}
			emit(true, ops, "big-ladder")
			// the same line cut in three with a Sync (split point) between the 2nd and 3rd part
			if k <= 17 || d > 0 || c.Thorough {
				a, b := n/3, 2*n/3
				ops = []c17op{
					{kind: 0, chunk: line[:a]}, {kind: 0, chunk: line[a:b]}, {kind: 1},
					{kind: 0, chunk: line[b:]}, {kind: 0, chunk: []byte("\n\nqux")},
				}
				emit(true, ops, "big-ladder")
			}
		}
	}

	// ---- 2. directed: 70 KiB, 200 KiB, 1 MiB lines x chunkings x layouts x Sync positions
	whole := c17chunker{"whole", func(s []byte) []int { return nil }}
	fixed := func(k int) c17chunker {
		return c17chunker{fmt.Sprint("fixed", k), func(s []byte) []int { return c17fixed(len(s), k) }}
	}
	rnd := func(target int) c17chunker {
		return c17chunker{fmt.Sprint("rand", target), func(s []byte) []int { return c17randcuts(r, len(s), target) }}
	}
	perLine := c17chunker{"perline", func(s []byte) []int { return c17nlcuts(s, 1) }}
	nlFirst := func(k int) c17chunker { // fixed-size chunks, and every terminator starts a chunk
		return c17chunker{fmt.Sprint("nlfirst", k), func(s []byte) []int { return c17merge(c17fixed(len(s), k), c17nlcuts(s, 0)) }}
	}
	lastByte := c17chunker{"lastbyte", func(s []byte) []int { // everything but the final byte, then the final byte
		return []int{len(s) - 1}
	}}
	type sized struct {
		n        int
		chunkers []c17chunker
	}
	sizes := []sized{
		{70 * c17KiB, []c17chunker{whole, fixed(c17KiB), fixed(4 * c17KiB), fixed(64*c17KiB - 1), fixed(64 * c17KiB), fixed(64*c17KiB + 1), rnd(12), perLine, nlFirst(16 * c17KiB), lastByte}},
		{200 * c17KiB, []c17chunker{whole, fixed(4 * c17KiB), fixed(64*c17KiB - 1), fixed(64 * c17KiB), fixed(64*c17KiB + 1), rnd(9), nlFirst(50 * c17KiB)}},
		{c17MiB, []c17chunker{whole, fixed(64*c17KiB + 1), fixed(64*c17KiB - 1), rnd(7)}},
	}
	if c.Thorough {
		sizes[2].chunkers = append(sizes[2].chunkers, fixed(64*c17KiB), fixed(256*c17KiB), perLine, nlFirst(100*c17KiB), lastByte, rnd(40))
		sizes = append(sizes, sized{4 * c17MiB, []c17chunker{whole, fixed(c17MiB + 1), rnd(5)}})
	}
	idx := 0
	for _, sz := range sizes {
		for _, ch := range sz.chunkers {
			layouts := []int{idx % 4}
			if c.Thorough && sz.n <= 200*c17KiB {
				layouts = []int{0, 1, 2, 3}
			} else if c.Thorough && sz.n <= c17MiB {
				layouts = []int{idx % 4, (idx + 2) % 4}
			}
			for _, layout := range layouts {
				kind := idx % 3
				long := c17fill(r, sz.n, kind)
				var stream []byte
				var ops []c17op
				switch layout {
				case 0: // long line, then short lines, contiguous in the stream
					stream = append(append(stream, long...), '\n')
					stream = append(stream, c17short(r, 3, true)...)
					ops = c17cut(stream, ch.cuts(stream))
				case 1: // short lines, long line, short lines, unterminated end (Close emits it)
					stream = append(stream, c17short(r, 2, true)...)
					stream = append(append(stream, long...), '\n')
					stream = append(stream, c17short(r, 3, false)...)
					stream = append(stream, 'z')
					ops = c17cut(stream, ch.cuts(stream))
				case 2: // unterminated long line flushed by Sync/Close, then a short stream on the same Writer
					stream = append([]byte("ab"), long...)
					ops = append(c17cut(stream, ch.cuts(stream)), c17op{kind: 1})
					ops = append(ops, c17tailPhase(r)...)
				case 3: // two long lines, an empty line between them, then a long unterminated rest
					stream = append(append(stream, long...), '\n', '\n')
					stream = append(append(stream, c17fill(r, sz.n/2+7, kind)...), '\n')
					stream = append(stream, c17fill(r, sz.n/3, kind)...)
					ops = c17cut(stream, ch.cuts(stream))
				}
				ops = c17syncs(r, ops, (idx/4)%5, 25)
				if idx%2 == 1 {
					ops = c17flip(ops)
				}
				if layout != 2 && idx%3 == 0 {
					ops = append(ops, c17op{kind: 1})
					ops = append(ops, c17tailPhase(r)...)
				}
				emit(true, ops, "big-dir")
				idx++
			}
		}
	}

	// ---- 3. seeded random space: 1..3 long lines of 2^10..2^18 (sometimes 2^20) bytes among
	// short ones, any chunker, Sync/Close anywhere, level changes, a second phase
	N := 16
	if c.Thorough {
		N = 150
	}
	for k := 0; k < N; k++ {
		var stream []byte
		longest := 0
		nlong := r.Range(1, 3)
		budget := 1200 * c17KiB
		for i := 0; i < nlong; i++ {
			if r.Chance(50) {
				stream = append(stream, c17short(r, r.Range(1, 4), r.Chance(80))...)
			}
			e := r.Range(10, 18)
			if r.Chance(8) {
				e = r.Range(19, 20)
			}
			n := 1<<uint(e) + r.Range(-3, 3)
			if r.Chance(50) {
				n = r.Range(1<<uint(e-1), 1<<uint(e))
			}
			if n > budget {
				n = budget
			}
			budget -= n
			if n > longest {
				longest = n
			}
			stream = append(stream, c17fill(r, n, r.Intn(3))...)
			if i < nlong-1 || r.Chance(70) {
				stream = append(stream, '\n')
			}
		}
		if r.Chance(50) {
			stream = append(stream, c17short(r, r.Range(1, 4), r.Bool())...)
		}
		// the model costs O(buffered + chunk) per Write: bound chunks x longest line
		maxChunks := 40 * c17MiB / (longest + 1)
		if maxChunks > 300 {
			maxChunks = 300
		}
		if maxChunks < 2 {
			maxChunks = 2
		}
		var cuts []int
		switch r.Intn(6) {
		case 0: // whole stream in one Write
		case 1:
			ks := []int{c17KiB, 4 * c17KiB, 16 * c17KiB, 32*c17KiB + 1, 64*c17KiB - 1, 64 * c17KiB, 64*c17KiB + 1, 128 * c17KiB}
			kk := ks[r.Intn(len(ks))]
			for len(stream)/kk > maxChunks {
				kk *= 2
			}
			cuts = c17fixed(len(stream), kk)
		case 2:
			cuts = c17randcuts(r, len(stream), r.Range(2, maxChunks))
		case 3:
			cuts = c17nlcuts(stream, r.Intn(2))
		case 4:
			cuts = c17merge(c17randcuts(r, len(stream), r.Range(2, maxChunks/2+2)), c17nlcuts(stream, r.Intn(2)))
		default: // a few cuts at random places
			for j := r.Range(1, 4); j > 0; j-- {
				cuts = append(cuts, r.Range(1, len(stream)))
			}
			cuts = c17merge(cuts, nil)
		}
		ops := c17cut(stream, cuts)
		switch r.Intn(4) {
		case 0:
		case 1:
			ops = c17syncs(r, ops, r.Range(1, 3), 0)
		default:
			ops = c17syncs(r, ops, 4, []int{3, 10, 40}[r.Intn(3)])
		}
		en0 := true
		class := "big-rand"
		if r.Chance(15) { // level changes between the pieces of a long line
			class = "big-rand-lvl"
			en0 = r.Bool()
			var out []c17op
			for _, o := range ops {
				if r.Chance(15) {
					out = append(out, c17op{kind: 2, en: r.Bool()})
				}
				out = append(out, o)
			}
			ops = out
		}
		if r.Bool() {
			ops = c17flip(ops)
		}
		if r.Chance(60) {
			if r.Bool() {
				ops = append(ops, c17op{kind: 1})
			}
			ops = append(ops, c17tailPhase(r)...)
		}
		emit(en0, ops, class)
	}
}

// zapdrive: runs the real zap (from /repo, via the replace directive) on seeded
// cases and prints, per case, the case and the implementation's observation.
//
//	zapdrive <Cxx> -seed N -tier quick|thorough -out FILE [-replay FILE]
//
// Line format:  <input-sexp> \t <observation-sexp> \t <meta k=v,k=v>
// Lines starting with "!" are side channels: "!VIOL\t<what>\t<replay-sexp>" (a
// violation observed directly, outside the model), "!ASSUME\t<what>" (a standard
// library assumption failed), "!INFO\tk=v".
package main

import (
	"bufio"
	"flag"
	"fmt"
	"os"
	"sort"
	"strings"
)

type Ctx struct {
	Seed     uint64
	Thorough bool
	out      *bufio.Writer
	Cases    int
}

func (c *Ctx) Emit(input, obs SX, meta map[string]string) {
	var w strings.Builder
	input.write(&w)
	w.WriteByte('\t')
	obs.write(&w)
	w.WriteByte('\t')
	keys := make([]string, 0, len(meta))
	for k := range meta {
		keys = append(keys, k)
	}
	sort.Strings(keys)
	for i, k := range keys {
		if i > 0 {
			w.WriteByte(',')
		}
		w.WriteString(k)
		w.WriteByte('=')
		w.WriteString(meta[k])
	}
	w.WriteByte('\n')
	c.out.WriteString(w.String())
	c.Cases++
}
func (c *Ctx) Viol(what string, replay SX) {
	fmt.Fprintf(c.out, "!VIOL\t%s\t%s\n", what, Render(replay))
}
func (c *Ctx) Assume(what string) { fmt.Fprintf(c.out, "!ASSUME\t%s\n", what) }
func (c *Ctx) Info(k, v string)   { fmt.Fprintf(c.out, "!INFO\t%s=%s\n", k, v) }

var registry = map[string]func(*Ctx){}

// replay hooks: property -> re-run one case given as an input sexp string
var replayers = map[string]func(*Ctx, string){}

func main() {
	if len(os.Args) < 2 {
		fmt.Fprintln(os.Stderr, "usage: zapdrive <Cxx> [-seed N] [-tier quick|thorough] [-out FILE]")
		os.Exit(2)
	}
	prop := os.Args[1]
	fs := flag.NewFlagSet("zapdrive", flag.ExitOnError)
	seed := fs.Uint64("seed", 1, "seed")
	tier := fs.String("tier", "quick", "quick|thorough")
	out := fs.String("out", "", "output file (default stdout)")
	replay := fs.String("replay", "", "re-run the single case given as an input sexp")
	fs.Parse(os.Args[2:])
	f := os.Stdout
	if *out != "" {
		var err error
		f, err = os.Create(*out)
		if err != nil {
			fmt.Fprintln(os.Stderr, err)
			os.Exit(2)
		}
		defer f.Close()
	}
	ctx := &Ctx{Seed: *seed, Thorough: *tier == "thorough", out: bufio.NewWriterSize(f, 1<<20)}
	defer ctx.out.Flush()
	if *replay != "" {
		r, ok := replayers[prop]
		if !ok {
			fmt.Fprintln(os.Stderr, "no replayer for", prop)
			os.Exit(2)
		}
		r(ctx, *replay)
		return
	}
	run, ok := registry[prop]
	if !ok {
		fmt.Fprintln(os.Stderr, "unknown property", prop)
		os.Exit(2)
	}
	run(ctx)
}

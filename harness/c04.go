package main

import (
	"bytes"
	"encoding/json"
	"fmt"
	"hash/fnv"
	"net/url"
	"os"
	"os/exec"
	"runtime"
	"strconv"
	"strings"
	"sync"
	"sync/atomic"
	"time"

	"go.uber.org/zap"
	"go.uber.org/zap/zapcore"
)

// C04: N goroutines log through loggers sharing one core (a tee of 1..3 ioCores)
// whose sinks are zapcore.Lock(rec), zap.CombineWriteSyncers(rec...), zap.Open(...)
// or a BufferedWriteSyncer over rec, with concurrent Logger.Sync calls and fake flush
// ticks.  One run = one case:
//   input       = (cfg threads hints): per goroutine the lines a SEQUENTIAL reference
//                 logger (same encoders, same derivations, private plain sinks) produces
//                 for its accepted entries, per branch; hints = per branch the order of
//                 goroutine ids read off the observed stream (lets the serial model
//                 reproduce the stream exactly; the oracle ignores it);
//                 4th / 5th component: the error-path history (c04_fault.go) and the oversize history
//                 (c04_big.go) of the case and of the process before it (not looked at by model or oracle);
//   observation = per branch ((byte stream of each recording sink) aligned).
// The recording sink is NOT atomic: it appends a Write in several chunks with
// runtime.Gosched() between them, keeps an in-flight counter (two overlapping
// Write/Sync calls = the mutex did not serialise them), and checks that the slice it
// was handed does not change while the call is in progress (buffer freed too early).

// ---------------------------------------------------------------- recording sink
type c04Rec struct {
	id       string
	seed     uint64
	oneLine  bool // locked sinks: every Write call must be exactly one line
	fast     bool // console storm: one append per Write, no yields, no checksum (the critical section is as short as a real sink's)
	inflight atomic.Int32
	overlap  atomic.Int32 // overlapping calls seen
	mutated  atomic.Int32 // slice changed during Write
	misalign atomic.Int32 // a Write call that was not a whole number of lines
	mu       sync.Mutex   // protects buf only (memory safety of the recorder itself)
	buf      []byte
	calls    int
	syncs    int
	firstBad string
}

func c04sum(p []byte) uint64 {
	h := fnv.New64a()
	h.Write(p)
	return h.Sum64()
}

func (r *c04Rec) note(s string) {
	r.mu.Lock()
	if r.firstBad == "" {
		r.firstBad = s
	}
	r.mu.Unlock()
}

func (r *c04Rec) Write(p []byte) (int, error) {
	if r.inflight.Add(1) > 1 {
		r.overlap.Add(1)
	}
	defer r.inflight.Add(-1)
	var before uint64
	if !r.fast {
		before = c04sum(p)
	}
	nls := bytes.Count(p, []byte{'\n'})
	if len(p) == 0 || p[len(p)-1] != '\n' || (r.oneLine && nls != 1) {
		r.misalign.Add(1)
		r.note(fmt.Sprintf("Write call of %d bytes with %d newlines: %.80q", len(p), nls, p))
	}
	n := len(p)
	if r.fast {
		r.mu.Lock()
		r.buf = append(r.buf, p...)
		r.calls++
		r.mu.Unlock()
		return n, nil
	}
	// deliver in up to 3 chunks
	c1, c2 := n, n
	if n >= 2 {
		h := (uint64(n)*0x9E3779B97F4A7C15 ^ r.seed) >> 17
		c1 = 1 + int(h%uint64(n-1))
		c2 = c1 + int((h>>20)%uint64(n-c1+1))
	}
	cuts := []int{0, c1, c2, n}
	for i := 0; i+1 < len(cuts); i++ {
		if cuts[i] == cuts[i+1] {
			continue
		}
		r.mu.Lock()
		r.buf = append(r.buf, p[cuts[i]:cuts[i+1]]...)
		r.mu.Unlock()
		runtime.Gosched()
	}
	if c04sum(p) != before {
		r.mutated.Add(1)
		r.note("the slice handed to Write changed before Write returned")
	}
	r.mu.Lock()
	r.calls++
	r.mu.Unlock()
	return n, nil
}

func (r *c04Rec) Sync() error {
	if r.inflight.Add(1) > 1 {
		r.overlap.Add(1)
	}
	runtime.Gosched()
	r.mu.Lock()
	r.syncs++
	r.mu.Unlock()
	r.inflight.Add(-1)
	return nil
}
func (r *c04Rec) Close() error { return nil }

// zap.Open goes through the sink registry: scheme c04rec, host = recorder id.
var c04sinks sync.Map
var c04reg sync.Once

func c04register() {
	c04reg.Do(func() {
		if err := zap.RegisterSink("c04rec", func(u *url.URL) (zap.Sink, error) {
			v, ok := c04sinks.Load(u.Host)
			if !ok {
				return nil, fmt.Errorf("no recorder %q", u.Host)
			}
			return v.(*c04Rec), nil
		}); err != nil {
			panic(err)
		}
	})
}

// fake clock for BufferedWriteSyncer: ticks are sent by the harness
type c04Clock struct{ ch chan time.Time }

func (c *c04Clock) Now() time.Time { return time.Unix(0, 0) }
func (c *c04Clock) NewTicker(time.Duration) *time.Ticker {
	return &time.Ticker{C: c.ch}
}

// ---------------------------------------------------------------- case description
const (
	c04Lock    = 0 // zapcore.Lock(rec)
	c04Combine = 1 // zap.CombineWriteSyncers(rec1..reck)
	c04Open    = 2 // zap.Open("c04rec://a", ...)  (= CombineWriteSyncers of registry sinks)
	c04Buf     = 3 // &zapcore.BufferedWriteSyncer{WS: rec, Size: size}
	c04LockBuf = 4 // zapcore.Lock(&BufferedWriteSyncer{...}) -- modelled as buffered
)

type c04Branch struct {
	kind, k, size int
	console       bool
}
type c04Op struct {
	kind int // 0 log, 1 Logger.Sync, 2 the goroutine hits a fault logger (c04_fault.go; not judged)
	f    c04FOp
	ef   int // error-path fields added to this (judged) entry: bits of c04errFields
	fe   int // front end
	lvl  zapcore.Level
	msg  string
	nf   int // number of extra fields
	// oversize entries (c04_big.go): which part of the entry carries the payload pad (0 = none)
	big int
	pad string
}
type c04Thread struct {
	// 0 base, 1 With(fields), 2 Named, 3 With().Named(), 4 shared With-child,
	// 5 With(Reflect struct), 6 With(Namespace, Any map, Any slice).Named(), 7 With(Reflect) of the shared child,
	// 8 With(String of more than 16 KiB), 9 With(Reflect of more than 16 KiB) of the shared child (c04_big.go)
	deriv int
	ops   []c04Op
	// pre: not a goroutine of the concurrent phase but a part of the sequential prologue, run by the
	// main goroutine before the others start (on the wire: a thread like the others)
	pre bool
}
type c04Case struct {
	br []c04Branch
	th []c04Thread
	// reflection-encoded values (zap.Reflect / zap.Any of a struct, map, slice) make the
	// long-lived encoder of a With-context own a scratch buffer (jsonEncoder.reflectBuf):
	//   baseCtx   0 none; 1 the base logger is New(...).With(Reflect struct); 2 .With(Any map, String);
	//             3 zap.Fields(Reflect struct) option; 4 With(Reflect).With(Any) (two levels)
	//   sharedCtx 0 the shared child carries a String only; 1 + Reflect struct; 2 + Any map + Namespace + Any slice
	//   callRefl  per-call fields may be reflection-encoded too (c04fields, Sugar Logw)
	baseCtx   int
	sharedCtx int
	callRefl  bool
	flt       c04Faults // error-path history around the judged loggers (c04_fault.go)
	storm     int       // console storm (c04_storm.go): c04StormOn, c04StormGC
	wrap      int       // forwarding wrapper cores in front of / inside the judged tee (c04_wrap.go)
	ticks     int
	seed      uint64
	class     string
}

// values for the reflection-encoded fields: deterministic under encoding/json
type c04Inner struct {
	K string            `json:"k"`
	V []int             `json:"v,omitempty"`
	M map[string]string `json:"m,omitempty"`
}
type c04Refl struct {
	Sv string   `json:"sv"`
	Sh int      `json:"sh"`
	T  []string `json:"t"`
	In c04Inner `json:"in"`
	P  *c04Inner
}

func c04reflVal(g, seq int, pad string) c04Refl {
	v := c04Refl{Sv: fmt.Sprintf("<%d>&\"", g), Sh: seq, T: []string{pad, "é"}, In: c04Inner{K: pad, V: []int{g, -1}}}
	if (g+seq)%2 == 0 {
		v.P = &c04Inner{K: "p", M: map[string]string{"z": pad, "a": "\n"}}
	}
	return v
}
func c04reflMap(g int, pad string) map[string]interface{} {
	return map[string]interface{}{"g": g, "p": pad, "n": map[string]int{"b": 2, "a": 1}, "l": []interface{}{"x", nil, 2.5}}
}

func c04enc(j int, b c04Branch) zapcore.Encoder {
	cfg := zapcore.EncoderConfig{
		MessageKey: fmt.Sprintf("m%d", j), LevelKey: "l", NameKey: "n",
		LineEnding:     zapcore.DefaultLineEnding,
		EncodeLevel:    zapcore.LowercaseLevelEncoder,
		EncodeDuration: zapcore.NanosDurationEncoder,
		EncodeTime:     zapcore.EpochNanosTimeEncoder,
	}
	if b.console {
		return zapcore.NewConsoleEncoder(cfg)
	}
	return zapcore.NewJSONEncoder(cfg)
}

func c04derive(base, shared *zap.Logger, g, deriv int) *zap.Logger {
	switch deriv {
	case 8, 9:
		return c04deriveBig(base, shared, g, deriv)
	case 5:
		return base.With(zap.Reflect("r", c04reflVal(g, 0, "ctx")), zap.Int("g", g))
	case 6:
		return base.With(zap.Namespace("ns"), zap.Any("am", c04reflMap(g, "w")), zap.Any("as", []c04Inner{{K: "q", V: []int{g}}})).Named("r")
	case 7:
		return shared.With(zap.Reflect("r2", c04reflVal(g, 1, strings.Repeat("y", 10*g))))
	case 1:
		return base.With(zap.Int("g", g), zap.String("ctx", "c\"x"))
	case 2:
		return base.Named(fmt.Sprintf("w%d", g))
	case 3:
		return base.With(zap.Namespace("ns"), zap.Int("g", g)).Named("d")
	case 4:
		return shared
	}
	return base
}

// the base logger and the With-child that several goroutines share
func c04loggers(cs *c04Case, core zapcore.Core, opts ...zap.Option) (base, shared *zap.Logger) {
	if cs.baseCtx == 3 {
		opts = append(opts, zap.Fields(zap.Reflect("rc", c04reflVal(3, 3, "opt"))))
	}
	base = zap.New(core, opts...)
	switch cs.baseCtx {
	case 1:
		base = base.With(zap.Reflect("rc", c04reflVal(1, 7, "base")))
	case 2:
		base = base.With(zap.Any("rc", c04reflMap(2, "base")), zap.String("bs", "x"))
	case 4:
		base = base.With(zap.Reflect("rc", c04reflVal(4, 1, strings.Repeat("L", 24)))).With(zap.Any("rd", []c04Inner{{K: "1"}, {K: "2", V: []int{4}}}))
	}
	switch cs.sharedCtx {
	case 1:
		shared = base.With(zap.String("shared", "child"), zap.Reflect("sr", c04reflVal(9, 9, "shared")))
	case 2:
		shared = base.With(zap.String("shared", "child"), zap.Any("sm", c04reflMap(9, "shared")), zap.Namespace("sn"), zap.Any("ss", []interface{}{"s", 1, c04Inner{K: "i"}}))
	default:
		shared = base.With(zap.String("shared", "child"))
	}
	return base, shared
}

// a prefix of the message (at most 48 bytes) to vary the reflection-encoded values
func c04pad(msg string, d int) string {
	n := len(msg) / d
	if n > 48 {
		n = 48
	}
	return msg[:n]
}

func c04fields(o c04Op, seq int) []zap.Field {
	fs := []zap.Field{zap.Int("i", seq)}
	for k := 0; k < o.nf; k++ {
		switch k {
		case 4:
			fs = append(fs, zap.Reflect("r", c04reflVal(len(o.msg), seq, c04pad(o.msg, 4))))
			continue
		case 5:
			fs = append(fs, zap.Any("y", c04reflMap(seq, c04pad(o.msg, 6))))
			continue
		case 6:
			fs = append(fs, zap.Any("z", []c04Inner{{K: c04pad(o.msg, 2), V: []int{seq}}, {K: "2"}}))
			continue
		}
		switch k % 4 {
		case 0:
			fs = append(fs, zap.String("s", o.msg[:len(o.msg)/3]))
		case 1:
			fs = append(fs, zap.Strings("a", []string{"x", o.msg[:len(o.msg)/5], "z"}))
		case 2:
			fs = append(fs, zap.Duration("d", time.Duration(seq)*time.Millisecond))
		case 3:
			fs = append(fs, zap.Binary("b", []byte(o.msg[:len(o.msg)/7])))
		}
	}
	if o.ef != 0 {
		fs = append(fs, c04errFields(o.ef, seq, c04pad(o.msg, 3))...)
	}
	if o.big != 0 {
		fs = append(fs, c04bigFields(o, seq)...)
	}
	return fs
}

func c04log(l *zap.Logger, o c04Op, seq int) {
	fs := c04fields(o, seq)
	msg := o.msg
	if o.big == c04BigMsg {
		msg = o.msg + o.pad
	}
	switch o.fe {
	case 0: // level-named front end
		switch o.lvl {
		case zapcore.DebugLevel:
			l.Debug(msg, fs...)
		case zapcore.InfoLevel:
			l.Info(msg, fs...)
		case zapcore.WarnLevel:
			l.Warn(msg, fs...)
		case zapcore.ErrorLevel:
			l.Error(msg, fs...)
		default:
			l.DPanic(msg, fs...)
		}
	case 1:
		l.Log(o.lvl, msg, fs...)
	case 2:
		if ce := l.Check(o.lvl, msg); ce != nil {
			ce.Write(fs...)
		}
	case 3: // sugared, key-value pairs
		s := l.Sugar()
		kv := []interface{}{"i", seq}
		if o.nf > 0 {
			kv = append(kv, "s", o.msg[:len(o.msg)/3])
		}
		if o.nf > 4 { // Sugar: a struct / map value goes through zap.Any -> Reflect
			kv = append(kv, "r", c04reflVal(len(o.msg), seq, c04pad(o.msg, 4)))
		}
		if o.nf > 5 {
			kv = append(kv, "y", c04reflMap(seq, "kv"))
		}
		// error paths through zap.Any: failing marshaler, reflection failure, panicking Stringer
		if o.ef&1 != 0 {
			kv = append(kv, "eo", c04BadObj{n: seq, pad: "kv"})
		}
		if o.ef&4 != 0 {
			kv = append(kv, "ec", make(chan int))
		}
		if o.ef&8 != 0 {
			kv = append(kv, "es", c04PanicStr{n: seq}, "en", (*c04NilStr)(nil))
		}
		if o.ef&16 != 0 {
			kv = append(kv, "ee", c04PanicErr{})
		}
		if o.big != 0 {
			kv = append(kv, c04bigKV(o, seq)...)
		}
		s.Logw(o.lvl, msg, kv...)
	case 4: // sugared, formatted
		l.Sugar().Logf(o.lvl, "%s", msg)
	default: // sugared, Sprint
		l.Sugar().Log(o.lvl, msg)
	}
}

// ---------------------------------------------------------------- reference (sequential)
// per goroutine, per accepted entry: (sync, line per branch)
type c04RefEntry struct {
	sync  bool
	lines [][]byte
}

// Every entry is logged TWICE in a row: the expected line must be a function of the entry, the
// logger's context and the encoder configuration -- not of what the process logged before (the
// reference shares zap's pools with everything else in the process, so a buffer that comes back
// from a pool in a bad state would otherwise corrupt the expected line and the observed one alike).
// Two different lines for one entry are reported as a direct observation.
func c04reference(cs *c04Case) (ref [][]c04RefEntry, unstable []string) {
	nb := len(cs.br)
	bufs := make([]*bytes.Buffer, nb)
	cores := make([]zapcore.Core, nb)
	for j, b := range cs.br {
		bufs[j] = &bytes.Buffer{}
		cores[j] = zapcore.NewCore(c04enc(j, b), zapcore.AddSync(bufs[j]), zapcore.InfoLevel)
	}
	base, shared := c04loggers(cs, zapcore.NewTee(cores...))
	out := make([][]c04RefEntry, len(cs.th))
	for g, th := range cs.th {
		l := c04derive(base, shared, g, th.deriv)
		for seq, o := range th.ops {
			if o.kind != 0 {
				continue
			}
			for _, b := range bufs {
				b.Reset()
			}
			c04log(l, o, seq)
			e := c04RefEntry{sync: o.lvl > zapcore.ErrorLevel}
			any := false
			for _, b := range bufs {
				e.lines = append(e.lines, append([]byte(nil), b.Bytes()...))
				if b.Len() > 0 {
					any = true
				}
			}
			// a line of the JSON encoder is one JSON document (whatever the entry carries: failing
			// marshalers and reflection failures are reported inside the document)
			for j, ln := range e.lines {
				if !cs.br[j].console && len(ln) > 0 && len(unstable) < 3 && !(ln[len(ln)-1] == '\n' && json.Valid(ln[:len(ln)-1])) {
					unstable = append(unstable, fmt.Sprintf("a sequential logger wrote a line that is not a JSON document (thread %d, op %d, branch %d, %d bytes: %.60q ... %.60q)",
						g, seq, j, len(ln), ln, ln[len(ln)-c04min(len(ln), 60):]))
				}
			}
			for _, b := range bufs {
				b.Reset()
			}
			c04log(l, o, seq)
			for j, b := range bufs {
				if !bytes.Equal(b.Bytes(), e.lines[j]) && len(unstable) < 3 {
					d := 0
					for d < b.Len() && d < len(e.lines[j]) && b.Bytes()[d] == e.lines[j][d] {
						d++
					}
					unstable = append(unstable, fmt.Sprintf("a sequential logger wrote two different lines for the same entry logged twice in a row (thread %d, op %d, branch %d: %d and %d bytes, first difference at byte %d: %.40q / %.40q)",
						g, seq, j, len(e.lines[j]), b.Len(), d, e.lines[j][d:], b.Bytes()[d:]))
				}
			}
			if any {
				out[g] = append(out[g], e)
			}
		}
	}
	return out, unstable
}

// ---------------------------------------------------------------- concurrent run
type c04Obs struct {
	recs    [][]*c04Rec // per branch, per underlying sink
	errOut  *c04Rec
	viol    []string
	timeout bool
}

func c04run(cs *c04Case, caseNo int) *c04Obs {
	c04register()
	defer c04stormEnter(cs)() // a storm runs on GOMAXPROCS >= 8 (c04_storm.go)
	nb := len(cs.br)
	obs := &c04Obs{recs: make([][]*c04Rec, nb)}
	cores := make([]zapcore.Core, nb)
	var bws []*zapcore.BufferedWriteSyncer
	var clocks []*c04Clock
	var closers []func()
	for j, b := range cs.br {
		k := b.k
		if b.kind == c04Lock || b.kind == c04Buf || b.kind == c04LockBuf {
			k = 1
		}
		for u := 0; u < k; u++ {
			r := &c04Rec{id: fmt.Sprintf("c%d-%d-b%d-s%d", cs.seed%100000, caseNo, j, u), seed: cs.seed + uint64(j*7+u),
				oneLine: b.kind != c04Buf && b.kind != c04LockBuf, fast: cs.storm&c04StormFast != 0}
			obs.recs[j] = append(obs.recs[j], r)
		}
		var ws zapcore.WriteSyncer
		switch b.kind {
		case c04Lock:
			ws = zapcore.Lock(obs.recs[j][0])
		case c04Combine:
			l := make([]zapcore.WriteSyncer, k)
			for u := range l {
				l[u] = obs.recs[j][u]
			}
			ws = zap.CombineWriteSyncers(l...)
		case c04Open:
			paths := make([]string, k)
			for u := range paths {
				c04sinks.Store(obs.recs[j][u].id, obs.recs[j][u])
				paths[u] = "c04rec://" + obs.recs[j][u].id
			}
			w, cl, err := zap.Open(paths...)
			if err != nil {
				obs.viol = append(obs.viol, "zap.Open failed: "+err.Error())
				return obs
			}
			closers = append(closers, cl)
			ws = w
		case c04Buf, c04LockBuf:
			clk := &c04Clock{ch: make(chan time.Time)}
			bw := &zapcore.BufferedWriteSyncer{WS: obs.recs[j][0], Size: b.size, FlushInterval: time.Hour, Clock: clk}
			bws = append(bws, bw)
			clocks = append(clocks, clk)
			ws = bw
			if b.kind == c04LockBuf {
				ws = zapcore.Lock(bw)
			}
		}
		cores[j] = zapcore.NewCore(c04enc(j, b), ws, zapcore.InfoLevel)
	}
	obs.errOut = &c04Rec{id: "errout"}
	// error-path history (c04_fault.go): fault loggers over failing sinks, and optionally a failing
	// branch hidden in the judged tee (first or last; nothing is required of it)
	flt := &cs.flt
	lives := make([]*c04FLive, len(flt.logs))
	for i, d := range flt.logs {
		lives[i] = c04buildFLog(d, fmt.Sprintf("c%d-%d-f%d", cs.seed%100000, caseNo, i), cs.seed+uint64(100+i))
	}
	var stopTee func()
	if flt.tee != 0 {
		bad, stop := c04teeBad(cs)
		stopTee = stop
		cores = c04withBad(cores, bad, flt.tee) // first / after the first healthy branch / last
	}
	var fviol atomic.Value // first unexpected panic of a fault-path call / failed pool probe
	noteF := func(s string) {
		if s != "" {
			fviol.CompareAndSwap(nil, s)
		}
	}
	prologue := func() {
		for seq, o := range flt.pre {
			noteF(c04faultOp(lives[o.fl], o, 99, seq))
		}
		if len(flt.pre) > 0 {
			noteF(c04poolProbe(8))
		}
	}
	if !flt.preLate {
		prologue()
	}
	base, shared := c04loggers(cs, c04topology(cores, cs.wrap), zap.ErrorOutput(zapcore.Lock(obs.errOut)))

	var wg, tickWg sync.WaitGroup
	start := make(chan struct{})
	stopTicks := make(chan struct{})
	var panics atomic.Int32
	var panicMsg atomic.Value
	// the sequential prologue of judged entries (threads with pre = true), in thread order
	func() {
		defer func() {
			if x := recover(); x != nil {
				panics.Add(1)
				panicMsg.Store(fmt.Sprint(x))
			}
		}()
		for g := range cs.th {
			if !cs.th[g].pre {
				continue
			}
			l := c04derive(base, shared, g, cs.th[g].deriv)
			for seq, o := range cs.th[g].ops {
				switch o.kind {
				case 1:
					_ = l.Sync()
				case 2:
					noteF(c04faultOp(lives[o.f.fl], o.f, g, seq))
				default:
					c04log(l, o, seq)
				}
			}
		}
	}()
	for k := range flt.conc {
		wg.Add(1)
		go func(k int) {
			defer wg.Done()
			<-start
			for seq, o := range flt.conc[k] {
				noteF(c04faultOp(lives[o.fl], o, 100+k, seq))
				if seq%4 == 3 {
					runtime.Gosched()
				}
			}
		}(k)
	}
	for g := range cs.th {
		if cs.th[g].pre {
			continue
		}
		wg.Add(1)
		go func(g int) {
			defer wg.Done()
			defer func() {
				if x := recover(); x != nil {
					panics.Add(1)
					panicMsg.Store(fmt.Sprint(x))
				}
			}()
			// derivation happens concurrently too (With/Named on a shared logger)
			l := c04derive(base, shared, g, cs.th[g].deriv)
			<-start
			for seq, o := range cs.th[g].ops {
				switch o.kind {
				case 1:
					_ = l.Sync()
				case 2:
					noteF(c04faultOp(lives[o.f.fl], o.f, g, seq))
				default:
					c04log(l, o, seq)
				}
			}
			noteF(c04poolProbe(4))
		}(g)
	}
	if flt.preLate {
		prologue() // while the goroutines derive their loggers
	}
	for _, clk := range clocks {
		tickWg.Add(1)
		go func(clk *c04Clock) {
			defer tickWg.Done()
			<-start
			for i := 0; i < cs.ticks; i++ {
				select {
				case clk.ch <- time.Unix(int64(i), 0):
				case <-stopTicks:
					return
				}
				runtime.Gosched()
			}
		}(clk)
	}
	c04stormGC(cs, &tickWg, start, stopTicks) // forced garbage collections during a storm
	done := make(chan struct{})
	go func() {
		close(start)
		wg.Wait()
		close(stopTicks)
		tickWg.Wait()
		// the owner's final flush: Logger.Sync and/or Stop of every BufferedWriteSyncer
		// (Stop alone must flush what is buffered)
		if cs.seed&1 == 0 {
			_ = base.Sync()
		}
		for _, bw := range bws {
			_ = bw.Stop()
		}
		for _, cl := range closers {
			cl()
		}
		for _, lv := range lives {
			if lv.stop != nil {
				lv.stop()
			}
		}
		if stopTee != nil {
			stopTee()
		}
		noteF(c04poolProbe(16))
		close(done)
	}()
	select {
	case <-done:
	case <-time.After(60 * time.Second):
		obs.timeout = true
		obs.viol = append(obs.viol, "watchdog: the run did not finish within 60 s (deadlock?)")
		return obs
	}
	for j := range obs.recs {
		for _, r := range obs.recs[j] {
			c04sinks.Delete(r.id)
		}
	}
	if panics.Load() > 0 {
		obs.viol = append(obs.viol, fmt.Sprintf("a logging goroutine panicked: %v", panicMsg.Load()))
	}
	if flt.tee != 0 {
		// the failing branch makes CheckedEntry.Write report its write errors; nothing else may appear
		if ln := c04errOutOnlyInjected(obs.errOut.buf); ln != "" {
			obs.viol = append(obs.viol, fmt.Sprintf("zap reported an internal error on ErrorOutput other than the injected sink failures: %.200q", ln))
		}
	} else if len(obs.errOut.buf) > 0 {
		obs.viol = append(obs.viol, fmt.Sprintf("zap reported an internal error on ErrorOutput: %.200q", obs.errOut.buf))
	}
	if v := fviol.Load(); v != nil {
		obs.viol = append(obs.viol, v.(string))
	}
	// the healthy sinks of the fault loggers: every accepted fault entry exactly once, intact, in order
	for i, lv := range lives {
		if lv.noise == nil {
			continue
		}
		want := map[int][]int{}
		add := func(o c04FOp, tid, seq int) {
			if o.fl == i && c04fopWrites(o) {
				want[tid] = append(want[tid], seq)
			}
		}
		for seq, o := range flt.pre {
			add(o, 99, seq)
		}
		for k := range flt.conc {
			for seq, o := range flt.conc[k] {
				add(o, 100+k, seq)
			}
		}
		for g := range cs.th {
			for seq, o := range cs.th[g].ops {
				if o.kind == 2 {
					add(o.f, g, seq)
				}
			}
		}
		obs.viol = append(obs.viol, c04checkNoise(i, lv.noise, want)...)
	}
	for j := range obs.recs {
		for u, r := range obs.recs[j] {
			if n := r.overlap.Load(); n > 0 {
				obs.viol = append(obs.viol, fmt.Sprintf("mutual exclusion broken: %d overlapping Write/Sync calls on sink %d of branch %d", n, u, j))
			}
			if n := r.mutated.Load(); n > 0 {
				obs.viol = append(obs.viol, fmt.Sprintf("buffer reused before the sink write returned: %d Write calls on sink %d of branch %d saw their slice change", n, u, j))
			}
		}
	}
	return obs
}

// ---------------------------------------------------------------- emit
func c04kindSx(b c04Branch) SX {
	switch b.kind {
	case c04Lock:
		return L(I(0), I(1))
	case c04Combine, c04Open:
		return L(I(0), I(b.k))
	default:
		sz := b.size
		if sz == 0 {
			sz = 256 * 1024
		}
		return L(I(1), I(sz))
	}
}

func c04emit(c *Ctx, cs *c04Case, caseNo int) {
	ref, unstable := c04reference(cs)
	nb := len(cs.br)
	// input
	cfg := make([]SX, nb)
	for j, b := range cs.br {
		cfg[j] = c04kindSx(b)
	}
	owner := make([]map[string]int, nb)
	for j := range owner {
		owner[j] = map[string]int{}
	}
	threads := make([]SX, len(cs.th))
	totalLines, active, maxLine, syncOps, bytesTotal := 0, 0, 0, 0, 0
	for g, th := range cs.th {
		var ops []SX
		ri := 0
		accepted := 0
		// keep Sync ops at their position relative to the accepted entries
		for _, o := range th.ops {
			if o.kind == 1 {
				ops = append(ops, L(I(1)))
				syncOps++
				continue
			}
			if ri < len(ref[g]) && c04isAccepted(o) {
				e := ref[g][ri]
				ri++
				accepted++
				ops = append(ops, L(I(0), Bool(e.sync), LB(e.lines)))
				for j, ln := range e.lines {
					owner[j][string(ln)] = g
					if len(ln) > maxLine {
						maxLine = len(ln)
					}
					bytesTotal += len(ln)
				}
			}
		}
		if accepted > 0 {
			active++
		}
		totalLines += accepted
		threads[g] = L(ops...)
	}
	// the tick goroutines are further threads of the program
	tickThreads := []SX{}
	for j, b := range cs.br {
		if b.kind == c04Buf || b.kind == c04LockBuf {
			var ops []SX
			for i := 0; i < cs.ticks; i++ {
				ops = append(ops, L(I(2), I(j)))
			}
			tickThreads = append(tickThreads, L(ops...))
		}
	}
	threads = append(threads, tickThreads...)
	// a crash of the process (e.g. a panic in BufferedWriteSyncer's own flushLoop goroutine)
	// cannot be recovered here: leave the case on disk for the parent process
	// 5th component: the oversize history (c04_big.go) -- how many lines of more than 16 KiB the
	// process had delivered before this case (the pools keep the buffers those grew) and the largest,
	// the number of such lines in this case, and which threads form the sequential prologue
	bigHist := c04bigHistSx(cs, ref)
	if cur := os.Getenv("C04_CUR"); cur != "" {
		_ = os.WriteFile(cur, []byte(fmt.Sprintf("%d\t%s\t%s", caseNo, cs.class, Render(L(L(cfg...), L(threads...), L(), c04faultsSx(cs, c04Injected.Load()), bigHist)))), 0o644)
	}
	// 4th component of the input: the error-path history of this case and the number of error-path
	// events provoked in this process before it (model and spec do not look at it: C04_bystanders)
	faults := c04faultsSx(cs, c04Injected.Load())
	errsBefore := c04Injected.Load()
	bigsBefore, bigMaxBefore := c04BigsSeen, c04BigMaxSeen
	obs := c04run(cs, caseNo)
	c04bigNote(ref)
	// observation + hints
	hints := make([]SX, nb)
	ob := make([]SX, nb)
	for j := 0; j < nb; j++ {
		var streams []SX
		aligned := true
		for _, r := range obs.recs[j] {
			streams = append(streams, B(r.buf))
			if r.misalign.Load() > 0 {
				aligned = false
			}
		}
		ob[j] = L(L(streams...), Bool(aligned))
		var h []int
		if len(obs.recs[j]) > 0 {
			for _, ln := range bytes.SplitAfter(obs.recs[j][0].buf, []byte{'\n'}) {
				if len(ln) == 0 {
					continue
				}
				if g, ok := owner[j][string(ln)]; ok {
					h = append(h, g)
				} else {
					h = append(h, len(threads)) // no such thread: the model skips it
				}
			}
		}
		hints[j] = LI(h)
	}
	input := L(L(cfg...), L(threads...), L(hints...), faults, bigHist)
	for _, v := range append(unstable, obs.viol...) {
		c.Viol(v+" ["+cs.class+"]", input)
	}
	if obs.timeout {
		return
	}
	for j := 0; j < nb; j++ {
		for u, r := range obs.recs[j] {
			if r.misalign.Load() > 0 {
				c.Info(fmt.Sprintf("misaligned-b%d-s%d", j, u), strings.ReplaceAll(r.firstBad, "\t", " "))
			}
		}
	}
	nt := "0"
	if active >= 2 && totalLines >= 4 {
		nt = "1"
	}
	big := "0"
	for _, b := range cs.br {
		if (b.kind == c04Buf || b.kind == c04LockBuf) && maxLine > b.size && b.size > 0 {
			big = "1"
		}
	}
	c.Emit(input, L(ob...), map[string]string{"nt": nt, "class": cs.class, "g": fmt.Sprint(len(cs.th)),
		"lines": fmt.Sprint(totalLines), "maxline": fmt.Sprint(maxLine), "bigger": big, "syncs": fmt.Sprint(syncOps), "ticks": fmt.Sprint(cs.ticks),
		"refl": fmt.Sprintf("%d%d%v", cs.baseCtx, cs.sharedCtx, cs.usesRefl()), "storm": cs.stormTag(),
		"bigs": fmt.Sprint(cs.bigs()), "pre": cs.preTag(), "bigs_before": fmt.Sprint(bigsBefore), "bigmax_before": fmt.Sprint(bigMaxBefore),
		"fault": cs.faultTag(), "errs_before": fmt.Sprint(errsBefore), "errs_in_case": fmt.Sprint(c04Injected.Load() - errsBefore)})
	c.out.Flush()
}

// does any With-context or per-call field of the case hold a reflection-encoded value?
func (cs *c04Case) usesRefl() bool {
	if cs.baseCtx != 0 || cs.sharedCtx != 0 {
		return true
	}
	for _, th := range cs.th {
		if th.deriv >= 5 {
			return true
		}
		for _, o := range th.ops {
			if o.kind == 0 && o.nf > 4 {
				return true
			}
		}
	}
	return false
}

func c04min(a, b int) int {
	if a < b {
		return a
	}
	return b
}

func c04isAccepted(o c04Op) bool { return o.kind == 0 && o.lvl >= zapcore.InfoLevel }

// ---------------------------------------------------------------- generators
var c04alpha = []byte("abcdefghijklmnopqrstuvwxyz0123456789 \"\\/<>&é")

func c04msg(r *RNG, g, seq, n int) string {
	var sb strings.Builder
	fmt.Fprintf(&sb, "g%02d-%04d-", g, seq)
	for sb.Len() < n {
		sb.WriteByte(c04alpha[r.Intn(len(c04alpha)-2)])
	}
	if r.Chance(20) {
		sb.WriteString("é\"")
	}
	return sb.String()
}

// budget bounds the total message bytes of one case (the case file and the extracted
// model are linear resp. quadratic in it); once exhausted, messages stay short
// refl: 0 = no reflection-encoded value in the derivations / per-call fields (derivations 0..4,
// up to 3 extra fields); 1 = derivations 0..7; 2 = derivations 0..7 and up to 7 extra fields
// (the last three reflection-encoded); 3 = derivations 0..4, up to 7 extra fields
func c04threads(r *RNG, n, maxOps int, sizeClass int, bufSize int, withSync bool, budget int, refl int) []c04Thread {
	ths := make([]c04Thread, n)
	nDeriv, nNf := 5, 4
	if refl == 1 || refl == 2 {
		nDeriv = 8
	}
	if refl >= 2 {
		nNf = 8
	}
	for g := range ths {
		ths[g].deriv = r.Intn(nDeriv)
		m := r.Range(1, maxOps)
		for seq := 0; seq < m; seq++ {
			if withSync && r.Chance(6) {
				ths[g].ops = append(ths[g].ops, c04Op{kind: 1})
				continue
			}
			var ln int
			switch {
			case sizeClass == 0:
				ln = r.Range(10, 40)
			case sizeClass == 1:
				ln = r.Range(10, 200)
			default: // around and above the buffer size
				x := r.Intn(10)
				switch {
				case x < 5:
					ln = r.Range(10, 60)
				case x < 8:
					ln = r.Range(bufSize/2+1, bufSize+40)
				default:
					ln = r.Range(bufSize+1, 3*bufSize+100)
				}
			}
			if ln > budget {
				ln = r.Range(10, 20)
			}
			budget -= ln
			lvl := zapcore.InfoLevel
			switch x := r.Intn(100); {
			case x < 8:
				lvl = zapcore.DebugLevel
			case x < 58:
				lvl = zapcore.InfoLevel
			case x < 73:
				lvl = zapcore.WarnLevel
			case x < 88:
				lvl = zapcore.ErrorLevel
			default:
				lvl = zapcore.DPanicLevel
				if !withSync {
					lvl = zapcore.ErrorLevel
				}
			}
			ths[g].ops = append(ths[g].ops, c04Op{kind: 0, fe: r.Intn(6), lvl: lvl, msg: c04msg(r, g, seq, ln), nf: r.Intn(nNf)})
		}
	}
	return ths
}

func c04className(br []c04Branch) string {
	names := []string{"lock", "combine", "open", "buf", "lockbuf"}
	parts := make([]string, len(br))
	for i, b := range br {
		parts[i] = names[b.kind]
	}
	if len(br) > 1 {
		hasBuf := ""
		for _, b := range br {
			if b.kind == c04Buf || b.kind == c04LockBuf {
				hasBuf = "-buffered"
			}
		}
		return fmt.Sprintf("tee%d%s", len(br), hasBuf)
	}
	return strings.Join(parts, "+")
}

// The cases are run in a child process (same binary, C04_CHILD=1): a panic in a goroutine
// zap itself started (BufferedWriteSyncer.flushLoop) kills the process; the parent then
// reports the case that was running as a violation and resumes after it.  Side-channel
// lines are written after the last case line (the driver prints a verdict for every line).
func c04(c *Ctx) {
	if os.Getenv("C04_CHILD") != "" {
		c04child(c)
		return
	}
	dir, err := os.MkdirTemp("", "c04")
	if err != nil {
		panic(err)
	}
	defer os.RemoveAll(dir)
	tier := "quick"
	if c.Thorough {
		tier = "thorough"
	}
	var side []string
	from, crashes := 0, 0
	for {
		outf, curf := dir+"/out", dir+"/cur"
		os.Remove(curf)
		cmd := exec.Command(os.Args[0], "C04", "-seed", strconv.FormatUint(c.Seed, 10), "-tier", tier, "-out", outf)
		// under -race (thorough tier) the child stops at the first report, so that the case on disk is the racing one
		cmd.Env = append(os.Environ(), "C04_CHILD=1", "C04_FROM="+strconv.Itoa(from), "C04_CUR="+curf, "GORACE=halt_on_error=1")
		var stderr bytes.Buffer
		cmd.Stderr = &stderr
		runErr := cmd.Run()
		data, _ := os.ReadFile(outf)
		for _, ln := range strings.Split(string(data), "\n") {
			if ln == "" {
				continue
			}
			if strings.HasPrefix(ln, "!") {
				side = append(side, ln)
				continue
			}
			if strings.Count(ln, "\t") != 2 {
				continue // a line cut short by the crash
			}
			c.out.WriteString(ln)
			c.out.WriteByte('\n')
			c.Cases++
		}
		if runErr == nil {
			break
		}
		crashes++
		cur, _ := os.ReadFile(curf)
		parts := strings.SplitN(string(cur), "\t", 3)
		msg := strings.TrimSpace(stderr.String())
		if i := strings.Index(msg, "\n\n"); i > 0 {
			msg = msg[:i]
		}
		if strings.Contains(msg, "DATA RACE") {
			msg = "the race detector reported: " + msg
		}
		msg = strings.Join(strings.Fields(msg), " ")
		if len(msg) > 300 {
			msg = msg[:300]
		}
		if len(parts) == 3 {
			idx, _ := strconv.Atoi(parts[0])
			side = append(side, fmt.Sprintf("!VIOL\tthe process running the real zap crashed during this case: %s [%s]\t%s", msg, parts[1], parts[2]))
			from = idx + 1
		} else {
			side = append(side, fmt.Sprintf("!VIOL\tthe process running the real zap crashed before any case: %s\t()", msg))
			break
		}
		if crashes >= 5 {
			side = append(side, "!INFO\tstopped=after 5 crashes")
			break
		}
	}
	// one corrupted pool shows in hundreds of runs: report the first direct observations, count the rest
	// (every oracle rejection is still reported through the verdicts)
	const maxDirect = 12
	direct := 0
	for _, ln := range side {
		if strings.HasPrefix(ln, "!VIOL") {
			direct++
			if direct > maxDirect {
				continue
			}
		}
		c.out.WriteString(ln)
		c.out.WriteByte('\n')
	}
	if direct > maxDirect {
		fmt.Fprintf(c.out, "!INFO\tdirect_observations=%d (the first %d are reported)\n", direct, maxDirect)
	}
}

func c04child(c *Ctx) {
	if runtime.GOMAXPROCS(0) < 4 {
		runtime.GOMAXPROCS(4)
	}
	from, _ := strconv.Atoi(os.Getenv("C04_FROM"))
	only := os.Getenv("C04_ONLY") // development: run only the cases whose class contains this (the others are still generated)
	r := NewRNG(c.Seed)
	// the oversize entries draw from a stream of their own: what they are added to is the case
	// the seed generated before they existed
	rb := NewRNG(c.Seed*0x9E3779B97F4A7C15 + 0xC04B16)
	rs := NewRNG(c.Seed*0x9E3779B97F4A7C15 + 0xC0457)
	rw := NewRNG(c.Seed*0x9E3779B97F4A7C15 + 0xC04F3D) // forwarding wrappers (c04_wrap.go): a stream of their own as well
	caseNo := 0
	var emitR func(cs *c04Case, rr *RNG)
	emit := func(cs *c04Case) { emitR(cs, r) }
	emitR = func(cs *c04Case, rr *RNG) {
		cs.seed = rr.Next()
		cs.class = c04className(cs.br)
		if cs.usesRefl() {
			cs.class += "/refl"
		}
		if cs.hasFaults() {
			cs.class += "/fault"
		}
		if cs.bigs() > 0 {
			cs.class += "/big"
		}
		if cs.wrapped() {
			cs.class += "/wrap"
		}
		if cs.storm != 0 {
			cs.class = cs.stormName() + ":" + cs.class
		}
		if caseNo >= from && (only == "" || strings.Contains(cs.class, only)) {
			c04emit(c, cs, caseNo)
		}
		caseNo++
	}
	// 1. directed grid: every sink kind x goroutine count x size class x with/without Sync+ticks
	grid := [][]c04Branch{
		{{kind: c04Lock}},
		{{kind: c04Combine, k: 2}},
		{{kind: c04Combine, k: 3, console: true}},
		{{kind: c04Open, k: 1}},
		{{kind: c04Open, k: 2}},
		{{kind: c04Buf, size: 64}},
		{{kind: c04Buf, size: 512}},
		{{kind: c04LockBuf, size: 128}},
		{{kind: c04Lock}, {kind: c04Buf, size: 96}},
		{{kind: c04Lock}, {kind: c04Lock, console: true}},
		{{kind: c04Buf, size: 48}, {kind: c04Combine, k: 2}, {kind: c04Open, k: 1, console: true}},
	}
	reps := 2
	if c.Thorough {
		reps = 20
	}
	for rep := 0; rep < reps; rep++ {
		for _, br := range grid {
			for _, n := range []int{2, 3, 8} {
				for sc := 0; sc < 3; sc += 2 {
					for _, ws := range []bool{false, true} {
						bs := 64
						for _, b := range br {
							if b.size > 0 {
								bs = b.size
							}
						}
						cs := &c04Case{br: br, th: c04threads(r, n, 10, sc, bs, ws, 3000, 0)}
						if ws {
							cs.ticks = 5
						}
						emit(cs)
					}
				}
			}
		}
	}
	// 1b. directed: reflection-encoded values (zap.Reflect / zap.Any of a struct, map, slice) in the
	// With-context of the logger the goroutines share and/or in the per-call fields, JSON and console.
	// The long-lived encoder of such a With-context owns a reflection scratch buffer; the per-call
	// clones must not share or free it.
	rgrid := [][]c04Branch{
		{{kind: c04Lock}},
		{{kind: c04Lock, console: true}},
		{{kind: c04Combine, k: 2}},
		{{kind: c04Open, k: 1, console: true}},
		{{kind: c04Buf, size: 64}},
		{{kind: c04LockBuf, size: 1024, console: true}},
		{{kind: c04Lock}, {kind: c04Lock, console: true}},
		{{kind: c04Buf, size: 512}, {kind: c04Combine, k: 2, console: true}, {kind: c04Open, k: 1}},
	}
	rreps := 1
	if c.Thorough {
		rreps = 10
	}
	for rep := 0; rep < rreps; rep++ {
		for _, br := range rgrid {
			for _, n := range []int{2, 8} {
				for mode := 0; mode < 5; mode++ {
					bs := 64
					for _, b := range br {
						if b.size > 0 {
							bs = b.size
						}
					}
					ws := mode == 4
					cs := &c04Case{br: br}
					switch mode {
					case 0: // only the base logger's With-context is reflected; ordinary per-call fields
						cs.baseCtx = 1 + (rep+n)%4
						cs.th = c04threads(r, n, 24, 1, bs, ws, 6000, 0)
					case 1: // every goroutine logs through ONE With-child holding a reflected field
						cs.sharedCtx = 1 + (rep+n/2)%2
						cs.th = c04threads(r, n, 24, 1, bs, ws, 6000, 0)
						for g := range cs.th {
							cs.th[g].deriv = 4
						}
					case 2: // reflected values in the per-call fields only
						cs.callRefl = true
						cs.th = c04threads(r, n, 24, 0, bs, ws, 6000, 3)
					case 3: // private reflected With-children of a plain base (derivations 5..7)
						cs.th = c04threads(r, n, 24, 0, bs, ws, 6000, 1)
						for g := range cs.th {
							cs.th[g].deriv = 5 + (g+rep)%3
						}
					default: // everything at once, with Sync calls and flush ticks
						cs.baseCtx = 1 + (rep+n+1)%4
						cs.sharedCtx = 1 + rep%2
						cs.callRefl = true
						cs.th = c04threads(r, n, 24, 2, bs, ws, 6000, 2)
						cs.ticks = 5
					}
					emit(cs)
				}
			}
		}
	}
	// 1c. directed: error-path histories (c04_fault.go).  Some OTHER logger of the process (or a hidden
	// branch of the judged tee, or the judged entries' own fields) takes a rare error path before and/or
	// during the concurrent phase; the judged sinks must still receive every entry exactly once, intact.
	fgrid := [][]c04Branch{
		{{kind: c04Lock}},
		{{kind: c04Combine, k: 2, console: true}},
		{{kind: c04Open, k: 1}},
		{{kind: c04Buf, size: 64}},
		{{kind: c04LockBuf, size: 256, console: true}},
		{{kind: c04Lock}, {kind: c04Buf, size: 96}, {kind: c04Lock, console: true}},
	}
	freps := 1
	if c.Thorough {
		freps = 10
	}
	writeKinds := []int{c04fkPlain, c04fkPlain, c04fkObj, c04fkRefl}
	for rep := 0; rep < freps; rep++ {
		for bi, br := range fgrid {
			for _, n := range []int{2, 8} {
				for mode := 0; mode < 10; mode++ {
					bs := 64
					for _, b := range br {
						if b.size > 0 {
							bs = b.size
						}
					}
					ws := mode == 5 || mode == 9
					cs := &c04Case{br: br, th: c04threads(r, n, 16, 1, bs, ws, 5000, 0)}
					f := &cs.flt
					v := rep + bi + n // varies the failing sink over the grid
					switch mode {
					case 0: // ONE sink write error of some other logger before the goroutines start, nothing else
						f.logs = []c04FLog{{sink: []int{8, 0, 1, 5}[v%4]}}
						f.pre = []c04FOp{{kind: c04fkPlain, lvl: zapcore.InfoLevel, size: 20}}
						f.preLate = v%2 == 1
					case 1: // prologue: every kind of fault op once, on every kind of failing sink
						for sk := 0; sk < c04nFSinks; sk++ {
							f.logs = append(f.logs, c04FLog{sink: sk, console: (sk+v)%3 == 0})
						}
						for k := 0; k < c04nFKinds; k++ {
							f.pre = append(f.pre, c04FOp{fl: (k + v) % c04nFSinks, kind: k, lvl: zapcore.ErrorLevel, size: 12 + k})
							f.pre = append(f.pre, c04FOp{fl: (k + v + 5) % c04nFSinks, kind: k, lvl: zapcore.InfoLevel, size: 40})
						}
					case 2: // a dedicated goroutine keeps hitting a failing sink during the concurrent phase
						f.logs = []c04FLog{{sink: []int{0, 1, 2, 9}[v%4], console: v%2 == 0}}
						ops := make([]c04FOp, 24)
						for i := range ops {
							ops[i] = c04genFOp(r, 1, writeKinds)
						}
						f.conc = [][]c04FOp{ops}
					case 3: // the judged goroutines themselves hit a failing sink between their own log calls
						f.logs = []c04FLog{{sink: []int{0, 1, 5, 3}[v%4]}, {sink: []int{8, 2, 9, 4}[v%4], console: true}}
						c04inlineFaults(r, cs, 35, writeKinds)
					case 4: // a failing branch hidden in the judged tee, first
						f.tee, f.teeMode = 1, v%7
					case 5: // a failing branch hidden in the judged tee, last, with Sync calls and ticks
						f.tee, f.teeMode = 2, (v+3)%7
						cs.ticks = 5
					case 6: // no sink fails: failing marshalers / reflection failures / panicking Stringers and errors,
						// in another logger (inline + dedicated goroutine) and in the judged entries themselves
						f.logs = []c04FLog{{sink: 6, console: v%2 == 1, opts: 8 * (v % 2)}}
						kinds := []int{c04fkObj, c04fkArr, c04fkRefl, c04fkStr, c04fkErr, c04fkInline, c04fkWith, c04fkAll}
						c04inlineFaults(r, cs, 30, kinds)
						ops := make([]c04FOp, 12)
						for i := range ops {
							ops[i] = c04genFOp(r, 1, kinds)
						}
						f.conc = [][]c04FOp{ops}
						c04errFieldOps(r, cs, 50)
					case 7: // failing BufferedWriteSyncer, panicking sink, panicking marshaler, DPanic/Panic level entries
						f.logs = []c04FLog{{sink: 4}, {sink: 7, console: true}, {sink: 5, opts: 16 + 1}}
						var ops []c04FOp
						for i := 0; i < 18; i++ {
							o := c04genFOp(r, 3, []int{c04fkPlain, c04fkPanicObj, c04fkSync, c04fkAll})
							if i%3 == 0 {
								o.lvl = []zapcore.Level{zapcore.DPanicLevel, zapcore.PanicLevel}[(i/3)%2]
							}
							ops = append(ops, o)
						}
						f.pre = ops[:4]
						f.conc = [][]c04FOp{ops[4:]}
					case 8: // caller + stacktrace, failing hook, failing ErrorOutput, failing With-context; large failing entries
						f.logs = []c04FLog{{sink: v % c04nFSinks, opts: 1 + 2 + 4 + 8, console: v%2 == 0}, {sink: (v + 3) % c04nFSinks, opts: 1 + 2}}
						for i := 0; i < 4; i++ {
							o := c04genFOp(r, 2, c04allFKinds)
							o.size = 600 * (i + 1)
							f.pre = append(f.pre, o)
						}
						c04inlineFaults(r, cs, 20, c04allFKinds)
					default: // everything at once, reflected contexts, Sync calls and ticks
						cs.baseCtx = 1 + v%4
						cs.sharedCtx = 1 + v%2
						cs.callRefl = true
						cs.th = c04threads(r, n, 12, 2, bs, ws, 5000, 2)
						c04genFaults(r, cs)
						f.tee, f.teeMode = 1+v%2, v%7
						cs.ticks = 5
					}
					emit(cs)
				}
			}
		}
	}
	// 1d. directed: oversize entries (c04_big.go)
	c04bigGrid(c, rb, emitR)
	// 1e. directed: console storm (c04_storm.go): 64..128 goroutines, thousands of console entries with
	// With-context and call-site fields, payloads 7 B..96 KiB, forced garbage collections
	c04stormGrid(c, rs, emitR)
	// 1f. directed: forwarding wrapper cores in front of the judged tee (the tee is written through
	// multiCore.Write) with a failing branch at every position (c04_wrap.go)
	c04wrapGrid(c, rw, emitR)
	// 2. seeded random configurations
	N := 800
	budget := 4000
	bigPct := 6 // share of the random cases that get oversize entries on top (c04_big.go)
	if c.Thorough {
		N = 12000
		budget = 12000
		bigPct = 2 // the case file is linear in the oversize bytes
	}
	for i := 0; i < N; i++ {
		nb := 1
		if r.Chance(35) {
			nb = r.Range(2, 3)
		}
		br := make([]c04Branch, nb)
		bs := 64
		for j := range br {
			b := c04Branch{kind: r.Intn(5), console: r.Chance(25)}
			switch b.kind {
			case c04Combine:
				b.k = r.Range(1, 3)
			case c04Open:
				b.k = r.Range(1, 2)
			case c04Buf, c04LockBuf:
				b.size = []int{16, 32, 64, 100, 256, 1024}[r.Intn(6)]
				bs = b.size
			}
			br[j] = b
		}
		n := r.Range(2, 8)
		if c.Thorough && r.Chance(10) {
			n = r.Range(9, 16)
		}
		maxOps := 16
		if r.Chance(10) {
			maxOps = 60
		}
		ws := r.Chance(60)
		cs := &c04Case{br: br}
		refl := 0
		caseBudget := budget
		if r.Chance(45) {
			// reflection-encoded values: in the shared With-contexts, the private derivations, the call sites
			if r.Chance(60) {
				cs.baseCtx = r.Range(1, 4)
			}
			if r.Chance(60) {
				cs.sharedCtx = r.Range(1, 2)
			}
			refl = r.Intn(4)
			cs.callRefl = refl >= 2
			// these lines carry 100..400 bytes of context each: bound the case size by the number of lines
			caseBudget = budget / 2
			if m := 160 / (n * nb); maxOps > m {
				maxOps = m
				if maxOps < 6 {
					maxOps = 6
				}
			}
		}
		cs.th = c04threads(r, n, maxOps, r.Intn(3), bs, ws, caseBudget, refl)
		if cs.sharedCtx != 0 && r.Chance(40) {
			// most goroutines on the one shared child
			for g := range cs.th {
				if r.Chance(75) {
					cs.th[g].deriv = 4
				}
			}
		}
		if ws {
			cs.ticks = r.Intn(20)
		}
		if r.Chance(35) {
			c04genFaults(r, cs) // error-path history around (and inside) the judged loggers
		}
		if rs.Chance(1) {
			// a storm of the random configuration (c04_storm.go): 32..80 goroutines on its sinks, encoders,
			// contexts and fault history
			c04stormRandom(rs, cs, ws, refl)
		}
		if rw.Chance(15) {
			// forwarding wrappers on top of whatever the case is, mostly with a failing branch in front of healthy ones
			c04wrapRandom(rw, cs)
		}
		if rb.Chance(bigPct) {
			// oversize entries on top of whatever the case is: prologue / every 16th / dedicated / oversize context
			maxClass := []int{0, 0, 0, 0, 0, 0, 1, 1, 1, 2}[rb.Intn(10)]
			if maxClass == 2 && (nb > 1 || br[0].k > 1) {
				maxClass = 1
			}
			c04oversize(rb, cs, 1+rb.Intn(15), maxClass, []int{5, 3, 2}[maxClass], ws)
		}
		emit(cs)
	}
}

func init() { registry["C04"] = c04 }

package main

import (
	"bytes"
	"encoding/json"
	"flag"
	"fmt"
	"io"
	"net/http"
	"net/http/httptest"
	"net/url"
	"sort"
	"strings"
	"unicode/utf8"

	"go.uber.org/zap"
	"go.uber.org/zap/zapcore"
	"go.uber.org/zap/zaptest/observer"
	"gopkg.in/yaml.v3"
)

// C20: level names and the level HTTP endpoint.
//
//	case (0 l tgt)              one of the 256 level values; tgt = value the round-trip targets hold beforehand
//	     (1 tgt #text jt yt)    one text through every textual entry point; jt/yt = () | (#t): the text the
//	                            JSON / YAML document built from it denotes (oracle: decoded into a string)
//	     (2 init (req ...))     a history of requests against one AtomicLevel shared with a live logger
//	         req = (#method #content-type ((#key #FormValue(key)) ...) (jerr (#text ...) final_nil))
//	     (3 init k0 (op ...))   a history over several holders of AtomicLevel handles (c20_shared.go)
//
// Oracles (standard library called directly, never through zap): net/http's form parsing,
// encoding/json's walk over the request body (a probe type records every text handed to
// UnmarshalText for the "level" key), json/yaml string decoding, bytes.ToLower (reported as !INFO).

// ---------------------------------------------------------------- helpers

func c20rt(l zapcore.Level, err error) SX { return L(Z(int64(l)), Bool(err == nil)) }

var c20panics int

// a panic escaping from zap is a violation observed directly; the first few are reported with
// their input, the rest only counted (!INFO panics_not_listed)
func c20guard(c *Ctx, what string, replay SX, f func()) {
	defer func() {
		if p := recover(); p != nil {
			c20panics++
			if c20panics <= 3 {
				c.Viol(fmt.Sprintf("panic escaped from %s: %v", what, p), replay)
			}
		}
	}()
	f()
}

// ---------------------------------------------------------------- kind 0: level values

func c20level(c *Ctx, l, tgt zapcore.Level) {
	in := L(I(0), Z(int64(l)), Z(int64(tgt)))
	c20guard(c, "level value case", in, func() {
		s, cp := l.String(), l.CapitalString()
		mt, err := l.MarshalText()
		if err != nil {
			c.Viol("Level.MarshalText returned an error: "+err.Error(), in)
			return
		}
		js, err := json.Marshal(l)
		if err != nil {
			c.Viol("json.Marshal(Level) returned an error: "+err.Error(), in)
			return
		}
		a := zap.NewAtomicLevelAt(l)
		amt, err := a.MarshalText()
		if err != nil {
			c.Viol("AtomicLevel.MarshalText returned an error: "+err.Error(), in)
			return
		}
		if a.Level() != l {
			c.Viol(fmt.Sprintf("NewAtomicLevelAt(%d).Level() = %d", l, a.Level()), in)
		}
		if g, ok := (&l).Get().(zapcore.Level); !ok || g != l {
			c.Viol(fmt.Sprintf("Level.Get() of %d returned %v", l, (&l).Get()), in)
		}
		x1 := tgt
		e1 := x1.UnmarshalText([]byte(s))
		x2 := tgt
		e2 := x2.UnmarshalText([]byte(cp))
		x3 := tgt
		e3 := json.Unmarshal(js, &x3)
		ys, err := yaml.Marshal(l)
		if err != nil {
			c.Assume("yaml.Marshal(Level) failed: " + err.Error())
			return
		}
		var ytext string
		if err := yaml.Unmarshal(ys, &ytext); err != nil || ytext != s {
			c.Assume(fmt.Sprintf("yaml does not round-trip the level text %q (got %q, %v)", s, ytext, err))
			return
		}
		x4 := tgt
		e4 := yaml.Unmarshal(ys, &x4)
		nt := "1"
		c.Emit(in, L(Str(s), Str(cp), B(mt), B(js), Str(a.String()), B(amt),
			L(c20rt(x1, e1), c20rt(x2, e2), c20rt(x3, e3), c20rt(x4, e4))),
			map[string]string{"nt": nt, "class": "level"})
	})
}

// ---------------------------------------------------------------- kind 1: texts

var c20flagN int

func c20text(c *Ctx, tgt zapcore.Level, text string, class string) {
	tb := []byte(text)
	// oracles: the text a JSON / YAML document built from it denotes
	var jt, yt SX = L(), L()
	jdoc, jerr := json.Marshal(text)
	var jtext string
	haveJ := jerr == nil && json.Unmarshal(jdoc, &jtext) == nil
	if haveJ {
		jt = L(Str(jtext))
	}
	var ydoc []byte
	haveY := false
	if utf8.ValidString(text) {
		var yerr error
		func() {
			defer func() {
				if recover() != nil {
					yerr = fmt.Errorf("panic")
				}
			}()
			ydoc, yerr = yaml.Marshal(text)
		}()
		var ytext string
		if yerr == nil && yaml.Unmarshal(ydoc, &ytext) == nil {
			haveY = true
			yt = L(Str(ytext))
		}
	}
	in := L(I(1), Z(int64(tgt)), B(tb), jt, yt)
	c20guard(c, "text case", in, func() {
		var obs []SX
		// 0 (*Level).UnmarshalText
		l0 := tgt
		obs = append(obs, c20rt(l0, l0.UnmarshalText(tb)))
		// 1 (*Level).Set
		l1 := tgt
		e1 := l1.Set(text)
		obs = append(obs, c20rt(l1, e1))
		// 2 zapcore.ParseLevel
		l2, e2 := zapcore.ParseLevel(text)
		obs = append(obs, c20rt(l2, e2))
		// 3 flag.FlagSet.Parse with the Level as flag.Value
		l3 := tgt
		fs := flag.NewFlagSet("c20", flag.ContinueOnError)
		fs.SetOutput(io.Discard)
		fs.Var(&l3, "level", "")
		e3 := fs.Parse([]string{"-level=" + text})
		obs = append(obs, c20rt(l3, e3))
		// 4 zap.LevelFlag (global flag set) + flag.Set
		c20flagN++
		name := fmt.Sprintf("c20_level_%d", c20flagN)
		p4 := zap.LevelFlag(name, tgt, "")
		e4 := flag.Set(name, text)
		obs = append(obs, c20rt(*p4, e4))
		// 5 (*AtomicLevel).UnmarshalText
		a5 := zap.NewAtomicLevelAt(tgt)
		e5 := a5.UnmarshalText(tb)
		obs = append(obs, c20rt(a5.Level(), e5))
		// 6 zap.ParseAtomicLevel
		a6, e6 := zap.ParseAtomicLevel(text)
		obs = append(obs, c20rt(a6.Level(), e6))
		// 7 zero AtomicLevel
		var a7 zap.AtomicLevel
		e7 := a7.UnmarshalText(tb)
		obs = append(obs, c20rt(a7.Level(), e7))
		// 8, 9 encoding/json
		if haveJ {
			l8 := tgt
			e8 := json.Unmarshal(jdoc, &l8)
			obs = append(obs, c20rt(l8, e8))
			a9 := zap.NewAtomicLevelAt(tgt)
			e9 := json.Unmarshal(jdoc, &a9)
			obs = append(obs, c20rt(a9.Level(), e9))
		} else {
			obs = append(obs, L(), L())
		}
		// 10 yaml.v3
		if haveY {
			l10 := tgt
			e10 := yaml.Unmarshal(ydoc, &l10)
			obs = append(obs, c20rt(l10, e10))
		} else {
			obs = append(obs, L())
		}
		nt := "0"
		if text != strings.ToLower(text) || !c20isName(text) {
			nt = "1"
		}
		c.Emit(in, L(obs...), map[string]string{"nt": nt, "class": class})
	})
}

var c20names = []string{"debug", "info", "warn", "error", "dpanic", "panic", "fatal", "warning", ""}

func c20isName(s string) bool {
	for _, n := range c20names {
		if n == s {
			return true
		}
	}
	return false
}

// near-aliases a well-meaning edit might add, and other plausible texts
var c20dict = []string{"err", "warnings", "trace", "critical", "crit", "notice", "information", "informational",
	"inf", "dbg", "verbose", "off", "none", "all", "emerg", "alert", "fatale", "panics", "d-panic", "dpanik",
	"Level(0)", "LEVEL(3)", "Level(-1)", "level(1)", "0", "1", "-1", "5", "6", "null", "~", "true", "nil",
	"\"info\"", "'info'", "info,", "info\n", "info\r\n", " info", "info ", "\tinfo", "info\x00", "\x00", " ",
	"infoinfo", "debuginfo", "war", "warni", "warnin", "warning ", "warningg", "WARNINGS", "eror", "errror",
	"InfoLevel", "zap.InfoLevel", "DEBUGLEVEL", "fatal!", "i", "I", "-info", "--level=info", "=info", "level=info"}

var c20look = map[byte][]string{
	'i': {"İ", "ı", "і", "Ｉ", "ｉ", "í"},
	'k': {"K", "к"},
	's': {"ſ"},
	'a': {"а", "Ａ", "à", "Α"},
	'e': {"е", "Ε", "é"},
	'o': {"о", "ο", "Ο", "ｏ"},
	'n': {"ｎ", "Ν"},
	'd': {"ԁ", "Ｄ"},
	'p': {"р", "Ρ"},
	'c': {"с", "С"},
	'f': {"Ｆ"},
	'w': {"ｗ"},
	'r': {"Ｒ"},
	't': {"Τ"},
	'l': {"Ｌ"},
	'u': {"ü"},
	'b': {"В"},
	'g': {"Ｇ"},
}

func c20randCase(r *RNG, s string) string {
	b := []byte(s)
	for i, ch := range b {
		if r.Bool() {
			if 'a' <= ch && ch <= 'z' {
				b[i] = ch - 32
			} else if 'A' <= ch && ch <= 'Z' {
				b[i] = ch + 32
			}
		}
	}
	return string(b)
}

func c20pickName(r *RNG) string {
	all := append(append([]string{}, c20names...), genC20Texts...)
	return all[r.Intn(len(all))]
}

func c20lookalike(r *RNG, s string) string {
	if len(s) == 0 {
		return "İ"
	}
	for try := 0; try < 8; try++ {
		i := r.Intn(len(s))
		ch := s[i]
		if 'A' <= ch && ch <= 'Z' {
			ch += 32
		}
		if subs, ok := c20look[ch]; ok {
			return s[:i] + subs[r.Intn(len(subs))] + s[i+1:]
		}
	}
	return s + "İ"
}

// c20highbit sets the high bit on some bytes of s (on all of them when r is nil)
func c20highbit(r *RNG, s string) string {
	b := []byte(s)
	hit := false
	for i := range b {
		if r == nil || r.Intn(3) == 0 {
			b[i] |= 0x80
			hit = true
		}
	}
	if !hit && len(b) > 0 {
		b[r.Intn(len(b))] |= 0x80
	}
	return string(b)
}

func c20genText(r *RNG) (string, string) {
	switch r.Intn(13) {
	case 12:
		return c20highbit(r, c20randCase(r, c20pickName(r))), "highbit"
	case 0, 1, 2:
		return c20randCase(r, c20pickName(r)), "case"
	case 3:
		n := c20pickName(r)
		switch r.Intn(3) {
		case 0:
			return n, "exact"
		case 1:
			return strings.ToUpper(n), "exact"
		default:
			if n == "" {
				return n, "exact"
			}
			return strings.ToUpper(n[:1]) + n[1:], "exact"
		}
	case 4, 5:
		n := c20pickName(r)
		if r.Bool() {
			n = strings.ToUpper(n)
		} else if r.Bool() {
			n = c20randCase(r, n)
		}
		return c20lookalike(r, n), "lookalike"
	case 6:
		n := []byte(c20randCase(r, c20pickName(r)))
		alpha := []byte("abcdefghijklmnopqrstuvwxyzABCDEFGHIJKLMNOPQRSTUVWXYZ0123456789 _-()")
		switch r.Intn(3) {
		case 0: // insert
			i := r.Intn(len(n) + 1)
			n = append(n[:i], append([]byte{alpha[r.Intn(len(alpha))]}, n[i:]...)...)
		case 1: // delete
			if len(n) > 0 {
				i := r.Intn(len(n))
				n = append(n[:i], n[i+1:]...)
			}
		default: // substitute
			if len(n) > 0 {
				n[r.Intn(len(n))] = alpha[r.Intn(len(alpha))]
			}
		}
		return string(n), "edit"
	case 7:
		n := c20randCase(r, c20pickName(r))
		pads := []string{" ", "\n", "\t", "\x00", "\r\n", "\"", "\u00a0", "\ufeff", "\u200b"}
		p := pads[r.Intn(len(pads))]
		if r.Bool() {
			return p + n, "pad"
		}
		return n + p, "pad"
	case 8:
		return c20randCase(r, c20dict[r.Intn(len(c20dict))]), "dict"
	case 9:
		return string(r.Bytes(r.Intn(9), []byte("abdefgilnoprtuwADEFGINOPRTW"))), "letters"
	case 10:
		n := r.Intn(7)
		b := make([]byte, n)
		for i := range b {
			b[i] = byte(r.Intn(256))
		}
		return string(b), "bytes"
	default:
		// upper-cased with the Unicode-aware function on a look-alike: what bytes.ToLower would fold back
		return strings.ToUpper(c20lookalike(r, c20pickName(r))), "lookalike"
	}
}

func c20genTarget(r *RNG) zapcore.Level {
	if r.Chance(60) {
		return zapcore.Level(r.Range(-1, 5))
	}
	return zapcore.Level(int8(r.Intn(256)))
}

// ---------------------------------------------------------------- kind 2: HTTP histories

type c20req struct {
	method string
	hasCT  bool
	ctype  string
	query  string
	body   []byte
}

func (q c20req) build() *http.Request {
	h := http.Header{}
	if q.hasCT {
		h["Content-Type"] = []string{q.ctype}
	}
	return &http.Request{
		Method: q.method, URL: &url.URL{Path: "/log/level", RawQuery: q.query},
		Proto: "HTTP/1.1", ProtoMajor: 1, ProtoMinor: 1, Header: h, Host: "c20.test",
		Body: io.NopCloser(bytes.NewReader(q.body)), ContentLength: int64(len(q.body)),
	}
}

type c20probe int8

var c20probeTexts [][]byte

func (p *c20probe) UnmarshalText(t []byte) error {
	c20probeTexts = append(c20probeTexts, append([]byte(nil), t...))
	return nil
}

// the request as the model sees it: every part computed by the standard library
func c20abstract(q c20req) SX {
	or := q.build()
	ctype := or.Header.Get("Content-Type")
	_ = or.FormValue("level") // parses URL query and (for form content types) the body, errors ignored
	keys := make([]string, 0, len(or.Form))
	for k := range or.Form {
		keys = append(keys, k)
	}
	sort.Strings(keys)
	var form []SX
	for _, k := range keys {
		form = append(form, L(Str(k), Str(or.FormValue(k))))
	}
	c20probeTexts = nil
	var pld struct {
		Level *c20probe `json:"level"`
	}
	err := json.NewDecoder(bytes.NewReader(q.body)).Decode(&pld)
	texts := c20probeTexts
	return L(Str(q.method), Str(ctype), L(form...), L(Bool(err != nil), LB(texts), Bool(pld.Level == nil)))
}

type c20capture struct {
	http.ResponseWriter
	code int
	body bytes.Buffer
}

func (w *c20capture) WriteHeader(code int) {
	if w.code == 0 {
		w.code = code
	}
	w.ResponseWriter.WriteHeader(code)
}
func (w *c20capture) Write(p []byte) (int, error) {
	if w.code == 0 {
		w.code = 200
	}
	w.body.Write(p)
	return w.ResponseWriter.Write(p)
}

type c20endpoint struct {
	lvl    zap.AtomicLevel
	logger *zap.Logger
	logs   *observer.ObservedLogs
}

func c20newEndpoint(init zapcore.Level) *c20endpoint {
	lvl := zap.NewAtomicLevelAt(init)
	core, logs := observer.New(lvl)
	return &c20endpoint{lvl: lvl, logger: zap.New(core).With(zap.Int("k", 1)).Named("live"), logs: logs}
}

// what the live logger lets through right now
func (e *c20endpoint) mask() int {
	m := 0
	for l := zapcore.DebugLevel; l <= zapcore.DPanicLevel; l++ {
		if ce := e.logger.Check(l, "probe"); ce != nil {
			ce.Write()
		}
	}
	for _, ent := range e.logs.TakeAll() {
		m |= 1 << uint(int(ent.Level)+1)
	}
	for l := zapcore.PanicLevel; l <= zapcore.FatalLevel; l++ {
		if e.logger.Core().Enabled(l) {
			m |= 1 << uint(int(l)+1)
		}
	}
	return m
}

func c20observe(e *c20endpoint, code int, body []byte) SX {
	kind, payload := 0, body
	var m map[string]json.RawMessage
	if json.Unmarshal(body, &m) == nil && len(m) == 1 {
		if _, ok := m["level"]; ok {
			kind = 1
		} else if _, ok := m["error"]; ok {
			kind, payload = 2, nil
		}
	}
	return L(I(code), I(kind), B(payload), Z(int64(e.lvl.Level())), I(e.mask()))
}

// direct: the handler is called on a constructed request (any method string, any header)
func c20history(c *Ctx, init zapcore.Level, reqs []c20req, class string) {
	e := c20newEndpoint(init)
	var rs, os []SX
	changed, refused := 0, 0
	for _, q := range reqs {
		rs = append(rs, c20abstract(q))
		rec := httptest.NewRecorder()
		c20guard(c, "AtomicLevel.ServeHTTP", L(I(2), Z(int64(init)), L(rs...)), func() {
			e.lvl.ServeHTTP(rec, q.build())
		})
		if rec.Code == 200 && q.method == "PUT" {
			changed++
		} else if rec.Code != 200 {
			refused++
		}
		os = append(os, c20observe(e, rec.Code, rec.Body.Bytes()))
	}
	nt := "0"
	if changed > 0 && refused > 0 && len(reqs) >= 3 {
		nt = "1"
	}
	c.Emit(L(I(2), Z(int64(init)), L(rs...)), L(os...),
		map[string]string{"nt": nt, "class": class, "reqs": fmt.Sprint(len(reqs)), "bodies": c20bodyLens(reqs)})
}

// served: the same through a real net/http server and client; the request abstraction and the
// observation are taken inside the server, around the handler
func c20served(c *Ctx, init zapcore.Level, reqs []c20req, class string) {
	e := c20newEndpoint(init)
	var rs, os []SX
	changed, refused := 0, 0
	srv := httptest.NewServer(http.HandlerFunc(func(w http.ResponseWriter, r *http.Request) {
		b, _ := io.ReadAll(r.Body)
		_, has := r.Header["Content-Type"]
		q := c20req{method: r.Method, hasCT: has, ctype: r.Header.Get("Content-Type"), query: r.URL.RawQuery, body: b}
		rs = append(rs, c20abstract(q))
		r.Body = io.NopCloser(bytes.NewReader(b))
		cw := &c20capture{ResponseWriter: w}
		e.lvl.ServeHTTP(cw, r)
		if cw.code == 0 {
			cw.code = 200
		}
		if cw.code == 200 && r.Method == "PUT" {
			changed++
		} else if cw.code != 200 {
			refused++
		}
		os = append(os, c20observe(e, cw.code, cw.body.Bytes()))
	}))
	defer srv.Close()
	cl := srv.Client()
	for _, q := range reqs {
		req, err := http.NewRequest(q.method, srv.URL+"/log/level?"+q.query, bytes.NewReader(q.body))
		if err != nil {
			continue
		}
		if q.hasCT {
			req.Header.Set("Content-Type", q.ctype)
		}
		resp, err := cl.Do(req)
		if err != nil {
			continue
		}
		io.Copy(io.Discard, resp.Body)
		resp.Body.Close()
	}
	if len(rs) == 0 || len(rs) != len(os) {
		return
	}
	nt := "0"
	if changed > 0 && refused > 0 && len(rs) >= 3 {
		nt = "1"
	}
	c.Emit(L(I(2), Z(int64(init)), L(rs...)), L(os...),
		map[string]string{"nt": nt, "class": class, "reqs": fmt.Sprint(len(rs)), "bodies": c20bodyLens(reqs)})
}

const c20form = "application/x-www-form-urlencoded"

func c20jsonBody(r *RNG, text string) []byte {
	q, _ := json.Marshal(text)
	qs := string(q)
	switch r.Intn(20) {
	case 0:
		return []byte(`{"LEVEL":` + qs + `}`)
	case 1:
		return []byte(`{"Level":` + qs + `}`)
	case 2:
		t2, _ := c20genText(r)
		q2, _ := json.Marshal(t2)
		return []byte(`{"level":` + qs + `,"level":` + string(q2) + `}`)
	case 3:
		return []byte(`{"level":` + qs + `,"level":null}`)
	case 4:
		return []byte(`{"level":null,"level":` + qs + `}`)
	case 5:
		return []byte(`{"level":null}`)
	case 6:
		return []byte(`{"level":` + fmt.Sprint(r.Range(-2, 7)) + `}`)
	case 7:
		return []byte(`{"level":{"level":` + qs + `}}`)
	case 8:
		return []byte(`{"level":` + qs + `} trailing garbage`)
	case 9:
		return []byte(`{"level":` + qs + `}{"level":"debug"}`)
	case 10:
		return []byte(" \n\t{ \"level\" :\n " + qs + " }\n")
	case 11:
		return []byte(`[{"level":` + qs + `}]`)
	case 12:
		b := []byte(`{"level":` + qs + `}`)
		return b[:r.Intn(len(b))]
	case 13:
		return []byte(`{"other":1,"level":` + qs + `,"more":[1,2,{"level":"debug"}]}`)
	case 14:
		return []byte(`{}`)
	case 15:
		return []byte(`{"level":` + qs + `,}`)
	case 16:
		return []byte(`{"level":[` + qs + `]}`)
	case 17:
		return []byte(`{"level":true}`)
	default:
		return []byte(`{"level":` + qs + `}`)
	}
}

func c20formBody(r *RNG, text string) []byte {
	v := url.QueryEscape(text)
	switch r.Intn(14) {
	case 0:
		return []byte("a=b&level=" + v)
	case 1:
		t2, _ := c20genText(r)
		return []byte("level=" + v + "&level=" + url.QueryEscape(t2))
	case 2:
		return []byte("Level=" + v)
	case 3:
		return []byte("level")
	case 4:
		return []byte("level=")
	case 5:
		return []byte("level=%zz&x=" + v)
	case 6:
		return []byte("level=" + text) // unescaped
	case 7:
		return []byte("lvl=" + v)
	case 8:
		return []byte("level=" + v + ";x=1")
	case 9:
		return []byte("level%3D" + v)
	case 10:
		return []byte("&&level=" + v + "&")
	default:
		return []byte("level=" + v)
	}
}

func c20genReq(r *RNG, served bool) c20req {
	if r.Chance(3) {
		return c20genBigReq(r) // a body of 0.5-64 KiB (harness/c20_big.go)
	}
	var q c20req
	x := r.Intn(100)
	switch {
	case x < 55:
		q.method = "PUT"
	case x < 75:
		q.method = "GET"
	default:
		ms := []string{"POST", "DELETE", "PATCH", "HEAD", "OPTIONS", "put", "Put", "get", "PUTT", "PU", "GETPUT", "", "TRACE", "CONNECT"}
		if served {
			ms = []string{"POST", "DELETE", "PATCH", "HEAD", "OPTIONS", "put", "Put", "get", "PUTT", "QUERY"}
		}
		q.method = ms[r.Intn(len(ms))]
	}
	text, _ := c20genText(r)
	if r.Chance(45) {
		text = c20randCase(r, c20names[r.Intn(7)])
	}
	x = r.Intn(100)
	switch {
	case x < 12:
		q.hasCT = false
	case x < 50:
		q.hasCT, q.ctype = true, c20form
	case x < 75:
		q.hasCT, q.ctype = true, "application/json"
	default:
		cts := []string{c20form + "; charset=utf-8", "Application/X-WWW-Form-Urlencoded", "text/plain", " " + c20form,
			c20form + " ", "multipart/form-data; boundary=x", "application/json; charset=utf-8", "", "application/x-www-form-urlencode"}
		q.hasCT, q.ctype = true, cts[r.Intn(len(cts))]
	}
	// body style usually matches the content type, sometimes not
	formStyle := q.hasCT && strings.Contains(strings.ToLower(q.ctype), "form")
	if r.Chance(12) {
		formStyle = !formStyle
	}
	switch {
	case r.Chance(6):
		q.body = nil
	case r.Chance(4):
		n := r.Intn(12)
		q.body = make([]byte, n)
		for i := range q.body {
			q.body[i] = byte(r.Intn(256))
		}
	case formStyle:
		q.body = c20formBody(r, text)
	default:
		q.body = c20jsonBody(r, text)
	}
	switch x := r.Intn(100); {
	case x < 60:
	case x < 85:
		t2, _ := c20genText(r)
		if r.Bool() {
			t2 = c20names[r.Intn(7)]
		}
		q.query = "level=" + url.QueryEscape(t2)
	case x < 92:
		q.query = "x=1&Level=debug"
	default:
		if !served {
			q.query = "level=%zz;level=debug"
		}
	}
	if q.method == "GET" && r.Chance(70) {
		q.body, q.hasCT = nil, false
	}
	return q
}

func c20put(ctype, query, body string) c20req {
	return c20req{method: "PUT", hasCT: ctype != "-", ctype: ctype, query: query, body: []byte(body)}
}

// ---------------------------------------------------------------- driver

func c20(c *Ctx) {
	r := NewRNG(c.Seed)
	c.Info("go_bytes_ToLower_U+0130nfo", fmt.Sprintf("%x", bytes.ToLower([]byte("İnfo"))))

	// nil receiver: an error, not a panic
	c20guard(c, "(*Level)(nil).UnmarshalText", L(I(1), I(0), Str("info"), L(), L()), func() {
		var np *zapcore.Level
		if err := np.UnmarshalText([]byte("info")); err == nil {
			c.Viol("(*Level)(nil).UnmarshalText returned nil", L(I(1), I(0), Str("info"), L(), L()))
		}
	})

	// ---- kind 0: all 256 level values, twice (target 0 / a seeded target)
	for v := -128; v <= 127; v++ {
		c20level(c, zapcore.Level(int8(v)), zapcore.Level(0))
		c20level(c, zapcore.Level(int8(v)), c20genTarget(r))
	}

	// ---- kind 1: directed texts first
	var directed []string
	seen := map[string]bool{}
	add := func(s string) {
		if !seen[s] {
			seen[s] = true
			directed = append(directed, s)
		}
	}
	for _, n := range append(append([]string{}, c20names...), genC20Texts...) {
		add(n)
		add(strings.ToUpper(n))
		if n != "" {
			add(strings.ToUpper(n[:1]) + n[1:])
			add(n[:1] + strings.ToUpper(n[1:]))
			add(n[:len(n)-1] + strings.ToUpper(n[len(n)-1:]))
			add(n + " ")
			add(" " + n)
			add(n + "\n")
			add(n[:len(n)-1])
			add(n + n[len(n)-1:])
		}
	}
	// every name with the high bit set on one byte, and on all of them: a byte >= 0x80 is not an ASCII
	// letter whatever its low seven bits say (a table-driven asciiToLower indexed by c&0x7f folds it back)
	for _, n0 := range append(append([]string{}, c20names...), genC20Texts...) {
		for _, n := range []string{n0, strings.ToUpper(n0)} {
			for i := 0; i < len(n); i++ {
				b := []byte(n)
				b[i] |= 0x80
				add(string(b))
			}
			if n != "" {
				add(c20highbit(nil, n))
			}
		}
	}
	for _, n := range []string{"info", "INFO", "dpanic", "DPANIC", "panic", "PANIC", "warning", "WARNING"} {
		for _, sub := range []string{"İ", "ı", "і"} {
			add(strings.Replace(n, "i", sub, 1))
			add(strings.Replace(n, "I", sub, 1))
		}
	}
	for _, n := range []string{"K", "debuɡ", "ſ", "paniс", "ｉnfo", "infȯ", "i̇nfo", "\xff", "inf\xf0", "in\u00adfo"} {
		add(n)
	}
	for _, n := range c20dict {
		add(n)
	}
	for _, t := range directed {
		c20text(c, zapcore.Level(42), t, "directed")
		c20text(c, zapcore.Level(int8(r.Range(-1, 5))), t, "directed")
	}
	nText := 6000
	if c.Thorough {
		nText = 120000
	}
	for k := 0; k < nText; k++ {
		t, class := c20genText(r)
		c20text(c, c20genTarget(r), t, class)
	}

	// ---- kind 2: directed histories first
	J := "application/json"
	c20history(c, zapcore.InfoLevel, []c20req{{method: "GET"}}, "http-directed")
	c20history(c, zapcore.Level(42), []c20req{{method: "GET"}, c20put(J, "", `{"level":"debug"}`), {method: "GET"}}, "http-directed")
	c20history(c, zapcore.InfoLevel, []c20req{
		c20put(J, "", `{"level":"debug"}`), c20put(J, "", `{"level":"bogus"}`), {method: "GET"},
		c20put(c20form, "", "level=WARN"), c20put(c20form, "", "level="), c20put(c20form, "level=error", ""),
		c20put(c20form, "level=error", "level=fatal"), c20put("-", "", `{"level":"Panic"}`), c20put(J, "", `{"level":""}`),
		c20put(J, "", `{"level":null}`), c20put(J, "", `{}`), c20put(J, "", ``), c20put(J, "", `{"level":1}`),
		{method: "POST", hasCT: true, ctype: J, body: []byte(`{"level":"debug"}`)}, {method: "put", hasCT: true, ctype: J, body: []byte(`{"level":"debug"}`)},
		c20put(c20form+"; charset=utf-8", "", "level=debug"), c20put(J, "", `{"level":"debug","level":"nope"}`),
		c20put(J, "", `{"level":"nope","level":"debug"}`), c20put(J, "", `{"level":"debug","level":null}`),
		c20put(J, "", `{"level":"warn"} x`), c20put(c20form, "", "level=%C4%B0nfo"), c20put(J, "", "{\"level\":\"İNFO\"}"),
		c20put(J, "", `{"LEVEL":"error"}`), c20put(c20form, "", "Level=debug"), {method: "DELETE"}, {method: ""}, {method: "GET"},
	}, "http-directed")
	for _, n := range append(append([]string{}, c20names...), genC20Texts...) {
		jb, _ := json.Marshal(map[string]string{"level": n})
		c20history(c, zapcore.Level(int8(r.Range(-3, 8))), []c20req{
			c20put(J, "", string(jb)), {method: "GET"},
			c20put(c20form, "", "level="+url.QueryEscape(strings.ToUpper(n))), {method: "GET"},
			c20put(c20form, "level="+url.QueryEscape(n), ""), {method: "HEAD"}}, "http-directed")
	}
	nHist, maxLen := 3000, 14
	if c.Thorough {
		nHist, maxLen = 60000, 50
	}
	for k := 0; k < nHist; k++ {
		n := r.Range(1, maxLen)
		if r.Chance(5) {
			n = r.Range(maxLen, 50)
		}
		reqs := make([]c20req, n)
		for i := range reqs {
			reqs[i] = c20genReq(r, false)
		}
		c20history(c, c20genTarget(r), reqs, "http")
	}
	nSrv := 100
	if c.Thorough {
		nSrv = 1500
	}
	for k := 0; k < nSrv; k++ {
		n := r.Range(2, 12)
		reqs := make([]c20req, n)
		for i := range reqs {
			reqs[i] = c20genReq(r, true)
		}
		c20served(c, c20genTarget(r), reqs, "http-served")
	}
	// ---- kind 2, large bodies: the handler decides on the whole body (harness/c20_big.go)
	c20bigDirected(c, r)
	// ---- kind 3: one level, many holders (harness/c20_shared.go)
	c20shared(c, r)
	if c20panics > 3 {
		c.Info("panics_not_listed", fmt.Sprint(c20panics-3))
	}
}

func init() { registry["C20"] = c20 }

package main

import (
	"bytes"
	"errors"
	"fmt"
	"io"
	"sync"
	"time"

	"go.uber.org/zap/zapcore"
)

// C13, case kind (2 4 size (fop ..)): zapcore.BufferedWriteSyncer over a SCRIPTED sink.
//
//	fop = (0 #p (out ..))     Write(p)
//	    | (1 (out ..) se)     Sync()
//	    | (2 (out ..) se)     Stop()
//	    | (3 (out ..) se)     the ticker fires (flushLoop calls Sync and drops the error)
//	out = (drop err)          what the sink answers to its successive Write calls while this
//	                          operation runs: it keeps len(b)-drop bytes (clamped to 0..len(b)),
//	                          returns that count and the error with id err (0 = nil); once the
//	                          script is used up the sink accepts everything
//	se                        error id returned by the sink's Sync during this operation (0 = nil)
//	obs = ((r ..) (sink-event ..)),  r = (n err) for a Write, (err-id ..) for Sync/Stop, () for a tick
//	err ids: 0 nil, -1 io.ErrShortWrite, -2 anything else, > 0 the scripted sink error
//
// The io.Writer contract is judged on every Write of every history (spec_bwsf in Model.v).

type c13out struct{ drop, err int }

type c13fop struct {
	kind int // 0 write 1 sync 2 stop 3 tick
	p    []byte
	sc   []c13out
	se   int
}

func (o c13fop) sx() SX {
	outs := make([]SX, len(o.sc))
	for i, x := range o.sc {
		outs[i] = L(I(x.drop), I(x.err))
	}
	if o.kind == 0 {
		return L(I(0), B(o.p), L(outs...))
	}
	return L(I(o.kind), L(outs...), I(o.se))
}

type c13fsink struct {
	mu     sync.Mutex
	ev     []SX
	sc     []c13out
	se     int
	synced chan struct{}
}

func (s *c13fsink) Write(p []byte) (int, error) {
	s.mu.Lock()
	defer s.mu.Unlock()
	s.ev = append(s.ev, B(p))
	if len(s.sc) == 0 {
		return len(p), nil
	}
	o := s.sc[0]
	s.sc = s.sc[1:]
	n := len(p) - o.drop
	if n < 0 {
		n = 0
	}
	if n > len(p) {
		n = len(p)
	}
	if o.err != 0 {
		return n, &c13err{o.err}
	}
	return n, nil
}

func (s *c13fsink) Sync() error {
	s.mu.Lock()
	s.ev = append(s.ev, I(0))
	se := s.se
	s.mu.Unlock()
	select {
	case s.synced <- struct{}{}:
	default:
	}
	if se != 0 {
		return &c13err{se}
	}
	return nil
}

func (s *c13fsink) install(sc []c13out, se int) {
	s.mu.Lock()
	s.sc = append([]c13out(nil), sc...)
	s.se = se
	s.mu.Unlock()
}

type c13tickClock struct{ ch chan time.Time }

func (c *c13tickClock) Now() time.Time { return time.Unix(0, 0) }
func (c *c13tickClock) NewTicker(time.Duration) *time.Ticker {
	return &time.Ticker{C: c.ch}
}

func c13ferrID(err error) int {
	if err == nil {
		return 0
	}
	var a *c13err
	if errors.As(err, &a) {
		return a.id
	}
	if errors.Is(err, io.ErrShortWrite) {
		return -1
	}
	return -2
}

// flattened ids of a Sync/Stop error (multierr)
func c13ferrIDs(err error) []int {
	if err == nil {
		return []int{}
	}
	if g, ok := err.(interface{ Errors() []error }); ok {
		out := []int{}
		for _, e := range g.Errors() {
			out = append(out, c13ferrIDs(e)...)
		}
		return out
	}
	return []int{c13ferrID(err)}
}

func c13bwsf(c *Ctx, size int, ops []c13fop, class string) {
	sink := &c13fsink{synced: make(chan struct{}, 4)}
	clk := &c13tickClock{ch: make(chan time.Time)}
	b := &zapcore.BufferedWriteSyncer{WS: sink, Size: size, Clock: clk}
	xs := make([]SX, len(ops))
	rs := make([]SX, len(ops))
	writes := 0
	initialised, stopped := false, false
	replay := func() SX { return L(I(2), I(4), I(size), L(xs...)) }
	for i, o := range ops {
		xs[i] = o.sx()
	}
	for i, o := range ops {
		sink.install(o.sc, o.se)
		switch o.kind {
		case 0:
			n, err := b.Write(o.p)
			rs[i] = L(I(n), I(c13ferrID(err)))
			writes++
			initialised = true
		case 1:
			rs[i] = LI(c13ferrIDs(b.Sync()))
		case 2:
			rs[i] = LI(c13ferrIDs(b.Stop()))
			if initialised {
				stopped = true
			}
		default:
			rs[i] = L()
			for len(sink.synced) > 0 {
				<-sink.synced
			}
			if initialised && !stopped {
				// the flush loop is selecting on the ticker channel: hand it one tick and wait
				// until its Sync has reached the sink (the next operation then queues behind
				// the syncer's mutex)
				select {
				case clk.ch <- time.Unix(0, 0):
					select {
					case <-sink.synced:
					case <-time.After(5 * time.Second):
						c.Viol("BufferedWriteSyncer: a tick of the flush ticker did not reach the sink's Sync", replay())
					}
				case <-time.After(5 * time.Second):
					c.Viol("BufferedWriteSyncer: the flush loop does not take ticks between the first Write and Stop", replay())
				}
			} else {
				// no flush loop may be listening
				select {
				case clk.ch <- time.Unix(0, 0):
					select {
					case <-sink.synced:
					case <-time.After(200 * time.Millisecond):
					}
				default:
				}
			}
		}
	}
	sink.mu.Lock()
	ev := append([]SX(nil), sink.ev...)
	sink.mu.Unlock()
	sink.install(nil, 0)
	b.Stop() // not observed: ends the flush goroutine
	nt := "0"
	if writes >= 2 {
		nt = "1"
	}
	c.Emit(L(I(2), I(4), I(size), L(xs...)), L(L(rs...), L(ev...)),
		map[string]string{"nt": nt, "class": class, "ops": fmt.Sprint(len(ops))})
}

// the sink outcomes of the property's quantifier: full / short / zero count, with or without error
const c13big = 1 << 20

func c13outKinds(errID int) []c13out {
	return []c13out{
		{0, 0},          // full, nil
		{1, 0},          // short, nil   (ztest.ShortWriter)
		{c13big, 0},     // zero, nil
		{1, errID},      // short, error
		{c13big, errID}, // zero, error
		{0, errID},      // full, error
		{2, 0},          // shorter, nil
	}
}

func c13pay(n int, seed int) []byte {
	p := make([]byte, n)
	for i := range p {
		p[i] = "abcdefgh\n"[(i+seed)%9]
	}
	return p
}

func c13bwsFaultCases(c *Ctx, r *RNG) {
	kinds := c13outKinds(7)

	// ---- (a) every history of 1..3 operations over {small write, write larger than the buffer,
	// Sync, Stop, tick} (buffer size 4), all-healthy and with ONE faulty sink answer (every kind)
	// at every operation; histories of 4 operations with the fault at the last one
	mkop := func(sym, pos int) c13fop {
		switch sym {
		case 0:
			return c13fop{kind: 0, p: c13pay(3, pos)}
		case 1:
			return c13fop{kind: 0, p: c13pay(7, pos)}
		default:
			return c13fop{kind: sym - 1}
		}
	}
	var seqs func(n int, acc []int, f func([]int))
	seqs = func(n int, acc []int, f func([]int)) {
		if len(acc) == n {
			f(acc)
			return
		}
		for s := 0; s < 5; s++ {
			seqs(n, append(acc, s), f)
		}
	}
	for n := 1; n <= 4; n++ {
		seqs(n, nil, func(sy []int) {
			base := make([]c13fop, n)
			for i, s := range sy {
				base[i] = mkop(s, i)
			}
			if n <= 3 {
				c13bwsf(c, 4, base, fmt.Sprintf("bwsf-exh%d", n))
			}
			for j := 0; j < n; j++ {
				if n == 4 && (j != 3 || sy[3] > 1) {
					continue // length 4: the fault sits on a final Write
				}
				for k := 1; k < len(kinds); k++ {
					ops := append([]c13fop(nil), base...)
					ops[j].sc = []c13out{kinds[k]}
					if ops[j].kind != 0 && k%2 == 0 {
						ops[j].se = 31
					}
					c13bwsf(c, 4, ops, fmt.Sprintf("bwsf-exh%d", n))
				}
			}
		})
	}

	// ---- (b) a Write AFTER Stop (and, as the control, the same Write while running), for several
	// buffer sizes, first writes, ways of stopping, late payload lengths and sink answers
	// (one or two scripted answers: a (short, nil) answer to a write that bypasses the buffer is
	// asked again with the rest)
	type mid struct {
		name string
		ops  []c13fop
	}
	mids := []mid{
		{"stop", []c13fop{{kind: 2}}},
		{"sync-stop", []c13fop{{kind: 1}, {kind: 2}}},
		{"stop-stop", []c13fop{{kind: 2}, {kind: 2}}},
		{"stop-sync", []c13fop{{kind: 2}, {kind: 1}}},
		{"tick-stop", []c13fop{{kind: 3}, {kind: 2}}},
		{"stop-tick", []c13fop{{kind: 2}, {kind: 3}}},
		{"running", nil},
		{"sync", []c13fop{{kind: 1}}},
		{"tick", []c13fop{{kind: 3}}},
	}
	var scripts [][]c13out
	for _, k := range kinds {
		scripts = append(scripts, []c13out{k})
	}
	for i, k1 := range kinds[1:] {
		for j, k2 := range kinds {
			if (i+j)%2 == 0 || k1.err != 0 {
				continue // an error ends the call: the second answer would go unused
			}
			scripts = append(scripts, []c13out{k1, k2})
		}
	}
	scripts = append(scripts, []c13out{{1, 0}, {1, 0}, {c13big, 0}, {1, 9}})
	for _, size := range []int{1, 2, 8, 64, 0} {
		es := size
		if es == 0 {
			es = 256 * 1024
		}
		firsts := []int{1, es}
		lates := []int{0, 1, es - 1, es, es + 1, 3*es + 1}
		if size == 0 {
			firsts = []int{6}
			lates = []int{0, 1, 22, 1000}
		}
		for fi, fl := range firsts {
			for _, m := range mids {
				for li, ll := range lates {
					if ll < 0 {
						continue
					}
					for si, sc := range scripts {
						if size == 64 && (si+li+fi)%3 != 0 {
							continue
						}
						ops := []c13fop{{kind: 0, p: c13pay(fl, 0)}}
						ops = append(ops, m.ops...)
						ops = append(ops, c13fop{kind: 0, p: c13pay(ll, 3), sc: sc})
						if si%4 == 0 { // and one more write behind it
							ops = append(ops, c13fop{kind: 0, p: c13pay(2, 5)})
						}
						c13bwsf(c, size, ops, "bwsf-late-"+m.name)
					}
				}
			}
		}
	}
	// default buffer size, writes larger than the buffer, after Stop, every sink answer
	huge := bytes.Repeat([]byte("z"), 300*1024)
	for _, k := range kinds {
		c13bwsf(c, 0, []c13fop{{kind: 0, p: []byte("head\n")}, {kind: 2}, {kind: 0, p: huge, sc: []c13out{k}},
			{kind: 0, p: []byte("tail\n")}}, "bwsf-large")
	}

	// ---- (c) seeded random histories
	N := 1500
	if c.Thorough {
		N = 150000
	}
	for k := 0; k < N; k++ {
		size := r.Range(1, 24)
		if r.Chance(8) {
			size = 0
		}
		nops := r.Range(1, 12)
		ops := make([]c13fop, nops)
		faulty := r.Range(5, 60) // percent of operations whose sink misbehaves
		for i := range ops {
			x := r.Intn(100)
			var o c13fop
			switch {
			case x < 60:
				ln := r.Intn(12)
				if r.Chance(25) && size > 0 {
					ln = r.Range(size, 3*size+2)
				}
				o = c13fop{kind: 0, p: r.Bytes(ln, []byte("abc\n"))}
			case x < 74:
				o = c13fop{kind: 1}
			case x < 88:
				o = c13fop{kind: 2}
			default:
				o = c13fop{kind: 3}
			}
			if r.Chance(faulty) {
				ns := r.Range(1, 3)
				for j := 0; j < ns; j++ {
					kd := kinds[r.Intn(len(kinds))]
					if kd.drop > 0 && kd.drop < c13big && r.Chance(50) {
						kd.drop = r.Range(1, 6)
					}
					if kd.err != 0 {
						kd.err = 1 + r.Intn(20)
					}
					o.sc = append(o.sc, kd)
				}
			}
			if o.kind != 0 && r.Chance(15) {
				o.se = 30 + r.Intn(5)
			}
			ops[i] = o
		}
		c13bwsf(c, size, ops, "bwsf-rand")
	}
}

package main

// C10: (a) fault enumeration over field trees: every site of a generated case where a
// marshaler error, a Stringer/Error() panic or nil receiver, or a value encoding/json
// rejects can be injected is faulted in turn, and the emitted line is observed;
// (b) sink/core failures: loggers over trees of cores whose sinks fail per entry
// (write error, short write with and without error, sync error), observing every
// sink call, the error output and whether the logging call returned;
// (c) (c10_seq.go) the same trees with JSON and console leaves fed sequences of full
// entries (field trees, With chains), observing the bytes every sink call is handed.

import (
	"bytes"
	"errors"
	"fmt"
	"strings"

	"go.uber.org/zap"
	"go.uber.org/zap/zapcore"
)

// ---------- (b) sinks ----------
type sinkOutcome struct {
	kind int // 0 ok, 1 write error (0 bytes), 2 short write with error, 3 short write without error, 4 sync error
}

type recSink struct {
	id     int
	outs   []sinkOutcome
	entry  *int
	events *[]SX
	bytes  bool // record (a copy of) the bytes handed to Write
	// a sink that itself logs (through an unrelated zap core) while it handles Write: the bytes it
	// was handed must stay untouched for the whole call
	nest zapcore.Core
}

func (s *recSink) out() sinkOutcome {
	if *s.entry < len(s.outs) {
		return s.outs[*s.entry]
	}
	return sinkOutcome{}
}
func (s *recSink) Write(p []byte) (int, error) {
	if s.nest != nil {
		_ = s.nest.Write(zapcore.Entry{Message: "sink is busy"}, []zapcore.Field{zap.Int("n", len(p)), zap.Reflect("r", map[string]int{"a": 1})})
	}
	if s.bytes {
		*s.events = append(*s.events, L(I(0), I(s.id), B(append([]byte(nil), p...))))
	} else {
		*s.events = append(*s.events, L(I(0), I(s.id)))
	}
	switch s.out().kind {
	case 1:
		return 0, fmt.Errorf("W%d.%d", s.id, *s.entry)
	case 2:
		return len(p) / 2, fmt.Errorf("W%d.%d", s.id, *s.entry)
	case 3:
		return len(p) / 2, nil
	}
	return len(p), nil
}
func (s *recSink) Sync() error {
	*s.events = append(*s.events, L(I(1), I(s.id)))
	if s.out().kind == 4 {
		return fmt.Errorf("S%d.%d", s.id, *s.entry)
	}
	return nil
}

// a user-written wrapper core that registers itself and forwards Write to the wrapped core
type fwdCore struct{ zapcore.Core }

func (c fwdCore) With(fs []zapcore.Field) zapcore.Core { return fwdCore{c.Core.With(fs)} }
func (c fwdCore) Check(e zapcore.Entry, ce *zapcore.CheckedEntry) *zapcore.CheckedEntry {
	if c.Enabled(e.Level) {
		return ce.AddCore(e, c)
	}
	return ce
}

type coreSpec struct {
	kind int // 0 leaf 1 tee 2 wrap
	id   int
	outs []sinkOutcome
	subs []*coreSpec
	// sequence cases (c10_seq.go): the leaf's encoder kind is part of the case; nest = the sink logs
	// through an unrelated core during Write (environment only: the model ignores it)
	seq, con, nest bool
}

func (cs *coreSpec) build(entry *int, events *[]SX) zapcore.Core {
	switch cs.kind {
	case 0:
		enc := zapcore.NewJSONEncoder(zapcore.EncoderConfig{MessageKey: "m", LevelKey: "l", EncodeLevel: zapcore.LowercaseLevelEncoder})
		return zapcore.NewCore(enc, &recSink{id: cs.id, outs: cs.outs, entry: entry, events: events}, zapcore.DebugLevel)
	case 1:
		var cores []zapcore.Core
		for _, s := range cs.subs {
			cores = append(cores, s.build(entry, events))
		}
		return zapcore.NewTee(cores...)
	default:
		return fwdCore{cs.subs[0].build(entry, events)}
	}
}
func (cs *coreSpec) sx() SX {
	switch cs.kind {
	case 0:
		var outs []SX
		for k, o := range cs.outs {
			w, s := L(), L()
			if o.kind == 1 || o.kind == 2 {
				w = L(Str(fmt.Sprintf("W%d.%d", cs.id, k)))
			}
			if o.kind == 4 {
				s = L(Str(fmt.Sprintf("S%d.%d", cs.id, k)))
			}
			outs = append(outs, L(w, s))
		}
		if cs.seq {
			return L(I(0), I(cs.id), L(outs...), Bool(cs.con), Bool(cs.nest))
		}
		return L(I(0), I(cs.id), L(outs...))
	case 1:
		var subs []SX
		for _, s := range cs.subs {
			subs = append(subs, s.sx())
		}
		return L(I(1), L(subs...))
	default:
		return L(I(2), cs.subs[0].sx())
	}
}

type errOut struct{ bytes.Buffer }

func (*errOut) Sync() error { return nil }

func c10sink(c *Ctx, cs *coreSpec, hi bool, n int, class string) {
	entry := 0
	var events []SX
	eo := &errOut{}
	core := cs.build(&entry, &events)
	logger := zap.New(core, zap.ErrorOutput(eo))
	lvl := zapcore.InfoLevel
	if hi {
		lvl = zapcore.DPanicLevel // above Error, no terminal action in production mode
	}
	var per []SX
	returned := true
	hasSync, hasFault := false, false
	for k := 0; k < n; k++ {
		entry = k
		events = nil
		eo.Reset()
		func() {
			defer func() {
				if e := recover(); e != nil {
					returned = false
					c.Viol(fmt.Sprintf("a sink failure made the logging call panic: %v", e), cs.sx())
				}
			}()
			logger.Log(lvl, "m")
		}()
		// error output: lines "<time> write error: e1; e2\n"
		lines := strings.Split(strings.TrimSuffix(eo.String(), "\n"), "\n")
		if eo.Len() == 0 {
			lines = nil
		}
		var msgs []SX
		for _, ln := range lines {
			i := strings.Index(ln, " write error: ")
			if i < 0 {
				msgs = append(msgs, Str("?"+ln))
				continue
			}
			for _, m := range strings.Split(ln[i+len(" write error: "):], "; ") {
				msgs = append(msgs, Str(m))
			}
		}
		per = append(per, L(L(events...), L(msgs...), I(len(lines))))
	}
	var walk func(*coreSpec)
	walk = func(x *coreSpec) {
		for _, o := range x.outs {
			if o.kind != 0 {
				hasFault = true
			}
			if o.kind == 4 && hi {
				hasSync = true
			}
		}
		for _, s := range x.subs {
			walk(s)
		}
	}
	walk(cs)
	meta := map[string]string{"class": class, "nt": "0"}
	if hasFault {
		meta["nt"] = "1"
	}
	if hasSync {
		// known finding: ioCore.Write ignores the sink's Sync error for entries above ErrorLevel
		meta["kf"] = "iocore-sync-error-ignored"
	}
	ret := 0
	if returned {
		ret = 1
	}
	c.Emit(L(I(1), Bool(hi), cs.sx(), I(n)), L(L(per...), I(ret)), meta)
}

func c10(c *Ctx) {
	r := NewRNG(c.Seed ^ 0xC10)
	// (a) fault enumeration
	bases := 260
	if c.Thorough {
		bases = 6000
	}
	sitesTotal := 0
	for b := 0; b < bases; b++ {
		seed := r.Next()
		big := c.Thorough && b%4 == 3
		enumFaults = &faultEnum{at: -1, at2: -1}
		base := genEncCase(&RNG{s: seed}, big)
		nsites := enumFaults.site
		sitesTotal += nsites
		emit := func(ec *encCase, class string) {
			out, pmsg, panicked := ec.runJSON(false)
			ec.meta["class"] = class
			if panicked {
				c.Viol("a field failure made the JSON encoder panic: "+pmsg, ec.sx)
				c.Emit(L(I(0), ec.sx), L(), ec.meta)
				return
			}
			c.Emit(L(I(0), ec.sx), L(B(out)), ec.meta)
		}
		emit(base, "base")
		for at := 0; at < nsites; at++ {
			enumFaults = &faultEnum{at: at, at2: -1}
			v := genEncCase(&RNG{s: seed}, big)
			v.meta["nt"] = "1"
			emit(v, "fault")
		}
		if c.Thorough && nsites >= 2 { // pairs of faults (bounded: the first 8 sites)
			for a1 := 0; a1 < nsites && a1 < 8; a1++ {
				for a2 := a1 + 1; a2 < nsites && a2 < 8; a2++ {
					enumFaults = &faultEnum{at: a1, at2: a2}
					v := genEncCase(&RNG{s: seed}, big)
					v.meta["nt"] = "1"
					emit(v, "fault2")
				}
			}
		}
	}
	enumFaults = nil
	c.Info("fault_sites_enumerated", fmt.Sprint(sitesTotal))

	// (b) sinks: exhaustive outcome vectors for tees of up to K leaves, then random trees and sequences
	K := 3
	if c.Thorough {
		K = 4
	}
	for nleaf := 1; nleaf <= K; nleaf++ {
		total := 1
		for i := 0; i < nleaf; i++ {
			total *= 5
		}
		for v := 0; v < total; v++ {
			for _, hi := range []bool{false, true} {
				cs := &coreSpec{kind: 1}
				x := v
				for i := 0; i < nleaf; i++ {
					cs.subs = append(cs.subs, &coreSpec{kind: 0, id: i, outs: []sinkOutcome{{kind: x % 5}}})
					x /= 5
				}
				c10sink(c, cs, hi, 1, "exh")
			}
		}
	}
	nrand := 600
	if c.Thorough {
		nrand = 40000
	}
	for i := 0; i < nrand; i++ {
		nent := r.Range(1, 3)
		id := 0
		var gen func(depth int) *coreSpec
		gen = func(depth int) *coreSpec {
			k := r.Intn(10)
			if depth <= 0 || k < 5 {
				cs := &coreSpec{kind: 0, id: id}
				id++
				for e := 0; e < nent; e++ {
					o := 0
					if r.Chance(45) {
						o = r.Range(1, 4)
					}
					cs.outs = append(cs.outs, sinkOutcome{kind: o})
				}
				return cs
			}
			if k < 8 {
				cs := &coreSpec{kind: 1}
				for j := r.Intn(4); j >= 0; j-- {
					cs.subs = append(cs.subs, gen(depth-1))
				}
				if r.Chance(5) {
					cs.subs = nil
				}
				return cs
			}
			return &coreSpec{kind: 2, subs: []*coreSpec{gen(depth - 1)}}
		}
		c10sink(c, gen(3), r.Bool(), nent, "rand")
	}
	_ = errors.New
	// (c) sequences of full entries through trees of JSON and console cores: what every sink receives
	c10sequences(c, r)
	reportFloatMonitor(c)
}

func init() { registry["C10"] = c10 }

package main

// C10: (a) fault enumeration over field trees: every site of a generated case where a
// marshaler error, a Stringer/Error() panic or nil receiver, or a value encoding/json
// rejects can be injected is faulted in turn, and the emitted line is observed;
// (b) sink/core failures: loggers over trees of cores whose sinks fail per entry
// (write error, short write with and without error, sync error), observing every
// sink call, the error output and whether the logging call returned;
// (c) (c10_seq.go) the same trees with JSON and console leaves fed sequences of full
// entries (field trees, With chains), observing the bytes every sink call is handed;
// (b'), (c') (c10_ws.go) the sinks of (b) and (c) behind zap's WriteSyncer combinators
// (Lock, AddSync, NewMultiWriteSyncer, CombineWriteSyncers, Open, BufferedWriteSyncer),
// the sequences continued after every failure, every logging call under a watchdog.

import (
	"bytes"
	"errors"
	"fmt"
	"strings"
	"sync"

	"go.uber.org/zap"
	"go.uber.org/zap/zapcore"
)

// ---------- (b) sinks ----------
type sinkOutcome struct {
	kind int // 0 ok, 1 write error (0 bytes), 2 short write with error, 3 short write without error, 4 sync error
}

type recSink struct {
	id     int
	outs   []sinkOutcome
	entry  *int
	events *[]SX
	bytes  bool // record (a copy of) the bytes handed to Write
	// a sink that itself logs (through an unrelated zap core) while it handles Write: the bytes it
	// was handed must stay untouched for the whole call
	nest zapcore.Core
	// combinator cases: the logging call runs under a watchdog in its own goroutine; the event list is
	// guarded, and a Sync that returned an error is noted (the known finding: its error is dropped)
	mu       *sync.Mutex
	syncFail *bool
}

func (s *recSink) rec(e SX) {
	if s.mu != nil {
		s.mu.Lock()
		defer s.mu.Unlock()
	}
	*s.events = append(*s.events, e)
}
func (s *recSink) out() sinkOutcome {
	if *s.entry < len(s.outs) {
		return s.outs[*s.entry]
	}
	return sinkOutcome{}
}
func (s *recSink) Write(p []byte) (int, error) {
	if s.nest != nil {
		_ = s.nest.Write(zapcore.Entry{Message: "sink is busy"}, []zapcore.Field{zap.Int("n", len(p)), zap.Reflect("r", map[string]int{"a": 1})})
	}
	if s.bytes {
		s.rec(L(I(0), I(s.id), B(append([]byte(nil), p...))))
	} else {
		s.rec(L(I(0), I(s.id)))
	}
	switch s.out().kind {
	case 1:
		return 0, fmt.Errorf("W%d.%d", s.id, *s.entry)
	case 2:
		return len(p) / 2, fmt.Errorf("W%d.%d", s.id, *s.entry)
	case 3:
		return len(p) / 2, nil
	}
	return len(p), nil
}
func (s *recSink) Sync() error {
	s.rec(L(I(1), I(s.id)))
	if s.out().kind == 4 {
		if s.syncFail != nil {
			*s.syncFail = true
		}
		return fmt.Errorf("S%d.%d", s.id, *s.entry)
	}
	return nil
}

// a user-written wrapper core that registers itself and forwards Write to the wrapped core
type fwdCore struct{ zapcore.Core }

func (c fwdCore) With(fs []zapcore.Field) zapcore.Core { return fwdCore{c.Core.With(fs)} }
func (c fwdCore) Check(e zapcore.Entry, ce *zapcore.CheckedEntry) *zapcore.CheckedEntry {
	if c.Enabled(e.Level) {
		return ce.AddCore(e, c)
	}
	return ce
}

type coreSpec struct {
	kind int // 0 leaf 1 tee 2 wrap
	id   int
	outs []sinkOutcome
	subs []*coreSpec
	// sequence cases (c10_seq.go): the leaf's encoder kind is part of the case; nest = the sink logs
	// through an unrelated core during Write (environment only: the model ignores it)
	seq, con, nest bool
	// the leaf's sink stands behind zap's WriteSyncer combinators (c10_ws.go); nil: the bare sink id/outs
	ws *c10wsSpec
}

func (cs *coreSpec) build(env *c10env) zapcore.Core {
	switch cs.kind {
	case 0:
		enc := zapcore.NewJSONEncoder(zapcore.EncoderConfig{MessageKey: "m", LevelKey: "l", EncodeLevel: zapcore.LowercaseLevelEncoder})
		return zapcore.NewCore(enc, cs.leafWS().build(env, nil), zapcore.DebugLevel)
	case 1:
		var cores []zapcore.Core
		for _, s := range cs.subs {
			cores = append(cores, s.build(env))
		}
		return zapcore.NewTee(cores...)
	default:
		return fwdCore{cs.subs[0].build(env)}
	}
}

// the WriteSyncer of a leaf: the combinator stack, or the bare sink
func (cs *coreSpec) leafWS() *c10wsSpec {
	if cs.ws != nil {
		return cs.ws
	}
	return &c10wsSpec{kind: 0, id: cs.id, outs: cs.outs}
}
func (cs *coreSpec) sx() SX {
	switch cs.kind {
	case 0:
		if cs.ws != nil {
			return L(I(3), Bool(cs.con), Bool(cs.nest), cs.ws.sx())
		}
		outs := outsSX(cs.id, cs.outs)
		if cs.seq {
			return L(I(0), I(cs.id), outs, Bool(cs.con), Bool(cs.nest))
		}
		return L(I(0), I(cs.id), outs)
	case 1:
		var subs []SX
		for _, s := range cs.subs {
			subs = append(subs, s.sx())
		}
		return L(I(1), L(subs...))
	default:
		return L(I(2), cs.subs[0].sx())
	}
}

func outsSX(id int, outcomes []sinkOutcome) SX {
	var outs []SX
	for k, o := range outcomes {
		w, s := L(), L()
		if o.kind == 1 || o.kind == 2 {
			w = L(Str(fmt.Sprintf("W%d.%d", id, k)))
		}
		if o.kind == 4 {
			s = L(Str(fmt.Sprintf("S%d.%d", id, k)))
		}
		outs = append(outs, L(w, s))
	}
	return L(outs...)
}

type errOut struct{ bytes.Buffer }

func (*errOut) Sync() error { return nil }

// the error output of one entry: lines "<time> write error: e1; e2\n"
func errOutSX(eo *errOut) (SX, int) {
	lines := strings.Split(strings.TrimSuffix(eo.String(), "\n"), "\n")
	if eo.Len() == 0 {
		lines = nil
	}
	var msgs []SX
	for _, ln := range lines {
		i := strings.Index(ln, " write error: ")
		if i < 0 {
			msgs = append(msgs, Str("?"+ln))
			continue
		}
		for _, m := range strings.Split(ln[i+len(" write error: "):], "; ") {
			msgs = append(msgs, Str(m))
		}
	}
	return L(msgs...), len(lines)
}

func c10sink(c *Ctx, cs *coreSpec, hi bool, n int, class string) {
	env := newC10env(false)
	eo := &errOut{}
	core := cs.build(env)
	logger := zap.New(core, zap.ErrorOutput(eo))
	lvl := zapcore.InfoLevel
	if hi {
		lvl = zapcore.DPanicLevel // above Error, no terminal action in production mode
	}
	var per []SX
	ret := 1
	for k := 0; k < n; k++ {
		env.begin(k)
		eo.Reset()
		// every logging call runs under a watchdog: a call that does not return is an observation
		// (2 = blocked), not a hung harness
		st, pmsg := c10guard(func() { logger.Log(lvl, "m") })
		if st == 2 {
			ret = 2
			c10blocked(c, fmt.Sprintf("logging call %d of a sequence did not return (blocked) after an earlier sink failure", k), L(I(1), Bool(hi), cs.sx(), I(n)))
			per = append(per, L(L(env.snapshot()...), L(), I(0)))
			env.abandon()
			break
		}
		if st == 0 {
			ret = 0
			c.Viol("a sink failure made the logging call panic: "+pmsg, cs.sx())
		}
		msgs, nl := errOutSX(eo)
		per = append(per, L(L(env.snapshot()...), msgs, I(nl)))
	}
	syncFailed := env.syncFail // (before Stop/Close sync the sinks once more)
	if !env.cleanup() && ret == 1 {
		ret = 2
		c10blocked(c, "stopping/closing the WriteSyncers after a sequence with sink failures did not return (blocked): a combinator was left locked", L(I(1), Bool(hi), cs.sx(), I(n)))
	}
	meta := map[string]string{"class": class, "nt": "0"}
	if cs.hasFault(n) {
		meta["nt"] = "1"
	}
	if syncFailed {
		// known finding: ioCore.Write ignores the sink's Sync error for entries above ErrorLevel
		// (tagged only when a Sync that returned an error was actually made)
		meta["kf"] = "iocore-sync-error-ignored"
	}
	c.Emit(L(I(1), Bool(hi), cs.sx(), I(n)), L(L(per...), I(ret)), meta)
}

func c10(c *Ctx) {
	r := NewRNG(c.Seed ^ 0xC10)
	// (a) fault enumeration
	bases := 260
	if c.Thorough {
		bases = 6000
	}
	sitesTotal := 0
	for b := 0; b < bases; b++ {
		seed := r.Next()
		big := c.Thorough && b%4 == 3
		enumFaults = &faultEnum{at: -1, at2: -1}
		base := genEncCase(&RNG{s: seed}, big)
		nsites := enumFaults.site
		sitesTotal += nsites
		emit := func(ec *encCase, class string) {
			out, pmsg, panicked := ec.runJSON(false)
			ec.meta["class"] = class
			if panicked {
				c.Viol("a field failure made the JSON encoder panic: "+pmsg, ec.sx)
				c.Emit(L(I(0), ec.sx), L(), ec.meta)
				return
			}
			c.Emit(L(I(0), ec.sx), L(B(out)), ec.meta)
		}
		emit(base, "base")
		for at := 0; at < nsites; at++ {
			enumFaults = &faultEnum{at: at, at2: -1}
			v := genEncCase(&RNG{s: seed}, big)
			v.meta["nt"] = "1"
			emit(v, "fault")
		}
		if c.Thorough && nsites >= 2 { // pairs of faults (bounded: the first 8 sites)
			for a1 := 0; a1 < nsites && a1 < 8; a1++ {
				for a2 := a1 + 1; a2 < nsites && a2 < 8; a2++ {
					enumFaults = &faultEnum{at: a1, at2: a2}
					v := genEncCase(&RNG{s: seed}, big)
					v.meta["nt"] = "1"
					emit(v, "fault2")
				}
			}
		}
	}
	enumFaults = nil
	c.Info("fault_sites_enumerated", fmt.Sprint(sitesTotal))

	// (b) sinks: exhaustive outcome vectors for tees of up to K leaves, then random trees and sequences
	K := 3
	if c.Thorough {
		K = 4
	}
	for nleaf := 1; nleaf <= K; nleaf++ {
		total := 1
		for i := 0; i < nleaf; i++ {
			total *= 5
		}
		for v := 0; v < total; v++ {
			for _, hi := range []bool{false, true} {
				cs := &coreSpec{kind: 1}
				x := v
				for i := 0; i < nleaf; i++ {
					cs.subs = append(cs.subs, &coreSpec{kind: 0, id: i, outs: []sinkOutcome{{kind: x % 5}}})
					x /= 5
				}
				c10sink(c, cs, hi, 1, "exh")
			}
		}
	}
	// (b') the same cores over zap's WriteSyncer combinators: every combinator shape over a failing sink,
	// at every position of a tee of 1-3 cores (the healthy cores behind combinators as well), every failing
	// outcome, transient / intermittent / permanent failures, below and above Error, and the sequence goes
	// on for several entries after the failure: each later call must return and deliver its entry
	shapes := c10wsShapes()
	for nleaf := 1; nleaf <= 3; nleaf++ {
		for bad := 0; bad < nleaf; bad++ {
			for si := range shapes {
				for pi := range c10failPatterns {
					for _, fail := range []int{1, 2, 3, 4} {
						for _, hi := range []bool{false, true} {
							if fail == 4 && !hi {
								continue // no Sync below Error
							}
							cs := c10wsTee(nleaf, bad, si, pi, fail, 5, false)
							if cs == nil {
								continue
							}
							c10sink(c, cs, hi, 5, "wsdir")
						}
					}
				}
			}
		}
	}
	nrand := 600
	if c.Thorough {
		nrand = 40000
	}
	for i := 0; i < nrand; i++ {
		nent := r.Range(1, 3)
		wrapped := i%2 == 1 // half of the trees: leaves over random stacks of combinators, longer sequences
		if wrapped {
			nent = r.Range(2, 6)
		}
		id := 0
		outs := func(underBuf bool) []sinkOutcome {
			var os []sinkOutcome
			sticky := wrapped && r.Chance(15)
			for e := 0; e < nent; e++ {
				o := 0
				if r.Chance(45) || (sticky && e > 0) {
					o = r.Range(1, 4)
					if underBuf && o == 3 {
						o = 1
					}
				}
				os = append(os, sinkOutcome{kind: o})
			}
			return os
		}
		wg := &c10wsGen{r: r, id: &id, outs: outs}
		var gen func(depth int) *coreSpec
		gen = func(depth int) *coreSpec {
			k := r.Intn(10)
			if depth <= 0 || k < 5 {
				if wrapped && r.Chance(70) {
					return &coreSpec{kind: 0, ws: wg.gen(3, false)}
				}
				cs := &coreSpec{kind: 0, id: id, outs: outs(false)}
				id++
				return cs
			}
			if k < 8 {
				cs := &coreSpec{kind: 1}
				for j := r.Intn(4); j >= 0; j-- {
					cs.subs = append(cs.subs, gen(depth-1))
				}
				if r.Chance(5) {
					cs.subs = nil
				}
				return cs
			}
			return &coreSpec{kind: 2, subs: []*coreSpec{gen(depth - 1)}}
		}
		class := "rand"
		if wrapped {
			class = "wsrand"
		}
		c10sink(c, gen(3), r.Bool(), nent, class)
	}
	_ = errors.New
	// (c) sequences of full entries through trees of JSON and console cores: what every sink receives
	c10sequences(c, r)
	reportFloatMonitor(c)
}

func init() { registry["C10"] = c10 }

package main

// C05: sibling loggers.  A hook registered on a logger (zap.Hooks through WithOptions, or
// zapcore.RegisterHooks on its core through WrapCore) belongs to that logger and to what is derived
// from it LATER - never to its parent, nor to the other children of its parent.  The histories
// below build a hooked parent by 0..9 successive single-hook registrations (in the core tree, by
// zap.Hooks derivations, or by both kinds of registration with With / Named in between), derive
// several siblings from that one parent (and from With / Named children of it, and from one of the
// siblings again), each with its own numbered hook, and only then log through every one of them in
// every order: the observation lists the hook numbers that ran for each entry
// (model: Model.v derive kinds 6, 7; theorem C05_sibling_hooks).

const (
	c05layerHook = 50  // hooks of the parent's layers: 50, 51, ...
	c05sibHook   = 100 // hooks of the siblings: 100, 101, ...
)

func c05hookOp(kind, h int) c05op { return c05op{kind: 5, n: kind, a: h} }
func c05selOp(j int) c05op        { return c05op{kind: 8, n: j} }

// every order of 0..n-1 when n <= 3, otherwise the rotations and their reversals
func c05orders(n int) [][]int {
	var out [][]int
	if n <= 3 {
		var rec func(cur []int, used int)
		rec = func(cur []int, used int) {
			if len(cur) == n {
				out = append(out, append([]int{}, cur...))
				return
			}
			for i := 0; i < n; i++ {
				if used&(1<<i) == 0 {
					rec(append(cur, i), used|1<<i)
				}
			}
		}
		rec(nil, 0)
		return out
	}
	for s := 0; s < n; s++ {
		fw, bw := make([]int, n), make([]int, n)
		for i := 0; i < n; i++ {
			fw[i] = (s + i) % n
			bw[i] = (s + n - i) % n
		}
		out = append(out, fw, bw)
	}
	return out
}

func c05directedSiblings(c *Ctx) {
	bases := []struct {
		t     func() *c05node
		cells []int8
		obs   []int
	}{
		{func() *c05node { return leafN(0, thr(0)) }, nil, nil},
		{func() *c05node { return teeN(leafN(0, thr(-1)), hookN(leafN(1, thr(1)), 2)) }, nil, []int{1}},
		{func() *c05node { return filtN(teeN(leafN(0, atom(0)), wrapN(6, leafN(1, thr(0)))), thr(0)) }, []int8{-1}, nil},
	}
	fams := []int{0, 1, 2, 3, 4, 5, 6}
	for depth := 0; depth <= 9; depth++ {
		for how := 0; how < 3; how++ {
			for bi, b := range bases {
				for shape := 0; shape < 4; shape++ {
					tree := b.t()
					var ops []c05op
					nlg := 1 // loggers so far; the current one is always the last derived unless selected
					derive := func(o c05op) int {
						ops = append(ops, o)
						nlg++
						return nlg - 1
					}
					// ---- the parent: depth single-hook registrations ----
					parent := 0
					for i := 0; i < depth; i++ {
						switch how {
						case 0: // in the core tree: RegisterHooks(RegisterHooks(...))
							tree = hookN(tree, c05layerHook+i)
						case 1: // zap.Hooks, one WithOptions per hook
							parent = derive(c05hookOp(6, c05layerHook+i))
						default: // both kinds of registration, With / Named children in between
							parent = derive(c05hookOp(6+i%2, c05layerHook+i))
							if i%3 == 1 {
								parent = derive(c05op{kind: 5, n: (i / 3 % 2) * 2})
							}
						}
					}
					// ---- the siblings ----
					var sibs []int
					h := c05sibHook
					from := func(j, kind int) {
						ops = append(ops, c05selOp(j))
						s := derive(c05hookOp(kind, h))
						h++
						sibs = append(sibs, s)
						// a call through the new logger before the next registration
						ops = append(ops, c05op{kind: 1, fam: fams[(s+shape)%len(fams)], v: 2})
					}
					switch shape {
					case 0:
						from(parent, 6)
						from(parent, 6)
					case 1:
						from(parent, 6)
						from(parent, 7)
						from(parent, 6)
					case 2: // a With child and a Named child of the parent register hooks as well
						ops = append(ops, c05selOp(parent))
						w := derive(c05op{kind: 5, n: 0})
						from(w, 6)
						from(parent, 7)
						from(w, 6)
						ops = append(ops, c05selOp(parent))
						n := derive(c05op{kind: 5, n: 2})
						from(n, 7)
					default: // siblings on two levels: children of the parent and children of the first child
						from(parent, 6)
						first := sibs[0]
						from(parent, 7)
						from(first, 6)
						from(parent, 6)
						from(first, 7)
					}
					probe := append(append([]int{}, sibs...), parent)
					// ---- after all registrations: every logger, in every order ----
					for oi, order := range c05orders(len(probe)) {
						for k, x := range order {
							ops = append(ops, c05selOp(probe[x]), c05op{kind: 1, fam: fams[(oi+k)%len(fams)], v: int8(1 + (oi+k)%3)})
							if (oi+k)%4 == 0 {
								ops = append(ops, c05op{kind: 1, fam: fams[k%len(fams)], v: -2}, c05op{kind: 1, fam: 0, v: 0})
							}
						}
					}
					c05emit(c, &c05case{tree: tree, cells: b.cells, obs: b.obs, ops: ops, mode: (depth + how + bi + shape) % 2}, "directed-sib")
				}
			}
		}
	}
}

// seeded: a random tree, a random number of registrations (with other derivations in between),
// siblings from random earlier loggers - mostly from one parent -, then calls through random ones
func c05randomSiblings(c *Ctx, r *RNG, n int) {
	for k := 0; k < n; k++ {
		g := c05newGen(r.Fork())
		g.dropping = true
		t := g.tree(g.r.Range(0, 3))
		var ops []c05op
		nlg := 1
		cur := 0
		layers := g.r.Range(0, 9)
		for i := 0; i < layers; i++ {
			ops = append(ops, c05hookOp(6+g.r.Intn(2), c05layerHook+i))
			nlg++
			if g.r.Chance(20) {
				ops = append(ops, c05op{kind: 5, n: g.r.Intn(5)})
				nlg++
			}
		}
		cur = nlg - 1
		parents := []int{cur}
		var sibs []int
		nsib := g.r.Range(2, 5)
		for i := 0; i < nsib; i++ {
			p := parents[0]
			if g.r.Chance(35) {
				p = parents[g.r.Intn(len(parents))]
			}
			ops = append(ops, c05selOp(p))
			if g.r.Chance(25) {
				// through a With / WithLazy / Named / ... child of the parent
				ops = append(ops, c05op{kind: 5, n: g.r.Intn(5)})
				nlg++
			}
			ops = append(ops, c05hookOp(6+g.r.Intn(2), c05sibHook+i))
			nlg++
			sibs = append(sibs, nlg-1)
			if g.r.Chance(30) {
				parents = append(parents, nlg-1)
			}
			if g.r.Chance(25) {
				ops = append(ops, g.callOp())
			}
		}
		ncalls := g.r.Range(nsib, 5*nsib)
		for i := 0; i < ncalls; i++ {
			j := sibs[g.r.Intn(len(sibs))]
			switch x := g.r.Intn(100); {
			case x < 15:
				j = parents[g.r.Intn(len(parents))]
			case x < 20:
				j = g.r.Intn(nlg)
			}
			ops = append(ops, c05selOp(j))
			o := g.callOp()
			if g.r.Chance(60) {
				o.v = int8(g.r.Range(0, 5))
				if lv := c05famLevels(o.fam); lv != nil {
					o.v = lv[len(lv)-1-g.r.Intn(2)]
				}
			}
			ops = append(ops, o)
			if g.r.Chance(10) {
				ops = append(ops, c05op{kind: 3}, c05op{kind: 2, v: g.level()})
			}
			if g.ncells > 0 && g.r.Chance(8) {
				ops = append(ops, g.updateOp(g.r.Intn(g.ncells)))
			}
		}
		c05emit(c, &c05case{tree: t, cells: g.cells, obs: g.obs, ops: ops, mode: g.r.Intn(2)}, "sibs")
	}
}

package main

// C08: history differential test of zap's internal pools.
//
// A PROBE is a fixed logging call (JSON / console ioCore.Write of a generated encoder case, or a
// Logger call with caller + stack capture, With context, tee, zap.Stack, error groups, a large
// message).  Each probe is first run in a fresh state (first use in the process, resp. right after
// two runtime.GC() calls, which empty every sync.Pool; additionally once in a fresh child process)
// and its bytes are recorded.  Then histories of other operations are executed and the probe is run
// again: input = (kind, probe, fresh bytes, abstract history, adversary, abstract probe),
// observation = the probe's bytes after the history.  The Coq oracle demands equality with the
// fresh bytes; the extracted model runs the pooled
// Coq model over the abstracted history and answers with the carried fresh line.
//
// All probes run through the single call site in c08call so that captured stacks are identical.
//
// ACTIVE SINKS.  The property quantifies over activity CONCURRENT with the observed call, and the one
// place where foreign code runs in the middle of a zap operation while zap still holds pooled objects
// is the sink's Write (and user marshalers / hooks).  Every probe therefore takes an "act" parameter
// that makes all its sinks (and, for one probe, a marshaler and a hook) do zap work on OTHER loggers
// before / while they consume the payload: log through a second JSON core, a console core with a With
// context, a Logger with caller + stack capture and a tee; hold a buffer obtained through the Encoder
// API during the copy; block on a channel while another goroutine logs; copy in chunks and yield the
// processor (runtime.Gosched) while companion goroutines keep encoding (under GOMAXPROCS(1) sync.Pool
// hands the companion exactly the object the observed call released last).  The sinks never retain
// the slice beyond the call.  act = 0 is the plain sink; the fresh-state bytes are always taken with
// act = 0, so the oracle (equality with the fresh bytes) also says: the bytes a sink reads during its
// Write are the entry's bytes whatever else happens meanwhile - i.e. nothing zap has already returned
// to a pool is still being read.

//
// WATCHED SINKS.  The probes' own sinks only show what the probe's entry made of ITS logger.  Per-entry
// state of a pooled CheckedEntry (ErrorOutput, cores, the terminal hook, the dirty flag) that survives
// the entry shows somewhere else: on the error sink, the output sinks or the hook of whichever
// UNRELATED logger used that pooled object before.  Every sink and hook therefore belongs to a scope
// (one per history operation / probe run) that is retired when its operation is over: bytes reaching
// a sink of a retired scope, a hook of a retired scope that fires, and any byte on the error output
// of the active sinks' long-lived diagnostics logger (none of whose cores ever fails) are recorded in
// c08Stale.  What is recorded while a probe runs is appended to the probe's observed bytes (the
// fresh-state bytes never have it), what is recorded while a history operation runs is reported with
// the history.  Logger.check overwrites ErrorOutput and the hook on the ordinary path, so the
// vocabulary also has entries that never pass through a zap.Logger: core.Check(ent, nil).Write(), with
// After / AddCore, through exp/zapslog's Handler, with failing sinks - as probes, as a history
// operation and inside the active sinks.

//
// TERMINAL HOOKS.  The last user of a pooled CheckedEntry is not a core but the entry's CheckWriteHook
// (Panic, Fatal, DPanic in development, After / Should on a bare entry): it is handed the *CheckedEntry
// itself, after every core has written.  What it sees there - level, logger name, message, time, caller,
// stack, ErrorOutput, and the fields it is handed - must be the entry that was logged, whatever the hook
// did before it looked (report through loggers of its own, flush, wait while other goroutines log):
// an entry returned to the pool before its hook is done is taken, reset and refilled by the next
// log call.  The terminal probes install hooks that FIRST do the activity "act" (plus a log call
// through a chain of loggers whose sinks log, so that several CheckedEntries are in use at once and
// the pool's most recently returned objects are all handed out) and only THEN read the entry; what
// they saw, what they wrote to ce.ErrorOutput and the value of the final panic (panic(ce.Message) of
// WriteThenPanic) are part of the observed bytes.  Each hook also knows which logger it was installed
// for: an entry of any other logger is recorded in c08Stale like a stale delivery.

//
// SHARED CONFIGURATION.  State that is shared without being pooled - the EncoderConfig every encoder of a
// logger family points to, the logger's long-lived encoder - is the subject of c08_family.go: encoder
// callbacks that are silent for some inputs only, long-lived logger families, unusual entries (Level(42),
// times before 1970, callers without a file, dotted names) between identical calls through the logger,
// its With / Named children, siblings, cores and encoder clones.

//
// CONCURRENT BURSTS.  All of the above observes ONE goroutine at a time inside zap.  A pooled object that
// sits in its pool twice (handed back twice by one call - e.g. on the `stack.Count() == 0` return of
// Logger.check, which only a caller skip beyond the stack reaches) is invisible that way; it takes two
// goroutines holding "their" object at the same time.  c08_burst.go: edge preludes (history operation
// kind 21), a probe in which several goroutines with loggers, sinks and call sites of their own log the
// same entry at the same time, every line compared with the line the same call produces alone, and a
// directed stage that sets the number of Ps before the history (sync.Pool forgets on a change).

//
// NESTED METADATA.  The console encoder's pooled column collector is a full ArrayEncoder: user-supplied
// EncodeTime / EncodeLevel / EncodeCaller / EncodeName may record nested arrays / objects in it (the only way
// to sliceArrayEncoder.AppendArray / AppendObject).  c08_nested.go: configurations with such callbacks (which
// also do the activity of the observation, like a sink), two probes with a flat twin as oracle, history
// operation kind 22, four more workers of the concurrent burst.

import (
	"bytes"
	"context"
	"errors"
	"fmt"
	"log/slog"
	"os"
	"os/exec"
	"runtime"
	"strconv"
	"strings"
	"sync"
	"sync/atomic"
	"time"

	"go.uber.org/zap"
	"go.uber.org/zap/exp/zapslog"
	"go.uber.org/zap/zapcore"
)

type c08Probe struct {
	id    int
	kind  int // 0 = JSON ioCore.Write of a generated encoder case (case text kept for the replay), 1 = console / Logger probe
	label string
	sx    SX // kind 0: the encoder case; kind 1: label
	abs   SX // abstraction for the pooled model
	run   func(sc *c08Scope, act int) []byte
}

// ---------- watched sinks ----------
type c08Scope struct {
	label   string
	retired atomic.Bool
	drop    bool // its sinks do not keep what they are handed
}

func (sc *c08Scope) sink(act int, fail bool) *c08Sink {
	return &c08Sink{act: act, fail: fail, sc: sc, drop: sc != nil && sc.drop}
}
func (sc *c08Scope) retire() { sc.retired.Store(true) }

var c08Stale struct {
	mu   sync.Mutex
	n    int
	what []string
}

func c08StaleAdd(what string) {
	c08Stale.mu.Lock()
	c08Stale.n++
	if len(c08Stale.what) < 1<<14 {
		c08Stale.what = append(c08Stale.what, what)
	}
	c08Stale.mu.Unlock()
}

func c08StaleMark() int {
	c08Stale.mu.Lock()
	defer c08Stale.mu.Unlock()
	return c08Stale.n
}

// what was recorded since mark ("" = nothing)
func c08StaleSince(mark int) string {
	c08Stale.mu.Lock()
	defer c08Stale.mu.Unlock()
	if c08Stale.n == mark {
		return ""
	}
	first := "?"
	if mark < len(c08Stale.what) {
		first = c08Stale.what[mark]
	}
	return fmt.Sprintf("%d stale deliveries, first: %s", c08Stale.n-mark, first)
}

func c08Clip(p []byte) string {
	if len(p) > 160 {
		p = p[:160]
	}
	return strconv.Quote(string(p))
}

// the error output of a logger none of whose cores ever fails, and which never re-uses an entry
type c08Quiet struct{ label string }

func (q c08Quiet) Write(p []byte) (int, error) {
	c08StaleAdd("the error output of " + q.label + " (whose own writes never fail) received " + c08Clip(p))
	return len(p), nil
}
func (c08Quiet) Sync() error { return nil }

// ---------- building blocks ----------
// no operation of this harness logs more than a few hundred KB in one entry; a pool that hands out
// unreset buffers makes payloads grow geometrically along With chains
const c08MaxPayload = 1 << 25

type c08Sink struct {
	bytes.Buffer
	fail bool
	drop bool      // the payload is looked at (retired scope, size) but not kept: sinks of oversize history operations
	act  int       // what Write does besides copying the payload (c08Nested); 0 = nothing
	sc   *c08Scope // the history operation / probe run whose logger this sink was built for
}

func (s *c08Sink) Write(p []byte) (int, error) {
	if s.sc != nil && s.sc.retired.Load() {
		c08StaleAdd("a sink of " + s.sc.label + ", which ended earlier, received " + c08Clip(p))
	}
	if s.fail {
		return 0, errors.New("sink failed")
	}
	if len(p) > c08MaxPayload {
		panic(fmt.Sprintf("runaway payload: a sink was handed %d bytes", len(p)))
	}
	switch s.act {
	case 0:
		if s.drop {
			return len(p), nil
		}
		return s.Buffer.Write(p)
	case c08ActBlocked, c08ActYield:
		// a sink whose Write takes time (lock, channel, syscall): a few bytes of the payload are
		// consumed before, the rest after other goroutines ran
		k1 := len(p)
		if k1 > 8 {
			k1 = 8
		}
		k2 := k1 + (len(p)-k1)/2
		s.Buffer.Write(p[:k1])
		c08Nested(s.act, len(p))()
		s.Buffer.Write(p[k1:k2])
		c08Nested(s.act, len(p))()
		s.Buffer.Write(p[k2:])
		return len(p), nil
	default:
		// a sink that reports through its own diagnostics logger (or bridges into another logger)
		// before it consumes the payload
		after := c08Nested(s.act, len(p))
		n, err := s.Buffer.Write(p)
		after()
		return n, err
	}
}
func (*c08Sink) Sync() error { return nil }

// ---------- zap activity on other loggers, performed from inside a sink / marshaler / hook ----------
const (
	c08ActJSON    = 1 // log through a second JSON core (reflected field: a second pooled buffer)
	c08ActConsole = 2 // console core with a With context, error group
	c08ActLogger  = 3 // Logger with caller + stack capture, tee, reflected field
	c08ActHold    = 4 // Encoder API: Clone, AddReflected, EncodeEntry; the buffer is held during the copy
	c08ActBlocked = 5 // block on a channel while a second goroutine logs through other cores
	c08ActYield   = 6 // runtime.Gosched while companion goroutines (started by c08call) keep logging
	c08NActs      = 7
)

var c08ActNames = [c08NActs]string{"plain", "sink-logs-json", "sink-logs-console", "sink-logs-logger", "sink-holds-encoder", "sink-blocked", "sink-yields"}

// The audit entries are at least as long as the payload the sink is holding (n), and are written by
// many small appends (a string full of escapes): a buffer wrongly shared with them is overwritten in
// place over the whole length of the payload, not only until its first reallocation.
func c08AuditMsg(n int) string {
	if n > 1<<14 { // the probes' payloads are shorter; keeps a run against a broken pool bounded
		n = 1 << 14
	}
	return "sink received payload, forwarding " + strings.Repeat(".\"", 40+n/2)
}

type c08Null struct{}

func (c08Null) Write(p []byte) (int, error) { return len(p), nil }
func (c08Null) Sync() error                 { return nil }

// The diagnostics loggers of the active sinks exist before the sinks are written to (a constructor
// takes a buffer from the pool too, but only to keep it as its empty context: built inside Write it
// would shield whatever the observed call released last from the writes that follow).  They are
// shared by all sinks and companions, hence sinks without state.
var (
	c08AuditOnce sync.Once
	c08AuditJSON zapcore.Core
	c08AuditCons zapcore.Core
	c08AuditLog  *zap.Logger
	c08AuditEnc  zapcore.Encoder
	c08AuditBare zapcore.Core // driven without a Logger; its second sink fails
	c08AuditDeep *zap.Logger  // its sink logs through a second logger whose sink logs through a third
)

// a sink that reports every payload through a logger of its own: while the outermost call of such a
// chain is in progress, one CheckedEntry (and one line buffer) per link is in use at the same time
type c08ChainSink struct{ next *zap.Logger }

func (s c08ChainSink) Write(p []byte) (int, error) {
	s.next.Info("forwarded by a sink", zap.Int("n", len(p)), zap.Reflect("r", []int{len(p)}))
	return len(p), nil
}
func (c08ChainSink) Sync() error { return nil }

type c08FailNull struct{}

func (c08FailNull) Write(p []byte) (int, error) { return 0, errors.New("audit sink failed") }
func (c08FailNull) Sync() error                 { return nil }

func c08AuditInit() {
	c08AuditOnce.Do(func() {
		c08AuditJSON = zapcore.NewCore(zapcore.NewJSONEncoder(c08Cfg()), c08Null{}, zapcore.DebugLevel)
		c08AuditCons = zapcore.NewCore(zapcore.NewConsoleEncoder(c08Cfg()), c08Null{}, zapcore.DebugLevel).With(c08Fields(1, 0, 0, 1, 0, 0, 0))
		c08AuditLog = zap.New(zapcore.NewTee(c08AuditJSON, c08AuditCons), zap.WithClock(c08Clock{}), zap.ErrorOutput(c08Quiet{"the active sinks' diagnostics logger"}),
			zap.AddCaller(), zap.AddStacktrace(zapcore.DebugLevel)).Named("audit")
		c08AuditEnc = zapcore.NewJSONEncoder(c08Cfg())
		c08AuditBare = zapcore.NewTee(zapcore.NewCore(zapcore.NewJSONEncoder(c08Cfg()), c08Null{}, zapcore.DebugLevel),
			zapcore.NewCore(zapcore.NewConsoleEncoder(c08Cfg()), c08FailNull{}, zapcore.DebugLevel))
		link := func(name string, console bool, ws zapcore.WriteSyncer, opts ...zap.Option) *zap.Logger {
			var enc zapcore.Encoder = zapcore.NewJSONEncoder(c08Cfg())
			if console {
				enc = zapcore.NewConsoleEncoder(c08Cfg())
			}
			opts = append([]zap.Option{zap.WithClock(c08Clock{}), zap.ErrorOutput(c08Quiet{"the active sinks' chained diagnostics logger " + name})}, opts...)
			return zap.New(zapcore.NewCore(enc, ws, zapcore.DebugLevel), opts...).Named(name)
		}
		l3 := link("audit-3", false, c08Null{})
		l2 := link("audit-2", true, c08ChainSink{l3}, zap.AddCaller())
		c08AuditDeep = link("audit-1", false, c08ChainSink{l2}, zap.AddStacktrace(zapcore.WarnLevel))
	})
}

func c08Audit(which int, n int) {
	c08AuditInit()
	switch which {
	case c08ActJSON:
		// through the sink's long-lived diagnostics core, then through a core made on the spot
		_ = c08AuditJSON.Write(zapcore.Entry{Level: zapcore.DebugLevel, Message: c08AuditMsg(n), LoggerName: "audit"}, c08Fields(2, 1, 0, 0, 0, 0, 0))
		core := zapcore.NewCore(zapcore.NewJSONEncoder(c08Cfg()), c08Null{}, zapcore.DebugLevel)
		_ = core.Write(zapcore.Entry{Level: zapcore.DebugLevel, Message: "shipped"}, c08Fields(1, 0, 0, 0, 0, 0, 0))
	case c08ActConsole:
		_ = c08AuditCons.With(c08Fields(1, 0, 0, 1, 0, 0, 0)).Write(zapcore.Entry{Message: "shipped"}, nil)
		_ = c08AuditCons.Write(zapcore.Entry{Level: zapcore.WarnLevel, Message: "audit", Caller: zapcore.EntryCaller{Defined: true, File: "/audit/sink.go", Line: 9}},
			append(c08Fields(1, 1, 0, 0, 2, 0, 0), zap.String("payload", c08AuditMsg(n))))
	default:
		c08AuditLog.Info(c08AuditMsg(n), zap.Reflect("r", []int{1, 2, 3}), zap.Int("n", 1))
		// ... and forwards through a core that it drives itself (as a slog bridge does): the failure of
		// that core's second sink has no error output to go to
		if ce := c08AuditBare.Check(zapcore.Entry{Level: zapcore.WarnLevel, Time: c08Clock{}.Now(), Message: "forwarded"}, nil); ce != nil {
			ce.Write(zap.Int("n", n))
		}
		// ... and through a chain of loggers whose sinks log: three CheckedEntries in use at once (a
		// single call only ever takes the pool's most recently returned object)
		c08AuditDeep.Warn("chained audit", zap.Int("n", n))
	}
}

// c08Nested does the activity of kind act on the calling goroutine (resp. lets other goroutines do it)
// and returns what has to be done once the caller has consumed its payload.
func c08Nested(act int, n int) (after func()) {
	after = func() {}
	switch act {
	case c08ActJSON, c08ActConsole, c08ActLogger:
		c08Audit(act, n)
	case c08ActHold:
		c08AuditInit()
		cl := c08AuditEnc.Clone()
		cl.OpenNamespace("held")
		_ = cl.AddReflected("r", map[string]int{"q": 1})
		buf, err := cl.EncodeEntry(zapcore.Entry{Message: c08AuditMsg(n)}, c08Fields(1, 1, 0, 0, 0, 0, 0))
		if err == nil {
			want := buf.String()
			after = func() {
				if buf.String() != want {
					panic("a buffer handed out by EncodeEntry changed while its owner held it")
				}
				buf.Free()
			}
		}
	case c08ActBlocked:
		done := make(chan struct{})
		var pe interface{}
		go func() {
			defer close(done)
			defer func() { pe = recover() }()
			c08Audit(c08ActConsole, n)
			c08Audit(c08ActJSON, n)
			c08Audit(c08ActLogger, n)
		}()
		<-done
		if pe != nil {
			panic(pe)
		}
	case c08ActYield:
		runtime.Gosched()
	}
	return after
}

// what the activity of one sink write looks like to the pooled model (history items)
func c08ActAbs(act int) []SX {
	j := c08Abs(0, 2, 1, 0, 0, 0, 0)
	w, c := c08Abs(2, 1, 0, 0, 1, 0, 1), c08Abs(1, 1, 1, 0, 0, 2, 0)
	l := c08Abs(3, 1, 1, 0, 0, 0, 6+8*4)
	bare := c08Abs(6, 1, 0, 0, 0, 0, 1)
	deep := c08Abs(3, 2, 1, 0, 0, 0, 4) // the chain of loggers: stack capture, one core each
	switch act {
	case c08ActJSON:
		return []SX{j}
	case c08ActConsole:
		return []SX{w, c}
	case c08ActLogger:
		return []SX{l, bare, deep}
	case c08ActHold:
		return []SX{c08Abs(2, 1, 1, 0, 1, 0, 0)}
	case c08ActBlocked:
		return []SX{j, w, c, l, bare, deep}
	case c08ActYield:
		return []SX{j, w, c, l, bare, deep}
	}
	return nil
}

// a marshaler that logs through another logger half-way through its own fields
type c08ActObj struct {
	act int
	fs  []zapcore.Field
}

func (o c08ActObj) MarshalLogObject(enc zapcore.ObjectEncoder) error {
	for i, f := range o.fs {
		if i == len(o.fs)/2 {
			c08Nested(o.act, 0)()
		}
		f.AddTo(enc)
	}
	return nil
}

type c08Clock struct{}

func (c08Clock) Now() time.Time                       { return time.Unix(1700000000, 123456789).UTC() }
func (c08Clock) NewTicker(time.Duration) *time.Ticker { return time.NewTicker(time.Hour) }

func c08Cfg() zapcore.EncoderConfig {
	return zapcore.EncoderConfig{
		MessageKey: "msg", LevelKey: "level", TimeKey: "ts", NameKey: "logger", CallerKey: "caller",
		FunctionKey: "func", StacktraceKey: "stack", LineEnding: "\n",
		EncodeLevel: zapcore.LowercaseLevelEncoder, EncodeTime: zapcore.EpochNanosTimeEncoder,
		EncodeDuration: zapcore.StringDurationEncoder, EncodeCaller: zapcore.ShortCallerEncoder,
	}
}

type c08Obj struct {
	fs  []zapcore.Field
	err error
}

func (o c08Obj) MarshalLogObject(enc zapcore.ObjectEncoder) error {
	for _, f := range o.fs {
		f.AddTo(enc)
	}
	return o.err
}

// a terminal hook that returns (as test hooks do): the CheckedEntry goes back to the pool with the
// hook still set.  It must only ever see the entry it was installed for.
type c08Hook struct {
	msg string
	sc  *c08Scope
}

func (h c08Hook) OnWrite(ce *zapcore.CheckedEntry, _ []zapcore.Field) {
	if h.sc != nil && h.sc.retired.Load() {
		c08StaleAdd("a hook of " + h.sc.label + ", which ended earlier, fired on entry " + strconv.Quote(ce.Message))
	}
	if ce.Message != h.msg {
		panic("a hook of an earlier entry fired on a foreign entry: " + ce.Message)
	}
}

// ---------- terminal hooks that look at their entry late ----------
// what a terminal hook was handed, as far as a hook can see it
type c08Rec struct {
	mu sync.Mutex
	b  []byte
}

func (r *c08Rec) add(format string, args ...interface{}) {
	if r == nil {
		return
	}
	r.mu.Lock()
	r.b = append(r.b, []byte("<"+fmt.Sprintf(format, args...)+">")...)
	r.mu.Unlock()
}

func (r *c08Rec) bytes() []byte {
	r.mu.Lock()
	defer r.mu.Unlock()
	return append([]byte(nil), r.b...)
}

func c08Saw(ce *zapcore.CheckedEntry, fields []zapcore.Field) string {
	enc := zapcore.NewMapObjectEncoder()
	for _, f := range fields {
		f.AddTo(enc)
	}
	caller := "-"
	if ce.Caller.Defined {
		caller = ce.Caller.TrimmedPath() + " " + ce.Caller.Function
	}
	return fmt.Sprintf("level=%s logger=%q msg=%q t=%d caller=%s stack=%q errout=%v fields=%v",
		ce.Level, ce.LoggerName, ce.Message, ce.Time.UnixNano(), caller, ce.Stack, ce.ErrorOutput != nil, enc.Fields)
}

// A hook of the kind services install (zap.WithFatalHook / WithPanicHook, CheckedEntry.After): it first
// reports through loggers of its own, flushes, waits - and only then looks at the entry it was handed,
// writes a line about it to the entry's ErrorOutput, and finally returns or dies the way the built-in
// hooks do.
type c08SeeHook struct {
	label  string
	act    int         // what it does before it looks (c08Nested; yield = a slow hook while companions log)
	own    *zap.Logger // != nil: it also reports through this logger of its own, before and after looking
	rec    *c08Rec     // nil: only the check below
	name   string      // logger name and message prefix of the entries it was installed for
	prefix string
	sc     *c08Scope
	then   zapcore.CheckWriteHook // how it ends (nil: it returns)
}

func (h *c08SeeHook) OnWrite(ce *zapcore.CheckedEntry, fields []zapcore.Field) {
	if h.sc != nil && h.sc.retired.Load() {
		c08StaleAdd("a terminal hook of " + h.sc.label + ", which ended earlier, fired on entry " + strconv.Quote(ce.Message))
	}
	after := func() {}
	if h.own != nil {
		h.own.Info("terminal hook running", zap.String("hook", h.label))
	}
	switch h.act {
	case 0:
	case c08ActYield:
		// a slow hook (flush, sleep): other goroutines keep logging meanwhile
		for i := 0; i < 6; i++ {
			runtime.Gosched()
		}
	case c08ActBlocked:
		c08Nested(h.act, 0)()
	default:
		after = c08Nested(h.act, 0)
		c08Audit(c08ActLogger, 0)
	}
	saw := c08Saw(ce, fields)
	after()
	h.rec.add("hook %s saw %s", h.label, saw)
	if ce.LoggerName != h.name || !strings.HasPrefix(ce.Message, h.prefix) || ce.Level < zapcore.WarnLevel {
		c08StaleAdd("the terminal hook " + h.label + " of logger " + strconv.Quote(h.name) + " was handed the entry " +
			fmt.Sprintf("{level=%s logger=%q msg=%s}", ce.Level, ce.LoggerName, c08Clip([]byte(ce.Message))))
	}
	if ce.ErrorOutput != nil {
		fmt.Fprintf(ce.ErrorOutput, "hook %s: terminal entry %q\n", h.label, ce.Message)
	}
	if h.own != nil {
		h.own.Warn("terminal entry", zap.String("hook", h.label), zap.String("level", ce.Level.String()), zap.String("msg", ce.Message))
	}
	if h.then != nil {
		h.then.OnWrite(ce, fields)
	}
}

// runs f on a goroutine of its own and records how it ended: returned, panicked (with which value), Goexit
func c08Die(rec *c08Rec, label string, f func()) {
	done := make(chan struct{})
	go func() {
		defer close(done)
		returned := false
		defer func() {
			switch e := recover(); {
			case e != nil:
				rec.add("%s: panic %q", label, fmt.Sprint(e))
			case returned:
				rec.add("%s: returned", label)
			default:
				rec.add("%s: goexit", label)
			}
		}()
		f()
		returned = true
	}()
	<-done
}

type c08PanicObj struct{}

func (c08PanicObj) MarshalLogObject(zapcore.ObjectEncoder) error { panic("marshaler panic") }

// fields from counts: a strings, b reflected ok, c reflected failing, d namespaces (left open),
// e error-group size (zap.Error of a group + zap.Errors), f odd = a nested object that opens a
// namespace, reflects and then fails.  Mirrors mk_fields in coq/theories/C08/Model.v.
func c08Fields(a, b, c, d, e, f int, big int) []zapcore.Field {
	var fs []zapcore.Field
	for i := 0; i < a; i++ {
		v := "v" + strconv.Itoa(i)
		if big > 0 {
			v = strings.Repeat("x\"y", big)
		}
		fs = append(fs, zap.String("k"+strconv.Itoa(i), v))
	}
	for i := 0; i < b; i++ {
		fs = append(fs, zap.Reflect("r"+strconv.Itoa(i), map[string]interface{}{"a": i, "b": []int{1, 2, i}}))
	}
	for i := 0; i < c; i++ {
		fs = append(fs, zap.Reflect("bad"+strconv.Itoa(i), badJSON{}))
	}
	if e > 0 {
		var causes []error
		for i := 0; i < e; i++ {
			causes = append(causes, plainErr{"cause" + strconv.Itoa(i)})
		}
		fs = append(fs, zap.Error(groupErr{"group", causes}), zap.Errors("errs", causes))
	}
	if f%2 == 1 {
		fs = append(fs, zap.Object("obj", c08Obj{[]zapcore.Field{zap.Namespace("in"), zap.Reflect("r", []string{"x"}), zap.String("s", "t")}, errors.New("obj failed")}))
	}
	for i := 0; i < d; i++ {
		fs = append(fs, zap.Namespace("ns"+strconv.Itoa(i)))
	}
	return fs
}

func c08Abs(k, a, b, c, d, e, f int) SX { return L(I(k), I(a), I(b), I(c), I(d), I(e), I(f)) }

// ... with a terminal hook that makes h-1 log calls of its own before it looks at its entry (h = 0: no hook)
func c08AbsH(k, a, b, c, d, e, f, h int) SX {
	return L(I(k), I(a), I(b), I(c), I(d), I(e), I(f), I(h))
}

// Every probe runs on a goroutine of its own, started here: the captured stack is then the same
// (probe closure, this function literal) whoever asked for the observation.  With act = yield two
// companion goroutines log through loggers of their own for as long as the probe runs.
func c08call(p *c08Probe, act int) (out []byte, panicked string, stale string) {
	mark := c08StaleMark()
	sc := &c08Scope{label: "an earlier run of probe " + p.label}
	defer func() {
		sc.retire()
		stale = c08StaleSince(mark)
	}()
	var mu sync.Mutex
	var wg sync.WaitGroup
	stop := make(chan struct{})
	if act != 0 {
		c08AuditInit()
	}
	if act == c08ActYield {
		for g := 0; g < 2; g++ {
			wg.Add(1)
			go func(g int) {
				defer wg.Done()
				defer func() {
					if e := recover(); e != nil {
						mu.Lock()
						panicked = "companion goroutine: " + fmt.Sprint(e)
						mu.Unlock()
					}
				}()
				for i := g; ; i++ {
					select {
					case <-stop:
						return
					default:
					}
					c08Audit(1+i%3, [3]int{2000, 300, 16000}[(i/3)%3])
					runtime.Gosched()
				}
			}(g)
		}
	}
	done := make(chan struct{})
	go func() {
		defer close(done)
		defer func() {
			if e := recover(); e != nil {
				mu.Lock()
				panicked = fmt.Sprint(e)
				mu.Unlock()
			}
		}()
		out = p.run(sc, act)
	}()
	<-done
	close(stop)
	wg.Wait()
	return
}

// the generated encoder case behind a real ioCore (as encCase.runJSON), with a c08Sink
func c08RunCase(sc *c08Scope, ec *encCase, console bool, act int) ([]byte, string, bool) {
	return catchPanic(func() []byte {
		var enc zapcore.Encoder
		if console {
			enc = zapcore.NewConsoleEncoder(ec.cfg.real())
		} else {
			enc = zapcore.NewJSONEncoder(ec.cfg.real())
		}
		sink := sc.sink(act, false)
		var core zapcore.Core = zapcore.NewCore(enc, sink, zapcore.Level(-128))
		for _, fs := range ec.ctxs {
			core = core.With(fs)
		}
		if ec.preuse > 0 {
			pre := zapcore.Entry{Level: ec.ent.Level, Time: ec.ent.Time, Message: "pre-use"}
			var pf []zapcore.Field
			if ec.preuse == 2 {
				pf = ec.fields
			}
			_ = core.Write(pre, pf)
			if ec.preuse == 3 {
				_ = core.With([]zapcore.Field{{Key: "child", Type: zapcore.Int64Type, Integer: 1}}).Write(pre, nil)
			}
			sink.Reset()
		}
		if err := core.Write(ec.ent, ec.fields); err != nil {
			panic("core.Write error: " + err.Error())
		}
		return append([]byte(nil), sink.Bytes()...)
	})
}

func c08Deep(n int, f func()) {
	if n <= 0 {
		f()
		return
	}
	c08Deep(n-1, f)
}

func c08Logger(sc *c08Scope, act int, console bool, tee bool, failing bool, opts ...zap.Option) (*zap.Logger, *c08Sink, *c08Sink, *c08Sink) {
	s1, s2, es := sc.sink(act, false), sc.sink(act, failing), sc.sink(act, false)
	var enc zapcore.Encoder
	if console {
		enc = zapcore.NewConsoleEncoder(c08Cfg())
	} else {
		enc = zapcore.NewJSONEncoder(c08Cfg())
	}
	core := zapcore.NewCore(enc, s1, zapcore.DebugLevel)
	if tee {
		core = zapcore.NewTee(core, zapcore.NewCore(zapcore.NewConsoleEncoder(c08Cfg()), s2, zapcore.InfoLevel))
	}
	opts = append([]zap.Option{zap.WithClock(c08Clock{}), zap.ErrorOutput(es)}, opts...)
	return zap.New(core, opts...), s1, s2, es
}

func c08Join(ss ...*c08Sink) []byte {
	var out []byte
	for i, s := range ss {
		out = append(out, []byte(fmt.Sprintf("<%d:", i))...)
		out = append(out, s.Bytes()...)
		out = append(out, '>')
	}
	return out
}

func c08Probes(seed uint64) []*c08Probe {
	var ps []*c08Probe
	add := func(kind int, label string, sx SX, abs SX, run func(sc *c08Scope, act int) []byte) {
		if sx == nil {
			sx = Str(label)
		}
		ps = append(ps, &c08Probe{id: len(ps), kind: kind, label: label, sx: sx, abs: abs, run: run})
	}
	// encoder cases through ioCore.Write (With chains, every field kind, nested marshalers, failures)
	r := NewRNG(seed*7919 + 17)
	for n, rejected := 0, 0; n < 12; {
		ec := genEncCase(r.Fork(), n%4 == 3)
		// cases on which the encoder panics are C01's subject; on a tree where every case panics
		// the probes are kept and the panics are reported by the fresh-state observation
		if _, _, panicked := c08RunCase(nil, ec, false, 0); panicked && rejected < 40 {
			rejected++
			continue
		}
		if _, _, panicked := c08RunCase(nil, ec, true, 0); panicked && rejected < 40 {
			rejected++
			continue
		}
		if n < 8 {
			add(0, "json-case", ec.sx, c08Abs(0, len(ec.fields), 1, 0, 1, 1, 1), func(sc *c08Scope, act int) []byte {
				out, pm, p := c08RunCase(sc, ec, false, act)
				if p {
					panic(pm)
				}
				return out
			})
		} else {
			add(1, "console-case", nil, c08Abs(1, len(ec.fields), 1, 0, 1, 1, 1), func(sc *c08Scope, act int) []byte {
				out, pm, p := c08RunCase(sc, ec, true, act)
				if p {
					panic(pm)
				}
				return out
			})
		}
		n++
	}
	// Logger probes
	add(1, "logger-json-caller-stack", nil, c08Abs(3, 2, 1, 0, 0, 0, 6+8*3), func(sc *c08Scope, act int) []byte {
		lg, s1, s2, es := c08Logger(sc, act, false, false, false, zap.AddCaller(), zap.AddStacktrace(zapcore.InfoLevel))
		lg.Info("probe", c08Fields(2, 1, 0, 0, 0, 0, 0)...)
		return c08Join(s1, s2, es)
	})
	add(1, "logger-console-caller-stack", nil, c08Abs(3, 2, 1, 1, 1, 2, 7+8*3), func(sc *c08Scope, act int) []byte {
		lg, s1, s2, es := c08Logger(sc, act, true, false, false, zap.AddCaller(), zap.AddStacktrace(zapcore.WarnLevel))
		lg.Warn("probe", c08Fields(2, 1, 1, 1, 2, 1, 0)...)
		lg.Info("second")
		return c08Join(s1, s2, es)
	})
	add(1, "logger-with-named", nil, c08Abs(2, 1, 1, 0, 1, 0, 1), func(sc *c08Scope, act int) []byte {
		lg, s1, s2, es := c08Logger(sc, act, false, false, false)
		l2 := lg.With(zap.Int("a", 1), zap.Namespace("ns"), zap.Reflect("r", map[string]int{"x": 1})).Named("sub")
		l2.Info("in namespace", zap.String("k", "v"))
		l2.With(zap.Namespace("deeper")).Error("two", zap.Error(errors.New("boom")))
		lg.Debug("root unaffected")
		return c08Join(s1, s2, es)
	})
	add(1, "logger-tee-failing-sink", nil, c08Abs(3, 1, 0, 1, 0, 1, 1+2), func(sc *c08Scope, act int) []byte {
		lg, s1, s2, es := c08Logger(sc, act, false, true, true, zap.AddCaller())
		lg.Info("tee", c08Fields(1, 0, 1, 0, 1, 0, 0)...)
		return bytes.ReplaceAll(c08Join(s1, s2, es), []byte("1700000000"), []byte("T"))
	})
	add(1, "logger-stack-field", nil, c08Abs(4, 0, 0, 0, 0, 0, 5), func(sc *c08Scope, act int) []byte {
		lg, s1, s2, es := c08Logger(sc, act, true, true, false)
		lg.Info("with stack field", zap.Stack("st"), zap.StackSkip("st2", 1))
		return c08Join(s1, s2, es)
	})
	add(1, "sugar-infow", nil, c08Abs(0, 3, 1, 0, 0, 0, 0), func(sc *c08Scope, act int) []byte {
		lg, s1, s2, es := c08Logger(sc, act, false, false, false, zap.AddCaller())
		lg.Sugar().Infow("sugared", "a", 1, "b", []int{1, 2}, "c", errors.New("e"))
		lg.Sugar().Infof("%d-%s", 7, "x")
		return c08Join(s1, s2, es)
	})
	add(1, "logger-big-message", nil, c08Abs(0, 3, 0, 0, 0, 0, 0), func(sc *c08Scope, act int) []byte {
		lg, s1, s2, es := c08Logger(sc, act, false, true, false)
		lg.Info(strings.Repeat("m\n", 3000), c08Fields(3, 0, 0, 0, 0, 0, 700)...)
		return c08Join(s1, s2, es)
	})
	add(1, "logger-deep-stack", nil, c08Abs(3, 0, 0, 0, 0, 0, 4+8*90), func(sc *c08Scope, act int) []byte {
		lg, s1, s2, es := c08Logger(sc, act, false, false, false, zap.AddStacktrace(zapcore.DebugLevel))
		c08Deep(90, func() { lg.Debug("deep") })
		return c08Join(s1, s2, es)
	})
	add(1, "dpanic-hook", nil, c08Abs(3, 1, 0, 0, 0, 0, 0), func(sc *c08Scope, act int) []byte {
		lg, s1, s2, es := c08Logger(sc, act, false, false, false, zap.Development())
		func() {
			defer func() { recover() }()
			lg.DPanic("dp", zap.Int("x", 1))
		}()
		lg.Info("after")
		return c08Join(s1, s2, es)
	})
	add(1, "encoder-direct", nil, c08Abs(1, 2, 1, 0, 1, 0, 0), func(sc *c08Scope, act int) []byte {
		enc := zapcore.NewConsoleEncoder(c08Cfg())
		enc.AddString("ctx", "v")
		cl := enc.Clone()
		cl.OpenNamespace("n")
		_ = cl.AddReflected("r", []int{1})
		// the caller owns the returned buffer until it frees it: whatever happens meanwhile
		buf, _ := cl.EncodeEntry(zapcore.Entry{Level: zapcore.InfoLevel, Message: "direct", LoggerName: "n"}, c08Fields(2, 1, 0, 1, 0, 0, 0))
		after := c08Nested(act, buf.Len())
		out := append([]byte(nil), buf.Bytes()...)
		after()
		buf.Free()
		buf2, _ := enc.EncodeEntry(zapcore.Entry{Level: zapcore.WarnLevel, Message: "orig"}, nil)
		c08Nested(act, buf2.Len())()
		out = append(out, buf2.Bytes()...)
		buf2.Free()
		return out
	})
	// entries that never pass through a zap.Logger (exp/zapslog's Handler, direct zapcore users): nothing
	// assigns ErrorOutput or the hook, so the recycled CheckedEntry is used as reset() left it.  One
	// of the cores fails: per contract the failure is dropped silently.
	bareCores := func(sc *c08Scope, act int) (zapcore.Core, *c08Sink, *c08Sink) {
		s1, s2 := sc.sink(act, false), sc.sink(act, true)
		return zapcore.NewTee(zapcore.NewCore(zapcore.NewJSONEncoder(c08Cfg()), s1, zapcore.DebugLevel),
			zapcore.NewCore(zapcore.NewConsoleEncoder(c08Cfg()), s2, zapcore.InfoLevel)), s1, s2
	}
	bareEnt := func(l zapcore.Level, msg string) zapcore.Entry {
		return zapcore.Entry{Level: l, Time: c08Clock{}.Now(), LoggerName: "direct", Message: msg}
	}
	add(1, "bare-check-failing-sink", nil, c08Abs(6, 2, 1, 0, 0, 1, 1), func(sc *c08Scope, act int) []byte {
		core, s1, s2 := bareCores(sc, act)
		c08Bare(core, bareEnt(zapcore.InfoLevel, "bare check"), nil, nil, c08Fields(2, 1, 0, 0, 1, 0, 0))
		// the entry just returned to the pool is the one handed out now
		c08Bare(core.With(c08Fields(1, 0, 0, 1, 0, 0, 0)), bareEnt(zapcore.ErrorLevel, "bare check, derived core"), nil, nil, nil)
		c08Bare(core, bareEnt(zapcore.DebugLevel, "only the first core is enabled"), nil, nil, nil)
		c08Bare(core, bareEnt(zapcore.DebugLevel-1, "no core is enabled: nil entry"), nil, nil, nil)
		return c08Join(s1, s2)
	})
	add(1, "bare-check-after-addcore", nil, c08Abs(6, 1, 0, 0, 0, 0, 3), func(sc *c08Scope, act int) []byte {
		core, s1, s2 := bareCores(sc, act)
		s3 := sc.sink(act, false)
		third := zapcore.NewCore(zapcore.NewJSONEncoder(c08Cfg()), s3, zapcore.DebugLevel)
		c08Bare(core, bareEnt(zapcore.WarnLevel, "hooked"), c08Hook{"hooked", sc}, third, c08Fields(1, 0, 0, 0, 0, 0, 0))
		// the next entries have no hook and no third core
		c08Bare(core, bareEnt(zapcore.WarnLevel, "plain after hooked"), nil, nil, nil)
		c08Bare(zapcore.NewNopCore(), bareEnt(zapcore.WarnLevel, "hook only"), c08Hook{"hook only", sc}, nil, nil)
		c08Bare(third, bareEnt(zapcore.InfoLevel, "third alone"), nil, nil, nil)
		return c08Join(s1, s2, s3)
	})
	add(1, "slog-handler-failing-sink", nil, c08Abs(6, 3, 0, 0, 1, 0, 1), func(sc *c08Scope, act int) []byte {
		core, s1, s2 := bareCores(sc, act)
		h := zapslog.NewHandler(core, zapslog.WithName("bridge"))
		rec := slog.NewRecord(c08Clock{}.Now(), slog.LevelInfo, "through slog", 0)
		rec.AddAttrs(slog.Int("n", 1), slog.Group("g", slog.String("s", "t"), slog.Any("e", errors.New("boom"))))
		_ = h.Handle(context.Background(), rec)
		rec2 := slog.NewRecord(c08Clock{}.Now(), slog.LevelError, "through slog, derived handler", 0)
		_ = h.WithGroup("grp").WithAttrs([]slog.Attr{slog.String("ctx", "v")}).Handle(context.Background(), rec2)
		return c08Join(s1, s2)
	})
	// terminal entries: the hook is the last user of the pooled CheckedEntry, and it looks at the entry
	// only after it has done its own logging / waited (act); a second logger's hook always reports
	// through a logger of its own first
	add(1, "terminal-hook-reads-entry", nil, c08AbsH(3, 3, 1, 0, 0, 1, 2+8*2, 3), func(sc *c08Scope, act int) []byte {
		rec := &c08Rec{}
		hp := &c08SeeHook{label: "on-panic", act: act, rec: rec, name: "term", prefix: "term: ", sc: sc}
		hf := &c08SeeHook{label: "on-fatal", act: act, rec: rec, name: "term", prefix: "term: ", sc: sc}
		lg, s1, s2, es := c08Logger(sc, act, false, true, false, zap.AddCaller(), zap.Development(), zap.WithPanicHook(hp), zap.WithFatalHook(hf))
		lg = lg.Named("term").With(zap.Int("ctx", 1))
		lg.Panic("term: panic", c08Fields(2, 1, 0, 0, 1, 0, 0)...)
		lg.Info("between")
		lg.Fatal("term: fatal", zap.String("k", "v"), zap.Namespace("ns"), zap.Int("n", 2))
		lg.DPanic("term: dpanic in development")
		if ce := lg.Check(zapcore.PanicLevel, "term: checked panic"); ce != nil {
			ce.Write(zap.Int("n", 1))
		}
		lg.Sugar().Panicw("term: sugared panic", "a", 1, "e", errors.New("boom"))
		lg.Sugar().Fatalf("term: %s", "sugared fatal")
		lg.WithOptions(zap.AddStacktrace(zapcore.PanicLevel)).Panic("term: panic with a stack")
		lg.Error("after")
		// a hook with a logger of its own (console, caller), whatever act is
		own, o1, _, oes := c08Logger(sc, act, true, false, false, zap.AddCaller())
		ho := &c08SeeHook{label: "auditing", act: act, own: own.Named("hook-audit"), rec: rec, name: "svc", prefix: "svc: ", sc: sc}
		l2, t1, t2, tes := c08Logger(sc, act, true, false, false, zap.WithPanicHook(ho), zap.WithFatalHook(ho))
		l2 = l2.Named("svc")
		l2.Fatal("svc: disk on fire", zap.Int("i", 1))
		l2.Info("tick")
		l2.Panic("svc: invariant broken", c08Fields(1, 1, 0, 1, 0, 0, 0)...)
		return append(c08Join(s1, s2, es, o1, oes, t1, t2, tes), rec.bytes()...)
	})
	// ... hooks that end the way the built-in ones do (panic(ce.Message), Goexit) after they have looked,
	// and the built-in hooks themselves: the panic value is the entry's message
	add(1, "terminal-hook-then-dies", nil, c08AbsH(3, 1, 1, 0, 0, 0, 0, 2), func(sc *c08Scope, act int) []byte {
		rec := &c08Rec{}
		hk := func(label string, then zapcore.CheckWriteHook) *c08SeeHook {
			return &c08SeeHook{label: label, act: act, rec: rec, name: "die", prefix: "die: ", sc: sc, then: then}
		}
		lg, s1, s2, es := c08Logger(sc, act, false, false, false,
			zap.WithPanicHook(hk("look-then-panic", zapcore.WriteThenPanic)), zap.WithFatalHook(hk("look-then-panic-on-fatal", zapcore.WriteThenPanic)))
		lg = lg.Named("die")
		c08Die(rec, "Panic", func() { lg.Panic("die: panic", zap.Int("n", 1)) })
		c08Die(rec, "Fatal", func() { lg.Fatal("die: fatal", zap.Reflect("r", []int{1})) })
		c08Die(rec, "DPanic in production", func() { lg.DPanic("die: dpanic, production") })
		lgx := lg.WithOptions(zap.WithFatalHook(hk("look-then-goexit", zapcore.WriteThenGoexit)), zap.Development())
		c08Die(rec, "Fatal with Goexit", func() { lgx.Fatal("die: fatal, goexit") })
		c08Die(rec, "DPanic in development", func() { lgx.DPanic("die: dpanic, development") })
		// the built-in hooks
		ld, d1, d2, des := c08Logger(sc, act, true, true, false, zap.Development(), zap.WithFatalHook(zapcore.WriteThenPanic))
		c08Die(rec, "built-in Panic", func() { ld.Panic("die: built-in panic", c08Fields(1, 0, 0, 0, 1, 0, 0)...) })
		c08Die(rec, "built-in DPanic", func() { ld.DPanic("die: built-in dpanic") })
		c08Die(rec, "built-in Fatal/WriteThenPanic", func() { ld.Fatal("die: built-in fatal") })
		c08Die(rec, "built-in Fatal/WriteThenGoexit", func() {
			ld.WithOptions(zap.WithFatalHook(zapcore.WriteThenGoexit)).Named("x").Fatal("die: built-in fatal, goexit")
		})
		c08Die(rec, "built-in Panicf", func() { ld.Sugar().Panicf("die: %s", "sugared") })
		ld.Info("after")
		return append(c08Join(s1, s2, es, d1, d2, des), rec.bytes()...)
	})
	// ... and on entries that never pass through a zap.Logger: After / Should on a bare Check
	add(1, "bare-after-hook-reads-entry", nil, c08AbsH(6, 2, 1, 0, 0, 1, 3, 3), func(sc *c08Scope, act int) []byte {
		rec := &c08Rec{}
		core, s1, s2 := bareCores(sc, act)
		s3 := sc.sink(act, false)
		third := zapcore.NewCore(zapcore.NewJSONEncoder(c08Cfg()), s3, zapcore.DebugLevel)
		hk := &c08SeeHook{label: "after", act: act, rec: rec, name: "direct", prefix: "bare: ", sc: sc}
		c08Bare(core, bareEnt(zapcore.WarnLevel, "bare: hooked"), hk, nil, c08Fields(2, 1, 0, 0, 1, 0, 0))
		c08Bare(core.With(c08Fields(1, 0, 0, 1, 0, 0, 0)), bareEnt(zapcore.ErrorLevel, "bare: hooked, derived core, extra core"), hk, third, nil)
		c08Bare(zapcore.NewNopCore(), bareEnt(zapcore.WarnLevel, "bare: hook only"), hk, nil, []zapcore.Field{zap.Int("n", 1)})
		c08Die(rec, "Should(WriteThenPanic)", func() {
			ent := bareEnt(zapcore.ErrorLevel, "bare: should panic")
			core.Check(ent, nil).Should(ent, zapcore.WriteThenPanic).Write(zap.Int("n", 2))
		})
		c08Die(rec, "After(look-then-goexit)", func() {
			ent := bareEnt(zapcore.DPanicLevel, "bare: look, then goexit")
			dying := &c08SeeHook{label: "after-goexit", act: act, rec: rec, name: "direct", prefix: "bare: ", sc: sc, then: zapcore.WriteThenGoexit}
			core.Check(ent, nil).After(ent, dying).Write()
		})
		c08Bare(core, bareEnt(zapcore.InfoLevel, "plain after hooked"), nil, nil, nil)
		return append(c08Join(s1, s2, s3), rec.bytes()...)
	})
	// foreign code that runs in the middle of a zap operation: a marshaler (in a With context and in
	// the entry's fields) and a hook that log through other loggers; tee of a JSON and a console core
	add(1, "logger-active-marshaler-hook", nil, c08Abs(3, 3, 1, 0, 1, 2, 2+8*2), func(sc *c08Scope, act int) []byte {
		lg, s1, s2, es := c08Logger(sc, act, false, true, false, zap.AddCaller(),
			zap.Hooks(func(zapcore.Entry) error { c08Nested(act, 0)(); return nil }))
		l2 := lg.With(zap.Object("ctx", c08ActObj{act, c08Fields(2, 1, 0, 0, 0, 0, 0)}))
		l2.Info("marshaler logs", zap.Object("o", c08ActObj{act, c08Fields(2, 1, 0, 1, 2, 0, 0)}), zap.String("tail", "t"))
		lg.Warn("plain after", zap.Int("n", 2))
		return c08Join(s1, s2, es)
	})
	// entries of 70 KiB .. 1 MiB followed by small ones (c08_huge.go)
	c08HugeProbes(add)
	// logger families that share one EncoderConfig, partial callbacks, unusual entries (c08_family.go)
	c08FamilyProbes(seed, add)
	// several goroutines, each with a logger, sinks and a call site of its own, logging the same entry at the
	// same time (c08_burst.go)
	c08BurstProbes(add)
	// metadata callbacks that record nested arrays / objects in the console encoder's pooled column collector,
	// each with a flat twin as its oracle (c08_nested.go)
	c08NestedProbes(seed, add)
	return ps
}

// ---------- history operations ----------
const c08NKinds = 23 // 16..19: oversize operations (c08_huge.go); 20: a long-lived logger family (c08_family.go); 21: an edge prelude (c08_burst.go); 22: nested metadata (c08_nested.go)

// executes one history operation; returns its abstraction and a class letter.  Its sinks and hooks
// are retired when it is over; whatever reached a retired sink / hook meanwhile is unexpected.
func c08HistOp(r *RNG, kind int) (desc SX, class string, unexpected string) {
	mark := c08StaleMark()
	sc := &c08Scope{label: "history operation " + strconv.Itoa(kind)}
	desc, class, unexpected = c08HistOp1(sc, r, kind)
	sc.retire()
	if st := c08StaleSince(mark); st != "" && unexpected == "" {
		unexpected = fmt.Sprintf("during history operation kind %d: %s", kind, st)
	}
	return
}

// one entry driven through a core without a zap.Logger: Check(ent, nil), maybe After / AddCore, Write
func c08Bare(core zapcore.Core, ent zapcore.Entry, hook zapcore.CheckWriteHook, extra zapcore.Core, fs []zapcore.Field) {
	ce := core.Check(ent, nil)
	if hook != nil {
		ce = ce.After(ent, hook)
	}
	if extra != nil {
		ce = ce.AddCore(ent, extra)
	}
	ce.Write(fs...) // a nil entry (level disabled, no hook) is a no-op
}

func c08HistOp1(sc *c08Scope, r *RNG, kind int) (desc SX, class string, unexpected string) {
	a, b, c, d, e, f := r.Intn(4), r.Intn(3), r.Intn(2), r.Intn(3), r.Intn(3), r.Intn(4)
	// a panic that reaches quiet was not part of the script of the operation
	var mu sync.Mutex
	quiet := func(fn func()) {
		defer func() {
			if e := recover(); e != nil {
				mu.Lock()
				unexpected = fmt.Sprintf("history operation kind %d panicked: %v", kind, e)
				mu.Unlock()
			}
		}()
		fn()
	}
	switch kind {
	case 0: // simple JSON write
		quiet(func() {
			core := zapcore.NewCore(zapcore.NewJSONEncoder(c08Cfg()), sc.sink(0, false), zapcore.DebugLevel)
			_ = core.Write(zapcore.Entry{Message: "h", LoggerName: "hist", Stack: "st"}, c08Fields(a, b, c, d, e, f, 0))
		})
		return c08Abs(0, a, b, c, d, e, f), "j", unexpected
	case 1: // simple console write
		quiet(func() {
			core := zapcore.NewCore(zapcore.NewConsoleEncoder(c08Cfg()), sc.sink(0, false), zapcore.DebugLevel)
			_ = core.Write(zapcore.Entry{Message: "h", LoggerName: "hist", Caller: zapcore.EntryCaller{Defined: true, File: "/a/b/c.go", Line: 7}},
				c08Fields(a, b, c, d, e, f, 0))
		})
		return c08Abs(1, a, b, c, d, e, f), "c", unexpected
	case 2: // With (encoder clones kept alive), then a write through the derived core
		quiet(func() {
			var core zapcore.Core = zapcore.NewCore(zapcore.NewJSONEncoder(c08Cfg()), sc.sink(0, false), zapcore.DebugLevel)
			if f%2 == 1 {
				core = zapcore.NewCore(zapcore.NewConsoleEncoder(c08Cfg()), sc.sink(0, false), zapcore.DebugLevel)
			}
			c2 := core.With(c08Fields(a, b, c, d, e, 0, 0))
			c3 := c2.With(c08Fields(1, 1, 0, 1, 0, 0, 0))
			_ = c3.Write(zapcore.Entry{Message: "w"}, nil)
		})
		return c08Abs(2, a, b, c, d, e, f), "w", unexpected
	case 3: // Logger call with caller / stack, tee, maybe a failing sink
		fl := r.Intn(8)
		quiet(func() {
			var opts []zap.Option
			if fl&2 != 0 {
				opts = append(opts, zap.AddCaller())
			}
			if fl&4 != 0 {
				opts = append(opts, zap.AddStacktrace(zapcore.DebugLevel))
			}
			lg, _, _, _ := c08Logger(sc, 0, false, true, fl&1 != 0, opts...)
			lg.Info("hist call", c08Fields(a, b, c, d, e, f, 0)...)
		})
		return c08Abs(3, a, b, c, d, e, fl+8*4), "l", unexpected
	case 4: // zap.Stack
		quiet(func() {
			lg, _, _, _ := c08Logger(sc, 0, true, false, false)
			lg.Info("s", zap.Stack("stack"))
		})
		return c08Abs(4, 0, 0, 0, 0, 0, 5), "s", unexpected
	case 5: // two garbage collections: every pool is emptied
		runtime.GC()
		runtime.GC()
		return c08Abs(5, 0, 0, 0, 0, 0, 0), "g", unexpected
	case 6, 7: // rich encoder case
		ec := genEncCase(r.Fork(), r.Chance(30))
		ec.runJSON(kind == 7)
		return c08Abs(kind-6, len(ec.fields), 1, 1, 1, 1, 1), "r", unexpected
	case 8: // big entries: buffers grow far beyond their initial capacity
		n := 300 + r.Intn(3000)
		quiet(func() {
			lg, _, _, _ := c08Logger(sc, 0, r.Bool(), true, false)
			lg.Info(strings.Repeat("big", n), c08Fields(2, 1, 0, 1, 0, 0, n)...)
		})
		return c08Abs(0, 2, 1, 0, 1, 0, 0), "b", unexpected
	case 9: // a panicking marshaler: pooled objects of that call are never returned
		quiet(func() {
			lg, _, _, _ := c08Logger(sc, 0, r.Bool(), false, false, zap.AddCaller(), zap.AddStacktrace(zapcore.DebugLevel))
			func() {
				defer func() {
					if e := recover(); e != nil && fmt.Sprint(e) != "marshaler panic" {
						panic(e)
					}
				}()
				lg.Info("p", zap.Namespace("open"), zap.Reflect("r", 1), zap.Object("boom", c08PanicObj{}))
			}()
		})
		return c08Abs(0, 1, 1, 0, 1, 0, 0), "p", unexpected
	case 10: // deep stack: Stack.storage is replaced by a larger one
		n := 70 + r.Intn(200)
		quiet(func() {
			lg, _, _, _ := c08Logger(sc, 0, false, false, false, zap.AddStacktrace(zapcore.DebugLevel))
			c08Deep(n, func() { lg.Info("deep", zap.Stack("again")) })
		})
		return c08Abs(3, 0, 0, 0, 0, 0, 4+8*n), "d", unexpected
	case 11: // direct use of the Encoder API: Clone, open namespaces, EncodeEntry, Free
		quiet(func() {
			var enc zapcore.Encoder = zapcore.NewJSONEncoder(c08Cfg())
			if f%2 == 1 {
				enc = zapcore.NewConsoleEncoder(c08Cfg())
			}
			cl := enc.Clone()
			cl.OpenNamespace("left-open")
			_ = cl.AddReflected("r", map[string]int{"q": 1})
			_ = cl.AddArray("arr", zapcore.ArrayMarshalerFunc(func(ae zapcore.ArrayEncoder) error {
				ae.AppendString("x")
				_ = ae.AppendReflected([]int{1})
				return errors.New("arr failed")
			}))
			buf, err := cl.Clone().EncodeEntry(zapcore.Entry{Message: "d", Stack: "s"}, c08Fields(a, b, c, d, e, f, 0))
			if err == nil {
				buf.Free()
			}
		})
		return c08Abs(2, a, b, c, d, e, f), "e", unexpected
	case 12: // checked entries that are never written; terminal hooks
		quiet(func() {
			lg, _, _, _ := c08Logger(sc, 0, false, false, false, zap.WithFatalHook(zapcore.WriteThenGoexit), zap.AddCaller())
			_ = lg.Check(zapcore.InfoLevel, "never written")
			l3, _, _, _ := c08Logger(sc, 0, true, true, true, zap.WithFatalHook(c08Hook{"returning fatal", sc}), zap.WithPanicHook(c08Hook{"returning panic", sc}))
			l3.Fatal("returning fatal", zap.Int("a", 1))
			l3.Panic("returning panic")
			if ce := lg.Check(zapcore.WarnLevel, "written twice"); ce != nil {
				ce.Write(zap.Int("n", 1))
			}
			done := make(chan struct{})
			var gp interface{}
			go func() {
				defer close(done)
				defer func() { gp = recover() }()
				lg.Fatal("goexit", zap.Reflect("r", 1))
			}()
			<-done
			if gp != nil {
				panic(gp)
			}
			func() {
				defer func() {
					if e := recover(); e != nil && fmt.Sprint(e) != "panics" {
						panic(e)
					}
				}()
				lg.Panic("panics", zap.Namespace("x"))
			}()
		})
		return c08Abs(3, 1, 1, 0, 1, 0, 2+8*2), "k", unexpected
	case 13: // loggers whose sinks are themselves active (log, hold buffers, block, yield inside Write)
		act := 1 + r.Intn(c08NActs-1)
		quiet(func() {
			lg, _, _, _ := c08Logger(sc, act, f%2 == 1, true, false, zap.AddCaller())
			lg.Info("hist through active sinks", c08Fields(a, b, c, d, e, f, 0)...)
			core := zapcore.NewCore(zapcore.NewConsoleEncoder(c08Cfg()), sc.sink(act, false), zapcore.DebugLevel)
			_ = core.With(c08Fields(1, 0, 0, 1, 0, 0, 0)).Write(zapcore.Entry{Message: "h"}, c08Fields(a, b, 0, 0, e, 0, 0))
			// terminal entries whose hooks are active too: they check which entry they are handed
			hk := &c08SeeHook{label: "hist", act: act, name: "hist-term", prefix: "hist term", sc: sc}
			lt, _, _, _ := c08Logger(sc, 0, f%2 == 0, false, false, zap.WithPanicHook(hk), zap.WithFatalHook(hk))
			lt = lt.Named("hist-term")
			lt.Panic("hist term panic", c08Fields(a, b, 0, 0, 0, 0, 0)...)
			if d > 0 {
				lt.Fatal("hist term fatal")
			}
			if e > 0 {
				c08Bare(core, zapcore.Entry{Level: zapcore.ErrorLevel, LoggerName: "hist-term", Message: "hist term bare"}, hk, nil, nil)
			}
		})
		return c08AbsH(3, a, b, c, d, e, 2+8*4, 2), "a", unexpected
	case 15: // entries that never pass through a zap.Logger: Check(ent, nil) + Write, After, AddCore, failing sinks, slog bridge
		fl := r.Intn(16)
		quiet(func() {
			good, bad := sc.sink(0, false), sc.sink(0, fl&1 != 0)
			var core zapcore.Core = zapcore.NewTee(zapcore.NewCore(zapcore.NewJSONEncoder(c08Cfg()), good, zapcore.DebugLevel),
				zapcore.NewCore(zapcore.NewConsoleEncoder(c08Cfg()), bad, zapcore.InfoLevel))
			if fl&4 != 0 {
				core = core.With(c08Fields(1, 0, 0, 1, 0, 0, 0))
			}
			var hook zapcore.CheckWriteHook
			if fl&2 != 0 {
				hook = c08Hook{"hist bare", sc} // a returning hook: it goes back to the pool with the entry
			}
			var extra zapcore.Core
			if fl&8 != 0 {
				extra = zapcore.NewCore(zapcore.NewJSONEncoder(c08Cfg()), sc.sink(0, f%2 == 1), zapcore.DebugLevel)
			}
			ent := zapcore.Entry{Level: zapcore.Level(r.Intn(4) - 1), Time: c08Clock{}.Now(), Message: "hist bare", LoggerName: "direct"}
			c08Bare(core, ent, hook, extra, c08Fields(a, b, c, d, e, f, 0))
			if fl&1 == 0 && fl&8 != 0 {
				h := zapslog.NewHandler(core, zapslog.WithCaller(fl&2 != 0))
				rec := slog.NewRecord(c08Clock{}.Now(), slog.LevelWarn, "hist slog", 0)
				rec.AddAttrs(slog.Int("a", a), slog.Group("g", slog.String("s", "t")))
				_ = h.WithAttrs([]slog.Attr{slog.String("ctx", "v")}).Handle(context.Background(), rec)
			}
		})
		return c08Abs(6, a, b, c, d, e, fl&3), "y", unexpected
	case c08KFamily: // an unusual or ordinary entry through a member of a long-lived logger family (c08_family.go)
		fd, fc := c08FamOp(sc, r, quiet)
		return fd, fc, unexpected
	case c08KEdge: // a logger whose caller skip lies beyond the stack logs 1..64 entries, maybe one GC (c08_burst.go)
		return c08EdgeHistOp(sc, r, a, b, quiet)
	case c08KNested: // other loggers' entries whose metadata callbacks record nested arrays / objects (c08_nested.go)
		nd, nc := c08NestedHistOp(sc, r, a, b, c, d, e, f, quiet)
		return nd, nc, unexpected
	case c08KHugeField, c08KHugeCtx, c08KHugeShape, c08KHugeDirect: // entries of 70 KiB .. 1 MiB (c08_huge.go)
		hd, hc, hu := c08HugeOp(sc, r, kind, quiet)
		if unexpected == "" {
			unexpected = hu
		}
		return hd, hc, unexpected
	default: // a burst of concurrent logging on other loggers
		var wg sync.WaitGroup
		for g := 0; g < 4; g++ {
			wg.Add(1)
			rr := r.Fork()
			go func() {
				defer wg.Done()
				for i := 0; i < 6; i++ {
					if _, _, u := c08HistOp(rr, rr.Intn(5)); u != "" {
						mu.Lock()
						unexpected = u
						mu.Unlock()
					}
				}
			}()
		}
		wg.Wait()
		return c08Abs(1, a, b, c, d, e, f), "x", unexpected
	}
}

func c08Adv(r *RNG, n int) SX {
	xs := make([]SX, n)
	for i := range xs {
		xs[i] = I(r.Intn(4))
	}
	return L(xs...)
}

func c08(c *Ctx) {
	c08Thorough = c.Thorough
	probes := c08Probes(c.Seed)
	// child mode: print the fresh bytes of one probe, as the first logging activity of the process
	if k := os.Getenv("C08_CHILD"); k != "" {
		id, _ := strconv.Atoi(k)
		out, pm, st := c08call(probes[id], 0)
		if pm != "" {
			out = []byte("PANIC " + pm)
		}
		if st != "" {
			out = append(out, []byte("<STALE "+st+">")...)
		}
		os.Stdout.Write([]byte(fmt.Sprintf("C08FRESH %x\n", out)))
		c.out.Flush()
		os.Exit(0)
	}
	// side-channel lines are written after the last case: the driver pairs verdicts with case
	// lines by position
	var side []func()
	info := func(k, v string) { side = append(side, func() { c.Info(k, v) }) }
	var sideMu sync.Mutex
	seenViol := map[string]bool{}
	violK := func(key, what string, replay SX) {
		sideMu.Lock()
		defer sideMu.Unlock()
		if seenViol[key] || len(seenViol) >= 6 { // one replay per distinct symptom is enough
			return
		}
		seenViol[key] = true
		side = append(side, func() { c.Viol(what, replay) })
	}
	viol := func(what string, replay SX) { violK(what, what, replay) }
	defer func() {
		for _, f := range side {
			f()
		}
	}()
	r := NewRNG(c.Seed)
	prev := runtime.GOMAXPROCS(1) // one P: sync.Pool reuse is LIFO and certain
	defer runtime.GOMAXPROCS(prev)

	fresh := make([][]byte, len(probes))
	emit := func(p *c08Probe, hist []SX, classes string, out []byte, class string, act int) {
		nt := "0"
		if (len(hist) > 0 && strings.Trim(classes, "g") != "") || act != 0 {
			nt = "1"
		}
		// what the probe's sinks did on other loggers while the probe ran is part of the history
		hist = append(append([]SX(nil), hist...), c08ActAbs(act)...)
		// the pooled model is run over the last operations of the history only (its cost grows
		// with the length; the real run saw the whole history)
		if len(hist) > 40 {
			hist = hist[len(hist)-40:]
		}
		in := L(I(p.kind), p.sx, B(fresh[p.id]), L(hist...), c08Adv(r, 12), p.abs, L(Str(c08ActNames[act]), I(act)))
		c.Emit(in, L(B(out)), map[string]string{"nt": nt, "class": class + ":" + p.label})
	}
	// a run that already shows many differences is cut short (a broken pool can make buffers
	// grow without bound); on correct code this never triggers
	mismatches := 0
	type c08Abort struct{}
	defer func() {
		if e := recover(); e != nil {
			if _, ok := e.(c08Abort); !ok {
				panic(e)
			}
			info("aborted_after_mismatches", strconv.Itoa(mismatches))
			if c08Hung.Load() {
				info("aborted_after_hang", "a log call of a concurrent burst did not return")
			}
		}
	}()
	observe := func(p *c08Probe, hist []SX, classes string, class string, act int) {
		if mismatches > 150 {
			panic(c08Abort{})
		}
		out, pm, st := c08call(p, act)
		if st != "" {
			// per-entry state of a pooled object outlived its entry: the probe made bytes appear on a
			// sink (or fired a hook) of an unrelated, earlier logger
			out = append(out, []byte("<STALE "+st+">")...)
		}
		if !bytes.Equal(out, fresh[p.id]) {
			mismatches++
			// runaway output (buffers that are never reset): keep the case, and the run, small
			if lim := 2*len(fresh[p.id]) + 1<<16; len(out) > lim {
				out = append(out[:lim:lim], []byte(fmt.Sprintf("...[%d bytes in all]", len(out)))...)
				mismatches += 9
			}
		}
		if pm != "" {
			violK("panic "+p.label+": "+pm, "probe "+p.label+" ("+c08ActNames[act]+") panicked after history ["+classes+"]: "+pm, L(I(p.id), I(act), L(hist...)))
			out = []byte("PANIC " + pm)
		}
		emit(p, hist, classes, out, class, act)
		if c08Hung.Load() {
			// a goroutine of the burst is spinning inside zap for good: the case is on record, the run ends here
			panic(c08Abort{})
		}
	}

	// fresh observations: pools emptied by two collections before each probe
	for _, p := range probes {
		runtime.GC()
		runtime.GC()
		out, pm, st := c08call(p, 0)
		if pm != "" {
			violK("panic "+p.label+": "+pm, "probe "+p.label+" panicked in a fresh state: "+pm, L(I(p.id)))
			out = []byte("PANIC " + pm)
		}
		if st != "" {
			viol("probe "+p.label+" in a fresh state: "+st, L(I(p.id)))
		}
		fresh[p.id] = out
	}
	// the same probes in a fresh child process (nothing at all has been logged there)
	nchild := 0
	if exe, err := os.Executable(); err == nil {
		for _, p := range probes {
			cmd := exec.Command(exe, "C08", "-seed", strconv.FormatUint(c.Seed, 10))
			cmd.Env = append(os.Environ(), "C08_CHILD="+strconv.Itoa(p.id))
			res, err := cmd.Output()
			if err != nil {
				info("child_error", strings.ReplaceAll(err.Error(), "\t", " "))
				continue
			}
			idx := bytes.Index(res, []byte("C08FRESH "))
			if idx < 0 {
				continue
			}
			var got []byte
			fmt.Sscanf(string(res[idx+9:]), "%x", &got)
			nchild++
			// history = "everything the parent did before": emitted as a case of its own
			emit(p, []SX{c08Abs(5, 0, 0, 0, 0, 0, 0)}, "g", got, "child", 0)
		}
	}
	info("child_probes", strconv.Itoa(nchild))

	// directed: every history operation kind (three times, to fill the pools) before every probe
	for k := 0; k < c08NKinds; k++ {
		for _, p := range probes {
			runtime.GC()
			runtime.GC()
			var hist []SX
			cls := ""
			for rep := 0; rep < 3; rep++ {
				if k == 5 && rep > 0 {
					break
				}
				if k >= c08KHugeField && k <= c08KHugeDirect {
					c08SizePlan = c08HugeSizes[rep] // 70 KiB, 200 KiB, 1 MiB
					if rep == 2 && (p.id+k+int(c.Seed))%2 == 1 && !c.Thorough {
						c08SizePlan = 400 << 10 // quick tier: the 1 MiB entry before every other probe
					}
				}
				h, cl, u := c08HistOp(r, k)
				c08SizePlan = 0
				hist = append(hist, h)
				cls += cl
				if u != "" {
					viol(u, L(I(k), L(hist...)))
				}
			}
			observe(p, hist, cls, "pair", 0)
		}
	}
	// shared configuration: every unusual entry through every member of a long-lived family, each followed
	// by the identical calls of that family's probe (the families are never rebuilt: whatever an entry
	// leaves behind in the configuration its relatives share stays there)
	for fi, label := range []string{"family-json-shared-config", "family-console-shared-config"} {
		var fp *c08Probe
		for _, p := range probes {
			if p.label == label {
				fp = p
			}
		}
		if fp == nil {
			continue
		}
		for v := 0; v < c08NFamVariants; v++ {
			for m := 0; m < c08NFamMembers; m++ {
				c08FamPlan = &[3]int{fi, m, v}
				h, cl, u := c08HistOp(r, c08KFamily)
				c08FamPlan = nil
				if u != "" {
					viol(u, L(I(c08KFamily), L(h)))
				}
				observe(fp, []SX{h}, cl, "family", 0)
			}
		}
	}
	// oversize operations with a collection between them and the probe: after ONE runtime.GC() the
	// objects sit in sync.Pool's victim cache and are still handed out, after two the pools are empty
	for k := c08KHugeField; k <= c08KHugeDirect; k++ {
		for _, p := range probes {
			if (p.id+k+int(c.Seed))%3 != 0 && !c.Thorough { // quick tier: a third of the probes per kind, rotating with the seed
				continue
			}
			for gcs := 1; gcs <= 2; gcs++ {
				runtime.GC()
				runtime.GC()
				var hist []SX
				cls := ""
				for rep := 0; rep < 2; rep++ {
					c08SizePlan = c08HugeSizes[(p.id+k+rep+gcs)%len(c08HugeSizes)]
					h, cl, u := c08HistOp(r, k)
					c08SizePlan = 0
					hist = append(hist, h)
					cls += cl
					if u != "" {
						viol(u, L(I(k), L(hist...)))
					}
				}
				runtime.GC()
				if gcs == 2 {
					runtime.GC()
					hist = append(hist, c08Abs(5, 0, 0, 0, 0, 0, 0))
					cls += "g"
				}
				observe(p, hist, cls, "pair-gc"+strconv.Itoa(gcs), 0)
			}
		}
	}
	// edge preludes (and every other kind of history operation) followed by a full-size concurrent burst,
	// with the number of Ps set before the history (c08_burst.go)
	t0 := time.Now()
	c08EdgeStage(c.Seed, c.Thorough, r, probes, viol, observe)
	info("edge_stage_ms", strconv.FormatInt(time.Since(t0).Milliseconds(), 10))
	// probe after probe (each probe is also a history for every other one)
	for _, p := range probes {
		for _, q := range probes {
			if _, _, st := c08call(p, 0); st != "" {
				viol("probe "+p.label+" (as history): "+st, L(I(p.id)))
			}
			observe(q, []SX{p.abs}, "q", "probe-pair", 0)
		}
	}
	// active sinks: every kind of activity inside Write x every probe, (i) on empty pools (whatever
	// the probe released last is what the activity is handed), (ii) on pools filled by a few history
	// operations, (iii) thorough tier: with four Ps
	for act := 1; act < c08NActs; act++ {
		for _, p := range probes {
			runtime.GC()
			runtime.GC()
			observe(p, nil, "", "active-"+c08ActNames[act], act)
			var hist []SX
			cls := ""
			for rep := 0; rep < 3; rep++ {
				h, cl, u := c08HistOp(r, r.Intn(5))
				hist = append(hist, h)
				cls += cl
				if u != "" {
					viol(u, L(L(hist...)))
				}
			}
			observe(p, hist, cls, "active-"+c08ActNames[act], act)
			if c.Thorough {
				runtime.GOMAXPROCS(4)
				observe(p, hist, cls, "active4-"+c08ActNames[act], act)
				runtime.GOMAXPROCS(1)
			}
		}
	}

	// random histories
	nh, maxOps, points := 170, 60, 5
	if c.Thorough {
		nh, maxOps, points = 800, 200, 8
	}
	for h := 0; h < nh; h++ {
		if h%7 == 6 {
			runtime.GOMAXPROCS(4)
		} else {
			runtime.GOMAXPROCS(1)
		}
		if r.Chance(50) {
			runtime.GC()
			runtime.GC()
		}
		var hist []SX
		cls := ""
		n := 1 + r.Intn(maxOps)
		at := map[int]bool{n - 1: true}
		for i := 0; i < points-1; i++ {
			at[r.Intn(n)] = true
		}
		// thorough tier: other goroutines keep logging through other loggers while the probes run
		stop := make(chan struct{})
		var wg sync.WaitGroup
		bg := c.Thorough && h%3 == 0
		if bg {
			runtime.GOMAXPROCS(4)
			for g := 0; g < 3; g++ {
				wg.Add(1)
				rr := r.Fork()
				go func() {
					defer wg.Done()
					for {
						select {
						case <-stop:
							return
						default:
							if _, _, u := c08HistOp(rr, rr.Intn(14)); u != "" {
								viol("background: "+u, L())
							}
						}
					}
				}()
			}
		}
		for i := 0; i < n; i++ {
			k := r.Intn(c08NKinds)
			if r.Chance(40) {
				k = r.Intn(5) // the cheap, pool-heavy kinds dominate
			}
			if k >= c08KHugeField && k <= c08KHugeDirect && !c.Thorough && r.Chance(55) {
				k = r.Intn(5) // quick tier: a handful of oversize operations per history
			}
			if r.Chance(6) {
				k = c08KFamily // the long-lived families keep logging (every twelfth operation or so)
			}
			x, cl, u := c08HistOp(r, k)
			hist = append(hist, x)
			cls += cl
			if u != "" {
				viol(u, L(I(k), L(hist...)))
			}
			if at[i] {
				for j := 0; j < 3; j++ {
					p := probes[r.Intn(len(probes))]
					cl2 := "random"
					if bg {
						cl2 = "concurrent"
					}
					act := 0
					if r.Chance(50) {
						act = 1 + r.Intn(c08NActs-1)
						cl2 += "-active"
					}
					if p.label == c08BurstLabel && act == 0 && runtime.GOMAXPROCS(0) > 1 {
						// several Ps since the beginning of this history: a burst of medium size
						c08BurstPlan = &c08BurstCfg{g: 2 + r.Intn(7), n: 500 + r.Intn(1000), first: r.Intn(c08NWorkers)}
					}
					observe(p, hist, cls, cl2, act)
					c08BurstPlan = nil
				}
			}
		}
		close(stop)
		wg.Wait()
	}
	info("probes", strconv.Itoa(len(probes)))
}

func init() { registry["C08"] = c08 }

package main

// C16, concurrent phase.
//
// The Coq model of the console encoder is a pure function of (configuration, With-chain, entry, fields)
// (C16_line_function / C16_interleaving_independent in coq/theories/Props/C16.v): whatever else is being
// encoded at the same time - through the same encoder object, through With-children of it, or through
// unrelated encoders that merely share zap's process-wide pools (the column collector sliceArrayEncoder,
// the JSON clone used for the context, the line buffers) - every line must be byte-for-byte the line of its
// own case.  The sequential phase in c16.go encodes every case on ONE goroutine, so a pooled object that is
// published while its previous owner still touches it (reset after Put, use after Put, a clone that shares
// its parent's scratch state) never shows there.
//
// Here G goroutines (2..16, occasionally oversubscribed) encode their own, distinct generated cases at the
// same time, in rounds.  A round has one sharing mode:
//
//	core     one real ioCore (With-chain through Core.With) and ONE sink shared by all goroutines
//	enc      one Encoder object shared by G ioCores (one private sink each)
//	kids     every goroutine derives its own With-child (Core.With) of one shared parent encoder,
//	         re-deriving it while the others encode
//	indep    independent configurations and encoders; only zap's global pools are shared
//
// and one scheduling flavour:
//
//	free     GOMAXPROCS at its default, free-running goroutines
//	light    the same, with ONE runtime.Gosched() per encode placed inside the configured sub-encoder chosen
//	         for the round (i.e. while the console encoder holds its pooled column collector) and one between
//	         every few encodes: more collectors are in flight than there are Ps, so sync.Pool keeps spilling
//	         to and stealing from its shared queues - the paths on which a pooled object changes hands
//	         between goroutines (measured: this flavour makes a hand-over race show several times a second)
//	heavy    a Gosched around every sub-encoder and every top-level object/array marshaler (the latter run
//	         while the encoder holds its pooled JSON clone)
//	onep     GOMAXPROCS(1) with the heavy yields (pool reuse is then LIFO and certain)
//
// The wrapped sub-encoders append exactly what the wrapped built-in appends, so the case is unchanged for
// the model.
//
// Every produced line is compared with the line the SAME case produced sequentially on a fresh encoder;
// that reference line is emitted as an ordinary case and judged by the model and the oracle.  A concurrent
// line equal to its reference has, the model being a function of the case alone, the reference's verdict,
// so only lines that differ (all of them, up to a bound) plus the last line of two goroutines per round are
// emitted - each as an ordinary (case, observation) row judged by the same model/spec.

import (
	"bytes"
	"fmt"
	"runtime"
	"strconv"
	"sync"
	"sync/atomic"
	"time"

	"go.uber.org/zap/zapcore"
)

const (
	concCore = iota
	concEnc
	concKids
	concIndep
	concModes
)

var concModeNames = [...]string{"core", "enc", "kids", "indep"}

const (
	c16schedFree = iota
	c16schedLight
	c16schedHeavy
	c16schedOneP
)

var concSchedNames = [...]string{"free", "light", "heavy", "onep"}

// where the one yield of a light round sits
const (
	c16yTimeBefore = iota
	c16yTimeAfter
	c16yLevel
	c16yName
	c16yCallerBefore
	c16yCallerAfter
	c16yAll // heavy, onep
)

type concCase struct {
	ec     *encCase
	ref    []byte          // line of this case encoded alone on a fresh encoder
	fields []zapcore.Field // ec.fields, top-level marshalers wrapped when the round yields
	hits   int64           // shared-sink mode: lines equal to ref seen so far
}

type concBad struct {
	cc   *concCase
	line []byte // nil: no line at all
	what string
}

type concUnit struct { // one goroutine's share of a round
	cfg   *encCfg
	ctxs  [][]zapcore.Field // full With-chain of this unit's cases
	own   int               // kids: the last `own` levels are derived by the goroutine itself
	cases []*concCase
	sink  *concSink
	core  zapcore.Core
	bad   []concBad
	// sample: the last line produced for cases[0]
	sample []byte
	n      int64
	pmsg   string
}

// private sink: compares in place, copies only what differs
type concSink struct {
	u      *concUnit
	cur    *concCase
	writes int
	keep   bool
}

func (*concSink) Sync() error { return nil }
func (s *concSink) Write(p []byte) (int, error) {
	s.writes++
	if !bytes.Equal(p, s.cur.ref) {
		if len(s.u.bad) < 6 {
			s.u.bad = append(s.u.bad, concBad{cc: s.cur, line: append([]byte{}, p...), what: "line differs from the sequential line of the same case"})
		}
	} else if s.keep {
		s.u.sample = append(s.u.sample[:0], p...)
	}
	return len(p), nil
}

// shared sink (mode core): no goroutine identity is available inside Write, so lines are recognised by
// content: the reference lines of a round are pairwise distinct and each belongs to exactly one goroutine
type concSharedSink struct {
	refs map[string]*concCase
	mu   sync.Mutex
	bad  [][]byte
}

func (*concSharedSink) Sync() error { return nil }
func (s *concSharedSink) Write(p []byte) (int, error) {
	if cc, ok := s.refs[string(p)]; ok {
		atomic.AddInt64(&cc.hits, 1)
		return len(p), nil
	}
	s.mu.Lock()
	if len(s.bad) < 64 {
		s.bad = append(s.bad, append([]byte{}, p...))
	}
	s.mu.Unlock()
	return len(p), nil
}
func (s *concSharedSink) take() ([]byte, bool) {
	s.mu.Lock()
	defer s.mu.Unlock()
	if len(s.bad) == 0 {
		return nil, false
	}
	b := s.bad[0]
	s.bad = s.bad[1:]
	return b, true
}

// ---- yielding wrappers: same appends as the wrapped built-in, plus a reschedule while the console
// encoder holds its pooled column collector (sub-encoders) or its pooled JSON clone (marshalers) ----

func concYieldCfg(ec zapcore.EncoderConfig, pos int) zapcore.EncoderConfig {
	at := func(p int) {
		if pos == p || pos == c16yAll {
			runtime.Gosched()
		}
	}
	if f := ec.EncodeTime; f != nil {
		ec.EncodeTime = func(t time.Time, a zapcore.PrimitiveArrayEncoder) {
			at(c16yTimeBefore)
			f(t, a)
			at(c16yTimeAfter)
		}
	}
	if f := ec.EncodeLevel; f != nil {
		ec.EncodeLevel = func(l zapcore.Level, a zapcore.PrimitiveArrayEncoder) {
			f(l, a)
			at(c16yLevel)
		}
	}
	if f := ec.EncodeName; f != nil {
		ec.EncodeName = func(n string, a zapcore.PrimitiveArrayEncoder) {
			f(n, a)
			at(c16yName)
		}
	}
	if f := ec.EncodeCaller; f != nil {
		ec.EncodeCaller = func(c zapcore.EntryCaller, a zapcore.PrimitiveArrayEncoder) {
			at(c16yCallerBefore)
			f(c, a)
			at(c16yCallerAfter)
		}
	}
	if f := ec.EncodeDuration; f != nil && pos == c16yAll {
		ec.EncodeDuration = func(d time.Duration, a zapcore.PrimitiveArrayEncoder) {
			runtime.Gosched()
			f(d, a)
		}
	}
	return ec
}

// a yield position whose sub-encoder the console encoder really calls under this configuration
func concYieldPos(r *RNG, c *encCfg) int {
	var ok []int
	if len(c.keys[2]) > 0 && c.tim > 0 {
		ok = append(ok, c16yTimeBefore, c16yTimeAfter)
	}
	if len(c.keys[1]) > 0 && c.lvl > 0 {
		ok = append(ok, c16yLevel)
	}
	if len(c.keys[3]) > 0 && c.nam > 0 {
		ok = append(ok, c16yName)
	}
	if len(c.keys[4]) > 0 && c.cal > 0 {
		ok = append(ok, c16yCallerBefore, c16yCallerAfter)
	}
	if len(ok) == 0 {
		return c16yTimeBefore
	}
	return ok[r.Intn(len(ok))]
}

type c16yieldObj struct{ m zapcore.ObjectMarshaler }

func (y c16yieldObj) MarshalLogObject(e zapcore.ObjectEncoder) error {
	runtime.Gosched()
	err := y.m.MarshalLogObject(e)
	runtime.Gosched()
	return err
}

type c16yieldArr struct{ m zapcore.ArrayMarshaler }

func (y c16yieldArr) MarshalLogArray(e zapcore.ArrayEncoder) error {
	runtime.Gosched()
	err := y.m.MarshalLogArray(e)
	runtime.Gosched()
	return err
}

func concYieldFields(fs []zapcore.Field) []zapcore.Field {
	out := make([]zapcore.Field, len(fs))
	copy(out, fs)
	for i := range out {
		switch out[i].Type {
		case zapcore.ObjectMarshalerType, zapcore.InlineMarshalerType:
			if m, ok := out[i].Interface.(zapcore.ObjectMarshaler); ok && m != nil {
				out[i].Interface = c16yieldObj{m}
			}
		case zapcore.ArrayMarshalerType:
			if m, ok := out[i].Interface.(zapcore.ArrayMarshaler); ok && m != nil {
				out[i].Interface = c16yieldArr{m}
			}
		}
	}
	return out
}

// ---- generation ----

func concGenCfg(r *RNG) *encCfg {
	c := genCfg(r)
	switch x := r.Intn(100); {
	case x < 35: // every column present, built-in sub-encoders: the collector carries 5 columns
		c.keys = [7][]byte{[]byte("M"), []byte("L"), []byte("T"), []byte("N"), []byte("C"), []byte("F"), []byte("S")}
		c.lvl, c.tim, c.cal, c.nam = 2+r.Intn(4), 2+r.Intn(7), 2+r.Intn(2), 2
		if c.dur < 2 {
			c.dur = 2 + r.Intn(4)
		}
	case x < 55: // production-like
		c.keys = [7][]byte{[]byte("msg"), []byte("level"), []byte("ts"), []byte("logger"), []byte("caller"), nil, []byte("stacktrace")}
		c.lvl, c.tim, c.dur, c.cal, c.nam = 2, timEpoch, durSeconds, 3, 2
	}
	return c
}

func concGenCtx(r *RNG, c *encCfg, levels int, flags *genState) ([][]zapcore.Field, []SX) {
	var ctxs [][]zapcore.Field
	var ctxx []SX
	for i := 0; i < levels; i++ {
		g := &genState{r: r, cfg: c, size: 5}
		fs, xs := g.fields(r.Range(1, 3), 2)
		ctxs = append(ctxs, fs)
		ctxx = append(ctxx, L(xs...))
		flags.nested = flags.nested || g.nested
		flags.nsp = flags.nsp || g.nsp
		flags.esc = flags.esc || g.esc
		flags.fault = flags.fault || g.fault
	}
	return ctxs, ctxx
}

// one small case over a given configuration and With-chain
func concGenCase(r *RNG, c *encCfg, ctxs [][]zapcore.Field, ctxx []SX, cflags *genState, tag string) *encCase {
	g := &genState{r: r, cfg: c, size: 6}
	ent, ex := genEntry(r, c)
	if r.Chance(70) { // mostly complete entries: every column collected
		if ent.Time.IsZero() || ent.LoggerName == "" || !ent.Caller.Defined {
			if ent.Time.IsZero() {
				ent.Time = time.Unix(int64(1+r.Intn(2000000000)), int64(r.Intn(1000000000))).In(locs[r.Intn(len(locs))])
			}
			if ent.LoggerName == "" {
				ent.LoggerName = "lg" + strconv.Itoa(r.Intn(1000))
			}
			if !ent.Caller.Defined {
				ent.Caller = zapcore.EntryCaller{Defined: true, File: "/pkg/sub/f" + strconv.Itoa(r.Intn(100)) + ".go", Line: 1 + r.Intn(900), Function: "sub.Fn" + strconv.Itoa(r.Intn(100))}
			}
			ex = concEntrySX(c, ent)
		}
	}
	nf := 0
	if r.Chance(55) {
		nf = r.Range(1, 3)
	}
	fs, xs := g.fields(nf, 2)
	ec := &encCase{cfg: c, ctxs: ctxs, ent: ent, fields: fs}
	ec.sx = L(c.sx(), L(ctxx...), ex, L(xs...))
	nt := "0"
	nested, nsp, esc, fault := g.nested || cflags.nested, g.nsp || cflags.nsp, g.esc || cflags.esc, g.fault || cflags.fault
	if nested || nsp || esc || c.lvl < 2 || c.tim < 2 || c.dur < 2 || c.cal < 2 || c.nam < 2 {
		nt = "1"
	}
	cls := "conc-"
	for _, p := range []struct {
		b bool
		s string
	}{{nested, "N"}, {nsp, "S"}, {esc, "E"}, {fault, "F"}, {len(ctxs) > 0, "W"}, {c.tim == timLayout, "L"}} {
		if p.b {
			cls += p.s
		}
	}
	if cls == "conc-" {
		cls = "conc-plain"
	}
	ec.meta = map[string]string{"nt": nt, "class": cls, "conc": tag}
	return ec
}

// the entry part of the wire case, for an entry completed after genEntry (same oracle values as genEntry)
func concEntrySX(c *encCfg, e zapcore.Entry) SX {
	callerText := ""
	full := "undefined"
	if e.Caller.Defined {
		full = e.Caller.File + ":" + strconv.Itoa(e.Caller.Line)
		switch c.cal {
		case 2:
			callerText = full
		case 3:
			callerText = trimmedPath(e.Caller.File, e.Caller.Line)
		}
	}
	return L(Str(c.levelText(e.Level)), Str(levelString(e.Level)), Bool(e.Time.IsZero()), c.tvOf(e.Time), B(c.timeCol(e.Time)),
		Str(e.LoggerName), Bool(e.Caller.Defined), Str(callerText), Str(full), Str(e.Caller.Function), Str(e.Message), Str(e.Stack))
}

// ---- one round ----

type concRound struct {
	mode, sched, g int
	ypos           int // light rounds: where the one yield sits
	units          []*concUnit
	shared         *concSharedSink
}

func (rd *concRound) tag() string {
	return fmt.Sprintf("%s/%s/g%d", concModeNames[rd.mode], concSchedNames[rd.sched], rd.g)
}

func concGenRound(c *Ctx, r *RNG, mode, sched, g, perUnit int) *concRound {
	rd := &concRound{mode: mode, sched: sched, g: g}
	tag := rd.tag()
	seen := map[string]bool{}
	var cfg *encCfg
	var base [][]zapcore.Field
	var basex []SX
	flags := &genState{}
	if mode != concIndep {
		cfg = concGenCfg(r)
		lv := 0
		if r.Chance(50) {
			lv = r.Range(1, 2)
		}
		base, basex = concGenCtx(r, cfg, lv, flags)
		rd.ypos = concYieldPos(r, cfg)
	} else {
		rd.ypos = r.Intn(c16yAll)
	}
	for u := 0; u < g; u++ {
		un := &concUnit{cfg: cfg}
		ucfg, uctx, uctxx := cfg, base, basex
		uflags := &genState{nested: flags.nested, nsp: flags.nsp, esc: flags.esc, fault: flags.fault}
		switch mode {
		case concIndep:
			ucfg = concGenCfg(r)
			lv := 0
			if r.Chance(40) {
				lv = r.Range(1, 2)
			}
			uctx, uctxx = concGenCtx(r, ucfg, lv, uflags)
		case concKids:
			own, ownx := concGenCtx(r, cfg, r.Range(1, 2), uflags)
			uctx = append(append([][]zapcore.Field{}, base...), own...)
			uctxx = append(append([]SX{}, basex...), ownx...)
			un.own = len(own)
		}
		un.cfg, un.ctxs = ucfg, uctx
		for tries := 0; len(un.cases) < perUnit && tries < 4*perUnit; tries++ {
			ec := concGenCase(r.Fork(), ucfg, uctx, uctxx, uflags, tag)
			ref, pmsg, panicked := ec.runJSON(true)
			if panicked {
				c.Viol("a panic escaped the console encoder: "+pmsg, ec.sx)
				c.Emit(ec.sx, L(), ec.meta)
				continue
			}
			if seen[string(ref)] { // the shared sink recognises lines by content
				continue
			}
			seen[string(ref)] = true
			m := map[string]string{}
			for k, v := range ec.meta {
				m[k] = v
			}
			m["conc"] = "ref:" + tag
			c.Emit(ec.sx, L(B(ref)), m)
			cc := &concCase{ec: ec, ref: ref, fields: ec.fields}
			if sched == c16schedHeavy || sched == c16schedOneP {
				cc.fields = concYieldFields(ec.fields)
			}
			un.cases = append(un.cases, cc)
		}
		if len(un.cases) > 0 {
			rd.units = append(rd.units, un)
		}
	}
	return rd
}

func concChain(core zapcore.Core, ctxs [][]zapcore.Field) zapcore.Core {
	for _, fs := range ctxs {
		core = core.With(fs)
	}
	return core
}

// builds the real encoders/cores of a round
func (rd *concRound) build() {
	real := func(c *encCfg) zapcore.EncoderConfig {
		ec := c.real()
		switch rd.sched {
		case c16schedLight:
			ec = concYieldCfg(ec, rd.ypos)
		case c16schedHeavy, c16schedOneP:
			ec = concYieldCfg(ec, c16yAll)
		}
		return ec
	}
	lvl := zapcore.Level(-128)
	switch rd.mode {
	case concCore:
		rd.shared = &concSharedSink{refs: map[string]*concCase{}}
		for _, u := range rd.units {
			for _, cc := range u.cases {
				rd.shared.refs[string(cc.ref)] = cc
			}
		}
		core := concChain(zapcore.NewCore(zapcore.NewConsoleEncoder(real(rd.units[0].cfg)), rd.shared, lvl), rd.units[0].ctxs)
		for _, u := range rd.units {
			u.core = core
		}
	case concEnc:
		// ioCore.With is Clone + addFields on the clone; the same steps here give ONE encoder object carrying
		// the context, which G cores then share
		enc := zapcore.NewConsoleEncoder(real(rd.units[0].cfg))
		for _, fs := range rd.units[0].ctxs {
			enc = enc.Clone()
			for i := range fs {
				fs[i].AddTo(enc)
			}
		}
		for _, u := range rd.units {
			u.sink = &concSink{u: u}
			u.core = zapcore.NewCore(enc, u.sink, lvl)
		}
	case concKids:
		enc := zapcore.NewConsoleEncoder(real(rd.units[0].cfg))
		for _, u := range rd.units {
			u.sink = &concSink{u: u}
			// the shared part of the chain now, the unit's own levels inside its goroutine
			u.core = concChain(zapcore.NewCore(enc, u.sink, lvl), u.ctxs[:len(u.ctxs)-u.own])
		}
	case concIndep:
		for _, u := range rd.units {
			u.sink = &concSink{u: u}
			u.core = concChain(zapcore.NewCore(zapcore.NewConsoleEncoder(real(u.cfg)), u.sink, lvl), u.ctxs)
		}
	}
}

var concStop int32

func (rd *concRound) run(iters int, deadline time.Time) (encodes int64) {
	rd.build()
	if rd.sched == c16schedOneP {
		prev := runtime.GOMAXPROCS(1)
		defer runtime.GOMAXPROCS(prev)
	}
	var wg sync.WaitGroup
	start := make(chan struct{})
	atomic.StoreInt32(&concStop, 0)
	for _, u := range rd.units {
		wg.Add(1)
		go func(u *concUnit) {
			defer wg.Done()
			defer func() {
				if e := recover(); e != nil {
					u.pmsg = fmt.Sprint(e)
				}
			}()
			<-start
			parent := u.core
			core := parent
			own := u.ctxs[len(u.ctxs)-u.own:]
			if u.own > 0 {
				core = concChain(parent, own)
			}
			nc := len(u.cases)
			for it := 0; it < iters; it++ {
				if it&255 == 255 {
					if atomic.LoadInt32(&concStop) != 0 {
						break
					}
					if time.Now().After(deadline) {
						atomic.StoreInt32(&concStop, 1)
						break
					}
					if u.own > 0 { // derive the child again while the siblings encode through theirs
						core = concChain(parent, own)
					}
				}
				cc := u.cases[it%nc]
				var h0 int64
				if u.sink != nil {
					u.sink.cur = cc
					u.sink.writes = 0
					u.sink.keep = it%nc == 0 && it+nc >= iters
				} else {
					h0 = atomic.LoadInt64(&cc.hits)
				}
				err := core.Write(cc.ec.ent, cc.fields)
				u.n++
				if err != nil && len(u.bad) < 6 {
					u.bad = append(u.bad, concBad{cc: cc, what: "core.Write error: " + err.Error()})
				}
				if u.sink != nil {
					if u.sink.writes != 1 && len(u.bad) < 6 {
						u.bad = append(u.bad, concBad{cc: cc, what: fmt.Sprintf("%d writes for one entry", u.sink.writes)})
					}
				} else if atomic.LoadInt64(&cc.hits) != h0+1 && len(u.bad) < 6 {
					// this goroutine's line is not among the round's expected lines (each of this unit's
					// reference lines is produced by this goroutine only): it is one of the unrecognised lines
					line, ok := rd.shared.take()
					if ok {
						u.bad = append(u.bad, concBad{cc: cc, line: line, what: "line is none of the round's expected lines"})
					} else {
						u.bad = append(u.bad, concBad{cc: cc, what: "the entry's line did not reach the sink exactly once"})
					}
				}
				if rd.sched != c16schedFree && it&7 == 7 {
					runtime.Gosched()
				}
			}
		}(u)
	}
	close(start)
	wg.Wait()
	for _, u := range rd.units {
		encodes += u.n
	}
	return encodes
}

// emits the round's rows; reports whether anything differed
func (rd *concRound) emit(c *Ctx) bool {
	badSeen := false
	tag := rd.tag()
	meta := func(cc *concCase, kind string) map[string]string {
		m := map[string]string{}
		for k, v := range cc.ec.meta {
			m[k] = v
		}
		m["conc"] = kind + ":" + tag
		return m
	}
	panicked := 0
	for _, u := range rd.units {
		if u.pmsg != "" {
			panicked++
		}
	}
	reported := false
	for _, u := range rd.units {
		if u.pmsg != "" && !reported { // one report per round
			reported = true
			c.Viol(fmt.Sprintf("a panic escaped the console encoder under concurrent use (%s, %d of %d goroutines): %s", tag, panicked, len(rd.units), u.pmsg), u.cases[0].ec.sx)
		}
		badSeen = badSeen || u.pmsg != ""
		for _, b := range u.bad {
			badSeen = true
			obs := L()
			if b.line != nil {
				obs = L(B(b.line))
			}
			m := meta(b.cc, "diff")
			m["what"] = c16SanitizeMeta(b.what)
			c.Emit(b.cc.ec.sx, obs, m)
		}
	}
	if rd.shared != nil {
		// unrecognised lines nobody claimed: judged against the first case of the round
		for _, line := range rd.shared.bad {
			badSeen = true
			m := meta(rd.units[0].cases[0], "diff")
			m["what"] = "unclaimed-line-that-is-none-of-the-rounds-expected-lines"
			c.Emit(rd.units[0].cases[0].ec.sx, L(B(line)), m)
		}
		// every expected line must have been seen once per encode
		for _, u := range rd.units {
			var sum int64
			for _, cc := range u.cases {
				sum += cc.hits
			}
			if sum != u.n && len(u.bad) == 0 {
				badSeen = true
				m := meta(u.cases[0], "diff")
				m["what"] = fmt.Sprintf("%d-encodes-but-%d-expected-lines", u.n, sum)
				c.Emit(u.cases[0].ec.sx, L(), m)
			}
		}
		if !badSeen {
			for _, u := range rd.sampled() { // sample: the line was recognised by content, so it IS ref
				if u.cases[0].hits > 0 {
					c.Emit(u.cases[0].ec.sx, L(B(u.cases[0].ref)), meta(u.cases[0], "sample"))
				}
			}
		}
		return badSeen
	}
	for _, u := range rd.sampled() {
		if u.sample != nil {
			c.Emit(u.cases[0].ec.sx, L(B(u.sample)), meta(u.cases[0], "sample"))
		}
	}
	return badSeen
}

// the units whose last line is emitted as the round's sample
func (rd *concRound) sampled() []*concUnit {
	return []*concUnit{rd.units[0], rd.units[len(rd.units)-1]}
}

func c16SanitizeMeta(s string) string {
	b := []byte(s)
	for i, ch := range b {
		if ch == ',' || ch == '=' || ch == '\t' || ch == '\n' || ch == ' ' {
			b[i] = '-'
		}
	}
	return string(b)
}

// the plan of round i: sharing mode, scheduling flavour, number of goroutines, encodes per goroutine
func concPlan(i int, r *RNG) (mode, sched, g, iters int) {
	mode = i % concModes
	sched = [...]int{c16schedLight, c16schedFree, c16schedLight, c16schedHeavy, c16schedLight, c16schedLight, c16schedOneP, c16schedLight}[(i/concModes)%8]
	switch x := r.Intn(100); {
	case x < 22:
		g = 2 + r.Intn(10) // 2..11
	case x < 78:
		g = 12 + r.Intn(5) // 12..16: about one goroutine per P
	default:
		g = 24 + 8*r.Intn(4) // oversubscribed: 24, 32, 40, 48
	}
	switch sched {
	case c16schedLight:
		iters = 12000
	case c16schedFree:
		iters = 24000
	case c16schedHeavy:
		iters = 2000
	default:
		iters = 1500
		if g > 16 {
			g = 2 + r.Intn(15)
		}
	}
	return
}

func c16Concurrent(c *Ctx) {
	r := NewRNG(c.Seed ^ 0xC16C0)
	rounds, scale, budget := 96, 1, 45*time.Second
	if c.Thorough {
		rounds, scale, budget = 96*12, 2, 30*time.Minute
	}
	deadline := time.Now().Add(budget)
	var total int64
	done, diffRounds := 0, 0
	for i := 0; i < rounds; i++ {
		mode, sched, g, iters := concPlan(i, r)
		per := 3
		if g > 16 {
			per = 2
		}
		rd := concGenRound(c, r.Fork(), mode, sched, g, per)
		if len(rd.units) < 2 {
			continue
		}
		if time.Now().After(deadline) {
			break
		}
		total += rd.run(iters*scale, deadline)
		done++
		if rd.emit(c) {
			diffRounds++
			if diffRounds >= 3 { // decided; the rows are in
				break
			}
		}
	}
	c.Info("conc_rounds", fmt.Sprint(done))
	c.Info("conc_encodes", fmt.Sprint(total))
	c.Info("conc_rounds_with_differences", fmt.Sprint(diffRounds))
}

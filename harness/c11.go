package main

import (
	"encoding/json"
	"fmt"
	"math"
	"net/url"
	"runtime"
	"sort"
	"strings"
	"sync"
	"sync/atomic"
	"time"

	"go.uber.org/zap"
	"go.uber.org/zap/zapcore"
	"go.uber.org/zap/zaptest/observer"
)

// C11: zapcore.NewSamplerWithOptions over an observer core, SamplerHook recording decisions,
// entries with explicit Entry.Time driven through core.Check(ent, nil) / ce.Write().
//
// wire (see coq/theories/C11/Model.v):
//   sequential case (0 N M tick (op ...)), concurrent case (1 N M tick (prefix op ...) (batch op ...))
//   op = (0 core lvl #msg tn en) | (1 parent) | (2)
//   observation: one ((hook ...) fwd ctx) per Log op; concurrent batch: ((hook ...) fwd) records in
//   canonical (descending text) order.

type c11op struct {
	kind   int // 0 log, 1 with, 2 new root
	core   int
	lvl    int8
	msg    string
	tn     int64
	zeroT  bool // use the zero time.Time (tn is then whatever UnixNano reports)
	en     bool // answer of the wrapped core's Enabled(lvl) for this call (set by the generator through the enabler)
	parent int
}

// enabler whose answer the generator chooses per call
type c11enab struct{ on *[256]bool }

func (e c11enab) Enabled(l zapcore.Level) bool { return e.on[uint8(l)] }

func c11time(o c11op) time.Time {
	if o.zeroT {
		return time.Time{}
	}
	return time.Unix(0, o.tn)
}

type c11cfg struct {
	n, m int
	tick int64
}

type c11rec struct {
	hooks []int
	fwd   int
	ctx   int
}

func (r c11rec) sx() SX    { return L(LI(r.hooks), I(r.fwd), I(r.ctx)) }
func (r c11rec) short() SX { return L(LI(r.hooks), I(r.fwd)) }
func c11opsx(o c11op) SX {
	switch o.kind {
	case 0:
		return L(I(0), I(o.core), I(int(o.lvl)), Str(o.msg), Z(o.tn), Bool(o.en))
	case 1:
		return L(I(1), I(o.parent))
	}
	return L(I(2))
}
func c11opssx(ops []c11op) SX {
	xs := make([]SX, len(ops))
	for i, o := range ops {
		xs[i] = c11opsx(o)
	}
	return L(xs...)
}

// the system under test: samplers over one observer core
type c11sut struct {
	cfg    c11cfg
	on     *[256]bool
	obs    zapcore.Core
	logs   *observer.ObservedLogs
	cores  []zapcore.Core
	mu     sync.Mutex
	hooks  map[int64][]int // by entry time (concurrent batches use unique stamps)
	cur    []int           // hook calls of the sequential call in progress
	curEnt *zapcore.Entry
	bad    []string
}

func (s *c11sut) hook(ent zapcore.Entry, d zapcore.SamplingDecision) {
	s.mu.Lock()
	defer s.mu.Unlock()
	if s.hooks != nil {
		s.hooks[ent.Time.UnixNano()] = append(s.hooks[ent.Time.UnixNano()], int(d))
		return
	}
	s.cur = append(s.cur, int(d))
	if s.curEnt != nil && (ent.Message != s.curEnt.Message || ent.Level != s.curEnt.Level || !ent.Time.Equal(s.curEnt.Time)) {
		s.bad = append(s.bad, fmt.Sprintf("hook called with a different entry: %q/%v", ent.Message, ent.Level))
	}
}

func (s *c11sut) newRoot() zapcore.Core {
	return zapcore.NewSamplerWithOptions(s.obs, time.Duration(s.cfg.tick), s.cfg.n, s.cfg.m, zapcore.SamplerHook(s.hook))
}

func newC11sut(cfg c11cfg) *c11sut {
	s := &c11sut{cfg: cfg, on: new([256]bool)}
	s.obs, s.logs = observer.New(c11enab{s.on})
	s.cores = []zapcore.Core{s.newRoot()}
	return s
}

// run one op sequentially; ops carry their own Enabled answer
func (s *c11sut) seq(o *c11op, out *[]c11rec) {
	switch o.kind {
	case 1:
		s.cores = append(s.cores, s.cores[o.parent].With([]zapcore.Field{zap.Int("w", len(s.cores))}))
	case 2:
		s.cores = append(s.cores, s.newRoot())
	case 0:
		*s.on = [256]bool{}
		s.on[uint8(o.lvl)] = o.en
		ent := zapcore.Entry{Level: zapcore.Level(o.lvl), Message: o.msg, Time: c11time(*o)}
		o.tn = ent.Time.UnixNano() // oracle: the standard library's answer travels with the case
		s.cur, s.curEnt = nil, &ent
		before := s.logs.Len()
		ce := s.cores[o.core].Check(ent, nil)
		if ce != nil {
			ce.Write()
		}
		all := s.logs.All()
		r := c11rec{hooks: s.cur, fwd: len(all) - before}
		if r.fwd > 0 {
			last := all[len(all)-1]
			r.ctx = len(last.Context)
			if last.Message != o.msg || last.Level != ent.Level || !last.Time.Equal(ent.Time) {
				s.bad = append(s.bad, fmt.Sprintf("forwarded entry differs from the logged one: %q/%v", last.Message, last.Level))
			}
		}
		*out = append(*out, r)
	}
}

func c11stats(recs []c11rec) (kept, drop int) {
	for _, r := range recs {
		for _, h := range r.hooks {
			if h == int(zapcore.LogSampled) {
				kept++
			} else {
				drop++
			}
		}
	}
	return
}

func c11meta(class string, ops []c11op, recs []c11rec) map[string]string {
	kept, drop := c11stats(recs)
	nt := "0"
	if kept > 0 && drop > 0 && len(recs) >= 4 && class != "overflow" {
		nt = "1"
	}
	return map[string]string{"nt": nt, "class": class, "ops": fmt.Sprint(len(ops)), "kept": fmt.Sprint(kept), "drop": fmt.Sprint(drop)}
}

func c11emitSeq(c *Ctx, cfg c11cfg, ops []c11op, class string) {
	s := newC11sut(cfg)
	var recs []c11rec
	func() {
		defer func() {
			if p := recover(); p != nil {
				s.bad = append(s.bad, fmt.Sprintf("panic escaped from the sampler: %v", p))
			}
		}()
		for i := range ops {
			s.seq(&ops[i], &recs)
		}
	}()
	xs := make([]SX, len(recs))
	for i, r := range recs {
		xs[i] = r.sx()
	}
	in := L(I(0), I(cfg.n), I(cfg.m), Z(cfg.tick), c11opssx(ops))
	for _, b := range s.bad {
		c.Viol(b, in)
	}
	c.Emit(in, L(xs...), c11meta(class, ops, recs))
}

// concurrent batch: every op is a Log with a unique stamp; G goroutines, round-robin shares
func c11emitConc(c *Ctx, cfg c11cfg, pre, batch []c11op, G int, class string) {
	s := newC11sut(cfg)
	var recs []c11rec
	for i := range pre {
		s.seq(&pre[i], &recs)
	}
	// the batch may use several levels' worth of enabler answers: all enabled
	*s.on = [256]bool{}
	for _, o := range batch {
		s.on[uint8(o.lvl)] = true
	}
	before := s.logs.Len()
	s.mu.Lock()
	s.hooks = map[int64][]int{}
	s.mu.Unlock()
	var wg sync.WaitGroup
	var ready, start atomic.Int32
	for g := 0; g < G; g++ {
		wg.Add(1)
		go func(g int) {
			defer wg.Done()
			defer func() {
				if p := recover(); p != nil {
					s.mu.Lock()
					s.bad = append(s.bad, fmt.Sprintf("panic escaped from the sampler: %v", p))
					s.mu.Unlock()
				}
			}()
			ready.Add(1)
			for start.Load() == 0 { // spin: all goroutines enter the sampler together
			}
			for i := g; i < len(batch); i += G {
				o := batch[i]
				ent := zapcore.Entry{Level: zapcore.Level(o.lvl), Message: o.msg, Time: time.Unix(0, o.tn)}
				if ce := s.cores[o.core].Check(ent, nil); ce != nil {
					ce.Write()
				}
			}
		}(g)
	}
	for int(ready.Load()) < G {
		runtime.Gosched()
	}
	start.Store(1)
	wg.Wait()
	fw := map[int64]int{}
	for _, le := range s.logs.All()[before:] {
		fw[le.Time.UnixNano()]++
	}
	brecs := make([]c11rec, len(batch))
	strs := make([]string, len(batch))
	for i, o := range batch {
		brecs[i] = c11rec{hooks: s.hooks[o.tn], fwd: fw[o.tn]}
		strs[i] = Render(brecs[i].short())
	}
	idx := make([]int, len(batch))
	for i := range idx {
		idx[i] = i
	}
	sort.SliceStable(idx, func(a, b int) bool { return strs[idx[a]] > strs[idx[b]] })
	xs := make([]SX, len(recs))
	for i, r := range recs {
		xs[i] = r.sx()
	}
	ys := make([]SX, len(batch))
	for i, j := range idx {
		ys[i] = brecs[j].short()
	}
	in := L(I(1), I(cfg.n), I(cfg.m), Z(cfg.tick), c11opssx(pre), c11opssx(batch))
	for _, b := range s.bad {
		c.Viol(b, in)
	}
	m := c11meta(class, append(append([]c11op(nil), pre...), batch...), append(recs, brecs...))
	m["G"] = fmt.Sprint(G)
	c.Emit(in, L(L(xs...), L(ys...)), m)
}

// ---- config.go wiring: Config{Sampling}.Build over a registered in-memory sink and a fake clock ----

type c11sink struct {
	mu    sync.Mutex
	lines []string
}

func (s *c11sink) Write(p []byte) (int, error) {
	s.mu.Lock()
	s.lines = append(s.lines, string(p))
	s.mu.Unlock()
	return len(p), nil
}
func (s *c11sink) Sync() error  { return nil }
func (s *c11sink) Close() error { return nil }

var c11mem = &c11sink{}
var c11reg sync.Once

type c11clock struct{ now time.Time }

func (k *c11clock) Now() time.Time                       { return k.now }
func (k *c11clock) NewTicker(time.Duration) *time.Ticker { return time.NewTicker(time.Hour) }

// ops: Log on logger index core (levels Debug..Error only) and With
func c11emitConfig(c *Ctx, n, m int, minLvl int8, ops []c11op, class string) {
	c11reg.Do(func() {
		if err := zap.RegisterSink("c11mem", func(*url.URL) (zap.Sink, error) { return c11mem, nil }); err != nil {
			panic(err)
		}
	})
	c11mem.mu.Lock()
	c11mem.lines = nil
	c11mem.mu.Unlock()
	var cur []int
	cfg := zap.Config{
		Level:             zap.NewAtomicLevelAt(zapcore.Level(minLvl)),
		DisableCaller:     true,
		DisableStacktrace: true,
		Sampling: &zap.SamplingConfig{Initial: n, Thereafter: m, Hook: func(_ zapcore.Entry, d zapcore.SamplingDecision) {
			cur = append(cur, int(d))
		}},
		Encoding:         "json",
		EncoderConfig:    zapcore.EncoderConfig{MessageKey: "m", LevelKey: "l", EncodeLevel: zapcore.LowercaseLevelEncoder},
		OutputPaths:      []string{"c11mem://out"},
		ErrorOutputPaths: []string{"c11mem://out"},
	}
	clk := &c11clock{}
	lg, err := cfg.Build(zap.WithClock(clk))
	in := L(I(0), I(n), I(m), Z(int64(time.Second)), c11opssx(ops))
	if err != nil {
		c.Viol("Config.Build with Sampling failed: "+err.Error(), in)
		return
	}
	loggers := []*zap.Logger{lg}
	var recs []c11rec
	defer func() {
		if p := recover(); p != nil {
			c.Viol(fmt.Sprintf("panic escaped from the config-built sampling logger: %v", p), L(I(0), I(n), I(m), Z(int64(time.Second)), c11opssx(ops)))
		}
	}()
	for i := range ops {
		o := &ops[i]
		switch o.kind {
		case 1:
			loggers = append(loggers, loggers[o.parent].With(zap.Int(fmt.Sprintf("w%d", len(loggers)), 1)))
		case 0:
			o.en = o.lvl >= minLvl
			clk.now = time.Unix(0, o.tn)
			cur = nil
			c11mem.mu.Lock()
			before := len(c11mem.lines)
			c11mem.mu.Unlock()
			if ce := loggers[o.core].Check(zapcore.Level(o.lvl), o.msg); ce != nil {
				ce.Write()
			}
			c11mem.mu.Lock()
			lines := append([]string(nil), c11mem.lines[before:]...)
			c11mem.mu.Unlock()
			r := c11rec{hooks: cur, fwd: len(lines)}
			if len(lines) > 0 {
				var mm map[string]interface{}
				if err := json.Unmarshal([]byte(lines[len(lines)-1]), &mm); err != nil {
					c.Assume("json line of the config-built logger does not parse: " + err.Error())
				}
				for k := range mm {
					if strings.HasPrefix(k, "w") {
						r.ctx++
					}
				}
				if mm["m"] != o.msg {
					c.Viol("config-built logger wrote a different message", in)
				}
			}
			recs = append(recs, r)
		}
	}
	in = L(I(0), I(n), I(m), Z(int64(time.Second)), c11opssx(ops))
	xs := make([]SX, len(recs))
	for i, r := range recs {
		xs[i] = r.sx()
	}
	c.Emit(in, L(xs...), c11meta(class, ops, recs))
}

// ---- generators ----

func c11fnv(s string) uint32 {
	h := uint32(2166136261)
	for i := 0; i < len(s); i++ {
		h ^= uint32(s[i])
		h *= 16777619
	}
	return h
}

// brute-forced groups of messages whose fnv32a agree mod 4096 (used for generation only:
// the model computes the buckets itself)
func c11collisions(want int, short bool) [][]string {
	by := map[uint32][]string{}
	var out [][]string
	for i := 0; len(out) < want && i < 200000; i++ {
		m := fmt.Sprintf("msg-%d", i)
		if short {
			m = string([]byte{byte('A' + i%50), byte('!' + i/50)})
		}
		b := c11fnv(m) % 4096
		by[b] = append(by[b], m)
		if len(by[b]) == 3 {
			out = append(out, by[b])
		}
	}
	return out
}

// the in-range levels: one row of the counter table each (Debug = _minLevel .. Fatal = _maxLevel)
var c11levels = []int8{-1, 0, 1, 2, 3, 4, 5}

// one message per bucket 0..4095, in bucket order (generation only: the model computes the buckets itself)
func c11bucketMsgs() []string {
	out := make([]string, 4096)
	have := 0
	for i := 0; have < len(out) && i < 2000000; i++ {
		m := fmt.Sprintf("b%d", i)
		if b := c11fnv(m) % 4096; out[b] == "" {
			out[b] = m
			have++
		}
	}
	if have != len(out) {
		panic("c11bucketMsgs: could not cover every bucket")
	}
	return out
}

func lg(core int, lvl int8, msg string, tn int64) c11op {
	return c11op{kind: 0, core: core, lvl: lvl, msg: msg, tn: tn, en: true}
}

func c11directed(c *Ctx, coll [][]string) {
	sec := int64(time.Second)
	a, b := coll[0][0], coll[0][1]
	rep := func(n int, f func(i int) c11op) []c11op {
		out := make([]c11op, n)
		for i := range out {
			out[i] = f(i)
		}
		return out
	}
	// window boundaries: resetAt-1, resetAt, resetAt+1 after a window opened at T
	for _, T := range []int64{0, 1, 1000 * sec, -3 * sec, 1 << 40} {
		for _, nm := range [][2]int{{1, 0}, {2, 3}, {0, 1}, {0, 0}, {3, 1}, {1, 2}} {
			for _, d := range []int64{-1, 0, 1} {
				ops := []c11op{lg(0, 0, "x", T), lg(0, 0, "x", T), lg(0, 0, "x", T+sec+d), lg(0, 0, "x", T+sec+d), lg(0, 0, "x", T+2*sec+d-1), lg(0, 0, "x", T+2*sec+d), lg(0, 0, "x", T+2*sec+2*d)}
				c11emitSeq(c, c11cfg{nm[0], nm[1], sec}, ops, "boundary")
			}
		}
	}
	// the same boundaries on every level row (Debug .. Fatal), windows opened well before, just before,
	// across and after the Unix epoch: no row of the counter table may start in a different state
	for _, l := range c11levels {
		for _, T := range []int64{-1000 * sec, -3 * sec, -sec - 1, 1000 * sec} {
			for _, nm := range [][2]int{{1, 0}, {2, 3}, {0, 2}} {
				for _, d := range []int64{-1, 0, 1} {
					ops := []c11op{lg(0, l, "x", T), lg(0, l, "x", T), lg(0, l, "x", T+sec+d), lg(0, l, "x", T+sec+d), lg(0, l, "x", T+2*sec+d-1), lg(0, l, "x", T+2*sec+d), lg(0, l, "x", T+2*sec+2*d)}
					c11emitSeq(c, c11cfg{nm[0], nm[1], sec}, ops, "boundary-lvl")
				}
			}
		}
	}
	// pre-epoch stamps one tick apart and more (each must open its own window)
	// (the first one is the Coq witness Proofs.orig_witness_ops of C11_sequential_orig_refuted)
	c11emitSeq(c, c11cfg{1, 0, sec}, []c11op{lg(0, 0, "x", -10*sec), lg(0, 0, "x", -5*sec)}, "preepoch")
	c11emitSeq(c, c11cfg{1, 0, sec}, []c11op{lg(0, 0, "x", -10*sec), lg(0, 0, "x", -5*sec), lg(0, 0, "x", -5*sec+1), lg(0, 0, "x", -1)}, "preepoch")
	c11emitSeq(c, c11cfg{2, 2, sec}, rep(12, func(i int) c11op { return lg(0, 1, "neg", -100*sec+int64(i)*sec/2) }), "preepoch")
	c11emitSeq(c, c11cfg{1, 0, 10}, []c11op{lg(0, 0, "x", math.MinInt64), lg(0, 0, "x", math.MinInt64), lg(0, 0, "x", math.MinInt64+9), lg(0, 0, "x", math.MinInt64+10)}, "preepoch")
	// pre-epoch windows on every level row, through With-derived cores (shared budget) and a second
	// sampler (fresh counter table): several entries per window, windows two ticks apart, starting in
	// 1875 / 1960 / a few ticks before the epoch and running across it
	for _, l := range c11levels {
		for _, base := range []int64{-3000000000 * sec, -315619200 * sec, -7 * sec, -2*sec - 1} {
			for _, nm := range [][2]int{{2, 3}, {1, 0}, {0, 2}} {
				ops := []c11op{{kind: 1, parent: 0}, {kind: 2}, {kind: 1, parent: 2}}
				for w := int64(0); w < 4; w++ {
					for k := int64(1); k <= 9; k++ {
						ops = append(ops, lg(int(k%2), l, "same message", base+w*2*sec+k*int64(time.Millisecond)))
						if k%3 == 0 {
							ops = append(ops, lg(2+int(k%2), l, "same message", base+w*2*sec+k*int64(time.Millisecond)))
						}
					}
				}
				c11emitSeq(c, c11cfg{nm[0], nm[1], sec}, ops, "preepoch-lvl")
			}
		}
	}
	// every cell of the counter table (7 level rows x 4096 buckets, messages brute-forced onto each
	// bucket): two pre-epoch windows five ticks apart, then one after the epoch with a second entry
	// (N = 1, M = 0: kept, kept, kept, dropped), in chunks of 128 buckets; first and last bucket also
	// on a second sampler
	{
		msgs := c11bucketMsgs()
		chunk := 128
		for _, l := range c11levels {
			for lo := 0; lo < len(msgs); lo += chunk {
				var ops []c11op
				for _, t := range []int64{-10 * sec, -5 * sec, 5 * sec, 5*sec + 1} {
					for j := lo; j < lo+chunk && j < len(msgs); j++ {
						ops = append(ops, lg(0, l, msgs[j], t))
					}
				}
				c11emitSeq(c, c11cfg{1, 0, sec}, ops, "cells")
			}
			ops := []c11op{{kind: 2}}
			for _, t := range []int64{-10 * sec, -5 * sec, -5*sec + 1, 5 * sec, 5*sec + 1} {
				for _, j := range []int{0, 1, len(msgs) - 2, len(msgs) - 1} {
					ops = append(ops, lg(1, l, msgs[j], t), lg(0, l, msgs[j], t))
				}
			}
			c11emitSeq(c, c11cfg{1, 0, sec}, ops, "cells")
		}
	}
	// zero time.Time (UnixNano out of its documented range: the harness ships what it returns)
	c11emitSeq(c, c11cfg{2, 2, sec}, rep(9, func(i int) c11op { o := lg(0, 0, "z", 0); o.zeroT = true; return o }), "zerotime")
	// equal and decreasing stamps
	c11emitSeq(c, c11cfg{2, 3, sec}, rep(15, func(i int) c11op { return lg(0, 0, "eq", 5*sec) }), "equal")
	c11emitSeq(c, c11cfg{2, 3, sec}, rep(15, func(i int) c11op { return lg(0, 0, "dec", 100*sec-int64(i)*sec/3) }), "decreasing")
	c11emitSeq(c, c11cfg{1, 2, sec}, []c11op{lg(0, 0, "d", 10*sec), lg(0, 0, "d", 12*sec), lg(0, 0, "d", 10*sec), lg(0, 0, "d", 13*sec-1), lg(0, 0, "d", 0), lg(0, 0, "d", 13*sec)}, "decreasing")
	// tick zero / negative / huge; extremes of int64 that do not overflow
	for _, tick := range []int64{0, -1, -sec, 1, math.MaxInt64 / 2} {
		c11emitSeq(c, c11cfg{1, 2, tick}, rep(8, func(i int) c11op { return lg(0, 0, "t", int64(i/2)) }), "oddtick")
		c11emitSeq(c, c11cfg{0, 1, tick}, rep(8, func(i int) c11op { return lg(0, 0, "t", 7-int64(i)) }), "oddtick")
	}
	c11emitSeq(c, c11cfg{1, 0, 5}, []c11op{lg(0, 0, "m", math.MaxInt64-5), lg(0, 0, "m", math.MaxInt64-1), lg(0, 0, "m", math.MaxInt64-6)}, "extreme")
	c11emitSeq(c, c11cfg{1, 0, -5}, []c11op{lg(0, 0, "m", math.MinInt64+5), lg(0, 0, "m", math.MinInt64+5), lg(0, 0, "m", math.MinInt64+6)}, "extreme")
	// N, M corner values
	for _, nm := range [][2]int{{0, 0}, {0, 1}, {1, 1}, {0, 2}, {5, 0}, {1, 5}, {3, 3}, {20, 20}, {math.MaxInt64, 0}, {1, math.MaxInt64}, {math.MaxInt64, math.MaxInt64}} {
		c11emitSeq(c, c11cfg{nm[0], nm[1], sec}, rep(30, func(i int) c11op { return lg(0, 2, "nm", int64(i)*sec/20) }), "nm")
	}
	// out-of-range levels pass unsampled (when enabled); disabled levels consume nothing
	{
		var ops []c11op
		for i := 0; i < 4; i++ {
			for _, l := range []int8{6, 7, 127, -2, -128, 5, -1} {
				ops = append(ops, lg(0, l, "lv", int64(i)))
			}
		}
		c11emitSeq(c, c11cfg{1, 0, sec}, ops, "levels")
		for i := range ops {
			ops[i].en = i%3 != 0
		}
		c11emitSeq(c, c11cfg{1, 0, sec}, ops, "levels")
		ops = nil
		for i := 0; i < 12; i++ {
			o := lg(0, 0, "dis", int64(i))
			o.en = i%2 == 1
			ops = append(ops, o)
		}
		c11emitSeq(c, c11cfg{2, 2, sec}, ops, "disabled")
	}
	// every in-range level has its own budget for the same message
	c11emitSeq(c, c11cfg{1, 0, sec}, rep(21, func(i int) c11op { return lg(0, int8(i%7)-1, "same", int64(i)) }), "levels")
	// hash-colliding messages share a budget; others do not
	for _, g := range coll[:4] {
		c11emitSeq(c, c11cfg{2, 2, sec}, rep(12, func(i int) c11op { return lg(0, 0, g[i%3], int64(i)) }), "collide")
		c11emitSeq(c, c11cfg{1, 0, sec}, []c11op{lg(0, 0, g[0], 0), lg(0, 0, g[1], 1), lg(0, 1, g[1], 1), lg(0, 0, "other", 2), lg(0, 0, g[2], 3), lg(0, 0, g[0], sec)}, "collide")
	}
	// odd messages: empty, high bytes, long
	c11emitSeq(c, c11cfg{1, 2, sec}, rep(16, func(i int) c11op {
		return lg(0, 0, []string{"", "\xff\x80\x00", strings.Repeat("long", 300), "\xff\x80\x01"}[i%4], int64(i))
	}), "oddmsg")
	// With-derived cores share the budget (and keep their own context); a second root does not
	c11emitSeq(c, c11cfg{2, 2, sec}, []c11op{{kind: 1, parent: 0}, {kind: 1, parent: 1}, {kind: 2}, {kind: 1, parent: 3},
		lg(0, 0, a, 0), lg(1, 0, a, 1), lg(2, 0, b, 2), lg(3, 0, a, 3), lg(4, 0, a, 4), lg(2, 0, a, 5), lg(1, 0, b, 6), lg(0, 0, a, 7), lg(4, 0, b, 8), lg(3, 0, a, 9), lg(4, 0, a, 10)}, "with")
	// outside the theorems' hypotheses: tn + tick overflows int64 (model-vs-implementation only)
	c11emitSeq(c, c11cfg{1, 0, 10}, []c11op{lg(0, 0, "o", math.MaxInt64-3), lg(0, 0, "o", math.MaxInt64-2), lg(0, 0, "o", math.MaxInt64)}, "overflow")
	c11emitSeq(c, c11cfg{1, 1, math.MaxInt64}, []c11op{lg(0, 0, "o", 5), lg(0, 0, "o", 6), lg(0, 0, "o", -1), lg(0, 0, "o", 0)}, "overflow")
	c11emitSeq(c, c11cfg{-1, 0, sec}, rep(5, func(i int) c11op { return lg(0, 0, "negN", int64(i)) }), "overflow")
	c11emitSeq(c, c11cfg{1, -2, sec}, rep(5, func(i int) c11op { return lg(0, 0, "negM", int64(i)) }), "overflow")
}

// every sequence of stamps from {0..3} (tick = 2) of length <= K on one key, N, M in 0..2
// lvl, off: the level row and an offset added to every stamp (off = -4: all stamps before the epoch)
func c11exhaustive(c *Ctx, K int, lvl int8, off int64, nms [][2]int, class string) {
	var rec func(prefix []int64)
	rec = func(prefix []int64) {
		if len(prefix) > 0 {
			for _, nm := range nms {
				ops := make([]c11op, len(prefix))
				for i, t := range prefix {
					ops[i] = lg(0, lvl, "e", t+off)
				}
				c11emitSeq(c, c11cfg{nm[0], nm[1], 2}, ops, class)
			}
		}
		if len(prefix) < K {
			for t := int64(0); t < 4; t++ {
				rec(append(append([]int64(nil), prefix...), t))
			}
		}
	}
	rec(nil)
}

func c11random(c *Ctx, r *RNG, coll [][]string, maxOps int) {
	ticks := []int64{1, 2, 10, 1000, int64(time.Millisecond), int64(time.Second), int64(time.Hour)}
	tick := ticks[r.Intn(len(ticks))]
	cfg := c11cfg{r.Intn(21), r.Intn(21), tick}
	if r.Chance(50) {
		cfg.n, cfg.m = r.Intn(4), r.Intn(4)
	}
	g := coll[r.Intn(len(coll))]
	pool := []string{"a", "b", g[0], g[1], g[2], "", "\xc3\xa9"}
	if r.Chance(30) {
		// non-ASCII messages that differ only in UTF-8 continuation bytes (a hash that skips bytes
		// would make them share a budget), mixed with invalid UTF-8 and an ASCII control
		pool = []string{"\xc3\xa9", "\xc3\xa8", "\xd0\xbe\xd1\x88", "\xd0\xbe\xd1\x82", "\xe7\xa3\x81\xe4\xb8\x80", "\xe7\xa3\x81\xe4\xba\x8c",
			"a\xc3\xa9", "a\xc3\xa8", "\xf0\x9f\x98\x80", "\xf0\x9f\x98\x81", "\xff\xfe", "\xff\xfd", "a"}
	}
	npool := r.Range(2, len(pool))
	// 1..3 distinct level rows drawn from all seven (Debug .. Fatal)
	lvls := append([]int8(nil), c11levels...)
	for i := len(lvls) - 1; i > 0; i-- {
		j := r.Intn(i + 1)
		lvls[i], lvls[j] = lvls[j], lvls[i]
	}
	nl := r.Range(1, 3)
	// where the history starts: at / after the epoch, or before it (a few ticks, 50 ticks, decades,
	// near the lower end of UnixNano's range) so that windows open before, across and after stamp 0
	base := []int64{0, int64(1700000000) * int64(time.Second), -50 * tick, 12345,
		-int64(1700000000) * int64(time.Second), -3*tick - 1, -tick, -(1 << 62)}[r.Intn(8)]
	ends := map[string]int64{} // generation bias only: where this key's window is believed to end
	t := base
	ncores := 1
	roots := []int{0}
	nops := r.Range(1, maxOps)
	var ops []c11op
	for i := 0; i < nops; i++ {
		x := r.Intn(100)
		switch {
		case x < 4:
			p := r.Intn(ncores)
			ops = append(ops, c11op{kind: 1, parent: p})
			roots = append(roots, roots[p])
			ncores++
		case x < 6:
			ops = append(ops, c11op{kind: 2})
			roots = append(roots, ncores)
			ncores++
		default:
			o := lg(r.Intn(ncores), lvls[r.Intn(nl)], pool[r.Intn(npool)], 0)
			if r.Chance(6) {
				o.lvl = []int8{6, 7, 100, 127, -2, -3, -128}[r.Intn(7)]
			}
			o.en = !r.Chance(12)
			k := fmt.Sprint(roots[o.core], o.lvl, c11fnv(o.msg)%4096)
			end, open := ends[k]
			switch y := r.Intn(100); {
			case y < 30:
			case y < 50:
				t += int64(r.Intn(3))
			case y < 60 && open:
				t = end - 1
			case y < 70 && open:
				t = end
			case y < 75 && open:
				t = end + 1
			case y < 85:
				t += int64(r.Intn(int(min64(2*tick, 1<<30)) + 1))
			case y < 92:
				t -= int64(r.Intn(int(min64(tick, 1<<30)) + 1))
			default:
				t += tick
			}
			o.tn = t
			if o.en && o.lvl >= -1 && o.lvl <= 5 && (!open || t >= end) {
				ends[k] = t + tick
			}
			ops = append(ops, o)
		}
	}
	c11emitSeq(c, cfg, ops, "rand")
}

func min64(a, b int64) int64 {
	if a < b {
		return a
	}
	return b
}

func c11randomConfig(c *Ctx, r *RNG, coll [][]string) {
	n, m := r.Intn(5), r.Intn(5)
	minLvl := int8(r.Intn(3)) - 1
	g := coll[r.Intn(len(coll))]
	pool := []string{"a", g[0], g[1]}
	sec := int64(time.Second)
	t := int64(1700000000) * sec
	nlog := 1
	var ops []c11op
	for i, k := 0, r.Range(4, 40); i < k; i++ {
		if r.Chance(8) {
			ops = append(ops, c11op{kind: 1, parent: r.Intn(nlog)})
			nlog++
			continue
		}
		switch y := r.Intn(10); {
		case y < 5:
		case y < 7:
			t += sec / 2
		case y < 8:
			t += sec - 1
		case y < 9:
			t += sec
		default:
			t += 1
		}
		ops = append(ops, lg(r.Intn(nlog), int8(r.Intn(4))-1, pool[r.Intn(len(pool))], t))
	}
	c11emitConfig(c, n, m, minLvl, ops, "config")
}

func c11randomConc(c *Ctx, r *RNG, coll [][]string, maxBatch int) {
	hour := int64(time.Hour)
	cfg := c11cfg{r.Intn(30), r.Intn(8), hour}
	g := coll[r.Intn(len(coll))]
	T := int64(1700000000) * int64(time.Second)
	if r.Chance(35) { // the open window lies before the epoch, or across it
		T = []int64{-T, -hour / 2, -3 * hour}[r.Intn(3)]
	}
	pre := []c11op{{kind: 1, parent: 0}, {kind: 1, parent: 1}, {kind: 2}}
	lvl := int8(r.Intn(7)) - 1
	for i, k := 0, r.Range(1, 5); i < k; i++ { // opens the window at T and uses a little of the budget
		pre = append(pre, lg(r.Intn(3), lvl, g[r.Intn(3)], T+int64(i)))
	}
	pre = append(pre, lg(3, lvl, g[0], T)) // another family: its own budget
	nb := r.Range(2, maxBatch)
	if r.Chance(25) {
		nb = r.Range(2, 40)
	}
	batch := make([]c11op, nb)
	perm := make([]int, nb)
	for i := range perm {
		j := r.Intn(i + 1)
		perm[i], perm[j] = perm[j], i
	}
	for i := range batch { // unique stamps inside (.., T+tick), some before T
		batch[i] = lg(r.Intn(3), lvl, g[r.Intn(3)], T-50+int64(perm[i]))
	}
	if r.Chance(30) { // up to the last nanosecond of the window
		batch[0].tn = T + hour - 1
	}
	c11emitConc(c, cfg, pre, batch, r.Range(2, 12), "conc")
}

func c11(c *Ctx) {
	r := NewRNG(c.Seed)
	coll := c11collisions(8, false)
	scoll := c11collisions(8, true)
	c11directed(c, coll)
	K, N, NC, NCONC, maxOps, maxBatch := 4, 3000, 200, 100, 100, 4000
	if c.Thorough {
		K, N, NC, NCONC, maxOps, maxBatch = 6, 30000, 3000, 400, 200, 8000
	}
	var nms [][2]int
	for n := 0; n <= 2; n++ {
		for m := 0; m <= 2; m++ {
			nms = append(nms, [2]int{n, m})
		}
	}
	c11exhaustive(c, K, 0, 0, nms, "exh")
	// every level row, all stamps before the epoch ({-4..-1}) and across it ({-2..1}), length <= 3 (quick) / 4
	KL := 3
	if c.Thorough {
		KL = 4
	}
	for _, l := range c11levels {
		c11exhaustive(c, KL, l, -4, [][2]int{{0, 0}, {1, 0}, {0, 2}, {1, 2}}, "exh-lvl")
		c11exhaustive(c, KL, l, -2, [][2]int{{1, 0}, {1, 2}}, "exh-lvl")
	}
	for i := 0; i < N; i++ {
		c11random(c, r, coll, maxOps)
	}
	for i := 0; i < NC; i++ {
		c11randomConfig(c, r, coll)
	}
	for i := 0; i < NCONC; i++ {
		c11randomConc(c, r, scoll, maxBatch)
	}
}

func init() { registry["C11"] = c11 }

package main

import (
	"fmt"
	"strings"

	"go.uber.org/zap"
	"go.uber.org/zap/zapcore"
)

// C04, oversize entries (seed c04h).  Every buffer zap encodes into is pooled (internal/bufferpool:
// line buffer of the JSON / console encoder, context buffer of a With-child, reflection scratch
// buffer; fmt's and encoding/json's own pools behind Sugar and zap.Reflect), and a pooled buffer
// keeps the capacity its largest user grew it to.  Whatever a pool does with a buffer PAST SOME
// SIZE (drop it, shrink it, re-slice it, cap it) is reached only by an entry larger than that size,
// and its damage shows on whoever draws the buffer NEXT: an ordinary entry of any goroutine.
// So ordinary traffic is mixed with entries of more than 16 KiB / 64 KiB / 256 KiB (and a few sizes
// around the powers of two in between):
//   - in a sequential prologue (threads with pre = true: run by the main goroutine before the
//     others start; on the wire they are ordinary threads, their lines simply come first),
//   - in the concurrent phase: about every 16th entry of some goroutines, and a dedicated goroutine,
//   - through every derivation (base, With, Named, shared With-child, reflected With-children) and
//     through With-children whose CONTEXT is oversize (derivations 8, 9: every line of theirs is),
//   - carried by the message (all front ends; Sugar Logf/Log go through fmt), a String, a Binary /
//     ByteString, an array of many elements, a reflected struct, a reflected slice,
//   - JSON and console, Lock / Combine / Open / BufferedWriteSyncer (smaller and larger than the
//     entries, default size) / tees.
// Every line, small and big, is judged literally by the extracted oracle: exactly once, intact,
// per-goroutine order.

const (
	c04BigNone = iota
	c04BigMsg  // the message itself
	c04BigStr  // zap.String
	c04BigBin  // zap.Binary (base64) / zap.ByteString
	c04BigArr  // zap.Strings + zap.Ints of many elements
	c04BigRefl // zap.Reflect(struct)
	c04BigAny  // zap.Any(slice of structs)
	c04nBig
)

// length ranges of the payload; the first three are the classes a case is built around
// (past 16 KiB, past 64 KiB, past 256 KiB), the others sit between them
var c04bigSizes = [][2]int{
	{16500, 26000}, {66000, 82000}, {262500, 280000},
	{4200, 5200}, {8300, 9800}, {33000, 40000}, {132000, 150000},
}

// sizes available to a case whose largest class is maxClass (0: up to ~40 KiB, 1: up to ~150 KiB, 2: all)
func c04bigLen(r *RNG, maxClass int, main bool) int {
	if main {
		c := c04bigSizes[maxClass]
		return r.Range(c[0], c[1])
	}
	var pick []int
	switch maxClass {
	case 0:
		pick = []int{0, 0, 0, 0, 3, 4, 5}
	case 1:
		pick = []int{1, 1, 1, 0, 0, 5, 6, 4}
	default:
		pick = []int{2, 2, 1, 0, 6}
	}
	c := c04bigSizes[pick[r.Intn(len(pick))]]
	return r.Range(c[0], c[1])
}

var c04bigAlpha = []byte("abcdefghijklmnopqrstuvwxyz0123456789 ABCDEFGHIJKLMNOPQRSTUVWXYZ_-.:;")

// n bytes: a random 61-byte block repeated, stamped with the offset every 1000 bytes (a piece that
// is lost, repeated or moved changes the line), with an occasional character that needs escaping
func c04bigPad(r *RNG, n int) string {
	block := r.Bytes(61, c04bigAlpha)
	if r.Chance(30) {
		block[r.Intn(len(block))] = []byte("\"\\<&\t")[r.Intn(5)]
	}
	var sb strings.Builder
	sb.Grow(n + 80)
	for sb.Len() < n {
		if sb.Len()%1000 < 61 {
			fmt.Fprintf(&sb, "|%07d|", sb.Len())
		}
		sb.Write(block)
	}
	return sb.String()[:n]
}

// the oversize context of derivations 8 and 9 (no RNG at hand in c04derive: a function of g)
func c04ctxPad(g int) string {
	n := 16600 + 700*g
	var sb strings.Builder
	sb.Grow(n + 16)
	for sb.Len() < n {
		fmt.Fprintf(&sb, "c%d.%d,", g, sb.Len())
	}
	return sb.String()[:n]
}

func c04deriveBig(base, shared *zap.Logger, g, deriv int) *zap.Logger {
	if deriv == 9 {
		// a small reflected value after the oversize one: the encoder's scratch buffer is used again
		return shared.With(zap.Reflect("bigr", c04Inner{K: c04ctxPad(g), V: []int{g}}), zap.Int("g", g), zap.Reflect("aft", c04Inner{K: "after"}))
	}
	return base.With(zap.Int("g", g), zap.String("bigctx", c04ctxPad(g)))
}

func c04padChunks(pad string) []string {
	var out []string
	for len(pad) > 40 {
		out = append(out, pad[:40])
		pad = pad[40:]
	}
	return append(out, pad)
}

func c04bigFields(o c04Op, seq int) []zap.Field {
	switch o.big {
	case c04BigStr:
		return []zap.Field{zap.String("bp", o.pad)}
	case c04BigBin:
		if seq%2 == 0 {
			return []zap.Field{zap.Binary("bb", []byte(o.pad[:len(o.pad)*3/4]))}
		}
		return []zap.Field{zap.ByteString("bs", []byte(o.pad))}
	case c04BigArr:
		h := len(o.pad) / 2
		ints := make([]int, h/8)
		for i := range ints {
			ints[i] = 1000000 + i*seq
		}
		return []zap.Field{zap.Strings("ba", c04padChunks(o.pad[:h])), zap.Ints("bi", ints)}
	case c04BigRefl:
		return []zap.Field{zap.Reflect("br", c04Inner{K: o.pad, V: []int{seq}}), zap.Reflect("br2", c04Inner{K: "after", V: []int{seq}})}
	case c04BigAny:
		h := len(o.pad) / 2
		return []zap.Field{zap.Any("bm", []c04Inner{{K: o.pad[:h]}, {K: "2", M: map[string]string{"p": o.pad[h:]}}}), zap.Any("bm2", map[string]int{"after": seq})}
	}
	return nil
}

// the same payloads as Sugar key-value pairs (zap.Any picks the field type)
func c04bigKV(o c04Op, seq int) []interface{} {
	switch o.big {
	case c04BigStr:
		return []interface{}{"bp", o.pad}
	case c04BigBin:
		return []interface{}{"bb", []byte(o.pad[:len(o.pad)*3/4])}
	case c04BigArr:
		return []interface{}{"ba", c04padChunks(o.pad)}
	case c04BigRefl:
		return []interface{}{"br", c04Inner{K: o.pad, V: []int{seq}}, "br2", c04Inner{K: "after"}}
	case c04BigAny:
		h := len(o.pad) / 2
		return []interface{}{"bm", []c04Inner{{K: o.pad[:h]}, {K: "2", M: map[string]string{"p": o.pad[h:]}}}}
	}
	return nil
}

// turn a log op into an oversize one (main: of the case's largest size class)
func c04makeBig(r *RNG, o *c04Op, maxClass int, main bool) {
	o.big = 1 + r.Intn(c04nBig-1)
	if o.fe >= 4 { // Sugar Logf / Log take no fields
		o.big = c04BigMsg
	}
	o.pad = c04bigPad(r, c04bigLen(r, maxClass, main))
	if o.lvl < zapcore.InfoLevel {
		o.lvl = zapcore.InfoLevel
	}
	if o.nf > 4 {
		o.nf = 4
	}
}

func (cs *c04Case) bigs() (n int) {
	for _, th := range cs.th {
		if th.deriv >= 8 {
			n += len(th.ops)
		}
		for _, o := range th.ops {
			if o.big != 0 {
				n++
			}
		}
	}
	return n
}

func c04smallOp(r *RNG, g, seq int, withSync bool) c04Op {
	lvl := []zapcore.Level{zapcore.InfoLevel, zapcore.InfoLevel, zapcore.WarnLevel, zapcore.ErrorLevel, zapcore.DPanicLevel}[r.Intn(5)]
	if lvl == zapcore.DPanicLevel && !withSync {
		lvl = zapcore.InfoLevel
	}
	return c04Op{kind: 0, fe: r.Intn(6), lvl: lvl, msg: c04msg(r, g, seq, r.Range(12, 60)), nf: r.Intn(4)}
}

// what is added to a case: bit 0 a sequential prologue, bit 1 every 16th entry of some goroutines,
// bit 2 a dedicated goroutine, bit 3 a goroutine on a With-child whose context is oversize.
// maxBigs bounds the number of oversize entries of the case (the case text is linear in their bytes).
func c04oversize(r *RNG, cs *c04Case, what, maxClass, maxBigs int, withSync bool) {
	left := maxBigs
	n0 := len(cs.th)
	made := 0
	mk := func(o *c04Op) { // the first oversize entry of the case is of its largest size class
		c04makeBig(r, o, maxClass, made == 0)
		made++
		left--
	}
	if what&2 != 0 {
		chosen := 0
		for g := 0; g < n0; g++ {
			if !(r.Chance(55) || (g == n0-1 && chosen == 0)) {
				continue
			}
			chosen++
			phase := r.Intn(16)
			if len(cs.th[g].ops) < 16 {
				phase = r.Intn(len(cs.th[g].ops))
			}
			for i := range cs.th[g].ops {
				o := &cs.th[g].ops[i]
				if i%16 == phase && o.kind == 0 && left > 0 {
					mk(o)
				}
			}
		}
	}
	if what&4 != 0 && left > 0 {
		g := len(cs.th)
		th := c04Thread{deriv: []int{0, 1, 2, 3, 4, 5, 6, 7}[r.Intn(8)]}
		nb := r.Range(1, 3)
		for seq := 0; nb > 0 && left > 0; seq++ {
			if withSync && r.Chance(10) {
				th.ops = append(th.ops, c04Op{kind: 1})
				continue
			}
			o := c04smallOp(r, g, seq, withSync)
			if seq%3 == 0 {
				mk(&o)
				nb--
			}
			th.ops = append(th.ops, o)
		}
		th.ops = append(th.ops, c04smallOp(r, g, len(th.ops), withSync))
		cs.th = append(cs.th, th)
	}
	if what&8 != 0 && left > 0 {
		g := len(cs.th)
		th := c04Thread{deriv: 8 + r.Intn(2)}
		for seq := 0; seq < 3 && left > 0; seq++ {
			th.ops = append(th.ops, c04smallOp(r, g, seq, withSync))
			left--
		}
		cs.th = append(cs.th, th)
	}
	if what&1 != 0 {
		// the prologue: small, BIG, small, small [, BIG, small, small], through one or two derivations
		np := 1
		if r.Chance(40) {
			np = 2
		}
		for p := 0; p < np; p++ {
			g := len(cs.th)
			th := c04Thread{pre: true, deriv: []int{0, 4, 1, 5, 3, 7}[r.Intn(6)]}
			if p == 1 && r.Chance(30) && left >= 3 {
				th.deriv = 8 + r.Intn(2)
				for seq := 0; seq < 3; seq++ {
					th.ops = append(th.ops, c04smallOp(r, g, seq, false))
					left--
				}
				cs.th = append(cs.th, th)
				continue
			}
			th.ops = append(th.ops, c04smallOp(r, g, 0, false))
			rounds := r.Range(1, 2)
			for k := 0; k < rounds && (left > 0 || k == 0); k++ {
				o := c04smallOp(r, g, len(th.ops), false)
				mk(&o)
				th.ops = append(th.ops, o)
				for s := r.Range(2, 4); s > 0; s-- {
					th.ops = append(th.ops, c04smallOp(r, g, len(th.ops), false))
				}
			}
			cs.th = append(cs.th, th)
		}
	}
}

// indices of the prologue threads ("-" = none)
func (cs *c04Case) preTag() string {
	var p []string
	for g, th := range cs.th {
		if th.pre {
			p = append(p, fmt.Sprint(g))
		}
	}
	if len(p) == 0 {
		return "-"
	}
	return strings.Join(p, "+")
}

// directed grid: sink configuration x goroutine count x what is oversize, the largest size class
// rotating over the grid (most cases past 16 KiB, some past 64 KiB, a few past 256 KiB)
func c04bigGrid(c *Ctx, rb *RNG, emit func(cs *c04Case, rr *RNG)) {
	grid := [][]c04Branch{
		{{kind: c04Lock}},
		{{kind: c04Lock, console: true}},
		{{kind: c04Combine, k: 2}},
		{{kind: c04Open, k: 1, console: true}},
		{{kind: c04Buf, size: 512}},                      // every oversize entry bypasses the bufio buffer
		{{kind: c04LockBuf, size: 32768, console: true}}, // between the size classes
		{{kind: c04Buf}},                                 // default size (256 KiB)
		{{kind: c04Lock}, {kind: c04Buf, size: 96}, {kind: c04Lock, console: true}},
	}
	reps := 1
	if c.Thorough {
		reps = 3
	}
	for rep := 0; rep < reps; rep++ {
		for bi, br := range grid {
			for ni, n := range []int{2, 8} {
				for mode := 0; mode < 5; mode++ {
					bs := 64
					for _, b := range br {
						if b.size > 0 {
							bs = b.size
						}
					}
					if bs > 1024 {
						bs = 1024
					}
					// largest size class of the case
					maxClass := 0
					switch v := (bi*5 + mode*3 + ni + rep) % 10; {
					case v == 4 && len(br) == 1:
						maxClass = 2
					case v == 1 || v == 7:
						maxClass = 1
					}
					maxBigs := []int{6, 3, 2}[maxClass]
					ws := mode >= 3
					cs := &c04Case{br: br}
					switch mode {
					case 0: // oversize entries in the sequential prologue only; the goroutines log ordinary entries
						cs.th = c04threads(rb, n, 12, 1, bs, ws, 2500, 0)
						c04oversize(rb, cs, 1, maxClass, maxBigs, ws)
					case 1: // about every 16th entry of some goroutines
						cs.th = c04threads(rb, n, 80/n+8, 0, bs, ws, 2500, 0)
						for g := range cs.th { // long enough for the period
							for len(cs.th[g].ops) < 18 && n == 2 {
								cs.th[g].ops = append(cs.th[g].ops, c04smallOp(rb, g, len(cs.th[g].ops), ws))
							}
						}
						c04oversize(rb, cs, 2, maxClass, maxBigs, ws)
					case 2: // a dedicated goroutine, and one on a With-child whose context is oversize
						cs.th = c04threads(rb, n, 12, 1, bs, ws, 2500, 0)
						c04oversize(rb, cs, 4+8*((bi+ni)%2), maxClass, maxBigs, ws)
					case 3: // prologue + every 16th + dedicated, With-children, Sync calls and ticks
						cs.th = c04threads(rb, n, 80/n+4, 0, bs, ws, 2500, 0)
						for g := range cs.th {
							cs.th[g].deriv = []int{1, 4, 3, 4, 2}[(g+rep)%5]
						}
						c04oversize(rb, cs, 1+2+4, maxClass, maxBigs, ws)
						cs.ticks = 5
					default: // everything, reflected contexts and call sites, Sync calls and ticks
						cs.baseCtx = 1 + (rep+bi)%4
						cs.sharedCtx = 1 + (rep+ni)%2
						cs.callRefl = true
						cs.th = c04threads(rb, n, 10, 2, bs, ws, 2500, 2)
						c04oversize(rb, cs, 1+2+4+8, maxClass, maxBigs, ws)
						cs.ticks = 5
					}
					emit(cs, rb)
				}
			}
		}
	}
}

// oversize history of the process: lines of more than 16 KiB delivered by earlier cases (the pools
// keep the buffers they grew, so an ordinary later case may be the one that shows the damage)
var c04BigsSeen, c04BigMaxSeen int

func c04bigLines(ref [][]c04RefEntry) (n, max int) {
	for _, th := range ref {
		for _, e := range th {
			for _, ln := range e.lines {
				if len(ln) > 16*1024 {
					n++
				}
				if len(ln) > max {
					max = len(ln)
				}
			}
		}
	}
	return n, max
}

func c04bigNote(ref [][]c04RefEntry) {
	n, max := c04bigLines(ref)
	c04BigsSeen += n
	if n > 0 && max > c04BigMaxSeen {
		c04BigMaxSeen = max
	}
}

func c04bigHistSx(cs *c04Case, ref [][]c04RefEntry) SX {
	n, _ := c04bigLines(ref)
	var pre []int
	for g, th := range cs.th {
		if th.pre {
			pre = append(pre, g)
		}
	}
	return L(I(c04BigsSeen), I(c04BigMaxSeen), I(n), LI(pre))
}

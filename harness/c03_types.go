package main

// C03 support: user-defined payload types (marshalers, errors, Stringers, reflected values) whose
// ==/DeepEqual-relevant attributes are known, the projection of arbitrary Go values into the
// value encoding of coq/theories/C03/Model.v (sx_of_val), and a recording ObjectEncoder/ArrayEncoder.

import (
	"fmt"
	"math"
	"math/big"
	"reflect"
	"strings"
	"time"

	"go.uber.org/zap/zapcore"
)

// ---------- value encoding (must match C03/Model.v sx_of_val) ----------

func c03VI(z int64) SX    { return L(I(0), Z(z)) }
func c03VU(z uint64) SX   { return L(I(0), U(z)) }
func c03VBool(b bool) SX  { return L(I(1), Bool(b)) }
func c03VF64(b uint64) SX { return L(I(2), U(b)) }
func c03VF32(b uint32) SX { return L(I(3), U(uint64(b))) }
func c03VC128(c complex128) SX {
	return L(I(4), U(math.Float64bits(real(c))), U(math.Float64bits(imag(c))))
}
func c03VC64(c complex64) SX {
	return L(I(5), U(uint64(math.Float32bits(real(c)))), U(uint64(math.Float32bits(imag(c)))))
}
func c03VStr(s string) SX { return L(I(6), Str(s)) }
func c03VBytes(b []byte) SX {
	return L(I(7), Bool(b == nil), B(b))
}
func c03VNil() SX                    { return L(I(11)) }
func c03VPtr(v SX) SX                { return L(I(12), v) }

// the address of element i of the slice with identity a (C03/Lang.v VRef)
func c03VRef(a int64, i int, v SX) SX { return L(I(17), Z(a), I(i), v) }

// The slice the constructor under test was given, when its elements are delivered by address
// (ObjectValues): a pointer an encoder receives is projected as "element i of that slice" exactly
// when it IS &slice[i]; a pointer to anything else (a copy of the element, however faithful) is
// projected as a pointer without identity.
var c03ElemBase reflect.Value

func c03ElemIndex(p uintptr) (int64, int, bool) {
	b := c03ElemBase
	if !b.IsValid() || b.Kind() != reflect.Slice {
		return 0, 0, false
	}
	for i := 0; i < b.Len(); i++ {
		if b.Index(i).Addr().Pointer() == p {
			return c03SliceID(b), i, true
		}
	}
	return 0, 0, false
}

// identity of a slice (backing array pointer + length): what reflect.DeepEqual's shortcut looks at
type c03SliceKey struct {
	p uintptr
	n int
}

var c03SliceIDs = map[c03SliceKey]int64{}

func c03SliceID(rv reflect.Value) int64 {
	if rv.IsNil() {
		return 0
	}
	k := c03SliceKey{rv.Pointer(), rv.Len()}
	id, ok := c03SliceIDs[k]
	if !ok {
		id = int64(len(c03SliceIDs) + 1)
		c03SliceIDs[k] = id
		c03Keep = append(c03Keep, rv.Interface())
	}
	return id
}
func c03VSlice(rv reflect.Value, l []SX) SX { return L(I(13), Z(c03SliceID(rv)), L(l...)) }
func c03VWrap(w string, v SX) SX     { return L(I(14), Str(w), v) }
func c03VCalls(l []SX) SX            { return L(I(16), L(l...)) }
func c03Call(m, k string, v SX) SX   { return L(Str(m), Str(k), v) }

// ---------- locations ----------

var c03Locs []*time.Location

// The location the process-global variable time.Local pointed to when the harness started.  C03
// re-points time.Local (c03SetLocal) between building a Field and encoding it -- the ambient state
// of coq/theories/C03/Lang.v (e_local) -- and always puts this one back.
var c03OrigLocal *time.Location

// the locations time.Local is re-pointed to (all of them registered in c03Locs, so that a time in
// "the local zone of the moment" has a known identity): the original one, UTC (the
// `time.Local = time.UTC` idiom), fixed non-UTC zones -- one of them NAMED "Local" --, a tzdata zone
var c03AmbLocs []*time.Location

func c03InitLocs() {
	if c03Locs != nil {
		return
	}
	c03OrigLocal = time.Local
	plus5, fakeLocal := time.FixedZone("UTC+5", 5*3600), time.FixedZone("Local", -3*3600)
	c03Locs = []*time.Location{time.UTC, time.Local,
		time.FixedZone("X", 5*3600+1800), time.FixedZone("UTC", 0), time.FixedZone("", -7*3600), time.FixedZone("far", -12*3600+1),
		plus5, fakeLocal}
	c03AmbLocs = []*time.Location{c03OrigLocal, time.UTC, plus5, c03Locs[2], fakeLocal}
	if ny, err := time.LoadLocation("America/New_York"); err == nil {
		c03Locs = append(c03Locs, ny) // c03Times expects the tzdata zone last
		c03AmbLocs = append(c03AmbLocs, ny)
	}
}

// c03SetLocal re-points the process-global time.Local.  Only ever called from the single goroutine
// that runs C03; every caller restores c03OrigLocal (deferred) before C03 returns.
func c03SetLocal(l *time.Location) { time.Local = l }

// the identity of the location time.Local points to right now
func c03AmbID() int { return c03LocID(time.Local) }
func c03LocID(l *time.Location) int {
	for i, x := range c03Locs {
		if x == l {
			return i
		}
	}
	return 99
}

var c03Billion = big.NewInt(1000000000)

func c03VTime(t time.Time) SX {
	inst := new(big.Int).Mul(big.NewInt(t.Unix()), c03Billion)
	inst.Add(inst, big.NewInt(int64(t.Nanosecond())))
	return L(I(8), sz{inst.String()}, I(c03LocID(t.Location())))
}

// ---------- user payload types ----------
// Every user type exposes what Go's == and reflect.DeepEqual depend on:
//   ty      dynamic type identity
//   content content class (C, F is NaN)
//   self    the content equals itself (F is not NaN)
// Pointer/slice/map kinds additionally have an identity, registered in c03Addr when created.

type c03ider interface {
	c03id() (ty int, c int64, f float64)
}

var c03Addr = map[uintptr]int64{}
var c03Keep []interface{}
var c03NextAddr int64 = 1

func c03Register(x interface{}) {
	rv := reflect.ValueOf(x)
	c03Addr[rv.Pointer()] = c03NextAddr
	c03NextAddr++
	c03Keep = append(c03Keep, x)
}

func c03note(enc zapcore.ObjectEncoder, self interface{}) error {
	if r, ok := enc.(*c03rec); ok {
		r.calls = append(r.calls, c03Call("MarshalLogObject", "", c03Proj(self)))
	}
	return nil
}

// ObjectMarshalers
type c03ObjM struct {
	C int64
	F float64
}

func (o c03ObjM) c03id() (int, int64, float64)                          { return 1, o.C, o.F }
func (o c03ObjM) MarshalLogObject(enc zapcore.ObjectEncoder) error      { return c03note(enc, o) }

type c03ObjPS struct {
	C int64
	F float64
}

func (o *c03ObjPS) c03id() (int, int64, float64) {
	if o == nil {
		return 2, 0, 0
	}
	return 2, o.C, o.F
}
func (o *c03ObjPS) MarshalLogObject(enc zapcore.ObjectEncoder) error { return c03note(enc, o) }

type c03ObjSl []float64 // uncomparable

func (o c03ObjSl) c03id() (int, int64, float64)                     { return 3, int64(o[0]), o[1] }
func (o c03ObjSl) MarshalLogObject(enc zapcore.ObjectEncoder) error { return c03note(enc, o) }

type c03ObjMap map[string]float64 // uncomparable

func (o c03ObjMap) c03id() (int, int64, float64)                     { return 4, int64(o["c"]), o["f"] }
func (o c03ObjMap) MarshalLogObject(enc zapcore.ObjectEncoder) error { return c03note(enc, o) }

// ObjectValues: the marshal method is on the pointer
type c03AddrObj struct {
	C int64
	F float64
}

func (o c03AddrObj) c03id() (int, int64, float64)                      { return 5, o.C, o.F }
func (o *c03AddrObj) MarshalLogObject(enc zapcore.ObjectEncoder) error { return c03note(enc, o) }

// ArrayMarshalers
type c03ArrM struct {
	C int64
	F float64
}

func (o c03ArrM) c03id() (int, int64, float64)                    { return 6, o.C, o.F }
func (o c03ArrM) MarshalLogArray(enc zapcore.ArrayEncoder) error { return nil }

type c03ArrSl []float64

func (o c03ArrSl) c03id() (int, int64, float64)                    { return 7, int64(o[0]), o[1] }
func (o c03ArrSl) MarshalLogArray(enc zapcore.ArrayEncoder) error { return nil }

// Stringers
type c03Stringer struct {
	C int64
	F float64
}

func (o c03Stringer) c03id() (int, int64, float64) { return 8, o.C, o.F }
func (o c03Stringer) String() string               { return fmt.Sprintf("str#%d", o.C) }

type c03StringerPS struct {
	C int64
	F float64
}

func (o *c03StringerPS) c03id() (int, int64, float64) {
	if o == nil {
		return 9, 0, 0
	}
	return 9, o.C, o.F
}
func (o *c03StringerPS) String() string {
	if o == nil {
		return "str#nilptr"
	}
	return fmt.Sprintf("strp#%d", o.C)
}

type c03StringerSl []float64

func (o c03StringerSl) c03id() (int, int64, float64) { return 10, int64(o[0]), o[1] }
func (o c03StringerSl) String() string               { return fmt.Sprintf("strsl#%d", int64(o[0])) }

type c03StringerMap map[string]float64

func (o c03StringerMap) c03id() (int, int64, float64) { return 11, int64(o["c"]), o["f"] }
func (o c03StringerMap) String() string               { return fmt.Sprintf("strmap#%d", int64(o["c"])) }

// errors.  An error value is more than its Error() text: zapcore.encodeError also looks at whether
// the dynamic type is a fmt.Formatter (%+v -> key+"Verbose"), whether it is an error group
// (Errors() []error -> key+"Causes"), whether calling Error() panics and whether the value is a nil
// pointer ("<nil>").  Every error type below has all of that determined by (type, C); c03EInfo reads
// it off the value with the standard library only (never through zap).
//
// plain: no Formatter, no members
type c03Err struct {
	C int64
	F float64
}

func (o c03Err) c03id() (int, int64, float64) { return 12, o.C, o.F }
func (o c03Err) Error() string                { return fmt.Sprintf("err#%d", o.C) }

type c03ErrPS struct {
	C int64
	F float64
}

func (o *c03ErrPS) c03id() (int, int64, float64) {
	if o == nil {
		return 13, 0, 0
	}
	return 13, o.C, o.F
}
func (o *c03ErrPS) Error() string {
	if o == nil {
		return "err#nilptr"
	}
	return fmt.Sprintf("errp#%d", o.C)
}

type c03ErrSl []float64

func (o c03ErrSl) c03id() (int, int64, float64) { return 14, int64(o[0]), o[1] }
func (o c03ErrSl) Error() string                { return fmt.Sprintf("errsl#%d", int64(o[0])) }

// a fmt.Formatter whose %+v form differs from Error() (github.com/pkg/errors style)
type c03ErrFmt struct {
	C int64
	F float64
}

func (o c03ErrFmt) c03id() (int, int64, float64) { return 24, o.C, o.F }
func (o c03ErrFmt) Error() string                { return fmt.Sprintf("efmt#%d", o.C) }
func (o c03ErrFmt) Format(s fmt.State, verb rune) {
	if verb == 'v' && s.Flag('+') {
		fmt.Fprintf(s, "efmt#%d\n  at frame.go:%d", o.C, 40+o.C)
		return
	}
	fmt.Fprint(s, o.Error())
}

// a fmt.Formatter whose %+v form IS Error(): no Verbose entry
type c03ErrFmtSame struct {
	C int64
	F float64
}

func (o c03ErrFmtSame) c03id() (int, int64, float64)    { return 25, o.C, o.F }
func (o c03ErrFmtSame) Error() string                   { return fmt.Sprintf("esame#%d", o.C) }
func (o c03ErrFmtSame) Format(s fmt.State, verb rune)   { fmt.Fprint(s, o.Error()) }

// a fmt.Formatter on the pointer; nil-safe
type c03ErrFmtPS struct {
	C int64
	F float64
}

func (o *c03ErrFmtPS) c03id() (int, int64, float64) {
	if o == nil {
		return 26, 0, 0
	}
	return 26, o.C, o.F
}
func (o *c03ErrFmtPS) Error() string {
	if o == nil {
		return "efmtp#nilptr"
	}
	return fmt.Sprintf("efmtp#%d", o.C)
}
func (o *c03ErrFmtPS) Format(s fmt.State, verb rune) {
	fmt.Fprint(s, o.Error())
	if verb == 'v' && s.Flag('+') {
		fmt.Fprint(s, " +detail")
	}
}

// an error group (go.uber.org/multierr style): the members are a function of C
type c03ErrGroup struct {
	C int64
	F float64
}

func (o c03ErrGroup) c03id() (int, int64, float64) { return 27, o.C, o.F }
func (o c03ErrGroup) Error() string                { return fmt.Sprintf("egroup#%d", o.C) }
func (o c03ErrGroup) Errors() []error              { return c03GroupMembers(o.C) }

func c03GroupMembers(c int64) []error {
	switch ((c % 4) + 4) % 4 {
	case 0: // an empty group
		return []error{}
	case 1: // nil members are skipped; a Formatter member keeps its Verbose entry
		return []error{c03Err{c, 0}, nil, c03ErrFmt{c, 0}, nil}
	case 2: // a nil pointer member, a group inside a group, a group that is also a Formatter
		return []error{(*c03ErrV)(nil), c03ErrGroup{1, 0}, c03ErrMulti{1, 0}, c03ErrFmtSame{c, 0}}
	default: // a member whose Error() panics ends the array
		return []error{c03Err{c, 0}, c03ErrGroup{1, 0}, c03ErrPanic{c, 0}, c03Err{c + 1, 0}}
	}
}

// an uncomparable group that is also a fmt.Formatter (multierr's own error type is both): the group wins
type c03ErrMulti []float64

func (o c03ErrMulti) c03id() (int, int64, float64) { return 28, int64(o[0]), o[1] }
func (o c03ErrMulti) Error() string                { return fmt.Sprintf("emulti#%d", int64(o[0])) }
func (o c03ErrMulti) Errors() []error {
	return []error{c03ErrFmt{int64(o[0]), 0}, c03Err{int64(o[0]) + 1, 0}}
}
func (o c03ErrMulti) Format(s fmt.State, verb rune) {
	fmt.Fprint(s, o.Error())
	if verb == 'v' && s.Flag('+') {
		fmt.Fprint(s, " (2 members)")
	}
}

// Error has a VALUE receiver and the error is held by pointer: on a nil pointer calling Error()
// panics (zap renders "<nil>"); on a non-nil pointer it is a plain error
type c03ErrV struct {
	C int64
	F float64
}

func (o *c03ErrV) c03id() (int, int64, float64) {
	if o == nil {
		return 29, 0, 0
	}
	return 29, o.C, o.F
}
func (o c03ErrV) Error() string { return fmt.Sprintf("errv#%d", o.C) }

// the same for a type that is also a fmt.Formatter (value receivers throughout)
type c03ErrFmtV struct {
	C int64
	F float64
}

func (o *c03ErrFmtV) c03id() (int, int64, float64) {
	if o == nil {
		return 30, 0, 0
	}
	return 30, o.C, o.F
}
func (o c03ErrFmtV) Error() string { return fmt.Sprintf("efmtv#%d", o.C) }
func (o c03ErrFmtV) Format(s fmt.State, verb rune) {
	fmt.Fprint(s, o.Error())
	if verb == 'v' && s.Flag('+') {
		fmt.Fprint(s, "\n\tstack")
	}
}

// Error() panics on a value that is not a nil pointer (zap reports it under key+"Error")
type c03ErrPanic struct {
	C int64
	F float64
}

func (o c03ErrPanic) c03id() (int, int64, float64) { return 31, o.C, o.F }
func (o c03ErrPanic) Error() string                { panic(fmt.Sprintf("boom#%d", o.C)) }

type c03ErrPanicPS struct {
	C int64
	F float64
}

func (o *c03ErrPanicPS) c03id() (int, int64, float64) {
	if o == nil {
		return 32, 0, 0
	}
	return 32, o.C, o.F
}
func (o *c03ErrPanicPS) Error() string { panic(fmt.Errorf("boomp#%d", o.C)) }

// c03EInfo: what an error value exposes, in the encoding of C03/Model.v einfo_of_sx
//
//	#msg                                   Error() returns msg; not a Formatter, not a group
//	(0 #msg () | (#verbose)  () | ((m..))) Error() returns msg; fmt.Formatter: %+v text; group: members (0 = nil)
//	(1)                                    a nil pointer on which Error() panics
//	(2 #text)                              Error() panics otherwise; text = the panic value under %v
//
// Obtained by calling the value's own methods and fmt -- an oracle independent of zap.
func c03EInfo(err error) SX {
	msg, pv, panicked := c03CallError(err)
	if panicked {
		if rv := reflect.ValueOf(err); rv.Kind() == reflect.Ptr && rv.IsNil() {
			return L(I(1))
		}
		return L(I(2), Str(fmt.Sprint(pv)))
	}
	verbose, members := L(), L()
	plain := true
	if g, ok := err.(interface{ Errors() []error }); ok {
		plain = false
		var ms []SX
		for _, m := range g.Errors() {
			if m == nil {
				ms = append(ms, I(0))
			} else {
				ms = append(ms, c03EInfo(m))
			}
		}
		members = L(L(ms...))
	}
	if f, ok := err.(fmt.Formatter); ok {
		plain = false
		verbose = L(Str(fmt.Sprintf("%+v", f)))
	}
	if plain {
		return Str(msg)
	}
	return L(I(0), Str(msg), verbose, members)
}

func c03CallError(err error) (msg string, pv interface{}, panicked bool) {
	defer func() {
		if p := recover(); p != nil {
			pv, panicked = p, true
		}
	}()
	return err.Error(), nil, false
}

// several interfaces at once (zap.Any's priority)
type c03ObjStrErr struct {
	C int64
	F float64
}

func (o c03ObjStrErr) c03id() (int, int64, float64)                          { return 15, o.C, o.F }
func (o c03ObjStrErr) MarshalLogObject(enc zapcore.ObjectEncoder) error      { return c03note(enc, o) }
func (o c03ObjStrErr) String() string                                        { return fmt.Sprintf("ose-s#%d", o.C) }
func (o c03ObjStrErr) Error() string                                         { return fmt.Sprintf("ose-e#%d", o.C) }

type c03ArrErr struct {
	C int64
	F float64
}

func (o c03ArrErr) c03id() (int, int64, float64)                    { return 16, o.C, o.F }
func (o c03ArrErr) MarshalLogArray(enc zapcore.ArrayEncoder) error { return nil }
func (o c03ArrErr) Error() string                                  { return fmt.Sprintf("ae-e#%d", o.C) }

type c03ErrStr struct {
	C int64
	F float64
}

func (o c03ErrStr) c03id() (int, int64, float64) { return 17, o.C, o.F }
func (o c03ErrStr) Error() string                { return fmt.Sprintf("es-e#%d", o.C) }
func (o c03ErrStr) String() string               { return fmt.Sprintf("es-s#%d", o.C) }

type c03ObjArr struct {
	C int64
	F float64
}

func (o c03ObjArr) c03id() (int, int64, float64)                          { return 18, o.C, o.F }
func (o c03ObjArr) MarshalLogObject(enc zapcore.ObjectEncoder) error      { return c03note(enc, o) }
func (o c03ObjArr) MarshalLogArray(enc zapcore.ArrayEncoder) error       { return nil }

// reflection only
type c03Plain struct {
	C int64
	F float64
}

func (o c03Plain) c03id() (int, int64, float64) { return 19, o.C, o.F }

type c03PlainPS struct {
	C int64
	F float64
}

func (o *c03PlainPS) c03id() (int, int64, float64) {
	if o == nil {
		return 20, 0, 0
	}
	return 20, o.C, o.F
}

type c03PlainMap map[string]float64

func (o c03PlainMap) c03id() (int, int64, float64) { return 21, int64(o["c"]), o["f"] }

// named scalar types that zap.Any does not list (reflection)
type c03NamedInt int
type c03NamedDur time.Duration // not a Stringer: methods are not inherited

func (o c03NamedInt) c03id() (int, int64, float64) { return 22, int64(o), 0 }
func (o c03NamedDur) c03id() (int, int64, float64) { return 23, int64(o), 0 }

// string-like types of zapfield
type c03KeyT string
type c03StrT string

func c03Opq(x interface{}) SX {
	id := x.(c03ider)
	rv := reflect.ValueOf(x)
	ty, c, f := id.c03id()
	addr := int64(0)
	switch rv.Kind() {
	case reflect.Ptr, reflect.Map, reflect.Slice:
		if rv.IsNil() {
			addr = -1
		} else if a, ok := c03Addr[rv.Pointer()]; ok {
			addr = a
		} else {
			addr = -2 // unregistered: never equal to a registered identity (reported by the model as mismatch)
		}
	}
	nan := f != f
	content := c * 2
	if nan {
		content++
	}
	if addr == -1 {
		content = -1 // a nil pointer is deeply equal only to another nil pointer
	}
	str, es := "", Str("")
	if st, ok := x.(fmt.Stringer); ok {
		str = st.String()
	}
	if e, ok := x.(error); ok {
		es = c03EInfo(e)
	}
	return L(I(10), I(ty), Z(addr), Z(content), Bool(rv.Type().Comparable()), Bool(!nan), Str(str), es)
}

var c03FieldType = reflect.TypeOf(zapcore.Field{})
var c03TimeType = reflect.TypeOf(time.Time{})
var c03LocPtrType = reflect.TypeOf((*time.Location)(nil))
var c03IderType = reflect.TypeOf((*c03ider)(nil)).Elem()

func c03ProjField(f zapcore.Field) SX {
	return L(I(15), I(int(f.Type)), Str(f.Key), Z(f.Integer), Str(f.String), c03Proj(f.Interface))
}

// projection of an arbitrary Go value (a Field.Interface payload, an encoder argument)
func c03Proj(x interface{}) SX {
	if x == nil {
		return c03VNil()
	}
	return c03ProjRV(reflect.ValueOf(x))
}

func c03ProjRV(rv reflect.Value) SX {
	t := rv.Type()
	switch {
	case t == c03FieldType:
		return c03ProjField(rv.Interface().(zapcore.Field))
	case t == c03TimeType:
		return c03VTime(rv.Interface().(time.Time))
	case t == c03LocPtrType:
		return L(I(9), I(c03LocID(rv.Interface().(*time.Location))))
	case t == reflect.TypeOf(&c03AddrObj{}):
		if rv.IsNil() {
			return c03VNil()
		}
		if a, i, ok := c03ElemIndex(rv.Pointer()); ok {
			return c03VRef(a, i, c03Opq(rv.Elem().Interface()))
		}
		return c03VPtr(c03Opq(rv.Elem().Interface()))
	case t.Implements(c03IderType):
		return c03Opq(rv.Interface())
	}
	switch rv.Kind() {
	case reflect.Interface:
		if rv.IsNil() {
			return c03VNil()
		}
		return c03ProjRV(rv.Elem())
	case reflect.Bool:
		return c03VBool(rv.Bool())
	case reflect.Int, reflect.Int8, reflect.Int16, reflect.Int32, reflect.Int64:
		return c03VI(rv.Int())
	case reflect.Uint, reflect.Uint8, reflect.Uint16, reflect.Uint32, reflect.Uint64, reflect.Uintptr:
		return c03VU(rv.Uint())
	case reflect.Float64:
		return c03VF64(math.Float64bits(rv.Float()))
	case reflect.Float32:
		// rv.Float() would convert to float64 and quiet a signalling NaN: read the bits directly
		p := reflect.New(t)
		p.Elem().Set(rv)
		return c03VF32(math.Float32bits(*(p.Convert(reflect.TypeOf((*float32)(nil))).Interface().(*float32))))
	case reflect.Complex128:
		return c03VC128(rv.Complex())
	case reflect.Complex64:
		p := reflect.New(t)
		p.Elem().Set(rv)
		return c03VC64(*(p.Convert(reflect.TypeOf((*complex64)(nil))).Interface().(*complex64)))
	case reflect.String:
		return c03VStr(rv.String())
	case reflect.Ptr:
		if rv.IsNil() {
			return c03VNil()
		}
		return c03VPtr(c03ProjRV(rv.Elem()))
	case reflect.Slice:
		if t.Elem().Kind() == reflect.Uint8 && t.Name() == "" {
			return c03VBytes(rv.Bytes())
		}
		l := make([]SX, rv.Len())
		for i := range l {
			l[i] = c03ProjRV(rv.Index(i))
		}
		s := c03VSlice(rv, l)
		if n := t.Name(); n != "" && strings.Contains(t.PkgPath(), "go.uber.org/zap") {
			if i := strings.IndexByte(n, '['); i >= 0 {
				n = n[:i]
			}
			if strings.HasSuffix(t.PkgPath(), "zapfield") {
				n = "zapfield." + n
			}
			return c03VWrap(n, s)
		}
		return s
	}
	return L(I(6), Str("unprojectable:"+t.String()))
}

// ---------- recording encoder ----------

// The recording encoder KEEPS the user marshalers it is handed and looks at them only when the
// marshaler that delivered them has returned (finish), as an encoder that buffers, samples or
// encodes asynchronously does: what it then finds must still be the caller's value.  zap's own
// marshalers (wrapper slices, the pooled errArrayElem) are run on the spot -- they are zap's code.
type c03kept struct {
	at   int
	m, k string
	v    interface{}
}

type c03rec struct {
	calls []SX
	kept  []c03kept
}

func (r *c03rec) add(m, k string, v SX) { r.calls = append(r.calls, c03Call(m, k, v)) }

func (r *c03rec) keep(m, k string, v interface{}) {
	r.kept = append(r.kept, c03kept{len(r.calls), m, k, v})
	r.calls = append(r.calls, nil)
}

func (r *c03rec) finish() {
	for _, d := range r.kept {
		r.calls[d.at] = c03Call(d.m, d.k, c03Proj(d.v))
	}
	r.kept = nil
}

func c03IsUser(x interface{}) bool {
	_, ok := x.(c03ider)
	return ok
}

func (r *c03rec) AddArray(k string, m zapcore.ArrayMarshaler) error {
	if c03IsUser(m) {
		r.keep("AddArray", k, m)
		return nil
	}
	sub := &c03rec{}
	err := m.MarshalLogArray(sub)
	sub.finish()
	r.add("AddArray", k, c03VCalls(sub.calls))
	return err
}
func (r *c03rec) AddObject(k string, m zapcore.ObjectMarshaler) error {
	if c03IsUser(m) {
		r.keep("AddObject", k, m)
		return nil
	}
	sub := &c03rec{}
	err := m.MarshalLogObject(sub)
	sub.finish()
	r.add("AddObject", k, c03VCalls(sub.calls))
	return err
}
func (r *c03rec) AddBinary(k string, v []byte)          { r.add("AddBinary", k, c03VBytes(v)) }
func (r *c03rec) AddByteString(k string, v []byte)      { r.add("AddByteString", k, c03VBytes(v)) }
func (r *c03rec) AddBool(k string, v bool)              { r.add("AddBool", k, c03VBool(v)) }
func (r *c03rec) AddComplex128(k string, v complex128)  { r.add("AddComplex128", k, c03VC128(v)) }
func (r *c03rec) AddComplex64(k string, v complex64)    { r.add("AddComplex64", k, c03VC64(v)) }
func (r *c03rec) AddDuration(k string, v time.Duration) { r.add("AddDuration", k, c03VI(int64(v))) }
func (r *c03rec) AddFloat64(k string, v float64)        { r.add("AddFloat64", k, c03VF64(math.Float64bits(v))) }
func (r *c03rec) AddFloat32(k string, v float32)        { r.add("AddFloat32", k, c03VF32(math.Float32bits(v))) }
func (r *c03rec) AddInt(k string, v int)                { r.add("AddInt", k, c03VI(int64(v))) }
func (r *c03rec) AddInt64(k string, v int64)            { r.add("AddInt64", k, c03VI(v)) }
func (r *c03rec) AddInt32(k string, v int32)            { r.add("AddInt32", k, c03VI(int64(v))) }
func (r *c03rec) AddInt16(k string, v int16)            { r.add("AddInt16", k, c03VI(int64(v))) }
func (r *c03rec) AddInt8(k string, v int8)              { r.add("AddInt8", k, c03VI(int64(v))) }
func (r *c03rec) AddString(k, v string)                 { r.add("AddString", k, c03VStr(v)) }
func (r *c03rec) AddTime(k string, v time.Time)         { r.add("AddTime", k, c03VTime(v)) }
func (r *c03rec) AddUint(k string, v uint)              { r.add("AddUint", k, c03VU(uint64(v))) }
func (r *c03rec) AddUint64(k string, v uint64)          { r.add("AddUint64", k, c03VU(v)) }
func (r *c03rec) AddUint32(k string, v uint32)          { r.add("AddUint32", k, c03VU(uint64(v))) }
func (r *c03rec) AddUint16(k string, v uint16)          { r.add("AddUint16", k, c03VU(uint64(v))) }
func (r *c03rec) AddUint8(k string, v uint8)            { r.add("AddUint8", k, c03VU(uint64(v))) }
func (r *c03rec) AddUintptr(k string, v uintptr)        { r.add("AddUintptr", k, c03VU(uint64(v))) }
func (r *c03rec) AddReflected(k string, v interface{}) error {
	r.add("AddReflected", k, c03Proj(v))
	return nil
}
func (r *c03rec) OpenNamespace(k string) { r.add("OpenNamespace", k, c03VNil()) }

func (r *c03rec) AppendArray(m zapcore.ArrayMarshaler) error {
	if c03IsUser(m) {
		r.keep("AppendArray", "", m)
		return nil
	}
	sub := &c03rec{}
	err := m.MarshalLogArray(sub)
	sub.finish()
	r.add("AppendArray", "", c03VCalls(sub.calls))
	return err
}
func (r *c03rec) AppendObject(m zapcore.ObjectMarshaler) error {
	if c03IsUser(m) {
		r.keep("AppendObject", "", m)
		return nil
	}
	sub := &c03rec{}
	err := m.MarshalLogObject(sub)
	sub.finish()
	r.add("AppendObject", "", c03VCalls(sub.calls))
	return err
}
func (r *c03rec) AppendReflected(v interface{}) error {
	r.add("AppendReflected", "", c03Proj(v))
	return nil
}
func (r *c03rec) AppendBool(v bool)              { r.add("AppendBool", "", c03VBool(v)) }
func (r *c03rec) AppendByteString(v []byte)      { r.add("AppendByteString", "", c03VBytes(v)) }
func (r *c03rec) AppendComplex128(v complex128)  { r.add("AppendComplex128", "", c03VC128(v)) }
func (r *c03rec) AppendComplex64(v complex64)    { r.add("AppendComplex64", "", c03VC64(v)) }
func (r *c03rec) AppendDuration(v time.Duration) { r.add("AppendDuration", "", c03VI(int64(v))) }
func (r *c03rec) AppendFloat64(v float64)        { r.add("AppendFloat64", "", c03VF64(math.Float64bits(v))) }
func (r *c03rec) AppendFloat32(v float32)        { r.add("AppendFloat32", "", c03VF32(math.Float32bits(v))) }
func (r *c03rec) AppendInt(v int)                { r.add("AppendInt", "", c03VI(int64(v))) }
func (r *c03rec) AppendInt64(v int64)            { r.add("AppendInt64", "", c03VI(v)) }
func (r *c03rec) AppendInt32(v int32)            { r.add("AppendInt32", "", c03VI(int64(v))) }
func (r *c03rec) AppendInt16(v int16)            { r.add("AppendInt16", "", c03VI(int64(v))) }
func (r *c03rec) AppendInt8(v int8)              { r.add("AppendInt8", "", c03VI(int64(v))) }
func (r *c03rec) AppendString(v string)          { r.add("AppendString", "", c03VStr(v)) }
func (r *c03rec) AppendTime(v time.Time)         { r.add("AppendTime", "", c03VTime(v)) }
func (r *c03rec) AppendUint(v uint)              { r.add("AppendUint", "", c03VU(uint64(v))) }
func (r *c03rec) AppendUint64(v uint64)          { r.add("AppendUint64", "", c03VU(v)) }
func (r *c03rec) AppendUint32(v uint32)          { r.add("AppendUint32", "", c03VU(uint64(v))) }
func (r *c03rec) AppendUint16(v uint16)          { r.add("AppendUint16", "", c03VU(uint64(v))) }
func (r *c03rec) AppendUint8(v uint8)            { r.add("AppendUint8", "", c03VU(uint64(v))) }
func (r *c03rec) AppendUintptr(v uintptr)        { r.add("AppendUintptr", "", c03VU(uint64(v))) }

var _ zapcore.ObjectEncoder = (*c03rec)(nil)
var _ zapcore.ArrayEncoder = (*c03rec)(nil)

package main

import (
	"bytes"
	"fmt"
	"io"
	"log"
	"runtime"
	"sync"
	"sync/atomic"
	"time"

	"go.uber.org/zap"
	"go.uber.org/zap/zapcore"
	"go.uber.org/zap/zapio"
	"go.uber.org/zap/zaptest"
	"go.uber.org/zap/zaptest/observer"
)

// C13: writers and WriteSyncer combinators honour the io.Writer contract.
// Case kinds (see coq/theories/C13/Model.v, "wire"):
//   (1 <expr> #p)                  combinators built by AddSync/Lock/NewMultiWriteSyncer/CombineWriteSyncers
//   (2 0 en #p #trimspace)         std-log bridge writer (zap.NewStdLog(..).Writer())
//   (2 1 markFailed #p)            zaptest.TestingWriter
//   (2 2 en (#p ..))               zapio.Writer
//   (2 3 size (op ..))             zapcore.BufferedWriteSyncer over an accepting sink
//   (2 4 size (fop ..))            zapcore.BufferedWriteSyncer over a scripted sink (c13_bwsfault.go)
//   (3 ((k ..) ..) (tid ..) var)   goroutines hammering Lock(sink)
//   (4 mode root (step ..) (((h k) ..) ..) (tid ..))
//                                  several handles onto one sink (c13_handles.go)

// ---------------------------------------------------------------- combinators

type c13err struct{ id int }

func (e *c13err) Error() string { return fmt.Sprintf("c13err#%d", e.id) }

// flattened atomic error ids of an error value (multierr exposes Errors() []error)
func c13errIDs(err error) []int {
	if err == nil {
		return []int{}
	}
	if g, ok := err.(interface{ Errors() []error }); ok {
		out := []int{}
		for _, e := range g.Errors() {
			out = append(out, c13errIDs(e)...)
		}
		return out
	}
	if a, ok := err.(*c13err); ok {
		return []int{a.id}
	}
	return []int{-1}
}

type c13locker interface {
	TryLock() bool
	Unlock()
}

// one recorder per case: the zap mutexes created while building the object, and
// everything the sinks see
type c13rec struct {
	lockers []c13locker
	seen    map[interface{}]bool
	wev     []SX
	sev     []SX
}

// number of zap mutexes held around the current sink call
func (r *c13rec) depth() int {
	d := 0
	for _, l := range r.lockers {
		if l.TryLock() {
			l.Unlock()
		} else {
			d++
		}
	}
	return d
}
func (r *c13rec) register(v interface{}) {
	if l, ok := v.(c13locker); ok {
		if !r.seen[v] {
			r.seen[v] = true
			r.lockers = append(r.lockers, l)
		}
	}
}

// a sink without a Sync method
type c13writer struct {
	r    *c13rec
	id   int
	n    int
	werr error
}

func (s *c13writer) Write(p []byte) (int, error) {
	s.r.wev = append(s.r.wev, L(I(s.id), B(p), I(s.r.depth())))
	return s.n, s.werr
}

// a sink with a Sync method
type c13syncer struct {
	c13writer
	serr error
}

func (s *c13syncer) Sync() error {
	s.r.sev = append(s.r.sev, L(I(s.id), I(s.r.depth())))
	return s.serr
}

type c13expr struct {
	kind   int // 0 leaf 1 discard 2 AddSync 3 Lock 4 NewMulti 5 Combine
	id     int
	hs     bool
	n      int
	we, se []int // atomic error ids (at most one each when built by the generators)
	sub    []*c13expr
}

func (e *c13expr) sx() SX {
	switch e.kind {
	case 0:
		return L(I(0), I(e.id), Bool(e.hs), I(e.n), LI(e.we), LI(e.se))
	case 1:
		return L(I(1))
	case 2, 3:
		return L(I(e.kind), e.sub[0].sx())
	default:
		xs := make([]SX, len(e.sub))
		for i, s := range e.sub {
			xs[i] = s.sx()
		}
		return L(I(e.kind), L(xs...))
	}
}
func (e *c13expr) leaves() int {
	if e.kind == 0 {
		return 1
	}
	k := 0
	for _, s := range e.sub {
		k += s.leaves()
	}
	return k
}
func (e *c13expr) faulty(lenp int) bool {
	if e.kind == 0 {
		return e.n != lenp || len(e.we) > 0 || len(e.se) > 0
	}
	for _, s := range e.sub {
		if s.faulty(lenp) {
			return true
		}
	}
	return false
}

func c13mkerr(ids []int) error {
	if len(ids) == 0 {
		return nil
	}
	return &c13err{ids[0]}
}

// build the REAL object; the static Go type of every intermediate is respected
// (io.Writer only for AddSync's argument)
func (e *c13expr) build(r *c13rec) io.Writer {
	var out io.Writer
	switch e.kind {
	case 0:
		w := c13writer{r: r, id: e.id, n: e.n, werr: c13mkerr(e.we)}
		if e.hs {
			out = &c13syncer{c13writer: w, serr: c13mkerr(e.se)}
		} else {
			out = &w
		}
	case 1:
		out = io.Discard
	case 2:
		out = zapcore.AddSync(e.sub[0].build(r))
	case 3:
		out = zapcore.Lock(e.sub[0].build(r).(zapcore.WriteSyncer))
	case 4, 5:
		ws := make([]zapcore.WriteSyncer, len(e.sub))
		for i, s := range e.sub {
			ws[i] = s.build(r).(zapcore.WriteSyncer)
		}
		if e.kind == 4 {
			out = zapcore.NewMultiWriteSyncer(ws...)
		} else {
			out = zap.CombineWriteSyncers(ws...)
		}
	}
	r.register(out)
	return out
}

func c13comb(c *Ctx, e *c13expr, p []byte, class string) {
	r := &c13rec{seen: map[interface{}]bool{}}
	obj := e.build(r).(zapcore.WriteSyncer)
	n, werr := obj.Write(p)
	serr := obj.Sync()
	obs := L(I(n), LI(c13errIDs(werr)), L(r.wev...), LI(c13errIDs(serr)), L(r.sev...))
	nt := "0"
	if e.leaves() >= 2 && e.faulty(len(p)) {
		nt = "1"
	}
	c.Emit(L(I(1), e.sx(), B(p)), obs, map[string]string{"nt": nt, "class": class, "leaves": fmt.Sprint(e.leaves())})
}

func c13leaf(id int, hs bool, n int, we, se bool) *c13expr {
	e := &c13expr{kind: 0, id: id, hs: hs, n: n, we: []int{}, se: []int{}}
	if we {
		e.we = []int{id*10 + 1}
	}
	if se {
		e.se = []int{id*10 + 2}
	}
	return e
}
func c13un(kind int, e *c13expr) *c13expr       { return &c13expr{kind: kind, sub: []*c13expr{e}} }
func c13nary(kind int, es ...*c13expr) *c13expr { return &c13expr{kind: kind, sub: es} }

// random well-typed construction program; syncer: the result must be a WriteSyncer
func c13gen(r *RNG, depth int, syncer bool, nextID *int, lenp int) *c13expr {
	leaf := func(hs bool) *c13expr {
		*nextID++
		n := lenp
		switch r.Intn(5) {
		case 0:
			n = 0
		case 1, 2:
			n = r.Intn(lenp + 1)
		}
		return c13leaf(*nextID, hs, n, r.Chance(35), r.Chance(35))
	}
	if depth <= 0 {
		if syncer {
			return leaf(true)
		}
		if r.Chance(10) {
			return &c13expr{kind: 1}
		}
		return leaf(r.Bool())
	}
	x := r.Intn(100)
	switch {
	case x < 15:
		if syncer {
			return leaf(true)
		}
		return leaf(r.Bool())
	case x < 35:
		return c13un(2, c13gen(r, depth-1, false, nextID, lenp))
	case x < 60:
		return c13un(3, c13gen(r, depth-1, true, nextID, lenp))
	default:
		k := r.Intn(5)
		if r.Chance(10) {
			k = r.Range(5, 12)
		}
		es := make([]*c13expr, k)
		for i := range es {
			es[i] = c13gen(r, depth-1, true, nextID, lenp)
		}
		if x < 85 {
			return c13nary(4, es...)
		}
		return c13nary(5, es...)
	}
}

// ---------------------------------------------------------------- writers

func c13stdlog(c *Ctx, variant int, en bool, p []byte, class string) {
	lvl := zapcore.InfoLevel
	if !en {
		lvl = zapcore.ErrorLevel
	}
	core, logs := observer.New(lvl)
	l := zap.New(core)
	var w io.Writer
	restore := func() {}
	switch variant {
	case 0:
		w = zap.NewStdLog(l).Writer()
	case 1:
		std, err := zap.NewStdLogAt(l, zapcore.InfoLevel)
		if err != nil {
			c.Viol("NewStdLogAt(InfoLevel) failed: "+err.Error(), L(I(2), I(0)))
			return
		}
		w = std.Writer()
	default:
		restore = zap.RedirectStdLog(l)
		w = log.Writer()
	}
	n, err := w.Write(p)
	restore()
	e := 0
	if err != nil {
		e = 1
	}
	var msgs [][]byte
	for _, ent := range logs.All() {
		msgs = append(msgs, []byte(ent.Message))
	}
	nt := "0"
	if len(bytes.TrimSpace(p)) != len(p) {
		nt = "1"
	}
	c.Emit(L(I(2), I(0), Bool(en), B(p), B(bytes.TrimSpace(p))), L(I(n), I(e), LB(msgs)),
		map[string]string{"nt": nt, "class": class, "variant": fmt.Sprint(variant)})
}

type c13tb struct {
	logs   [][]byte
	failed bool
}

func (t *c13tb) Logf(f string, a ...interface{}) {
	t.logs = append(t.logs, []byte(fmt.Sprintf(f, a...)))
}
func (t *c13tb) Errorf(f string, a ...interface{}) { t.failed = true; t.Logf(f, a...) }
func (t *c13tb) Fail()                             { t.failed = true }
func (t *c13tb) Failed() bool                      { return t.failed }
func (t *c13tb) Name() string                      { return "c13" }
func (t *c13tb) FailNow()                          { t.failed = true }

func c13testing(c *Ctx, mf bool, p []byte, class string) {
	tb := &c13tb{}
	var w io.Writer = zaptest.NewTestingWriter(tb).WithMarkFailed(mf)
	n, err := w.Write(p)
	e := 0
	if err != nil {
		e = 1
	}
	nt := "0"
	if len(p) > 0 && p[len(p)-1] == '\n' {
		nt = "1"
	}
	c.Emit(L(I(2), I(1), Bool(mf), B(p)), L(I(n), I(e), LB(tb.logs), Bool(tb.failed)),
		map[string]string{"nt": nt, "class": class})
}

func c13zapio(c *Ctx, en bool, ps [][]byte, class string) {
	lvl := zapcore.InfoLevel
	if !en {
		lvl = zapcore.ErrorLevel
	}
	core, _ := observer.New(lvl)
	var w io.Writer = &zapio.Writer{Log: zap.New(core), Level: zapcore.InfoLevel}
	ns, es := []int{}, []int{}
	for _, p := range ps {
		n, err := w.Write(p)
		ns = append(ns, n)
		if err != nil {
			es = append(es, 1)
		} else {
			es = append(es, 0)
		}
	}
	nt := "0"
	if len(ps) >= 2 {
		nt = "1"
	}
	c.Emit(L(I(2), I(2), Bool(en), LB(ps)), L(LI(ns), LI(es)), map[string]string{"nt": nt, "class": class})
}

type c13clock struct{}

func (c13clock) Now() time.Time { return time.Unix(0, 0) }
func (c13clock) NewTicker(time.Duration) *time.Ticker {
	return &time.Ticker{C: make(chan time.Time)} // never fires
}

type c13sink struct {
	mu sync.Mutex
	ev []SX
}

func (s *c13sink) Write(p []byte) (int, error) {
	s.mu.Lock()
	s.ev = append(s.ev, B(p))
	s.mu.Unlock()
	return len(p), nil
}
func (s *c13sink) Sync() error {
	s.mu.Lock()
	s.ev = append(s.ev, I(0))
	s.mu.Unlock()
	return nil
}

type c13bop struct {
	kind int // 0 write 1 sync 2 stop
	p    []byte
}

func c13bws(c *Ctx, size int, ops []c13bop, class string) {
	sink := &c13sink{}
	b := &zapcore.BufferedWriteSyncer{WS: sink, Size: size, Clock: c13clock{}}
	ns, es := []int{}, []int{}
	xs := make([]SX, len(ops))
	writes := 0
	for i, o := range ops {
		switch o.kind {
		case 0:
			n, err := b.Write(o.p)
			ns = append(ns, n)
			if err != nil {
				es = append(es, 1)
			} else {
				es = append(es, 0)
			}
			xs[i] = L(I(0), B(o.p))
			writes++
		case 1:
			if err := b.Sync(); err != nil {
				c.Viol("BufferedWriteSyncer.Sync failed over an accepting sink: "+err.Error(), L(I(2), I(3), I(size)))
			}
			xs[i] = L(I(1))
		default:
			if err := b.Stop(); err != nil {
				c.Viol("BufferedWriteSyncer.Stop failed over an accepting sink: "+err.Error(), L(I(2), I(3), I(size)))
			}
			xs[i] = L(I(2))
		}
	}
	sink.mu.Lock()
	ev := append([]SX(nil), sink.ev...)
	sink.mu.Unlock()
	b.Stop() // not observed: ends the flush goroutine
	nt := "0"
	if writes >= 2 {
		nt = "1"
	}
	c.Emit(L(I(2), I(3), I(size), L(xs...)), L(LI(ns), LI(es), L(ev...)),
		map[string]string{"nt": nt, "class": class, "ops": fmt.Sprint(len(ops))})
}

// ---------------------------------------------------------------- Lock under concurrency

// the sink counts the calls in flight (Write and Sync share the counter)
type c13flight struct {
	cur, max, fin int64
	spin          int
}

func (s *c13flight) enter() {
	v := atomic.AddInt64(&s.cur, 1)
	for {
		m := atomic.LoadInt64(&s.max)
		if v <= m || atomic.CompareAndSwapInt64(&s.max, m, v) {
			break
		}
	}
	for i := 0; i < s.spin; i++ {
		runtime.Gosched()
	}
}
func (s *c13flight) leave() {
	atomic.AddInt64(&s.fin, 1)
	atomic.AddInt64(&s.cur, -1)
}
func (s *c13flight) Write(p []byte) (int, error) { s.enter(); s.leave(); return len(p), nil }
func (s *c13flight) Sync() error                 { s.enter(); s.leave(); return nil }

func c13conc(c *Ctx, r *RNG, prog [][]int, variant int, class string) {
	sink := &c13flight{spin: 2}
	var ws zapcore.WriteSyncer
	switch variant {
	case 0:
		ws = zapcore.Lock(sink)
	case 1:
		ws = zapcore.Lock(zapcore.Lock(zapcore.AddSync(sink)))
	default:
		ws = zap.CombineWriteSyncers(sink)
	}
	var wg sync.WaitGroup
	start := make(chan struct{})
	for _, ops := range prog {
		wg.Add(1)
		go func(ops []int) {
			defer wg.Done()
			<-start
			for _, k := range ops {
				if k == 0 {
					ws.Write([]byte("x"))
				} else {
					ws.Sync()
				}
			}
		}(ops)
	}
	close(start)
	done := make(chan struct{})
	go func() { wg.Wait(); close(done) }()
	progSX := make([]SX, len(prog))
	total := 0
	for i, ops := range prog {
		progSX[i] = LI(ops)
		total += len(ops)
	}
	sched := c13schedule(r, prog)
	in := L(I(3), L(progSX...), LI(sched), I(variant))
	select {
	case <-done:
	case <-time.After(60 * time.Second):
		c.Viol("goroutines writing through zapcore.Lock did not finish within 60 s (deadlock)", in)
		return
	}
	nt := "0"
	if len(prog) >= 2 && total >= 4 {
		nt = "1"
	}
	c.Emit(in, L(Z(atomic.LoadInt64(&sink.max)), Z(atomic.LoadInt64(&sink.fin))),
		map[string]string{"nt": nt, "class": class, "threads": fmt.Sprint(len(prog)), "calls": fmt.Sprint(total)})
}

// a random complete schedule of the interleaving model (4 instructions per call:
// Lock, begin, end, Unlock); turns of blocked threads are kept as no-op entries
func c13schedule(r *RNG, prog [][]int) []int {
	T := len(prog)
	pcs := make([]int, T)
	holder := -1
	left := 0
	for _, ops := range prog {
		left += 4 * len(ops)
	}
	sched := []int{}
	for left > 0 {
		t := r.Intn(T + 1) // T: an unknown thread id (no-op turn)
		if holder >= 0 && r.Chance(50) {
			t = holder
		}
		if t == T {
			if r.Chance(5) {
				sched = append(sched, t)
			}
			continue
		}
		if pcs[t] >= 4*len(prog[t]) {
			if r.Chance(3) {
				sched = append(sched, t)
			}
			continue
		}
		switch pcs[t] % 4 {
		case 0:
			if holder >= 0 {
				if r.Chance(30) {
					sched = append(sched, t) // blocked
				}
				continue
			}
			holder = t
		case 3:
			holder = -1
		}
		pcs[t]++
		left--
		sched = append(sched, t)
	}
	return sched
}

// ---------------------------------------------------------------- driver

func c13payloads(r *RNG, thorough bool) (out []struct {
	p     []byte
	class string
}) {
	add := func(class string, ps ...string) {
		for _, p := range ps {
			out = append(out, struct {
				p     []byte
				class string
			}{[]byte(p), class})
		}
	}
	add("empty", "")
	add("ws-only", " ", "\n", "\n\n", " \t\r\n", "\v\f", "   \n")
	add("plain", "hello", "a", "hello world")
	add("trail-nl", "hello\n", "hello\n\n", "a\nb\n", "hello \n")
	add("lead-trail", "  hello \n", " x", "x ", "\thello\t", "\n\nhello", " a b ")
	add("inner", "a\nb", "a \n b", "a\n\nb\n\n\nc")
	add("unicode-ws", "\u00a0hi\u00a0", "\u0085x\u0085", "\u2003wide\u2003\n", "x\u3000", "\u00a0", "\u00e9\n", " \u00e9 ", "\u2028\u2029")
	add("invalid-utf8", "\x85x\x85", "\xa0x", "\xc2", " \xff ", "\xc2\n", "\n\xe2\x80")
	big := bytes.Repeat([]byte("0123456789abcdef"), 4096) // 64 KiB
	add("large", "  "+string(big)+" \n", string(big), string(big)+"\n\n")
	N := 300
	if thorough {
		N = 20000
	}
	wsb := []byte(" \t\n\r\v\f")
	for k := 0; k < N; k++ {
		ln := r.Intn(24)
		var p []byte
		style := r.Intn(4)
		for j := 0; j < ln; j++ {
			switch {
			case r.Chance(35):
				p = append(p, wsb[r.Intn(len(wsb))])
			case style == 0:
				p = append(p, byte('a'+r.Intn(26)))
			case style == 1:
				p = append(p, byte(r.Intn(128)))
			case style == 2:
				p = append(p, byte(r.Intn(256)))
			default:
				p = append(p, []byte([]string{"\u00a0", "\u0085", "\u2003", "\u00e9", "x", "\n"}[r.Intn(6)])...)
			}
		}
		out = append(out, struct {
			p     []byte
			class string
		}{p, fmt.Sprintf("rand%d", style)})
	}
	return
}

func c13(c *Ctx) {
	// Fork: NewRNG(seed) streams of neighbouring seeds are shifted copies of each other
	r := NewRNG(c.Seed).Fork()
	hello := []byte("hello")

	// ---- 1. directed corner cases of the combinators
	full := func(id int) *c13expr { return c13leaf(id, true, 5, false, false) }
	directed := []*c13expr{
		// DESIGN section 6 #1: counts [0,5] and [3,0,5]
		c13nary(4, c13leaf(1, true, 0, false, false), full(2)),
		c13nary(4, c13leaf(1, true, 3, false, false), c13leaf(2, true, 0, false, false), full(3)),
		c13nary(4, full(1), c13leaf(2, true, 0, true, false)),
		c13nary(4),          // no sink at all
		c13nary(4, full(1)), // single sink: returned as is
		c13nary(5),          // CombineWriteSyncers() = AddSync(io.Discard)
		c13nary(5, full(1)),
		c13nary(5, full(1), c13leaf(2, true, 2, true, true)),
		c13un(2, c13leaf(1, false, 5, false, false)),                                                      // AddSync adds a no-op Sync
		c13un(2, c13leaf(1, true, 4, true, true)),                                                         // AddSync keeps the existing Sync
		c13un(2, &c13expr{kind: 1}),                                                                       // AddSync(io.Discard)
		c13un(2, c13un(2, c13leaf(1, false, 5, false, false))),                                            // AddSync twice
		c13un(3, c13leaf(1, true, 2, true, true)),                                                         // Lock relays
		c13un(3, c13un(3, c13leaf(1, true, 2, true, true))),                                               // Lock(Lock w) = Lock w
		c13un(3, c13un(2, c13un(3, c13leaf(1, true, 5, false, true)))),                                    // Lock(AddSync(Lock w))
		c13un(3, c13nary(4, c13un(3, full(1)))),                                                           // Lock(NewMulti(Lock w)): single => same object
		c13un(3, c13nary(4, c13un(3, full(1)), full(2))),                                                  // nested locks through a multi
		c13un(3, c13nary(5, full(1), full(2))),                                                            // Lock(Combine ..)
		c13un(3, c13un(2, c13leaf(1, false, 3, true, false))),                                             // Lock(AddSync(plain writer))
		c13nary(4, c13nary(4, c13leaf(1, true, 1, true, true), full(2)), c13leaf(3, true, 2, true, true)), // nested multis
	}
	for _, e := range directed {
		c13comb(c, e, hello, "directed")
	}
	c13comb(c, c13nary(4, c13leaf(1, true, 0, false, false), c13leaf(2, true, 0, false, false)), []byte{}, "directed")
	c13comb(c, c13nary(4), []byte{}, "directed")

	// ---- 2. fault enumeration: every outcome vector of k <= K sinks,
	// counts {0, short, full} x {nil, error}, on Write and (rotated) on Sync
	K := 5
	shorts := []int{3, 1, 4, 2, 3, 1, 2}
	var vec func(k int, acc []*c13expr)
	vec = func(k int, acc []*c13expr) {
		if len(acc) == k {
			es := make([]*c13expr, k)
			for i, e := range acc {
				cp := *e
				// Sync outcome of sink i: the Write error bit of sink i+1
				if len(acc[(i+1)%k].we) > 0 {
					cp.se = []int{cp.id*10 + 2}
				}
				es[i] = &cp
			}
			c13comb(c, c13nary(4, es...), hello, fmt.Sprintf("exh%d", k))
			return
		}
		i := len(acc)
		for _, n := range []int{0, shorts[i], 5} {
			for _, we := range []bool{false, true} {
				vec(k, append(acc, c13leaf(i+1, true, n, we, false)))
			}
		}
	}
	for k := 1; k <= K; k++ {
		vec(k, nil)
	}
	// every Sync outcome vector, k <= 6 (also through CombineWriteSyncers)
	for k := 1; k <= 6; k++ {
		for mask := 0; mask < 1<<k; mask++ {
			es := make([]*c13expr, k)
			for i := range es {
				es[i] = c13leaf(i+1, true, 5, false, mask&(1<<i) != 0)
			}
			kind := 4
			if mask%3 == 0 {
				kind = 5
			}
			c13comb(c, c13nary(kind, es...), hello, "exh-sync")
		}
	}

	// ---- 3. random construction programs (nested AddSync / Lock / multi / Combine)
	N := 1500
	if c.Thorough {
		N = 150000
	}
	for k := 0; k < N; k++ {
		lenp := r.Intn(9)
		if r.Chance(5) {
			lenp = r.Range(100, 3000)
		}
		p := r.Bytes(lenp, []byte("ab\n "))
		id := 0
		depth := r.Range(1, 4)
		e := c13gen(r, depth, true, &id, lenp)
		c13comb(c, e, p, fmt.Sprintf("rand-d%d", depth))
	}
	// random flat multi-syncers of up to 12 sinks
	M := 1000
	if c.Thorough {
		M = 100000
	}
	for k := 0; k < M; k++ {
		lenp := r.Range(1, 40)
		p := r.Bytes(lenp, []byte("xyz\n"))
		ns := r.Range(2, 12)
		es := make([]*c13expr, ns)
		for i := range es {
			n := lenp
			switch r.Intn(4) {
			case 0:
				n = 0
			case 1, 2:
				n = r.Intn(lenp + 1)
			}
			es[i] = c13leaf(i+1, true, n, r.Chance(30), r.Chance(30))
		}
		c13comb(c, c13nary(4, es...), p, "rand-flat")
	}

	// ---- 4. the writers zap implements, over payload classes
	pls := c13payloads(r, c.Thorough)
	for i, pl := range pls {
		c13stdlog(c, i%3, i%7 != 3, pl.p, "stdlog-"+pl.class)
		c13testing(c, i%2 == 1, pl.p, "testing-"+pl.class)
		c13zapio(c, i%5 != 4, [][]byte{pl.p}, "zapio-"+pl.class)
		c13bws(c, []int{0, 1, 4, 16, 64}[i%5], []c13bop{{0, pl.p}, {1, nil}}, "bws-"+pl.class)
	}
	// sequences of writes on one zapio.Writer / one BufferedWriteSyncer
	Q := 300
	if c.Thorough {
		Q = 30000
	}
	for k := 0; k < Q; k++ {
		nw := r.Range(2, 8)
		ps := make([][]byte, nw)
		for i := range ps {
			ps[i] = r.Bytes(r.Intn(10), []byte("ab\n"))
		}
		c13zapio(c, !r.Chance(15), ps, "zapio-seq")
		size := r.Range(1, 24)
		if r.Chance(10) {
			size = 0
		}
		nops := r.Range(1, 12)
		ops := make([]c13bop, nops)
		for i := range ops {
			x := r.Intn(100)
			switch {
			case x < 75:
				ln := r.Intn(12)
				if r.Chance(15) {
					ln = r.Range(size, 3*size+2)
				}
				ops[i] = c13bop{0, r.Bytes(ln, []byte("abc\n"))}
			case x < 92:
				ops[i] = c13bop{1, nil}
			default:
				ops[i] = c13bop{2, nil}
			}
		}
		c13bws(c, size, ops, "bws-seq")
	}
	// default-size BufferedWriteSyncer with a write larger than the buffer
	huge := bytes.Repeat([]byte("z"), 300*1024)
	c13bws(c, 0, []c13bop{{0, []byte("head\n")}, {0, huge}, {0, []byte("tail\n")}, {2, nil}}, "bws-large")

	// ---- 5. goroutines hammering Lock(sink)
	R := 24
	if c.Thorough {
		R = 400
	}
	for k := 0; k < R; k++ {
		T := r.Range(2, 8)
		prog := make([][]int, T)
		for t := range prog {
			nc := r.Range(1, 25)
			prog[t] = make([]int, nc)
			for j := range prog[t] {
				if r.Chance(30) {
					prog[t][j] = 1
				}
			}
		}
		c13conc(c, r, prog, k%3, "lock-conc")
	}
	c13conc(c, r, [][]int{{0}}, 0, "lock-conc")

	// ---- 6. several handles onto one sink (c13_handles.go)
	c13handleCases(c)

	// ---- 7. BufferedWriteSyncer over a scripted (faulty) sink (c13_bwsfault.go)
	c13bwsFaultCases(c, r.Fork())
}

func init() { registry["C13"] = c13 }

package main

// C07, LARGE contexts.  Every size threshold of the context buffer lies far above what the other classes reach:
// their With-contexts are a few dozen bytes, so jsonEncoder.Clone (ioCore.With, the console encoder's
// writeContext, EncodeEntry's final encoder) always copies into a fresh pooled buffer (1 KiB) with room to spare,
// and no buffer is ever grown, re-allocated or handed over.  Here a logger's serialised context is LARGER than a
// pooled buffer -- one field of 1100 / 1500 / 4096 / 20000 bytes, many small fields summing past 1 KiB (in one
// With and across a chain of Withs), a large reflected value (encoding/json's own buffer on the way), a
// namespace's worth of fields -- at every level of the tree: in a lazy core of the root composition, at the first
// derivation, in the middle, at the leaves; and the tree is USED the way that shows sharing of a context's
// storage: 2-4 siblings derived from the large logger (With / WithOptions(Fields) / WithLazy / sugared With,
// through Named and Sugar clones), before and after the large logger logged, field-less entries logged twice in a
// row by the large logger (a console core clones the context per entry and frees the clone), entries with large
// reflected call-site fields between derivations, late siblings, grandchildren below a sibling (whose context is
// large too), a second large step below a sibling.  Every entry is judged by the same oracle as everywhere else:
// its own path's fields, in order, then the call-site fields; both views.

import (
	"bytes"
	"encoding/json"
	"fmt"

	"go.uber.org/zap"
	"go.uber.org/zap/zapcore"
)

const (
	bkStr      = iota // one string field of the given size
	bkSmall           // many small fields summing past the size
	bkReflArr         // one reflected value (array) whose JSON text has the size
	bkNs              // a namespace, then many small fields
	bkMid             // small field, large string, small field
	bkReflObj         // one reflected value (object with sorted keys)
	bkByteStr         // one ByteString field
	bkEsc             // one string field full of bytes that need escaping (the encoder appends it piecewise)
	bkKinds
)

func c07bigBytes(tag string, n int, esc bool) []byte {
	out := make([]byte, 0, n)
	for i := 0; len(out) < n; i++ {
		chunk := fmt.Sprintf("%s%04d.", tag, i)
		if esc && i%3 == 0 {
			chunk += "\"\n\\\x01é"
		}
		out = append(out, chunk...)
	}
	return out[:n]
}

func c07reflField(key string, v interface{}) (zapcore.Field, SX) {
	b := reflBox{v}
	var buf bytes.Buffer
	e := json.NewEncoder(&buf)
	e.SetEscapeHTML(false)
	if err := e.Encode(b); err != nil {
		panic("c07 big: encoding/json rejected a generated value: " + err.Error())
	}
	return zap.Reflect(key, b), L(I(10), Str(key), L(I(1), B(bytes.TrimSuffix(buf.Bytes(), []byte("\n")))))
}

// a large context: fields whose serialised form has about size bytes
func (g *c07gen) bigFields(kind, size int, tag string) c07fields {
	var out c07fields
	add := func(f zapcore.Field, x SX) {
		out.fs = append(out.fs, f)
		out.xs = append(out.xs, x)
	}
	smalls := func(n int) {
		for i := 0; n > 0; i++ {
			// (the model's time grows faster with the number of fields than with their bytes: some 20 fields per KiB)
			k, v := fmt.Sprintf("%s%03d", tag, i), fmt.Sprintf("v%03d-%s-0123456789abcdefghijklmnopqrstuvwxyz", i, tag)
			add(g.str(k, v))
			n -= len(k) + len(v) + 6
		}
	}
	switch kind {
	case bkStr:
		v := c07bigBytes(tag, size, false)
		add(zap.String(tag, string(v)), L(I(4), Str(tag), B(v)))
	case bkSmall:
		smalls(size)
	case bkReflArr:
		var v []string
		for i, n := 0, size; n > 0; i++ {
			s := fmt.Sprintf("%s-item-%04d", tag, i)
			v = append(v, s)
			n -= len(s) + 3
		}
		add(c07reflField(tag, v))
	case bkNs:
		add(g.ns(tag + "ns"))
		smalls(size)
	case bkMid:
		add(g.str(tag+"l", "left"))
		v := c07bigBytes(tag, size, false)
		add(zap.String(tag, string(v)), L(I(4), Str(tag), B(v)))
		add(g.str(tag+"r", "right"))
	case bkReflObj:
		v := map[string]interface{}{}
		for i, n := 0, size; n > 0; i++ {
			k := fmt.Sprintf("%s%04d", tag, i)
			v[k] = []int{i, -i}
			n -= len(k) + 12
		}
		add(c07reflField(tag, v))
	case bkByteStr:
		v := c07bigBytes(tag, size, false)
		add(zap.ByteString(tag, v), L(I(5), Str(tag), B(v)))
	default:
		v := c07bigBytes(tag, size, true)
		add(zap.String(tag, string(v)), L(I(4), Str(tag), B(v)))
	}
	return out
}

type c07bigSpec struct {
	kind, size int
	pos        int  // small context steps above the large one: 0 = the large step is the first derivation
	step       int  // how the large context is added: stWith / stFields / stWithLazy
	sugar      bool // the large logger is used through Sugar()
	named      bool // ... and through a Named clone
	preLog     int  // field-less entries of the large logger BEFORE its first child exists
	sibs       int
	between    bool // the large logger logs between the derivations of its children
	reflCall   bool // entries with a large reflected call-site field between derivations
	second     int  // kind+1 of a second large step below the second sibling (0: none)
	chain      bool // the large context is built by a chain of Withs of small fields (siblings at every link)
}

func (g *c07gen) bigProg(s c07bigSpec) *c07prog {
	r := g.r
	p := newC07prog()
	g.hiPct = 100 // Warn: every static filter of the generated compositions admits it
	cnt := 0
	small := func(k string) c07fields {
		cnt++
		f, x := g.str(k, fmt.Sprintf("%s-%02d-%03d", k, cnt, r.Intn(1000)))
		return c07fields{[]zapcore.Field{f}, []SX{x}}
	}
	none := c07fields{}
	lg := func(node int, fs c07fields) {
		p.ops = append(p.ops, &c07op{log: true, node: node, hi: true, msg: []byte("m"), fs: fs, w: p.tick(r), viaChk: r.Chance(15)})
	}
	// fewer entries where the model's time is highest (large sizes, contexts of many fields)
	lean := s.size > 2500 || s.chain || s.kind == bkSmall || s.kind == bkNs || s.second > 0
	stepOf := func(i int) int {
		switch (i + s.kind) % 5 {
		case 3:
			return stFields
		case 4:
			g.nlazy++
			return stWithLazy
		}
		return stWith
	}
	cur := 0
	for i := 0; i < s.pos; i++ {
		cur = g.derive(p, cur, stepOf(i), small(fmt.Sprintf("p%d", i)), nil)
		if i == 1 {
			cur = g.derive(p, cur, stNamed, none, []byte("svc"))
		}
	}
	early := g.derive(p, cur, stWith, small("early"), nil) // a sibling of the large logger, small context
	var big int
	var links []int
	if s.chain {
		// many small fields, a few per With: the context passes the size of a pooled buffer in the middle of the
		// chain; every link keeps a sibling that is used later
		big = cur
		per := 240
		for n := 0; n < s.size; n += per {
			big = g.derive(p, big, stWith, g.bigFields(bkSmall, per, fmt.Sprintf("c%02d", len(links))), nil)
			links = append(links, g.derive(p, big, stWith, small("link"), nil))
		}
	} else {
		if s.step == stWithLazy {
			g.nlazy++
		}
		big = g.derive(p, cur, s.step, g.bigFields(s.kind, s.size, "big"), nil)
	}
	view := big
	if s.sugar {
		view = g.derive(p, view, stSugar, none, nil)
	}
	if s.named {
		view = g.derive(p, view, stNamed, none, []byte("n"))
	}
	for i := 0; i < s.preLog; i++ {
		lg(view, none)
	}
	refl := func(tag string) c07fields {
		f, x := c07reflField(tag, []string{string(c07bigBytes(tag, 1300+100*cnt, false))})
		return c07fields{[]zapcore.Field{f}, []SX{x}}
	}
	var sibs []int
	for i := 0; i < s.sibs; i++ {
		from := view
		if i%3 == 2 {
			from = big // the logger itself, not its clone: they share one core
		}
		fs := small("who")
		if i == 1 && r.Bool() {
			x := small("x")
			fs = c07fields{append(fs.fs, x.fs...), append(fs.xs, x.xs...)}
		}
		sibs = append(sibs, g.derive(p, from, stepOf(i), fs, nil))
		if s.between && i < s.sibs-1 {
			lg(view, none)
			if i == 0 {
				lg(view, small("call"))
			}
		}
		if s.reflCall && i == 0 {
			lg(early, refl("r"))
		}
	}
	for _, k := range sibs {
		lg(k, none)
	}
	lg(view, none)
	lg(view, none)
	lg(early, none)
	if s.reflCall {
		lg(sibs[0], refl("q"))
	}
	if !lean {
		for _, k := range sibs {
			lg(k, small("call"))
		}
		lg(view, small("call"))
	}
	late := g.derive(p, view, stWith, small("late"), nil)
	lg(late, none)
	lg(sibs[0], none)
	// below the first sibling: its context is large too
	g1 := g.derive(p, sibs[0], stWith, small("g"), nil)
	g2 := g.derive(p, sibs[0], stepOf(1+r.Intn(4)), small("g"), nil)
	lg(g1, none)
	lg(g2, none)
	lg(sibs[0], none)
	if s.second > 0 {
		sz := 1200
		if !lean {
			sz = 1700
		}
		b2 := g.derive(p, sibs[1], stWith, g.bigFields(s.second-1, sz, "two"), nil)
		c1 := g.derive(p, b2, stWith, small("c"), nil)
		c2 := g.derive(p, b2, stWith, small("c"), nil)
		lg(b2, none)
		lg(b2, none)
		lg(c1, none)
		lg(c2, none)
		lg(sibs[1], none)
	}
	for i, k := range links {
		if i%2 == 0 || !lean {
			lg(k, none)
		}
	}
	if len(links) > 0 {
		// siblings of the links, derived now, used after each other
		a := g.derive(p, p.parent[links[len(links)-1]], stWith, small("again"), nil)
		b := g.derive(p, p.parent[links[len(links)/2]], stWith, small("again"), nil)
		lg(links[len(links)-1], none)
		lg(a, none)
		lg(b, none)
		lg(links[len(links)/2], none)
	}
	lg(view, none)
	lg(g1, small("call"))
	lg(0, none)
	return p
}

func c07bigComps(g *c07gen, lazyKind, lazySize int) []*c07comp {
	lz := func(inner *c07comp) *c07comp {
		g.nlazy++
		return &c07comp{kind: ckLazy, fs: g.bigFields(lazyKind, lazySize, "core"), kids: []*c07comp{inner}}
	}
	l1 := func() c07fields { f, x := g.str("l1", "l1!"); return c07fields{[]zapcore.Field{f}, []SX{x}} }
	return []*c07comp{
		{kind: ckJSON},
		{kind: ckConsole},
		{kind: ckTee, kids: []*c07comp{{kind: ckJSON}, {kind: ckObs}, {kind: ckConsole}}},
		{kind: ckHook, kids: []*c07comp{{kind: ckLazy, fs: l1(), kids: []*c07comp{{kind: ckTee, kids: []*c07comp{{kind: ckObs}, {kind: ckJSON}}}}}}},
		{kind: ckSamp, kids: []*c07comp{{kind: ckConsole}}},
		{kind: ckFilt, thr: true, kids: []*c07comp{{kind: ckJSON}}},
		// the large context sits in a lazy core of the root composition
		lz(&c07comp{kind: ckConsole}),
		{kind: ckTee, kids: []*c07comp{lz(&c07comp{kind: ckJSON}), {kind: ckConsole}}},
		{kind: ckFilt, thr: true, kids: []*c07comp{{kind: ckHook, kids: []*c07comp{{kind: ckSamp, kids: []*c07comp{{kind: ckTee, kids: []*c07comp{{kind: ckConsole}, {kind: ckJSON}}}}}}}}},
	}
}

const c07nBigComps = 9

// directed: the sizes 1100 / 1500 / 4096 / 20000 and every kind of large context, at the root / in the middle / at
// the leaves, over JSON and console leaves, alone and below every wrapper
func c07directedBig(c *Ctx) {
	specs := []c07bigSpec{
		// the plainest shapes: root.With(large); two siblings; everybody logs
		{kind: bkStr, size: 1500, step: stWith, sibs: 2},
		// the large logger logs twice before anything is derived from it
		{kind: bkStr, size: 1500, step: stWith, sibs: 2, preLog: 2},
		{kind: bkStr, size: 1100, pos: 1, step: stWith, sibs: 3, between: true},
		{kind: bkStr, size: 4096, pos: 2, step: stFields, sibs: 3, preLog: 1, named: true},
		{kind: bkStr, size: 20000, pos: 0, step: stWith, sibs: 2, preLog: 2},
		{kind: bkSmall, size: 1300, pos: 3, step: stWith, sibs: 4, sugar: true, between: true},
		{kind: bkSmall, size: 1700, chain: true, sibs: 2, preLog: 1},
		{kind: bkReflArr, size: 1200, pos: 1, step: stWith, sibs: 3, reflCall: true},
		{kind: bkReflObj, size: 2200, pos: 0, step: stWithLazy, sibs: 2, reflCall: true, preLog: 1},
		{kind: bkNs, size: 1200, pos: 2, step: stWith, sibs: 3, second: bkStr + 1},
		{kind: bkMid, size: 1100, pos: 0, step: stWithLazy, sibs: 3, sugar: true, named: true, preLog: 2, second: bkByteStr + 1},
		{kind: bkEsc, size: 1200, pos: 1, step: stFields, sibs: 3, between: true, second: bkReflArr + 1},
		{kind: bkByteStr, size: 1100, pos: 3, step: stWith, sibs: 2, preLog: 2, between: true},
	}
	n := 0
	for si, s := range specs {
		for ci := 0; ci < c07nBigComps; ci++ {
			// the driver's time grows with the square of the context size: in the quick tier every spec runs over one
			// leaf kind (JSON / console in turn; the two plainest shapes over both), every second one below a wrapper
			// (in rotation) as well, the 4096-byte spec over the console leaf only and the 20000-byte spec not at all;
			// the thorough tier runs every spec over all compositions
			if c.Thorough && s.size > 4096 && ci >= 2 {
				continue
			}
			if !c.Thorough {
				switch {
				case s.size > 4096:
					continue
				case s.size > 2500:
					if ci != 1 {
						continue
					}
				case ci < 2:
					if si >= 2 && ci != si%2 {
						continue
					}
				default:
					if si%2 != 0 || si == 6 || si == 10 || ci-2 != (si/2)%7 {
						continue
					}
				}
			}
			g := newC07gen(NewRNG(uint64(7000 + 31*si + ci)))
			lk := bkStr // the large context of the lazy cores of compositions 6 and 7
			if c.Thorough {
				lk = specs[(si+1)%len(specs)].kind
			}
			comp := c07bigComps(g, lk, 1100+200*(si%3))[ci]
			g.use(comp, 0, 0)
			g.emit(c, comp, g.bigProg(s), "dirbig")
			n++
		}
	}
	c.Info("c07_dirbig_cases", fmt.Sprint(n))
}

// seeded: the same family with every parameter drawn, over random compositions with at least one io leaf
func c07bigSeeded(c *Ctx, r *RNG) {
	n := 5
	sizes := []int{1030, 1100, 1100, 1200, 1500, 1500, 2048}
	if c.Thorough {
		n = 150
		sizes = []int{1030, 1100, 1500, 1500, 2048, 3000, 4096}
	}
	for i := 0; i < n; i++ {
		g := newC07gen(r.Fork())
		rr := g.r
		s := c07bigSpec{
			kind: rr.Intn(bkKinds), size: sizes[rr.Intn(len(sizes))], pos: rr.Intn(4),
			step:  []int{stWith, stWith, stFields, stWithLazy}[rr.Intn(4)],
			sugar: rr.Chance(25), named: rr.Chance(25), preLog: []int{0, 0, 1, 2, 2}[rr.Intn(5)],
			sibs: rr.Range(2, 4), between: rr.Chance(40), reflCall: rr.Chance(30),
		}
		if rr.Chance(30) {
			s.second = 1 + rr.Intn(bkKinds)
		}
		if rr.Chance(12) {
			s.chain, s.size = true, rr.Range(1300, 2000)
		}
		if s.size == 20000 && !rr.Chance(5) {
			s.size = 4096
		}
		// quick tier: the model's time grows fastest with the number of fields, most of all below observers and
		// lazy cores -- contexts of many fields stay near the threshold and over io leaves with at most one wrapper
		manyFields := s.chain || s.kind == bkSmall || s.kind == bkNs || s.second == bkSmall+1 || s.second == bkNs+1
		var comp *c07comp
		switch {
		case i%3 == 0:
			comp = &c07comp{kind: []int{ckJSON, ckConsole}[rr.Intn(2)]}
		case !c.Thorough && manyFields:
			if s.size > 1300 {
				s.size = 1300
			}
			comp = c07bigComps(g, bkStr, 1100)[[]int{0, 1, 4, 5}[rr.Intn(4)]]
		case i%3 == 1 && c.Thorough:
			comp = c07bigComps(g, rr.Intn(bkKinds), rr.Range(1030, 1600))[rr.Intn(c07nBigComps)]
		case i%3 == 1:
			comp = c07bigComps(g, bkStr, rr.Range(1030, 1600))[rr.Intn(c07nBigComps)]
		default:
			comp = g.faultComp(2)
		}
		g.use(comp, 0, 0)
		g.emit(c, comp, g.bigProg(s), "big")
	}
}

package main

import (
	"encoding/json"
	"net/url"
	"strconv"
	"strings"

	"go.uber.org/zap/zapcore"
)

// C20, large PUT bodies (seed c20j).  The handler must decide on the WHOLE request body, however
// long it is: the request abstraction of a case (c20abstract) is computed by net/http and
// encoding/json on the whole body, so a handler that looks at a truncated, windowed or otherwise
// size-limited view of the body disagrees with the model as soon as the part it does not see matters.
//
// Bodies of 512 B .. 64 KiB (and a little beyond) are built around "cut" positions (powers of two and
// other plausible limits, with an offset of a few bytes either way) so that the cut falls
//
//	(a) inside or exactly at the end of the level value (level=debug|zzz, level=warn|ing, level=d|panic),
//	(b) before the level field (a competing ?level= in the query must lose to the body),
//	(c) inside padding before/after the level field,
//
// and likewise for JSON (long ignored members, whitespace before / inside / after the document, a level
// text that continues past the cut).  Padding is "p=aaaa&p=aaaa&..." (one key repeated): FormValue keeps
// the first value only, so the case stays a few dozen bytes on the wire whatever the body length; a few
// directed cases use one long value or many distinct keys instead.  The JSON part of the abstraction is
// the decoder's walk result, which never contains the padding.

var c20cuts = []int{512, 1000, 1024, 1500, 2048, 4096, 8192, 10000, 16384, 32768, 65536}

// the limits a "bound the body" edit would plausibly pick; every directed family runs on these
var c20mainCuts = []int{512, 1024, 4096, 8192, 65536}

// exactly n bytes of form fields; ends in '&' when n > 0.  style 0: key p repeated (compact on the
// wire), 1: one long value, 2: distinct keys
func c20formPad(n, style int) string {
	if n <= 0 {
		return ""
	}
	var b strings.Builder
	switch style {
	case 1:
		if n >= 5 {
			b.WriteString("pad=")
			b.WriteString(strings.Repeat("a", n-5))
			b.WriteString("&")
			return b.String()
		}
	case 2:
		i := 0
		for n-b.Len() >= 24 {
			k := "k" + strings.Repeat("x", i%7) + string(rune('a'+i%26)) + string(rune('a'+(i/26)%26)) + string(rune('a'+(i/676)%26))
			b.WriteString(k)
			b.WriteString("=v&")
			i++
		}
	}
	for n-b.Len() >= 16 {
		b.WriteString("p=aaaaaaaaaaaaa&")
	}
	switch rem := n - b.Len(); {
	case rem >= 3:
		b.WriteString("p=")
		b.WriteString(strings.Repeat("a", rem-3))
		b.WriteString("&")
	case rem > 0:
		b.WriteString(strings.Repeat("&", rem))
	}
	return b.String()
}

// form body in which byte offset `cut` falls after the first k bytes of the level value
// (k = len(value): exactly at its end; k = -6: just before "level="); tail follows the value
func c20formAt(cut, k int, value, tail string, style int) []byte {
	n := cut - len("level=") - k
	if n < 0 {
		n = 0
	}
	return []byte(c20formPad(n, style) + "level=" + value + tail)
}

// JSON padding of exactly n bytes (n >= 12) that can stand as one member followed by a comma
func c20jsonMember(n, style int) string {
	if n < 12 {
		n = 12
	}
	switch style {
	case 1: // array of numbers
		var b strings.Builder
		b.WriteString(`"pad":[`)
		for b.Len() < n-6 {
			b.WriteString("1,")
		}
		b.WriteString("1")
		for b.Len() < n-2 {
			b.WriteString(" ")
		}
		b.WriteString("],")
		return b.String()
	case 2: // nested object that itself has a "level" member (must be ignored)
		inner := `"pad":{"level":"debug","x":"`
		return inner + strings.Repeat("b", max(0, n-len(inner)-3)) + `"},`
	default:
		return `"pad":"` + strings.Repeat("a", n-9) + `",`
	}
}

var c20ws = []string{" ", "\n", "\t", "\r\n", " \n"}

func c20wsPad(n, style int) string {
	w := c20ws[style%len(c20ws)]
	s := strings.Repeat(w, n/len(w)+1)
	return s[:n]
}

// JSON body naming `text` as the level, of roughly cut+extra bytes, shaped by mode
func c20bigJSON(mode, cut, k int, text string, style int) []byte {
	q, _ := json.Marshal(text)
	qs := string(q)
	doc := `{"level":` + qs + `}`
	switch mode {
	case 0: // whitespace before the document; the cut falls k bytes into the document
		return []byte(c20wsPad(max(0, cut-k), style) + doc)
	case 1: // long ignored member before "level"; the cut falls k bytes into `"level":"..."}`
		return []byte("{" + c20jsonMember(max(12, cut-1-k), style) + doc[1:])
	case 2: // "level" first, long ignored member after it (the cut falls in the padding)
		m := c20jsonMember(cut, style)
		return []byte(`{"level":` + qs + `,` + m[:len(m)-1] + `}`)
	case 3: // whitespace between the key and the value
		return []byte(`{"level":` + c20wsPad(max(0, cut-9-k), style) + qs + `}`)
	case 4: // whitespace after the document
		return []byte(doc + c20wsPad(cut, style))
	case 5: // whitespace inside the object, after the value; the closing brace lies past the cut
		return []byte(`{"level":` + qs + c20wsPad(cut, style) + `}`)
	case 6: // the level text itself continues past the cut: "debug|zzzz..."
		t := text + strings.Repeat("z", 3+k)
		q2, _ := json.Marshal(t)
		pre := max(0, cut-len(`{"level":"`)-len(text))
		return []byte(c20wsPad(pre, style) + `{"level":` + string(q2) + `}`)
	case 7: // a valid document ends exactly at the cut, a second one / garbage follows
		tails := []string{`{"level":"bogus"}`, ` x`, `,"level":"bogus"}`, c20wsPad(300, style) + `{"level":"fatal"}`}
		return []byte(c20wsPad(max(0, cut-len(doc)), style) + doc + tails[(k+style)%len(tails)])
	case 8: // members on both sides
		h := max(12, (cut-k)/2)
		m := c20jsonMember(h, (style+1)%3)
		return []byte("{" + c20jsonMember(h, style) + `"level":` + qs + `,` + m[:len(m)-1] + `}`)
	default: // duplicate key: the first before the cut, the deciding last one after it
		return []byte(`{"level":"debug",` + c20jsonMember(max(12, cut), style) + `"level":` + qs + `}`)
	}
}

func c20validName(r *RNG) string { return c20names[r.Intn(8)] }

// a PUT with a large body, for the seeded histories (direct, served and kind 3)
func c20genBigReq(r *RNG) c20req {
	cut := c20cuts[r.Intn(len(c20cuts))]
	if r.Chance(15) {
		cut = r.Range(300, 70000)
	}
	if r.Chance(50) {
		cut += r.Range(-3, 3)
	}
	name := c20validName(r)
	if r.Chance(60) {
		name = c20randCase(r, name)
	}
	other := c20names[r.Intn(7)]
	q := c20req{method: "PUT", hasCT: true}
	if r.Chance(8) {
		q.method = []string{"POST", "GET", "PATCH"}[r.Intn(3)]
	}
	if r.Chance(55) {
		q.ctype = c20form
		if r.Chance(8) {
			q.ctype = c20form + "; charset=utf-8" // decoded as JSON
		}
		switch x := r.Intn(100); {
		case x < 25: // (a) the cut at the end of a valid name inside a longer invalid value
			tails := []string{"zzz", "z", "%20", "+", "x&a=b", strings.Repeat("z", r.Range(1, 300)), "-level", "%00"}
			q.body = c20formAt(cut, len(name), name, tails[r.Intn(len(tails))], 0)
		case x < 40: // (a') the cut inside a valid name
			k := 0
			if len(name) > 0 {
				k = r.Intn(len(name) + 1)
			}
			tail := ""
			if r.Bool() {
				tail = "&" + c20formPad(r.Range(0, 200), 0) + "q=1"
			}
			q.body = c20formAt(cut, k, name, tail, 0)
		case x < 65: // (b) the level field lies after the cut
			q.body = c20formAt(cut+r.Range(0, 600), -6, name, "", 0)
			if r.Chance(15) {
				t, _ := c20genText(r)
				q.body = c20formAt(cut+r.Range(0, 600), -6, url.QueryEscape(t), "", 0)
			}
		case x < 80: // (c) the level field first, padding after it
			q.body = []byte("level=" + name + "&" + c20formPad(cut+r.Range(0, 300), 0) + "q=1")
		case x < 90: // two level fields, one on each side of the cut: the first wins
			q.body = append(c20formAt(r.Range(0, cut/2), -6, name, "&", 0), c20formAt(cut, -6, other, "", 0)...)
		default: // only padding: no level in the body at all
			q.body = []byte(c20formPad(cut+r.Range(0, 300), 0) + "q=1")
		}
		switch x := r.Intn(100); {
		case x < 50:
			q.query = "level=" + other
		case x < 60:
			t, _ := c20genText(r)
			q.query = "level=" + url.QueryEscape(t)
		case x < 65:
			q.query = "x=1&Level=debug"
		}
	} else {
		q.ctype = "application/json"
		if r.Chance(10) {
			q.hasCT, q.ctype = false, ""
		}
		text := name
		if r.Chance(12) {
			text, _ = c20genText(r)
		}
		mode := r.Intn(10)
		q.body = c20bigJSON(mode, cut, r.Intn(24), text, r.Intn(5))
		if r.Chance(20) {
			q.query = "level=" + other
		}
	}
	return q
}

// directed histories: every family on every main cut; each history is short (GET, the large PUT,
// GET) so that the smallest failing input is readable
func c20bigDirected(c *Ctx, r *RNG) {
	J := "application/json"
	get := c20req{method: "GET"}
	one := func(init zapcore.Level, q c20req) {
		c20history(c, init, []c20req{q, get}, "http-big")
	}
	names := []string{"debug", "info", "warn", "error", "dpanic", "panic", "fatal", "warning"}
	for ci, cut := range c20mainCuts {
		for d := -2; d <= 2; d++ {
			for ni, n := range names {
				if d != 0 && ni != (ci+d+8)%len(names) {
					continue // off-by-a-few cuts: one name each
				}
				init := zapcore.Level(int8((ni+5)%7 - 1)) // the level in force, the query's and the body's all differ
				other := names[(ni+3)%7]
				cc := cut + d
				// (a) the cut at the end of a valid name inside a longer invalid value
				one(init, c20put(c20form, "", string(c20formAt(cc, len(n), n, "zzz", 0))))
				one(init, c20put(c20form, "level="+other, string(c20formAt(cc, len(n), strings.ToUpper(n), "%20", 0))))
				// (a') the cut inside a valid name: the whole value is a level
				for k := 0; k < len(n); k++ {
					if d == 0 || k == 1 {
						one(init, c20put(c20form, "", string(c20formAt(cc, k, n, "", 0))))
					}
				}
				// (b) the level field after the cut; the body wins over the query
				one(init, c20put(c20form, "level="+other, string(c20formAt(cc, -6, n, "", 0))))
				one(init, c20put(c20form, "", string(c20formAt(cc+100, -6, n, "&q=1", 0))))
				one(init, c20put(c20form, "level="+other, string(c20formAt(cc+1, -6, "bogus", "", 0))))
				// (c) the cut inside padding after / around the level field
				one(init, c20put(c20form, "level="+other, "level="+n+"&"+c20formPad(cc, 0)+"q=1"))
				one(init, c20put(c20form, "", string(c20formAt(cc/2, -6, n, "&"+c20formPad(cc, 0)+"level="+other, 0))))
				// JSON: every shape
				for mode := 0; mode < 10; mode++ {
					if d != 0 && mode != (ni+ci)%10 {
						continue
					}
					one(init, c20put(J, "", string(c20bigJSON(mode, cc, ni, n, ni+mode))))
				}
				one(init, c20put("-", "level="+other, string(c20bigJSON(1, cc, 3, strings.ToUpper(n), 2))))
			}
		}
		// heavier on the wire: one long value / many distinct keys / a long level value (a few each)
		if cut <= 8192 {
			for style := 1; style <= 2; style++ {
				one(zapcore.ErrorLevel, c20put(c20form, "", string(c20formAt(cut, 5, "debug", "zzz", style))))
				one(zapcore.ErrorLevel, c20put(c20form, "level=fatal", string(c20formAt(cut, -6, "debug", "", style))))
				one(zapcore.ErrorLevel, c20put(c20form, "", string(c20formAt(cut, 2, "warn", "&"+c20formPad(50, style)+"z=1", style))))
			}
			one(zapcore.ErrorLevel, c20put(c20form, "", "level=debug"+strings.Repeat("z", cut)))
			one(zapcore.ErrorLevel, c20put(c20form, "level=warn", "level="+strings.Repeat("+", cut)+"debug"))
			one(zapcore.ErrorLevel, c20put(J, "", `{"level":"debug`+strings.Repeat("z", cut)+`"}`))
		}
	}
	// every size of the demo's ladder and then some, the level field last: "body of any length"
	for _, n := range []int{64, 256, 512, 1000, 1023, 1024, 1025, 1500, 2048, 3000, 4095, 4096, 4097, 8192, 12000, 16384, 32768, 65535, 65536, 65537, 100000, 131072} {
		name := names[n%len(names)]
		body := c20formAt(n-len(name), 0, name, "", 0) // exactly n bytes, ends with level=<name>
		c20history(c, zapcore.Level(int8(n%9-2)), []c20req{get, c20put(c20form, "level=dpanic", string(body)),
			c20put(c20form, "", string(append(append([]byte{}, body...), "zzz"...))), get,
			c20put(J, "", string(c20bigJSON(1, n, 0, name, n%3))), get}, "http-big")
	}
	// a longer history mixing sizes, directly and through a real server
	var mix []c20req
	for i, cut := range c20cuts {
		n := names[i%len(names)]
		mix = append(mix, c20put(c20form, "level=info", string(c20formAt(cut, len(n), n, "zzz", 0))),
			c20put(c20form, "level=info", string(c20formAt(cut, -6, n, "", 0))), get,
			c20put(J, "", string(c20bigJSON(i%10, cut, i, n, i))))
	}
	c20history(c, zapcore.Level(42), mix, "http-big")
	c20served(c, zapcore.Level(42), mix, "http-big-served")
	nBig, nSrv := 250, 12
	if c.Thorough {
		nBig, nSrv = 5000, 200
	}
	for k := 0; k < nBig; k++ {
		n := r.Range(2, 6)
		reqs := make([]c20req, n)
		for i := range reqs {
			if r.Chance(70) {
				reqs[i] = c20genBigReq(r)
			} else {
				reqs[i] = c20genReq(r, false)
			}
		}
		c20history(c, c20genTarget(r), reqs, "http-big")
	}
	for k := 0; k < nSrv; k++ {
		n := r.Range(2, 6)
		reqs := make([]c20req, n)
		for i := range reqs {
			if r.Chance(70) {
				reqs[i] = c20genBigReq(r)
			} else {
				reqs[i] = c20genReq(r, true)
			}
		}
		c20served(c, c20genTarget(r), reqs, "http-big-served")
	}
}

// the body lengths of a history (case metadata: the request abstraction does not show them), and the
// largest body itself when it is long, run-length encoded so that a replay shows the failing input
func c20bodyLens(reqs []c20req) string {
	var b strings.Builder
	big := -1
	for i, q := range reqs {
		if i > 0 {
			b.WriteString("/")
		}
		b.WriteString(strconv.Itoa(len(q.body)))
		if len(q.body) >= 256 && (big < 0 || len(q.body) > len(reqs[big].body)) {
			big = i
		}
	}
	if big >= 0 {
		q := reqs[big]
		b.WriteString(" largest:#" + strconv.Itoa(big) + " ?" + strconv.Quote(q.query) + " " + c20rle(q.body))
	}
	return strings.ReplaceAll(b.String(), ",", `\x2c`) // ',' separates metadata fields
}

// "p=aaaaaaaaaaaaa&"x63 style run-length rendering of a padded body
func c20rle(body []byte) string {
	var b strings.Builder
	s := string(body)
	for len(s) > 0 && b.Len() < 400 {
		best, bestN := 1, 1
		for _, w := range []int{1, 2, 4, 16} {
			if len(s) < 2*w {
				continue
			}
			n := 1
			for len(s) >= (n+1)*w && s[n*w:(n+1)*w] == s[:w] {
				n++
			}
			if n >= 4 && n*w > best*bestN {
				best, bestN = w, n
			}
		}
		if bestN >= 4 {
			b.WriteString(strconv.Quote(s[:best]) + "x" + strconv.Itoa(bestN) + " ")
			s = s[best*bestN:]
			continue
		}
		j := 1
		for j < len(s) && j < 40 && !(j+8 <= len(s) && s[j] == s[j+1] && s[j] == s[j+2] && s[j] == s[j+3]) {
			j++
		}
		b.WriteString(strconv.Quote(s[:j]) + " ")
		s = s[j:]
	}
	if len(s) > 0 {
		b.WriteString("...")
	}
	return b.String()
}

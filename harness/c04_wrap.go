package main

import (
	"go.uber.org/zap/zapcore"
)

// C04, forwarding wrapper cores.  zap.New(NewTee(...)) never calls multiCore.Write: multiCore.Check
// lets every branch register ITSELF with the CheckedEntry, which then writes to the branches one by
// one.  A tee is driven through Core.Write only when some core in front of it registers itself and
// forwards Write -- the usual shape of a user-defined filtering / redacting / counting core:
//
//	Check: ce.AddCore(ent, self) when the wrapped core is enabled;  Write: forward;
//	With: re-wrap;  Enabled / Sync: forward.
//
// "Every branch of a tee receives the full set" must hold on that path as well, in particular when
// an EARLIER branch's Write returns an error for some entries: the later branches still get every
// entry exactly once, intact, in per-goroutine order.  A case may therefore carry a wrap topology
// (c04Case.wrap), combined with the hidden failing branch of the fault plan (c04_fault.go), which
// can now sit at any position of the judged tee (first / after the first healthy branch / last).
// Entries sent to the failing branch itself are not judged; the wrappers are transparent, so the
// sequential reference, the model and the oracle are what they were.

type c04Fwd struct{ zapcore.Core } // Enabled and Sync are forwarded by the embedding

func (w *c04Fwd) With(fs []zapcore.Field) zapcore.Core { return &c04Fwd{w.Core.With(fs)} }
func (w *c04Fwd) Check(e zapcore.Entry, ce *zapcore.CheckedEntry) *zapcore.CheckedEntry {
	if w.Core.Enabled(e.Level) {
		return ce.AddCore(e, w)
	}
	return ce
}
func (w *c04Fwd) Write(e zapcore.Entry, fs []zapcore.Field) error { return w.Core.Write(e, fs) }

// wrap topology of the judged core (bits):
const (
	c04WrapDepth = 3  // wrap&3 forwarding wrappers, one inside the other, around the whole tee
	c04WrapLeaf  = 4  // every single branch is wrapped
	c04WrapNest  = 8  // the tee is right-nested: tee(c0, tee(c1, tee(c2 ...)))
	c04WrapGroup = 16 // the first two branches form an inner tee behind a wrapper: tee(W(tee(c0, c1)), c2 ...)
	c04nWrap     = 32
)

func c04topology(cores []zapcore.Core, wrap int) zapcore.Core {
	if wrap == 0 {
		return zapcore.NewTee(cores...)
	}
	cs := append([]zapcore.Core{}, cores...)
	if wrap&c04WrapLeaf != 0 {
		for i := range cs {
			cs[i] = &c04Fwd{cs[i]}
		}
	}
	if wrap&c04WrapGroup != 0 && len(cs) >= 2 {
		cs = append([]zapcore.Core{&c04Fwd{zapcore.NewTee(cs[0], cs[1])}}, cs[2:]...)
	}
	var core zapcore.Core
	if wrap&c04WrapNest != 0 {
		core = cs[len(cs)-1]
		for i := len(cs) - 2; i >= 0; i-- {
			core = zapcore.NewTee(cs[i], core)
		}
	} else {
		core = zapcore.NewTee(cs...)
	}
	for d := 0; d < wrap&c04WrapDepth; d++ {
		core = &c04Fwd{core}
	}
	return core
}

// is some tee of the topology written through Core.Write (multiCore.Write)?
func c04wrapDrivesTee(wrap int) bool { return wrap&c04WrapDepth != 0 || wrap&c04WrapGroup != 0 }

// the judged cores with the hidden failing branch of the fault plan at its position
func c04withBad(cores []zapcore.Core, bad zapcore.Core, pos int) []zapcore.Core {
	at := len(cores) // 2: last
	switch pos {
	case 1:
		at = 0
	case 3: // after the first healthy branch (= last when there is only one)
		at = 1
	}
	if at > len(cores) {
		at = len(cores)
	}
	out := append([]zapcore.Core{}, cores[:at]...)
	out = append(out, bad)
	return append(out, cores[at:]...)
}

// failing modes of the hidden branch whose Write returns an error for SOME / all entries, the transient one first
var c04wrapModes = []int{1, 6, 0, 2, 3, 4, 1}

// directed: 2-3 branches (the failing one included), the failing branch at every position, 2 and 8
// goroutines, JSON and console, every way of putting a forwarding wrapper in front of a tee
func c04wrapGrid(c *Ctx, rw *RNG, emit func(cs *c04Case, rr *RNG)) {
	grid := [][]c04Branch{
		{{kind: c04Lock}},
		{{kind: c04Lock, console: true}},
		{{kind: c04Lock}, {kind: c04Lock, console: true}},
		{{kind: c04Combine, k: 2, console: true}, {kind: c04Buf, size: 96}},
	}
	driving := []int{1, 2, 1 | c04WrapNest, c04WrapGroup, 1 | c04WrapLeaf}
	other := []int{1, c04WrapLeaf, 2 | c04WrapNest, c04WrapGroup | c04WrapLeaf, 3, c04WrapNest}
	reps := 1
	if c.Thorough {
		reps = 4
	}
	for rep := 0; rep < reps; rep++ {
		for bi, br := range grid {
			bs := 64
			for _, b := range br {
				if b.size > 0 {
					bs = b.size
				}
			}
			for _, pos := range []int{1, 3, 0, 2} {
				if pos == 3 && len(br) < 2 {
					continue
				}
				for ni, n := range []int{2, 8} {
					wraps := driving
					if pos == 0 || pos == 2 {
						// healthy sinks only / the failing branch last: two of the topologies each
						k := (rep + bi + ni + pos) % len(other)
						wraps = []int{other[k], other[(k+3)%len(other)]}
					}
					for wi, wrap := range wraps {
						v := rep + bi + ni + wi
						ws := v%3 == 0
						cs := &c04Case{br: br, wrap: wrap, th: c04threads(rw, n, 16, 1, bs, ws, 5000, 0)}
						if pos != 0 {
							cs.flt.tee, cs.flt.teeMode = pos, c04wrapModes[v%len(c04wrapModes)]
						}
						if ws {
							cs.ticks = 5
						}
						emit(cs, rw)
					}
				}
			}
		}
		// a wrapped tee among the OTHER loggers of the process: failing branch first, healthy ("noise") branch
		// second (fault sink 5), resp. the other way round (9); the noise sink is checked by the Go-side probe
		for k, sink := range []int{5, 9, 5, 5} {
			n := []int{2, 8}[k%2]
			cs := &c04Case{br: grid[(rep+k)%len(grid)], wrap: []int{0, 1, c04WrapGroup, 0}[k], th: c04threads(rw, n, 12, 1, 64, false, 4000, 0)}
			f := &cs.flt
			f.logs = []c04FLog{{sink: sink, console: k%2 == 1, opts: c04foptWrap | (k/2)*(1+8)}}
			for i := 0; i < 6; i++ {
				f.pre = append(f.pre, c04genFOp(rw, 1, []int{c04fkPlain, c04fkObj, c04fkRefl}))
			}
			if k >= 2 {
				c04inlineFaults(rw, cs, 30, []int{c04fkPlain, c04fkPlain, c04fkObj, c04fkRefl})
			}
			emit(cs, rw)
		}
	}
}

// a random wrap topology on top of a random case; more often than not together with a failing branch
// in front of healthy ones
func c04wrapRandom(rw *RNG, cs *c04Case) {
	cs.wrap = []int{1, 1, 1, 2, 3, 0, 0}[rw.Intn(7)]
	if rw.Chance(30) {
		cs.wrap |= c04WrapLeaf
	}
	if rw.Chance(25) {
		cs.wrap |= c04WrapNest
	}
	if rw.Chance(25) || cs.wrap == 0 {
		cs.wrap |= c04WrapGroup
	}
	f := &cs.flt
	switch {
	case f.tee == 0 && rw.Chance(60):
		f.tee, f.teeMode = []int{1, 1, 3, 2}[rw.Intn(4)], rw.Intn(7)
	case f.tee == 2 && rw.Chance(50):
		f.tee = []int{1, 3}[rw.Intn(2)]
	}
	for i := range f.logs {
		if (f.logs[i].sink == 5 || f.logs[i].sink == 9) && rw.Chance(60) {
			f.logs[i].opts |= c04foptWrap
		}
	}
}

func (cs *c04Case) wrapped() bool {
	if cs.wrap != 0 {
		return true
	}
	for _, l := range cs.flt.logs {
		if l.opts&c04foptWrap != 0 {
			return true
		}
	}
	return false
}

package main

// C07: derivation trees of loggers (With / WithLazy / Named / WithOptions(Fields) / Sugar / Desugar and the
// sugared equivalents) over compositions of real cores (JSON, console, observer leaves under tee, sampler,
// hooked, level-increased and lazy wrappers).  Every logging call's observable output is recorded per sink:
// the bytes each io core wrote, the entry each observer recorded (rendered at once with a fresh JSON
// encoder), the calls the sampler hook and the hooked core's function received.
//
// Every entry is observed TWICE: immediately after its call, and again at the end of the history -- after
// every later call (of the same logger and of all others) and every later derivation -- by reading what the
// sinks still hold (ObservedLogs.TakeAll(), re-rendered with the world of the call).  A later entry or a
// later With that rewrites an earlier recorded entry (aliasing between the recorded Context and the logger's
// own context array, or the caller's slice, which the harness overwrites after each call) shows only there.
//
// FAULTS.  The sink of an io leaf can be told to fail the write of a chosen logging call (error returned with
// nothing, a part, or all of the line consumed); loggers OUTSIDE the judged tree (cores and sinks of their
// own, same process, hence the same buffer pool) fail writes and encode failing fields between the
// operations of the tree; fields whose encoding fails (marshalers returning errors, reflection failures,
// panicking Stringers) are logged and derived with inside the tree.  A failing sink keeps nothing of that
// line; every later entry of every logger -- in particular of the loggers derived AFTER the fault -- must be
// exactly what its own derivation path prescribes.  (An error path that puts a pooled buffer back twice makes
// two later derivations share one context buffer: a sibling's fields under another logger's name.)
//
// LEVEL STATE.  The LevelEnabler of a leaf or of a zap.IncreaseLevel filter can be a zap.AtomicLevel shared by
// several cores of the composition (and by every core derived from them); the program changes it with SetLevel
// between any two operations -- op (3 a level) -- in both directions, also into states in which a filter enables
// levels the core it wraps rejects (NewIncreaseLevelCore refuses such a pair at construction; a later SetLevel
// produces it freely).  Calls are made at Debug .. Error.  A derivation made in ANY level state must carry its own
// path: entries at disabled levels are not delivered, entries at enabled levels carry exactly the path's context.
//
// Fields are static scripts (enc_gen.go) or MUTABLE marshalers reading a world variable that the program
// changes between operations, so that the moment of evaluation (With: at derivation; WithLazy: at first use;
// observer: when the recorded entry is rendered) is visible in the output.

import (
	"context"
	"errors"
	"fmt"
	"io"
	"log/slog"
	"runtime"
	"strconv"
	"time"

	"go.uber.org/zap"
	"go.uber.org/zap/exp/zapslog"
	"go.uber.org/zap/zapcore"
	"go.uber.org/zap/zaptest/observer"
)

// ---------- mutable marshalers ----------
type c07mutObj struct{ w *int64 }

func (m c07mutObj) MarshalLogObject(enc zapcore.ObjectEncoder) error {
	enc.AddInt64("w", *m.w)
	return nil
}

type c07mutArr struct{ w *int64 }

func (m c07mutArr) MarshalLogArray(enc zapcore.ArrayEncoder) error {
	enc.AppendInt64(*m.w)
	return nil
}

type c07mutStr struct{ w *int64 }

func (m c07mutStr) String() string { return strconv.FormatInt(*m.w, 10) }

// ---------- fixed encoder configuration (coq: c07_cfg) ----------
func c07encCfg() *encCfg {
	return &encCfg{
		keys: [7][]byte{[]byte("msg"), []byte("level"), nil, []byte("logger"), nil, nil, nil},
		lvl:  2, tim: timEpoch, dur: durSeconds, cal: 0, nam: 0,
	}
}

// ---------- composition ----------
const (
	ckJSON = iota
	ckConsole
	ckObs
	ckTee
	ckSamp
	ckHook
	ckFilt
	ckLazy
)

type c07comp struct {
	kind int
	thr  bool     // filter: true = WarnLevel
	lref *c07lref // filter: its level, when not given by thr; leaf: its LevelEnabler, when not DebugLevel
	fs   c07fields
	kids []*c07comp
}

// a LevelEnabler: a static zapcore.Level, or AtomicLevel number atom of the case
type c07lref struct {
	atom int // -1: static
	lvl  int
}

func (l *c07lref) sx() SX {
	if l.atom >= 0 {
		return L(I(l.atom))
	}
	return I(l.lvl)
}

func (l *c07lref) value(env []int) int {
	if l.atom >= 0 {
		return env[l.atom]
	}
	return l.lvl
}

func (e *c07env) enabler(l *c07lref) zapcore.LevelEnabler {
	if l.atom >= 0 {
		return e.atoms[l.atom]
	}
	return zapcore.Level(l.lvl)
}

// the filter's level reference
func (c *c07comp) flev() *c07lref {
	if c.lref != nil {
		return c.lref
	}
	if c.thr {
		return &c07lref{-1, 1}
	}
	return &c07lref{-1, 0}
}

// the lowest level the subtree enables in the level state env (Core.Enabled is monotone in the level for every
// core generated here); 99: none
func (c *c07comp) minLv(env []int) int {
	switch c.kind {
	case ckJSON, ckConsole, ckObs:
		if c.lref != nil {
			return c.lref.value(env)
		}
		return -1
	case ckTee:
		m := 99
		for _, k := range c.kids {
			if v := k.minLv(env); v < m {
				m = v
			}
		}
		return m
	case ckFilt:
		m := c.kids[0].minLv(env)
		if v := c.flev().value(env); v > m {
			m = v
		}
		return m
	default:
		return c.kids[0].minLv(env)
	}
}

type c07fields struct {
	fs []zapcore.Field
	xs []SX
}

func (f c07fields) sx() SX { return L(f.xs...) }

func (c *c07comp) sx() SX {
	switch c.kind {
	case ckJSON, ckConsole, ckObs:
		if c.lref != nil {
			return L(I(8), c.lref.sx(), L(I(c.kind)))
		}
		return L(I(c.kind))
	case ckTee:
		ks := make([]SX, len(c.kids))
		for i, k := range c.kids {
			ks[i] = k.sx()
		}
		return L(I(3), L(ks...))
	case ckSamp:
		return L(I(4), c.kids[0].sx())
	case ckHook:
		return L(I(5), c.kids[0].sx())
	case ckFilt:
		return L(I(6), c.flev().sx(), c.kids[0].sx())
	default:
		return L(I(7), c.fs.sx(), c.kids[0].sx())
	}
}

func (c *c07comp) class() string {
	seen := map[int]bool{}
	var walk func(*c07comp)
	walk = func(x *c07comp) {
		seen[x.kind] = true
		if x.lref != nil {
			seen[8] = true // a LevelEnabler of its own (leaf) / not one of the two fixed levels (filter)
			if x.lref.atom >= 0 {
				seen[9] = true
			}
		}
		for _, k := range x.kids {
			walk(k)
		}
	}
	walk(c)
	s := ""
	for i, ch := range "JCOTSHFLEA" {
		if seen[i] {
			s += string(ch)
		}
	}
	return s
}

// the kinds of the sinks, in construction order (= the sink numbers of the model's labelling)
func (c *c07comp) sinkKinds() []int {
	if c.kind == ckJSON || c.kind == ckConsole || c.kind == ckObs {
		return []int{c.kind}
	}
	var out []int
	for _, k := range c.kids {
		out = append(out, k.sinkKinds()...)
	}
	return out
}

// minimum level at which the subtree is enabled: false = Info, true = Warn
func (c *c07comp) minHi() bool {
	switch c.kind {
	case ckJSON, ckConsole, ckObs:
		return false
	case ckTee:
		for _, k := range c.kids {
			if !k.minHi() {
				return false
			}
		}
		return true
	case ckFilt:
		return c.thr
	default:
		return c.kids[0].minHi()
	}
}

type c07sink struct {
	kind  int
	lines [][]byte // io sinks: a copy of every line ACCEPTED so far (an io.Writer must not retain p)
	logs  *observer.ObservedLogs
	mark  int   // lines / recorded entries that existed before the current call
	cnt   []int // per logging call: how many lines / entries it added to this sink
	fail  int   // io sinks: how the next writes fail (0: they do not)
}

// failure modes of a sink's Write
const (
	c07failNothing = 1 // error, nothing consumed (disk full, closed pipe)
	c07failShort   = 2 // short write: half of the line consumed, io.ErrShortWrite
	c07failLate    = 3 // everything consumed, then an error (a flush that failed)
)

var errC07sink = errors.New("no space left on device")

// a failing write delivers nothing: the line is kept only when the sink accepts it
func (s *c07sink) Write(p []byte) (int, error) {
	switch s.fail {
	case c07failNothing:
		return 0, errC07sink
	case c07failShort:
		return len(p) / 2, io.ErrShortWrite
	case c07failLate:
		return len(p), errC07sink
	}
	s.lines = append(s.lines, append([]byte(nil), p...))
	return len(p), nil
}
func (s *c07sink) Sync() error { return nil }

type c07env struct {
	world  int64
	aux    []SX
	sinks  []*c07sink
	ecfg   zapcore.EncoderConfig
	out    *c07outside
	initLv []int             // the values the AtomicLevels of the case are created with
	atoms  []zap.AtomicLevel // created by c07run before the composition is built
}

// zap reports a failed write on the logger's ErrorOutput (default: stderr)
type c07errOut struct{ n int }

func (e *c07errOut) Write(p []byte) (int, error) { e.n++; return len(p), nil }
func (e *c07errOut) Sync() error                 { return nil }

// ---------- loggers outside the judged tree ----------
// Two unrelated loggers (a JSON and a console core over sinks of their own).  What they emit is not judged;
// what they do to process-wide state (the buffer pool) must not show in the tree.
type c07outside struct {
	sinks [2]*c07sink
	logs  [2]*zap.Logger
	keep  []*zap.Logger
}

type c07ext struct {
	kind int // 0/1: the JSON / console logger's sink fails one write; 2/3: it logs fields whose encoding fails;
	// 4/5: it derives a logger With such fields, which then logs (to a failing sink when mode != 0) and stays alive
	mode int
	fs   c07fields
}

func (x *c07ext) sx() SX { return L(I(2), I(x.kind), I(x.mode), x.fs.sx()) }

func (e *c07env) outside(x *c07ext) {
	if e.out == nil {
		e.out = &c07outside{}
		for i := 0; i < 2; i++ {
			s := &c07sink{kind: i}
			enc := zapcore.NewJSONEncoder(e.ecfg)
			if i == 1 {
				enc = zapcore.NewConsoleEncoder(e.ecfg)
			}
			e.out.sinks[i] = s
			e.out.logs[i] = zap.New(zapcore.NewCore(enc, s, zapcore.DebugLevel), zap.ErrorOutput(&c07errOut{})).With(zap.String("outside", "tree"))
		}
	}
	i := x.kind & 1
	s, lg := e.out.sinks[i], e.out.logs[i]
	switch x.kind {
	case 0, 1:
		s.fail = x.mode
		lg.Named("io").Info("lost entry", zap.Int("n", 1))
	case 2, 3:
		lg.Warn("m", x.fs.fs...)
	default:
		d := lg.With(x.fs.fs...)
		s.fail = x.mode
		d.Warn("m", zap.Int("n", 2))
		e.out.keep = append(e.out.keep, d)
	}
	s.fail = 0
	s.lines = nil
}

func (e *c07env) build(c *c07comp) zapcore.Core {
	switch c.kind {
	case ckJSON:
		s := &c07sink{kind: ckJSON}
		e.sinks = append(e.sinks, s)
		return zapcore.NewCore(zapcore.NewJSONEncoder(e.ecfg), s, e.leafLevel(c))
	case ckConsole:
		s := &c07sink{kind: ckConsole}
		e.sinks = append(e.sinks, s)
		return zapcore.NewCore(zapcore.NewConsoleEncoder(e.ecfg), s, e.leafLevel(c))
	case ckObs:
		core, logs := observer.New(e.leafLevel(c))
		e.sinks = append(e.sinks, &c07sink{kind: ckObs, logs: logs})
		return core
	case ckTee:
		ks := make([]zapcore.Core, len(c.kids))
		for i, k := range c.kids {
			ks[i] = e.build(k)
		}
		return zapcore.NewTee(ks...)
	case ckSamp:
		inner := e.build(c.kids[0])
		return zapcore.NewSamplerWithOptions(inner, time.Hour, 1<<30, 0, zapcore.SamplerHook(func(_ zapcore.Entry, d zapcore.SamplingDecision) {
			if d&zapcore.LogSampled != 0 {
				e.aux = append(e.aux, L(I(0)))
			} else {
				e.aux = append(e.aux, L(I(9), Str("dropped")))
			}
		}))
	case ckHook:
		inner := e.build(c.kids[0])
		return zapcore.RegisterHooks(inner, func(ent zapcore.Entry) error {
			e.aux = append(e.aux, L(I(1), Str(ent.LoggerName), Str(ent.Message)))
			return nil
		})
	case ckFilt:
		inner := e.build(c.kids[0])
		core, err := zapcore.NewIncreaseLevelCore(inner, e.enabler(c.flev()))
		if err != nil {
			panic("generator produced an invalid increase-level core: " + err.Error())
		}
		return core
	default:
		inner := e.build(c.kids[0])
		return zapcore.NewLazyWith(inner, c.fs.fs)
	}
}

func (e *c07env) leafLevel(c *c07comp) zapcore.LevelEnabler {
	if c.lref != nil {
		return e.enabler(c.lref)
	}
	return zapcore.DebugLevel
}

func (env *c07env) reset() {
	env.aux = nil
}

func (env *c07env) render(le observer.LoggedEntry) SX {
	enc := zapcore.NewJSONEncoder(env.ecfg)
	buf, err := enc.EncodeEntry(le.Entry, le.Context)
	if err != nil {
		return L(Str("render error: " + err.Error()))
	}
	defer buf.Free()
	return L(B(buf.Bytes()))
}

// after one logging call: aux events in real order, then what the call added to every sink.  Nothing is
// taken away from the sinks: the observers keep their LoggedEntry values (ObservedLogs.All() is read, not
// TakeAll()), the io sinks their lines, so that collectEnd can read every entry a second time.
func (env *c07env) collect() []SX {
	parts := []SX{L(env.aux...)}
	for _, s := range env.sinks {
		var ls []SX
		if s.kind == ckObs {
			all := s.logs.All()
			for _, le := range all[s.mark:] {
				// render the recorded entry now (the world is still that of the call)
				ls = append(ls, env.render(le))
			}
			s.cnt = append(s.cnt, len(all)-s.mark)
			s.mark = len(all)
		} else {
			for _, ln := range s.lines[s.mark:] {
				ls = append(ls, L(B(ln)))
			}
			s.cnt = append(s.cnt, len(s.lines)-s.mark)
			s.mark = len(s.lines)
		}
		parts = append(parts, L(ls...))
	}
	return parts
}

// the END-OF-HISTORY view: after the whole program has run (every later call, every later derivation),
// each sink is read again -- the observers through TakeAll() -- and what it holds for the k-th logging call
// is rendered with the world put back to the value it had at that call (ws[k]).  One element per call:
// ((sink-0 lines ...) (sink-1 lines ...) ...).
func (env *c07env) collectEnd(ws []int64) []SX {
	final := make([][]observer.LoggedEntry, len(env.sinks))
	for si, s := range env.sinks {
		if s.kind == ckObs {
			final[si] = s.logs.TakeAll()
		}
	}
	pos := make([]int, len(env.sinks))
	var out []SX
	for k, w := range ws {
		env.world = w
		var parts []SX
		for si, s := range env.sinks {
			var ls []SX
			n := 0
			if k < len(s.cnt) {
				n = s.cnt[k]
			}
			for j := 0; j < n; j++ {
				i := pos[si] + j
				switch {
				case s.kind == ckObs && i < len(final[si]):
					ls = append(ls, env.render(final[si][i]))
				case s.kind != ckObs && i < len(s.lines):
					ls = append(ls, L(B(s.lines[i])))
				default:
					ls = append(ls, L(Str("entry no longer held by the sink")))
				}
			}
			pos[si] += n
			parts = append(parts, L(ls...))
		}
		out = append(out, L(parts...))
	}
	// entries that appeared from nowhere
	for si, s := range env.sinks {
		if s.kind == ckObs && len(final[si]) != pos[si] {
			out = append(out, L(Str(fmt.Sprintf("observer sink %d holds %d entries at the end, %d were recorded", si, len(final[si]), pos[si]))))
		}
	}
	return out
}

// ---------- programs ----------
const (
	stWith = iota
	stWithLazy
	stNamed
	stFields
	stSugar
	stDesugar
)

type c07fail struct{ sink, mode int }

type c07op struct {
	log    bool
	node   int // parent (derive) or logging node
	step   int
	seg    []byte
	fs     c07fields
	hi     bool
	msg    []byte
	w      int64
	viaChk bool      // plain logger: Check(...).Write(...) instead of Info/Warn
	fails  []c07fail // logging call: the sinks whose Write fails for this call, and how
	ext    *c07ext   // not an operation of the tree: something loggers outside it do at this point
	hasLv  bool      // logging call: made at level lv (Debug -1 .. Error 2) instead of Info / Warn (hi)
	lv     int
	viaLog bool // Log(lvl, ...) / Logw(lvl, ...) instead of the level's own method
	set    bool // not an operation on a logger: AtomicLevel number atom .SetLevel(lv)
	atom   int
}

func (o *c07op) level() int {
	if o.hasLv {
		return o.lv
	}
	if o.hi {
		return 1
	}
	return 0
}

type c07node struct {
	plain *zap.Logger
	sugar *zap.SugaredLogger
}

// The "caller" of a With / WithOptions(Fields) derivation or of a logging call re-uses the slice it passed:
// c07run hands every such call a slice of its own and overwrites it afterwards.  Nothing a logger carries and
// nothing a core recorded may alias the caller's storage (WithLazy is exempt: Logger.WithLazy keeps the
// caller's slice until the first use, by design).
func c07own(fs []zapcore.Field) []zapcore.Field { return append([]zapcore.Field(nil), fs...) }
func c07poison(fs []zapcore.Field, args []interface{}) {
	for i := range fs {
		fs[i] = zap.String("POISON", "slice re-used by the caller")
	}
	for i := range args {
		args[i] = zap.String("POISON", "slice re-used by the caller")
	}
}

func c07args(fs []zapcore.Field) []interface{} {
	out := make([]interface{}, len(fs))
	for i, f := range fs {
		out[i] = f
	}
	return out
}

func (o *c07op) sx(sugared bool) SX {
	sg := Bool(sugared)
	if o.ext != nil {
		return o.ext.sx()
	}
	if o.set {
		return L(I(3), I(o.atom), I(o.lv))
	}
	if o.log {
		fl := make([]SX, len(o.fails))
		for i, f := range o.fails {
			fl[i] = I(f.sink)
		}
		return L(I(1), I(o.node), I(o.level()), B(o.msg), o.fs.sx(), Z(o.w), sg, L(fl...))
	}
	var st SX
	switch o.step {
	case stWith:
		st = L(I(0), o.fs.sx(), sg)
	case stWithLazy:
		st = L(I(1), o.fs.sx(), sg)
	case stNamed:
		st = L(I(2), B(o.seg), sg)
	case stFields:
		st = L(I(3), o.fs.sx(), sg)
	case stSugar:
		st = L(I(4))
	default:
		st = L(I(5))
	}
	return L(I(0), I(o.node), st, Z(o.w))
}

// runs a program on the real zap; returns the per-log observations
func c07run(comp *c07comp, env *c07env, ops []*c07op) (opx []SX, obs []SX, end []SX) {
	var ws []int64
	env.atoms = nil
	for _, v := range env.initLv {
		env.atoms = append(env.atoms, zap.NewAtomicLevelAt(zapcore.Level(v)))
	}
	core := env.build(comp)
	nodes := []c07node{{plain: zap.New(core, zap.ErrorOutput(&c07errOut{}))}}
	for _, o := range ops {
		env.world = o.w
		if o.ext != nil {
			opx = append(opx, o.sx(false))
			env.outside(o.ext)
			continue
		}
		if o.set {
			opx = append(opx, o.sx(false))
			env.atoms[o.atom].SetLevel(zapcore.Level(o.lv))
			continue
		}
		n := nodes[o.node]
		sugared := n.sugar != nil
		opx = append(opx, o.sx(sugared))
		if !o.log {
			var nn c07node
			switch o.step {
			case stWith:
				fs := c07own(o.fs.fs)
				var args []interface{}
				if sugared {
					args = c07args(fs)
					nn.sugar = n.sugar.With(args...)
				} else {
					nn.plain = n.plain.With(fs...)
				}
				c07poison(fs, args)
			case stWithLazy:
				if sugared {
					nn.sugar = n.sugar.WithLazy(c07args(o.fs.fs)...)
				} else {
					nn.plain = n.plain.WithLazy(o.fs.fs...)
				}
			case stNamed:
				if sugared {
					nn.sugar = n.sugar.Named(string(o.seg))
				} else {
					nn.plain = n.plain.Named(string(o.seg))
				}
			case stFields:
				fs := c07own(o.fs.fs)
				if sugared {
					nn.sugar = n.sugar.WithOptions(zap.Fields(fs...))
				} else {
					nn.plain = n.plain.WithOptions(zap.Fields(fs...))
				}
				c07poison(fs, nil)
			case stSugar:
				if sugared { // generator never does this; keep the program type-correct
					nn = n
				} else {
					nn.sugar = n.plain.Sugar()
				}
			default:
				if sugared {
					nn.plain = n.sugar.Desugar()
				} else {
					nn = n
				}
			}
			nodes = append(nodes, nn)
			continue
		}
		env.reset()
		lvl := zapcore.Level(o.level())
		fs := c07own(o.fs.fs)
		var args []interface{}
		if sugared {
			args = c07args(fs)
		}
		for _, f := range o.fails {
			env.sinks[f.sink].fail = f.mode
		}
		switch {
		case sugared && o.viaLog:
			n.sugar.Logw(lvl, string(o.msg), args...)
		case sugared:
			switch lvl {
			case zapcore.DebugLevel:
				n.sugar.Debugw(string(o.msg), args...)
			case zapcore.InfoLevel:
				n.sugar.Infow(string(o.msg), args...)
			case zapcore.WarnLevel:
				n.sugar.Warnw(string(o.msg), args...)
			default:
				n.sugar.Errorw(string(o.msg), args...)
			}
		case o.viaChk:
			if ce := n.plain.Check(lvl, string(o.msg)); ce != nil {
				ce.Write(fs...)
			}
		case o.viaLog:
			n.plain.Log(lvl, string(o.msg), fs...)
		default:
			switch lvl {
			case zapcore.DebugLevel:
				n.plain.Debug(string(o.msg), fs...)
			case zapcore.InfoLevel:
				n.plain.Info(string(o.msg), fs...)
			case zapcore.WarnLevel:
				n.plain.Warn(string(o.msg), fs...)
			default:
				n.plain.Error(string(o.msg), fs...)
			}
		}
		for _, f := range o.fails {
			env.sinks[f.sink].fail = 0
		}
		parts := env.collect()
		c07poison(fs, args) // after the immediate view was taken: only the end-of-history view can show it
		obs = append(obs, L(parts...))
		ws = append(ws, o.w)
	}
	end = env.collectEnd(ws)
	return
}

// ---------- generators ----------
type c07gen struct {
	r   *RNG
	env *c07env
	g   *genState
	// statistics of the case
	nmut, nns, nlazy, nfault int
	hiPct                    int   // chance of a call being made at Warn
	io                       []int // the io sinks of the case's composition (those whose Write can fail)
	failPct, extPct          int   // chance of a logging call meeting failing sinks / of outside activity after an operation
}

// fixes the composition the program is generated for
func (g *c07gen) use(comp *c07comp, failPct, extPct int) *c07comp {
	g.io = nil
	for i, k := range comp.sinkKinds() {
		if k != ckObs {
			g.io = append(g.io, i)
		}
	}
	g.failPct, g.extPct = failPct, extPct
	return comp
}

// a non-empty set of io sinks that fail the write of one call, each in a mode of its own
func (g *c07gen) failSet() []c07fail {
	if len(g.io) == 0 {
		return nil
	}
	r := g.r
	var out []c07fail
	for _, k := range g.io {
		if r.Chance(60) {
			out = append(out, c07fail{k, r.Range(1, 3)})
		}
	}
	if len(out) == 0 {
		out = append(out, c07fail{g.io[r.Intn(len(g.io))], r.Range(1, 3)})
	}
	g.nfault++
	return out
}

// n static fields whose encoding takes an error path: marshalers returning errors (also nested), values
// encoding/json rejects, panicking and nil Stringers, error values (panicking Error methods included)
func (g *c07gen) failing(n int) c07fields {
	var out c07fields
	for tries := 0; len(out.fs) < n && tries < 200; tries++ {
		g.g.size = 8
		g.g.fault = false
		f, x := g.g.field(2)
		g.g.nsp = false
		if !g.g.fault || f.Type == zapcore.NamespaceType {
			continue
		}
		out.fs = append(out.fs, f)
		out.xs = append(out.xs, x)
	}
	return out
}

// something loggers outside the tree do between two operations of the tree
func (g *c07gen) extOp(p *c07prog) {
	r := g.r
	x := &c07ext{kind: r.Intn(6)}
	switch x.kind {
	case 0, 1:
		x.mode = r.Range(1, 3)
	case 2, 3:
		x.fs = g.failing(r.Range(1, 2))
	default:
		x.fs = g.failing(r.Range(1, 2))
		x.mode = r.Intn(4)
	}
	g.nfault++
	p.ops = append(p.ops, &c07op{ext: x, w: p.tick(r)})
}

func newC07gen(r *RNG) *c07gen {
	ec := c07encCfg()
	env := &c07env{ecfg: ec.real()}
	return &c07gen{r: r, env: env, g: &genState{r: r, cfg: ec, size: 1 << 20}, hiPct: 40}
}

func (g *c07gen) mut(kind int, key string) (zapcore.Field, SX) {
	g.nmut++
	w := &g.env.world
	switch kind {
	case 0:
		return zap.Object(key, c07mutObj{w}), L(I(100), Str(key))
	case 1:
		return zap.Inline(c07mutObj{w}), L(I(101))
	case 2:
		return zap.Array(key, c07mutArr{w}), L(I(102), Str(key))
	default:
		return zap.Stringer(key, c07mutStr{w}), L(I(103), Str(key))
	}
}

func (g *c07gen) str(key, val string) (zapcore.Field, SX) {
	return zap.String(key, val), L(I(4), Str(key), Str(val))
}
func (g *c07gen) ns(key string) (zapcore.Field, SX) {
	g.nns++
	return zap.Namespace(key), L(I(11), Str(key))
}

var c07keys = []string{"a", "b", "c", "k", "id", "w", "msg", "level", "logger", ""}

// n fields: simple tagged strings, namespaces, mutable marshalers, hostile static fields
func (g *c07gen) fields(n int, mutPct int) c07fields {
	var out c07fields
	r := g.r
	for i := 0; i < n; i++ {
		var f zapcore.Field
		var x SX
		p := r.Intn(100)
		key := c07keys[r.Intn(len(c07keys))]
		switch {
		case p < mutPct:
			f, x = g.mut(r.Intn(4), key)
		case p < mutPct+12:
			f, x = g.ns(key)
		case p < mutPct+50:
			f, x = g.str(key, fmt.Sprintf("v%d", r.Intn(1000)))
		default:
			g.g.size = 8
			f, x = g.g.field(2)
			if g.g.nsp {
				g.nns++
				g.g.nsp = false
			}
		}
		out.fs = append(out.fs, f)
		out.xs = append(out.xs, x)
	}
	return out
}

func (g *c07gen) comp(depth int, underHook bool) *c07comp {
	r := g.r
	x := r.Intn(100)
	if depth <= 0 || x < 34 {
		return &c07comp{kind: []int{ckJSON, ckJSON, ckConsole, ckObs, ckObs}[r.Intn(5)]}
	}
	switch {
	case x < 52:
		n := r.Range(2, 3)
		c := &c07comp{kind: ckTee}
		for i := 0; i < n; i++ {
			c.kids = append(c.kids, g.comp(depth-1, underHook))
		}
		return c
	case x < 62:
		return &c07comp{kind: ckSamp, kids: []*c07comp{g.comp(depth-1, underHook)}}
	case x < 72:
		inner := g.comp(depth-1, true)
		if r.Chance(35) && !inner.minHi() {
			// a wrapped core that declines Info entries: the hooks must not run for them
			inner = &c07comp{kind: ckFilt, thr: true, kids: []*c07comp{inner}}
		}
		return &c07comp{kind: ckHook, kids: []*c07comp{inner}}
	case x < 84:
		k := g.comp(depth-1, underHook)
		thr := r.Bool() || k.minHi()
		return &c07comp{kind: ckFilt, thr: thr, kids: []*c07comp{k}}
	default:
		g.nlazy++
		inner := g.comp(depth-1, underHook)
		if r.Chance(30) && !inner.minHi() {
			// an original core that rejects Info entries: a Check at Info must not evaluate the lazy fields
			inner = &c07comp{kind: ckFilt, thr: true, kids: []*c07comp{inner}}
		}
		return &c07comp{kind: ckLazy, fs: g.fields(r.Range(0, 2), 40), kids: []*c07comp{inner}}
	}
}

var c07segs = []string{"a", "b", "svc", "x.y", "db", ""}

func (g *c07gen) seg() []byte {
	r := g.r
	x := r.Intn(100)
	switch {
	case x < 75:
		return []byte(c07segs[r.Intn(len(c07segs))])
	case x < 85:
		return nil
	default:
		return hostile(r, 5)
	}
}

type c07prog struct {
	ops     []*c07op
	sugared []bool // per node
	parent  []int
	ctx     []int // per node: number of context items on its path
	w       int64
	initLv  []int // the values the AtomicLevels of the composition are created with
}

func (p *c07prog) tick(r *RNG) int64 {
	p.w += int64([]int{0, 0, 1, 1, 3}[r.Intn(5)])
	return p.w
}

func (g *c07gen) derive(p *c07prog, parent int, step int, fs c07fields, seg []byte) int {
	sug := p.sugared[parent]
	switch step {
	case stSugar:
		if sug {
			step = stDesugar
		}
	case stDesugar:
		if !sug {
			step = stSugar
		}
	}
	o := &c07op{node: parent, step: step, fs: fs, seg: seg, w: p.tick(g.r)}
	p.ops = append(p.ops, o)
	nsug := sug
	if step == stSugar {
		nsug = true
	} else if step == stDesugar {
		nsug = false
	}
	p.sugared = append(p.sugared, nsug)
	p.parent = append(p.parent, parent)
	c := p.ctx[parent]
	if (step == stWith || step == stWithLazy) && len(fs.fs) > 0 || step == stFields {
		c++
	}
	p.ctx = append(p.ctx, c)
	return len(p.sugared) - 1
}

func (g *c07gen) log(p *c07prog, node int, nf int) {
	r := g.r
	var msg []byte
	switch x := r.Intn(10); {
	case x < 6:
		msg = []byte("m")
	case x < 7:
		msg = nil
	default:
		msg = hostile(r, 6)
	}
	o := &c07op{log: true, node: node, hi: r.Chance(g.hiPct), msg: msg, fs: g.fields(nf, 25), w: p.tick(r), viaChk: r.Chance(20)}
	if g.failPct > 0 && r.Chance(g.failPct) {
		o.fails = g.failSet()
	}
	p.ops = append(p.ops, o)
	if g.extPct > 0 && r.Chance(g.extPct) {
		g.extOp(p)
	}
}

// the faulted call itself: the chosen sinks fail its write / its fields fail to encode
func (g *c07gen) logFault(p *c07prog, node int, fails []c07fail, fs c07fields) {
	r := g.r
	p.ops = append(p.ops, &c07op{log: true, node: node, hi: r.Chance(80), msg: []byte("lost"), fs: fs, w: p.tick(r), viaChk: r.Chance(20), fails: fails})
}

func newC07prog() *c07prog {
	return &c07prog{sugared: []bool{false}, parent: []int{-1}, ctx: []int{0}, w: 1}
}

func (g *c07gen) randStep(p *c07prog, parent int) int {
	r := g.r
	x := r.Intn(100)
	switch {
	case x < 34:
		return g.derive(p, parent, stWith, g.fields(r.Range(1, 3), 25), nil)
	case x < 54:
		g.nlazy++
		return g.derive(p, parent, stWithLazy, g.fields(r.Range(1, 3), 45), nil)
	case x < 70:
		return g.derive(p, parent, stNamed, c07fields{}, g.seg())
	case x < 80:
		return g.derive(p, parent, stFields, g.fields(r.Range(0, 2), 25), nil)
	case x < 94:
		return g.derive(p, parent, stSugar, c07fields{}, nil)
	case x < 97:
		return g.derive(p, parent, stWith, c07fields{}, nil)
	default:
		return g.derive(p, parent, stWithLazy, c07fields{}, nil)
	}
}

// random derivation tree, siblings created and used in random order, every node logs at the end
func (g *c07gen) randProg(maxNodes int) *c07prog {
	r := g.r
	p := newC07prog()
	n := r.Range(3, maxNodes)
	hot := 0
	for len(p.sugared) < n {
		var parent int
		switch x := r.Intn(100); {
		case x < 30:
			parent = len(p.sugared) - 1
		case x < 55:
			parent = hot
		default:
			parent = r.Intn(len(p.sugared))
		}
		k := g.randStep(p, parent)
		if r.Chance(15) {
			hot = k
		}
		if r.Chance(30) {
			g.log(p, r.Intn(len(p.sugared)), r.Intn(3))
		}
	}
	// every node logs, in random order; some twice
	order := make([]int, len(p.sugared))
	for i := range order {
		order[i] = i
	}
	for i := len(order) - 1; i > 0; i-- {
		j := r.Intn(i + 1)
		order[i], order[j] = order[j], order[i]
	}
	// several entries per logger: the later ones must not rewrite the earlier ones (every entry is read
	// again at the end of the history)
	for _, k := range order {
		g.log(p, k, r.Intn(3))
		if r.Chance(50) {
			g.log(p, k, r.Range(1, 2))
		}
		if r.Chance(15) {
			g.log(p, k, 1)
		}
	}
	// later derivations from loggers that have already logged; the new loggers log too
	for i, n := 0, r.Intn(3); i < n; i++ {
		k := g.randStep(p, r.Intn(len(p.sugared)))
		g.log(p, k, r.Intn(2))
	}
	return p
}

// the aliasing pattern: a chain of With calls adding few fields (so that the context slice of the last
// one has spare capacity), several children of the same parent, and the first child logs after the
// others were created
func (g *c07gen) siblingProg() *c07prog {
	r := g.r
	p := newC07prog()
	cur := 0
	depth := r.Range(1, 7)
	for i := 0; i < depth; i++ {
		st := stWith
		if r.Chance(20) {
			st = stFields
		}
		cur = g.derive(p, cur, st, g.fields(r.Range(1, 2), 10), nil)
		if r.Chance(25) {
			cur = g.derive(p, cur, stNamed, c07fields{}, g.seg())
		}
	}
	var parents []int
	parents = append(parents, cur)
	if r.Chance(50) && p.parent[cur] >= 0 {
		parents = append(parents, p.parent[cur])
	}
	var kids []int
	for _, par := range parents {
		nk := r.Range(2, 4)
		for i := 0; i < nk; i++ {
			st := stWith
			if r.Chance(15) {
				st = stFields
			} else if r.Chance(15) {
				st = stWithLazy
			}
			kids = append(kids, g.derive(p, par, st, g.fields(r.Range(1, 2), 10), nil))
			if r.Chance(20) {
				g.log(p, par, 1)
			}
		}
	}
	for _, k := range kids {
		g.log(p, k, r.Intn(2))
	}
	for _, par := range parents {
		g.log(p, par, 0)
	}
	// second entries from the same loggers, with call-site fields (the first ones are re-read at the end)
	for _, k := range kids {
		g.log(p, k, 1)
	}
	for _, par := range parents {
		g.log(p, par, r.Range(1, 2))
	}
	// a grandchild of the first child, then the first child again
	gc := g.derive(p, kids[0], stWith, g.fields(1, 0), nil)
	g.log(p, gc, 0)
	g.log(p, kids[0], 1)
	return p
}

// the recorded-entry aliasing pattern: a logger whose accumulated context has spare capacity (its last
// context-adding step added fewer fields than it already carried -- With(a,b).With(c), With of 3 then 1 -- or
// it ends a chain built one field at a time), SEVERAL entries with 1..3 call-site fields logged through that
// same logger and through its Named / Sugar clones (which share its core), interleaved with calls of its
// parent and of the root, with derivations of children and their calls; one more derivation after all of it.
// Whether an earlier entry survives is visible only in the end-of-history view.
func (g *c07gen) relogProg() *c07prog {
	r := g.r
	p := newC07prog()
	g.hiPct = 75
	ctxStep := func(par, n int) int {
		st := stWith
		switch x := r.Intn(10); {
		case x < 2:
			st = stWithLazy
			g.nlazy++
		case x < 4:
			st = stFields
		}
		return g.derive(p, par, st, g.fields(n, 10), nil)
	}
	cur := 0
	switch r.Intn(3) {
	case 0: // With(n1).With(n2), n2 < n1
		n1 := r.Range(2, 5)
		cur = ctxStep(cur, n1)
		cur = ctxStep(cur, r.Range(1, n1-1))
	case 1: // one field at a time (append pattern: len 3 cap 4, len 5 cap 8, ...)
		for i, d := 0, r.Range(3, 9); i < d; i++ {
			cur = ctxStep(cur, 1)
		}
	default:
		for i, d := 0, r.Range(2, 5); i < d; i++ {
			cur = ctxStep(cur, r.Range(1, 3))
			if r.Chance(20) {
				cur = g.derive(p, cur, stNamed, c07fields{}, g.seg())
			}
		}
	}
	if r.Chance(25) {
		cur = g.derive(p, cur, stSugar, c07fields{}, nil)
	}
	hot := []int{cur}
	if r.Chance(40) {
		hot = append(hot, g.derive(p, cur, stNamed, c07fields{}, g.seg()))
	}
	if r.Chance(30) {
		hot = append(hot, g.derive(p, cur, stSugar, c07fields{}, nil)) // Desugar when cur is sugared
	}
	par := p.parent[cur]
	for i, n := 0, r.Range(2, 5); i < n; i++ {
		g.log(p, hot[r.Intn(len(hot))], r.Range(1, 3))
		switch x := r.Intn(10); {
		case x < 2:
			child := ctxStep(hot[r.Intn(len(hot))], r.Range(1, 2))
			g.log(p, child, r.Intn(2))
			if r.Chance(30) {
				hot = append(hot, child)
			}
		case x < 4:
			g.log(p, par, r.Intn(2))
		case x < 5:
			g.log(p, 0, 1)
		}
	}
	k := ctxStep(hot[0], r.Range(1, 2))
	g.log(p, k, 1)
	return p
}

// the fault pattern: somewhere in the process an error path is taken -- a sink of the tree fails the write
// of one entry (any logger of the tree, any mode), an entry or a derivation carries fields whose encoding
// fails, or a logger outside the tree does either -- and AFTERWARDS loggers are derived (With / Fields /
// sugared With, through Named and Sugar clones), 2-4 siblings alive together, each logging while and after the
// others are derived, their parent too, the first sibling again; 1-3 such rounds in one history, later rounds
// deriving from loggers of earlier ones; the entries sent to failing sinks are lost, everything else is judged.
func (g *c07gen) faultProg() *c07prog {
	r := g.r
	p := newC07prog()
	cur := 0
	for i, d := 0, r.Intn(4); i < d; i++ {
		cur = g.randStep(p, cur)
	}
	bases := []int{cur}
	if cur != 0 && r.Bool() {
		bases = append(bases, 0)
	}
	if r.Chance(30) {
		g.log(p, cur, r.Intn(2))
	}
	for k, rounds := 0, r.Range(1, 3); k < rounds; k++ {
		base := bases[r.Intn(len(bases))]
		for i, nf := 0, 1+r.Intn(2)*r.Intn(2); i < nf; i++ {
			switch x := r.Intn(100); {
			case x < 45 && len(g.io) > 0:
				var fs c07fields
				if r.Chance(30) {
					fs = g.fields(r.Range(1, 2), 15)
				}
				g.logFault(p, r.Intn(len(p.sugared)), g.failSet(), fs)
			case x < 60:
				g.nfault++
				g.logFault(p, r.Intn(len(p.sugared)), nil, g.failing(r.Range(1, 2)))
			case x < 70:
				// a derivation with failing fields; the logger logs (possibly to failing sinks)
				g.nfault++
				st := stWith
				if r.Chance(30) {
					st = stFields
				}
				d := g.derive(p, r.Intn(len(p.sugared)), st, g.failing(r.Range(1, 2)), nil)
				var fl []c07fail
				if r.Bool() {
					fl = g.failSet()
				}
				g.logFault(p, d, fl, c07fields{})
			default:
				g.extOp(p)
			}
		}
		var kids []int
		for i, nk := 0, r.Range(2, 4); i < nk; i++ {
			par := base
			if r.Chance(25) {
				par = g.derive(p, par, stNamed, c07fields{}, g.seg())
			}
			if r.Chance(20) {
				par = g.derive(p, par, stSugar, c07fields{}, nil)
			}
			st := stWith
			switch x := r.Intn(20); {
			case x < 3:
				st = stFields
			case x < 5:
				st = stWithLazy
				g.nlazy++
			}
			kid := g.derive(p, par, st, g.fields(r.Range(1, 2), 10), nil)
			kids = append(kids, kid)
			if r.Chance(25) {
				g.log(p, kid, r.Intn(2))
			}
		}
		for _, kid := range kids {
			g.log(p, kid, r.Intn(3))
		}
		g.log(p, base, r.Intn(2))
		g.log(p, kids[0], 1)
		if r.Chance(30) {
			g.log(p, 0, 0)
		}
		if r.Chance(60) {
			bases = append(bases, kids[r.Intn(len(kids))])
		}
	}
	return p
}

// compositions with at least one io leaf (the cores whose encoders hold pooled buffers)
func (g *c07gen) faultComp(i int) *c07comp {
	r := g.r
	leaf := func() *c07comp { return &c07comp{kind: []int{ckJSON, ckConsole}[r.Intn(2)]} }
	switch i % 4 {
	case 0:
		return leaf()
	case 1:
		switch r.Intn(6) {
		case 0:
			return &c07comp{kind: ckTee, kids: []*c07comp{leaf(), leaf()}}
		case 1:
			return &c07comp{kind: ckTee, kids: []*c07comp{{kind: ckObs}, leaf()}}
		case 2:
			g.nlazy++
			return &c07comp{kind: ckLazy, fs: g.fields(r.Range(1, 2), 20), kids: []*c07comp{leaf()}}
		case 3:
			return &c07comp{kind: ckHook, kids: []*c07comp{leaf()}}
		case 4:
			return &c07comp{kind: ckSamp, kids: []*c07comp{{kind: ckTee, kids: []*c07comp{leaf(), {kind: ckObs}}}}}
		default:
			return &c07comp{kind: ckFilt, thr: r.Bool(), kids: []*c07comp{leaf()}}
		}
	default:
		comp := g.comp(2, false)
		for _, k := range comp.sinkKinds() {
			if k != ckObs {
				return comp
			}
		}
		return &c07comp{kind: ckTee, kids: []*c07comp{comp, leaf()}}
	}
}

// compositions for the re-log programs: observers directly, in tees, below lazy / hooked / sampler / filter
func (g *c07gen) relogComp(i int) *c07comp {
	r := g.r
	obs := func() *c07comp { return &c07comp{kind: ckObs} }
	lz := func(inner *c07comp) *c07comp {
		g.nlazy++
		return &c07comp{kind: ckLazy, fs: g.fields(r.Range(1, 3), 20), kids: []*c07comp{inner}}
	}
	switch i % 4 {
	case 0:
		return obs()
	case 1:
		switch r.Intn(10) {
		case 0:
			return &c07comp{kind: ckTee, kids: []*c07comp{obs(), obs()}}
		case 1:
			return &c07comp{kind: ckTee, kids: []*c07comp{obs(), {kind: ckJSON}, {kind: ckConsole}}}
		case 2:
			return lz(obs())
		case 3:
			return &c07comp{kind: ckHook, kids: []*c07comp{obs()}}
		case 4:
			return &c07comp{kind: ckSamp, kids: []*c07comp{obs()}}
		case 5:
			return &c07comp{kind: ckFilt, thr: r.Bool(), kids: []*c07comp{obs()}}
		case 6:
			return &c07comp{kind: ckTee, kids: []*c07comp{lz(obs()), obs()}}
		case 7:
			return &c07comp{kind: ckHook, kids: []*c07comp{{kind: ckTee, kids: []*c07comp{obs(), obs()}}}}
		case 8:
			return lz(&c07comp{kind: ckTee, kids: []*c07comp{obs(), {kind: ckJSON}}})
		default:
			return &c07comp{kind: ckHook, kids: []*c07comp{lz(&c07comp{kind: ckSamp, kids: []*c07comp{obs()}})}}
		}
	default:
		return g.comp(2, false)
	}
}

func (g *c07gen) emit(c *Ctx, comp *c07comp, p *c07prog, class string) {
	var opx, obs, end []SX
	var pmsg string
	panicked := false
	func() {
		defer func() {
			if e := recover(); e != nil {
				pmsg = fmt.Sprint(e)
				panicked = true
			}
		}()
		c07cleanPool()
		g.env.initLv = p.initLv
		opx, obs, end = c07run(comp, g.env, p.ops)
	}()
	if panicked {
		// the case text: ops rendered without having been run (plain/sugared bit unknown past the panic)
		var xs []SX
		for i, o := range p.ops {
			_ = i
			xs = append(xs, o.sx(false))
		}
		lv := make([]SX, len(p.initLv))
		for i, v := range p.initLv {
			lv[i] = I(v)
		}
		c.Viol("a panic escaped a logger derivation or a logging call: "+pmsg, L(comp.sx(), L(xs...), I(0), B(nil), L(lv...)))
		return
	}
	// statistics / non-triviality
	kids := map[int]int{}
	for i := 1; i < len(p.parent); i++ {
		kids[p.parent[i]]++
	}
	maxKids, ctxSteps, logs := 0, 0, 0
	for _, k := range kids {
		if k > maxKids {
			maxKids = k
		}
	}
	for _, o := range p.ops {
		if o.log {
			logs++
		} else if (o.step == stWith || o.step == stWithLazy) && len(o.fs.fs) > 0 || o.step == stFields {
			ctxSteps++
		}
	}
	nt := "0"
	if maxKids >= 2 && ctxSteps >= 3 && logs >= 2 {
		nt = "1"
	}
	input := L(comp.sx(), L(opx...))
	sets := 0
	if len(p.initLv) > 0 {
		lv := make([]SX, len(p.initLv))
		for i, v := range p.initLv {
			lv[i] = I(v)
		}
		input = L(comp.sx(), L(opx...), I(0), B(nil), L(lv...))
		for _, o := range p.ops {
			if o.set {
				sets++
			}
		}
	}
	c.Emit(input, L(L(obs...), L(end...)), map[string]string{
		"sets": fmt.Sprint(sets),
		"nt":   nt, "class": class + ":" + comp.class(), "nodes": fmt.Sprint(len(p.sugared)), "logs": fmt.Sprint(logs),
		"mut": fmt.Sprint(g.nmut), "ns": fmt.Sprint(g.nns), "lazy": fmt.Sprint(g.nlazy), "sibs": fmt.Sprint(maxKids),
		"faults": fmt.Sprint(g.nfault)})
}

// Every case starts from an empty buffer pool (two collections empty a sync.Pool: primary, then victim
// cache), so that what a case shows is caused by its own history and replays alone.
func c07cleanPool() {
	runtime.GC()
	runtime.GC()
}

// ---------- directed corner cases ----------
func c07directed(c *Ctx) {
	sfs := func(keys ...string) c07fields { // static string fields (no generator needed)
		var out c07fields
		for _, k := range keys {
			out.fs = append(out.fs, zap.String(k, k+"!"))
			out.xs = append(out.xs, L(I(4), Str(k), Str(k+"!")))
		}
		return out
	}
	leafComps := func() []*c07comp {
		return []*c07comp{
			{kind: ckJSON}, {kind: ckConsole}, {kind: ckObs},
			{kind: ckTee, kids: []*c07comp{{kind: ckJSON}, {kind: ckObs}, {kind: ckConsole}}},
			{kind: ckSamp, kids: []*c07comp{{kind: ckObs}}},
			{kind: ckHook, kids: []*c07comp{{kind: ckTee, kids: []*c07comp{{kind: ckObs}, {kind: ckJSON}}}}},
			{kind: ckFilt, thr: true, kids: []*c07comp{{kind: ckJSON}}},
			{kind: ckTee, kids: []*c07comp{{kind: ckFilt, thr: true, kids: []*c07comp{{kind: ckObs}}}, {kind: ckJSON}}},
			// an accepting core first, then a hooked core whose wrapped core declines Info entries
			{kind: ckTee, kids: []*c07comp{{kind: ckJSON}, {kind: ckHook, kids: []*c07comp{{kind: ckFilt, thr: true, kids: []*c07comp{{kind: ckObs}}}}}}},
			{kind: ckTee, kids: []*c07comp{{kind: ckObs}, {kind: ckSamp, kids: []*c07comp{{kind: ckHook, kids: []*c07comp{{kind: ckFilt, thr: true, kids: []*c07comp{{kind: ckConsole}}}}}}}}},
			// observers in a tee, below a lazy core (with two fields of its own) and below a hooked lazy core
			{kind: ckTee, kids: []*c07comp{{kind: ckObs}, {kind: ckObs}}},
			{kind: ckLazy, fs: sfs("l1", "l2"), kids: []*c07comp{{kind: ckObs}}},
			{kind: ckHook, kids: []*c07comp{{kind: ckLazy, fs: sfs("l1"), kids: []*c07comp{{kind: ckTee, kids: []*c07comp{{kind: ckObs}, {kind: ckJSON}}}}}}},
		}
	}
	type builder func(g *c07gen, p *c07prog)
	one := func(g *c07gen, k string) c07fields {
		f, x := g.str(k, k+"!")
		return c07fields{[]zapcore.Field{f}, []SX{x}}
	}
	mutf := func(g *c07gen, kind int, k string) c07fields {
		f, x := g.mut(kind, k)
		return c07fields{[]zapcore.Field{f}, []SX{x}}
	}
	nsf := func(g *c07gen, k string) c07fields { f, x := g.ns(k); return c07fields{[]zapcore.Field{f}, []SX{x}} }
	logAt := func(p *c07prog, node int, hi bool, fs c07fields, w int64) {
		p.w = w
		p.ops = append(p.ops, &c07op{log: true, node: node, hi: hi, msg: []byte("m"), fs: fs, w: w})
	}
	progs := []builder{
		// siblings after a chain with spare capacity; first sibling logs last
		func(g *c07gen, p *c07prog) {
			a := g.derive(p, 0, stWith, one(g, "a"), nil)
			b := g.derive(p, a, stWith, one(g, "b"), nil)
			cc := g.derive(p, b, stWith, one(g, "c"), nil)
			x := g.derive(p, cc, stWith, one(g, "x"), nil)
			y := g.derive(p, cc, stWith, one(g, "y"), nil)
			z := g.derive(p, cc, stFields, one(g, "z"), nil)
			for _, n := range []int{y, z, cc, x, b, a, 0} {
				logAt(p, n, true, c07fields{}, p.w)
			}
		},
		// namespaces carried across With; siblings inside an open namespace
		func(g *c07gen, p *c07prog) {
			a := g.derive(p, 0, stWith, nsf(g, "ns"), nil)
			b := g.derive(p, a, stWith, one(g, "in"), nil)
			d := g.derive(p, a, stWith, nsf(g, "deeper"), nil)
			for _, n := range []int{b, d, a} {
				logAt(p, n, true, one(g, "call"), p.w)
			}
		},
		// names: empty segments ignored, dots kept, Named on sugared
		func(g *c07gen, p *c07prog) {
			a := g.derive(p, 0, stNamed, c07fields{}, []byte(""))
			b := g.derive(p, a, stNamed, c07fields{}, []byte("svc"))
			s := g.derive(p, b, stSugar, c07fields{}, nil)
			d := g.derive(p, s, stNamed, c07fields{}, []byte(""))
			e := g.derive(p, d, stNamed, c07fields{}, []byte("x.y"))
			f := g.derive(p, e, stDesugar, c07fields{}, nil)
			for _, n := range []int{0, a, b, s, d, e, f} {
				logAt(p, n, true, c07fields{}, p.w)
			}
		},
		// WithLazy with a mutable marshaler: evaluated at first use (through a Named clone), once
		func(g *c07gen, p *c07prog) {
			l := g.derive(p, 0, stWithLazy, mutf(g, 0, "lz"), nil)
			n := g.derive(p, l, stNamed, c07fields{}, []byte("n"))
			e := g.derive(p, 0, stWith, mutf(g, 0, "eager"), nil)
			logAt(p, 0, true, c07fields{}, 5)
			logAt(p, n, true, mutf(g, 3, "call"), 7) // first use of l's core
			logAt(p, l, true, c07fields{}, 9)        // already evaluated at 7
			logAt(p, e, true, c07fields{}, 11)
		},
		// disabled call does not evaluate; With() does not; WithOptions(Fields()) does
		func(g *c07gen, p *c07prog) {
			l := g.derive(p, 0, stWithLazy, mutf(g, 2, "lz"), nil)
			logAt(p, l, false, c07fields{}, 3)
			g.derive(p, l, stWith, c07fields{}, nil)
			p.w = 5
			g.derive(p, l, stFields, c07fields{}, nil)
			logAt(p, l, true, c07fields{}, 8)
		},
		// With(a,b).With(c): context of 3 with spare capacity; several entries with one call-site field each from
		// that same logger, a child derived and the parent logging in between; the earlier entries are re-read
		// at the end of the history
		func(g *c07gen, p *c07prog) {
			ab := g.derive(p, 0, stWith, sfs("a", "b"), nil)
			cc := g.derive(p, ab, stWith, one(g, "c"), nil)
			logAt(p, cc, true, one(g, "x"), p.w)
			logAt(p, cc, true, one(g, "y"), p.w)
			k := g.derive(p, cc, stWith, one(g, "k"), nil)
			logAt(p, ab, true, one(g, "p"), p.w)
			logAt(p, k, true, one(g, "z"), p.w)
			logAt(p, cc, true, sfs("x2", "y2"), p.w)
			logAt(p, ab, true, sfs("p2"), p.w)
		},
		// With(a,b,c).WithLazy(d) (len 4, cap 6), used through itself and its Named / Sugar clones, which share
		// its core; mutable call-site fields (the end view is rendered with the world of the call)
		func(g *c07gen, p *c07prog) {
			abc := g.derive(p, 0, stWith, sfs("a", "b", "c"), nil)
			d := g.derive(p, abc, stWithLazy, one(g, "d"), nil)
			n := g.derive(p, d, stNamed, c07fields{}, []byte("n"))
			sg := g.derive(p, d, stSugar, c07fields{}, nil)
			logAt(p, d, true, one(g, "x"), 3)
			logAt(p, n, true, mutf(g, 3, "y"), 5)
			logAt(p, sg, true, mutf(g, 0, "z"), 7)
			logAt(p, d, true, sfs("x2", "y2"), 9)
			f := g.derive(p, n, stFields, one(g, "f"), nil)
			logAt(p, f, true, one(g, "v"), 11)
			logAt(p, abc, true, one(g, "w"), 13)
		},
		// a chain built one field at a time (len 5, cap 8): three entries of 1, 2 and 3 call-site fields
		func(g *c07gen, p *c07prog) {
			cur := 0
			for _, k := range []string{"a", "b", "c", "d", "e"} {
				cur = g.derive(p, cur, stWith, one(g, k), nil)
			}
			logAt(p, cur, true, sfs("x"), p.w)
			logAt(p, cur, true, sfs("y1", "y2"), p.w)
			logAt(p, cur, true, sfs("z1", "z2", "z3"), p.w)
			logAt(p, p.parent[cur], true, sfs("q"), p.w)
			logAt(p, cur, true, sfs("x"), p.w)
		},
		// lazy of lazy, child of lazy; order of evaluation
		func(g *c07gen, p *c07prog) {
			l1 := g.derive(p, 0, stWithLazy, mutf(g, 0, "l1"), nil)
			p.w = 3
			l2 := g.derive(p, l1, stWithLazy, mutf(g, 1, ""), nil)
			p.w = 5
			k := g.derive(p, l2, stWith, mutf(g, 3, "k"), nil)
			logAt(p, l1, true, c07fields{}, 7)
			logAt(p, l2, true, c07fields{}, 9)
			logAt(p, k, true, c07fields{}, 11)
		},
	}
	for pi, mk := range progs {
		for ci := range leafComps() {
			g := newC07gen(NewRNG(uint64(1000 + pi)))
			comp := leafComps()[ci]
			p := newC07prog()
			mk(g, p)
			g.emit(c, comp, p, "dir")
		}
	}
	// lazy cores in the root composition, shared by the root logger and its Named/Sugar clones
	for v := 0; v < 5; v++ {
		g := newC07gen(NewRNG(uint64(2000 + v)))
		lz := func(k string, inner *c07comp) *c07comp {
			g.nlazy++
			return &c07comp{kind: ckLazy, fs: mutf(g, 0, k), kids: []*c07comp{inner}}
		}
		var comp *c07comp
		switch v {
		case 0:
			comp = lz("r", &c07comp{kind: ckJSON})
		case 1:
			comp = &c07comp{kind: ckTee, kids: []*c07comp{{kind: ckFilt, thr: true, kids: []*c07comp{lz("under-filter", &c07comp{kind: ckJSON})}}, lz("r2", &c07comp{kind: ckObs})}}
		case 2:
			comp = lz("outer", &c07comp{kind: ckSamp, kids: []*c07comp{lz("inner", &c07comp{kind: ckConsole})}})
		case 3:
			comp = &c07comp{kind: ckFilt, thr: true, kids: []*c07comp{lz("r", &c07comp{kind: ckTee, kids: []*c07comp{{kind: ckJSON}, {kind: ckObs}}})}}
		default:
			// the lazy core's original core rejects Info: the Info calls must leave it unevaluated
			comp = &c07comp{kind: ckTee, kids: []*c07comp{{kind: ckObs}, lz("over-filter", &c07comp{kind: ckFilt, thr: true, kids: []*c07comp{{kind: ckJSON}}})}}
		}
		p := newC07prog()
		n := g.derive(p, 0, stNamed, c07fields{}, []byte("n"))
		logAt(p, n, false, c07fields{}, 3) // info: reaches only what the level admits
		l := g.derive(p, 0, stWithLazy, mutf(g, 3, "wl"), nil)
		logAt(p, l, false, c07fields{}, 5)
		logAt(p, 0, true, c07fields{}, 7)
		k := g.derive(p, n, stWith, one(g, "k"), nil)
		logAt(p, k, true, c07fields{}, 9)
		logAt(p, l, true, c07fields{}, 11)
		g.emit(c, comp, p, "dirroot")
	}
}

// directed fault histories: root.With(svc); ONE error path taken (a sink of the tree fails the write of an
// entry of root.Named("io") in each mode / a logger outside the tree fails a write / fields fail to encode,
// in a call or in a derivation); then the siblings A = root.Named("A").With(who=a), B = root.Named("B").With(who=b)
// (plain, or through Sugar().With(...).Desugar()), both alive; a, b, root, a log; a grandchild; a again.
func c07directedFaults(c *Ctx) {
	comps := func() []*c07comp {
		return []*c07comp{
			{kind: ckJSON}, {kind: ckConsole},
			{kind: ckTee, kids: []*c07comp{{kind: ckJSON}, {kind: ckObs}, {kind: ckConsole}}},
			{kind: ckTee, kids: []*c07comp{{kind: ckJSON}, {kind: ckJSON}}},
			{kind: ckHook, kids: []*c07comp{{kind: ckTee, kids: []*c07comp{{kind: ckObs}, {kind: ckJSON}}}}},
			{kind: ckFilt, thr: true, kids: []*c07comp{{kind: ckJSON}}},
			{kind: ckSamp, kids: []*c07comp{{kind: ckConsole}}},
			{kind: ckLazy, fs: c07fields{[]zapcore.Field{zap.String("l1", "l1!")}, []SX{L(I(4), Str("l1"), Str("l1!"))}}, kids: []*c07comp{{kind: ckJSON}}},
		}
	}
	for ci := range comps() {
		for v := 0; v < 9; v++ {
			for sug := 0; sug < 2; sug++ {
				g := newC07gen(NewRNG(uint64(3000 + 100*ci + 10*v + sug)))
				comp := g.use(comps()[ci], 0, 0)
				one := func(k, val string) c07fields {
					f, x := g.str(k, val)
					return c07fields{[]zapcore.Field{f}, []SX{x}}
				}
				logAt := func(p *c07prog, node int, fs c07fields, fails []c07fail) {
					p.ops = append(p.ops, &c07op{log: true, node: node, hi: true, msg: []byte("m"), fs: fs, w: p.w, fails: fails})
				}
				all := func(mode int) []c07fail {
					var out []c07fail
					for _, k := range g.io {
						out = append(out, c07fail{k, mode})
					}
					return out
				}
				p := newC07prog()
				root := g.derive(p, 0, stWith, one("svc", "api"), nil)
				ioN := g.derive(p, root, stNamed, c07fields{}, []byte("io"))
				g.nfault++
				switch v {
				case 0, 1, 2: // every io sink of the tree fails the write, in mode v+1
					logAt(p, ioN, one("n", "1"), all(v+1))
				case 3: // only the first io sink fails
					logAt(p, ioN, one("n", "1"), all(c07failNothing)[:1])
				case 4, 5: // a logger outside the tree fails a write (JSON / console)
					p.ops = append(p.ops, &c07op{ext: &c07ext{kind: v - 4, mode: c07failNothing}, w: p.w})
				case 6: // fields whose encoding fails, in a call
					logAt(p, ioN, g.failing(2), nil)
				case 7: // ... in a derivation, whose logger then meets failing sinks
					d := g.derive(p, ioN, stWith, g.failing(1), nil)
					logAt(p, d, c07fields{}, all(c07failShort))
				default: // two failed writes in a row, the second from the root logger
					logAt(p, ioN, one("n", "1"), all(c07failNothing))
					logAt(p, 0, c07fields{}, all(c07failLate))
				}
				var a, b int
				if sug == 1 {
					a = g.derive(p, g.derive(p, g.derive(p, g.derive(p, root, stSugar, c07fields{}, nil), stWith, one("who", "a"), nil), stDesugar, c07fields{}, nil), stNamed, c07fields{}, []byte("A"))
					b = g.derive(p, g.derive(p, g.derive(p, g.derive(p, root, stSugar, c07fields{}, nil), stWith, one("who", "b"), nil), stDesugar, c07fields{}, nil), stNamed, c07fields{}, []byte("B"))
				} else {
					a = g.derive(p, g.derive(p, root, stNamed, c07fields{}, []byte("A")), stWith, one("who", "a"), nil)
					b = g.derive(p, g.derive(p, root, stNamed, c07fields{}, []byte("B")), stWith, one("who", "b"), nil)
				}
				logAt(p, a, one("k", "1"), nil)
				logAt(p, b, one("k", "2"), nil)
				logAt(p, root, c07fields{}, nil)
				logAt(p, a, c07fields{}, nil)
				gc := g.derive(p, a, stWith, one("gc", "x"), nil)
				logAt(p, gc, c07fields{}, nil)
				logAt(p, b, one("k", "3"), nil)
				logAt(p, a, one("k", "4"), nil)
				g.emit(c, comp, p, "dirfault")
			}
		}
	}
}

// ---------- slog front end (exp/zapslog) ----------
type c07sop struct {
	kind  int // 2 WithAttrs, 3 WithGroup, 4 Handle
	node  int
	attrs []slog.Attr
	xs    []SX
	g     string
	hi    bool
	msg   string
	w     int64
}

func (o *c07sop) sx() SX {
	switch o.kind {
	case 2:
		return L(I(2), I(o.node), L(o.xs...), Z(o.w))
	case 3:
		return L(I(3), I(o.node), Str(o.g), Z(o.w))
	default:
		return L(I(4), I(o.node), Bool(o.hi), Str(o.msg), L(o.xs...), Z(o.w))
	}
}

func c07attrs(r *RNG, n int) ([]slog.Attr, []SX) {
	var as []slog.Attr
	var xs []SX
	for i := 0; i < n; i++ {
		k := c07keys[r.Intn(len(c07keys))]
		switch x := r.Intn(20); {
		case x < 9:
			v := fmt.Sprintf("s%d", r.Intn(100))
			as, xs = append(as, slog.String(k, v)), append(xs, L(I(4), Str(k), Str(v)))
		case x < 15:
			v := genInt(r)
			as, xs = append(as, slog.Int64(k, v)), append(xs, L(I(1), Str(k), Z(v)))
		case x < 19:
			v := r.Bool()
			as, xs = append(as, slog.Bool(k, v)), append(xs, L(I(0), Str(k), Bool(v)))
		default:
			as, xs = append(as, slog.Attr{}), append(xs, L(I(12)))
		}
	}
	return as, xs
}

func (g *c07gen) slogProg(maxNodes int) (string, []*c07sop) {
	r := g.r
	name := []string{"", "svc", "a.b"}[r.Intn(3)]
	var ops []*c07sop
	nodes := 1
	w := int64(1)
	handle := func(n int) {
		as, xs := c07attrs(r, r.Intn(3))
		w += int64(r.Intn(2))
		ops = append(ops, &c07sop{kind: 4, node: n, hi: r.Chance(40), msg: "m", attrs: as, xs: xs, w: w})
	}
	n := r.Range(3, maxNodes)
	for nodes < n {
		parent := r.Intn(nodes)
		if r.Chance(40) {
			parent = nodes - 1
		}
		w += int64(r.Intn(2))
		if r.Chance(60) {
			as, xs := c07attrs(r, r.Intn(4))
			ops = append(ops, &c07sop{kind: 2, node: parent, attrs: as, xs: xs, w: w})
		} else {
			ops = append(ops, &c07sop{kind: 3, node: parent, g: []string{"g", "h", "req", "x.y"}[r.Intn(4)], w: w})
		}
		nodes++
		if r.Chance(30) {
			handle(r.Intn(nodes))
		}
	}
	for i := nodes - 1; i >= 0; i-- {
		handle((i*7 + 3) % nodes)
	}
	// second records through handlers that have already handled one
	for i, k := 0, r.Range(1, 3); i < k; i++ {
		n := r.Intn(nodes)
		as, xs := c07attrs(r, r.Range(1, 2))
		ops = append(ops, &c07sop{kind: 4, node: n, hi: true, msg: "m", attrs: as, xs: xs, w: w})
	}
	return name, ops
}

// groups slice aliasing: a chain of WithGroup calls (so that the pending-groups slice has spare capacity),
// then sibling WithGroup / WithAttrs children of the last handler; the first sibling logs last
func (g *c07gen) slogSiblingProg() (string, []*c07sop) {
	r := g.r
	var ops []*c07sop
	w := int64(1)
	cur, nodes := 0, 1
	if r.Chance(40) {
		as, xs := c07attrs(r, r.Range(1, 2))
		ops = append(ops, &c07sop{kind: 2, node: cur, attrs: as, xs: xs, w: w})
		cur, nodes = nodes, nodes+1
	}
	depth := r.Range(1, 6)
	names := []string{"g1", "g2", "g3", "g4", "g5", "g6"}
	for i := 0; i < depth; i++ {
		ops = append(ops, &c07sop{kind: 3, node: cur, g: names[i], w: w})
		cur, nodes = nodes, nodes+1
	}
	var kids []int
	nk := r.Range(2, 4)
	for i := 0; i < nk; i++ {
		w++
		if r.Chance(75) {
			ops = append(ops, &c07sop{kind: 3, node: cur, g: fmt.Sprintf("sib%d", i), w: w})
		} else {
			as, xs := c07attrs(r, r.Range(1, 2))
			ops = append(ops, &c07sop{kind: 2, node: cur, attrs: as, xs: xs, w: w})
		}
		kids = append(kids, nodes)
		nodes++
	}
	for i := len(kids) - 1; i >= 0; i-- {
		as, xs := c07attrs(r, r.Range(1, 2))
		ops = append(ops, &c07sop{kind: 4, node: kids[i], hi: true, msg: "m", attrs: as, xs: xs, w: w})
	}
	as, xs := c07attrs(r, 1)
	ops = append(ops, &c07sop{kind: 4, node: cur, hi: true, msg: "m", attrs: as, xs: xs, w: w})
	// every sibling and the parent once more (the first records are re-read at the end)
	for _, k := range append(append([]int(nil), kids...), cur) {
		as, xs := c07attrs(r, r.Range(1, 2))
		ops = append(ops, &c07sop{kind: 4, node: k, hi: true, msg: "m", attrs: as, xs: xs, w: w})
	}
	return "", ops
}

func (g *c07gen) emitSlog(c *Ctx, comp *c07comp, name string, ops []*c07sop) {
	var opx, obs, end []SX
	var ws []int64
	for _, o := range ops {
		opx = append(opx, o.sx())
	}
	input := L(comp.sx(), L(opx...), I(1), Str(name))
	var pmsg string
	panicked := false
	func() {
		defer func() {
			if e := recover(); e != nil {
				pmsg = fmt.Sprint(e)
				panicked = true
			}
		}()
		env := g.env
		core := env.build(comp)
		hs := []slog.Handler{zapslog.NewHandler(core, zapslog.WithName(name))}
		for _, o := range ops {
			env.world = o.w
			h := hs[o.node]
			switch o.kind {
			case 2:
				as := append([]slog.Attr(nil), o.attrs...)
				hs = append(hs, h.WithAttrs(as))
				for i := range as {
					as[i] = slog.String("POISON", "slice re-used by the caller")
				}
			case 3:
				hs = append(hs, h.WithGroup(o.g))
			default:
				env.reset()
				lvl := slog.LevelInfo
				if o.hi {
					lvl = slog.LevelWarn
				}
				as := append([]slog.Attr(nil), o.attrs...)
				slog.New(h).LogAttrs(context.Background(), lvl, o.msg, as...)
				obs = append(obs, L(env.collect()...))
				for i := range as {
					as[i] = slog.String("POISON", "slice re-used by the caller")
				}
				ws = append(ws, o.w)
			}
		}
		end = env.collectEnd(ws)
	}()
	if panicked {
		c.Viol("a panic escaped the slog handler: "+pmsg, input)
		return
	}
	groups, attrsOps := 0, 0
	for _, o := range ops {
		if o.kind == 3 {
			groups++
		} else if o.kind == 2 {
			attrsOps++
		}
	}
	nt := "0"
	if groups >= 1 && attrsOps >= 2 {
		nt = "1"
	}
	c.Emit(input, L(L(obs...), L(end...)), map[string]string{"nt": nt, "class": "slog:" + comp.class(), "groups": fmt.Sprint(groups)})
}

// ---------- level state ----------
// Compositions whose LevelEnablers are dynamic: leaves built with an AtomicLevel (shared between leaves) or a
// static level of their own, zap.IncreaseLevel filters whose level is an AtomicLevel (possibly the one of a
// leaf below or beside it) or any static level.  nAtoms AtomicLevels; env = their values at construction, at
// which every NewIncreaseLevelCore pair must be valid (a filter that would not be gets the lowest static level
// that is).
func (g *c07gen) levelComp(depth int, nAtoms int, env []int) *c07comp {
	r := g.r
	ref := func(lo int) *c07lref {
		if nAtoms > 0 && r.Chance(65) {
			return &c07lref{atom: r.Intn(nAtoms)}
		}
		return &c07lref{atom: -1, lvl: r.Range(lo, 1)}
	}
	leaf := func() *c07comp {
		c := &c07comp{kind: []int{ckJSON, ckJSON, ckConsole, ckObs, ckObs}[r.Intn(5)]}
		if r.Chance(70) {
			c.lref = ref(-1)
		}
		return c
	}
	filt := func(inner *c07comp) *c07comp {
		c := &c07comp{kind: ckFilt, lref: ref(-1), kids: []*c07comp{inner}}
		if m := inner.minLv(env); c.lref.value(env) < m {
			// not a valid pair now: the lowest static level that is, or a little more
			c.lref = &c07lref{atom: -1, lvl: m + r.Intn(2)*r.Intn(2)}
		}
		return c
	}
	x := r.Intn(100)
	if depth <= 0 || x < 22 {
		return leaf()
	}
	switch {
	case x < 38:
		c := &c07comp{kind: ckTee}
		for i, n := 0, r.Range(2, 3); i < n; i++ {
			c.kids = append(c.kids, g.levelComp(depth-1, nAtoms, env))
		}
		return c
	case x < 46:
		return &c07comp{kind: ckSamp, kids: []*c07comp{g.levelComp(depth-1, nAtoms, env)}}
	case x < 54:
		return &c07comp{kind: ckHook, kids: []*c07comp{g.levelComp(depth-1, nAtoms, env)}}
	case x < 90:
		return filt(g.levelComp(depth-1, nAtoms, env))
	default:
		g.nlazy++
		return &c07comp{kind: ckLazy, fs: g.fields(r.Range(0, 2), 30), kids: []*c07comp{g.levelComp(depth-1, nAtoms, env)}}
	}
}

// does the composition hold a level filter / an AtomicLevel at all?
func (c *c07comp) hasKind(kind int) bool {
	if c.kind == kind {
		return true
	}
	for _, k := range c.kids {
		if k.hasKind(kind) {
			return true
		}
	}
	return false
}

type c07lvgen struct {
	g    *c07gen
	p    *c07prog
	comp *c07comp
	env  []int // current values of the AtomicLevels
}

func (lg *c07lvgen) set(a, v int) {
	lg.env[a] = v
	lg.p.ops = append(lg.p.ops, &c07op{set: true, atom: a, lv: v, w: lg.p.w})
}

// a random SetLevel: any AtomicLevel, up or down, mostly within Debug .. Error, now and then above every level
// the program logs at
func (lg *c07lvgen) randSet() {
	r := lg.g.r
	if len(lg.env) == 0 {
		return
	}
	a := r.Intn(len(lg.env))
	v := r.Range(-1, 2)
	if r.Chance(8) {
		v = r.Range(3, 5)
	}
	if v == lg.env[a] {
		v = []int{1, 2, -1, 0, 1, 2, 2}[v+1]
	}
	lg.set(a, v)
}

// a logging call at a level the composition currently enables (mostly), or at any level
func (lg *c07lvgen) log(node, nf int) {
	g, r := lg.g, lg.g.r
	g.log(lg.p, node, nf)
	var o *c07op
	for i := len(lg.p.ops) - 1; i >= 0; i-- {
		if lg.p.ops[i].log {
			o = lg.p.ops[i]
			break
		}
	}
	lv := r.Range(-1, 2)
	if m := lg.comp.minLv(lg.env); m <= 2 && r.Chance(75) {
		lv = r.Range(m, 2)
	}
	o.hasLv, o.lv = true, lv
	if !o.viaChk && r.Chance(25) {
		o.viaLog = true
	}
}

// the level pattern: loggers derived in one level state, the state changed (any AtomicLevel, up or down),
// siblings and descendants derived in the new state (With / WithLazy / Fields / Sugar().With / Named + With of a
// namespace), everybody logging in that state and in later ones; 2-4 rounds.
func (g *c07gen) levelProg(comp *c07comp, init []int) *c07prog {
	r := g.r
	p := newC07prog()
	p.initLv = append([]int(nil), init...)
	lg := &c07lvgen{g: g, p: p, comp: comp, env: append([]int(nil), init...)}
	cur := 0
	for i, d := 0, r.Intn(3); i < d; i++ {
		cur = g.randStep(p, cur)
	}
	if r.Chance(30) {
		lg.log(cur, r.Intn(2))
	}
	bases := []int{cur, 0}
	ctx := func(par int) int {
		switch x := r.Intn(20); {
		case x < 9:
			return g.derive(p, par, stWith, g.fields(r.Range(1, 2), 15), nil)
		case x < 12:
			g.nlazy++
			return g.derive(p, par, stWithLazy, g.fields(r.Range(1, 2), 30), nil)
		case x < 15:
			return g.derive(p, par, stFields, g.fields(r.Range(1, 2), 15), nil)
		case x < 18: // Named + With(Namespace, field)
			n := g.derive(p, par, stNamed, c07fields{}, g.seg())
			f1, x1 := g.ns([]string{"ns", "a", "k"}[r.Intn(3)])
			f2, x2 := g.str("in", fmt.Sprintf("v%d", r.Intn(100)))
			return g.derive(p, n, stWith, c07fields{[]zapcore.Field{f1, f2}, []SX{x1, x2}}, nil)
		default: // through the other front end: Sugar().With / Desugar().With
			s := g.derive(p, par, stSugar, c07fields{}, nil)
			return g.derive(p, s, stWith, g.fields(r.Range(1, 2), 15), nil)
		}
	}
	for k, rounds := 0, r.Range(2, 4); k < rounds; k++ {
		base := bases[r.Intn(len(bases))]
		var kids []int
		if r.Chance(60) { // a sibling derived BEFORE the change
			kids = append(kids, ctx(base))
		}
		lg.randSet()
		if r.Chance(35) {
			lg.randSet()
		}
		for i, nk := 0, r.Range(1, 3); i < nk; i++ {
			kids = append(kids, ctx(base))
			if r.Chance(25) {
				lg.log(kids[len(kids)-1], r.Intn(2))
			}
			if r.Chance(15) {
				lg.randSet()
			}
		}
		if r.Chance(50) { // a grandchild, below a logger derived in this or in the earlier state
			kids = append(kids, ctx(kids[r.Intn(len(kids))]))
		}
		for _, kid := range kids {
			lg.log(kid, r.Intn(3))
		}
		lg.log(base, r.Intn(2))
		if r.Chance(50) {
			lg.randSet()
			for _, kid := range kids {
				if r.Chance(70) {
					lg.log(kid, r.Intn(2))
				}
			}
		}
		lg.log(kids[0], 1)
		bases = append(bases, kids[r.Intn(len(kids))])
	}
	return p
}

// any program of the other classes, replayed with level changes between its operations and calls at Debug .. Error
func (g *c07gen) relevelProg(comp *c07comp, init []int, p *c07prog) *c07prog {
	r := g.r
	q := *p
	q.ops = nil
	q.initLv = append([]int(nil), init...)
	lg := &c07lvgen{g: g, p: &q, comp: comp, env: append([]int(nil), init...)}
	for _, o := range p.ops {
		if r.Chance(18) {
			q.w = o.w
			lg.randSet()
		}
		if o.log {
			lv := r.Range(-1, 2)
			if m := comp.minLv(lg.env); m <= 2 && r.Chance(75) {
				lv = r.Range(m, 2)
			}
			o.hasLv, o.lv = true, lv
		}
		q.ops = append(q.ops, o)
	}
	return &q
}

// directed level histories: x compositions in which a filter sits over a core with a dynamic level (a leaf's own
// AtomicLevel, directly / below a sampler / a lazy core / in a tee; nested filters; a filter with an AtomicLevel
// of its own; one AtomicLevel shared by a filter and a leaf), x one AtomicLevel moved to one value in the middle
// of: svc = root.With(svc); before = svc.With(a=1); [SetLevel]; after = svc.With(a=2); grand =
// after.Named(n).With(Namespace(ns), b); sugar = svc.Sugar().With(s); lazy = svc.WithLazy(k); fld =
// svc.WithOptions(Fields(f)); deeper = before.With(j); all of them log at Error, Warn, Info; the level is put
// back; all log again; one more child of after and of svc.
func c07directedLevels(c *Ctx) {
	at := func(a int) *c07lref { return &c07lref{atom: a} }
	st := func(l int) *c07lref { return &c07lref{atom: -1, lvl: l} }
	leafL := func(kind int, l *c07lref) *c07comp { return &c07comp{kind: kind, lref: l} }
	filtL := func(l *c07lref, inner *c07comp) *c07comp {
		return &c07comp{kind: ckFilt, lref: l, kids: []*c07comp{inner}}
	}
	lzf := c07fields{[]zapcore.Field{zap.String("l1", "l1!")}, []SX{L(I(4), Str("l1"), Str("l1!"))}}
	type cfg struct {
		comp *c07comp
		init []int
	}
	cfgs := func() []cfg {
		return []cfg{
			{filtL(st(1), leafL(ckJSON, at(0))), []int{0}},
			{filtL(st(0), leafL(ckObs, at(0))), []int{-1}},
			{filtL(at(0), leafL(ckConsole, st(0))), []int{1}},
			{filtL(at(1), leafL(ckJSON, at(0))), []int{-1, 0}},
			{filtL(at(0), leafL(ckObs, at(0))), []int{0}},
			{&c07comp{kind: ckTee, kids: []*c07comp{filtL(st(0), leafL(ckJSON, at(0))), leafL(ckObs, at(0))}}, []int{0}},
			{filtL(st(1), &c07comp{kind: ckTee, kids: []*c07comp{leafL(ckJSON, at(0)), leafL(ckObs, st(-1))}}), []int{0}},
			{&c07comp{kind: ckHook, kids: []*c07comp{filtL(at(1), &c07comp{kind: ckSamp, kids: []*c07comp{leafL(ckJSON, at(0))}})}}, []int{0, 0}},
			{filtL(st(0), &c07comp{kind: ckLazy, fs: lzf, kids: []*c07comp{leafL(ckJSON, at(0))}}), []int{-1}},
			{&c07comp{kind: ckLazy, fs: lzf, kids: []*c07comp{filtL(st(0), leafL(ckObs, at(0)))}}, []int{0}},
			{filtL(st(0), filtL(at(1), &c07comp{kind: ckTee, kids: []*c07comp{leafL(ckJSON, at(0)), leafL(ckConsole, st(-1))}})), []int{-1, 0}},
			{&c07comp{kind: ckSamp, kids: []*c07comp{filtL(st(0), &c07comp{kind: ckHook, kids: []*c07comp{leafL(ckConsole, at(0))}})}}, []int{0}},
		}
	}
	for ci := range cfgs() {
		nat := len(cfgs()[ci].init)
		for a := 0; a < nat; a++ {
			for _, to := range []int{2, -1, 1, 3} {
				cf := cfgs()[ci]
				if cf.init[a] == to {
					continue
				}
				g := newC07gen(NewRNG(uint64(5000 + 100*ci + 10*a + to + 1)))
				comp := g.use(cf.comp, 0, 0)
				p := newC07prog()
				p.initLv = append([]int(nil), cf.init...)
				one := func(k, val string) c07fields {
					f, x := g.str(k, val)
					return c07fields{[]zapcore.Field{f}, []SX{x}}
				}
				logAll := func(nodes []int, lvs ...int) {
					for _, lv := range lvs {
						for _, n := range nodes {
							var fs c07fields
							if n%2 == 0 {
								fs = one("c", "call")
							}
							p.ops = append(p.ops, &c07op{log: true, node: n, hasLv: true, lv: lv, msg: []byte("m"), fs: fs, w: p.w})
						}
					}
				}
				svc := g.derive(p, 0, stWith, one("svc", "api"), nil)
				before := g.derive(p, svc, stWith, one("a", "1"), nil)
				p.ops = append(p.ops, &c07op{set: true, atom: a, lv: to, w: p.w})
				after := g.derive(p, svc, stWith, one("a", "2"), nil)
				f1, x1 := g.ns("ns")
				f2, x2 := g.str("b", "2")
				grand := g.derive(p, g.derive(p, after, stNamed, c07fields{}, []byte("n")), stWith, c07fields{[]zapcore.Field{f1, f2}, []SX{x1, x2}}, nil)
				sugar := g.derive(p, g.derive(p, svc, stSugar, c07fields{}, nil), stWith, one("s", "x"), nil)
				lazy := g.derive(p, svc, stWithLazy, one("k", "3"), nil)
				fld := g.derive(p, svc, stFields, one("f", "4"), nil)
				deeper := g.derive(p, before, stWith, one("j", "5"), nil)
				all := []int{0, svc, before, after, grand, sugar, lazy, fld, deeper}
				logAll(all, 2, 1, 0)
				p.ops = append(p.ops, &c07op{set: true, atom: a, lv: cf.init[a], w: p.w})
				logAll(all, 2, 0, -1)
				k1 := g.derive(p, after, stWith, one("late", "1"), nil)
				k2 := g.derive(p, svc, stWith, one("late", "2"), nil)
				logAll([]int{k1, k2, after, svc}, 2, 1)
				g.emit(c, comp, p, "dirlvl")
			}
		}
	}
}

// the seeded level classes
func c07levels(c *Ctx, r *RNG) {
	nLvl := 440
	if c.Thorough {
		nLvl = 15000
	}
	for i := 0; i < nLvl; i++ {
		g := newC07gen(r.Fork())
		rr := g.r
		nAtoms := rr.Range(1, 3)
		init := make([]int, nAtoms)
		for a := range init {
			init[a] = rr.Range(-1, 1)
		}
		var comp *c07comp
		for tries := 0; ; tries++ {
			comp = g.levelComp(3, nAtoms, init)
			if tries > 20 || comp.hasKind(ckFilt) && comp.minLv(init) <= 2 {
				break
			}
		}
		if i%4 == 0 {
			// the plainest shape: one filter directly over one leaf with an AtomicLevel
			leaf := &c07comp{kind: []int{ckJSON, ckConsole, ckObs}[rr.Intn(3)], lref: &c07lref{atom: 0}}
			f := &c07comp{kind: ckFilt, lref: &c07lref{atom: -1, lvl: init[0] + rr.Intn(2)}, kids: []*c07comp{leaf}}
			if nAtoms > 1 && init[1] >= init[0] && rr.Bool() {
				f.lref = &c07lref{atom: 1}
			}
			comp = f
		}
		g.use(comp, 4, 2)
		var p *c07prog
		class := "lvl"
		switch x := rr.Intn(10); {
		case x < 6:
			p = g.levelProg(comp, init)
		case x < 7:
			p, class = g.relevelProg(comp, init, g.siblingProg()), "lvl-sib"
		case x < 8:
			p, class = g.relevelProg(comp, init, g.relogProg()), "lvl-relog"
		default:
			p, class = g.relevelProg(comp, init, g.randProg(12)), "lvl-rand"
		}
		g.emit(c, comp, p, class)
	}
}

func c07(c *Ctx) {
	c07directed(c)
	c07directedFaults(c)
	c07directedLevels(c)
	r := NewRNG(c.Seed)
	nSib, nRand, maxNodes := 500, 900, 14
	if c.Thorough {
		nSib, nRand, maxNodes = 12000, 25000, 40
	}
	for i := 0; i < nSib; i++ {
		g := newC07gen(r.Fork())
		var comp *c07comp
		if i%3 == 0 {
			comp = &c07comp{kind: ckObs}
		} else {
			comp = g.comp(2, false)
		}
		g.use(comp, 6, 3)
		g.emit(c, comp, g.siblingProg(), "sib")
	}
	nFault := 400
	if c.Thorough {
		nFault = 12000
	}
	for i := 0; i < nFault; i++ {
		g := newC07gen(r.Fork())
		comp := g.use(g.faultComp(i), 10, 5)
		g.emit(c, comp, g.faultProg(), "fault")
	}
	nRelog := 400
	if c.Thorough {
		nRelog = 12000
	}
	for i := 0; i < nRelog; i++ {
		g := newC07gen(r.Fork())
		comp := g.use(g.relogComp(i), 6, 3)
		g.emit(c, comp, g.relogProg(), "relog")
	}
	for i := 0; i < nRand; i++ {
		g := newC07gen(r.Fork())
		mn := maxNodes
		if i%10 == 9 {
			mn = 40
		}
		comp := g.use(g.comp(3, false), 8, 4)
		g.emit(c, comp, g.randProg(mn), "rand")
	}
	nSlog := 500
	if c.Thorough {
		nSlog = 8000
	}
	for i := 0; i < nSlog; i++ {
		g := newC07gen(r.Fork())
		comp := g.comp(2, false)
		name, ops := g.slogProg(12)
		if i%3 == 0 {
			name, ops = g.slogSiblingProg()
		}
		g.emitSlog(c, comp, name, ops)
	}
	c07levels(c, r)
	// large contexts (c07_big.go); after everything else: the older classes keep their seeds and case texts
	c07directedBig(c)
	c07bigSeeded(c, r)
}

func init() { registry["C07"] = c07 }

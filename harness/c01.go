package main

// C01: bytes of one JSON-encoded entry (real jsonEncoder behind a real ioCore, With
// chain through Core.With) for every generated case; cross-check of the Coq
// parser's verdict with encoding/json.Valid is done here as an assumption monitor
// on the oracle itself.

import (
	"bytes"
	"encoding/json"
	"fmt"
)

func c01(c *Ctx) {
	r := NewRNG(c.Seed)
	n := 4000
	if c.Thorough {
		n = 150000
	}
	for i := 0; i < n; i++ {
		ec := genEncCase(r.Fork(), i%5 == 4)
		out, pmsg, panicked := ec.runJSON(false)
		if panicked {
			c.Viol("a panic escaped the JSON encoder: "+pmsg, ec.sx)
			c.Emit(ec.sx, L(), ec.meta)
			continue
		}
		// second opinion on the line (encoding/json) recorded in meta; the Coq oracle decides
		le := ec.cfg.le
		if ec.cfg.skipLE {
			le = nil
		} else if len(le) == 0 {
			le = []byte("\n")
		}
		obj := bytes.TrimSuffix(out, le)
		ec.meta["gov"] = fmt.Sprint(json.Valid(obj) && bytes.HasPrefix(obj, []byte("{")))
		c.Emit(ec.sx, L(B(out)), ec.meta)
	}
	reportFloatMonitor(c)
}

func init() { registry["C01"] = c01 }

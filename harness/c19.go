package main

import (
	"bytes"
	"errors"
	"fmt"
	"log"
	"net/url"
	"os"
	"path/filepath"
	"strings"
	"time"

	"go.uber.org/multierr"
	"go.uber.org/zap"
	"go.uber.org/zap/zapcore"
	"go.uber.org/zap/zaptest/observer"
)

// C19: Open / Config.Build / RedirectStdLog[At] / RegisterSink / RegisterEncoder on the
// real zap.  Case kinds and wire shapes: see coq/theories/C19/Model.v ("wire").
//
// Observation devices:
//   - test sink factories registered per case (the verif hook resets the registries
//     before every case) whose sinks count Write/Close calls;
//   - a stub for the registry's private openFile (verif hook) that records the path,
//     flags and mode it is given and hands out a fresh temporary file (or fails when
//     the path contains "bad");
//   - os.Stdout / os.Stderr swapped for temporary files during a case;
//   - log.Flags/Prefix/Writer before and after redirection;
//   - a watchdog around every operation (c19run): an operation that has not returned
//     when it expires is observed as "blocked" = (7), which the oracle rejects
//     (C19_blocked_rejected, C19_history_all_returned).  A rejected registration, Open,
//     Build or redirection must leave every later operation able to complete.

const c19marker = "bad"

var c19payload = []byte("c19-payload\n")

type c19sink struct {
	kind   int // 0 test, 1 file
	writes int
	closes int
	f      *os.File
	name   string
}

func (s *c19sink) Write(p []byte) (int, error) { s.writes++; return len(p), nil }
func (s *c19sink) Sync() error                 { return nil }
func (s *c19sink) Close() error                { s.closes++; return nil }

type c19env struct {
	dir      string
	sinks    []*c19sink // the closable sinks created by the current operation, in creation order
	old      []*c19sink // those of earlier operations of the same history
	calls    []SX
	ctors    []int
	fout     *os.File
	ferr     *os.File
	savedOut *os.File
	savedErr *os.File
	nfile    int
	stdBase  int
	sdead    bool // a read-back of the sink / encoder registry did not return
	edead    bool
}

var (
	c19cur     *c19env
	c19stubbed bool
	c19dir     string
	// the registries could not be reset after a blocked operation: nothing more can be run
	c19wedged   bool
	c19nblocked int
)

// ---- the watchdog ----
const (
	c19opTimeout    = 10 * time.Second
	c19resetTimeout = 3 * time.Second // once something has blocked (never on a correct tree)
	c19maxBlocked   = 6
)

func c19timeout() time.Duration {
	if c19nblocked > 0 {
		return c19resetTimeout
	}
	return c19opTimeout
}

var c19blocked = L(I(7))

type c19panic struct{ v interface{} }

// c19run runs f in a goroutine of its own and waits for it at most d.
// 0: f returned; 1: f has not returned (it is abandoned; the caller must not touch
// what f writes); 2: f panicked (pv is the value).
func c19run(d time.Duration, f func()) (st int, pv interface{}) {
	done := make(chan *c19panic, 1)
	go func() {
		defer func() {
			if r := recover(); r != nil {
				done <- &c19panic{r}
			} else {
				done <- nil
			}
		}()
		f()
	}()
	t := time.NewTimer(d)
	defer t.Stop()
	select {
	case p := <-done:
		if p != nil {
			return 2, p.v
		}
		return 0, nil
	case <-t.C:
		c19nblocked++
		return 1, nil
	}
}

// c19guard runs one operation of a case under the watchdog; a panic is a violation
// reported directly (observation (9)), a blocked operation is the observation (7).
func c19guard(c *Ctx, what string, input SX, f func() SX) (obs SX, st int) {
	var o SX
	st, pv := c19run(c19timeout(), func() { o = f() })
	switch st {
	case 1:
		return c19blocked, 1
	case 2:
		c.Viol(fmt.Sprintf("%s panicked: %v", what, pv), input)
		return L(I(9)), 2
	}
	return o, 0
}

func c19openFileStub(name string, flag int, perm os.FileMode) (*os.File, error) {
	e := c19cur
	if flag == os.O_WRONLY|os.O_APPEND|os.O_CREATE && perm == 0o666 {
		e.calls = append(e.calls, L(I(0), Str(name)))
	} else {
		e.calls = append(e.calls, L(I(0), Str(name), I(flag), I(int(perm))))
	}
	if strings.Contains(name, c19marker) {
		return nil, &os.PathError{Op: "open", Path: name, Err: os.ErrPermission}
	}
	e.nfile++
	p := filepath.Join(e.dir, fmt.Sprintf("f%d", e.nfile))
	f, err := os.OpenFile(p, os.O_WRONLY|os.O_APPEND|os.O_CREATE, 0o666)
	if err != nil {
		panic(err)
	}
	e.sinks = append(e.sinks, &c19sink{kind: 1, f: f, name: p})
	return f, nil
}

// c19begin starts a case from fresh registries.  The verif hooks take the registry
// mutexes, so after an operation that left one of them locked the reset itself does
// not return: the run stops there (the blocked case has been reported already).
func c19begin(c *Ctx) (*c19env, bool) {
	if c19wedged {
		return nil, false
	}
	if c19nblocked >= c19maxBlocked {
		c19wedged = true
		c.Info("c19-stopped", fmt.Sprintf("after-%d-blocked-operations", c19nblocked))
		return nil, false
	}
	st, pv := c19run(c19timeout(), func() {
		if !c19stubbed {
			zap.VerifSetOpenFile(c19openFileStub)
			c19stubbed = true
			d, err := os.MkdirTemp("", "c19-")
			if err != nil {
				panic(err)
			}
			c19dir = d
		}
		zap.VerifResetRegistries()
	})
	if st == 2 {
		panic(pv)
	}
	if st == 1 {
		c19wedged = true
		c.Info("c19-stopped", fmt.Sprintf("registries-cannot-be-reset-after-case-%d", c.Cases))
		return nil, false
	}
	e := &c19env{dir: c19dir, savedOut: os.Stdout, savedErr: os.Stderr}
	var err error
	if e.fout, err = os.Create(filepath.Join(e.dir, "stdout")); err != nil {
		panic(err)
	}
	if e.ferr, err = os.Create(filepath.Join(e.dir, "stderr")); err != nil {
		panic(err)
	}
	os.Stdout, os.Stderr = e.fout, e.ferr
	c19cur = e
	return e, true
}

func (e *c19env) end() {
	os.Stdout, os.Stderr = e.savedOut, e.savedErr
	e.fout.Close()
	e.ferr.Close()
	for _, s := range append(e.old, e.sinks...) {
		if s.f != nil {
			s.f.Close()
			os.Remove(s.name)
		}
	}
	c19cur = nil
}

// mark starts the next operation of a history: its observation counts only the
// opener calls, constructor calls, sinks and std-stream lines of that operation
func (e *c19env) mark() {
	e.old = append(e.old, e.sinks...)
	e.sinks, e.calls, e.ctors = nil, nil, nil
	e.stdBase = e.stdLines()
}

func (e *c19env) factory(id int) func(*url.URL) (zap.Sink, error) {
	return func(u *url.URL) (zap.Sink, error) {
		e.calls = append(e.calls, L(I(1), I(id)))
		if strings.Contains(u.Path, c19marker) {
			return nil, errors.New("c19 factory error")
		}
		s := &c19sink{kind: 0}
		e.sinks = append(e.sinks, s)
		return s, nil
	}
}

func c19lines(path string) int {
	b, err := os.ReadFile(path)
	if err != nil {
		return -1
	}
	return bytes.Count(b, []byte{'\n'})
}

func c19closed(f *os.File) bool {
	_, err := f.Stat()
	return err != nil && errors.Is(err, os.ErrClosed)
}

// stats of every closable sink created so far, in creation order
func (e *c19env) stats() SX {
	out := make([]SX, len(e.sinks))
	for i, s := range e.sinks {
		if s.kind == 0 {
			out[i] = L(I(0), I(s.writes), I(s.closes))
		} else {
			c := 0
			if c19closed(s.f) {
				c = 1
			}
			out[i] = L(I(1), I(c19lines(s.name)), I(c))
		}
	}
	return L(out...)
}

func (e *c19env) stdLines() int {
	return c19lines(filepath.Join(e.dir, "stdout")) + c19lines(filepath.Join(e.dir, "stderr"))
}

func (e *c19env) std() SX {
	c := 0
	if c19closed(e.fout) || c19closed(e.ferr) {
		c = 1
	}
	return L(I(e.stdLines()-e.stdBase), I(c))
}

// sorted read-back of the registries, under the watchdog as well: (7) when it does not
// return (and then it is not tried again in this case; the history goes on, so that
// the next operation of the API shows whether the registry is still usable)
func (e *c19env) skeys() SX {
	var ks []string
	if e.sdead {
		return c19blocked
	}
	if st, _ := c19run(c19timeout(), func() { ks = zap.VerifSinkSchemes() }); st != 0 {
		e.sdead = true
		return c19blocked
	}
	return c19keys(ks)
}

func (e *c19env) ekeys() SX {
	var ks []string
	if e.edead {
		return c19blocked
	}
	if st, _ := c19run(c19timeout(), func() { ks = zap.VerifEncoderNames() }); st != 0 {
		e.edead = true
		return c19blocked
	}
	return c19keys(ks)
}

func (e *c19env) meta(nt bool, class string, st int, extra ...string) map[string]string {
	m := map[string]string{"nt": "0", "class": class}
	if nt && st == 0 && !e.sdead && !e.edead {
		m["nt"] = "1"
	}
	if st == 1 || e.sdead || e.edead {
		m["blocked"] = "1"
	}
	for i := 0; i+1 < len(extra); i += 2 {
		m[extra[i]] = extra[i+1]
	}
	return m
}

// ---- the net/url oracle ----

func c19asciiLower(s string) string {
	b := []byte(s)
	for i, c := range b {
		if 'A' <= c && c <= 'Z' {
			b[i] = c + 32
		}
	}
	return string(b)
}

// the scheme as written (copy of net/url.getScheme, for the assumption monitor only)
func c19getScheme(raw string) string {
	for i := 0; i < len(raw); i++ {
		c := raw[i]
		switch {
		case 'a' <= c && c <= 'z' || 'A' <= c && c <= 'Z':
		case '0' <= c && c <= '9' || c == '+' || c == '-' || c == '.':
			if i == 0 {
				return ""
			}
		case c == ':':
			if i == 0 {
				return ""
			}
			return raw[:i]
		default:
			return ""
		}
	}
	return ""
}

type c19path struct {
	raw   string
	sx    SX
	wf    bool
	opens bool // informational: parse ok
}

func c19purl(raw string) c19path {
	abs := filepath.IsAbs(raw)
	u, err := url.Parse(raw)
	p := c19path{raw: raw, wf: true}
	if err != nil || u == nil {
		arg := raw
		p.sx = L(Bool(abs), Str(raw), Bool(true), Str(""), Bool(false), Str(""), Str(""), Str(""), Str(""), Str(""), Str(""),
			Bool(!strings.Contains(arg, c19marker)), Str(""))
		return p
	}
	arg := u.Path
	if abs {
		arg = raw
	}
	if !abs && u.Scheme != c19asciiLower(c19getScheme(raw)) {
		p.wf = false
	}
	p.opens = true
	p.sx = L(Bool(abs), Str(raw), Bool(false), Str(u.Scheme), Bool(u.User != nil), Str(u.Host), Str(u.Hostname()), Str(u.Port()),
		Str(u.Path), Str(u.RawQuery), Str(u.Fragment), Bool(!strings.Contains(arg, c19marker)), Str(u.Opaque))
	return p
}

func c19purls(c *Ctx, raws []string) ([]SX, bool) {
	out := make([]SX, len(raws))
	for i, r := range raws {
		p := c19purl(r)
		if !p.wf {
			c.Assume("net/url: Scheme of " + fmt.Sprintf("%q", r) + " is not the written scheme lower-cased")
			return nil, false
		}
		out[i] = p.sx
	}
	return out, true
}

func c19names(names []string) SX {
	out := make([]SX, len(names))
	for i, n := range names {
		out[i] = L(Str(n), Str(strings.ToLower(n)))
	}
	return L(out...)
}

// ---- kind 0: Open ----
// one Open: nw writes, snapshot, closeAll, snapshot (called under the watchdog)
func (e *c19env) openObs(c *Ctx, raws []string, nw int, input SX) (obs SX, failed bool) {
	w, closeAll, err := zap.Open(raws...)
	if err == nil {
		for k := 0; k < nw; k++ {
			_, _ = w.Write(c19payload)
		}
		before := e.stats()
		closeAll()
		return L(I(0), I(0), L(e.calls...), before, e.stats(), e.std()), false
	}
	if w != nil || closeAll != nil {
		c.Viol("zap.Open returned an error together with a writer or a close function", input)
	}
	return L(I(1), I(len(multierr.Errors(err))), L(e.calls...), L(), e.stats(), e.std()), true
}

func c19open(c *Ctx, names []string, raws []string, nw int, class string) {
	ps, ok := c19purls(c, raws)
	if !ok {
		return
	}
	input := L(I(0), c19names(names), L(ps...), I(nw))
	e, ok := c19begin(c)
	if !ok {
		return
	}
	defer e.end()
	obs, st := c19guard(c, "RegisterSink", input, func() SX {
		for i, n := range names {
			_ = zap.RegisterSink(n, e.factory(i+1))
		}
		return nil
	})
	if st == 0 {
		obs, st = c19guard(c, "zap.Open", input, func() SX { o, _ := e.openObs(c, raws, nw, input); return o })
	}
	nt := len(raws) >= 2 && len(e.sinks) > 0
	if class == "url" && len(raws) == 1 && strings.ContainsAny(raws[0], ":?#@%") {
		nt = true
	}
	c.Emit(input, obs, e.meta(nt, class, st, "k", fmt.Sprint(len(raws))))
}

// ---- kind 1: Config.Build ----
type c19enc struct {
	name string
	ok   bool
}

type c19build struct {
	names    []string
	encs     []c19enc
	timeKey  bool
	encTime  bool
	encoding string
	level    bool
	out      []string
	errp     []string
	nw       int
}

func c19buildCls(err error) int {
	if err == nil {
		return 0
	}
	m := err.Error()
	switch {
	case strings.Contains(m, "missing EncodeTime"):
		return 1
	case strings.Contains(m, "no encoder name specified"):
		return 2
	case strings.Contains(m, "no encoder registered"):
		return 3
	case strings.Contains(m, "c19 ctor error"):
		return 4
	case strings.Contains(m, "open sink"):
		return 5
	case strings.Contains(m, "missing Level"):
		return 6
	}
	return 9
}

func c19encCfg(timeKey, encTime bool) zapcore.EncoderConfig {
	ec := zapcore.EncoderConfig{MessageKey: "m", LevelKey: "l", EncodeLevel: zapcore.LowercaseLevelEncoder,
		LineEnding: zapcore.DefaultLineEnding, EncodeDuration: zapcore.SecondsDurationEncoder}
	if timeKey {
		ec.TimeKey = "t"
	}
	if encTime {
		ec.EncodeTime = zapcore.EpochTimeEncoder
	}
	return ec
}

func (e *c19env) registerEnc(name string, id int, ok bool) error {
	return zap.RegisterEncoder(name, func(cfg zapcore.EncoderConfig) (zapcore.Encoder, error) {
		e.ctors = append(e.ctors, id)
		if !ok {
			return nil, errors.New("c19 ctor error")
		}
		return zapcore.NewJSONEncoder(cfg), nil
	})
}

// one Config.Build and nw entries (called under the watchdog)
func (e *c19env) buildObs(c *Ctx, b c19build, input SX) (obs SX, failed bool) {
	cfg := zap.Config{Encoding: b.encoding, EncoderConfig: c19encCfg(b.timeKey, b.encTime),
		OutputPaths: b.out, ErrorOutputPaths: b.errp, DisableStacktrace: true}
	if b.level {
		cfg.Level = zap.NewAtomicLevelAt(zapcore.InfoLevel)
	}
	// the absurd caller skip makes every entry also produce one line on the error output
	lg, err := cfg.Build(zap.AddCallerSkip(100000))
	ctors := L()
	if len(e.ctors) > 0 {
		ctors = LI(e.ctors)
	}
	if err == nil {
		for k := 0; k < b.nw; k++ {
			lg.Info("c19")
		}
		st := e.stats()
		return L(I(0), ctors, L(e.calls...), st, st, e.std()), false
	}
	if lg != nil {
		c.Viol("Config.Build returned an error together with a logger", input)
	}
	return L(I(c19buildCls(err)), ctors, L(e.calls...), L(), e.stats(), e.std()), true
}

func c19doBuild(c *Ctx, b c19build, class string) {
	po, ok1 := c19purls(c, b.out)
	pe, ok2 := c19purls(c, b.errp)
	if !ok1 || !ok2 {
		return
	}
	encs := make([]SX, len(b.encs))
	for i, en := range b.encs {
		encs[i] = L(Str(en.name), Bool(en.ok))
	}
	input := L(I(1), c19names(b.names), L(encs...), Bool(b.timeKey), Bool(b.encTime), Str(b.encoding), Bool(b.level),
		L(po...), L(pe...), I(b.nw))
	e, ok := c19begin(c)
	if !ok {
		return
	}
	defer e.end()
	obs, st := c19guard(c, "RegisterSink/RegisterEncoder", input, func() SX {
		for i, n := range b.names {
			_ = zap.RegisterSink(n, e.factory(i+1))
		}
		for i, en := range b.encs {
			_ = e.registerEnc(en.name, i+2, en.ok)
		}
		return nil
	})
	failed := false
	if st == 0 {
		obs, st = c19guard(c, "Config.Build", input, func() SX {
			o, f := e.buildObs(c, b, input)
			failed = f
			return o
		})
	}
	nt := st == 0 && ((failed && len(e.sinks) > 0) || (!failed && len(e.sinks) >= 2 && b.nw > 0))
	c.Emit(input, obs, e.meta(nt, class, st, "k", fmt.Sprint(len(b.out)+len(b.errp))))
}

// ---- kind 2: std-log redirection ----
// one redirection under prior (flags, prefix); the standard logger is put back afterwards
func c19redirectObs(c *Ctx, which int, flags int, prefix string, level int, input SX) (SX, int) {
	savedF, savedP, savedW := log.Flags(), log.Prefix(), log.Writer()
	defer c19run(c19resetTimeout, func() { log.SetFlags(savedF); log.SetPrefix(savedP); log.SetOutput(savedW) })
	return c19guard(c, "RedirectStdLog[At]", input, func() SX {
		var user bytes.Buffer
		log.SetFlags(flags)
		log.SetPrefix(prefix)
		log.SetOutput(&user)
		core, logs := observer.New(zapcore.DebugLevel)
		lg := zap.New(core, zap.WithFatalHook(zapcore.WriteThenPanic))
		classify := func() int {
			w := log.Writer()
			switch {
			case w == &user:
				return 0
			case w == os.Stderr:
				return 2
			case fmt.Sprintf("%T", w) == "*zap.loggerWriter":
				return 1
			}
			return 3
		}
		var restore func()
		var err error
		if which == 0 {
			restore = zap.RedirectStdLog(lg)
		} else {
			restore, err = zap.RedirectStdLogAt(lg, zapcore.Level(int8(level)))
		}
		f1, p1, w1 := log.Flags(), log.Prefix(), classify()
		delivered := -99
		if err == nil {
			func() {
				defer func() { _ = recover() }()
				log.Print("hello")
			}()
			if all := logs.All(); len(all) == 1 && all[0].Message == "hello" {
				delivered = int(all[0].Level)
			}
		} else if restore != nil {
			c.Viol("RedirectStdLogAt returned an error together with a restore function", input)
		}
		if err == nil && restore != nil {
			restore()
		}
		f2, p2, w2 := log.Flags(), log.Prefix(), classify()
		return L(Bool(err != nil), I(f1), Str(p1), I(w1), I(delivered), I(f2), Str(p2), I(w2))
	})
}

func c19redirect(c *Ctx, which int, flags int, prefix string, level int, class string) {
	if c19wedged || c19nblocked >= c19maxBlocked {
		return
	}
	input := L(I(2), I(which), I(flags), Str(prefix), I(level))
	obs, st := c19redirectObs(c, which, flags, prefix, level, input)
	c.Emit(input, obs, (&c19env{}).meta(flags != 0 || prefix != "", class, st))
}

// ---- kind 3: sink registry ----
type c19op struct {
	reg  bool
	name string // scheme / encoder name, or raw URL for a sink lookup
}

func c19keys(ks []string) SX {
	out := make([]SX, len(ks))
	for i, k := range ks {
		out[i] = Str(k)
	}
	return L(out...)
}

func c19sregCls(err error) int {
	if err == nil {
		return 0
	}
	m := err.Error()
	switch {
	case strings.Contains(m, "empty string"):
		return 1
	case strings.Contains(m, "is not a valid scheme"):
		return 2
	case strings.Contains(m, "already registered"):
		return 3
	}
	return 8
}

func c19eregCls(err error) int {
	if err == nil {
		return 0
	}
	m := err.Error()
	switch {
	case strings.Contains(m, "no encoder name specified"):
		return 1
	case strings.Contains(m, "already registered"):
		return 3
	}
	return 8
}

func c19sreg(c *Ctx, ops []c19op, class string) {
	xs := make([]SX, len(ops))
	for i, o := range ops {
		if o.reg {
			xs[i] = L(I(0), Str(o.name), Str(strings.ToLower(o.name)))
		} else {
			p := c19purl(o.name)
			if !p.wf {
				c.Assume("net/url: Scheme of " + fmt.Sprintf("%q", o.name) + " is not the written scheme lower-cased")
				return
			}
			xs[i] = L(I(1), p.sx)
		}
	}
	input := L(I(3), L(xs...))
	e, ok := c19begin(c)
	if !ok {
		return
	}
	defer e.end()
	var obs []SX
	rejected, st := 0, 0
	for i, o := range ops {
		i, o := i, o
		var ob SX
		e.mark()
		if o.reg {
			cls := 0
			ob, st = c19guard(c, "RegisterSink", input, func() SX {
				cls = c19sregCls(zap.RegisterSink(o.name, e.factory(i+1)))
				return nil
			})
			if st == 0 {
				if cls != 0 {
					rejected++
				}
				ks := e.skeys()
				ob = L(I(0), I(cls), ks)
			}
		} else {
			failed := false
			ob, st = c19guard(c, "zap.Open", input, func() SX {
				_, closeAll, err := zap.Open(o.name)
				if err == nil {
					closeAll()
				}
				failed = err != nil
				return nil
			})
			if st == 0 {
				ks := e.skeys()
				ob = L(I(1), Bool(failed), L(e.calls...), ks)
			}
		}
		obs = append(obs, ob)
		if st != 0 {
			break // the rest of the history is not run
		}
	}
	c.Emit(input, L(obs...), e.meta(len(ops) >= 2 && rejected > 0, class, st, "ops", fmt.Sprint(len(ops))))
}

// ---- kind 4: encoder registry ----
func c19ereg(c *Ctx, ops []c19op, class string) {
	xs := make([]SX, len(ops))
	for i, o := range ops {
		if o.reg {
			xs[i] = L(I(0), Str(o.name))
		} else {
			xs[i] = L(I(1), Str(o.name))
		}
	}
	input := L(I(4), L(xs...))
	e, ok := c19begin(c)
	if !ok {
		return
	}
	defer e.end()
	var obs []SX
	rejected, st := 0, 0
	for i, o := range ops {
		i, o := i, o
		var ob SX
		e.mark()
		if o.reg {
			cls := 0
			ob, st = c19guard(c, "RegisterEncoder", input, func() SX {
				cls = c19eregCls(e.registerEnc(o.name, i+2, true))
				return nil
			})
			if st == 0 {
				if cls != 0 {
					rejected++
				}
				ks := e.ekeys()
				ob = L(I(0), I(cls), ks)
			}
		} else {
			cls := 0
			ctors := L()
			ob, st = c19guard(c, "Config.Build", input, func() SX {
				_, err := zap.Config{Encoding: o.name, Level: zap.NewAtomicLevel(), EncoderConfig: c19encCfg(false, false)}.Build()
				cls = c19buildCls(err)
				if len(e.ctors) > 0 {
					ctors = LI(e.ctors)
				}
				return nil
			})
			if st == 0 {
				ks := e.ekeys()
				ob = L(I(1), I(cls), ctors, ks)
			}
		}
		obs = append(obs, ob)
		if st != 0 {
			break
		}
	}
	c.Emit(input, L(obs...), e.meta(len(ops) >= 2 && rejected > 0, class, st, "ops", fmt.Sprint(len(ops))))
}

// ================= generators =================

var c19regNames = []string{"c19t", "C19Up", "c19x+y.z-w"}

// a path of the given flavour; fail = the path must not yield a sink
func c19mkPath(flavour int, fail bool, i int) string {
	base := fmt.Sprintf("ok%d.log", i)
	if fail {
		base = fmt.Sprintf("%s%d.log", c19marker, i)
	}
	switch flavour {
	case 0: // test scheme
		return "c19t://host/" + base
	case 1: // absolute path
		return "/c19/abs/" + base
	case 2: // file URL
		return "file:///c19/url/" + base
	case 3: // relative path
		return "rel/" + base
	case 4: // test scheme, other case
		return "C19T://h/" + base
	case 5: // registered with upper case, written lower
		return "c19up:/" + base
	case 6: // file URL via localhost, upper-case scheme
		return "FILE://localhost/c19/" + base
	default:
		return "c19x+y.z-w://h/" + base
	}
}

// failing paths that fail before any opener is reached
var c19failEarly = []string{
	"nosuch://h/ok.log",               // unknown scheme
	"file://user:pw@localhost/ok.log", // user info
	"file://localhost:8080/ok.log",    // port
	"file:///ok.log?x=1",              // query
	"file:///ok.log#frag",             // fragment
	"file://example.com/ok.log",       // host
	"c19t://h/ok%zz",                  // bad escape: url.Parse fails
	"file://LOCALHOST/ok.log",         // host compared exactly
	":ok.log",                         // missing protocol scheme
	"c19T+://h/ok.log",                // valid but unregistered scheme
}

func c19faultPaths(k int, mask int, assign int, r *RNG, off int) []string {
	out := make([]string, k)
	for i := 0; i < k; i++ {
		fail := mask&(1<<i) != 0
		switch assign {
		case 0:
			out[i] = c19mkPath(0, fail, off+i)
		case 1:
			out[i] = c19mkPath(1, fail, off+i)
		case 2:
			out[i] = c19mkPath((off+i)%8, fail, off+i)
		case 3: // failures before the opener
			if fail {
				out[i] = c19failEarly[(off+i+mask)%len(c19failEarly)]
			} else {
				out[i] = c19mkPath((off+i*3+1)%8, false, off+i)
			}
		default: // seeded mix with std streams
			if fail {
				if r.Bool() {
					out[i] = c19failEarly[r.Intn(len(c19failEarly))]
				} else {
					out[i] = c19mkPath(r.Intn(8), true, off+i)
				}
			} else {
				switch r.Intn(5) {
				case 0:
					out[i] = "stdout"
				case 1:
					out[i] = "stderr"
				default:
					out[i] = c19mkPath(r.Intn(8), false, off+i)
				}
			}
		}
	}
	return out
}

// ---- URL grammar ----
func c19pick(r *RNG, xs []string) string { return xs[r.Intn(len(xs))] }

var (
	c19schemes = []string{"", "", "file", "file", "FILE", "File", "fIlE", "c19t", "C19T", "c19T", "c19up", "C19UP", "C19Up",
		"c19x+y.z-w", "C19X+Y.Z-W", "nosuch", "c19", "c19tt", "1x", "a_b", "fil", "files", "\u212Aelvin", "fi\u0307le"}
	c19users = []string{"", "", "", "", "u@", "u:p@", "@", ":@", "%40@"}
	c19hosts = []string{"", "", "", "localhost", "localhost", "LOCALHOST", "Localhost", "example.com", "127.0.0.1", "[::1]",
		"local%68ost", "localhost.", "h"}
	c19ports  = []string{"", "", "", "", ":", ":80", ":0", ":x"}
	c19pathsG = []string{"", "/", "/tmp/ok.log", "/tmp/" + c19marker + ".log", "ok.log", "./ok.log", "../ok.log", "/a%2Fb/ok",
		"/sp ace/ok", "stdout", "stderr", "/stdout", "%73tdout", "/ok%zz", "/o%6B", "/ok;p=1", "//ok", "/ok/../x", "/%", "/ok%00",
		"/" + c19marker, "b%61d"}
	c19queries = []string{"", "", "", "", "?", "?a=b", "?%zz", "??"}
	c19frags   = []string{"", "", "", "", "#", "#f", "#%zz", "#a#b"}
)

func c19url(r *RNG) string {
	if r.Chance(8) { // hostile soup
		n := r.Range(0, 10)
		return string(r.Bytes(n, []byte(":/@?#%[]. abF\\*")))
	}
	var b strings.Builder
	sch := c19pick(r, c19schemes)
	if sch != "" {
		b.WriteString(sch)
		b.WriteByte(':')
	}
	p := c19pick(r, c19pathsG)
	switch r.Intn(4) {
	case 0: // no authority (opaque or relative)
	default:
		if sch != "" || r.Chance(20) {
			b.WriteString("//")
			b.WriteString(c19pick(r, c19users))
			b.WriteString(c19pick(r, c19hosts))
			b.WriteString(c19pick(r, c19ports))
			if p != "" && !strings.HasPrefix(p, "/") {
				p = "/" + p
			}
		}
	}
	b.WriteString(p)
	b.WriteString(c19pick(r, c19queries))
	b.WriteString(c19pick(r, c19frags))
	return b.String()
}

// ---- names for the registries ----
var c19nameAtoms = []string{"", "a", "A", "z9", "a+b", "a.b-c", "A.B-C", "file", "FILE", "File", "c19t", "C19T", "1a", "+a", "-", ".",
	"a b", "a_b", "a:b", "a/b", "a%41", "\u212Aelvin", "\u212A", "a\u212A", "\u0130x", "x\u0130", "\u00e9", "a\u00e9", "a\x00", "\xff",
	"a\xffb", "json", "console", "JSON", "Console", "ab", "aB", "Ab", "AB", "zap", "Zap"}

func c19name(r *RNG) string {
	if r.Chance(75) {
		return c19pick(r, c19nameAtoms)
	}
	n := r.Range(1, 5)
	return string(r.Bytes(n, []byte("abAB19+.-_ :\xc3\xa9K")))
}

func c19(c *Ctx) {
	r := NewRNG(c.Seed)

	// ---------- 1. directed corner cases ----------
	// the three defects of DESIGN section 6 (#3 #4 #5) and their neighbours
	c19doBuild(c, c19build{names: c19regNames, encoding: "json", level: false, out: []string{"c19t://h/ok1"}, errp: nil, nw: 1}, "dir-build")
	c19doBuild(c, c19build{names: c19regNames, encoding: "json", level: false, out: []string{"c19t://h/ok1", "/abs/ok2"}, errp: []string{"c19up://h/ok3"}, nw: 1}, "dir-build")
	c19doBuild(c, c19build{names: c19regNames, encoding: "json", level: true, out: []string{"c19t://h/ok1", "/abs/ok2"}, errp: []string{"c19up://h/ok3"}, nw: 2}, "dir-build")
	c19doBuild(c, c19build{names: c19regNames, encoding: "json", level: true, out: []string{"stderr"}, errp: []string{"stderr"}, nw: 2}, "dir-build")
	c19redirect(c, 1, 3, "p: ", 6, "dir-redirect")
	c19redirect(c, 1, 3, "p: ", -2, "dir-redirect")
	c19redirect(c, 1, 3, "p: ", 0, "dir-redirect")
	c19redirect(c, 0, 19, "pre", 77, "dir-redirect")
	c19sreg(c, []c19op{{true, "\u212Aelvin"}, {false, "kelvin://h/ok"}}, "dir-sreg")
	c19sreg(c, []c19op{{true, "\u0130x"}, {true, "a\u212A"}, {true, "ak"}, {true, "ix"}}, "dir-sreg")
	c19sreg(c, []c19op{{true, "C19Up"}, {false, "c19up://h/ok"}, {false, "C19UP://h/ok"}, {true, "c19UP"}, {true, ""}, {true, "FILE"},
		{true, "1a"}, {true, "a b"}, {false, "nosuch://h/ok"}, {false, "File:///x/ok"}}, "dir-sreg")
	c19ereg(c, []c19op{{true, "mine"}, {false, "mine"}, {false, "Mine"}, {true, "mine"}, {true, ""}, {true, "json"}, {true, "JSON"},
		{false, "JSON"}, {false, "json"}, {false, ""}, {false, "nope"}}, "dir-ereg")
	for _, u := range []string{"stdout", "stderr", "file://localhost/tmp/ok", "FILE:///x/ok", "file://u@localhost/x/ok",
		"file://localhost:1/x/ok", "file:///x/ok?q", "file:///x/ok#f", "file://LOCALHOST/x/ok", "file:ok", "file:///a%2Fb/ok",
		"%73tdout", "/stdout", "file:///stdout", "file:stdout", "stdout?", "stdout#", "C19T://h/ok", "c19up://h/ok", "nosuch:///ok",
		"", "*", "file://", "file://localhost", "ok.log", "./ok.log", "/abs/ok.log", "/abs/" + c19marker, "c19t://h/" + c19marker} {
		c19open(c, c19regNames, []string{u}, 2, "url")
	}
	c19open(c, c19regNames, nil, 3, "fault")
	c19open(c, []string{"c19t", "C19T", "c19T"}, []string{"c19t://h/ok", "C19T://h/ok2"}, 1, "fault")
	c19open(c, c19regNamesRej, []string{"c19t://h/ok", "C19UP://h/ok2", "c19x+y.z-w://h/ok3", "stdout", "rel/ok4"}, 2, "fault")
	c19doBuild(c, c19build{names: c19regNamesRej, encs: []c19enc{{"mine", true}, {"mine", false}, {"", true}, {"json", false}}, encoding: "mine",
		timeKey: true, encTime: true, level: true, out: []string{"c19t://h/ok1", "C19UP://h/ok2"}, errp: []string{"stderr"}, nw: 2}, "dir-build")
	// rejected operations followed by every other operation on the same registries
	c19mixDirected(c)

	// ---------- 2. fault enumeration: Open, k <= 5, every failing subset ----------
	K := 5
	for k := 0; k <= K; k++ {
		for mask := 0; mask < 1<<k; mask++ {
			for assign := 0; assign < 5; assign++ {
				if k == 0 && assign > 0 {
					continue
				}
				names := c19regNames
				if (mask+assign)%2 == 1 { // half of them after rejected registrations
					names = c19regNamesRej
				}
				c19open(c, names, c19faultPaths(k, mask, assign, r, 0), r.Intn(4), "fault")
			}
		}
	}

	// ---------- 3. fault enumeration: Build, k1 + k2 <= 5, every failing subset, level set / zero ----------
	for k1 := 0; k1 <= K; k1++ {
		for k2 := 0; k1+k2 <= K; k2++ {
			for mask := 0; mask < 1<<(k1+k2); mask++ {
				for _, level := range []bool{true, false} {
					for assign := 2; assign < 5; assign += 2 {
						if !c.Thorough && (mask+k1+k2+assign/2)%2 == 1 && k1+k2 >= 4 {
							continue // quick tier: half of the two largest layers per assignment
						}
						out := c19faultPaths(k1, mask, assign, r, 0)
						errp := c19faultPaths(k2, mask>>k1, assign, r, k1)
						names := c19regNames
						if (mask+k1)%2 == 1 {
							names = c19regNamesRej
						}
						c19doBuild(c, c19build{names: names, encoding: "json", timeKey: true, encTime: true, level: level,
							out: out, errp: errp, nw: r.Intn(3)}, "build-fault")
					}
				}
			}
		}
	}
	// every other early return of Build, with and without failing / zero-level company
	encSets := [][]c19enc{nil, {{"mine", true}}, {{"mine", false}}, {{"", true}, {"mine", true}, {"mine", false}}, {{"json", false}, {"Mine", false}}}
	for _, encs := range encSets {
		for _, encoding := range []string{"json", "console", "", "mine", "Mine", "JSON", "nope"} {
			for tk := 0; tk < 4; tk++ {
				for _, level := range []bool{true, false} {
					for v := 0; v < 3; v++ {
						var out, errp []string
						switch v {
						case 0:
							out, errp = []string{"c19t://h/ok1", "/abs/ok2"}, []string{"c19up://h/ok3"}
						case 1:
							out, errp = []string{"c19t://h/ok1", "/abs/" + c19marker}, []string{"c19up://h/ok3"}
						default:
							out, errp = []string{"c19t://h/ok1"}, []string{"stderr", "nosuch://x"}
						}
						names := c19regNames
						if v == 1 {
							names = c19regNamesRej
						}
						c19doBuild(c, c19build{names: names, encs: encs, encoding: encoding, timeKey: tk&1 != 0, encTime: tk&2 != 0,
							level: level, out: out, errp: errp, nw: 1}, "build-early")
					}
				}
			}
		}
	}

	// ---------- 4. std-log redirection: every level value, random prior flags / prefix ----------
	prefixes := []string{"", "p", "pre: ", "\x00", "[zap] ", "é"}
	for lv := -128; lv <= 127; lv++ {
		c19redirect(c, 1, r.Intn(512), c19pick(r, prefixes), lv, "redirect-at")
		if lv >= -3 && lv <= 8 {
			c19redirect(c, 1, 0, "", lv, "redirect-at")
			c19redirect(c, 1, r.Intn(1<<20), string(r.Bytes(r.Intn(6), []byte("ab :\n"))), lv, "redirect-at")
		}
	}
	for k := 0; k < 40; k++ {
		c19redirect(c, 0, r.Intn(512), c19pick(r, prefixes), r.Range(-128, 127), "redirect")
	}

	// ---------- 5. URL grammar ----------
	N := 4000
	if c.Thorough {
		N = 150000
	}
	for k := 0; k < N; k++ {
		n := 1
		if r.Chance(15) {
			n = r.Range(2, 4)
		}
		raws := make([]string, n)
		for i := range raws {
			raws[i] = c19url(r)
		}
		names := c19regNames
		if k%3 == 0 {
			names = c19regNamesRej
		}
		c19open(c, names, raws, r.Intn(3), "url")
	}

	// ---------- 6. registries: random histories of registrations and lookups ----------
	M := 1500
	if c.Thorough {
		M = 40000
	}
	for k := 0; k < M; k++ {
		n := r.Range(1, 10)
		ops := make([]c19op, n)
		var regd []string
		for i := range ops {
			if r.Chance(65) || len(regd) == 0 {
				nm := c19name(r)
				if len(regd) > 0 && r.Chance(20) { // re-register an earlier name in another case
					nm = regd[r.Intn(len(regd))]
					if r.Bool() {
						nm = strings.ToUpper(nm)
					}
				}
				ops[i] = c19op{true, nm}
				regd = append(regd, nm)
			} else {
				nm := regd[r.Intn(len(regd))]
				switch r.Intn(4) {
				case 0:
					nm = strings.ToUpper(nm)
				case 1:
					nm = c19asciiLower(nm)
				case 2:
					nm = c19name(r)
				}
				ops[i] = c19op{false, nm}
			}
		}
		if k%2 == 0 {
			sops := make([]c19op, n)
			for i, o := range ops {
				sops[i] = o
				if !o.reg {
					sops[i].name = o.name + "://h/ok"
					if r.Chance(15) {
						sops[i].name = o.name + ":///" + c19marker
					}
				}
			}
			c19sreg(c, sops, "sreg")
		} else {
			c19ereg(c, ops, "ereg")
		}
	}

	// ---------- 7. mixed histories over both registries ----------
	M2 := 1500
	if c.Thorough {
		M2 = 40000
	}
	for k := 0; k < M2 && !c19wedged; k++ {
		c19mixRandom(c, r)
	}

	// ---------- 8. the multi-destination writer under scripted destinations ----------
	c19multiDirected(c)
	M3 := 1500
	if c.Thorough {
		M3 = 40000
	}
	for k := 0; k < M3 && !c19wedged; k++ {
		c19multiRandom(c, r)
	}

	// ---------- 9. overlapping registrations of one name (wire kind 7) ----------
	if !c19wedged {
		c19conc(c, r.Fork())
	}
	if c19dir != "" {
		os.RemoveAll(c19dir)
	}
}

func init() { registry["C19"] = c19 }

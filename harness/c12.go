package main

import (
	"bufio"
	"bytes"
	"errors"
	"fmt"
	"io"
	"os"
	"os/exec"
	"reflect"
	"runtime"
	"strconv"
	"strings"
	"sync"
	"syscall"
	"time"
	"unsafe"

	"go.uber.org/zap/zapcore"
)

// C12: zapcore.BufferedWriteSyncer over a recording sink with a scripted outcome per call,
// and a fake ticker (a Clock whose NewTicker returns &time.Ticker{C: ch}).
// input  = (size (op ...) (outcome ...) mode)   op = (0 bytes) Write | (1) Sync | (2) tick | (3) Stop
//          outcome = (short err): short = -1 takes everything; mode 1 = raw bufio.Writer
//          bytes = #hex up to 256 bytes, longer ones run-length encoded (#b n #b n ...) (c12bytesSX)
// output = (((res (ev ...)) ...) alive (live ...))   res = (0 n e) | (1 e) | (2 delivered) | (3 e)
//          ev = (0 bytes n) sink.Write(p) returned n | (1) sink.Sync()
//          live = per operation: is THIS syncer's flush goroutine present once the operation has returned
//                 (after a Stop: still there after Stop returned -- parked in flushLoop's select, or not gone
//                 within the grace period); alive = a tick sent after the whole history is still served

type c12out struct {
	short int // -1 = everything
	err   bool
}
type c12ev struct {
	sync bool
	p    []byte
	n    int
}
type c12op struct {
	kind int
	bs   []byte
}

var (
	errC12Write = errors.New("c12: sink write failed")
	errC12Sync  = errors.New("c12: sink sync failed")
)

type c12sink struct {
	mu    sync.Mutex
	outs  []c12out
	evs   []c12ev
	syncs int
}

func (s *c12sink) pop() c12out {
	if len(s.outs) == 0 {
		return c12out{short: -1}
	}
	o := s.outs[0]
	s.outs = s.outs[1:]
	return o
}
func (s *c12sink) Write(p []byte) (int, error) {
	s.mu.Lock()
	defer s.mu.Unlock()
	o := s.pop()
	n := len(p)
	if o.short >= 0 && o.short < n {
		n = o.short
	}
	s.evs = append(s.evs, c12ev{p: append([]byte(nil), p...), n: n})
	if o.err {
		return n, errC12Write
	}
	return n, nil
}
func (s *c12sink) Sync() error {
	s.mu.Lock()
	defer s.mu.Unlock()
	o := s.pop()
	s.evs = append(s.evs, c12ev{sync: true})
	s.syncs++
	if o.err {
		return errC12Sync
	}
	return nil
}
func (s *c12sink) nev() int    { s.mu.Lock(); defer s.mu.Unlock(); return len(s.evs) }
func (s *c12sink) nsyncs() int { s.mu.Lock(); defer s.mu.Unlock(); return s.syncs }
func (s *c12sink) slice(a, b int) []c12ev {
	s.mu.Lock()
	defer s.mu.Unlock()
	return append([]c12ev(nil), s.evs[a:b]...)
}

type c12clock struct {
	ch   chan time.Time
	made int
}

func (c *c12clock) Now() time.Time { return time.Now() }
func (c *c12clock) NewTicker(time.Duration) *time.Ticker {
	c.made++
	return &time.Ticker{C: c.ch}
}

var c12stackBuf = make([]byte, 1<<20)
var c12stackMu sync.Mutex
var c12tickBroken bool
var c12hangs int
var c12leaks int

// c12scan counts the flush goroutines of BufferedWriteSyncers in this process (total) and those of them
// that sit in flushLoop's select (atSelect): parked there ("[select]"), or woken / not yet descheduled with
// flushLoop as the top frame at the very pc at which a parked one is listed (the return address of the
// select; learnt from the first goroutine seen parked -- see c12calibrate).
// A goroutine that has not run yet is listed as "...initialize.gowrap1", afterwards as "...flushLoop";
// both carry "created by ...(*BufferedWriteSyncer).initialize".
var c12selectPC []byte

func c12scan() (total, atSelect int) {
	c12stackMu.Lock()
	defer c12stackMu.Unlock()
	var n int
	for {
		n = runtime.Stack(c12stackBuf, true)
		if n < len(c12stackBuf) {
			break
		}
		c12stackBuf = make([]byte, 2*len(c12stackBuf))
	}
	b := c12stackBuf[:n]
	for len(b) > 0 {
		var blk []byte
		if i := bytes.Index(b, []byte("\n\n")); i >= 0 {
			blk, b = b[:i], b[i+2:]
		} else {
			blk, b = b, nil
		}
		if !bytes.Contains(blk, []byte("BufferedWriteSyncer).flushLoop")) &&
			!bytes.Contains(blk, []byte("BufferedWriteSyncer).initialize.gowrap")) &&
			!bytes.Contains(blk, []byte("created by go.uber.org/zap/zapcore.(*BufferedWriteSyncer)")) {
			continue
		}
		total++
		lines := bytes.SplitN(blk, []byte("\n"), 4)
		if len(lines) < 3 || !bytes.Contains(lines[1], []byte("BufferedWriteSyncer).flushLoop(")) {
			continue // top frame is not flushLoop itself
		}
		pc := bytes.TrimSpace(lines[2])
		if bytes.Contains(lines[0], []byte("[select")) {
			if c12selectPC == nil {
				c12selectPC = append([]byte(nil), pc...)
			}
			atSelect++
		} else if c12selectPC != nil && bytes.Equal(pc, c12selectPC) {
			atSelect++
		}
	}
	return
}

// a panic in a helper goroutine must not kill the harness before the findings are written: it is recorded
// and reported with the run it happened in
var (
	c12panicMu sync.Mutex
	c12panics  []string
)

func c12guard() {
	if p := recover(); p != nil {
		c12panicMu.Lock()
		c12panics = append(c12panics, fmt.Sprint(p))
		c12panicMu.Unlock()
	}
}
func c12takePanics() []string {
	c12panicMu.Lock()
	defer c12panicMu.Unlock()
	ps := c12panics
	c12panics = nil
	return ps
}

// c12within runs f and reports whether it returned in time (f keeps running in its goroutine otherwise)
func c12within(d time.Duration, f func()) bool {
	done := make(chan struct{})
	go func() {
		defer close(done)
		defer c12guard()
		f()
	}()
	select {
	case <-done:
		return true
	case <-time.After(d):
		return false
	}
}

// c12calibrate learns the pc of flushLoop's select from a syncer of its own (written to once, so that its
// flush goroutine parks), before any case runs.
func c12calibrate() bool {
	ws := &zapcore.BufferedWriteSyncer{WS: &c12sink{}, Size: 8, FlushInterval: time.Hour, Clock: &c12clock{ch: make(chan time.Time)}}
	ws.Write([]byte("x"))
	deadline := time.Now().Add(2 * time.Second)
	for c12selectPC == nil && time.Now().Before(deadline) {
		c12scan()
		time.Sleep(50 * time.Microsecond)
	}
	c12within(2*time.Second, func() { ws.Stop() }) // a Stop that blocks is reported by the cases, not here
	return c12selectPC != nil
}

// is any flushLoop goroutine of a BufferedWriteSyncer present in this process?
func c12loopPresent() bool { t, _ := c12scan(); return t > 0 }

// c12probe observes the flush goroutine of ONE syncer: the counts at its creation are the baseline, so
// goroutines leaked by earlier (already reported) cases do not leak into this case's observation.
type c12probe struct{ n0, p0 int }

func c12newProbe() c12probe { n, p := c12scan(); return c12probe{n, p} }

func (pr c12probe) present() bool { t, _ := c12scan(); return t > pr.n0 }

// afterStop: is the flush goroutine still at work although Stop has returned?  A correct Stop returns only
// after flushLoop has closed done, i.e. after it left its select for good: the goroutine is then gone or on
// its way out, never in the select again and never receiving another tick.  So "gone" and "in the select"
// are definite answers at once; while neither holds a tick is offered (a loop that takes it and syncs the
// sink after Stop has returned is alive); anything else is polled for a grace period (2 s, shortened to
// 100 ms once a leak has been reported, so that a broken tree is reported in seconds).
func (pr c12probe) afterStop(clk *c12clock, sink *c12sink) bool {
	grace := 2 * time.Second
	if c12leaks > 0 {
		grace = 100 * time.Millisecond
	}
	deadline := time.Now().Add(grace)
	for i := 0; ; i++ {
		t, p := c12scan()
		if t <= pr.n0 {
			return false
		}
		if p > pr.p0 || time.Now().After(deadline) {
			c12leaks++
			return true
		}
		if clk != nil {
			before := sink.nsyncs()
			tm := time.NewTimer(50 * time.Microsecond)
			select {
			case clk.ch <- time.Time{}:
				tm.Stop()
				c12leaks++
				for sink.nsyncs() == before && time.Now().Before(deadline) {
					time.Sleep(20 * time.Microsecond)
				}
				return true
			case <-tm.C:
			}
		} else if i < 50 {
			runtime.Gosched()
		} else {
			time.Sleep(50 * time.Microsecond)
		}
	}
}

// c12reap ends a flush goroutine that Stop has left behind (only ever called after that has been recorded
// as the case's observation / violation): closes the unexported stop channel, so that later cases run in a
// clean process.  Best effort: if the field is not there any more the baseline counts keep cases apart.
func c12reap(ws *zapcore.BufferedWriteSyncer, pr c12probe) {
	func() {
		defer func() { recover() }()
		f := reflect.ValueOf(ws).Elem().FieldByName("stop")
		if !f.IsValid() || f.Kind() != reflect.Chan || f.Type().ChanDir() != reflect.BothDir ||
			f.Type().Elem() != reflect.TypeOf(struct{}{}) {
			return
		}
		ch := *(*chan struct{})(unsafe.Pointer(f.UnsafeAddr()))
		if ch != nil {
			close(ch)
		}
	}()
	deadline := time.Now().Add(200 * time.Millisecond)
	for pr.present() && time.Now().Before(deadline) {
		time.Sleep(50 * time.Microsecond)
	}
}

func c12errClass(err error) int {
	c := 0
	if err == nil {
		return 0
	}
	// multierr's combined error exposes its parts through Errors() []error
	parts := []error{err}
	if g, ok := err.(interface{ Errors() []error }); ok {
		parts = g.Errors()
	}
	for _, e := range parts {
		switch {
		case errors.Is(e, errC12Write):
			c += 1
		case errors.Is(e, io.ErrShortWrite):
			c += 2
		case errors.Is(e, errC12Sync):
			c += 4
		default:
			c += 64
		}
	}
	return c
}

type c12res struct {
	kind int
	a, b int
	evs  []c12ev
}

const c12tickLimit = 4 * time.Second

// send one tick to a live flush loop and wait until the sink has seen its Sync.
// Returns delivered=false when this syncer has no flush loop (any more).
func c12tick(clk *c12clock, sink *c12sink, pr c12probe, viol func(string)) bool {
	if clk.made == 0 || !pr.present() {
		return false
	}
	before := sink.nsyncs()
	limit := c12tickLimit
	if c12tickBroken {
		limit = 5 * time.Millisecond // already reported once: do not spend seconds on every further tick
	}
	deadline := time.Now().Add(limit)
	for {
		t := time.NewTimer(20 * time.Millisecond)
		select {
		case clk.ch <- time.Time{}:
			t.Stop()
			for sink.nsyncs() == before {
				if time.Now().After(deadline) {
					viol("tick received by the flush loop but the sink saw no Sync within 4s")
					c12tickBroken = true
					return true
				}
				time.Sleep(20 * time.Microsecond)
			}
			return true
		case <-t.C:
			if !pr.present() {
				return false
			}
			if time.Now().After(deadline) {
				viol("flush loop goroutine present but not receiving ticks for 4s")
				c12tickBroken = true
				return false
			}
		}
	}
}

// progress of the history being run, for the per-operation watchdog in c12emit
type c12prog struct {
	mu    sync.Mutex
	idx   int
	since time.Time
}

func (p *c12prog) at(i int) { p.mu.Lock(); p.idx, p.since = i, time.Now(); p.mu.Unlock() }
func (p *c12prog) get() (int, time.Duration) {
	p.mu.Lock()
	defer p.mu.Unlock()
	return p.idx, time.Since(p.since)
}

func c12runBWS(size int, ops []c12op, outs []c12out, viol func(string), prog *c12prog) (rs []c12res, alive bool, live []bool) {
	pr := c12newProbe()
	sink := &c12sink{outs: append([]c12out(nil), outs...)}
	clk := &c12clock{ch: make(chan time.Time)}
	ws := &zapcore.BufferedWriteSyncer{WS: sink, Size: size, FlushInterval: time.Hour, Clock: clk}
	live = make([]bool, 0, len(ops))
	for i, o := range ops {
		prog.at(i)
		e0 := sink.nev()
		var r c12res
		r.kind = o.kind
		lv := false
		switch o.kind {
		case 0:
			n, err := ws.Write(o.bs)
			r.a, r.b = n, c12errClass(err)
			lv = pr.present()
		case 1:
			r.a = c12errClass(ws.Sync())
			lv = pr.present()
		case 2:
			if c12tick(clk, sink, pr, viol) {
				// the loop's Sync returns (and unlocks) right after the sink's Sync; the next
				// operation takes the same mutex, so its events cannot overtake these
				r.a = 1
			}
			lv = pr.present()
		case 3:
			r.a = c12errClass(ws.Stop())
			lv = pr.afterStop(clk, sink) // what a tick taken after Stop does to the sink is part of this operation's events
		}
		r.evs = sink.slice(e0, sink.nev())
		rs = append(rs, r)
		live = append(live, lv)
	}
	// do ticks still reach the sink at the end of the history?
	prog.at(len(ops))
	if clk.made > 0 && pr.present() {
		alive = c12tick(clk, sink, pr, viol)
	}
	// clean up, and check that a (further) Stop really ends the goroutine
	prog.at(len(ops) + 1)
	ws.Stop()
	if pr.afterStop(clk, sink) {
		viol("flush goroutine of this syncer still running after the final (clean-up) Stop returned")
		c12reap(ws, pr)
	}
	return
}

// raw bufio.Writer over the same sink: Write = Write, everything else = Flush
func c12runBufio(size int, ops []c12op, outs []c12out) (rs []c12res) {
	sink := &c12sink{outs: append([]c12out(nil), outs...)}
	w := bufio.NewWriterSize(sink, size)
	for _, o := range ops {
		e0 := sink.nev()
		var r c12res
		if o.kind == 0 {
			n, err := w.Write(o.bs)
			r.kind, r.a, r.b = 0, n, c12errClass(err)
		} else {
			r.kind, r.a = 1, c12errClass(w.Flush())
		}
		r.evs = sink.slice(e0, sink.nev())
		rs = append(rs, r)
	}
	return
}

// c12bytesSX is the wire form of a byte string (coq/theories/C12/Model.v: enc_bytes): literal up to 256
// bytes, above that the flat list of its maximal runs of one byte, (#b n #b n ...).  Payloads for buffer
// sizes of tens or hundreds of KiB are generated as a few long runs, so such cases stay a few hundred bytes
// long; the oracle requires observations to be in exactly this form.
const c12rleMin = 256

func c12bytesSX(p []byte) SX {
	if len(p) <= c12rleMin {
		return B(p)
	}
	var xs []SX
	for i := 0; i < len(p); {
		j := i
		for j < len(p) && p[j] == p[i] {
			j++
		}
		xs = append(xs, B(p[i:i+1]), I(j-i))
		i = j
	}
	return L(xs...)
}

func c12caseSX(size int, ops []c12op, outs []c12out, mode int) SX {
	xs := make([]SX, len(ops))
	for i, o := range ops {
		if o.kind == 0 {
			xs[i] = L(I(0), c12bytesSX(o.bs))
		} else {
			xs[i] = L(I(o.kind))
		}
	}
	os_ := make([]SX, len(outs))
	for i, o := range outs {
		os_[i] = L(I(o.short), Bool(o.err))
	}
	return L(I(size), L(xs...), L(os_...), I(mode))
}

func c12obsSX(rs []c12res, alive bool, live []bool) SX {
	xs := make([]SX, len(rs))
	for i, r := range rs {
		var rx SX
		switch r.kind {
		case 0:
			rx = L(I(0), I(r.a), I(r.b))
		default:
			rx = L(I(r.kind), I(r.a))
		}
		es := make([]SX, len(r.evs))
		for j, e := range r.evs {
			if e.sync {
				es[j] = L(I(1))
			} else {
				es[j] = L(I(0), c12bytesSX(e.p), I(e.n))
			}
		}
		xs[i] = L(rx, L(es...))
	}
	ls := make([]SX, len(live))
	for i, l := range live {
		ls[i] = Bool(l)
	}
	return L(L(xs...), Bool(alive), L(ls...))
}

var c12opNames = []string{"Write", "Sync", "tick", "Stop"}

// one case, run under a per-operation watchdog (an operation of the implementation that blocks must not
// hang the check: it is reported with the history and the operation that did not return)
func c12emit(c *Ctx, size int, ops []c12op, outs []c12out, mode int, class string) {
	in := c12caseSX(size, ops, outs, mode)
	if c12hangs >= 3 {
		return // repeated hangs already reported: do not wait for every remaining case
	}
	type result struct {
		rs    []c12res
		alive bool
		live  []bool
	}
	done := make(chan result, 1)
	var vmu sync.Mutex
	var viols []string
	viol := func(s string) { vmu.Lock(); viols = append(viols, s); vmu.Unlock() }
	prog := &c12prog{since: time.Now()}
	panicked := make(chan string, 1)
	go func() {
		defer func() {
			if p := recover(); p != nil {
				i, _ := prog.get()
				panicked <- fmt.Sprintf("panic escaped while running the history (at step %d of %d): %v", i, len(ops), p)
			}
		}()
		if mode == 1 {
			done <- result{rs: c12runBufio(size, ops, outs)}
			return
		}
		rs, alive, live := c12runBWS(size, ops, outs, viol, prog)
		done <- result{rs, alive, live}
	}()
	// every operation returns within microseconds on a working tree (a tick: within c12tickLimit at worst)
	limit := 10 * time.Second
	if c12hangs > 0 {
		limit = 2 * time.Second
	}
	var res result
	poll := time.NewTicker(25 * time.Millisecond)
	defer poll.Stop()
wait:
	for {
		select {
		case res = <-done:
			break wait
		case what := <-panicked:
			c12viol(c, what, in)
			return
		case <-poll.C:
			if i, d := prog.get(); d > limit {
				c12hangs++
				what := "the final tick probe"
				switch {
				case i < len(ops):
					what = fmt.Sprintf("operation %d (%s) of the history", i, c12opNames[ops[i].kind])
				case i == len(ops)+1:
					what = "a further Stop after the history"
				}
				c12viol(c, fmt.Sprintf("%s did not return within its time limit (10s, then 2s): deadlock", what), in)
				return
			}
		}
	}
	vmu.Lock()
	for _, v := range viols {
		c12viol(c, v, in)
	}
	vmu.Unlock()
	nw, big, exact, empty, pre, post := 0, 0, 0, 0, 0, 0
	seenStop := false
	// lifecycle shape: Stops before the first Write (and a Write after them), Stops after it
	earlyStops, lateStops, reuse, seenW := 0, 0, 0, false
	for _, o := range ops {
		switch o.kind {
		case 0:
			if !seenW && earlyStops > 0 {
				reuse = 1
			}
			seenW = true
		case 3:
			if seenW {
				lateStops++
			} else {
				earlyStops++
			}
		}
	}
	held := 0
	cfgSize := size
	size = c12effSize(cfgSize) // the meta data below is about the buffer bufio ends up with
	for _, o := range ops {
		switch o.kind {
		case 0:
			nw++
			if len(o.bs) == 0 {
				empty++
			}
			if size > 0 && len(o.bs) > size {
				big++
			}
			if size > 0 && held > 0 && len(o.bs) == size-held {
				exact++
			}
			if size > 0 && held > 0 && len(o.bs) > size-held {
				pre++
				held = 0
			}
			if size > 0 && len(o.bs) <= size-held {
				held += len(o.bs)
			}
			if seenStop {
				post++
			}
		case 3:
			seenStop = true
			held = 0
		default:
			held = 0
		}
	}
	nt := "0"
	if nw >= 2 && len(ops) >= 3 && (pre > 0 || big > 0 || len(outs) > 0) {
		nt = "1"
	}
	flt := "0"
	for _, o := range outs {
		if o.err || o.short >= 0 {
			flt = "1"
		}
	}
	c.Emit(in, c12obsSX(res.rs, res.alive, res.live), map[string]string{"nt": nt, "class": class,
		"ops": fmt.Sprint(len(ops)), "big": fmt.Sprint(big), "exact": fmt.Sprint(exact), "empty": fmt.Sprint(empty),
		"preflush": fmt.Sprint(pre), "afterstop": fmt.Sprint(post), "faulty": flt,
		"earlystop": fmt.Sprint(earlyStops), "stops": fmt.Sprint(earlyStops + lateStops), "stopthenuse": fmt.Sprint(reuse)})
}

// Side-channel lines are collected and written after the last case: the driver produces one
// verdict per line of the case file and the runner pairs verdicts with cases by position.
var c12side []func(*Ctx)

var c12violCount = map[string]int{}

func c12viol(c *Ctx, what string, replay SX) {
	// the first three inputs per kind of violation are enough (kind = the text without its numbers)
	kind := strings.Map(func(r rune) rune {
		if r >= '0' && r <= '9' {
			return -1
		}
		return r
	}, what)
	if i := strings.Index(kind, ": "); i >= 0 {
		kind = kind[:i]
	}
	c12violCount[kind]++
	if c12violCount[kind] > 3 {
		return
	}
	c12side = append(c12side, func(c *Ctx) { c.Viol(what, replay) })
}
func c12info(c *Ctx, k, v string) { c12side = append(c12side, func(c *Ctx) { c.Info(k, v) }) }

func c12w(s string) c12op { return c12op{kind: 0, bs: []byte(s)} }

var (
	c12S = c12op{kind: 1}
	c12T = c12op{kind: 2}
	c12X = c12op{kind: 3}
)

func c12randBytes(r *RNG, n int) []byte {
	out := make([]byte, n)
	for i := range out {
		out[i] = byte('a' + r.Intn(26))
	}
	if n > 0 && r.Chance(70) {
		out[n-1] = '\n'
	}
	return out
}

func c12(c *Ctx) {
	defer func() {
		for _, f := range c12side {
			f(c)
		}
	}()
	r := NewRNG(c.Seed)
	base := runtime.NumGoroutine()
	if c12calibrate() {
		c12info(c, "select_pc", string(c12selectPC))
	} else {
		c12info(c, "select_pc", "not learnt: liveness after Stop judged by the [select] state and the tick probe only")
	}
	// ---- 1. directed corner cases
	directed := []struct {
		size int
		ops  []c12op
		outs []c12out
	}{
		{4, []c12op{c12w("abc"), c12w("de"), c12S}, nil},                                // pre-flush: must not split "de"
		{4, []c12op{c12w("abc"), c12w("d"), c12w("e"), c12X}, nil},                      // exactly the free space
		{4, []c12op{c12w("abcdefgh"), c12w(""), c12w("ab"), c12w("abcdef"), c12S}, nil}, // larger than the buffer
		{4, []c12op{c12w("ab"), c12X, c12w("cd"), c12X}, nil},                           // write after Stop, Stop again
		{4, []c12op{c12w("ab"), c12X, c12w("cd"), c12w("efghij"), c12T, c12X, c12S}, nil},
		{4, []c12op{c12X, c12X, c12S, c12T, c12w("ab"), c12T, c12X, c12X}, nil}, // Stop before any use
		{4, []c12op{c12S, c12w("ab"), c12T, c12w("cd"), c12T, c12T}, nil},       // ticks
		{1, []c12op{c12w("a"), c12w("b"), c12w(""), c12w("cd"), c12X}, nil},
		{0, []c12op{c12w("abc"), c12w(string(make([]byte, 5000))), c12S, c12X}, nil},                              // default size 256 KiB
		{-1, []c12op{c12w("abc"), c12w(string(make([]byte, 5000))), c12w("x"), c12X}, nil},                        // bufio default 4096
		{0, []c12op{c12w(string(make([]byte, 200000))), c12w(string(make([]byte, 62144))), c12w("x"), c12S}, nil}, // exactly 256 KiB, then one more
		{-7, []c12op{c12w(string(make([]byte, 4000))), c12w(string(make([]byte, 96))), c12w("x"), c12S}, nil},     // exactly 4096, then one more
		{4, []c12op{c12w("abc"), c12w("de"), c12S, c12w("f"), c12X}, []c12out{{-1, true}}},                        // flush error is sticky
		{4, []c12op{c12w("abc"), c12w("de"), c12S, c12w("f"), c12X}, []c12out{{1, false}}},                        // short write
		{4, []c12op{c12w("abcdefg"), c12w("hi"), c12S}, []c12out{{3, false}}},                                     // short direct write continues
		{4, []c12op{c12w("ab"), c12S, c12X, c12X}, []c12out{{-1, false}, {-1, true}, {-1, true}, {-1, true}}},     // sync errors
		{4, []c12op{c12w("ab"), c12X, c12X}, []c12out{{-1, true}}},                                                // zap's own "stop twice"
		// lifecycle orders: Stop / Sync / tick before the first Write, use afterwards, Stop again (and again)
		{4, []c12op{c12X, c12w("ab"), c12X}, nil},
		{4, []c12op{c12X, c12w("ab"), c12w("cd"), c12X, c12T, c12S}, nil},
		{4, []c12op{c12S, c12X, c12w("ab"), c12T, c12X, c12X, c12T}, nil},
		{4, []c12op{c12T, c12X, c12S, c12X, c12w("abcdef"), c12S, c12X, c12w("g"), c12X}, nil},
		{4, []c12op{c12X, c12X, c12X, c12w(""), c12X, c12S, c12X}, nil},
		{0, []c12op{c12X, c12w("ab"), c12T, c12X, c12T}, nil},                                         // default size
		{-1, []c12op{c12X, c12S, c12w("ab"), c12X, c12X}, nil},                                        // bufio's default size
		{4, []c12op{c12X, c12w("ab"), c12X, c12T}, []c12out{{-1, true}, {-1, true}, {-1, true}}},      // every sink call fails
		{4, []c12op{c12X, c12w("abc"), c12w("de"), c12X, c12X}, []c12out{{1, false}, {-1, true}}},     // short flush, failing Sync
		{4, []c12op{c12w("ab"), c12X, c12T, c12w("cd"), c12X, c12T}, []c12out{{0, true}, {-1, true}}}, // Stop whose flush and Sync fail
	}
	for _, d := range directed {
		c12emit(c, d.size, d.ops, d.outs, 0, "directed")
		c12emit(c, d.size, d.ops, d.outs, 1, "directed-bufio")
	}
	// ---- 1b. sizes far above the ones used below: around powers of two and page multiples, the 256 KiB
	// default +- 1, write lengths relative to the size (c12_sizes.go)
	c12sizeClasses(c)
	// ---- 2. exhaustive small histories: size 3, ops over {W"", W1, W2, W4, Sync, Tick, Stop}, length <= L
	Lmax := 4
	if c.Thorough {
		Lmax = 6
	}
	alpha := []c12op{c12w(""), c12w("a"), c12w("bc"), c12w("defg"), c12S, c12T, c12X}
	var rec func(prefix []c12op)
	rec = func(prefix []c12op) {
		if len(prefix) > 0 {
			c12emit(c, 3, prefix, nil, 0, "exh")
		}
		if len(prefix) < Lmax {
			for _, a := range alpha {
				rec(append(append([]c12op(nil), prefix...), a))
			}
		}
	}
	rec(nil)
	// ---- 2b. lifecycle orders, exhaustively: every history of length <= L over {Write, Sync, tick, Stop}
	// (Stop before the first Write, Write after Stop, repeated Stop, Sync/tick before and after Stop, in
	// every order), judged on per-operation goroutine liveness, tick delivery and the final tick
	Llife := 6
	if c.Thorough {
		Llife = 8
	}
	lalpha := []c12op{c12w("ab"), c12S, c12T, c12X}
	var lrec func(prefix []c12op, emitFrom int)
	lrec = func(prefix []c12op, emitFrom int) {
		if len(prefix) >= emitFrom {
			c12emit(c, 3, prefix, nil, 0, "life-exh")
		}
		if len(prefix) < Llife {
			for _, a := range lalpha {
				lrec(append(append([]c12op(nil), prefix...), a), emitFrom)
			}
		}
	}
	lrec(nil, 1)
	// the same orders (length <= 4; thorough: 5) over sinks that fail: the lifecycle must not depend on
	// what the sink answers -- every call fails / the n-th call fails / short writes
	Lf := 4
	if c.Thorough {
		Lf = 5
	}
	allFail := make([]c12out, 16)
	for i := range allFail {
		allFail[i] = c12out{short: -1, err: true}
	}
	scripts := [][]c12out{
		allFail,
		{{0, true}},
		{{-1, false}, {-1, true}},
		{{1, false}, {-1, false}, {0, true}},
		{{-1, false}, {-1, false}, {-1, true}, {1, true}},
	}
	var frec func(prefix []c12op)
	frec = func(prefix []c12op) {
		if len(prefix) >= 2 {
			for _, sc := range scripts {
				c12emit(c, 3, prefix, sc, 0, "life-exh-faulty")
			}
		}
		if len(prefix) < Lf {
			for _, a := range lalpha {
				frec(append(append([]c12op(nil), prefix...), a))
			}
		}
	}
	frec(nil)
	// ---- 3. fault enumeration: fixed history, every position x every kind of failure
	fh := []c12op{c12w("ab"), c12w("cde"), c12w("fghijk"), c12S, c12w("l"), c12T, c12w("mn"), c12X, c12w("o"), c12X}
	for pos := 0; pos < 10; pos++ {
		for _, f := range []c12out{{-1, true}, {0, true}, {1, true}, {1, false}, {2, false}, {0, false}} {
			outs := make([]c12out, pos+1)
			for i := range outs {
				outs[i] = c12out{short: -1}
			}
			outs[pos] = f
			c12emit(c, 4, fh, outs, 0, "fault-enum")
			c12emit(c, 4, fh, outs, 1, "fault-enum-bufio")
		}
	}
	// ---- 4. random histories
	N := 4000
	if c.Thorough {
		N = 60000
	}
	for i := 0; i < N; i++ {
		size := r.Range(1, 64)
		if r.Chance(30) {
			size = r.Range(1, 8)
		}
		nops := r.Range(1, 40)
		if c.Thorough && r.Chance(10) {
			nops = r.Range(40, 200)
		}
		style := r.Intn(5) // 0 plain, 1 lifecycle-heavy, 2 faulty, 3 bufio reliable, 4 bufio faulty
		held := 0
		var ops []c12op
		for j := 0; j < nops; j++ {
			x := r.Intn(100)
			wcut := 75
			if style == 1 {
				wcut = 50
			}
			switch {
			case x < wcut:
				var ln int
				switch y := r.Intn(10); {
				case y == 0:
					ln = 0
				case y == 1 && size-held >= 0:
					ln = size - held // exactly the free space
				case y == 2:
					ln = size - held + 1
				case y == 3:
					ln = size + r.Range(0, 3) // larger than / equal to the buffer
				case y == 4:
					ln = r.Range(size, 2*size+2)
				default:
					ln = r.Range(1, size/2+1)
				}
				if ln < 0 {
					ln = 0
				}
				ops = append(ops, c12op{kind: 0, bs: c12randBytes(r, ln)})
				if ln > size-held {
					held = 0
				}
				if ln <= size-held {
					held += ln
				}
			case x < wcut+10:
				ops = append(ops, c12S)
				held = 0
			case x < wcut+18:
				ops = append(ops, c12T)
			default:
				if style == 1 || r.Chance(30) {
					ops = append(ops, c12X)
				} else {
					ops = append(ops, c12S)
				}
				held = 0
			}
		}
		var outs []c12out
		if style == 2 || style == 4 {
			no := r.Range(1, 12)
			for j := 0; j < no; j++ {
				switch y := r.Intn(10); {
				case y < 6:
					outs = append(outs, c12out{short: -1})
				case y == 6:
					outs = append(outs, c12out{short: -1, err: true})
				case y == 7:
					outs = append(outs, c12out{short: r.Intn(size + 1), err: true})
				default:
					outs = append(outs, c12out{short: r.Range(1, size+1), err: false}) // never (0, nil): bufio would spin
				}
			}
		}
		mode := 0
		if style >= 3 {
			mode = 1
		}
		c12emit(c, size, ops, outs, mode, fmt.Sprintf("rand%d", style))
	}
	// ---- 4b. random lifecycle histories: a prefix of Stop/Sync/tick before the first Write in most of
	// them, then Write/Sync/tick/Stop in equal shares; every size rule; a failing sink in 1/3
	NL := 1500
	if c.Thorough {
		NL = 30000
	}
	for i := 0; i < NL; i++ {
		size := r.Range(1, 16)
		switch r.Intn(8) {
		case 0:
			size = 0
		case 1:
			size = -r.Range(1, 9)
		}
		var ops []c12op
		if r.Chance(75) {
			for j, n := 0, r.Range(1, 4); j < n; j++ {
				ops = append(ops, []c12op{c12X, c12X, c12S, c12T}[r.Intn(4)])
			}
		}
		nops := r.Range(2, 14)
		if c.Thorough && r.Chance(10) {
			nops = r.Range(14, 60)
		}
		for j := 0; j < nops; j++ {
			switch r.Intn(4) {
			case 0:
				es := size
				if es <= 0 {
					es = 8
				}
				ops = append(ops, c12op{kind: 0, bs: c12randBytes(r, r.Range(0, es+2))})
			case 1:
				ops = append(ops, c12S)
			case 2:
				ops = append(ops, c12T)
			default:
				ops = append(ops, c12X)
			}
		}
		var outs []c12out
		if r.Chance(33) {
			for j, n := 0, r.Range(1, 10); j < n; j++ {
				switch y := r.Intn(6); {
				case y < 2:
					outs = append(outs, c12out{short: -1})
				case y < 4:
					outs = append(outs, c12out{short: -1, err: true})
				case y == 4:
					outs = append(outs, c12out{short: r.Intn(3), err: true})
				default:
					outs = append(outs, c12out{short: r.Range(1, 4), err: false}) // never (0, nil)
				}
			}
		}
		c12emit(c, size, ops, outs, 0, "rand-life")
	}
	// ---- 5. concurrent liveness runs: writers, syncers, ticks and stoppers; must finish, must not leak
	runs := 300
	if c.Thorough {
		runs = 3000
	}
	c12stress(c, r, runs)
	// ---- 6. (thorough) kill -9 a child writing lines through a BufferedWriteSyncer to a file
	if c.Thorough {
		c12kills(c, r, 200)
	}
	// all flush goroutines gone
	deadline := time.Now().Add(5 * time.Second)
	for runtime.NumGoroutine() > base+2 && time.Now().Before(deadline) {
		time.Sleep(time.Millisecond)
	}
	if n := runtime.NumGoroutine(); n > base+2 || c12loopPresent() {
		c12viol(c, fmt.Sprintf("goroutines leaked after all syncers were stopped: %d at start, %d now", base, n), L())
	}
	for _, p := range c12takePanics() {
		c12viol(c, "panic escaped from a helper goroutine (calibration / concurrent run): "+p, L())
	}
	c12info(c, "goroutines_start", strconv.Itoa(base))
	c12info(c, "goroutines_end", strconv.Itoa(runtime.NumGoroutine()))
}

// Concurrent mix on one syncer.  The sink checks (a) mutual exclusion of its calls, and the
// recorded sink writes are checked against the whole-line rule directly: every writer writes
// complete lines "<id>:<seq>\n", so every sink write must be a sequence of complete lines, per
// writer in order, nothing lost after the final Stop.
type c12csink struct {
	in     int32
	mu     sync.Mutex
	writes [][]byte
	bad    string
}

func (s *c12csink) Write(p []byte) (int, error) {
	s.mu.Lock()
	s.in++
	if s.in != 1 {
		s.bad = "sink.Write entered concurrently"
	}
	s.writes = append(s.writes, append([]byte(nil), p...))
	s.in--
	s.mu.Unlock()
	return len(p), nil
}
func (s *c12csink) Sync() error { return nil }

func c12stress(c *Ctx, r *RNG, runs int) {
	for k := 0; k < runs; k++ {
		size := r.Range(4, 48)
		nw, ns, nstop := r.Range(1, 4), r.Range(0, 2), r.Range(1, 3)
		per := r.Range(5, 40)
		sink := &c12csink{}
		clk := &c12clock{ch: make(chan time.Time)}
		ws := &zapcore.BufferedWriteSyncer{WS: sink, Size: size, FlushInterval: time.Hour, Clock: clk}
		pr := c12newProbe()
		// in a third of the runs the syncer is stopped (once or twice) before anybody has used it
		pre := 0
		if r.Chance(33) {
			pre = r.Range(1, 2)
		}
		desc := L(Str("stress"), I(size), I(nw), I(ns), I(nstop), I(per), U(c.Seed), I(k), I(pre))
		if pre > 0 && !c12within(10*time.Second, func() {
			for i := 0; i < pre; i++ {
				ws.Stop()
			}
		}) {
			c12viol(c, "Stop on a syncer that has not been used did not return within 10s (deadlock)", desc)
			return
		}
		var wg sync.WaitGroup
		quit := make(chan struct{})
		lens := make([]int, nw)
		for i := 0; i < nw; i++ {
			wg.Add(1)
			lens[i] = r.Range(0, 6)
			go func(id, pad int) {
				defer wg.Done()
				defer c12guard()
				for j := 0; j < per; j++ {
					line := []byte(fmt.Sprintf("%d:%d:%s\n", id, j, bytes.Repeat([]byte{'x'}, pad)))
					ws.Write(line)
				}
			}(i, lens[i])
		}
		for i := 0; i < ns; i++ {
			wg.Add(1)
			go func() {
				defer wg.Done()
				defer c12guard()
				for j := 0; j < per/2; j++ {
					ws.Sync()
					runtime.Gosched()
				}
			}()
		}
		// ticker: sends while anybody listens
		tdone := make(chan struct{})
		go func() {
			defer close(tdone)
			for {
				select {
				case clk.ch <- time.Time{}:
				case <-quit:
					return
				}
			}
		}()
		early := r.Chance(50)
		for i := 0; i < nstop; i++ {
			wg.Add(1)
			go func() {
				defer wg.Done()
				defer c12guard()
				if !early {
					time.Sleep(time.Duration(50) * time.Microsecond)
				}
				ws.Stop()
			}()
		}
		fin := make(chan struct{})
		go func() { wg.Wait(); close(fin) }()
		select {
		case <-fin:
		case <-time.After(30 * time.Second):
			c12viol(c, "concurrent Write/Sync/Stop/tick mix did not finish within 30s (deadlock)", desc)
			close(quit)
			return
		}
		// a final write + Stop sequence from this goroutine, then everything must be in the sink
		if !c12within(10*time.Second, func() {
			ws.Write([]byte("end:0:\n"))
			ws.Stop()
			ws.Sync()
		}) {
			c12viol(c, "Write; Stop; Sync after a concurrent Write/Sync/Stop/tick mix did not return within 10s (deadlock)", desc)
			close(quit)
			return
		}
		close(quit)
		<-tdone
		if pr.afterStop(nil, nil) {
			c12viol(c, "flushLoop goroutine still running after Stop returned (concurrent run)", desc)
			c12reap(ws, pr)
		}
		if sink.bad != "" {
			c12viol(c, sink.bad, desc)
		}
		for _, p := range c12takePanics() {
			c12viol(c, "panic escaped during a concurrent run: "+p, desc)
		}
		// whole-line rule + per-writer order + nothing lost
		next := make(map[string]int)
		total := 0
		for _, wr := range sink.writes {
			if len(wr) == 0 || wr[len(wr)-1] != '\n' {
				c12viol(c, fmt.Sprintf("sink write is not a sequence of whole lines: %q", wr), desc)
				break
			}
			for _, ln := range bytes.Split(wr[:len(wr)-1], []byte{'\n'}) {
				f := bytes.SplitN(ln, []byte{':'}, 3)
				if len(f) != 3 {
					c12viol(c, fmt.Sprintf("torn line in sink write %q", wr), desc)
					break
				}
				seq, _ := strconv.Atoi(string(f[1]))
				if next[string(f[0])] != seq {
					c12viol(c, fmt.Sprintf("writer %s: line %d arrived where %d was expected", f[0], seq, next[string(f[0])]), desc)
				}
				next[string(f[0])] = seq + 1
				total++
			}
		}
		if total != nw*per+1 {
			c12viol(c, fmt.Sprintf("after the final Stop+Sync the sink holds %d lines, %d were written", total, nw*per+1), desc)
		}
	}
	c12info(c, "stress_runs", strconv.Itoa(runs))
}

// child mode: VERIF_C12_CHILD=<file> <size>: write numbered lines for ever through a BufferedWriteSyncer
func init() {
	if path := os.Getenv("VERIF_C12_CHILD"); path != "" {
		size, _ := strconv.Atoi(os.Getenv("VERIF_C12_SIZE"))
		f, err := os.OpenFile(path, os.O_CREATE|os.O_WRONLY|os.O_APPEND, 0o644)
		if err != nil {
			os.Exit(3)
		}
		ack, _ := os.OpenFile(path+".ack", os.O_CREATE|os.O_WRONLY|os.O_TRUNC, 0o644)
		ws := &zapcore.BufferedWriteSyncer{WS: f, Size: size, FlushInterval: time.Millisecond}
		for i := 0; ; i++ {
			fmt.Fprintf(ws, "line-%08d-%s\n", i, bytes.Repeat([]byte{'y'}, i%23))
			if i%97 == 96 {
				if ws.Sync() == nil {
					// acknowledged: everything up to line i is in the file
					ack.WriteAt([]byte(fmt.Sprintf("%012d", i)), 0)
				}
			}
		}
	}
}

func c12kills(c *Ctx, r *RNG, n int) {
	self, err := os.Executable()
	if err != nil {
		c12info(c, "kills", "skipped: "+err.Error())
		return
	}
	dir, _ := os.MkdirTemp("", "c12kill")
	defer os.RemoveAll(dir)
	totalLines, totalAcked, nonEmpty, tornTail := 0, 0, 0, 0
	for k := 0; k < n; k++ {
		path := fmt.Sprintf("%s/out%d.log", dir, k)
		size := r.Range(16, 4096)
		cmd := exec.Command(self, "C12")
		cmd.Env = append(os.Environ(), "VERIF_C12_CHILD="+path, "VERIF_C12_SIZE="+strconv.Itoa(size))
		if err := cmd.Start(); err != nil {
			c12info(c, "kills", "skipped: "+err.Error())
			return
		}
		time.Sleep(time.Duration(r.Range(2000, 30000)) * time.Microsecond)
		cmd.Process.Signal(syscall.SIGKILL)
		cmd.Wait()
		data, _ := os.ReadFile(path)
		ackb, _ := os.ReadFile(path + ".ack")
		acked := -1
		if len(ackb) == 12 {
			acked, _ = strconv.Atoi(string(ackb))
		}
		desc := L(Str("kill"), I(size), I(k), U(c.Seed))
		// whole-write-aligned prefix of the stream: every line complete, numbered 0..m-1
		lines := bytes.SplitAfter(data, []byte{'\n'})
		if len(lines) > 0 && len(lines[len(lines)-1]) == 0 {
			lines = lines[:len(lines)-1]
		}
		for i, ln := range lines {
			want := fmt.Sprintf("line-%08d-%s\n", i, bytes.Repeat([]byte{'y'}, i%23))
			if string(ln) != want {
				// SIGKILL can interrupt the kernel in the middle of ONE write(2) (generic_perform_write checks
				// for fatal signals between pages), so the last sink write may be torn by the OS: a proper prefix
				// of the expected line at the very end of the file is outside the model (DESIGN: C12 partial) and
				// is counted, not reported. A wrong or torn line anywhere else is a violation.
				if i == len(lines)-1 && len(ln) < len(want) && want[:len(ln)] == string(ln) {
					tornTail++
					lines = lines[:i]
					break
				}
				c12viol(c, fmt.Sprintf("file after SIGKILL is not a whole-line prefix: line %d is %q", i, ln), desc)
				break
			}
		}
		if acked >= 0 && len(lines) < acked+1 {
			c12viol(c, fmt.Sprintf("file after SIGKILL holds %d lines but Sync acknowledged line %d", len(lines), acked), desc)
		}
		totalLines += len(lines)
		if acked >= 0 {
			totalAcked++
		}
		if len(lines) > 0 {
			nonEmpty++
		}
		os.Remove(path)
		os.Remove(path + ".ack")
	}
	c12info(c, "kills", strconv.Itoa(n))
	c12info(c, "kill_os_torn_last_write", strconv.Itoa(tornTail))
	c12info(c, "kill_files_nonempty", strconv.Itoa(nonEmpty))
	c12info(c, "kill_files_with_ack", strconv.Itoa(totalAcked))
	c12info(c, "kill_lines_checked", strconv.Itoa(totalLines))
}

func init() { registry["C12"] = c12 }

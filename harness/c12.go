package main

import (
	"bufio"
	"bytes"
	"errors"
	"fmt"
	"io"
	"os"
	"os/exec"
	"runtime"
	"strconv"
	"sync"
	"syscall"
	"time"

	"go.uber.org/zap/zapcore"
)

// C12: zapcore.BufferedWriteSyncer over a recording sink with a scripted outcome per call,
// and a fake ticker (a Clock whose NewTicker returns &time.Ticker{C: ch}).
// input  = (size (op ...) (outcome ...) mode)   op = (0 #bytes) Write | (1) Sync | (2) tick | (3) Stop
//          outcome = (short err): short = -1 takes everything; mode 1 = raw bufio.Writer
// output = (((res (ev ...)) ...) alive)   res = (0 n e) | (1 e) | (2 delivered) | (3 e)
//          ev = (0 #p n) sink.Write(p) returned n | (1) sink.Sync()

type c12out struct {
	short int // -1 = everything
	err   bool
}
type c12ev struct {
	sync bool
	p    []byte
	n    int
}
type c12op struct {
	kind int
	bs   []byte
}

var (
	errC12Write = errors.New("c12: sink write failed")
	errC12Sync  = errors.New("c12: sink sync failed")
)

type c12sink struct {
	mu    sync.Mutex
	outs  []c12out
	evs   []c12ev
	syncs int
}

func (s *c12sink) pop() c12out {
	if len(s.outs) == 0 {
		return c12out{short: -1}
	}
	o := s.outs[0]
	s.outs = s.outs[1:]
	return o
}
func (s *c12sink) Write(p []byte) (int, error) {
	s.mu.Lock()
	defer s.mu.Unlock()
	o := s.pop()
	n := len(p)
	if o.short >= 0 && o.short < n {
		n = o.short
	}
	s.evs = append(s.evs, c12ev{p: append([]byte(nil), p...), n: n})
	if o.err {
		return n, errC12Write
	}
	return n, nil
}
func (s *c12sink) Sync() error {
	s.mu.Lock()
	defer s.mu.Unlock()
	o := s.pop()
	s.evs = append(s.evs, c12ev{sync: true})
	s.syncs++
	if o.err {
		return errC12Sync
	}
	return nil
}
func (s *c12sink) nev() int    { s.mu.Lock(); defer s.mu.Unlock(); return len(s.evs) }
func (s *c12sink) nsyncs() int { s.mu.Lock(); defer s.mu.Unlock(); return s.syncs }
func (s *c12sink) slice(a, b int) []c12ev {
	s.mu.Lock()
	defer s.mu.Unlock()
	return append([]c12ev(nil), s.evs[a:b]...)
}

type c12clock struct {
	ch   chan time.Time
	made int
}

func (c *c12clock) Now() time.Time { return time.Now() }
func (c *c12clock) NewTicker(time.Duration) *time.Ticker {
	c.made++
	return &time.Ticker{C: c.ch}
}

var c12stackBuf = make([]byte, 1<<20)
var c12tickBroken bool
var c12hangs int

// is any flushLoop goroutine of a BufferedWriteSyncer present in this process?
func c12loopPresent() bool {
	n := runtime.Stack(c12stackBuf, true)
	b := c12stackBuf[:n]
	// a goroutine that has not run yet is listed as "...initialize.gowrap1", afterwards as
	// "...flushLoop"; both carry "created by ...(*BufferedWriteSyncer).initialize"
	return bytes.Contains(b, []byte("BufferedWriteSyncer).flushLoop")) ||
		bytes.Contains(b, []byte("BufferedWriteSyncer).initialize.gowrap")) ||
		bytes.Contains(b, []byte("created by go.uber.org/zap/zapcore.(*BufferedWriteSyncer)"))
}

func c12errClass(err error) int {
	c := 0
	if err == nil {
		return 0
	}
	// multierr's combined error exposes its parts through Errors() []error
	parts := []error{err}
	if g, ok := err.(interface{ Errors() []error }); ok {
		parts = g.Errors()
	}
	for _, e := range parts {
		switch {
		case errors.Is(e, errC12Write):
			c += 1
		case errors.Is(e, io.ErrShortWrite):
			c += 2
		case errors.Is(e, errC12Sync):
			c += 4
		default:
			c += 64
		}
	}
	return c
}

type c12res struct {
	kind int
	a, b int
	evs  []c12ev
}

// send one tick to a live flush loop and wait until the sink has seen its Sync.
// Returns delivered=false when no flush loop exists (any more).
func c12tick(clk *c12clock, sink *c12sink, viol func(string)) bool {
	if clk.made == 0 || !c12loopPresent() {
		return false
	}
	before := sink.nsyncs()
	limit := 8 * time.Second
	if c12tickBroken {
		limit = 5 * time.Millisecond // already reported once: do not spend 8s on every further tick
	}
	deadline := time.Now().Add(limit)
	for {
		t := time.NewTimer(20 * time.Millisecond)
		select {
		case clk.ch <- time.Time{}:
			t.Stop()
			for sink.nsyncs() == before {
				if time.Now().After(deadline) {
					viol("tick received by the flush loop but the sink saw no Sync within 8s")
					c12tickBroken = true
					return true
				}
				time.Sleep(20 * time.Microsecond)
			}
			return true
		case <-t.C:
			if !c12loopPresent() {
				return false
			}
			if time.Now().After(deadline) {
				viol("flush loop goroutine present but not receiving ticks for 8s")
				c12tickBroken = true
				return false
			}
		}
	}
}

func c12runBWS(size int, ops []c12op, outs []c12out, viol func(string)) (rs []c12res, alive bool) {
	sink := &c12sink{outs: append([]c12out(nil), outs...)}
	clk := &c12clock{ch: make(chan time.Time)}
	ws := &zapcore.BufferedWriteSyncer{WS: sink, Size: size, FlushInterval: time.Hour, Clock: clk}
	for _, o := range ops {
		e0 := sink.nev()
		var r c12res
		r.kind = o.kind
		switch o.kind {
		case 0:
			n, err := ws.Write(o.bs)
			r.a, r.b = n, c12errClass(err)
		case 1:
			r.a = c12errClass(ws.Sync())
		case 2:
			if c12tick(clk, sink, viol) {
				// the loop's Sync returns (and unlocks) right after the sink's Sync; the next
				// operation takes the same mutex, so its events cannot overtake these
				r.a = 1
			}
		case 3:
			r.a = c12errClass(ws.Stop())
			if clk.made > 0 {
				select {
				case clk.ch <- time.Time{}:
					viol("a tick was received by the flush loop after Stop returned")
				default:
				}
			}
		}
		r.evs = sink.slice(e0, sink.nev())
		rs = append(rs, r)
	}
	// liveness of the flush goroutine at the end of the history
	if clk.made > 0 && c12loopPresent() {
		alive = c12tick(clk, sink, viol)
	}
	// clean up, and check that Stop really ends the goroutine
	ws.Stop()
	if clk.made > 0 {
		deadline := time.Now().Add(5 * time.Second)
		for c12loopPresent() {
			if time.Now().After(deadline) {
				viol("flushLoop goroutine still running 5s after Stop returned")
				break
			}
			time.Sleep(50 * time.Microsecond)
		}
	}
	return
}

// raw bufio.Writer over the same sink: Write = Write, everything else = Flush
func c12runBufio(size int, ops []c12op, outs []c12out) (rs []c12res) {
	sink := &c12sink{outs: append([]c12out(nil), outs...)}
	w := bufio.NewWriterSize(sink, size)
	for _, o := range ops {
		e0 := sink.nev()
		var r c12res
		if o.kind == 0 {
			n, err := w.Write(o.bs)
			r.kind, r.a, r.b = 0, n, c12errClass(err)
		} else {
			r.kind, r.a = 1, c12errClass(w.Flush())
		}
		r.evs = sink.slice(e0, sink.nev())
		rs = append(rs, r)
	}
	return
}

func c12caseSX(size int, ops []c12op, outs []c12out, mode int) SX {
	xs := make([]SX, len(ops))
	for i, o := range ops {
		if o.kind == 0 {
			xs[i] = L(I(0), B(o.bs))
		} else {
			xs[i] = L(I(o.kind))
		}
	}
	os_ := make([]SX, len(outs))
	for i, o := range outs {
		os_[i] = L(I(o.short), Bool(o.err))
	}
	return L(I(size), L(xs...), L(os_...), I(mode))
}

func c12obsSX(rs []c12res, alive bool) SX {
	xs := make([]SX, len(rs))
	for i, r := range rs {
		var rx SX
		switch r.kind {
		case 0:
			rx = L(I(0), I(r.a), I(r.b))
		default:
			rx = L(I(r.kind), I(r.a))
		}
		es := make([]SX, len(r.evs))
		for j, e := range r.evs {
			if e.sync {
				es[j] = L(I(1))
			} else {
				es[j] = L(I(0), B(e.p), I(e.n))
			}
		}
		xs[i] = L(rx, L(es...))
	}
	return L(L(xs...), Bool(alive))
}

// one case, run under a watchdog (a deadlock in the implementation must not hang the check)
func c12emit(c *Ctx, size int, ops []c12op, outs []c12out, mode int, class string) {
	in := c12caseSX(size, ops, outs, mode)
	type result struct {
		rs    []c12res
		alive bool
	}
	done := make(chan result, 1)
	var vmu sync.Mutex
	var viols []string
	viol := func(s string) { vmu.Lock(); viols = append(viols, s); vmu.Unlock() }
	go func() {
		if mode == 1 {
			done <- result{rs: c12runBufio(size, ops, outs)}
			return
		}
		rs, alive := c12runBWS(size, ops, outs, viol)
		done <- result{rs, alive}
	}()
	if c12hangs >= 3 {
		return // repeated hangs already reported: do not wait for every remaining case
	}
	limit := 60 * time.Second
	if c12hangs > 0 {
		limit = 3 * time.Second
	}
	var res result
	select {
	case res = <-done:
	case <-time.After(limit):
		c12hangs++
		c12viol(c, "operation sequence did not complete within its time limit (60s, then 3s): deadlock", in)
		return
	}
	vmu.Lock()
	for _, v := range viols {
		c12viol(c, v, in)
	}
	vmu.Unlock()
	nw, big, exact, empty, pre, post := 0, 0, 0, 0, 0, 0
	seenStop := false
	held := 0
	for _, o := range ops {
		switch o.kind {
		case 0:
			nw++
			if len(o.bs) == 0 {
				empty++
			}
			if size > 0 && len(o.bs) > size {
				big++
			}
			if size > 0 && held > 0 && len(o.bs) == size-held {
				exact++
			}
			if size > 0 && held > 0 && len(o.bs) > size-held {
				pre++
				held = 0
			}
			if size > 0 && len(o.bs) <= size-held {
				held += len(o.bs)
			}
			if seenStop {
				post++
			}
		case 3:
			seenStop = true
			held = 0
		default:
			held = 0
		}
	}
	nt := "0"
	if nw >= 2 && len(ops) >= 3 && (pre > 0 || big > 0 || len(outs) > 0) {
		nt = "1"
	}
	flt := "0"
	for _, o := range outs {
		if o.err || o.short >= 0 {
			flt = "1"
		}
	}
	c.Emit(in, c12obsSX(res.rs, res.alive), map[string]string{"nt": nt, "class": class,
		"ops": fmt.Sprint(len(ops)), "big": fmt.Sprint(big), "exact": fmt.Sprint(exact), "empty": fmt.Sprint(empty),
		"preflush": fmt.Sprint(pre), "afterstop": fmt.Sprint(post), "faulty": flt})
}

// Side-channel lines are collected and written after the last case: the driver produces one
// verdict per line of the case file and the runner pairs verdicts with cases by position.
var c12side []func(*Ctx)

var c12violCount = map[string]int{}

func c12viol(c *Ctx, what string, replay SX) {
	c12violCount[what]++
	if c12violCount[what] > 3 { // the first three inputs per kind of violation are enough
		return
	}
	c12side = append(c12side, func(c *Ctx) { c.Viol(what, replay) })
}
func c12info(c *Ctx, k, v string) { c12side = append(c12side, func(c *Ctx) { c.Info(k, v) }) }

func c12w(s string) c12op { return c12op{kind: 0, bs: []byte(s)} }

var (
	c12S = c12op{kind: 1}
	c12T = c12op{kind: 2}
	c12X = c12op{kind: 3}
)

func c12randBytes(r *RNG, n int) []byte {
	out := make([]byte, n)
	for i := range out {
		out[i] = byte('a' + r.Intn(26))
	}
	if n > 0 && r.Chance(70) {
		out[n-1] = '\n'
	}
	return out
}

func c12(c *Ctx) {
	defer func() {
		for _, f := range c12side {
			f(c)
		}
	}()
	r := NewRNG(c.Seed)
	base := runtime.NumGoroutine()
	// ---- 1. directed corner cases
	directed := []struct {
		size int
		ops  []c12op
		outs []c12out
	}{
		{4, []c12op{c12w("abc"), c12w("de"), c12S}, nil},                                // pre-flush: must not split "de"
		{4, []c12op{c12w("abc"), c12w("d"), c12w("e"), c12X}, nil},                      // exactly the free space
		{4, []c12op{c12w("abcdefgh"), c12w(""), c12w("ab"), c12w("abcdef"), c12S}, nil}, // larger than the buffer
		{4, []c12op{c12w("ab"), c12X, c12w("cd"), c12X}, nil},                           // write after Stop, Stop again
		{4, []c12op{c12w("ab"), c12X, c12w("cd"), c12w("efghij"), c12T, c12X, c12S}, nil},
		{4, []c12op{c12X, c12X, c12S, c12T, c12w("ab"), c12T, c12X, c12X}, nil}, // Stop before any use
		{4, []c12op{c12S, c12w("ab"), c12T, c12w("cd"), c12T, c12T}, nil},       // ticks
		{1, []c12op{c12w("a"), c12w("b"), c12w(""), c12w("cd"), c12X}, nil},
		{0, []c12op{c12w("abc"), c12w(string(make([]byte, 5000))), c12S, c12X}, nil},                              // default size 256 KiB
		{-1, []c12op{c12w("abc"), c12w(string(make([]byte, 5000))), c12w("x"), c12X}, nil},                        // bufio default 4096
		{0, []c12op{c12w(string(make([]byte, 200000))), c12w(string(make([]byte, 62144))), c12w("x"), c12S}, nil}, // exactly 256 KiB, then one more
		{-7, []c12op{c12w(string(make([]byte, 4000))), c12w(string(make([]byte, 96))), c12w("x"), c12S}, nil},     // exactly 4096, then one more
		{4, []c12op{c12w("abc"), c12w("de"), c12S, c12w("f"), c12X}, []c12out{{-1, true}}},                        // flush error is sticky
		{4, []c12op{c12w("abc"), c12w("de"), c12S, c12w("f"), c12X}, []c12out{{1, false}}},                        // short write
		{4, []c12op{c12w("abcdefg"), c12w("hi"), c12S}, []c12out{{3, false}}},                                     // short direct write continues
		{4, []c12op{c12w("ab"), c12S, c12X, c12X}, []c12out{{-1, false}, {-1, true}, {-1, true}, {-1, true}}},     // sync errors
		{4, []c12op{c12w("ab"), c12X, c12X}, []c12out{{-1, true}}},                                                // zap's own "stop twice"
	}
	for _, d := range directed {
		c12emit(c, d.size, d.ops, d.outs, 0, "directed")
		c12emit(c, d.size, d.ops, d.outs, 1, "directed-bufio")
	}
	// ---- 2. exhaustive small histories: size 3, ops over {W"", W1, W2, W4, Sync, Tick, Stop}, length <= L
	Lmax := 4
	if c.Thorough {
		Lmax = 6
	}
	alpha := []c12op{c12w(""), c12w("a"), c12w("bc"), c12w("defg"), c12S, c12T, c12X}
	var rec func(prefix []c12op)
	rec = func(prefix []c12op) {
		if len(prefix) > 0 {
			c12emit(c, 3, prefix, nil, 0, "exh")
		}
		if len(prefix) < Lmax {
			for _, a := range alpha {
				rec(append(append([]c12op(nil), prefix...), a))
			}
		}
	}
	rec(nil)
	// ---- 3. fault enumeration: fixed history, every position x every kind of failure
	fh := []c12op{c12w("ab"), c12w("cde"), c12w("fghijk"), c12S, c12w("l"), c12T, c12w("mn"), c12X, c12w("o"), c12X}
	for pos := 0; pos < 10; pos++ {
		for _, f := range []c12out{{-1, true}, {0, true}, {1, true}, {1, false}, {2, false}, {0, false}} {
			outs := make([]c12out, pos+1)
			for i := range outs {
				outs[i] = c12out{short: -1}
			}
			outs[pos] = f
			c12emit(c, 4, fh, outs, 0, "fault-enum")
			c12emit(c, 4, fh, outs, 1, "fault-enum-bufio")
		}
	}
	// ---- 4. random histories
	N := 4000
	if c.Thorough {
		N = 60000
	}
	for i := 0; i < N; i++ {
		size := r.Range(1, 64)
		if r.Chance(30) {
			size = r.Range(1, 8)
		}
		nops := r.Range(1, 40)
		if c.Thorough && r.Chance(10) {
			nops = r.Range(40, 200)
		}
		style := r.Intn(5) // 0 plain, 1 lifecycle-heavy, 2 faulty, 3 bufio reliable, 4 bufio faulty
		held := 0
		var ops []c12op
		for j := 0; j < nops; j++ {
			x := r.Intn(100)
			wcut := 75
			if style == 1 {
				wcut = 50
			}
			switch {
			case x < wcut:
				var ln int
				switch y := r.Intn(10); {
				case y == 0:
					ln = 0
				case y == 1 && size-held >= 0:
					ln = size - held // exactly the free space
				case y == 2:
					ln = size - held + 1
				case y == 3:
					ln = size + r.Range(0, 3) // larger than / equal to the buffer
				case y == 4:
					ln = r.Range(size, 2*size+2)
				default:
					ln = r.Range(1, size/2+1)
				}
				if ln < 0 {
					ln = 0
				}
				ops = append(ops, c12op{kind: 0, bs: c12randBytes(r, ln)})
				if ln > size-held {
					held = 0
				}
				if ln <= size-held {
					held += ln
				}
			case x < wcut+10:
				ops = append(ops, c12S)
				held = 0
			case x < wcut+18:
				ops = append(ops, c12T)
			default:
				if style == 1 || r.Chance(30) {
					ops = append(ops, c12X)
				} else {
					ops = append(ops, c12S)
				}
				held = 0
			}
		}
		var outs []c12out
		if style == 2 || style == 4 {
			no := r.Range(1, 12)
			for j := 0; j < no; j++ {
				switch y := r.Intn(10); {
				case y < 6:
					outs = append(outs, c12out{short: -1})
				case y == 6:
					outs = append(outs, c12out{short: -1, err: true})
				case y == 7:
					outs = append(outs, c12out{short: r.Intn(size + 1), err: true})
				default:
					outs = append(outs, c12out{short: r.Range(1, size+1), err: false}) // never (0, nil): bufio would spin
				}
			}
		}
		mode := 0
		if style >= 3 {
			mode = 1
		}
		c12emit(c, size, ops, outs, mode, fmt.Sprintf("rand%d", style))
	}
	// ---- 5. concurrent liveness runs: writers, syncers, ticks and stoppers; must finish, must not leak
	runs := 300
	if c.Thorough {
		runs = 3000
	}
	c12stress(c, r, runs)
	// ---- 6. (thorough) kill -9 a child writing lines through a BufferedWriteSyncer to a file
	if c.Thorough {
		c12kills(c, r, 200)
	}
	// all flush goroutines gone
	deadline := time.Now().Add(5 * time.Second)
	for runtime.NumGoroutine() > base+2 && time.Now().Before(deadline) {
		time.Sleep(time.Millisecond)
	}
	if n := runtime.NumGoroutine(); n > base+2 || c12loopPresent() {
		c12viol(c, fmt.Sprintf("goroutines leaked after all syncers were stopped: %d at start, %d now", base, n), L())
	}
	c12info(c, "goroutines_start", strconv.Itoa(base))
	c12info(c, "goroutines_end", strconv.Itoa(runtime.NumGoroutine()))
}

// Concurrent mix on one syncer.  The sink checks (a) mutual exclusion of its calls, and the
// recorded sink writes are checked against the whole-line rule directly: every writer writes
// complete lines "<id>:<seq>\n", so every sink write must be a sequence of complete lines, per
// writer in order, nothing lost after the final Stop.
type c12csink struct {
	in     int32
	mu     sync.Mutex
	writes [][]byte
	bad    string
}

func (s *c12csink) Write(p []byte) (int, error) {
	s.mu.Lock()
	s.in++
	if s.in != 1 {
		s.bad = "sink.Write entered concurrently"
	}
	s.writes = append(s.writes, append([]byte(nil), p...))
	s.in--
	s.mu.Unlock()
	return len(p), nil
}
func (s *c12csink) Sync() error { return nil }

func c12stress(c *Ctx, r *RNG, runs int) {
	for k := 0; k < runs; k++ {
		size := r.Range(4, 48)
		nw, ns, nstop := r.Range(1, 4), r.Range(0, 2), r.Range(1, 3)
		per := r.Range(5, 40)
		sink := &c12csink{}
		clk := &c12clock{ch: make(chan time.Time)}
		ws := &zapcore.BufferedWriteSyncer{WS: sink, Size: size, FlushInterval: time.Hour, Clock: clk}
		desc := L(Str("stress"), I(size), I(nw), I(ns), I(nstop), I(per), U(c.Seed), I(k))
		var wg sync.WaitGroup
		quit := make(chan struct{})
		lens := make([]int, nw)
		for i := 0; i < nw; i++ {
			wg.Add(1)
			lens[i] = r.Range(0, 6)
			go func(id, pad int) {
				defer wg.Done()
				for j := 0; j < per; j++ {
					line := []byte(fmt.Sprintf("%d:%d:%s\n", id, j, bytes.Repeat([]byte{'x'}, pad)))
					ws.Write(line)
				}
			}(i, lens[i])
		}
		for i := 0; i < ns; i++ {
			wg.Add(1)
			go func() {
				defer wg.Done()
				for j := 0; j < per/2; j++ {
					ws.Sync()
					runtime.Gosched()
				}
			}()
		}
		// ticker: sends while anybody listens
		tdone := make(chan struct{})
		go func() {
			defer close(tdone)
			for {
				select {
				case clk.ch <- time.Time{}:
				case <-quit:
					return
				}
			}
		}()
		early := r.Chance(50)
		for i := 0; i < nstop; i++ {
			wg.Add(1)
			go func() {
				defer wg.Done()
				if !early {
					time.Sleep(time.Duration(50) * time.Microsecond)
				}
				ws.Stop()
			}()
		}
		fin := make(chan struct{})
		go func() { wg.Wait(); close(fin) }()
		select {
		case <-fin:
		case <-time.After(30 * time.Second):
			c12viol(c, "concurrent Write/Sync/Stop/tick mix did not finish within 30s (deadlock)", desc)
			close(quit)
			return
		}
		// a final write + Stop sequence from this goroutine, then everything must be in the sink
		ws.Write([]byte("end:0:\n"))
		ws.Stop()
		ws.Sync()
		close(quit)
		<-tdone
		if clk.made > 0 {
			deadline := time.Now().Add(5 * time.Second)
			for c12loopPresent() && time.Now().Before(deadline) {
				time.Sleep(50 * time.Microsecond)
			}
			if c12loopPresent() {
				c12viol(c, "flushLoop goroutine still running after Stop returned (concurrent run)", desc)
			}
		}
		if sink.bad != "" {
			c12viol(c, sink.bad, desc)
		}
		// whole-line rule + per-writer order + nothing lost
		next := make(map[string]int)
		total := 0
		for _, wr := range sink.writes {
			if len(wr) == 0 || wr[len(wr)-1] != '\n' {
				c12viol(c, fmt.Sprintf("sink write is not a sequence of whole lines: %q", wr), desc)
				break
			}
			for _, ln := range bytes.Split(wr[:len(wr)-1], []byte{'\n'}) {
				f := bytes.SplitN(ln, []byte{':'}, 3)
				if len(f) != 3 {
					c12viol(c, fmt.Sprintf("torn line in sink write %q", wr), desc)
					break
				}
				seq, _ := strconv.Atoi(string(f[1]))
				if next[string(f[0])] != seq {
					c12viol(c, fmt.Sprintf("writer %s: line %d arrived where %d was expected", f[0], seq, next[string(f[0])]), desc)
				}
				next[string(f[0])] = seq + 1
				total++
			}
		}
		if total != nw*per+1 {
			c12viol(c, fmt.Sprintf("after the final Stop+Sync the sink holds %d lines, %d were written", total, nw*per+1), desc)
		}
	}
	c12info(c, "stress_runs", strconv.Itoa(runs))
}

// child mode: VERIF_C12_CHILD=<file> <size>: write numbered lines for ever through a BufferedWriteSyncer
func init() {
	if path := os.Getenv("VERIF_C12_CHILD"); path != "" {
		size, _ := strconv.Atoi(os.Getenv("VERIF_C12_SIZE"))
		f, err := os.OpenFile(path, os.O_CREATE|os.O_WRONLY|os.O_APPEND, 0o644)
		if err != nil {
			os.Exit(3)
		}
		ack, _ := os.OpenFile(path+".ack", os.O_CREATE|os.O_WRONLY|os.O_TRUNC, 0o644)
		ws := &zapcore.BufferedWriteSyncer{WS: f, Size: size, FlushInterval: time.Millisecond}
		for i := 0; ; i++ {
			fmt.Fprintf(ws, "line-%08d-%s\n", i, bytes.Repeat([]byte{'y'}, i%23))
			if i%97 == 96 {
				if ws.Sync() == nil {
					// acknowledged: everything up to line i is in the file
					ack.WriteAt([]byte(fmt.Sprintf("%012d", i)), 0)
				}
			}
		}
	}
}

func c12kills(c *Ctx, r *RNG, n int) {
	self, err := os.Executable()
	if err != nil {
		c12info(c, "kills", "skipped: "+err.Error())
		return
	}
	dir, _ := os.MkdirTemp("", "c12kill")
	defer os.RemoveAll(dir)
	totalLines, totalAcked, nonEmpty, tornTail := 0, 0, 0, 0
	for k := 0; k < n; k++ {
		path := fmt.Sprintf("%s/out%d.log", dir, k)
		size := r.Range(16, 4096)
		cmd := exec.Command(self, "C12")
		cmd.Env = append(os.Environ(), "VERIF_C12_CHILD="+path, "VERIF_C12_SIZE="+strconv.Itoa(size))
		if err := cmd.Start(); err != nil {
			c12info(c, "kills", "skipped: "+err.Error())
			return
		}
		time.Sleep(time.Duration(r.Range(2000, 30000)) * time.Microsecond)
		cmd.Process.Signal(syscall.SIGKILL)
		cmd.Wait()
		data, _ := os.ReadFile(path)
		ackb, _ := os.ReadFile(path + ".ack")
		acked := -1
		if len(ackb) == 12 {
			acked, _ = strconv.Atoi(string(ackb))
		}
		desc := L(Str("kill"), I(size), I(k), U(c.Seed))
		// whole-write-aligned prefix of the stream: every line complete, numbered 0..m-1
		lines := bytes.SplitAfter(data, []byte{'\n'})
		if len(lines) > 0 && len(lines[len(lines)-1]) == 0 {
			lines = lines[:len(lines)-1]
		}
		for i, ln := range lines {
			want := fmt.Sprintf("line-%08d-%s\n", i, bytes.Repeat([]byte{'y'}, i%23))
			if string(ln) != want {
				// SIGKILL can interrupt the kernel in the middle of ONE write(2) (generic_perform_write checks
				// for fatal signals between pages), so the last sink write may be torn by the OS: a proper prefix
				// of the expected line at the very end of the file is outside the model (DESIGN: C12 partial) and
				// is counted, not reported. A wrong or torn line anywhere else is a violation.
				if i == len(lines)-1 && len(ln) < len(want) && want[:len(ln)] == string(ln) {
					tornTail++
					lines = lines[:i]
					break
				}
				c12viol(c, fmt.Sprintf("file after SIGKILL is not a whole-line prefix: line %d is %q", i, ln), desc)
				break
			}
		}
		if acked >= 0 && len(lines) < acked+1 {
			c12viol(c, fmt.Sprintf("file after SIGKILL holds %d lines but Sync acknowledged line %d", len(lines), acked), desc)
		}
		totalLines += len(lines)
		if acked >= 0 {
			totalAcked++
		}
		if len(lines) > 0 {
			nonEmpty++
		}
		os.Remove(path)
		os.Remove(path + ".ack")
	}
	c12info(c, "kills", strconv.Itoa(n))
	c12info(c, "kill_os_torn_last_write", strconv.Itoa(tornTail))
	c12info(c, "kill_files_nonempty", strconv.Itoa(nonEmpty))
	c12info(c, "kill_files_with_ack", strconv.Itoa(totalAcked))
	c12info(c, "kill_lines_checked", strconv.Itoa(totalLines))
}

func init() { registry["C12"] = c12 }

package main

// C10 (c): sequences of full entries through trees of cores whose sinks fail.
// The leaves are real ioCores with their own JSON or console encoder over one
// EncoderConfig; the entries carry arbitrary field trees (reflected values, nested
// marshalers, faults) and are written through cores derived by a prefix of a With
// chain.  Every sink call is observed together with (a copy of) the bytes it was
// handed, so that "the remaining cores still receive the entry" is checked on the
// entry's content: a failure of one sink must not damage what its siblings, or later
// entries, deliver.  Some sinks log through an unrelated zap core while they handle
// Write (as a sink that reports its own trouble would) before they look at the bytes:
// the bytes must stay the entry for the whole call.

import (
	"bytes"
	"encoding/json"
	"fmt"
	"io"

	"go.uber.org/zap"
	"go.uber.org/zap/zapcore"
)

type seqEnt struct {
	ent    zapcore.Entry
	fields []zapcore.Field
	d      int // logged through the core derived by the first d With calls
	entx   SX
	fsx    []SX
}

func (cs *coreSpec) buildSeq(cfg *encCfg, env *c10env) zapcore.Core {
	switch cs.kind {
	case 0:
		var enc zapcore.Encoder
		if cs.con {
			enc = zapcore.NewConsoleEncoder(cfg.real())
		} else {
			enc = zapcore.NewJSONEncoder(cfg.real())
		}
		var nestFor func(id int) zapcore.Core
		if cs.nest {
			nestFor = func(id int) zapcore.Core {
				nenc := zapcore.NewJSONEncoder(zapcore.EncoderConfig{MessageKey: "m"})
				if id%2 == 1 {
					nenc = zapcore.NewConsoleEncoder(zapcore.EncoderConfig{MessageKey: "m"})
				}
				return zapcore.NewCore(nenc, zapcore.AddSync(io.Discard), zapcore.Level(-128))
			}
		}
		return zapcore.NewCore(enc, cs.leafWS().build(env, nestFor), zapcore.Level(-128))
	case 1:
		var cores []zapcore.Core
		for _, s := range cs.subs {
			cores = append(cores, s.buildSeq(cfg, env))
		}
		return zapcore.NewTee(cores...)
	default:
		return fwdCore{cs.subs[0].buildSeq(cfg, env)}
	}
}

func (cs *coreSpec) hasFault(n int) bool {
	if cs.kind == 0 {
		found := false
		cs.leafWS().walk(func(w *c10wsSpec) {
			for k, o := range w.outs {
				if k < n && o.kind != 0 {
					found = true
				}
			}
		})
		return found
	}
	for _, s := range cs.subs {
		if s.hasFault(n) {
			return true
		}
	}
	return false
}

func c10seq(c *Ctx, cfg *encCfg, ctxs [][]zapcore.Field, ctxx []SX, cs *coreSpec, ents []seqEnt, class string) {
	env := newC10env(true)
	eo := &errOut{}
	cores := []zapcore.Core{cs.buildSeq(cfg, env)}
	withPanicked := false
	for _, fs := range ctxs {
		func() {
			defer func() {
				if p := recover(); p != nil {
					withPanicked = true
					c.Viol(fmt.Sprintf("Core.With of a generated context panicked: %v", p), L(I(2), cfg.sx(), L(ctxx...), cs.sx(), L()))
				}
			}()
			cores = append(cores, cores[len(cores)-1].With(fs))
		}()
		if withPanicked {
			return
		}
	}
	var per, entx []SX
	for _, e := range ents {
		entx = append(entx, L(Bool(e.ent.Level > zapcore.ErrorLevel), I(e.d), e.entx, L(e.fsx...)))
	}
	input := L(I(2), cfg.sx(), L(ctxx...), cs.sx(), L(entx...))
	ret := 1
	for k, e := range ents {
		env.begin(k)
		eo.Reset()
		// what Logger.Check/Write do, with the generated Entry (caller, stack, any level) kept as it is;
		// under the watchdog: a call that does not return is observed as blocked
		st, pmsg := c10guard(func() {
			if ce := cores[e.d].Check(e.ent, nil); ce != nil {
				ce.ErrorOutput = eo
				ce.Write(e.fields...)
			}
		})
		if st == 2 {
			ret = 2
			c10blocked(c, fmt.Sprintf("writing entry %d of a sequence to a tree of cores did not return (blocked) after an earlier sink failure", k), input)
			per = append(per, L(L(env.snapshot()...), L(), I(0)))
			env.abandon()
			break
		}
		if st == 0 {
			ret = 0
			c.Viol(fmt.Sprintf("writing entry %d of a sequence to a tree of cores with failing sinks panicked: %v", k, pmsg), input)
		}
		msgs, nl := errOutSX(eo)
		per = append(per, L(L(env.snapshot()...), msgs, I(nl)))
	}
	syncFailed := env.syncFail // (before Stop/Close sync the sinks once more)
	if !env.cleanup() && ret == 1 {
		ret = 2
		c10blocked(c, "stopping/closing the WriteSyncers after a sequence with sink failures did not return (blocked): a combinator was left locked", input)
	}
	meta := map[string]string{"class": class, "nt": "0"}
	if cs.hasFault(len(ents)) {
		meta["nt"] = "1"
	}
	if syncFailed {
		meta["kf"] = "iocore-sync-error-ignored"
	}
	c.Emit(input, L(L(per...), I(ret)), meta)
}

type seqPayload struct {
	A int    `json:"a"`
	B string `json:"b"`
}

func reflField(key string, v interface{}) (zapcore.Field, SX) {
	var buf bytes.Buffer
	e := json.NewEncoder(&buf)
	e.SetEscapeHTML(false)
	if err := e.Encode(v); err != nil {
		return zap.Reflect(key, v), L(I(10), Str(key), L(I(2), Str(err.Error())))
	}
	return zap.Reflect(key, v), L(I(10), Str(key), L(I(1), B(bytes.TrimSuffix(buf.Bytes(), []byte("\n")))))
}

// production-like configuration (as genEncCase's "default-ish" branch)
func prodCfg(r *RNG) *encCfg {
	c := genCfg(r)
	c.keys = [7][]byte{[]byte("msg"), []byte("level"), []byte("ts"), []byte("logger"), []byte("caller"), nil, []byte("stacktrace")}
	c.lvl, c.tim, c.dur, c.cal, c.nam = 2, timEpoch, durSeconds, 3, 2
	return c
}

// entry shapes of the directed sequences: 0 message only, 1 scalar fields, 2 a reflected field between
// scalars, 3 a nested marshaler holding a reflected value, 4 random fields
func shapedEnt(g *genState, shape, k int) seqEnt {
	ent, _ := genEntry(g.r, g.cfg)
	ent.Level = zapcore.Level(k%3 - 1 + 3*(k%2)) // debug, dpanic, warn, error, info, panic: below and above Error
	// the level texts are part of the wire form: rebuild it for the adjusted level
	se := seqEnt{ent: ent, entx: entrySX(g.cfg, ent)}
	add := func(f zapcore.Field, x SX) { se.fields = append(se.fields, f); se.fsx = append(se.fsx, x) }
	intf := func(key string, v int) { add(zap.Int(key, v), L(I(1), Str(key), Z(int64(v)))) }
	strf := func(key, v string) { add(zap.String(key, v), L(I(4), Str(key), Str(v))) }
	switch shape {
	case 0:
	case 1:
		intf("i", k)
		strf("tail", "end")
	case 2:
		intf("i", k)
		f, x := reflField("payload", seqPayload{A: k, B: "x"})
		add(f, x)
		strf("tail", "end")
	case 3:
		intf("i", k)
		rf, rx := reflField("p", seqPayload{A: k, B: "y"})
		inner := []zapcore.Field{zap.Int("n", k), rf}
		m := zapcore.ObjectMarshalerFunc(func(enc zapcore.ObjectEncoder) error {
			for _, f := range inner {
				f.AddTo(enc)
			}
			return nil
		})
		add(zap.Object("o", m), L(I(15), Str("o"), L(L(L(I(1), Str("n"), Z(int64(k))), rx), L())))
		strf("tail", "end")
	default:
		g.size = 10
		se.fields, se.fsx = g.fields(g.r.Intn(5), 2)
	}
	return se
}

// the wire form of an entry under a configuration (the same oracle values genEntry ships)
func entrySX(c *encCfg, e zapcore.Entry) SX {
	callerText := ""
	full := "undefined"
	if e.Caller.Defined {
		full = e.Caller.File + ":" + fmt.Sprint(e.Caller.Line)
		switch c.cal {
		case 2:
			callerText = full
		case 3:
			callerText = trimmedPath(e.Caller.File, e.Caller.Line)
		}
	}
	return L(Str(c.levelText(e.Level)), Str(levelString(e.Level)), Bool(e.Time.IsZero()), c.tvOf(e.Time), B(c.timeCol(e.Time)),
		Str(e.LoggerName), Bool(e.Caller.Defined), Str(callerText), Str(full), Str(e.Caller.Function), Str(e.Message), Str(e.Stack))
}

func c10sequences(c *Ctx, r *RNG) {
	// ---- directed: one failing sink next to healthy ones, every position, both encoder kinds on
	// either side, every failing outcome, entry shapes alternating so that consecutive entries need
	// different numbers of pooled buffers ----
	patterns := [][]int{{1, 2}, {2, 1}, {0, 2, 1, 3}, {1, 1, 2}, {4, 2, 4}, {3, 0, 2}}
	for nleaf := 2; nleaf <= 3; nleaf++ {
		for bad := 0; bad < nleaf; bad++ {
			for kinds := 0; kinds < 4; kinds++ { // bit 0: the failing core is a console core; bit 1: the healthy ones are
				for _, fail := range []int{1, 2} {
					for pi, pat := range patterns {
						if !c.Thorough && (pi+bad+kinds+fail)%2 == 1 {
							continue // quick: half of the grid (every pattern still meets every position/kind/outcome)
						}
						rr := r.Fork()
						cfg := prodCfg(rr)
						if pi%2 == 1 {
							cfg = genCfg(rr)
						}
						g := &genState{r: rr, cfg: cfg, size: 10}
						n := 6
						cs := &coreSpec{kind: 1}
						for i := 0; i < nleaf; i++ {
							lf := &coreSpec{kind: 0, id: i, seq: true, con: kinds&2 != 0, nest: (pi+i)%3 == 0}
							if i == bad {
								lf.con = kinds&1 != 0
							}
							for k := 0; k < n; k++ {
								o := 0
								if i == bad && (pi < 4 || k%2 == 0) { // always failing / failing every other entry
									o = fail
								}
								lf.outs = append(lf.outs, sinkOutcome{kind: o})
							}
							cs.subs = append(cs.subs, lf)
						}
						var ents []seqEnt
						for k := 0; k < n; k++ {
							ents = append(ents, shapedEnt(g, pat[k%len(pat)], k))
						}
						c10seq(c, cfg, nil, nil, cs, ents, "seqdir")
					}
				}
			}
		}
	}

	// ---- directed, over zap's WriteSyncer combinators: the failing sink behind every combinator shape,
	// at a position of a tee of 2-3 cores (the healthy cores behind combinators as well), failing once /
	// now and then / for good, and six full entries so that several entries follow each failure: every
	// later call must return, and every sink that works must receive every entry, intact ----
	nshape := len(c10wsShapes())
	for si := 0; si < nshape; si++ {
		for pi := range c10failPatterns {
			for v := 0; v < 10; v++ { // (nleaf, bad) x failing outcome
				if !c.Thorough && v != (si+2*pi)%10 && v != (3*si+pi+5)%10 {
					continue // quick: two of the ten placements per (shape, pattern), rotating
				}
				nleaf, bad := 2+(v%5)/2, (v%5)%2
				if v%5 == 4 {
					nleaf, bad = 3, 2
				}
				fail := 1 + v/5
				rr := r.Fork()
				cfg := prodCfg(rr)
				if (si+pi)%3 == 1 {
					cfg = genCfg(rr)
				}
				g := &genState{r: rr, cfg: cfg, size: 10}
				n := 6
				cs := c10wsTee(nleaf, bad, si, pi, fail, n, true)
				for i, lf := range cs.subs {
					lf.nest = (pi+i)%3 == 0
					lf.con = (si+v+i)%2 == 0 && !lf.buffered()
				}
				pat := patterns[(si+pi+v)%len(patterns)]
				var ents []seqEnt
				for k := 0; k < n; k++ {
					ents = append(ents, shapedEnt(g, pat[k%len(pat)], k))
				}
				c10seq(c, cfg, nil, nil, cs, ents, "seqws")
			}
		}
	}

	// ---- random: trees of tees and forwarding wrappers over JSON and console leaves, With chains,
	// sequences of 1-6 entries with per-entry sink outcomes ----
	nrand := 600
	if c.Thorough {
		nrand = 12000
	}
	for i := 0; i < nrand; i++ {
		rr := r.Fork()
		var cfg *encCfg
		if rr.Chance(40) {
			cfg = prodCfg(rr)
		} else {
			cfg = genCfg(rr)
		}
		g := &genState{r: rr, cfg: cfg, size: 10}
		nent := rr.Range(1, 6)
		if c.Thorough && rr.Chance(10) {
			nent = rr.Range(7, 14)
		}
		failp := []int{15, 45, 80}[rr.Intn(3)]
		wrapped := i%2 == 1 // half of the trees: leaves over combinators, at least 3 entries
		if wrapped && nent < 3 {
			nent = rr.Range(3, 6)
		}
		id := 0
		var gen func(depth int) *coreSpec
		gen = func(depth int) *coreSpec {
			k := rr.Intn(10)
			if depth <= 0 || k < 5 {
				outs := func(underBuf bool) []sinkOutcome {
					var os []sinkOutcome
					sticky := rr.Chance(25) // a sink that is broken for good
					for e := 0; e < nent; e++ {
						o := 0
						if sticky || rr.Chance(failp) {
							o = rr.Range(1, 3) // sync failures: exhaustive in (b); here they would only hide behind the known finding
							if underBuf && o == 3 {
								o = 2
							}
						}
						os = append(os, sinkOutcome{kind: o})
					}
					return os
				}
				cs := &coreSpec{kind: 0, seq: true, con: rr.Chance(40), nest: rr.Chance(30)}
				if wrapped && rr.Chance(70) { // the sink(s) behind a random stack of zap's combinators
					cs.ws = (&c10wsGen{r: rr, id: &id, outs: outs}).gen(3, false)
					if cs.buffered() {
						cs.con = false
					}
					return cs
				}
				cs.id = id
				id++
				cs.outs = outs(false)
				return cs
			}
			if k < 8 {
				cs := &coreSpec{kind: 1}
				for j := rr.Intn(4); j >= 0; j-- {
					cs.subs = append(cs.subs, gen(depth-1))
				}
				if rr.Chance(4) {
					cs.subs = nil
				}
				return cs
			}
			return &coreSpec{kind: 2, subs: []*coreSpec{gen(depth - 1)}}
		}
		var cs *coreSpec
		if rr.Chance(50) { // mostly a tee at the root: a failing sink with siblings
			cs = &coreSpec{kind: 1}
			for j := rr.Range(2, 4); j > 0; j-- {
				cs.subs = append(cs.subs, gen(2))
			}
		} else {
			cs = gen(3)
		}
		var ctxs [][]zapcore.Field
		var ctxx []SX
		if rr.Chance(50) {
			for j := rr.Range(1, 3); j > 0; j-- {
				g.size = 6
				fs, xs := g.fields(rr.Intn(3), 2)
				ctxs = append(ctxs, fs)
				ctxx = append(ctxx, L(xs...))
			}
		}
		var ents []seqEnt
		for k := 0; k < nent; k++ {
			var se seqEnt
			if rr.Chance(30) {
				se = shapedEnt(g, rr.Intn(4), k)
				se.ent.Level = zapcore.Level(rr.Range(-1, 5))
				se.entx = entrySX(cfg, se.ent)
			} else {
				ent, ex := genEntry(rr, cfg)
				g.size = 12
				fs, xs := g.fields(rr.Intn(6), 3)
				se = seqEnt{ent: ent, fields: fs, entx: ex, fsx: xs}
			}
			se.d = len(ctxs)
			if rr.Chance(30) {
				se.d = rr.Intn(len(ctxs) + 1)
			}
			ents = append(ents, se)
		}
		class := "seqrand"
		if wrapped {
			class = "seqwsrand"
		}
		c10seq(c, cfg, ctxs, ctxx, cs, ents, class)
	}
}

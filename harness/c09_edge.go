package main

// C09 scenario "edge": rare sequential paths next to ordinary concurrent logging.
//
// zap recycles stack captures, buffers, encoders, checked entries and error wrappers through
// process-wide sync.Pools.  A path that hands a pooled object back twice (an explicit Free next
// to a deferred one, an error return after a Put, ...) or keeps using it after handing it back
// behaves exactly as before on that path and in any sequential program; only LATER, when two
// goroutines log at the same time through ordinary loggers, does the pool give both the same
// object: data races, panics inside the log call, entries carrying another goroutine's data.
// So this scenario has
//
//   - ordinary loggers with AddCaller / AddStacktrace (zap.Logger, SugaredLogger, slog handler,
//     JSON and console ioCores, an observer core), whose operations log in small bursts, every
//     operation from a function of its own (//go:noinline): the annotation of an entry says which
//     function logged it, so an entry annotated with somebody else's caller or stack is visible
//     (c09edgeCheck; reported as evidence of a race on a pooled object);
//   - "edge" operations, each on a logger of its own: no caller frame available (caller skip
//     beyond the stack, at and around the depth of the goroutine), empty stack traces, failing
//     object / array marshalers, values reflection cannot encode, panicking Stringers and errors,
//     nil and multi errors, a sink whose Write / Sync fail, entries dropped by a sampler, disabled
//     levels with hooks and terminal actions, Check without Write, Write on a nil entry, no-op
//     encoder callbacks, an encoder configuration without keys, dangling / non-string sugar keys,
//     slog records without a program counter.
//
// The generator (c09.go) runs edge operations sequentially BEFORE the goroutines start (prelude)
// and interleaves them with the ordinary operations during the concurrent phase.
//
// instances: 0 Logger L (caller, stack at Warn) 1 multiCore 2 contextObserver 3 ObservedLogs
// 4 ioCore (JSON) 5 lockedWriteSyncer (out) 6 AtomicLevel 7 Pool 8 lockedWriteSyncer (error output)
// 9 ioCore (console) 10 Logger LS (stack at Info) 11 SugaredLogger 12 its base Logger 13 Handler
// 14 Handler (caller skip 1) 20.. the edge loggers / handlers 40 ioCore over the failing sink
// 41 its lockedWriteSyncer 42 sampler 43 counter 44 hooked 45 levelFilterCore

import (
	"context"
	"errors"
	"fmt"
	"log/slog"
	"strconv"
	"strings"
	"sync/atomic"
	"time"

	"go.uber.org/zap"
	"go.uber.org/zap/exp/zapslog"
	"go.uber.org/zap/zapcore"
	"go.uber.org/zap/zaptest/observer"
)

const c09burst = 6

// ---- ordinary logging, one function per operation: the message names the function

//go:noinline
func c09logAlpha(l *zap.Logger, g int) {
	for i := 0; i < c09burst; i++ {
		l.Info("c09logAlpha", zap.Int("g", g))
	}
}

//go:noinline
func c09logBeta(l *zap.Logger, g int) {
	for i := 0; i < c09burst; i++ {
		l.Info("c09logBeta")
	}
}

//go:noinline
func c09logGamma(l *zap.Logger, g int) {
	for i := 0; i < c09burst; i++ {
		l.Warn("c09logGamma", zap.Int("g", g)) // with a stack trace
	}
}

//go:noinline
func c09logDelta(l *zap.Logger, g int) {
	for i := 0; i < c09burst; i++ {
		if ce := l.Check(zapcore.ErrorLevel, "c09logDelta"); ce != nil {
			ce.Write(zap.Int("g", g))
		}
	}
}

//go:noinline
func c09logEpsilon(s *zap.SugaredLogger, g int) {
	for i := 0; i < c09burst; i++ {
		s.Infow("c09logEpsilon", "g", g)
	}
}

//go:noinline
func c09logZeta(s *zap.SugaredLogger, g int) {
	for i := 0; i < c09burst; i++ {
		s.Warnf("c09logZeta") // no arguments: the template is the message
	}
}

//go:noinline
func c09logEta(sl *slog.Logger, g int) {
	for i := 0; i < c09burst; i++ {
		sl.Info("c09logEta", "g", g)
	}
}

//go:noinline
func c09logTheta(sl *slog.Logger, g int) {
	for i := 0; i < c09burst; i++ {
		sl.Error("c09logTheta") // with a stack trace
	}
}

// a helper that logs on behalf of its caller (handler with caller skip 1)
//
//go:noinline
func c09slogHelper(sl *slog.Logger, msg string) { sl.Info(msg) }

//go:noinline
func c09logIota(sl *slog.Logger, g int) {
	for i := 0; i < c09burst; i++ {
		c09slogHelper(sl, "c09logIota")
	}
}

//go:noinline
func c09logKappa(l *zap.Logger, g int) {
	for i := 0; i < c09burst; i++ {
		l.Info("c09logKappa", zap.Stack("stk"), zap.Int("g", g)) // zap.Stack: a second capture per entry
	}
}

// ---- values for the edge operations

type c09failObj struct{ n int }

func (o c09failObj) MarshalLogObject(enc zapcore.ObjectEncoder) error {
	enc.AddInt("before", o.n)
	enc.OpenNamespace("left-open")
	return errors.New("c09: object marshaler failed")
}

type c09failArr struct{}

func (c09failArr) MarshalLogArray(enc zapcore.ArrayEncoder) error {
	enc.AppendInt(1)
	_ = enc.AppendObject(c09failObj{2})
	return errors.New("c09: array marshaler failed")
}

type c09nested struct{ depth int }

func (o c09nested) MarshalLogObject(enc zapcore.ObjectEncoder) error {
	if o.depth == 0 {
		return enc.AddArray("arr", c09failArr{})
	}
	return enc.AddObject("in", c09nested{o.depth - 1})
}

type c09stringer struct{ p *int }

func (s *c09stringer) String() string { return strconv.Itoa(*s.p) } // nil receiver or nil p: panics

type c09err struct{ p *int }

func (e *c09err) Error() string { return "c09err " + strconv.Itoa(*e.p) } // nil receiver or nil p: panics

type c09verboseErr struct{}

func (c09verboseErr) Error() string { return "short" }
func (c09verboseErr) Format(f fmt.State, verb rune) {
	if verb == 'v' && f.Flag('+') {
		_, _ = f.Write([]byte("short\nwith a verbose form"))
		return
	}
	_, _ = f.Write([]byte("short"))
}

type c09multiErr []error

func (m c09multiErr) Error() string   { return "multi(" + strconv.Itoa(len(m)) + ")" }
func (m c09multiErr) Errors() []error { return m }

// a sink that always fails (wrapped in zapcore.Lock by the scenario)
type c09badSink struct{ n int }

func (s *c09badSink) Write(p []byte) (int, error) { s.n++; return 0, errors.New("c09: write failed") }
func (s *c09badSink) Sync() error                 { s.n++; return errors.New("c09: sync failed") }

func c09edge(warm bool) *c09scen {
	lvl := zap.NewAtomicLevelAt(zapcore.InfoLevel)
	obs, logs := observer.New(lvl)
	encCfg := zapcore.EncoderConfig{MessageKey: "msg", LevelKey: "level", TimeKey: "ts", NameKey: "logger", CallerKey: "caller",
		FunctionKey: "func", StacktraceKey: "stack", EncodeLevel: zapcore.LowercaseLevelEncoder, EncodeTime: zapcore.EpochNanosTimeEncoder,
		EncodeDuration: zapcore.NanosDurationEncoder, EncodeCaller: zapcore.ShortCallerEncoder}
	out := zapcore.Lock(&c09sink{})
	errOut := zapcore.Lock(&c09sink{})
	jsonCore := zapcore.NewCore(zapcore.NewJSONEncoder(encCfg), out, lvl)
	consCore := zapcore.NewCore(zapcore.NewConsoleEncoder(encCfg), out, lvl)
	tee := zapcore.NewTee(obs, jsonCore, consCore)
	L := zap.New(tee, zap.AddCaller(), zap.AddStacktrace(zapcore.WarnLevel), zap.ErrorOutput(errOut), zap.WithFatalHook(zapcore.WriteThenPanic))
	LS := L.WithOptions(zap.AddStacktrace(zapcore.InfoLevel))
	S := L.Sugar()
	sl := slog.New(zapslog.NewHandler(tee, zapslog.WithCaller(true), zapslog.AddStacktraceAt(slog.LevelError)))
	slSkip := slog.New(zapslog.NewHandler(tee, zapslog.WithCaller(true), zapslog.WithCallerSkip(1)))

	// --- edge loggers (all concurrency-safe objects of their own)
	noCaller := L.WithOptions(zap.AddCallerSkip(1000))                                                              // caller wanted, no frame
	noStack := zap.New(tee, zap.AddStacktrace(zapcore.InfoLevel), zap.AddCallerSkip(1000), zap.ErrorOutput(errOut)) // stack wanted, no frame
	noBoth := LS.WithOptions(zap.AddCallerSkip(1 << 20))
	var skips []*zap.Logger // around the depth of a goroutine's stack: the last frames, one past them, ...
	for k := 1; k <= 6; k++ {
		skips = append(skips, LS.WithOptions(zap.AddCallerSkip(k)))
	}
	bad := zapcore.Lock(&c09badSink{})
	badCore := zapcore.NewCore(zapcore.NewJSONEncoder(encCfg), bad, lvl)
	badL := zap.New(zapcore.NewTee(badCore, obs), zap.AddCaller(), zap.AddStacktrace(zapcore.ErrorLevel), zap.ErrorOutput(errOut))
	badErrOut := zap.New(tee, zap.AddCaller(), zap.AddCallerSkip(1000), zap.ErrorOutput(bad)) // the error output itself fails
	var sampled, dropped atomic.Int64
	smp := zapcore.NewSamplerWithOptions(tee, time.Hour, 1, 0, zapcore.SamplerHook(func(_ zapcore.Entry, d zapcore.SamplingDecision) {
		if d&zapcore.LogDropped != 0 {
			dropped.Add(1)
		} else {
			sampled.Add(1)
		}
	}))
	smpL := zap.New(smp, zap.AddCaller(), zap.AddStacktrace(zapcore.InfoLevel), zap.ErrorOutput(errOut))
	var hooks atomic.Int64
	hookL := L.WithOptions(zap.Hooks(func(zapcore.Entry) error { hooks.Add(1); return errors.New("c09: hook failed") }),
		zap.IncreaseLevel(zapcore.ErrorLevel), zap.WithPanicHook(zapcore.WriteThenPanic))
	never := zap.New(zapcore.NewCore(zapcore.NewJSONEncoder(encCfg), out, zap.LevelEnablerFunc(func(zapcore.Level) bool { return false })),
		zap.AddCaller(), zap.AddStacktrace(zapcore.DebugLevel), zap.ErrorOutput(errOut), zap.WithFatalHook(zapcore.WriteThenPanic))
	dev := L.WithOptions(zap.Development())
	noop := zapcore.EncoderConfig{MessageKey: "msg", LevelKey: "level", TimeKey: "ts", NameKey: "logger", CallerKey: "caller", StacktraceKey: "stack",
		EncodeLevel: func(zapcore.Level, zapcore.PrimitiveArrayEncoder) {}, EncodeTime: func(time.Time, zapcore.PrimitiveArrayEncoder) {},
		EncodeDuration: func(time.Duration, zapcore.PrimitiveArrayEncoder) {}, EncodeCaller: func(zapcore.EntryCaller, zapcore.PrimitiveArrayEncoder) {},
		EncodeName: func(string, zapcore.PrimitiveArrayEncoder) {}}
	noopL := zap.New(zapcore.NewTee(zapcore.NewCore(zapcore.NewJSONEncoder(noop), out, lvl), zapcore.NewCore(zapcore.NewConsoleEncoder(noop), out, lvl)),
		zap.AddCaller(), zap.AddStacktrace(zapcore.InfoLevel), zap.ErrorOutput(errOut)).Named("noop")
	bare := zap.New(zapcore.NewTee(zapcore.NewCore(zapcore.NewConsoleEncoder(zapcore.EncoderConfig{}), out, lvl),
		zapcore.NewCore(zapcore.NewJSONEncoder(zapcore.EncoderConfig{}), out, lvl)), zap.AddCaller(), zap.AddStacktrace(zapcore.InfoLevel), zap.ErrorOutput(errOut))
	slNoCaller := slog.New(zapslog.NewHandler(tee, zapslog.WithCaller(true), zapslog.WithCallerSkip(1000), zapslog.AddStacktraceAt(slog.LevelInfo)))
	hNoPC := zapslog.NewHandler(tee, zapslog.WithCaller(true), zapslog.WithCallerSkip(2), zapslog.AddStacktraceAt(slog.LevelInfo))
	edgeS := noCaller.Sugar()
	if warm {
		c09logAlpha(L, -1)
		c09logGamma(LS, -1)
		c09logEpsilon(S, -1)
		c09logEta(sl, -1)
	}
	var nilP *c09stringer
	var nilE *c09err
	var mixed atomic.Value // the first mix-up seen in this program
	take := func() {
		if s := c09edgeCheck(logs.TakeAll()); s != "" {
			mixed.CompareAndSwap(nil, s)
		}
	}
	ctx := context.Background()

	en := cat(u(1, "multiCore.Enabled"), u(2, "contextObserver.Enabled"), u(6, "AtomicLevel.Enabled"), u(4, "ioCore.Enabled"), u(9, "ioCore.Enabled"))
	ck := cat(u(1, "multiCore.Check"), u(2, "contextObserver.Check"), u(4, "ioCore.Check"), u(9, "ioCore.Check"), u(6, "AtomicLevel.Enabled"))
	wr := cat(u(2, "contextObserver.Write"), u(3, "ObservedLogs.add"), u(7, "Pool.Get"), u(4, "ioCore.Write"), u(5, "lockedWriteSyncer.Write"),
		u(9, "ioCore.Write"), u(5, "lockedWriteSyncer.Write"), u(7, "Pool.Put"))
	eo := u(8, "lockedWriteSyncer.Write", "lockedWriteSyncer.Sync") // a message on the error output
	log := func(inst int, m string) []c09call {
		return cat(u(inst, m), u(7, "Pool.Get"), en, ck, wr, u(7, "Pool.Put"))
	}
	hd := func(inst int) []c09call {
		return cat(u(inst, "Handler.Enabled"), en, u(inst, "Handler.Handle"), u(7, "Pool.Get"), ck, wr, u(7, "Pool.Put"))
	}
	ops := []c09op{
		// ordinary operations (0..9): every one from a function of its own
		{name: "Alpha", run: func(g, k int) { c09logAlpha(L, g) }, units: log(0, "Logger.Info"), mut: true},
		{name: "Beta", run: func(g, k int) { c09logBeta(LS, g) }, units: log(10, "Logger.Info"), mut: true},
		{name: "Gamma", run: func(g, k int) { c09logGamma(L, g) }, units: log(0, "Logger.Warn"), mut: true},
		{name: "Delta", run: func(g, k int) { c09logDelta(L, g) }, units: log(0, "Logger.Check"), mut: true},
		{name: "Epsilon", run: func(g, k int) { c09logEpsilon(S, g) }, units: cat(u(11, "SugaredLogger.Infow"), log(12, "Logger.Check")), mut: true},
		{name: "Zeta", run: func(g, k int) { c09logZeta(S, g) }, units: cat(u(11, "SugaredLogger.Warnf"), log(12, "Logger.Check")), mut: true},
		{name: "Eta", run: func(g, k int) { c09logEta(sl, g) }, units: hd(13), mut: true},
		{name: "Theta", run: func(g, k int) { c09logTheta(sl, g) }, units: hd(13), mut: true},
		{name: "Iota", run: func(g, k int) { c09logIota(slSkip, g) }, units: hd(14), mut: true},
		{name: "Kappa", run: func(g, k int) { c09logKappa(L, g) }, units: log(0, "Logger.Info"), mut: true},
		// edge operations
		{name: "no-caller", edge: true, run: func(g, k int) { noCaller.Info("e:no-caller") }, units: cat(log(20, "Logger.Info"), eo), mut: true},
		{name: "no-stack", edge: true, run: func(g, k int) { noStack.Info("e:no-stack") }, units: log(21, "Logger.Info"), mut: true},
		{name: "no-caller-no-stack", edge: true, run: func(g, k int) { noBoth.Warn("e:no-both") }, units: cat(log(22, "Logger.Warn"), eo), mut: true},
		{name: "no-caller.Check", edge: true, run: func(g, k int) {
			if ce := noCaller.Check(zapcore.ErrorLevel, "e:no-caller-check"); ce != nil {
				ce.Write()
			}
		}, units: cat(log(20, "Logger.Check"), eo), mut: true},
		{name: "no-caller.Sugar", edge: true, run: func(g, k int) { edgeS.Infow("e:no-caller-sugar", "k", k); edgeS.Errorf("e:%d", k) },
			units: cat(u(23, "SugaredLogger.Infow", "SugaredLogger.Errorf"), log(20, "Logger.Check"), log(20, "Logger.Check"), eo, eo), mut: true},
		{name: "skip-sweep", edge: true, run: func(g, k int) { // caller skip 1..6: up to and past the outermost frame of this goroutine
			for _, l := range skips {
				l.Info("e:skip")
			}
		}, units: cat(log(24, "Logger.Info"), log(24, "Logger.Info"), log(24, "Logger.Info"), eo), mut: true},
		{name: "skip-k", edge: true, run: func(g, k int) { skips[(g+k)%len(skips)].Warn("e:skip-k") }, units: cat(log(24, "Logger.Warn"), eo), mut: true},
		{name: "stack-field-empty", edge: true, run: func(g, k int) { L.Info("e:stackskip", zap.StackSkip("stk", 1000), zap.StackSkip("stk2", 3)) },
			units: log(0, "Logger.Info"), mut: true},
		{name: "fail-object", edge: true, run: func(g, k int) {
			L.Info("e:fail-object", zap.Object("o", c09failObj{k}), zap.Inline(c09failObj{g}), zap.Int("after", 1))
		}, units: log(0, "Logger.Info"), mut: true},
		{name: "fail-array", edge: true, run: func(g, k int) { L.Info("e:fail-array", zap.Array("a", c09failArr{}), zap.Object("n", c09nested{3})) },
			units: log(0, "Logger.Info"), mut: true},
		{name: "fail-reflect", edge: true, run: func(g, k int) {
			L.Info("e:fail-reflect", zap.Reflect("ch", make(chan int)), zap.Any("fn", func() {}), zap.Reflect("ok", map[string]int{"a": 1}), zap.Reflect("nil", nil))
		}, units: log(0, "Logger.Info"), mut: true},
		{name: "panicking-stringer", edge: true, run: func(g, k int) {
			L.Info("e:stringer", zap.Stringer("nilrecv", nilP), zap.Stringer("nilfield", &c09stringer{}), zap.Stringer("nil", nil))
		}, units: log(0, "Logger.Info"), mut: true},
		{name: "odd-errors", edge: true, run: func(g, k int) {
			one := 1
			L.Warn("e:errors", zap.Error(nil), zap.NamedError("nilrecv", nilE), zap.NamedError("nilfield", &c09err{}), zap.Error(c09verboseErr{}),
				zap.Error(c09multiErr{errors.New("a"), nil, c09verboseErr{}, &c09err{}, &c09err{&one}}),
				zap.Errors("errs", []error{nil, errors.New("b"), &c09err{}, nilE, c09multiErr{errors.New("c"), &c09err{}}, c09verboseErr{}}))
		}, units: log(0, "Logger.Warn"), mut: true},
		{name: "fail-with", edge: true, derive: true, run: func(g, k int) {
			L.With(zap.Object("o", c09failObj{k}), zap.Namespace("ns"), zap.Array("a", c09failArr{})).Info("e:fail-with", zap.Reflect("ch", make(chan int)))
		}, units: cat(u(0, "Logger.With"), u(1, "multiCore.With"), u(2, "contextObserver.With"), u(4, "ioCore.With"), u(9, "ioCore.With"), log(0, "Logger.Info")), mut: true},
		{name: "write-error", edge: true, run: func(g, k int) { badL.Info("e:write-error", zap.Int("k", k)); badL.Error("e:write+sync-error") },
			units: cat(log(25, "Logger.Info"), u(40, "ioCore.Write"), u(41, "lockedWriteSyncer.Write"), eo, log(25, "Logger.Error"), u(40, "ioCore.Write"), u(41, "lockedWriteSyncer.Write"), eo), mut: true},
		{name: "write-error+fail-object", edge: true, run: func(g, k int) {
			badL.Error("e:write-error-object", zap.Object("o", c09failObj{k}), zap.Errors("errs", []error{&c09err{}}))
		},
			units: cat(log(25, "Logger.Error"), u(40, "ioCore.Write"), u(41, "lockedWriteSyncer.Write"), eo), mut: true},
		{name: "error-output-fails", edge: true, run: func(g, k int) { badErrOut.Info("e:error-output-fails") },
			units: cat(log(26, "Logger.Info"), u(41, "lockedWriteSyncer.Write", "lockedWriteSyncer.Sync")), mut: true},
		{name: "sync-error", edge: true, run: func(g, k int) { _ = badL.Sync(); _ = badErrOut.Sync() },
			units: cat(u(25, "Logger.Sync"), u(40, "ioCore.Sync"), u(41, "lockedWriteSyncer.Sync"), u(26, "Logger.Sync")), mut: true},
		{name: "sampled-out", edge: true, run: func(g, k int) {
			smpL.Info("e:sampled")
			smpL.Info("e:sampled")
			smpL.Info("e:sampled")
			_ = dropped.Load() + sampled.Load()
		},
			units: cat(u(27, "Logger.Info"), u(42, "sampler.Enabled", "sampler.Check"), u(43, "counter.IncCheckReset"), u(27, "Logger.Info"), u(42, "sampler.Enabled", "sampler.Check"), u(43, "counter.IncCheckReset"), ck, wr), mut: true},
		{name: "disabled+hooks", edge: true, run: func(g, k int) {
			hookL.Info("e:disabled")
			hookL.Debug("e:disabled")
			if ce := hookL.Check(zapcore.WarnLevel, "e:disabled"); ce != nil {
				ce.Write()
			}
			hookL.Error("e:hook-fails")
			_ = hooks.Load()
		}, units: cat(u(28, "Logger.Info", "Logger.Debug", "Logger.Check"), u(45, "levelFilterCore.Enabled", "levelFilterCore.Check"), u(44, "hooked.Check", "hooked.Write"), log(28, "Logger.Error"), eo), mut: true},
		{name: "disabled.Panic", edge: true, mayPanic: true, run: func(g, k int) { never.Panic("e:never-panic") }, units: cat(u(29, "Logger.Panic"), u(7, "Pool.Get", "Pool.Put")), mut: true},
		{name: "disabled.Fatal", edge: true, mayPanic: true, run: func(g, k int) { never.Fatal("e:never-fatal") }, units: cat(u(29, "Logger.Fatal"), u(7, "Pool.Get", "Pool.Put")), mut: true},
		{name: "disabled.DPanic", edge: true, run: func(g, k int) { never.DPanic("e:never-dpanic"); never.Error("e:never") }, units: cat(u(29, "Logger.DPanic", "Logger.Error"), u(7, "Pool.Get", "Pool.Put")), mut: true},
		{name: "Panic", edge: true, mayPanic: true, run: func(g, k int) { noCaller.Panic("e:panic", zap.Object("o", c09failObj{k})) }, units: cat(log(20, "Logger.Panic"), eo), mut: true},
		{name: "Fatal-hooked", edge: true, mayPanic: true, run: func(g, k int) { LS.Fatal("e:fatal") }, units: log(10, "Logger.Fatal"), mut: true},
		{name: "DPanic-dev", edge: true, mayPanic: true, run: func(g, k int) { dev.DPanic("e:dpanic-dev") }, units: log(30, "Logger.DPanic"), mut: true},
		{name: "hook.Panic", edge: true, mayPanic: true, run: func(g, k int) { hookL.Panic("e:hook-panic") }, units: cat(log(28, "Logger.Panic"), u(44, "hooked.Check", "hooked.Write"), eo), mut: true},
		{name: "Check-no-Write", edge: true, run: func(g, k int) {
			_ = L.Check(zapcore.InfoLevel, "e:never-written") // the entry is simply dropped
			var ce *zapcore.CheckedEntry
			ce.Write(zap.Int("k", k)) // documented: safe on nil
			ce = ce.AddCore(zapcore.Entry{Message: "e:by-hand", Level: zapcore.InfoLevel, Stack: "by hand"}, jsonCore)
			ce.Write()
		}, units: cat(log(0, "Logger.Check"), u(7, "Pool.Get"), u(4, "ioCore.Write"), u(5, "lockedWriteSyncer.Write"), u(7, "Pool.Put")), mut: true},
		{name: "noop-encoders", edge: true, run: func(g, k int) {
			noopL.Info("e:noop", zap.Duration("d", time.Second), zap.Time("t", time.Unix(0, 0)), zap.Time("far", time.Date(9999, 1, 1, 0, 0, 0, 0, time.UTC)))
		}, units: cat(log(31, "Logger.Info")), mut: true},
		{name: "bare-config", edge: true, run: func(g, k int) {
			bare.Warn("e:bare", zap.Namespace("open"), zap.Int("k", k), zap.Skip())
			bare.Named("n").Info("")
		},
			units: cat(log(32, "Logger.Warn"), u(32, "Logger.Named"), log(32, "Logger.Info")), mut: true},
		{name: "sugar-odd-keys", edge: true, run: func(g, k int) {
			S.Infow("e:dangling", "dangling")
			S.Infow("e:non-string", 1, 2, "k", k, 3.5, nil)
			S.Errorw("e:errors", errors.New("x"), c09verboseErr{}, "k")
			S.With("only-key").Infoln()
			S.Infof("%d %s", k) // missing operand
		}, units: cat(u(11, "SugaredLogger.Infow", "SugaredLogger.Infow", "SugaredLogger.Errorw", "SugaredLogger.With", "SugaredLogger.Infof"),
			log(12, "Logger.Check"), log(12, "Logger.Check"), log(12, "Logger.Check"), log(12, "Logger.Check"), u(12, "Logger.With"), u(2, "contextObserver.With"), u(4, "ioCore.With"), u(9, "ioCore.With")), mut: true},
		{name: "slog-no-caller", edge: true, run: func(g, k int) { slNoCaller.Info("e:slog-no-caller", "k", k); slNoCaller.Error("e:slog-no-caller") }, units: cat(hd(33), hd(33)), mut: true},
		{name: "slog-no-pc", edge: true, run: func(g, k int) {
			_ = hNoPC.Handle(ctx, slog.NewRecord(time.Now(), slog.LevelInfo, "e:slog-no-pc", 0))
			_ = hNoPC.Handle(ctx, slog.NewRecord(time.Time{}, slog.LevelError, "e:slog-no-pc", 1)) // a pc that is no call site
		}, units: cat(hd(34), hd(34)), mut: true},
		// reads and level changes next to all of it
		{name: "SetLevel", run: func(g, k int) { c09toggle(lvl, k) }, units: u(6, "AtomicLevel.SetLevel"), mut: true},
		{name: "Logs.TakeAll", run: func(g, k int) { take() }, units: u(3, "ObservedLogs.TakeAll"), mut: true},
	}
	return &c09scen{ops: ops, cleanup: func() {}, check: func() string {
		take()
		if v := mixed.Load(); v != nil {
			return v.(string)
		}
		return ""
	}}
}

// every entry logged by one of the ordinary operations names the function that logged it
// (message = function name): its caller annotation and the first line of its stack trace must be
// that function.  Anything else is data of another goroutine's log call.
func c09edgeCheck(es []observer.LoggedEntry) string {
	for _, e := range es {
		if !strings.HasPrefix(e.Message, "c09log") {
			continue
		}
		want := "main." + e.Message
		bad := ""
		switch {
		case !e.Caller.Defined:
			bad = "has no caller annotation"
		case e.Caller.Function != want:
			bad = "is annotated with caller " + e.Caller.Function
		case e.Stack != "" && !strings.HasPrefix(e.Stack, want+"\n"):
			first, _, _ := strings.Cut(e.Stack, "\n")
			bad = "carries a stack trace starting at " + first
		}
		if bad != "" {
			return "entry logged by " + want + " " + bad
		}
	}
	return ""
}

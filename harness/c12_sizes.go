package main

import (
	"bytes"
	"fmt"
)

// C12, behaviour that depends on the configured Size in a way only LARGER sizes show.
//
// "never more than the configured size is held back" is a statement about the number the user put into
// the Size field, whatever it is.  The other history classes use sizes 1..64 (and the two defaults in a few
// directed cases), so a rule that treats sizes above some threshold differently -- rounding up to a page or
// a power of two, a minimum or a maximum capacity, an alignment of the allocation -- is invisible to them.
// The classes below take the size from the neighbourhood of every power of two and of page multiples
// (2^k - 1, 2^k, 2^k + 1, n*4096 +- 1, round decimal numbers, zap's default 256 KiB +- 1, the two defaults
// themselves) and choose the write lengths RELATIVE to the size: Size-1, Size, Size+1, Size/2, Size/3, 1,
// exactly the free space, one more, one less.  Over a reliable sink the extracted oracle judges the bytes
// held back after every single Write against the configured Size (ostep: qlen q1 <=? eff_size c), and the
// model predicts every sink write exactly, so an effective capacity that differs from the configured one
// by a single byte, in either direction, is reported.
//
// Payloads are a few long runs of one byte (a run of one letter per write, closed by '\n', so that
// neighbouring writes differ and every write is a "line"); on the wire they are run-length encoded
// (c12bytesSX), which keeps a history over a 256 KiB buffer a few hundred bytes long.

// c12fill: the payload of the j-th write of a history, n bytes
func c12fill(n, j int) []byte {
	out := bytes.Repeat([]byte{byte('a' + j%26)}, n)
	if n > 0 {
		out[n-1] = '\n'
	}
	return out
}

// c12hist builds a history from write lengths (>= 0) and the marks -1 Sync, -2 tick, -3 Stop
func c12hist(lens ...int) []c12op {
	ops := make([]c12op, 0, len(lens))
	for j, n := range lens {
		switch {
		case n == -1:
			ops = append(ops, c12S)
		case n == -2:
			ops = append(ops, c12T)
		case n <= -3:
			ops = append(ops, c12X)
		default:
			ops = append(ops, c12op{kind: 0, bs: c12fill(n, j)})
		}
	}
	return ops
}

// the size bufio.Writer ends up with for a configured Size (zap: 0 -> 256 KiB; bufio: <= 0 -> 4096)
func c12effSize(size int) int {
	switch {
	case size == 0:
		return 256 * 1024
	case size < 0:
		return 4096
	}
	return size
}

// c12sizeHists: the directed histories for one size, cheapest first; e = effective size.
// Each one fills the buffer to (or just around) exactly e bytes and then offers one more write: the point
// at which a capacity other than e shows.
func c12sizeHists(e int) [][]c12op {
	return [][]c12op{
		c12hist(e-1, 1, 1, -1),                  // e-1, exactly the last free byte, one more: must flush e
		c12hist(1, e, 1, -3),                    // a write of e into a buffer holding 1: must flush the 1 first
		c12hist(e, e, 1, -1),                    // exactly e into the empty buffer is buffered, the next e flushes it
		c12hist(e/3, e/3, e/3, e/3, 1, -2),      // the fourth third does not fit
		c12hist(e/2, e-e/2, 1, e, e+1, -1),      // two halves fill it; e then e+1 (direct write)
		c12hist(1, e+1, e-1, 2, -3),             // larger than the buffer behind one byte; e-1 then 2
		c12hist(e-2, 1, -1, e-1, 2, -2, e+1, 0), // one short of full, Sync, pre-flush by one byte over, tick
	}
}

var c12dirSizes = []int{
	65, 100, 127, 128, 129, 255, 256, 257, 511, 512, 513, 1000, 1023, 1024, 1025, 2047, 2048, 2049, 4000,
	4095, 4096, 4097, 5000, 8191, 8192, 8193, 10000, 12287, 12288, 12289, 16383, 16384, 16385,
	65535, 65536, 65537, 100000,
	256*1024 - 1, 256 * 1024, 256*1024 + 1,
	0, -1, // the defaults: 256 KiB and bufio's 4096
}

func c12sizeClasses(c *Ctx) {
	// an RNG of its own: the seeded classes of c12() keep their streams
	r := NewRNG(c.Seed*0x9E3779B1 + 0xC12)
	// ---- directed: every listed size x the histories above (the dearer ones only up to a size limit)
	for _, size := range c12dirSizes {
		e := c12effSize(size)
		hs := c12sizeHists(e)
		n := len(hs)
		if !c.Thorough {
			// the model costs about 2 us per payload byte: the dearer histories only where they are cheap
			switch {
			case size == 0:
				n = 2
			case e > 100000:
				n = 1
			case e > 20000:
				n = 2
			case e > 10000, e > 4000 && (e%1024 == 0 || e%1024 == 1023):
				n = 4
			}
		}
		for _, ops := range hs[:n] {
			c12emit(c, size, ops, nil, 0, "size-directed")
		}
	}
	// the raw bufio.Writer model at a few of these sizes (its own size rule: <= 0 -> 4096)
	for _, size := range []int{4097, 5000, 8193, -1} {
		for _, ops := range c12sizeHists(c12effSize(size))[:4] {
			c12emit(c, size, ops, nil, 1, "size-directed-bufio")
		}
	}
	// ---- seeded: sizes around powers of two / page multiples / anywhere, lengths relative to the size
	N := 40
	if c.Thorough {
		N = 1500
	}
	for i := 0; i < N; i++ {
		var size int
		switch r.Intn(4) {
		case 0: // around a power of two, 2^7 .. 2^16 (thorough: .. 2^18)
			hi := 16
			if c.Thorough {
				hi = 18
			}
			size = 1<<uint(r.Range(7, hi)) + r.Range(-2, 2)
		case 1: // around a page multiple
			size = 4096*r.Range(1, 8) + r.Range(-2, 2)
		case 2: // anywhere above a page
			size = r.Range(4097, 40000)
		default: // log-uniform 64 .. 65535
			k := uint(r.Range(6, 15))
			size = 1<<k + r.Intn(1<<k)
		}
		budget := 3 * size // bytes per history
		nops := r.Range(3, 12)
		held, spent := 0, 0
		lens := make([]int, 0, nops+1)
		for j := 0; j < nops; j++ {
			x := r.Intn(100)
			switch {
			case x < 80:
				free := size - held
				var ln int
				switch r.Intn(11) {
				case 0:
					ln = 1
				case 1:
					ln = free // exactly the free space
				case 2:
					ln = free + 1 // one more
				case 3:
					ln = free - 1
				case 4:
					ln = size / 2
				case 5:
					ln = size / 3
				case 6:
					ln = size - 1
				case 7:
					ln = size
				case 8:
					ln = size + 1
				case 9:
					ln = r.Range(1, 64)
				default:
					ln = 0
				}
				if ln < 0 {
					ln = 0
				}
				if spent+ln > budget {
					ln = r.Range(0, 64)
				}
				spent += ln
				lens = append(lens, ln)
				if ln > free {
					held = 0
				}
				if ln <= size-held {
					held += ln
				}
			case x < 88:
				lens = append(lens, -1)
				held = 0
			case x < 94:
				lens = append(lens, -2)
				held = 0
			default:
				lens = append(lens, -3)
				held = 0
			}
		}
		lens = append(lens, 1) // one more byte at the end: whatever is held now plus one must still be <= size
		mode, class := 0, "size-rand"
		if r.Chance(10) {
			mode, class = 1, "size-rand-bufio"
		}
		c12emit(c, size, c12hist(lens...), nil, mode, class)
	}
	c12info(c, "size_classes", fmt.Sprintf("%d directed sizes, %d seeded", len(c12dirSizes), N))
}

package main

import (
	"fmt"

	"go.uber.org/zap"
	"go.uber.org/zap/zapcore"
	"go.uber.org/zap/zapio"
	"go.uber.org/zap/zaptest/observer"
)

// C17: zapio.Writer over an observer core whose enabler is an AtomicLevel.
// op = (0 #chunk) Write | (1) Sync | (3) Close (wire: 1) | (2 b) level change.

type c17op struct {
	kind  int // 0 write, 1 sync, 2 enable
	chunk []byte
	en    bool
}

func c17run(en0 bool, ops []c17op) (msgs [][]byte, rets []int) {
	lvl := zap.NewAtomicLevelAt(zapcore.InfoLevel)
	if !en0 {
		lvl.SetLevel(zapcore.ErrorLevel)
	}
	core, logs := observer.New(lvl)
	w := &zapio.Writer{Log: zap.New(core), Level: zapcore.InfoLevel}
	for i, o := range ops {
		switch o.kind {
		case 0:
			n, err := w.Write(o.chunk)
			if err != nil {
				n = -1
			}
			rets = append(rets, n)
		case 1:
			if i%2 == 0 {
				w.Sync()
			} else {
				w.Close()
			}
		case 2:
			if o.en {
				lvl.SetLevel(zapcore.InfoLevel)
			} else {
				lvl.SetLevel(zapcore.ErrorLevel)
			}
		}
	}
	for _, e := range logs.All() {
		msgs = append(msgs, []byte(e.Message))
	}
	return
}

func c17emit(c *Ctx, en0 bool, ops []c17op, class string) {
	msgs, rets := c17run(en0, ops)
	xs := make([]SX, len(ops))
	nl, syncs, toggles, bytes := 0, 0, 0, 0
	for i, o := range ops {
		switch o.kind {
		case 0:
			xs[i] = L(I(0), B(o.chunk))
			bytes += len(o.chunk)
			for _, b := range o.chunk {
				if b == '\n' {
					nl++
				}
			}
		case 1:
			xs[i] = L(I(1))
			syncs++
		case 2:
			xs[i] = L(I(2), Bool(o.en))
			toggles++
		}
	}
	nt := "0"
	if nl > 0 && len(ops) > 2 && bytes > nl {
		nt = "1"
	}
	c.Emit(L(Bool(en0), L(xs...)), L(LB(msgs), LI(rets)),
		map[string]string{"nt": nt, "class": class, "ops": fmt.Sprint(len(ops)), "nl": fmt.Sprint(nl), "sync": fmt.Sprint(syncs), "tog": fmt.Sprint(toggles)})
}

// all partitions of stream into chunks (2^(n-1) compositions), with a final Close
func c17partitions(stream []byte, f func([]c17op)) {
	n := len(stream)
	if n == 0 {
		f([]c17op{{kind: 1}})
		return
	}
	for mask := 0; mask < 1<<(n-1); mask++ {
		var ops []c17op
		start := 0
		for i := 1; i <= n; i++ {
			if i == n || mask&(1<<(i-1)) != 0 {
				ops = append(ops, c17op{kind: 0, chunk: stream[start:i]})
				start = i
			}
		}
		ops = append(ops, c17op{kind: 1})
		f(ops)
	}
}

func c17(c *Ctx) {
	r := NewRNG(c.Seed)
	// 1. exhaustive: every stream over {a, \n, b} up to length K, every partition
	K := 5
	if c.Thorough {
		K = 7
	}
	alpha := []byte{'a', '\n', 'b'}
	var rec func(prefix []byte)
	rec = func(prefix []byte) {
		c17partitions(prefix, func(ops []c17op) { c17emit(c, true, ops, "exh") })
		if len(prefix) < K {
			for _, a := range alpha {
				rec(append(append([]byte(nil), prefix...), a))
			}
		}
	}
	rec(nil)
	// 2. random histories: newline-dense / long lines / arbitrary bytes, empty writes,
	// Sync anywhere, level changes
	N := 3000
	if c.Thorough {
		N = 150000
	}
	for k := 0; k < N; k++ {
		nops := r.Range(1, 14)
		var ops []c17op
		style := r.Intn(4)
		for i := 0; i < nops; i++ {
			x := r.Intn(100)
			switch {
			case x < 70:
				var chunk []byte
				ln := r.Intn(12)
				if style == 1 && r.Chance(10) {
					ln = r.Range(100, 5000)
				}
				for j := 0; j < ln; j++ {
					switch style {
					case 0: // newline dense
						if r.Chance(40) {
							chunk = append(chunk, '\n')
						} else {
							chunk = append(chunk, byte('a'+r.Intn(3)))
						}
					case 1: // long lines
						if r.Chance(3) {
							chunk = append(chunk, '\n')
						} else {
							chunk = append(chunk, byte('a'+r.Intn(26)))
						}
					default: // arbitrary bytes
						if r.Chance(15) {
							chunk = append(chunk, '\n')
						} else {
							chunk = append(chunk, byte(r.Intn(256)))
						}
					}
				}
				ops = append(ops, c17op{kind: 0, chunk: chunk})
			case x < 88:
				ops = append(ops, c17op{kind: 1})
			default:
				if style == 3 {
					ops = append(ops, c17op{kind: 2, en: r.Bool()})
				} else {
					ops = append(ops, c17op{kind: 1})
				}
			}
		}
		ops = append(ops, c17op{kind: 1})
		en0 := true
		if style == 3 {
			en0 = r.Bool()
		}
		c17emit(c, en0, ops, fmt.Sprintf("rand%d", style))
	}
	// 3. very long lines (2^8 .. 2^20 bytes and more): size/capacity of Writer.buff (c17big.go)
	c17big(c)
}

func init() { registry["C17"] = c17 }

package main

import (
	"fmt"
	"io"
	"time"

	"go.uber.org/zap"
	"go.uber.org/zap/zapcore"
	"go.uber.org/zap/zapio"
	"go.uber.org/zap/zaptest/observer"
)

// C05: real core trees (observer and IO leaves with threshold / AtomicLevel / function
// enablers under NewTee, RegisterHooks, NewIncreaseLevelCore, samplers, NewLazyWith, With),
// driven through every family of front end at all 256 level values, interleaved with
// AtomicLevel changes.  Samplers come in two kinds: tag 5 never drops (first = 2^30), tag 8 is
// NewSamplerWithOptions(core, 1h, first, thereafter) with small first/thereafter, so that
// histories which repeat a level+message reach its drop decision; every sampler reports its
// decisions through a SamplerHook (sampler number = pre-order position in the tree).
// Wire format: see coq/theories/C05/Model.v.

// ---------- case syntax ----------
type c05en struct {
	kind int // 0 zapcore.Level, 1 AtomicLevel cell, 2 LevelEnablerFunc with a truth table
	t    int8
	cell int
	tbl  [256]bool // index l+128
}

func (e *c05en) sx() SX {
	switch e.kind {
	case 0:
		return L(I(0), I(int(e.t)))
	case 1:
		return L(I(1), I(e.cell))
	}
	b := make([]byte, 256)
	for i, v := range e.tbl {
		if v {
			b[i] = 1
		}
	}
	return L(I(2), B(b))
}

// tags: 0 leaf, 1 nop, 2 tee, 3 hooked, 4 increase-level, 5 sampler (never drops), 6 lazy-with,
// 7 With, 8 sampler with (first, thereafter)
type c05node struct {
	tag   int
	id    int // leaf id or hook id
	en    *c05en
	kids  []*c05node
	first int // tag 8
	there int // tag 8
}

func (n *c05node) sx() SX {
	switch n.tag {
	case 0:
		return L(I(0), I(n.id), n.en.sx())
	case 1:
		return L(I(1))
	case 2:
		xs := []SX{I(2)}
		for _, k := range n.kids {
			xs = append(xs, k.sx())
		}
		return L(xs...)
	case 3:
		return L(I(3), n.kids[0].sx(), I(n.id))
	case 4:
		return L(I(4), n.kids[0].sx(), n.en.sx())
	case 8:
		return L(I(8), n.kids[0].sx(), I(n.first), I(n.there))
	}
	return L(I(n.tag), n.kids[0].sx())
}
func (n *c05node) size() (nodes, leaves, wrappers int) {
	nodes = 1
	if n.tag == 0 {
		leaves = 1
	}
	if n.tag == 2 || n.tag == 3 || n.tag == 4 {
		wrappers = 1
	}
	for _, k := range n.kids {
		a, b, c := k.size()
		nodes += a
		leaves += b
		wrappers += c
	}
	return
}

type c05op struct {
	kind  int  // 0 set, 1 call, 2 enabled, 3 level, 4 V, 5 derive a logger, 6 text update, 7 handle read, 8 select a logger
	a     int  // cell; derive kinds 6, 7: the number of the hook registered
	v     int8 // set value / level / IncreaseLevel threshold
	fam   int
	n     int    // V argument / derive kind / logger number
	route int    // kind 6: see c05_upd.go
	hk    int    // kinds 0, 6, 7: the kind of handle used
	text  string // kind 6
}

func (o c05op) sx() SX {
	switch o.kind {
	case 0:
		if o.hk != 0 {
			return L(I(0), I(o.a), I(int(o.v)), I(o.hk))
		}
		return L(I(0), I(o.a), I(int(o.v)))
	case 1:
		return L(I(1), I(o.fam), I(int(o.v)))
	case 2:
		return L(I(2), I(int(o.v)))
	case 3:
		return L(I(3))
	case 4:
		return L(I(4), I(o.n))
	case 6:
		return L(I(6), I(o.a), I(o.route), I(o.hk), Str(o.text))
	case 7:
		return L(I(7), I(o.a), I(o.hk))
	case 8:
		return L(I(8), I(o.n))
	}
	switch o.n {
	case 0:
		return L(I(5))
	case 5:
		return L(I(5), I(5), I(int(o.v)))
	case 6, 7:
		return L(I(5), I(o.n), I(o.a)) // one more hook, number o.a
	}
	return L(I(5), I(o.n))
}

type c05case struct {
	tree  *c05node
	cells []int8
	obs   []int // leaf ids that are observer cores
	ops   []c05op
	mode  int // 1: the root logger is built by the live zap.Config of cell 0 (see c05_upd.go viaConfig)
}

// ---------- running a case on the real zap ----------
type c05ev struct{ kind, id int } // 0 IO leaf write, 1 hook, 2 IO leaf sync (C06 only)

type c05samp struct {
	k       int
	dropped bool
}

type c05env struct {
	cells   []zap.AtomicLevel
	events  []c05ev
	nsamp   int       // samplers built so far (pre-order numbering)
	samp    []c05samp // decisions reported by the samplers' hooks during the current call
	obsLogs map[int]*observer.ObservedLogs
	isObs   map[int]bool
	evals   int
	nerr    int
	recSync bool                             // C06: record Sync calls of the IO leaves' sinks
	mkSink  func(id int) zapcore.WriteSyncer // C06 child processes: file-backed buffered sinks
	onHook  func(id int)                     // C06 child processes: hook events go to a file
	onEntry func(id int, e zapcore.Entry)    // C06: the Entry every zap.Hooks hook was handed
	onSamp  func(k int, dropped bool)        // C06 child processes: sampler decisions go to a file
}

type c05sink struct {
	env *c05env
	id  int
}

func (s *c05sink) Write(p []byte) (int, error) {
	s.env.events = append(s.env.events, c05ev{0, s.id})
	return len(p), nil
}
func (s *c05sink) Sync() error {
	if s.env.recSync {
		s.env.events = append(s.env.events, c05ev{2, s.id})
	}
	return nil
}

// user payloads whose evaluation is counted
type c05str struct{ env *c05env }

func (p c05str) String() string { p.env.evals++; return "payload" }

type c05obj struct{ env *c05env }

func (p c05obj) MarshalLogObject(enc zapcore.ObjectEncoder) error {
	p.env.evals++
	enc.AddInt("x", 1)
	return nil
}

// terminal hooks that do nothing, so that DPanic/Panic/Fatal entries return (a custom hook is
// kept by terminalHookOverride; only nil and WriteThenNoop are replaced)
type c05term struct{}

func (c05term) OnWrite(*zapcore.CheckedEntry, []zapcore.Field) {}

func (env *c05env) enabler(e *c05en) zapcore.LevelEnabler {
	switch e.kind {
	case 0:
		return zapcore.Level(e.t)
	case 1:
		return env.cells[e.cell]
	}
	tbl := e.tbl
	return zap.LevelEnablerFunc(func(l zapcore.Level) bool { return tbl[int(l)+128] })
}

var c05encCfg = zapcore.EncoderConfig{MessageKey: "m", LevelKey: "l", EncodeLevel: func(l zapcore.Level, enc zapcore.PrimitiveArrayEncoder) { enc.AppendInt(int(l)) }}

func (env *c05env) build(n *c05node) zapcore.Core {
	switch n.tag {
	case 0:
		if env.isObs[n.id] {
			core, logs := observer.New(env.enabler(n.en))
			env.obsLogs[n.id] = logs
			return core
		}
		var sink zapcore.WriteSyncer = &c05sink{env, n.id}
		if env.mkSink != nil {
			sink = env.mkSink(n.id)
		}
		return zapcore.NewCore(zapcore.NewJSONEncoder(c05encCfg), sink, env.enabler(n.en))
	case 1:
		return zapcore.NewNopCore()
	case 2:
		cs := make([]zapcore.Core, len(n.kids))
		for i, k := range n.kids {
			cs[i] = env.build(k)
		}
		return zapcore.NewTee(cs...)
	case 3:
		return zapcore.RegisterHooks(env.build(n.kids[0]), env.hookFn(n.id))
	case 4:
		inner := env.build(n.kids[0])
		c, err := zapcore.NewIncreaseLevelCore(inner, env.enabler(n.en))
		if err != nil {
			env.nerr++
			return inner
		}
		return c
	case 5, 8:
		k := env.nsamp // numbered before the wrapped core is built: pre-order
		env.nsamp++
		hook := zapcore.SamplerHook(func(_ zapcore.Entry, d zapcore.SamplingDecision) {
			env.samp = append(env.samp, c05samp{k, d&zapcore.LogDropped != 0})
			if env.onSamp != nil {
				env.onSamp(k, d&zapcore.LogDropped != 0)
			}
		})
		if n.tag == 5 {
			return zapcore.NewSamplerWithOptions(env.build(n.kids[0]), time.Second, 1<<30, 0, hook)
		}
		// an hour-long tick: every call of a case falls into one sampling window
		return zapcore.NewSamplerWithOptions(env.build(n.kids[0]), time.Hour, n.first, n.there, hook)
	case 6:
		return zapcore.NewLazyWith(env.build(n.kids[0]), []zapcore.Field{zap.Int("lazy", 1)})
	}
	return env.build(n.kids[0]).With([]zapcore.Field{zap.Int("with", 1)})
}

// the hook number id: records (1 id) every time it runs
func (env *c05env) hookFn(id int) func(zapcore.Entry) error {
	return func(e zapcore.Entry) error {
		if env.onHook != nil {
			env.onHook(id)
		}
		if env.onEntry != nil {
			env.onEntry(id, e)
		}
		env.events = append(env.events, c05ev{1, id})
		if id%2 == 1 {
			// a failing core: hooks with an odd id report an error from Core.Write (after having run).
			// The entry, the other cores and the terminal action must be unaffected (C06, C10).
			return fmt.Errorf("hook %d failed", id)
		}
		return nil
	}
}

func c05newEnv(cs *c05case) *c05env {
	env := &c05env{obsLogs: map[int]*observer.ObservedLogs{}, isObs: map[int]bool{}}
	for _, v := range cs.cells {
		env.cells = append(env.cells, zap.NewAtomicLevelAt(zapcore.Level(v)))
	}
	for _, id := range cs.obs {
		env.isObs[id] = true
	}
	return env
}

// one log call through family fam at level l; named says whether to prefer the method named
// after the level over the Log* variant taking it as a parameter
func c05call(env *c05env, dl *c05lg, fam int, l zapcore.Level, named bool) {
	lg, s := dl.lg, dl.s
	valid := l >= zapcore.DebugLevel && l <= zapcore.FatalLevel
	idx := int(l) + 1
	switch fam {
	case 0:
		f := zap.Object("p", c05obj{env})
		if named && valid {
			[]func(string, ...zap.Field){lg.Debug, lg.Info, lg.Warn, lg.Error, lg.DPanic, lg.Panic, lg.Fatal}[idx]("m", f)
		} else {
			lg.Log(l, "m", f)
		}
	case 1:
		if ce := lg.Check(l, "m"); ce != nil {
			ce.Write(zap.Object("p", c05obj{env}))
		}
	case 2:
		if named && valid {
			[]func(...interface{}){s.Debug, s.Info, s.Warn, s.Error, s.DPanic, s.Panic, s.Fatal}[idx](c05str{env})
		} else {
			s.Log(l, c05str{env})
		}
	case 3:
		if named && valid {
			[]func(string, ...interface{}){s.Debugf, s.Infof, s.Warnf, s.Errorf, s.DPanicf, s.Panicf, s.Fatalf}[idx]("%v", c05str{env})
		} else {
			s.Logf(l, "%v", c05str{env})
		}
	case 4:
		if named && valid {
			[]func(string, ...interface{}){s.Debugw, s.Infow, s.Warnw, s.Errorw, s.DPanicw, s.Panicw, s.Fatalw}[idx]("m", "p", c05obj{env})
		} else {
			s.Logw(l, "m", "p", c05obj{env})
		}
	case 5:
		if named && valid {
			[]func(...interface{}){s.Debugln, s.Infoln, s.Warnln, s.Errorln, s.DPanicln, s.Panicln, s.Fatalln}[idx](c05str{env})
		} else {
			s.Logln(l, c05str{env})
		}
	case 6:
		w := &zapio.Writer{Log: lg, Level: l}
		io.WriteString(w, "line\n")
	case 7:
		std, err := zap.NewStdLogAt(lg, l)
		if err != nil {
			panic(err)
		}
		std.Print("m")
	case 8:
		g := dl.g
		if named {
			[]func(...interface{}){g.Info, g.Warning, g.Error}[int(l)](c05str{env})
		} else {
			[]func(string, ...interface{}){g.Infof, g.Warningf, g.Errorf}[int(l)]("%v", c05str{env})
		}
	case 9:
		g := dl.g
		[]func(...interface{}){g.Infoln, g.Warningln, g.Errorln}[int(l)](c05str{env})
	case 10, 11:
		g := dl.g
		if l == zapcore.DebugLevel {
			g = dl.gd
		}
		fatal := l == zapcore.FatalLevel
		switch {
		case fam == 10 && !fatal && named:
			g.Print(c05str{env})
		case fam == 10 && !fatal:
			g.Printf("%v", c05str{env})
		case fam == 10 && named:
			g.Fatal(c05str{env})
		case fam == 10:
			g.Fatalf("%v", c05str{env})
		case !fatal:
			g.Println(c05str{env})
		default:
			g.Fatalln(c05str{env})
		}
	}
}

// levels a family can be asked to log at
func c05famLevels(fam int) []int8 {
	switch fam {
	case 7:
		return []int8{-1, 0, 1, 2, 3, 4, 5}
	case 8, 9:
		return []int8{0, 1, 2}
	case 10, 11:
		return []int8{-1, 0, 5}
	}
	return nil // any
}

func c05run(cs *c05case) (obs SX, delivered, silent int) {
	env := c05newEnv(cs)
	hs := c05newHandles(env) // the other handles on the cells exist before the cores do
	core := env.build(cs.tree)
	opts := []zap.Option{zap.WithFatalHook(c05term{}), zap.WithPanicHook(c05term{}), zap.Development(), zap.ErrorOutput(zapcore.AddSync(io.Discard))}
	var root *zap.Logger
	if cs.viaConfig() {
		root = hs.buildViaConfig(core, opts)
	} else {
		root = zap.New(core, opts...)
	}
	// every logger derived so far with its sugar and gRPC front ends; cur is the one the calls go to
	loggers := []*c05lg{c05newLg(root)}
	cur := loggers[0]
	outs := make([]SX, 0, len(cs.ops))
	for i, o := range cs.ops {
		lg := cur.lg
		switch o.kind {
		case 0:
			hs.handle(o.a, o.hk).SetLevel(zapcore.Level(o.v))
			outs = append(outs, L())
		case 6:
			ok, after := hs.update(o.a, o.route, o.hk, o.text)
			outs = append(outs, L(Bool(ok), I(int(after)), I(int(env.cells[o.a].Level()))))
		case 7:
			outs = append(outs, I(int(hs.handle(o.a, o.hk).Level())))
		case 8:
			if o.n < len(loggers) {
				cur = loggers[o.n]
			}
			outs = append(outs, L())
		case 1:
			env.events = env.events[:0]
			env.samp = env.samp[:0]
			env.evals = 0
			c05call(env, cur, o.fam, zapcore.Level(o.v), (i+o.fam)%2 == 0)
			evs := make([]SX, len(env.events))
			for k, e := range env.events {
				evs[k] = L(I(e.kind), I(e.id))
			}
			cnt := make([]SX, len(cs.obs))
			total := len(env.events)
			for k, id := range cs.obs {
				n := 0
				if lg := env.obsLogs[id]; lg != nil {
					n = len(lg.TakeAll())
				}
				cnt[k] = I(n)
				total += n
			}
			if total > 0 {
				delivered++
			} else {
				silent++
			}
			reps := make([]SX, len(env.samp))
			for k, r := range env.samp {
				reps[k] = L(I(r.k), Bool(r.dropped))
			}
			outs = append(outs, L(L(evs...), L(cnt...), I(env.evals), L(reps...)))
		case 2:
			outs = append(outs, Bool(lg.Core().Enabled(zapcore.Level(o.v))))
		case 3:
			outs = append(outs, L(I(int(lg.Level())), I(int(zapcore.LevelOf(lg.Core())))))
		case 4:
			outs = append(outs, Bool(cur.g.V(o.n)))
		case 5:
			cur = c05newLg(c05derive(env, lg, o, i))
			loggers = append(loggers, cur)
			outs = append(outs, L())
		}
	}
	return L(I(env.nerr), L(outs...)), delivered, silent
}

func c05emit(c *Ctx, cs *c05case, class string) {
	defer func() {
		if r := recover(); r != nil {
			c.Viol(fmt.Sprintf("panic escaped from a log call: %v", r), c05input(cs))
		}
	}()
	obs, delivered, silent := c05run(cs)
	nodes, leaves, wrappers := cs.shownTree().size()
	nt := "0"
	if leaves >= 2 && wrappers >= 1 && delivered > 0 && silent > 0 {
		nt = "1"
	}
	c.Emit(c05input(cs), obs, map[string]string{"nt": nt, "class": class, "nodes": fmt.Sprint(nodes), "ops": fmt.Sprint(len(cs.ops))})
}

func c05input(cs *c05case) SX {
	cells := make([]SX, len(cs.cells))
	for i, v := range cs.cells {
		cells[i] = I(int(v))
	}
	obs := make([]SX, len(cs.obs))
	for i, v := range cs.obs {
		obs[i] = I(v)
	}
	ops := make([]SX, len(cs.ops))
	for i, o := range cs.ops {
		ops[i] = o.sx()
	}
	if cs.viaConfig() {
		return L(cs.shownTree().sx(), L(cells...), L(obs...), L(ops...), I(1))
	}
	return L(cs.tree.sx(), L(cells...), L(obs...), L(ops...))
}

// ---------- generators ----------
type c05gen struct {
	r        *RNG
	ncells   int
	cells    []int8
	leaf     int
	hook     int
	obs      []int
	dropping bool // produce samplers that really drop (tag 8); C06's model knows only tag 5
}

// the messages the front-end families log (Model.v msg_class): the sampler counts per level and
// message bucket, so the three must fall into distinct buckets
func init() {
	fnv := func(s string) uint32 {
		h := uint32(2166136261)
		for i := 0; i < len(s); i++ {
			h ^= uint32(s[i])
			h *= 16777619
		}
		return h % 4096
	}
	if a, b, c := fnv("m"), fnv("payload"), fnv("line"); a == b || a == c || b == c {
		panic("c05: the harness messages share a sampler bucket")
	}
}

func (g *c05gen) sampler(inner *c05node) *c05node {
	if !g.dropping || g.r.Chance(20) {
		return &c05node{tag: 5, kids: []*c05node{inner}}
	}
	n := &c05node{tag: 8, kids: []*c05node{inner}, first: g.r.Range(0, 3)}
	if g.r.Chance(60) {
		n.there = g.r.Range(1, 4)
	}
	return n
}

var c05oddLevels = []int8{-128, -100, -3, -2, 6, 7, 8, 50, 127}

func (g *c05gen) level() int8 {
	if g.r.Chance(80) {
		return int8(g.r.Range(-1, 5))
	}
	if g.r.Chance(50) {
		return c05oddLevels[g.r.Intn(len(c05oddLevels))]
	}
	return int8(g.r.Range(-128, 127))
}

func (g *c05gen) enabler() *c05en {
	x := g.r.Intn(100)
	switch {
	case x < 30:
		return &c05en{kind: 0, t: g.level()}
	case x < 55 && g.ncells > 0:
		return &c05en{kind: 1, cell: g.r.Intn(g.ncells)}
	}
	e := &c05en{kind: 2}
	switch g.r.Intn(5) {
	case 0: // monotone over the whole range
		t := int(g.level())
		for l := -128; l <= 127; l++ {
			e.tbl[l+128] = l >= t
		}
	case 1: // random subset of the valid levels only
		for l := -1; l <= 5; l++ {
			e.tbl[l+128] = g.r.Bool()
		}
	case 2: // random everywhere
		p := g.r.Range(10, 90)
		for i := range e.tbl {
			e.tbl[i] = g.r.Chance(p)
		}
	case 3: // all or nothing
		b := g.r.Chance(70)
		for i := range e.tbl {
			e.tbl[i] = b
		}
	case 4: // random on the valid levels, constant outside
		b := g.r.Bool()
		for i := range e.tbl {
			e.tbl[i] = b
		}
		for l := -1; l <= 5; l++ {
			e.tbl[l+128] = g.r.Chance(60)
		}
	}
	return e
}

// an enabler that only narrows what the (real) inner core enables on the valid levels
func (g *c05gen) narrowing(inner *c05node) *c05en {
	env := c05newEnv(&c05case{cells: g.cells})
	core := env.build(inner)
	e := &c05en{kind: 2}
	out := g.r.Bool()
	for i := range e.tbl {
		e.tbl[i] = out && g.r.Bool()
	}
	for l := -1; l <= 5; l++ {
		e.tbl[l+128] = core.Enabled(zapcore.Level(l)) && g.r.Chance(70)
	}
	return e
}

func (g *c05gen) tree(depth int) *c05node { return g.subtree(depth, true) }

func (g *c05gen) subtree(depth int, root bool) *c05node {
	x := g.r.Intn(100)
	if depth <= 0 {
		x = x % 34
	} else if root && g.r.Chance(85) {
		x = 34 + x%52 // a tee, hooked or increase-level core at the root
	}
	switch {
	case x < 30:
		n := &c05node{tag: 0, id: g.leaf, en: g.enabler()}
		if g.r.Chance(50) {
			g.obs = append(g.obs, g.leaf)
		}
		g.leaf++
		return n
	case x < 34:
		return &c05node{tag: 1}
	case x < 58:
		k := g.r.Range(0, 4)
		if g.r.Chance(80) {
			k = g.r.Range(2, 4)
		}
		n := &c05node{tag: 2}
		for i := 0; i < k; i++ {
			kid := g.subtree(depth-1, false)
			if g.dropping && g.r.Chance(25) {
				kid = g.sampler(kid) // a sampled branch next to its siblings
			}
			n.kids = append(n.kids, kid)
		}
		return n
	case x < 72:
		inner := g.subtree(depth-1, false)
		n := &c05node{tag: 3, id: g.hook, kids: []*c05node{inner}}
		g.hook++
		return n
	case x < 86:
		inner := g.subtree(depth-1, false)
		var en *c05en
		switch y := g.r.Intn(100); {
		case y < 45:
			en = g.narrowing(inner)
		case y < 70:
			en = &c05en{kind: 0, t: int8(g.r.Range(0, 6))}
		default:
			en = g.enabler()
		}
		return &c05node{tag: 4, en: en, kids: []*c05node{inner}}
	case x < 91:
		return g.sampler(g.subtree(depth-1, false))
	case x < 96:
		return &c05node{tag: 6, kids: []*c05node{g.subtree(depth-1, false)}}
	}
	return &c05node{tag: 7, kids: []*c05node{g.subtree(depth-1, false)}}
}

func c05newGen(r *RNG) *c05gen {
	g := &c05gen{r: r}
	g.ncells = r.Intn(4)
	for i := 0; i < g.ncells; i++ {
		g.cells = append(g.cells, g.level())
	}
	return g
}

func (g *c05gen) callOp() c05op {
	fam := g.r.Intn(12)
	lv := c05famLevels(fam)
	var l int8
	if lv != nil {
		l = lv[g.r.Intn(len(lv))]
	} else {
		l = g.level()
	}
	return c05op{kind: 1, fam: fam, v: l}
}

func thr(t int8) *c05en { return &c05en{kind: 0, t: t} }
func atom(a int) *c05en { return &c05en{kind: 1, cell: a} }
func fnOf(f func(int) bool) *c05en {
	e := &c05en{kind: 2}
	for l := -128; l <= 127; l++ {
		e.tbl[l+128] = f(l)
	}
	return e
}
func leafN(id int, en *c05en) *c05node { return &c05node{tag: 0, id: id, en: en} }
func teeN(k ...*c05node) *c05node      { return &c05node{tag: 2, kids: k} }
func nopN() *c05node                   { return &c05node{tag: 1} }
func wrapN(tag int, k *c05node) *c05node {
	return &c05node{tag: tag, kids: []*c05node{k}}
}
func hookN(k *c05node, h int) *c05node { return &c05node{tag: 3, id: h, kids: []*c05node{k}} }
func filtN(k *c05node, en *c05en) *c05node {
	return &c05node{tag: 4, en: en, kids: []*c05node{k}}
}
func sampN(k *c05node, first, thereafter int) *c05node {
	return &c05node{tag: 8, kids: []*c05node{k}, first: first, there: thereafter}
}

// the same level+message again and again (the three messages of the harness, two families sharing
// "m"), at every valid level and two out-of-range ones, with With and the level queries in between:
// the history a sampler needs to reach its drop decision
func c05repeatOps(rounds int) []c05op {
	var ops []c05op
	for r := 0; r < rounds; r++ {
		for _, l := range []int8{-2, -1, 0, 1, 2, 3, 4, 5, 6} {
			for _, fam := range []int{0, 2, 6, 4} {
				ops = append(ops, c05op{kind: 1, fam: fam, v: l})
			}
			ops = append(ops, c05op{kind: 2, v: l})
		}
		ops = append(ops, c05op{kind: 3})
		if r == rounds/2 {
			ops = append(ops, c05op{kind: 5})
		}
	}
	return ops
}

// trees in which a sampler that drops sits next to, above or below the other kinds of core
func c05directedSamplers(c *Ctx) {
	never := fnOf(func(int) bool { return false })
	odd := fnOf(func(l int) bool { return l%2 != 0 })
	trees := []struct {
		t     *c05node
		cells []int8
		obs   []int
	}{
		// a sampled branch AFTER an accepting (hooked) branch of a tee, and before one
		{teeN(hookN(leafN(0, thr(-1)), 7), sampN(leafN(1, thr(-1)), 2, 0)), nil, []int{0, 1}},
		{teeN(leafN(0, thr(0)), sampN(leafN(1, thr(0)), 1, 0)), nil, nil},
		{teeN(sampN(leafN(0, thr(-1)), 1, 2), leafN(1, thr(1)), sampN(hookN(leafN(2, thr(0)), 4), 0, 3), hookN(leafN(3, odd), 5)), nil, []int{1}},
		// samplers in samplers, a sampler over a tee, a tee of samplers only
		{sampN(teeN(leafN(0, thr(-1)), sampN(leafN(1, thr(0)), 1, 0), leafN(2, thr(1))), 3, 2), nil, []int{2}},
		{teeN(sampN(leafN(0, thr(-1)), 0, 0), sampN(leafN(1, thr(-1)), 0, 1), sampN(leafN(2, thr(-1)), 1, 1), sampN(sampN(leafN(3, thr(-1)), 2, 2), 1, 3)), nil, nil},
		// below and above hooked, increase-level, lazy and With wrappers, after an accepting branch
		{teeN(leafN(0, thr(-1)), hookN(sampN(leafN(1, thr(-1)), 1, 0), 2)), nil, nil},
		{teeN(leafN(0, thr(-1)), filtN(sampN(leafN(1, thr(-1)), 1, 0), thr(1)), sampN(filtN(leafN(2, thr(-1)), thr(2)), 1, 2)), nil, []int{0}},
		{teeN(leafN(0, thr(-1)), wrapN(6, sampN(leafN(1, thr(0)), 1, 0)), wrapN(7, sampN(wrapN(6, leafN(2, thr(0))), 2, 1))), nil, nil},
		{wrapN(7, teeN(hookN(leafN(0, thr(0)), 1), sampN(hookN(leafN(1, thr(0)), 3), 1, 0))), nil, []int{1}},
		// a sampler that drops next to a sampler whose core is disabled, a no-op core and an empty tee
		{teeN(leafN(0, thr(-1)), sampN(leafN(1, never), 0, 0), sampN(nopN(), 0, 0), sampN(teeN(), 0, 0), sampN(leafN(2, thr(-1)), 1, 0)), nil, nil},
		// shared AtomicLevels around the samplers
		{teeN(leafN(0, atom(0)), sampN(leafN(1, atom(1)), 1, 1), sampN(leafN(2, atom(0)), 1, 0)), []int8{-1, 0}, []int{2}},
		// alone and as the first branch (the entry handed in is nil)
		{sampN(leafN(0, thr(-1)), 2, 3), nil, nil},
		{teeN(sampN(leafN(0, thr(-1)), 1, 0), leafN(1, thr(-1))), nil, nil},
	}
	anyFams := []int{0, 1, 2, 3, 4, 5, 6}
	for _, t := range trees {
		c05emit(c, &c05case{tree: t.t, cells: t.cells, obs: t.obs, ops: c05repeatOps(7)}, "directed-sampler")
		c05emit(c, &c05case{tree: t.t, cells: t.cells, obs: t.obs, ops: append(c05allFamOps(), c05allFamOps()...)}, "directed-sampler-fams")
		c05emit(c, &c05case{tree: t.t, cells: t.cells, obs: t.obs, ops: append(c05sweepOps(anyFams), c05sweepOps([]int{0})...)}, "directed-sampler")
		if len(t.cells) > 0 {
			var ops []c05op
			for a := range t.cells {
				for _, v := range []int8{-1, 1, 0, 3, -128, 6, 0} {
					ops = append(ops, c05op{kind: 0, a: a, v: v}, c05op{kind: 3})
					for i := 0; i < 3; i++ {
						for l := int8(-1); l <= 2; l++ {
							ops = append(ops, c05op{kind: 1, fam: i % 2 * 4, v: l})
						}
					}
				}
			}
			c05emit(c, &c05case{tree: t.t, cells: t.cells, obs: t.obs, ops: ops}, "directed-sampler-hist")
		}
	}
}

// every level through the arbitrary-level families, Enabled at every level, Level, V
func c05sweepOps(fams []int) []c05op {
	var ops []c05op
	ops = append(ops, c05op{kind: 3})
	for n := -1; n <= 4; n++ {
		ops = append(ops, c05op{kind: 4, n: n})
	}
	for l := -128; l <= 127; l++ {
		ops = append(ops, c05op{kind: 2, v: int8(l)})
		ops = append(ops, c05op{kind: 1, fam: fams[(l+128)%len(fams)], v: int8(l)})
	}
	return ops
}

// all front-end families at the levels they can log at (valid levels for the generic ones)
func c05allFamOps() []c05op {
	var ops []c05op
	for fam := 0; fam < 12; fam++ {
		lv := c05famLevels(fam)
		if lv == nil {
			lv = []int8{-1, 0, 1, 2, 3, 4, 5, 6, -2}
		}
		for _, l := range lv {
			ops = append(ops, c05op{kind: 1, fam: fam, v: l}, c05op{kind: 1, fam: fam, v: l})
		}
	}
	return ops
}

func c05directed(c *Ctx) {
	anyFams := []int{0, 1, 2, 3, 4, 5, 6}
	never := fnOf(func(int) bool { return false })
	always := fnOf(func(int) bool { return true })
	validOnly := fnOf(func(l int) bool { return l >= -1 && l <= 5 })
	trees := []struct {
		t     *c05node
		cells []int8
		obs   []int
	}{
		// a hooked core that declines, after an accepting branch of a tee (DESIGN section 6 #7)
		{teeN(leafN(0, thr(-1)), hookN(leafN(1, thr(2)), 7)), nil, nil},
		{teeN(leafN(0, thr(-1)), hookN(leafN(1, thr(2)), 7)), nil, []int{0, 1}},
		{teeN(hookN(leafN(0, thr(2)), 3), leafN(1, thr(-1)), hookN(hookN(leafN(2, thr(1)), 4), 5)), nil, []int{1}},
		// a tee all of whose branches are disabled (#6)
		{teeN(leafN(0, never), leafN(1, never)), nil, nil},
		{teeN(leafN(0, atom(0)), nopN(), leafN(1, atom(0))), []int8{100}, []int{1}},
		{teeN(leafN(0, atom(0)), leafN(1, thr(3))), []int8{-7}, nil},
		// a filter over function enablers: out-of-range levels (#8)
		{filtN(leafN(0, validOnly), always), nil, nil},
		{filtN(teeN(leafN(0, validOnly), leafN(1, thr(1))), always), nil, []int{1}},
		// a filter whose wrapped core is raised later through a shared AtomicLevel
		{filtN(leafN(0, atom(0)), thr(1)), []int8{0}, nil},
		{filtN(teeN(leafN(0, atom(0)), leafN(1, atom(1))), atom(2)), []int8{0, -1, 1}, []int{0}},
		// rejected and accepted increases, nested wrappers
		{filtN(leafN(0, thr(1)), thr(0)), nil, nil},
		{wrapN(5, filtN(wrapN(6, teeN(leafN(0, thr(0)), hookN(leafN(1, thr(2)), 1))), thr(1))), nil, []int{0}},
		{wrapN(7, wrapN(6, hookN(teeN(leafN(0, thr(0)), leafN(1, never)), 2))), nil, nil},
		{nopN(), nil, nil},
		{teeN(), nil, nil},
		{teeN(leafN(0, thr(0))), nil, nil},
	}
	// the witnesses of the _refuted lemmas in coq/theories/C05/Proofs.v, alone
	c05emit(c, &c05case{tree: teeN(leafN(0, thr(-1)), hookN(leafN(1, thr(2)), 7)), ops: []c05op{{kind: 1, fam: 0, v: 0}}}, "witness")
	c05emit(c, &c05case{tree: teeN(leafN(0, never), leafN(1, never)), ops: []c05op{{kind: 3}}}, "witness")
	c05emit(c, &c05case{tree: filtN(leafN(0, validOnly), always), ops: []c05op{{kind: 2, v: 100}}}, "witness")
	c05emit(c, &c05case{tree: filtN(leafN(0, atom(0)), thr(1)), cells: []int8{0}, ops: []c05op{{kind: 3}, {kind: 0, a: 0, v: 2}, {kind: 3}, {kind: 1, fam: 0, v: 1}}}, "witness")
	for _, t := range trees {
		c05emit(c, &c05case{tree: t.t, cells: t.cells, obs: t.obs, ops: c05sweepOps(anyFams)}, "directed")
		c05emit(c, &c05case{tree: t.t, cells: t.cells, obs: t.obs, ops: c05allFamOps()}, "directed-fams")
		if len(t.cells) > 0 {
			// raise / lower every cell through all interesting values, observing in between
			var ops []c05op
			for a := range t.cells {
				for _, v := range []int8{-128, -1, 0, 1, 2, 3, 5, 6, 7, 127, 0} {
					ops = append(ops, c05op{kind: 0, a: a, v: v}, c05op{kind: 3})
					for l := int8(-2); l <= 7; l++ {
						ops = append(ops, c05op{kind: 2, v: l}, c05op{kind: 1, fam: int(l+2) % 7, v: l})
					}
					ops = append(ops, c05op{kind: 4, n: 0}, c05op{kind: 4, n: 3})
				}
			}
			c05emit(c, &c05case{tree: t.t, cells: t.cells, obs: t.obs, ops: ops}, "directed-hist")
		}
	}
}

func c05(c *Ctx) {
	c05directed(c)
	c05directedSamplers(c)
	c05directedUpdates(c)
	c05directedSiblings(c)
	// Fork: NewRNG's streams for consecutive seeds are shifted copies of each other
	r := NewRNG(c.Seed).Fork()
	nSweep, nHist, nSib := 300, 4500, 500
	if c.Thorough {
		nSweep, nHist, nSib = 6000, 80000, 10000
	}
	anyFams := []int{0, 1, 2, 3, 4, 5, 6}
	for k := 0; k < nSweep; k++ {
		g := c05newGen(r.Fork())
		g.dropping = true
		t := g.tree(g.r.Range(1, 5))
		fams := anyFams
		if g.r.Chance(50) {
			fams = []int{anyFams[g.r.Intn(len(anyFams))]}
		}
		c05emit(c, &c05case{tree: t, cells: g.cells, obs: g.obs, ops: c05sweepOps(fams)}, "sweep")
	}
	for k := 0; k < nHist; k++ {
		g := c05newGen(r.Fork())
		g.dropping = true
		if g.ncells == 0 && g.r.Chance(70) {
			g.ncells = g.r.Range(1, 3)
			for i := 0; i < g.ncells; i++ {
				g.cells = append(g.cells, g.level())
			}
		}
		t := g.tree(g.r.Range(1, 5))
		nops := g.r.Range(5, 60)
		var ops, calls []c05op
		nlg := 1
		for i := 0; i < nops; i++ {
			x := g.r.Intn(100)
			if len(calls) > 0 && g.r.Chance(20) {
				// the same call again: what a sampler counts
				ops = append(ops, calls[g.r.Intn(len(calls))])
				continue
			}
			switch {
			case x < 18 && g.ncells > 0:
				// SetLevel or a text by any route, through any kind of handle
				ops = append(ops, g.updateOp(g.r.Intn(g.ncells)))
			case x < 21 && g.ncells > 0:
				ops = append(ops, c05op{kind: 7, a: g.r.Intn(g.ncells), hk: g.r.Intn(4)})
			case x < 70:
				ops = append(ops, g.callOp())
				calls = append(calls, ops[len(ops)-1])
			case x < 82:
				ops = append(ops, c05op{kind: 2, v: g.level()})
			case x < 89:
				ops = append(ops, c05op{kind: 3})
			case x < 93:
				ops = append(ops, c05op{kind: 4, n: g.r.Range(-1, 5)})
			case x < 97:
				// a new logger derived from the current one
				o := c05op{kind: 5, n: g.r.Intn(8)}
				if o.n == 5 {
					o.v = int8(g.r.Range(-1, 6))
				}
				if o.n >= 6 {
					o.a = c05sibHook + nlg // one more hook on the current logger (c05_sib.go)
				}
				ops = append(ops, o)
				nlg++
			default:
				// back to a logger derived earlier
				ops = append(ops, c05op{kind: 8, n: g.r.Intn(nlg)})
			}
		}
		c05emit(c, &c05case{tree: t, cells: g.cells, obs: g.obs, ops: ops, mode: g.r.Intn(2)}, "hist")
	}
	c05randomSiblings(c, r, nSib)
}

func init() { registry["C05"] = c05 }

package main

import (
	"bytes"
	"context"
	"encoding/json"
	"errors"
	"fmt"
	"io"
	"log/slog"
	"math"
	"strconv"
	"strings"
	"time"

	"go.uber.org/zap"
	"go.uber.org/zap/exp/zapslog"
	"go.uber.org/zap/zapcore"
)

// C18: zapslog.Handler over a JSON core.  A case is a program:
//
//	(mask #name (cmd ...) [enabler])
//	cmd = (0 parent #group)            handlers = append(handlers, handlers[parent].WithGroup(group))
//	    | (1 parent (attr ...))        handlers = append(handlers, handlers[parent].WithAttrs(attrs))
//	    | (2 h level #msg (attr ...))  handlers[h].Enabled(level); handlers[h].Handle(record)
//	    | (3 mask)                     the core's LevelEnabler now enables exactly the zap levels of mask
//	    | (4 h level #msg (attr ...))  handlers[h].Enabled(level); slog.New(handlers[h]).LogAttrs(level, msg, attrs...)
//
// The core's enabler is dynamic: enabler 0 (omitted) = a zap.LevelEnablerFunc reading the
// current mask, enabler 1 = a zap.AtomicLevel moved with SetLevel (masks are then the
// thresholds 15 debug / 14 info / 12 warn / 8 error / 0 dpanic).  The root handler is built
// while the core is at the case's initial mask; (3 mask) moves the level while the handlers
// derived so far stay in use.
// Attributes are built with the real slog constructors and READ BACK from the slog values
// (Record.Attrs, Value.Kind/Group/LogValuer/Any), so the case holds what the handler really
// receives (GroupValue and Record.AddAttrs drop directly-empty groups on their own).
// Scalars travel with their JSON text computed from the standard library, KindAny values
// with the tree of their encoding/json text.  Observation: one out per Handle,
// (enabled 1 zaplevel #msg #logger tree) or (enabled 0), decoded from the JSON line with
// json.Decoder tokens (order and duplicate keys kept).

type c18lv struct{ v slog.Value }

func (l c18lv) LogValue() slog.Value { return l.v }

type c18stringer string

func (s c18stringer) String() string { return "S:" + string(s) }

type c18struct struct {
	A int    `json:"a"`
	B string `json:"b"`
}

type c18cmd struct {
	kind   int
	parent int
	group  string
	attrs  []slog.Attr
	level  slog.Level
	msg    string
	mask   int // kind 3
	// reuse of caller-owned values (c18reuse.go)
	pristine func() []slog.Attr // a fresh, structurally identical build of attrs (same LogValuers): the case text is read from it
	share    int                // kind 2: != 0 = the Record is built on first use and the same Record is handed to later Handles
	same     bool               // kinds 1, 4: the caller's slice itself is passed, not a copy
}

type c18stats struct {
	derive, handles, written                  int
	moves, afterMove                          int  // level moves; Handle/Log calls made after a level move
	special                                   bool // an empty attr / group / LogValuer / empty group name occurs
	groupsNamed                               int
	maxDepth                                  int
	jsonAgree, jsonEmpty, jsonDiffer, jsonErr int
	pending                                   map[*c18ctr]int64 // occurrences of each counting LogValuer read so far in the current command
	reuse                                     bool              // the program reuses attributes holding counting LogValuers
	mutated                                   bool              // a modification of the caller's values was already reported
}

// ---------- canonical trees ----------

// c18parse reads one JSON value from dec: objects become ((#key tree) ...), everything else
// a leaf: strings `"` + decoded bytes, numbers/literals their text, arrays a re-rendered text.
func c18parse(dec *json.Decoder) (SX, string, error) {
	tok, err := dec.Token()
	if err != nil {
		return nil, "", err
	}
	switch t := tok.(type) {
	case json.Delim:
		switch t {
		case '{':
			var kvs []SX
			var sb strings.Builder
			sb.WriteByte('{')
			first := true
			for dec.More() {
				kt, err := dec.Token()
				if err != nil {
					return nil, "", err
				}
				k, ok := kt.(string)
				if !ok {
					return nil, "", fmt.Errorf("non-string key %v", kt)
				}
				v, txt, err := c18parse(dec)
				if err != nil {
					return nil, "", err
				}
				kvs = append(kvs, L(Str(k), v))
				if !first {
					sb.WriteByte(',')
				}
				first = false
				sb.WriteString(strconv.Quote(k) + ":" + txt)
			}
			if _, err := dec.Token(); err != nil {
				return nil, "", err
			}
			sb.WriteByte('}')
			return L(kvs...), sb.String(), nil
		case '[':
			var sb strings.Builder
			sb.WriteByte('[')
			first := true
			for dec.More() {
				_, txt, err := c18parse(dec)
				if err != nil {
					return nil, "", err
				}
				if !first {
					sb.WriteByte(',')
				}
				first = false
				sb.WriteString(txt)
			}
			if _, err := dec.Token(); err != nil {
				return nil, "", err
			}
			sb.WriteByte(']')
			return Str(sb.String()), sb.String(), nil
		}
		return nil, "", fmt.Errorf("unexpected delimiter %v", t)
	case string:
		return Str(`"` + t), strconv.Quote(t), nil
	case json.Number:
		return Str(t.String()), t.String(), nil
	case bool:
		return Str(strconv.FormatBool(t)), strconv.FormatBool(t), nil
	case nil:
		return Str("null"), "null", nil
	}
	return nil, "", fmt.Errorf("unexpected token %v", tok)
}

func c18parseText(txt []byte) (SX, error) {
	dec := json.NewDecoder(bytes.NewReader(txt))
	dec.UseNumber()
	v, _, err := c18parse(dec)
	if err != nil {
		return nil, err
	}
	if _, err := dec.Token(); err != io.EOF {
		return nil, fmt.Errorf("trailing data")
	}
	return v, nil
}

// ---------- oracles (standard library only, never through zap) ----------

func c18floatText(f float64) string {
	switch {
	case math.IsNaN(f):
		return `"NaN`
	case math.IsInf(f, 1):
		return `"+Inf`
	case math.IsInf(f, -1):
		return `"-Inf`
	}
	return strconv.FormatFloat(f, 'f', -1, 64)
}

func c18anyTree(c *Ctx, a any) SX {
	var txt []byte
	var err error
	switch v := a.(type) {
	case error:
		txt, err = json.Marshal(v.Error())
	case fmt.Stringer:
		txt, err = json.Marshal(v.String())
	default:
		txt, err = json.Marshal(a)
	}
	if err != nil {
		c.Assume("encoding/json cannot marshal an Any payload: " + err.Error())
		return Str("null")
	}
	t, err := c18parseText(txt)
	if err != nil {
		c.Assume("encoding/json output does not parse: " + err.Error())
		return Str("null")
	}
	return t
}

func c18valueSX(c *Ctx, v slog.Value, st *c18stats, depth int) SX {
	if depth > st.maxDepth {
		st.maxDepth = depth
	}
	switch v.Kind() {
	case slog.KindBool:
		return L(I(0), I(0), Str(strconv.FormatBool(v.Bool())))
	case slog.KindDuration:
		return L(I(0), I(1), Str(strconv.FormatInt(int64(v.Duration()), 10)))
	case slog.KindFloat64:
		return L(I(0), I(2), Str(c18floatText(v.Float64())))
	case slog.KindInt64:
		return L(I(0), I(3), Str(strconv.FormatInt(v.Int64(), 10)))
	case slog.KindString:
		return L(I(0), I(4), Str(`"`+v.String()))
	case slog.KindTime:
		return L(I(0), I(5), Str(strconv.FormatInt(v.Time().UnixNano(), 10)))
	case slog.KindUint64:
		return L(I(0), I(6), Str(strconv.FormatUint(v.Uint64(), 10)))
	case slog.KindGroup:
		st.special = true
		return L(I(2), c18attrsSX(c, v.Group(), st, depth+1))
	case slog.KindLogValuer:
		st.special = true
		if ctr, ok := v.LogValuer().(*c18ctr); ok {
			// the value of THIS resolution: occurrence j in a call made after n resolutions is result(n+j)
			if st.pending == nil {
				st.pending = map[*c18ctr]int64{}
			}
			st.pending[ctr]++
			k := ctr.n + st.pending[ctr]
			return L(I(3), c18valueSX(c, ctr.result(k, true), st, depth+1), I(ctr.id), Z(k))
		}
		return L(I(3), c18valueSX(c, v.LogValuer().LogValue(), st, depth+1))
	default:
		a := v.Any()
		if a == nil {
			st.special = true
		}
		return L(I(1), Bool(a == nil), c18anyTree(c, a))
	}
}

func c18attrsSX(c *Ctx, attrs []slog.Attr, st *c18stats, depth int) SX {
	out := make([]SX, len(attrs))
	for i, a := range attrs {
		out[i] = L(Str(a.Key), c18valueSX(c, a.Value, st, depth))
	}
	return L(out...)
}

// ---------- running the real handler ----------

var c18cfg = zapcore.EncoderConfig{
	MessageKey:     "M",
	LevelKey:       "L",
	NameKey:        "N",
	StacktraceKey:  "S", // the handler's default AddStacktraceAt(Error): last member of the top-level object
	LineEnding:     "\n",
	EncodeLevel:    zapcore.LowercaseLevelEncoder,
	EncodeTime:     zapcore.EpochNanosTimeEncoder,
	EncodeDuration: zapcore.NanosDurationEncoder,
}

var c18levelNames = map[string]int{"debug": -1, "info": 0, "warn": 1, "error": 2}

// decode one JSON line of the core: {"L":level,["N":logger,]"M":msg, attrs...}
func c18decodeLine(line []byte, name string) (lvl int, msg, logger string, tree SX, err error) {
	if len(line) == 0 || line[len(line)-1] != '\n' || bytes.Count(line, []byte("\n")) != 1 {
		return 0, "", "", nil, fmt.Errorf("not exactly one line")
	}
	t, err := c18parseText(line[:len(line)-1])
	if err != nil {
		return 0, "", "", nil, err
	}
	top, ok := t.(sl)
	if !ok {
		return 0, "", "", nil, fmt.Errorf("not an object")
	}
	kvs := top.l
	take := func(key string) (string, error) {
		if len(kvs) == 0 {
			return "", fmt.Errorf("missing %s", key)
		}
		kv := kvs[0].(sl).l
		if string(kv[0].(sb).b) != key {
			return "", fmt.Errorf("expected key %s, found %q", key, kv[0].(sb).b)
		}
		leaf, ok := kv[1].(sb)
		if !ok || len(leaf.b) == 0 || leaf.b[0] != '"' {
			return "", fmt.Errorf("key %s is not a string", key)
		}
		kvs = kvs[1:]
		return string(leaf.b[1:]), nil
	}
	ls, err := take("L")
	if err != nil {
		return 0, "", "", nil, err
	}
	lvl, ok = c18levelNames[ls]
	if !ok {
		lvl = 99
	}
	if name != "" {
		if logger, err = take("N"); err != nil {
			return 0, "", "", nil, err
		}
	}
	if msg, err = take("M"); err != nil {
		return 0, "", "", nil, err
	}
	if lvl == 2 {
		// records at slog.LevelError and above carry the stack trace: a string under StacktraceKey, written
		// after every open group has been closed, so it is the last member of the top-level object and no
		// group holds it (a stack trace inside a group is a member that is not one of the group's attributes)
		if len(kvs) == 0 {
			return 0, "", "", nil, fmt.Errorf("error-level record without a top-level stack trace")
		}
		kv := kvs[len(kvs)-1].(sl).l
		leaf, ok := kv[1].(sb)
		if string(kv[0].(sb).b) != "S" || !ok || len(leaf.b) == 0 || leaf.b[0] != '"' {
			return 0, "", "", nil, fmt.Errorf("error-level record: last top-level member is %q, not the stack trace", kv[0].(sb).b)
		}
		kvs = kvs[:len(kvs)-1]
	}
	return lvl, msg, logger, L(kvs...), nil
}

// shape of a tree: keys only
func c18shape(t SX) string {
	switch v := t.(type) {
	case sl:
		var w strings.Builder
		w.WriteByte('{')
		for _, kv := range v.l {
			p := kv.(sl).l
			w.WriteString(strconv.Quote(string(p[0].(sb).b)))
			w.WriteByte(':')
			w.WriteString(c18shape(p[1]))
			w.WriteByte(',')
		}
		w.WriteByte('}')
		return w.String()
	}
	return "_"
}

// c18prune removes members that are objects without members (recursively)
func c18prune(t SX) SX {
	v, ok := t.(sl)
	if !ok {
		return t
	}
	var out []SX
	for _, kv := range v.l {
		p := kv.(sl).l
		child := c18prune(p[1])
		if cl, isNode := child.(sl); isNode && len(cl.l) == 0 {
			continue
		}
		out = append(out, L(p[0], child))
	}
	return L(out...)
}

func c18copyAttrs(a []slog.Attr) []slog.Attr { return append([]slog.Attr(nil), a...) }

// the AtomicLevel threshold whose enabled set over the four mapped levels is mask
func c18atomLevel(mask int) (zapcore.Level, bool) {
	switch mask {
	case 15:
		return zapcore.DebugLevel, true
	case 14:
		return zapcore.InfoLevel, true
	case 12:
		return zapcore.WarnLevel, true
	case 8:
		return zapcore.ErrorLevel, true
	case 0:
		return zapcore.DPanicLevel, true
	}
	return 0, false
}

func c18run(c *Ctx, mask int, name string, cmds []c18cmd, class string) {
	c18runDyn(c, mask, name, cmds, class, 0)
}

func c18runDyn(c *Ctx, mask int, name string, cmds []c18cmd, class string, enabler int) {
	st := &c18stats{}
	var buf, jbuf bytes.Buffer
	cur := mask // the level of the core NOW
	var enab zapcore.LevelEnabler
	var atom zap.AtomicLevel
	if enabler == 1 {
		l0, ok := c18atomLevel(mask)
		if !ok {
			panic("c18: AtomicLevel case with a mask that is not a threshold")
		}
		atom = zap.NewAtomicLevelAt(l0)
		enab = atom
	} else {
		enab = zap.LevelEnablerFunc(func(l zapcore.Level) bool {
			return l >= -1 && l <= 2 && cur&(1<<uint(int(l)+1)) != 0
		})
	}
	core := zapcore.NewCore(zapcore.NewJSONEncoder(c18cfg), zapcore.AddSync(&buf), enab)
	handlers := []slog.Handler{zapslog.NewHandler(core, zapslog.WithName(name))}
	// second opinion on the reading of the contract: the standard library's JSONHandler
	// (through the checks slog.Logger makes: an empty group name never reaches it)
	jh := []slog.Handler{slog.NewJSONHandler(&jbuf, &slog.HandlerOptions{Level: slog.Level(math.MinInt)})}
	ctx := context.Background()
	xs := make([]SX, 0, len(cmds))
	var outs []SX
	shared := map[int]slog.Record{}
	// the caller's values must be what they were before the call (snapshots taken just before)
	intact := func(call string, attrs []slog.Attr, snap []c18snapT, recAttrs []slog.Attr, recSnap []c18snapT) {
		d := c18snapDiff("attrs", attrs, snap)
		if d == "" && recSnap != nil {
			d = c18snapDiff("record", recAttrs, recSnap)
		}
		if d == "" {
			return
		}
		c18mutated++
		if st.mutated || len(c18viols) >= 3 {
			return
		}
		st.mutated = true
		replay := L(I(mask), Str(name), L(xs...))
		if enabler != 0 {
			replay = L(I(mask), Str(name), L(xs...), I(enabler))
		}
		c18viols = append(c18viols, c18viol{fmt.Sprintf("zapslog.Handler modified the caller's attributes during %s (last command of the replay): %s", call, d), replay})
	}
	defer func() {
		input := L(I(mask), Str(name), L(xs...))
		if enabler != 0 {
			input = L(I(mask), Str(name), L(xs...), I(enabler))
		}
		if r := recover(); r != nil {
			// reported after the last case line (the driver pairs verdicts with lines by position)
			c18viols = append(c18viols, c18viol{fmt.Sprintf("panic escaped from zapslog.Handler: %v", r), L(I(mask), Str(name), c18cmdsSX(c, cmds))})
			return
		}
		nt := "0"
		if st.derive >= 2 && st.written >= 1 && st.special {
			nt = "1"
		}
		if st.derive >= 1 && st.written >= 1 && st.afterMove >= 1 {
			nt = "1"
		}
		c.Emit(input, L(outs...), map[string]string{
			"nt": nt, "class": class, "derive": strconv.Itoa(st.derive), "handles": strconv.Itoa(st.handles),
			"written": strconv.Itoa(st.written), "depth": strconv.Itoa(st.maxDepth), "moves": strconv.Itoa(st.moves),
		})
		c18json[0] += st.jsonAgree
		c18json[1] += st.jsonDiffer
		c18json[2] += st.jsonErr
		c18json[3] += st.jsonEmpty
	}()
	for _, cm := range cmds {
		switch cm.kind {
		case 0:
			xs = append(xs, L(I(0), I(cm.parent), Str(cm.group)))
			handlers = append(handlers, handlers[cm.parent].WithGroup(cm.group))
			if cm.group == "" {
				st.special = true
				jh = append(jh, jh[cm.parent])
			} else {
				jh = append(jh, jh[cm.parent].WithGroup(cm.group))
			}
			st.derive++
		case 1:
			st.pending = nil
			src, arg := cm.attrs, c18copyAttrs(cm.attrs)
			if cm.pristine != nil {
				src = cm.pristine()
				st.reuse = true
			}
			if cm.same {
				arg = cm.attrs
			}
			xs = append(xs, L(I(1), I(cm.parent), c18attrsSX(c, src, st, 1)))
			snap := c18snap(cm.attrs)
			handlers = append(handlers, handlers[cm.parent].WithAttrs(arg))
			intact("WithAttrs", cm.attrs, snap, nil, nil)
			jh = append(jh, jh[cm.parent].WithAttrs(c18copyAttrs(cm.attrs)))
			st.derive++
		case 3:
			xs = append(xs, L(I(3), I(cm.mask)))
			cur = cm.mask
			if enabler == 1 {
				l, ok := c18atomLevel(cm.mask)
				if !ok {
					panic("c18: AtomicLevel case with a mask that is not a threshold")
				}
				atom.SetLevel(l)
			}
			st.moves++
		case 2, 4:
			st.pending = nil
			rec, have := shared[cm.share]
			if cm.share == 0 || !have {
				rec = slog.NewRecord(time.Time{}, cm.level, cm.msg, 0)
				rec.AddAttrs(c18copyAttrs(cm.attrs)...)
				if cm.share != 0 {
					shared[cm.share] = rec
				}
			}
			seen := c18recordAttrs(rec)
			if cm.pristine != nil {
				// what the handler receives, read from values it has never seen
				prec := slog.NewRecord(time.Time{}, cm.level, cm.msg, 0)
				prec.AddAttrs(cm.pristine()...)
				seen = c18recordAttrs(prec)
				st.reuse = true
			}
			xs = append(xs, L(I(cm.kind), I(cm.parent), Z(int64(cm.level)), Str(cm.msg), c18attrsSX(c, seen, st, 1)))
			h := handlers[cm.parent]
			en := h.Enabled(ctx, cm.level)
			buf.Reset()
			snap, recSnap := c18snap(cm.attrs), c18snap(c18recordAttrs(rec))
			var err error
			switch {
			case cm.kind == 2 && cm.share != 0:
				err = h.Handle(ctx, rec) // the caller's Record, again
			case cm.kind == 2:
				err = h.Handle(ctx, rec.Clone())
			case cm.same:
				slog.New(h).LogAttrs(ctx, cm.level, cm.msg, cm.attrs...)
			default:
				// what a user of log/slog does: the Logger asks Enabled and calls Handle only if so
				slog.New(h).LogAttrs(ctx, cm.level, cm.msg, c18copyAttrs(cm.attrs)...)
			}
			intact(map[int]string{2: "Handle", 4: "Logger.LogAttrs"}[cm.kind], cm.attrs, snap, c18recordAttrs(rec), recSnap)
			st.handles++
			if st.moves > 0 {
				st.afterMove++
			}
			line := buf.Bytes()
			switch {
			case err != nil:
				outs = append(outs, L(Bool(en), I(3), Str(err.Error())))
			case len(line) == 0:
				outs = append(outs, L(Bool(en), I(0)))
			default:
				lvl, msg, logger, tree, derr := c18decodeLine(line, name)
				if derr != nil {
					outs = append(outs, L(Bool(en), I(2), Str(derr.Error()), B(line)))
					break
				}
				st.written++
				outs = append(outs, L(Bool(en), I(1), I(lvl), Str(msg), Str(logger), tree))
				// second opinion
				jbuf.Reset()
				if jerr := jh[cm.parent].Handle(ctx, rec.Clone()); st.reuse {
					// the reference handler is one more user of the same values (it resolved the
					// counting LogValuers once more: its values and shapes are those of a later use)
				} else if jerr != nil {
					st.jsonErr++
					c18jsonErrSample = "Handle: " + jerr.Error()
				} else if jt, perr := c18parseText(bytes.TrimRight(jbuf.Bytes(), "\n")); perr != nil {
					st.jsonErr++
					c18jsonErrSample = "parse: " + perr.Error() + ": " + strings.TrimSpace(jbuf.String())
				} else if top, ok := jt.(sl); !ok || len(top.l) < 2 {
					st.jsonErr++
				} else if c18shape(L(top.l[2:]...)) == c18shape(tree) { // drop "level","msg" (time is zero: omitted)
					st.jsonAgree++
				} else if c18shape(c18prune(L(top.l[2:]...))) == c18shape(tree) {
					st.jsonEmpty++ // the standard handler shows {} for a group left without members
					if c18jsonSample == "" {
						c18jsonSample = strings.TrimSpace(jbuf.String()) + "  vs  " + strings.TrimSpace(string(line))
					}
				} else {
					st.jsonDiffer++
					if c18jsonSample2 == "" {
						c18jsonSample2 = strings.TrimSpace(jbuf.String()) + "  vs  " + strings.TrimSpace(string(line))
					}
				}
			}
		}
	}
}

func c18cmdsSX(c *Ctx, cmds []c18cmd) SX {
	st := &c18stats{}
	xs := make([]SX, 0, len(cmds))
	for _, cm := range cmds {
		switch cm.kind {
		case 0:
			xs = append(xs, L(I(0), I(cm.parent), Str(cm.group)))
		case 1:
			xs = append(xs, L(I(1), I(cm.parent), c18attrsSX(c, cm.attrs, st, 1)))
		case 3:
			xs = append(xs, L(I(3), I(cm.mask)))
		default:
			xs = append(xs, L(I(cm.kind), I(cm.parent), Z(int64(cm.level)), Str(cm.msg), c18attrsSX(c, cm.attrs, st, 1)))
		}
	}
	return L(xs...)
}

type c18viol struct {
	what   string
	replay SX
}

var c18viols []c18viol
var c18mutated int // calls after which the caller's values were not what they were before
var c18json [4]int
var c18jsonSample, c18jsonSample2, c18jsonErrSample string

// ---------- generators ----------

var c18keys = []string{"a", "b", "k", "g", "x", "y", "ключ", `q"\`, "a b", "M", "L"}
var c18groupNames = []string{"G", "H", "a", "g", "π", "x.y"}
var c18strings = []string{"", "v", "hello world", "\"quoted\"", "back\\slash", "tab\there", "nl\n", " é\U0001F600", "<html>&", "\x01\x1f"}
var c18floats = []float64{0, 1, -1.5, 3.25, 1e21, 1e-7, 123456789.125, math.MaxFloat64, math.SmallestNonzeroFloat64, math.NaN(), math.Inf(1), math.Inf(-1), math.Copysign(0, -1)}
var c18ints = []int64{0, 1, -1, 42, math.MaxInt64, math.MinInt64, 1 << 53}
var c18uints = []uint64{0, 1, 7, math.MaxUint64, 1 << 63}

func c18key(r *RNG) string {
	if r.Chance(8) {
		return ""
	}
	return c18keys[r.Intn(len(c18keys))]
}

func c18scalar(r *RNG) slog.Value {
	switch r.Intn(7) {
	case 0:
		return slog.BoolValue(r.Bool())
	case 1:
		return slog.DurationValue(time.Duration(c18ints[r.Intn(len(c18ints))]))
	case 2:
		return slog.Float64Value(c18floats[r.Intn(len(c18floats))])
	case 3:
		return slog.Int64Value(c18ints[r.Intn(len(c18ints))])
	case 4:
		return slog.StringValue(c18strings[r.Intn(len(c18strings))])
	case 5:
		if r.Chance(10) {
			return slog.TimeValue(time.Time{})
		}
		return slog.TimeValue(time.Unix(int64(r.Intn(2000000000)), int64(r.Intn(1000000000))).UTC())
	default:
		return slog.Uint64Value(c18uints[r.Intn(len(c18uints))])
	}
}

func c18any(r *RNG) slog.Value {
	switch r.Intn(8) {
	case 0, 1:
		return slog.AnyValue(nil)
	case 2:
		return slog.AnyValue([]int{1, 2, r.Intn(9)})
	case 3:
		return slog.AnyValue(c18struct{A: r.Intn(5), B: "s"})
	case 4:
		return slog.AnyValue(map[string]int{"z": 1, "m": r.Intn(3)})
	case 5:
		return slog.AnyValue(errors.New("boom"))
	case 6:
		return slog.AnyValue((*int)(nil))
	default:
		return slog.AnyValue(c18stringer("s"))
	}
}

func c18value(r *RNG, depth int) slog.Value {
	x := r.Intn(100)
	switch {
	case x < 40 || depth <= 0 && x < 75:
		return c18scalar(r)
	case x < 50 || depth <= 0 && x < 85:
		return c18any(r)
	case depth <= 0:
		if r.Bool() {
			return slog.GroupValue()
		}
		return slog.AnyValue(c18lv{slog.GroupValue()})
	case x < 82:
		n := r.Intn(4)
		if r.Chance(15) {
			n = 0
		}
		attrs := make([]slog.Attr, n)
		for i := range attrs {
			attrs[i] = c18attr(r, depth-1)
		}
		return slog.GroupValue(attrs...)
	default: // LogValuer: resolving to a scalar, a group, an empty group, the zero Value, another LogValuer
		switch r.Intn(6) {
		case 0:
			return slog.AnyValue(c18lv{slog.GroupValue()})
		case 1:
			return slog.AnyValue(c18lv{slog.Value{}})
		default:
			return slog.AnyValue(c18lv{c18value(r, depth-1)})
		}
	}
}

func c18attr(r *RNG, depth int) slog.Attr {
	x := r.Intn(100)
	switch {
	case x < 10:
		return slog.Attr{}
	case x < 16 && depth > 0: // a group holding only empties
		n := r.Range(1, 2)
		attrs := make([]slog.Attr, n)
		for i := range attrs {
			if r.Bool() {
				attrs[i] = slog.Attr{Key: "", Value: slog.AnyValue(c18lv{slog.Value{}})}
			}
		}
		k := ""
		if r.Bool() {
			k = c18key(r)
		}
		return slog.Attr{Key: k, Value: slog.GroupValue(attrs...)}
	}
	v := c18value(r, depth)
	k := c18key(r)
	if (v.Kind() == slog.KindGroup || v.Kind() == slog.KindLogValuer) && r.Chance(30) {
		k = "" // inline
	}
	return slog.Attr{Key: k, Value: v}
}

func c18attrs(r *RNG, max, depth int) []slog.Attr {
	n := r.Intn(max + 1)
	out := make([]slog.Attr, n)
	for i := range out {
		out[i] = c18attr(r, depth)
	}
	return out
}

var c18levels = []slog.Level{-9, -5, -4, -1, 0, 1, 3, 4, 5, 7, 8, 9, 12, 1000, slog.Level(math.MaxInt), slog.Level(math.MinInt), slog.Level(math.MinInt + 1), slog.Level(math.MaxInt - 1)}

func c18level(r *RNG) slog.Level {
	if r.Chance(70) {
		return c18levels[r.Intn(len(c18levels))]
	}
	return slog.Level(r.Range(-12, 14))
}

func gAttr(k string, attrs ...slog.Attr) slog.Attr {
	return slog.Attr{Key: k, Value: slog.GroupValue(attrs...)}
}

func c18directed(c *Ctx) {
	x1 := slog.Int("x", 1)
	y2 := slog.Int("y", 2)
	lvEmptyGroup := slog.AnyValue(c18lv{slog.GroupValue()})
	lvZero := slog.AnyValue(c18lv{slog.Value{}})
	H := func(h int, attrs ...slog.Attr) c18cmd {
		return c18cmd{kind: 2, parent: h, level: 0, msg: "m", attrs: attrs}
	}
	G := func(p int, g string) c18cmd { return c18cmd{kind: 0, parent: p, group: g} }
	A := func(p int, attrs ...slog.Attr) c18cmd { return c18cmd{kind: 1, parent: p, attrs: attrs} }
	progs := [][]c18cmd{
		// the witnesses of the _refuted lemmas
		{G(0, ""), H(1, x1)},
		{A(0, gAttr("g")), H(1)},
		{H(0, gAttr("x", slog.Attr{Key: "g", Value: lvEmptyGroup}))},
		{G(0, "g"), H(1, gAttr("", slog.Attr{}))},
		// siblings sharing spare capacity if WithGroup appended in place (alias_prog)
		{G(0, "a"), G(1, "b"), G(2, "c"), G(3, "x"), G(3, "y"), H(4, x1), H(5, x1), H(3, x1)},
		{G(0, "a"), G(1, "b"), G(2, "c"), G(3, "d"), G(4, "e"), G(5, "x"), G(5, "y"), G(5, "z"), H(6, x1), H(7, x1), H(8, x1), H(5, x1)},
		{G(0, "a"), G(1, "x"), G(1, "y"), H(2, x1), H(3, x1)},
		// zap's own tests
		{A(0, slog.String("a", "b")), G(1, "G"), G(2, "in"), H(3, slog.String("c", "d")), H(3)},
		{A(0, slog.String("a", "b")), G(1, "G"), A(2, slog.String("c", "d")), G(3, "H"), H(4)},
		{G(0, "H"), A(1, slog.Attr{}), H(2)},
		{G(0, "G"), A(1, slog.String("a", "b")), A(1, slog.String("e", "f")), H(2, slog.String("c", "d")), H(3, slog.String("g", "h"))},
		// pending groups across empty WithAttrs, then a real one
		{G(0, "G"), A(1, slog.Attr{}, gAttr("e"), gAttr("", slog.Attr{})), G(2, "H"), A(3, x1), H(4, y2), H(3, y2), H(2, y2), H(2)},
		// the first real field is not the first attr
		{G(0, "G"), H(1, slog.Attr{}, gAttr("", slog.Attr{}), slog.Attr{Key: "", Value: lvZero}, x1, slog.Attr{}, y2)},
		{G(0, "G"), A(1, slog.Attr{}, slog.Attr{Key: "e", Value: lvEmptyGroup}, x1, slog.Attr{}), H(2, y2), H(2)},
		// nested groups, inline groups, LogValuers resolving to groups
		{H(0, gAttr("g", x1, gAttr("", y2, gAttr("h", x1)), gAttr("e"), slog.Attr{}), slog.Attr{Key: "", Value: slog.AnyValue(c18lv{slog.GroupValue(x1, y2)})},
			slog.Attr{Key: "l", Value: slog.AnyValue(c18lv{slog.AnyValue(c18lv{slog.GroupValue(y2)})})})},
		// more than the 5 attrs a Record keeps inline
		{G(0, "G"), H(1, slog.Attr{}, slog.Attr{}, slog.Attr{}, slog.Attr{}, slog.Attr{}, slog.Attr{}, x1, y2, slog.Attr{})},
		// keys: empty key with a real value, duplicates, keys of the entry itself
		{A(0, slog.String("", "v"), x1, x1, slog.String("M", "m2"), slog.String("L", "l2")), H(1, x1, slog.Any("", nil), slog.Any("n", nil))},
	}
	for _, p := range progs {
		c18run(c, 15, "", p, "directed")
	}
	c18run(c, 15, "log.name", progs[7], "directed")
	// levels: every enabler over the four zap levels x boundary slog levels
	for mask := 0; mask < 16; mask++ {
		var p []c18cmd
		p = append(p, G(0, "G"), A(1, x1))
		for i, l := range c18levels {
			p = append(p, c18cmd{kind: 2, parent: i % 3, level: l, msg: "lv", attrs: []slog.Attr{y2}})
		}
		c18run(c, mask, "n", p, "levels")
	}
}

func c18exhaustive(c *Ctx) {
	x1 := slog.Int("x", 1)
	y2 := slog.Int("y", 2)
	lvEmptyGroup := slog.AnyValue(c18lv{slog.GroupValue()})
	lvZero := slog.AnyValue(c18lv{slog.Value{}})
	type opT struct {
		group bool
		name  string
		attrs []slog.Attr
	}
	ops := []opT{
		{group: true, name: "g"},
		{group: true, name: ""},
		{attrs: []slog.Attr{x1}},
		{attrs: []slog.Attr{{}}},
		{attrs: []slog.Attr{gAttr("e")}},
		{attrs: []slog.Attr{gAttr("", slog.Attr{})}},
		{attrs: []slog.Attr{gAttr("h", y2)}},
		{attrs: []slog.Attr{{Key: "l", Value: lvEmptyGroup}}},
	}
	recs := [][]slog.Attr{
		nil,
		{x1},
		{{}},
		{gAttr("", slog.Attr{}, slog.Attr{Key: "", Value: lvZero})},
		{{Key: "e", Value: lvEmptyGroup}},
		{gAttr("", y2), {}},
		{gAttr("h", gAttr("", slog.Int("z", 3)), gAttr("e", slog.Attr{}))},
	}
	K := 3
	if c.Thorough {
		K = 4
	}
	var rec func(seq []int)
	rec = func(seq []int) {
		var p []c18cmd
		for i, o := range seq {
			if ops[o].group {
				p = append(p, c18cmd{kind: 0, parent: i, group: ops[o].name})
			} else {
				p = append(p, c18cmd{kind: 1, parent: i, attrs: ops[o].attrs})
			}
		}
		for _, r := range recs {
			p = append(p, c18cmd{kind: 2, parent: len(seq), level: 4, msg: "e", attrs: r})
		}
		c18run(c, 15, "", p, "exh")
		if len(seq) < K {
			for o := range ops {
				rec(append(append([]int(nil), seq...), o))
			}
		}
	}
	rec(nil)
}

func c18random(c *Ctx, r *RNG, n int) {
	for k := 0; k < n; k++ {
		ncmd := r.Range(2, 16)
		depths := []int{0}
		var p []c18cmd
		style := r.Intn(3) // 0 mixed, 1 group-heavy (deep pending groups), 2 attr-heavy
		for i := 0; i < ncmd; i++ {
			x := r.Intn(100)
			derive := x < 60
			if i == ncmd-1 {
				derive = false
			}
			if derive {
				par := r.Intn(len(depths))
				if r.Chance(50) {
					par = len(depths) - 1 // grow chains
				}
				if depths[par] >= 8 {
					par = 0
				}
				pg := 50
				if style == 1 {
					pg = 80
				} else if style == 2 {
					pg = 25
				}
				if r.Chance(pg) {
					g := c18groupNames[r.Intn(len(c18groupNames))]
					if r.Chance(12) {
						g = ""
					}
					p = append(p, c18cmd{kind: 0, parent: par, group: g})
				} else {
					p = append(p, c18cmd{kind: 1, parent: par, attrs: c18attrs(r, 4, r.Intn(4))})
				}
				depths = append(depths, depths[par]+1)
			} else {
				h := r.Intn(len(depths))
				if r.Chance(40) {
					h = len(depths) - 1
				}
				max := 4
				if r.Chance(10) {
					max = 9
				}
				p = append(p, c18cmd{kind: 2, parent: h, level: c18level(r), msg: c18strings[r.Intn(len(c18strings))], attrs: c18attrs(r, max, r.Intn(5))})
			}
		}
		mask := 15
		if r.Chance(30) {
			mask = r.Intn(16)
		}
		name := ""
		if r.Chance(30) {
			name = "svc." + c18groupNames[r.Intn(len(c18groupNames))]
		}
		c18run(c, mask, name, p, fmt.Sprintf("rand%d", style))
	}
}

// siblings: a chain of pending groups (optionally restarted by a real WithAttrs), then several
// handlers derived from the same parents, every one of them handled after all were created
func c18siblings(c *Ctx, r *RNG, n int) {
	for k := 0; k < n; k++ {
		var p []c18cmd
		cur := 0
		next := 1
		chain := r.Range(1, 9)
		var nodes []int
		for i := 0; i < chain; i++ {
			if r.Chance(12) {
				p = append(p, c18cmd{kind: 1, parent: cur, attrs: []slog.Attr{slog.Int("w", i)}})
			} else {
				p = append(p, c18cmd{kind: 0, parent: cur, group: fmt.Sprintf("c%d", i)})
			}
			cur = next
			next++
			nodes = append(nodes, cur)
		}
		var leaves []int
		for j, m := 0, r.Range(2, 5); j < m; j++ {
			par := cur
			if r.Chance(30) {
				par = nodes[r.Intn(len(nodes))]
			}
			if r.Chance(85) {
				p = append(p, c18cmd{kind: 0, parent: par, group: fmt.Sprintf("s%d", j)})
			} else {
				p = append(p, c18cmd{kind: 1, parent: par, attrs: c18attrs(r, 2, 1)})
			}
			leaves = append(leaves, next)
			next++
		}
		leaves = append(leaves, cur, nodes[r.Intn(len(nodes))])
		for _, i := range r.Perm(len(leaves)) {
			p = append(p, c18cmd{kind: 2, parent: leaves[i], level: 0, msg: "sib", attrs: []slog.Attr{slog.Int("x", 1)}})
		}
		c18run(c, 15, "", p, "siblings")
	}
}

// ---------- the core's level moves while handlers exist ----------

var c18thresholds = []int{15, 14, 12, 8, 0} // debug, info, warn, error, above error

// c18levelProgram: the root handler is built at seq[0]; in every phase two handlers are
// derived (one from the root, one from the handler derived in the previous phase), then every
// slog level of c18levels is logged through Handle and through a Logger on the root, the
// earliest derived handler, the previous phase's handlers and this phase's; then the core
// moves to the next level of seq.
func c18levelProgram(seq []int, shape int) []c18cmd {
	var p []c18cmd
	next := 1
	early := -1
	var prev []int
	for ph, m := range seq {
		if ph > 0 {
			p = append(p, c18cmd{kind: 3, mask: m})
		}
		var mine []int
		par := 0
		if len(prev) > 0 {
			par = prev[len(prev)-1]
		}
		switch (shape + ph) % 3 {
		case 0:
			p = append(p, c18cmd{kind: 0, parent: 0, group: fmt.Sprintf("p%d", ph)})
			p = append(p, c18cmd{kind: 1, parent: par, attrs: []slog.Attr{slog.Int("a", ph)}})
		case 1:
			p = append(p, c18cmd{kind: 1, parent: 0, attrs: []slog.Attr{slog.String("b", "x")}})
			p = append(p, c18cmd{kind: 0, parent: par, group: fmt.Sprintf("q%d", ph)})
		default:
			p = append(p, c18cmd{kind: 0, parent: 0, group: ""})
			p = append(p, c18cmd{kind: 1, parent: par, attrs: []slog.Attr{{}, gAttr("e")}})
		}
		mine = append(mine, next, next+1)
		next += 2
		if early < 0 {
			early = mine[1]
		}
		hs := append([]int{0, early}, prev...)
		hs = append(hs, mine...)
		seen := map[int]bool{}
		for _, h := range hs {
			if seen[h] {
				continue
			}
			seen[h] = true
			for _, l := range c18levels {
				p = append(p, c18cmd{kind: 2, parent: h, level: l, msg: "lm", attrs: []slog.Attr{slog.Int("y", 2)}})
				p = append(p, c18cmd{kind: 4, parent: h, level: l, msg: "lm", attrs: []slog.Attr{slog.Int("y", 2)}})
			}
		}
		prev = mine
	}
	return p
}

func c18levelMoves(c *Ctx) {
	T := c18thresholds
	var seqs [][]int
	// every ordered pair of distinct thresholds, continued back and part-way again
	for _, a := range T {
		for _, b := range T {
			if a != b {
				seqs = append(seqs, []int{a, b}, []int{a, b, a, 14, 8, 15})
			}
		}
	}
	// sweeps: down, up, zigzag, the demo's warn -> debug -> error -> info
	seqs = append(seqs,
		[]int{0, 8, 12, 14, 15}, []int{15, 14, 12, 8, 0}, []int{12, 15, 8, 14}, []int{8, 15, 0, 14, 12, 15},
		[]int{14, 0, 15, 8, 12, 0, 14}, []int{0, 15, 0, 15})
	for i, s := range seqs {
		c18runDyn(c, s[0], "", c18levelProgram(s, i), "levelmoves-atomic", 1)
		c18runDyn(c, s[0], "lv", c18levelProgram(s, i+1), "levelmoves-func", 0)
	}
	// enablers that are not thresholds (a dynamic LevelEnablerFunc): every mask to every other
	// through a fixed third one
	for a := 0; a < 16; a++ {
		for b := 0; b < 16; b++ {
			if a != b {
				c18runDyn(c, a, "", c18levelProgram([]int{a, b, (a ^ 5) & 15, 15 &^ b}, a+b), "levelmoves-masks", 0)
			}
		}
	}
}

// random programs in which level moves, derivations, Handle and Logger calls interleave
func c18dynamic(c *Ctx, r *RNG, n int) {
	for k := 0; k < n; k++ {
		enabler := r.Intn(2)
		pick := func() int {
			if enabler == 1 || r.Chance(50) {
				return c18thresholds[r.Intn(len(c18thresholds))]
			}
			return r.Intn(16)
		}
		mask := pick()
		ncmd := r.Range(4, 28)
		depths := []int{0}
		var p []c18cmd
		for i := 0; i < ncmd; i++ {
			x := r.Intn(100)
			if i == ncmd-1 {
				x = 99
			}
			switch {
			case x < 25: // derive, from any handler (also ones derived before earlier moves)
				par := r.Intn(len(depths))
				if depths[par] >= 8 {
					par = 0
				}
				if r.Bool() {
					g := c18groupNames[r.Intn(len(c18groupNames))]
					if r.Chance(10) {
						g = ""
					}
					p = append(p, c18cmd{kind: 0, parent: par, group: g})
				} else {
					p = append(p, c18cmd{kind: 1, parent: par, attrs: c18attrs(r, 3, r.Intn(3))})
				}
				depths = append(depths, depths[par]+1)
			case x < 45:
				p = append(p, c18cmd{kind: 3, mask: pick()})
			default:
				h := r.Intn(len(depths))
				if r.Chance(25) {
					h = 0
				}
				kind := 2
				if r.Bool() {
					kind = 4
				}
				p = append(p, c18cmd{kind: kind, parent: h, level: c18level(r), msg: c18strings[r.Intn(len(c18strings))], attrs: c18attrs(r, 3, r.Intn(3))})
			}
		}
		name := ""
		if r.Chance(30) {
			name = "svc." + c18groupNames[r.Intn(len(c18groupNames))]
		}
		c18runDyn(c, mask, name, p, fmt.Sprintf("dyn%d", enabler), enabler)
	}
}

func c18(c *Ctx) {
	r := NewRNG(c.Seed)
	c18json = [4]int{}
	c18jsonSample, c18jsonSample2, c18jsonErrSample = "", "", ""
	c18mutated = 0
	c18directed(c)
	c18reuseDirected(c)
	c18exhaustive(c)
	n := 4000
	if c.Thorough {
		n = 150000
	}
	c18random(c, r, n)
	c18siblings(c, r, n/10)
	c18levelMoves(c)
	c18dynamic(c, r, n/2)
	c18reuse(c, r, n/4)
	c.Info("calls_that_modified_caller_values", strconv.Itoa(c18mutated))
	for _, v := range c18viols {
		c.Viol(v.what, v.replay)
	}
	c18viols = nil
	c.Info("slog_jsonhandler_shape_agree", strconv.Itoa(c18json[0]))
	c.Info("slog_jsonhandler_shape_differ", strconv.Itoa(c18json[1]))
	c.Info("slog_jsonhandler_errors", strconv.Itoa(c18json[2]))
	c.Info("slog_jsonhandler_differs_only_by_empty_objects", strconv.Itoa(c18json[3]))
	clip := func(s string) string {
		s = strings.ReplaceAll(strings.ReplaceAll(s, "\t", " "), "\n", " ")
		if len(s) > 400 {
			s = s[:400]
		}
		return s
	}
	if c18jsonSample != "" {
		c.Info("slog_jsonhandler_sample_empty_object", clip(c18jsonSample))
	}
	if c18jsonSample2 != "" {
		c.Info("slog_jsonhandler_sample_other_difference", clip(c18jsonSample2))
	}
	if c18jsonErrSample != "" {
		c.Info("slog_jsonhandler_sample_error", clip(c18jsonErrSample))
	}
}

func init() { registry["C18"] = c18 }

// Perm: a seeded permutation of 0..n-1 (Fisher-Yates)
func (r *RNG) Perm(n int) []int {
	out := make([]int, n)
	for i := range out {
		out[i] = i
	}
	for i := n - 1; i > 0; i-- {
		j := r.Intn(i + 1)
		out[i], out[j] = out[j], out[i]
	}
	return out
}

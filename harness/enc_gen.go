package main

// Shared generator for the encoder properties (C01, C02, C10, C16): random and
// directed (EncoderConfig, With-chain, Entry, call-site fields) cases, each built
// twice: as real zap values (Fields whose marshalers replay a script) and as the
// wire case for the Coq model, with every standard-library answer (strconv, time,
// fmt, encoding/json, String()/Error() outcomes) computed here by calling the
// standard library directly — never through zap.

import (
	"bytes"
	"encoding/json"
	"errors"
	"fmt"
	"math"
	"strconv"
	"strings"
	"time"

	"go.uber.org/zap"
	"go.uber.org/zap/zapcore"
)

// ---------- hostile strings ----------

var utf8Frags = [][]byte{
	[]byte("é"), []byte("€"), []byte("😀"), []byte(" "), []byte("�"), []byte("日本"),
	{0x80}, {0xbf}, {0xc0, 0x80}, {0xc2}, {0xe2, 0x82}, {0xed, 0xa0, 0x80}, {0xf4, 0x90, 0x80, 0x80},
	{0xff}, {0xfe}, {0xf0, 0x9f, 0x98}, {0xe0, 0x80, 0x80}, {0xf8, 0x88, 0x80, 0x80, 0x80}, {0xc1, 0xbf}, {0xef, 0xbf},
}

func hostile(r *RNG, max int) []byte {
	n := r.Intn(max + 1)
	var out []byte
	style := r.Intn(5)
	for len(out) < n {
		x := r.Intn(100)
		switch {
		case style == 0 || x < 45:
			out = append(out, byte('a'+r.Intn(26)))
		case x < 55:
			out = append(out, []byte{'"', '\\', '/', '<', '>', '&', ' ', '{', '}', '[', ']', ',', ':'}[r.Intn(13)])
		case x < 68:
			out = append(out, byte(r.Intn(0x20)))
		case x < 72:
			out = append(out, 0x7f)
		case x < 90:
			out = append(out, utf8Frags[r.Intn(len(utf8Frags))]...)
		default:
			out = append(out, byte(r.Intn(256)))
		}
	}
	return out
}

// a value far beyond every size threshold in zap's buffers and pools (64 KiB and up), built from hostile chunks
func hugeBytes(r *RNG, n int) []byte {
	chunk := hostile(r, 96)
	if len(chunk) == 0 {
		chunk = []byte("x")
	}
	out := make([]byte, 0, n+len(chunk))
	for len(out) < n {
		out = append(out, chunk...)
	}
	return out
}

var plainKeys = []string{"a", "b", "c", "k", "key", "msg", "level", "ts", "x", "n"}

func genKey(r *RNG) []byte {
	x := r.Intn(100)
	switch {
	case x < 70:
		return []byte(plainKeys[r.Intn(len(plainKeys))])
	case x < 76:
		return []byte{}
	default:
		return hostile(r, 6)
	}
}

// ---------- oracles ----------

func fvOf(v float64, bits int) SX {
	cls := 3
	switch {
	case math.IsNaN(v):
		cls = 0
	case math.IsInf(v, 1):
		cls = 1
	case math.IsInf(v, -1):
		cls = 2
	}
	txt := strconv.AppendFloat(nil, v, 'f', -1, bits)
	if cls == 3 { // assumption monitor: strconv's shortest text parses back to the same bits
		back, err := strconv.ParseFloat(string(txt), bits)
		same := err == nil && math.Float64bits(back) == math.Float64bits(v)
		if bits == 32 {
			same = err == nil && math.Float32bits(float32(back)) == math.Float32bits(float32(v))
		}
		floatMonitorChecked++
		if !same {
			floatMonitorFailures = append(floatMonitorFailures, fmt.Sprintf("%x/%d -> %s", math.Float64bits(v), bits, txt))
		}
	}
	return L(I(cls), B(txt))
}

var floatMonitorChecked int
var floatMonitorFailures []string

func reportFloatMonitor(c *Ctx) {
	c.Info("float_roundtrip_checked", fmt.Sprint(floatMonitorChecked))
	for _, f := range floatMonitorFailures {
		c.Assume("strconv float text does not parse back to the same bits: " + f)
	}
}

var floatPool = []float64{0, math.Copysign(0, -1), 1, -1, 0.1, 1e21, 1e-7, 123456789.125, math.MaxFloat64, math.SmallestNonzeroFloat64,
	math.NaN(), math.Inf(1), math.Inf(-1), 3.141592653589793, -2.5e-300, 1e100, float64(math.MaxFloat32), float64(math.SmallestNonzeroFloat32), 16777217}

func genFloat(r *RNG) float64 {
	if r.Chance(60) {
		return floatPool[r.Intn(len(floatPool))]
	}
	return math.Float64frombits(r.Next())
}

var intPool = []int64{0, 1, -1, 7, 10, 99, 100, 127, -128, 128, 255, 256, 32767, -32768, 65535, 1 << 31, -(1 << 31), 1<<31 - 1, 1<<32 - 1,
	math.MaxInt64, math.MinInt64, 1e18, -1e18, 1234567890123}

func genInt(r *RNG) int64 {
	if r.Chance(70) {
		return intPool[r.Intn(len(intPool))]
	}
	return int64(r.Next())
}

// encoder config enumerations
type encCfg struct {
	keys                                   [7][]byte // message level time name caller function stack
	skipLE                                 bool
	le                                     []byte
	lvl, tim, dur, cal, nam                int // 0 nil 1 noop 2.. built-ins
	layout                                 string
	sep                                    []byte
}

const (
	timEpoch = 2 + iota
	timMillis
	timNanos
	timISO
	timRFC
	timRFCNano
	timLayout
)
const (
	durSeconds = 2 + iota
	durNanos
	durMillis
	durString
)

var layouts = []string{time.RFC3339, time.Kitchen, "2006-01-02", "Jan _2 15:04:05.000", "2006\t01", "\"2006\"", "a\\b 15h", "MST -0700 Z07:00", "\x01\x1f2006", ""}

func genCfg(r *RNG) *encCfg {
	c := &encCfg{}
	def := []string{"msg", "level", "ts", "logger", "caller", "func", "stacktrace"}
	for i := range c.keys {
		x := r.Intn(100)
		switch {
		case x < 60:
			c.keys[i] = []byte(def[i])
		case x < 75:
			c.keys[i] = nil
		case x < 85:
			c.keys[i] = []byte("k") // duplicates
		default:
			c.keys[i] = hostile(r, 5)
		}
	}
	c.skipLE = r.Chance(10)
	switch r.Intn(5) {
	case 0:
		c.le = nil
	case 1:
		c.le = []byte("\n")
	case 2:
		c.le = []byte("\r\n")
	case 3:
		c.le = []byte("|END|\n")
	default:
		c.le = []byte("\n")
	}
	pick := func(n int) int { // bias to built-ins
		x := r.Intn(100)
		if x < 12 {
			return 0
		}
		if x < 24 {
			return 1
		}
		return 2 + r.Intn(n)
	}
	c.lvl = pick(4)
	c.tim = pick(7)
	c.dur = pick(4)
	c.cal = pick(2)
	c.nam = pick(1)
	c.layout = layouts[r.Intn(len(layouts))]
	switch r.Intn(4) {
	case 0:
		c.sep = nil
	case 1:
		c.sep = []byte(" ")
	case 2:
		c.sep = []byte(" | ")
	default:
		c.sep = []byte("\t")
	}
	return c
}

func senc(i int) SX {
	if i > 2 {
		i = 2
	}
	return I(i)
}

func (c *encCfg) sx() SX {
	return L(B(c.keys[0]), B(c.keys[1]), B(c.keys[2]), B(c.keys[3]), B(c.keys[4]), B(c.keys[5]), B(c.keys[6]),
		Bool(c.skipLE), B(c.le), senc(c.lvl), senc(c.tim), senc(c.dur), senc(c.cal), senc(c.nam), B(c.sep))
}

func noopLevel(zapcore.Level, zapcore.PrimitiveArrayEncoder)          {}
func noopTime(time.Time, zapcore.PrimitiveArrayEncoder)              {}
func noopDur(time.Duration, zapcore.PrimitiveArrayEncoder)           {}
func noopCaller(zapcore.EntryCaller, zapcore.PrimitiveArrayEncoder)  {}
func noopName(string, zapcore.PrimitiveArrayEncoder)                 {}

func (c *encCfg) real() zapcore.EncoderConfig {
	ec := zapcore.EncoderConfig{
		MessageKey: string(c.keys[0]), LevelKey: string(c.keys[1]), TimeKey: string(c.keys[2]), NameKey: string(c.keys[3]),
		CallerKey: string(c.keys[4]), FunctionKey: string(c.keys[5]), StacktraceKey: string(c.keys[6]),
		SkipLineEnding: c.skipLE, LineEnding: string(c.le), ConsoleSeparator: string(c.sep),
	}
	switch c.lvl {
	case 1:
		ec.EncodeLevel = noopLevel
	case 2:
		ec.EncodeLevel = zapcore.LowercaseLevelEncoder
	case 3:
		ec.EncodeLevel = zapcore.CapitalLevelEncoder
	case 4:
		ec.EncodeLevel = zapcore.LowercaseColorLevelEncoder
	case 5:
		ec.EncodeLevel = zapcore.CapitalColorLevelEncoder
	}
	switch c.tim {
	case 1:
		ec.EncodeTime = noopTime
	case timEpoch:
		ec.EncodeTime = zapcore.EpochTimeEncoder
	case timMillis:
		ec.EncodeTime = zapcore.EpochMillisTimeEncoder
	case timNanos:
		ec.EncodeTime = zapcore.EpochNanosTimeEncoder
	case timISO:
		ec.EncodeTime = zapcore.ISO8601TimeEncoder
	case timRFC:
		ec.EncodeTime = zapcore.RFC3339TimeEncoder
	case timRFCNano:
		ec.EncodeTime = zapcore.RFC3339NanoTimeEncoder
	case timLayout:
		ec.EncodeTime = zapcore.TimeEncoderOfLayout(c.layout)
	}
	switch c.dur {
	case 1:
		ec.EncodeDuration = noopDur
	case durSeconds:
		ec.EncodeDuration = zapcore.SecondsDurationEncoder
	case durNanos:
		ec.EncodeDuration = zapcore.NanosDurationEncoder
	case durMillis:
		ec.EncodeDuration = zapcore.MillisDurationEncoder
	case durString:
		ec.EncodeDuration = zapcore.StringDurationEncoder
	}
	switch c.cal {
	case 1:
		ec.EncodeCaller = noopCaller
	case 2:
		ec.EncodeCaller = zapcore.FullCallerEncoder
	case 3:
		ec.EncodeCaller = zapcore.ShortCallerEncoder
	}
	switch c.nam {
	case 1:
		ec.EncodeName = noopName
	case 2:
		ec.EncodeName = zapcore.FullNameEncoder
	}
	return ec
}

// what the configured TimeEncoder appends for t (reference implementation, not zap's)
func (c *encCfg) timeLayout() string {
	switch c.tim {
	case timISO:
		return "2006-01-02T15:04:05.000Z0700"
	case timRFC:
		return time.RFC3339
	case timRFCNano:
		return time.RFC3339Nano
	}
	return c.layout
}
func (c *encCfg) tvOf(t time.Time) SX {
	nanos := t.UnixNano()
	var rend SX
	switch c.tim {
	case timEpoch:
		rend = L(I(0), fvOf(float64(nanos)/float64(time.Second), 64))
	case timMillis:
		rend = L(I(0), fvOf(float64(nanos)/float64(time.Millisecond), 64))
	case timNanos:
		rend = L(I(1), Z(nanos))
	case timISO, timRFC, timRFCNano, timLayout:
		rend = L(I(3), B(t.AppendFormat(nil, c.timeLayout())))
	default:
		rend = L(I(1), Z(nanos))
	}
	return L(Z(nanos), rend)
}

// fmt.Fprint of what the TimeEncoder hands to the console encoder's slice encoder
func (c *encCfg) timeCol(t time.Time) []byte {
	nanos := t.UnixNano()
	switch c.tim {
	case timEpoch:
		return []byte(fmt.Sprint(float64(nanos) / float64(time.Second)))
	case timMillis:
		return []byte(fmt.Sprint(float64(nanos) / float64(time.Millisecond)))
	case timNanos:
		return []byte(fmt.Sprint(nanos))
	case timISO, timRFC, timRFCNano, timLayout:
		return []byte(t.Format(c.timeLayout()))
	}
	return nil
}
func (c *encCfg) dvOf(d time.Duration) SX {
	var rend SX
	switch c.dur {
	case durSeconds:
		rend = L(I(0), fvOf(float64(d)/float64(time.Second), 64))
	case durNanos:
		rend = L(I(1), Z(int64(d)))
	case durMillis:
		rend = L(I(1), Z(int64(d)/1000000))
	case durString:
		rend = L(I(2), Str(d.String()))
	default:
		rend = L(I(1), Z(int64(d)))
	}
	return L(Z(int64(d)), rend)
}

var locs = []*time.Location{time.UTC, time.FixedZone("X", 3600*5+1800), time.FixedZone("", -3600*8), time.FixedZone("we\"ird\\", 60)}

func genTime(r *RNG) time.Time {
	x := r.Intn(100)
	loc := locs[r.Intn(len(locs))]
	switch {
	case x < 50:
		return time.Unix(int64(r.Intn(2000000000)), int64(r.Intn(1000000000))).In(loc)
	case x < 60:
		return time.Unix(0, 0).In(loc)
	case x < 70:
		return time.Unix(0, math.MaxInt64).In(loc)
	case x < 78:
		return time.Unix(0, math.MinInt64).In(loc)
	case x < 86:
		return time.Date(2500+r.Intn(1000), 1, 1, 0, 0, 0, 0, loc) // beyond int64 nanos
	case x < 92:
		return time.Date(1, 1, 1, 0, 0, 0, 1, loc)
	default:
		return time.Date(r.Range(1000, 3000), time.Month(r.Range(1, 12)), r.Range(1, 28), r.Intn(24), r.Intn(60), r.Intn(60), r.Intn(1000000000), loc)
	}
}

var durPool = []time.Duration{0, 1, -1, time.Millisecond, 1500 * time.Microsecond, -1500 * time.Microsecond, time.Second, 90 * time.Minute, math.MaxInt64, math.MinInt64, 999999, -999999, 1000000}

func genDur(r *RNG) time.Duration {
	if r.Chance(70) {
		return durPool[r.Intn(len(durPool))]
	}
	return time.Duration(r.Next())
}

// ---------- fault sites ----------
// Every place where a fault can be injected (a marshaler's error return, a panicking or
// nil-receiver Stringer/error, a value encoding/json rejects) asks faultSite. In random mode it is
// a p% coin; in enumeration mode (C10) the sites of a case are numbered in generation order and
// exactly the site number enumFaults.at is faulted. The coin is drawn in both modes, so that the
// rest of the case is identical across the variants.
type faultEnum struct{ site, at, at2 int } // at2 < 0: single fault

var enumFaults *faultEnum

func faultSite(r *RNG, p int) bool {
	x := r.Chance(p)
	if enumFaults == nil {
		return x
	}
	i := enumFaults.site
	enumFaults.site++
	return i == enumFaults.at || (enumFaults.at2 >= 0 && i == enumFaults.at2)
}

// ---------- reflected values ----------
type badJSON struct{}

func (badJSON) MarshalJSON() ([]byte, error) { return nil, errors.New("bad \"json\"\n") }

type okJSON struct{ s string }

func (o okJSON) MarshalJSON() ([]byte, error) { return []byte(o.s), nil }

type reflStruct struct {
	A int               `json:"a"`
	B string            `json:"b<>&"`
	C []float64         `json:"c,omitempty"`
	D map[string]string `json:"d"`
	E *int              `json:"e"`
}

func genRefl(r *RNG) (interface{}, SX) {
	var v interface{}
	k := r.Intn(9)
	ek := r.Intn(3)
	hs := hostile(r, 10)
	iv := genInt(r)
	fv := genFloat(r)
	if faultSite(r, 25) {
		switch ek {
		case 0:
			v = badJSON{}
		case 1:
			v = make(chan int)
		default:
			v = math.NaN()
		}
	} else {
		switch k {
		case 0:
			v = nil
		case 1:
			v = map[string]int{"b": 2, "a": 1}
		case 2:
			v = reflStruct{A: int(iv), B: string(hs), D: map[string]string{"<k>": "&v"}}
		case 3:
			v = []interface{}{1, "two", nil, 3.5, []int{}, map[string]interface{}{}}
		case 4:
			v = string(hs)
		case 5:
			v = okJSON{`{"x":[1,2,{"y":null}],"z":"é\n"}`}
		case 6:
			v = []byte(hs)
		case 7:
			v = iv
		default:
			v = struct{ X, Y interface{} }{fv * 0, true}
		}
	}
	if v == nil {
		return nil, L(I(0))
	}
	// boxed, so that a dump of a MapObjectEncoder can tell a reflected value from a typed one
	v = reflBox{v}
	var buf bytes.Buffer
	e := json.NewEncoder(&buf)
	e.SetEscapeHTML(false)
	if err := e.Encode(v); err != nil {
		return v, L(I(2), Str(err.Error()))
	}
	return v, L(I(1), B(bytes.TrimSuffix(buf.Bytes(), []byte("\n"))))
}

type reflBox struct{ v interface{} }

func (b reflBox) MarshalJSON() ([]byte, error) {
	var buf bytes.Buffer
	e := json.NewEncoder(&buf)
	e.SetEscapeHTML(false)
	if err := e.Encode(b.v); err != nil {
		return nil, err
	}
	return bytes.TrimSuffix(buf.Bytes(), []byte("\n")), nil
}

// ---------- stringers and errors ----------
type scriptStringer struct {
	s     string
	panic bool
}

func (s scriptStringer) String() string {
	if s.panic {
		panic(s.s)
	}
	return s.s
}

type ptrStringer struct{ s string }

func (p *ptrStringer) String() string { return p.s } // nil receiver dereference panics

func genStringer(r *RNG) (fmt.Stringer, SX) {
	s := hostile(r, 8)
	fp := faultSite(r, 25)
	fn := faultSite(r, 25)
	switch {
	case fp:
		return scriptStringer{s: string(s), panic: true}, L(I(1), B(s))
	case fn:
		return (*ptrStringer)(nil), L(I(2))
	default:
		return scriptStringer{s: string(s)}, L(I(0), B(s))
	}
}

type plainErr struct{ s string }

func (e plainErr) Error() string { return e.s }

type panicErr struct{ s string }

func (e panicErr) Error() string { panic(e.s) }

type ptrErr struct{ s string }

func (e *ptrErr) Error() string { return e.s }

type fmtErr struct{ s, v string }

func (e fmtErr) Error() string { return e.s }
func (e fmtErr) Format(f fmt.State, verb rune) {
	if verb == 'v' && f.Flag('+') {
		f.Write([]byte(e.v))
		return
	}
	f.Write([]byte(e.s))
}

type groupErr struct {
	s      string
	causes []error
}

func (e groupErr) Error() string   { return e.s }
func (e groupErr) Errors() []error { return e.causes }

// both a group and a formatter: the group case wins in encodeError's type switch
type groupFmtErr struct {
	groupErr
	v string
}

func (e groupFmtErr) Format(f fmt.State, verb rune) { f.Write([]byte(e.v)) }

func genErr(r *RNG, depth int) (error, SX) {
	s := hostile(r, 8)
	none := L()
	x := r.Intn(82)
	fp := faultSite(r, 12)
	fn := faultSite(r, 8)
	var e error
	var ex SX
	switch {
	case x < 30:
		e, ex = plainErr{string(s)}, L(L(I(0), B(s)), none, none)
	case x < 47 || depth <= 0:
		fe := fmtErr{string(s), string(s)}
		if r.Chance(70) {
			fe.v = string(hostile(r, 12))
		}
		verbose := fmt.Sprintf("%+v", fe)
		e, ex = fe, L(L(I(0), B(s)), L(Str(verbose)), none)
	default:
		n := r.Intn(4)
		var causes []error
		var cx []SX
		for i := 0; i < n; i++ {
			if r.Chance(15) {
				causes = append(causes, nil)
				cx = append(cx, L())
				continue
			}
			ce, csx := genErr(r, depth-1)
			causes = append(causes, ce)
			cx = append(cx, L(csx))
		}
		g := groupErr{string(s), causes}
		if r.Chance(20) {
			gf := groupFmtErr{g, "verbose!"}
			e, ex = gf, L(L(I(0), B(s)), L(Str(fmt.Sprintf("%+v", gf))), L(L(cx...)))
		} else {
			e, ex = g, L(L(I(0), B(s)), none, L(L(cx...)))
		}
	}
	switch {
	case fp:
		return panicErr{string(s)}, L(L(I(1), B(s)), none, none)
	case fn:
		return (*ptrErr)(nil), L(L(I(2)), none, none)
	}
	return e, ex
}

// ---------- fields ----------
type genState struct {
	r    *RNG
	cfg  *encCfg
	size int // node budget
	// feature flags of the case (for meta)
	nested, nsp, esc, fault bool
	// huge > 0: the next string-valued field gets a value of about this many bytes
	huge int
}

func optMsg(r *RNG, p int) (error, SX) {
	m := hostile(r, 8)
	if faultSite(r, p) {
		return errors.New(string(m)), L(B(m))
	}
	return nil, L()
}

func (g *genState) fields(n, depth int) ([]zapcore.Field, []SX) {
	var fs []zapcore.Field
	var xs []SX
	for i := 0; i < n && g.size > 0; i++ {
		f, x := g.field(depth)
		fs = append(fs, f)
		xs = append(xs, x)
	}
	return fs, xs
}

func (g *genState) objm(depth int) (zapcore.ObjectMarshaler, SX) {
	r := g.r
	fs, xs := g.fields(r.Intn(4), depth-1)
	ret, rx := optMsg(r, 20)
	if ret != nil {
		g.fault = true
	}
	m := zapcore.ObjectMarshalerFunc(func(enc zapcore.ObjectEncoder) error {
		for _, f := range fs {
			f.AddTo(enc)
		}
		return ret
	})
	return m, L(L(xs...), rx)
}

type elemFn func(zapcore.ArrayEncoder) error

func (g *genState) arrm(depth int) (zapcore.ArrayMarshaler, SX) {
	r := g.r
	n := r.Intn(5)
	var fns []elemFn
	var xs []SX
	for i := 0; i < n && g.size > 0; i++ {
		f, x := g.elem(depth - 1)
		fns = append(fns, f)
		xs = append(xs, x)
	}
	ret, rx := optMsg(r, 20)
	if ret != nil {
		g.fault = true
	}
	stop := r.Bool()
	m := zapcore.ArrayMarshalerFunc(func(enc zapcore.ArrayEncoder) error {
		for _, f := range fns {
			if err := f(enc); err != nil && stop {
				return err
			}
		}
		return ret
	})
	return m, L(L(xs...), rx, Bool(stop))
}

func (g *genState) elem(depth int) (elemFn, SX) {
	r := g.r
	g.size--
	k := r.Intn(12)
	if depth <= 0 && k >= 10 {
		k = r.Intn(10)
	}
	switch k {
	case 0:
		v := r.Bool()
		return func(a zapcore.ArrayEncoder) error { a.AppendBool(v); return nil }, L(I(0), Bool(v))
	case 1:
		v := genInt(r)
		switch r.Intn(5) {
		case 0:
			return func(a zapcore.ArrayEncoder) error { a.AppendInt64(v); return nil }, L(I(1), Z(v))
		case 1:
			return func(a zapcore.ArrayEncoder) error { a.AppendInt32(int32(v)); return nil }, L(I(1), Z(int64(int32(v))))
		case 2:
			return func(a zapcore.ArrayEncoder) error { a.AppendInt16(int16(v)); return nil }, L(I(1), Z(int64(int16(v))))
		case 3:
			return func(a zapcore.ArrayEncoder) error { a.AppendInt(int(v)); return nil }, L(I(1), Z(v))
		default:
			return func(a zapcore.ArrayEncoder) error { a.AppendInt8(int8(v)); return nil }, L(I(1), Z(int64(int8(v))))
		}
	case 2:
		// every unsigned width, with the top bit set half of the time (values a signed cast would turn negative)
		v := uint64(genInt(r))
		if r.Bool() {
			v |= 1 << 63
		}
		switch r.Intn(6) {
		case 0:
			return func(a zapcore.ArrayEncoder) error { a.AppendUint64(v); return nil }, L(I(2), U(v))
		case 1:
			return func(a zapcore.ArrayEncoder) error { a.AppendUint(uint(v)); return nil }, L(I(2), U(v))
		case 2:
			return func(a zapcore.ArrayEncoder) error { a.AppendUintptr(uintptr(v)); return nil }, L(I(2), U(v))
		case 3:
			w := uint32(v) | 1<<31
			return func(a zapcore.ArrayEncoder) error { a.AppendUint32(w); return nil }, L(I(2), U(uint64(w)))
		case 4:
			w := uint8(v) | 1<<7
			return func(a zapcore.ArrayEncoder) error { a.AppendUint8(w); return nil }, L(I(2), U(uint64(w)))
		default:
			w := uint16(v) | 1<<15
			return func(a zapcore.ArrayEncoder) error { a.AppendUint16(w); return nil }, L(I(2), U(uint64(w)))
		}
	case 3:
		v := genFloat(r)
		if r.Bool() {
			return func(a zapcore.ArrayEncoder) error { a.AppendFloat64(v); return nil }, L(I(3), fvOf(v, 64))
		}
		w := float32(v)
		return func(a zapcore.ArrayEncoder) error { a.AppendFloat32(w); return nil }, L(I(3), fvOf(float64(w), 32))
	case 4:
		v := hostile(r, 10)
		g.esc = true
		return func(a zapcore.ArrayEncoder) error { a.AppendString(string(v)); return nil }, L(I(4), B(v))
	case 5:
		v := hostile(r, 10)
		g.esc = true
		return func(a zapcore.ArrayEncoder) error { a.AppendByteString(v); return nil }, L(I(5), B(v))
	case 6:
		re, im := genFloat(r), genFloat(r)
		if r.Bool() {
			return func(a zapcore.ArrayEncoder) error { a.AppendComplex128(complex(re, im)); return nil },
				L(I(6), fvOf(re, 64), fvOf(im, 64), Bool(im >= 0))
		}
		c := complex64(complex(re, im))
		return func(a zapcore.ArrayEncoder) error { a.AppendComplex64(c); return nil },
			L(I(6), fvOf(float64(real(c)), 32), fvOf(float64(imag(c)), 32), Bool(float64(imag(c)) >= 0))
	case 7:
		d := genDur(r)
		return func(a zapcore.ArrayEncoder) error { a.AppendDuration(d); return nil }, L(I(7), g.cfg.dvOf(d))
	case 8:
		t := genTime(r)
		return func(a zapcore.ArrayEncoder) error { a.AppendTime(t); return nil }, L(I(8), g.cfg.tvOf(t))
	case 9:
		v, x := genRefl(r)
		if strings.HasPrefix(Render(x), "(2") {
			g.fault = true
		}
		return func(a zapcore.ArrayEncoder) error { return a.AppendReflected(v) }, L(I(9), x)
	case 10:
		g.nested = true
		m, x := g.objm(depth)
		return func(a zapcore.ArrayEncoder) error { return a.AppendObject(m) }, L(I(10), x)
	default:
		g.nested = true
		m, x := g.arrm(depth)
		return func(a zapcore.ArrayEncoder) error { return a.AppendArray(m) }, L(I(11), x)
	}
}

func (g *genState) field(depth int) (zapcore.Field, SX) {
	r := g.r
	g.size--
	key := genKey(r)
	k := string(key)
	for _, b := range key {
		if b < 0x20 || b == '"' || b == '\\' || b >= 0x80 {
			g.esc = true
		}
	}
	t := r.Intn(24)
	if depth <= 0 && t >= 15 && t <= 17 {
		t = r.Intn(15)
	}
	switch t {
	case 0:
		v := r.Bool()
		return zap.Bool(k, v), L(I(0), B(key), Bool(v))
	case 1:
		v := genInt(r)
		switch r.Intn(5) {
		case 0:
			return zap.Int64(k, v), L(I(1), B(key), Z(v))
		case 1:
			return zap.Int32(k, int32(v)), L(I(1), B(key), Z(int64(int32(v))))
		case 2:
			return zap.Int16(k, int16(v)), L(I(1), B(key), Z(int64(int16(v))))
		case 3:
			return zap.Int8(k, int8(v)), L(I(1), B(key), Z(int64(int8(v))))
		default:
			return zap.Int(k, int(v)), L(I(1), B(key), Z(v))
		}
	case 2:
		v := uint64(genInt(r))
		switch r.Intn(5) {
		case 0:
			return zap.Uint64(k, v), L(I(2), B(key), U(v))
		case 1:
			return zap.Uint32(k, uint32(v)), L(I(2), B(key), U(uint64(uint32(v))))
		case 2:
			return zap.Uint16(k, uint16(v)), L(I(2), B(key), U(uint64(uint16(v))))
		case 3:
			return zap.Uint8(k, uint8(v)), L(I(2), B(key), U(uint64(uint8(v))))
		default:
			return zap.Uintptr(k, uintptr(v)), L(I(2), B(key), U(v))
		}
	case 3:
		v := genFloat(r)
		if r.Bool() {
			return zap.Float64(k, v), L(I(3), B(key), fvOf(v, 64))
		}
		w := float32(v)
		return zap.Float32(k, w), L(I(3), B(key), fvOf(float64(w), 32))
	case 4, 18, 19:
		v := hostile(r, 16)
		if g.huge > 0 {
			v = hugeBytes(r, g.huge)
			g.huge = 0
		}
		g.esc = true
		return zap.String(k, string(v)), L(I(4), B(key), B(v))
	case 5:
		v := hostile(r, 12)
		if g.huge > 0 {
			v = hugeBytes(r, g.huge)
			g.huge = 0
		}
		g.esc = true
		return zap.ByteString(k, v), L(I(5), B(key), B(v))
	case 6:
		v := hostile(r, 9)
		return zap.Binary(k, v), L(I(6), B(key), B(v))
	case 7:
		re, im := genFloat(r), genFloat(r)
		if r.Bool() {
			return zap.Complex128(k, complex(re, im)), L(I(7), B(key), fvOf(re, 64), fvOf(im, 64), Bool(im >= 0))
		}
		c := complex64(complex(re, im))
		return zap.Complex64(k, c), L(I(7), B(key), fvOf(float64(real(c)), 32), fvOf(float64(imag(c)), 32), Bool(float64(imag(c)) >= 0))
	case 8:
		d := genDur(r)
		return zap.Duration(k, d), L(I(8), B(key), g.cfg.dvOf(d))
	case 9:
		t := genTime(r)
		return zap.Time(k, t), L(I(9), B(key), g.cfg.tvOf(t))
	case 10:
		v, x := genRefl(r)
		if strings.HasPrefix(Render(x), "(2") {
			g.fault = true
		}
		return zap.Reflect(k, v), L(I(10), B(key), x)
	case 11, 20:
		g.nsp = true
		return zap.Namespace(k), L(I(11), B(key))
	case 12:
		return zap.Skip(), L(I(12))
	case 13:
		v, x := genStringer(r)
		if !strings.HasPrefix(Render(x), "(0") {
			g.fault = true
		}
		return zap.Stringer(k, v), L(I(13), B(key), x)
	case 14, 21:
		e, x := genErr(r, 2)
		g.fault = true
		return zap.NamedError(k, e), L(I(14), B(key), x)
	case 15:
		g.nested = true
		m, x := g.objm(depth)
		return zap.Object(k, m), L(I(15), B(key), x)
	case 16:
		g.nested = true
		m, x := g.objm(depth)
		return zap.Inline(m), L(I(16), x)
	case 22:
		// zap.Stringers: zap's own array wrapper around String(); a nil pointer element is "<nil>", a
		// panicking element ends the array and is reported as the field's error (script: an element that
		// writes nothing and fails, in a stop-on-error array)
		g.nested = true
		n := r.Intn(4)
		var vals []fmt.Stringer
		var xs []SX
		for i := 0; i < n; i++ {
			sv, sx := genStringer(r)
			vals = append(vals, sv)
			rs := Render(sx)
			switch {
			case strings.HasPrefix(rs, "(0"):
				xs = append(xs, L(I(4), B([]byte(sv.(scriptStringer).s))))
			case strings.HasPrefix(rs, "(2"):
				xs = append(xs, L(I(4), Str("<nil>")))
			default:
				g.fault = true
				xs = append(xs, L(I(12), Str("PANIC="+sv.(scriptStringer).s)))
			}
		}
		return zap.Stringers(k, vals), L(I(17), B(key), L(L(xs...), L(), Bool(true)))
	case 23:
		// zap.Errors: zap's own array wrapper; every non-nil element is an object holding exactly what
		// zap.Error(e) adds (key "error", plus errorVerbose / errorCauses / errorError as the error demands),
		// nil elements are skipped
		g.nested = true
		g.fault = true
		n := r.Intn(4)
		var errs []error
		var xs []SX
		for i := 0; i < n; i++ {
			if r.Chance(20) {
				errs = append(errs, nil)
				continue
			}
			e, x := genErr(r, 2)
			errs = append(errs, e)
			xs = append(xs, L(I(10), L(L(L(I(14), Str("error"), x)), L())))
		}
		return zap.Errors(k, errs), L(I(17), B(key), L(L(xs...), L(), Bool(true)))
	default:
		g.nested = true
		m, x := g.arrm(depth)
		return zap.Array(k, m), L(I(17), B(key), x)
	}
}

// ---------- entries ----------
var levelNames = map[zapcore.Level]string{-1: "debug", 0: "info", 1: "warn", 2: "error", 3: "dpanic", 4: "panic", 5: "fatal"}
var levelColors = map[zapcore.Level]int{-1: 35, 0: 34, 1: 33, 2: 31, 3: 31, 4: 31, 5: 31}

func levelString(l zapcore.Level) string {
	if s, ok := levelNames[l]; ok {
		return s
	}
	return fmt.Sprintf("Level(%d)", l)
}
func levelCapital(l zapcore.Level) string {
	if s, ok := levelNames[l]; ok {
		return strings.ToUpper(s)
	}
	return fmt.Sprintf("LEVEL(%d)", l)
}
func levelColor(l zapcore.Level, s string) string {
	c, ok := levelColors[l]
	if !ok {
		c = 31
	}
	return fmt.Sprintf("\x1b[%dm%s\x1b[0m", c, s)
}

func (c *encCfg) levelText(l zapcore.Level) string {
	switch c.lvl {
	case 2:
		return levelString(l)
	case 3:
		return levelCapital(l)
	case 4:
		return levelColor(l, levelString(l))
	case 5:
		return levelColor(l, levelCapital(l))
	}
	return ""
}

func trimmedPath(file string, line int) string {
	full := file + ":" + strconv.Itoa(line)
	idx := strings.LastIndexByte(file, '/')
	if idx == -1 {
		return full
	}
	idx = strings.LastIndexByte(file[:idx], '/')
	if idx == -1 {
		return full
	}
	return file[idx+1:] + ":" + strconv.Itoa(line)
}

func genEntry(r *RNG, c *encCfg) (zapcore.Entry, SX) {
	var e zapcore.Entry
	if r.Chance(75) {
		e.Level = zapcore.Level(r.Range(-1, 5))
	} else {
		e.Level = zapcore.Level(int8(r.Intn(256)))
	}
	if r.Chance(85) {
		e.Time = genTime(r)
	}
	if r.Chance(60) {
		e.LoggerName = string(hostile(r, 8))
	}
	e.Message = string(hostile(r, 20))
	if r.Chance(60) {
		files := []string{"/a/b/c.go", "c.go", "b/c.go", "/x\"y/\\z/w.go", "", "/"}
		e.Caller = zapcore.EntryCaller{Defined: true, File: files[r.Intn(len(files))], Line: r.Intn(5000) - 5, Function: string(hostile(r, 10))}
		if r.Chance(20) {
			e.Caller.Function = ""
		}
	}
	if r.Chance(30) {
		e.Stack = "main.f\n\t/a/b.go:1\n" + string(hostile(r, 10))
	}
	callerText := ""
	full := "undefined"
	if e.Caller.Defined {
		full = e.Caller.File + ":" + strconv.Itoa(e.Caller.Line)
		switch c.cal {
		case 2:
			callerText = full
		case 3:
			callerText = trimmedPath(e.Caller.File, e.Caller.Line)
		}
	}
	x := L(Str(c.levelText(e.Level)), Str(levelString(e.Level)), Bool(e.Time.IsZero()), c.tvOf(e.Time), B(c.timeCol(e.Time)),
		Str(e.LoggerName), Bool(e.Caller.Defined), Str(callerText), Str(full), Str(e.Caller.Function), Str(e.Message), Str(e.Stack))
	return e, x
}

// one full case
type encCase struct {
	cfg    *encCfg
	ctxs   [][]zapcore.Field
	ent    zapcore.Entry
	fields []zapcore.Field
	sx     SX
	meta   map[string]string
	// preuse: how the core/encoder is exercised BEFORE the observed entry (invisible to the model, whose
	// encode_entry is a pure function of configuration, context, entry and fields): 0 fresh, 1 a field-less
	// entry first, 2 an entry with the same fields first, 3 a field-less entry and a derived child first
	preuse int
	// active: the sink touches the pools (logs through another core) before it copies the payload
	active bool
	// hugePre: value of the string field of the oversize pre-use entry (preuse 4)
	hugePre []byte
}

func genEncCase(r *RNG, big bool) *encCase {
	c := genCfg(r)
	g := &genState{r: r, cfg: c, size: 14}
	depth := 3
	if big {
		g.size = 60
		depth = 6
	}
	if r.Chance(25) { // default-ish production config, to keep mostly-valid mainstream inputs well represented
		c.keys = [7][]byte{[]byte("msg"), []byte("level"), []byte("ts"), []byte("logger"), []byte("caller"), nil, []byte("stacktrace")}
		c.lvl, c.tim, c.dur, c.cal, c.nam = 2, timEpoch, durSeconds, 3, 2
	}
	ec := &encCase{cfg: c}
	hugeCase := false // judged entries stay small (the extracted parser is quadratic in the line length); see preuse 4
	nctx := 0
	if r.Chance(60) {
		nctx = r.Range(1, 4)
	}
	var ctxx []SX
	for i := 0; i < nctx; i++ {
		fs, xs := g.fields(r.Intn(4), depth)
		ec.ctxs = append(ec.ctxs, fs)
		ctxx = append(ctxx, L(xs...))
	}
	ent, ex := genEntry(r, c)
	ec.ent = ent
	fs, xs := g.fields(r.Intn(7), depth)
	ec.fields = fs
	ec.sx = L(c.sx(), L(ctxx...), ex, L(xs...))
	nt := "0"
	if g.nested || g.nsp || g.esc || c.lvl < 2 || c.tim < 2 || c.dur < 2 || c.cal < 2 || c.nam < 2 {
		nt = "1"
	}
	cls := ""
	for _, p := range []struct {
		b bool
		s string
	}{{g.nested, "N"}, {g.nsp, "S"}, {g.esc, "E"}, {g.fault, "F"}, {nctx > 0, "W"}, {c.tim == timLayout, "L"}, {hugeCase && g.huge == 0, "H"}} {
		if p.b {
			cls += p.s
		}
	}
	if cls == "" {
		cls = "plain"
	}
	ec.preuse = r.Intn(4)
	if r.Intn(40) == 0 {
		// an oversize entry (beyond the 64 KiB thresholds of zap's pools) goes through the same core first
		ec.preuse = 4
		ec.hugePre = hugeBytes(r, []int{70 << 10, 130 << 10, 300 << 10}[r.Intn(3)])
	}
	ec.active = r.Chance(30)
	ec.meta = map[string]string{"nt": nt, "class": cls, "pre": fmt.Sprint(ec.preuse), "active": fmt.Sprint(ec.active)}
	return ec
}

// runs fn, converting a panic into (nil, message)
func catchPanic(fn func() []byte) (out []byte, pmsg string, panicked bool) {
	defer func() {
		if e := recover(); e != nil {
			pmsg = fmt.Sprint(e)
			panicked = true
		}
	}()
	return fn(), "", false
}

// the real JSON encoder behind a real ioCore, With chain applied through Core.With
type captureSink struct {
	bytes.Buffer
	// active: before it copies the payload the sink logs an audit record through another, prebuilt zap core
	// (as a sink that reports to a second logger does), so a payload whose buffer was already returned to the
	// pool is overwritten before it is read
	active bool
}

func (*captureSink) Sync() error { return nil }

func (s *captureSink) Write(p []byte) (int, error) {
	if s.active {
		auditActivity(len(p))
	}
	return s.Buffer.Write(p)
}

type discardSink struct{}

func (discardSink) Write(p []byte) (int, error) { return len(p), nil }
func (discardSink) Sync() error                 { return nil }

var (
	auditJSON = zapcore.NewCore(zapcore.NewJSONEncoder(zapcore.EncoderConfig{MessageKey: "m", LevelKey: "l", EncodeLevel: zapcore.LowercaseLevelEncoder}),
		discardSink{}, zapcore.Level(-128)).With([]zapcore.Field{{Key: "audit", Type: zapcore.Int64Type, Integer: 7}})
	auditConsole = zapcore.NewCore(zapcore.NewConsoleEncoder(zapcore.EncoderConfig{MessageKey: "m", LevelKey: "l", EncodeLevel: zapcore.CapitalLevelEncoder}),
		discardSink{}, zapcore.Level(-128))
)

// the audit message is full of escapes (written by many small appends, so that a recycled buffer is overwritten
// in place rather than reallocated) and at least as long as the payload being held by the caller
func auditActivity(n int) {
	msg := strings.Repeat("\"\\\n\t", n/4+8)
	_ = auditJSON.Write(zapcore.Entry{Message: msg}, []zapcore.Field{{Key: "k", Type: zapcore.StringType, String: msg}})
	_ = auditConsole.Write(zapcore.Entry{Message: msg}, []zapcore.Field{{Key: "r", Type: zapcore.ReflectType, Interface: map[string]int{"a": 1}}})
}

func (ec *encCase) runJSON(console bool) ([]byte, string, bool) {
	return catchPanic(func() []byte {
		var enc zapcore.Encoder
		if console {
			enc = zapcore.NewConsoleEncoder(ec.cfg.real())
		} else {
			enc = zapcore.NewJSONEncoder(ec.cfg.real())
		}
		sink := &captureSink{active: ec.active}
		var core zapcore.Core = zapcore.NewCore(enc, sink, zapcore.Level(-128))
		for _, fs := range ec.ctxs {
			core = core.With(fs)
		}
		if ec.preuse > 0 {
			// encoding an entry must leave the encoder (and every encoder derived from it) as it was
			pre := zapcore.Entry{Level: ec.ent.Level, Time: ec.ent.Time, Message: "pre-use"}
			var pf []zapcore.Field
			if ec.preuse == 2 {
				pf = ec.fields
			}
			if ec.preuse == 4 {
				pre.Message = string(ec.hugePre[:len(ec.hugePre)/2])
				pf = []zapcore.Field{{Key: "huge", Type: zapcore.StringType, String: string(ec.hugePre)},
					{Key: "hugeb", Type: zapcore.ByteStringType, Interface: ec.hugePre},
					{Key: "huger", Type: zapcore.ReflectType, Interface: string(ec.hugePre[:70<<10])}}
			}
			_ = core.Write(pre, pf)
			if ec.preuse == 3 {
				_ = core.With([]zapcore.Field{{Key: "child", Type: zapcore.Int64Type, Integer: 1}}).Write(pre, nil)
			}
			sink.Reset()
		}
		if err := core.Write(ec.ent, ec.fields); err != nil {
			panic("core.Write error: " + err.Error())
		}
		return append([]byte(nil), sink.Bytes()...)
	})
}

package main

import (
	"bytes"
	"context"
	"fmt"
	"log"
	"log/slog"
	"reflect"
	"runtime"
	"sort"
	"strconv"
	"strings"

	"go.uber.org/zap"
	"go.uber.org/zap/exp/zapslog"
	"go.uber.org/zap/zapcore"
	"go.uber.org/zap/zaptest/observer"
)

// C15: caller and stack annotations.
//
// Every case runs one REAL log call from a known call site (sections 1-7: on values built for
// that case; section 8, c15_session.go: a whole sequence of calls on values shared by the
// sequence; section 10, c15_conc.go: bursts of calls made by several goroutines at once, after
// edge paths of the pooled capture) and ships
//   - the user's stack at that call site (runtime.Callers taken on the same source line,
//     by c15here(), which is evaluated as the message argument of the call), as frame ids,
//   - the front end, the chain of conversions that produced the logger, the levels,
// and observes Entry.Caller, the frames of Entry.Stack and the "failed to get caller" report.
// A frame id stands for the triple (function, file, line); zap's own frames get fresh ids.
//
// Wire format: coq/theories/C15/Model.v (section WIRE).

type c15frame struct {
	fn, file string
	line     int
}

var (
	c15ids   = map[c15frame]int{}
	c15names = map[int]c15frame{}
	c15last  []uintptr
)

// short printable name of a frame id, safe inside the meta field
func c15name(id int) string {
	f, ok := c15names[id]
	if !ok {
		return "?"
	}
	file := f.file
	if i := strings.LastIndexByte(file, '/'); i >= 0 {
		file = file[i+1:]
	}
	s := fmt.Sprintf("%s@%s:%d", f.fn, file, f.line)
	return strings.NewReplacer(",", ";", "=", ":", "\t", " ", " ", "_").Replace(s)
}

func c15id(f c15frame) int {
	if id, ok := c15ids[f]; ok {
		return id
	}
	id := len(c15ids) + 1
	c15ids[f] = id
	c15names[id] = f
	// the oracle value the model's is_log_frame stands for (global.go: stdLogCallerSkip)
	if strings.HasPrefix(f.fn, "log.") {
		c15logTagged[id] = true
	}
	return id
}

// c15here records the stack of its caller (the user's frame first) and returns the message.
//
//go:noinline
func c15here() string {
	buf := make([]uintptr, 1024)
	n := runtime.Callers(2, buf)
	c15last = buf[:n]
	return "m"
}

func c15frames(pcs []uintptr) []int {
	var out []int
	if len(pcs) == 0 {
		return out
	}
	fr := runtime.CallersFrames(pcs)
	for {
		f, more := fr.Next()
		out = append(out, c15id(c15frame{f.Function, f.File, f.Line}))
		if !more {
			break
		}
	}
	return out
}

type c15h struct {
	l    *zap.Logger
	s    *zap.SugaredLogger
	std  *log.Logger
	sl   *slog.Logger
	lvl  zapcore.Level
	slvl slog.Level
}

type c15site struct {
	name string
	kind int // 0 Logger, 1 SugaredLogger, 2 std log, 3 slog
	a, b int
	fn   func(h *c15h)
}

func c15write(ce *zapcore.CheckedEntry) {
	if ce != nil {
		ce.Write()
	}
}

// c15sites: one call site per exported logging method.
// Each closure is one source line: c15here() is evaluated on the line of the call it annotates.
var c15sites = []c15site{
	{"Logger.Debug", 0, 0, 0, func(h *c15h) { h.l.Debug(c15here()) }},
	{"Logger.Info", 0, 1, 0, func(h *c15h) { h.l.Info(c15here()) }},
	{"Logger.Warn", 0, 2, 0, func(h *c15h) { h.l.Warn(c15here()) }},
	{"Logger.Error", 0, 3, 0, func(h *c15h) { h.l.Error(c15here()) }},
	{"Logger.DPanic", 0, 4, 0, func(h *c15h) { h.l.DPanic(c15here()) }},
	{"Logger.Panic", 0, 5, 0, func(h *c15h) { h.l.Panic(c15here()) }},
	{"Logger.Fatal", 0, 6, 0, func(h *c15h) { h.l.Fatal(c15here()) }},
	{"Logger.Log", 0, 7, 0, func(h *c15h) { h.l.Log(h.lvl, c15here()) }},
	{"Logger.Check", 0, 8, 0, func(h *c15h) { c15write(h.l.Check(h.lvl, c15here())) }},
	{"SugaredLogger.Debug", 1, 0, 0, func(h *c15h) { h.s.Debug(c15here()) }},
	{"SugaredLogger.Info", 1, 0, 1, func(h *c15h) { h.s.Info(c15here()) }},
	{"SugaredLogger.Warn", 1, 0, 2, func(h *c15h) { h.s.Warn(c15here()) }},
	{"SugaredLogger.Error", 1, 0, 3, func(h *c15h) { h.s.Error(c15here()) }},
	{"SugaredLogger.DPanic", 1, 0, 4, func(h *c15h) { h.s.DPanic(c15here()) }},
	{"SugaredLogger.Panic", 1, 0, 5, func(h *c15h) { h.s.Panic(c15here()) }},
	{"SugaredLogger.Fatal", 1, 0, 6, func(h *c15h) { h.s.Fatal(c15here()) }},
	{"SugaredLogger.Log", 1, 0, 7, func(h *c15h) { h.s.Log(h.lvl, c15here()) }},
	{"SugaredLogger.Debugf", 1, 1, 0, func(h *c15h) { h.s.Debugf(c15here()) }},
	{"SugaredLogger.Infof", 1, 1, 1, func(h *c15h) { h.s.Infof(c15here()) }},
	{"SugaredLogger.Warnf", 1, 1, 2, func(h *c15h) { h.s.Warnf(c15here()) }},
	{"SugaredLogger.Errorf", 1, 1, 3, func(h *c15h) { h.s.Errorf(c15here()) }},
	{"SugaredLogger.DPanicf", 1, 1, 4, func(h *c15h) { h.s.DPanicf(c15here()) }},
	{"SugaredLogger.Panicf", 1, 1, 5, func(h *c15h) { h.s.Panicf(c15here()) }},
	{"SugaredLogger.Fatalf", 1, 1, 6, func(h *c15h) { h.s.Fatalf(c15here()) }},
	{"SugaredLogger.Logf", 1, 1, 7, func(h *c15h) { h.s.Logf(h.lvl, c15here()) }},
	{"SugaredLogger.Debugw", 1, 2, 0, func(h *c15h) { h.s.Debugw(c15here()) }},
	{"SugaredLogger.Infow", 1, 2, 1, func(h *c15h) { h.s.Infow(c15here()) }},
	{"SugaredLogger.Warnw", 1, 2, 2, func(h *c15h) { h.s.Warnw(c15here()) }},
	{"SugaredLogger.Errorw", 1, 2, 3, func(h *c15h) { h.s.Errorw(c15here()) }},
	{"SugaredLogger.DPanicw", 1, 2, 4, func(h *c15h) { h.s.DPanicw(c15here()) }},
	{"SugaredLogger.Panicw", 1, 2, 5, func(h *c15h) { h.s.Panicw(c15here()) }},
	{"SugaredLogger.Fatalw", 1, 2, 6, func(h *c15h) { h.s.Fatalw(c15here()) }},
	{"SugaredLogger.Logw", 1, 2, 7, func(h *c15h) { h.s.Logw(h.lvl, c15here()) }},
	{"SugaredLogger.Debugln", 1, 3, 0, func(h *c15h) { h.s.Debugln(c15here()) }},
	{"SugaredLogger.Infoln", 1, 3, 1, func(h *c15h) { h.s.Infoln(c15here()) }},
	{"SugaredLogger.Warnln", 1, 3, 2, func(h *c15h) { h.s.Warnln(c15here()) }},
	{"SugaredLogger.Errorln", 1, 3, 3, func(h *c15h) { h.s.Errorln(c15here()) }},
	{"SugaredLogger.DPanicln", 1, 3, 4, func(h *c15h) { h.s.DPanicln(c15here()) }},
	{"SugaredLogger.Panicln", 1, 3, 5, func(h *c15h) { h.s.Panicln(c15here()) }},
	{"SugaredLogger.Fatalln", 1, 3, 6, func(h *c15h) { h.s.Fatalln(c15here()) }},
	{"SugaredLogger.Logln", 1, 3, 7, func(h *c15h) { h.s.Logln(h.lvl, c15here()) }},
	{"log.Logger.Print", 2, 0, 0, func(h *c15h) { h.std.Print(c15here()) }},
	{"log.Logger.Printf", 2, 0, 1, func(h *c15h) { h.std.Printf(c15here()) }},
	{"log.Logger.Println", 2, 0, 2, func(h *c15h) { h.std.Println(c15here()) }},
	{"log.Logger.Output", 2, 0, 3, func(h *c15h) { h.std.Output(2, c15here()) }},
	{"log.Logger.Panic", 2, 0, 4, func(h *c15h) { h.std.Panic(c15here()) }},
	{"log.Logger.Panicf", 2, 0, 5, func(h *c15h) { h.std.Panicf(c15here()) }},
	{"log.Logger.Panicln", 2, 0, 6, func(h *c15h) { h.std.Panicln(c15here()) }},
	{"log.Print", 2, 2, 0, func(h *c15h) { log.Print(c15here()) }},
	{"log.Printf", 2, 2, 1, func(h *c15h) { log.Printf(c15here()) }},
	{"log.Println", 2, 2, 2, func(h *c15h) { log.Println(c15here()) }},
	{"log.Output", 2, 2, 3, func(h *c15h) { log.Output(2, c15here()) }},
	{"log.Panic", 2, 2, 4, func(h *c15h) { log.Panic(c15here()) }},
	{"log.Panicf", 2, 2, 5, func(h *c15h) { log.Panicf(c15here()) }},
	{"log.Panicln", 2, 2, 6, func(h *c15h) { log.Panicln(c15here()) }},
	{"slog.Logger.Debug", 3, 0, 0, func(h *c15h) { h.sl.Debug(c15here()) }},
	{"slog.Logger.Info", 3, 1, 0, func(h *c15h) { h.sl.Info(c15here()) }},
	{"slog.Logger.Warn", 3, 2, 0, func(h *c15h) { h.sl.Warn(c15here()) }},
	{"slog.Logger.Error", 3, 3, 0, func(h *c15h) { h.sl.Error(c15here()) }},
	{"slog.Logger.DebugContext", 3, 4, 0, func(h *c15h) { h.sl.DebugContext(context.Background(), c15here()) }},
	{"slog.Logger.InfoContext", 3, 5, 0, func(h *c15h) { h.sl.InfoContext(context.Background(), c15here()) }},
	{"slog.Logger.WarnContext", 3, 6, 0, func(h *c15h) { h.sl.WarnContext(context.Background(), c15here()) }},
	{"slog.Logger.ErrorContext", 3, 7, 0, func(h *c15h) { h.sl.ErrorContext(context.Background(), c15here()) }},
	{"slog.Logger.Log", 3, 8, 0, func(h *c15h) { h.sl.Log(context.Background(), h.slvl, c15here()) }},
	{"slog.Logger.LogAttrs", 3, 9, 0, func(h *c15h) { h.sl.LogAttrs(context.Background(), h.slvl, c15here()) }},
}

// ---- frames between the call site and the driver ----

//go:noinline
func c15wrapA(fn func(h *c15h), h *c15h) { fn(h) }

//go:noinline
func c15wrapB(fn func(h *c15h), h *c15h) { c15wrapA(fn, h) }

//go:noinline
func c15wrapC(fn func(h *c15h), h *c15h) { c15wrapB(fn, h) }

//go:noinline
func c15wrap(w int, fn func(h *c15h), h *c15h) {
	switch w {
	case 0:
		fn(h)
	case 1:
		c15wrapA(fn, h)
	case 2:
		c15wrapB(fn, h)
	default:
		c15wrapC(fn, h)
	}
}

//go:noinline
func c15deep(n int, w int, fn func(h *c15h), h *c15h) {
	if n <= 0 {
		c15wrap(w, fn, h)
		return
	}
	c15deep(n-1, w, fn, h)
}

// c15run: Panic-level entries panic after the write (Fatal is redirected to a panic too)
//
//go:noinline
func c15run(n, w int, goroutine bool, fn func(h *c15h), h *c15h) {
	body := func() {
		defer func() { _ = recover() }()
		c15deep(n, w, fn, h)
	}
	if goroutine {
		done := make(chan struct{})
		go func() {
			defer close(done)
			body()
		}()
		<-done
		return
	}
	body()
}

// ---- configuration pieces ----

type c15en struct {
	kind int // 0 threshold, 1 table
	t    int
	bits [7]bool
}

func (e c15en) enabler() zapcore.LevelEnabler {
	if e.kind == 0 {
		return zapcore.Level(e.t)
	}
	bits := e.bits
	return zap.LevelEnablerFunc(func(l zapcore.Level) bool {
		i := int(l) + 1
		return i >= 0 && i < 7 && bits[i]
	})
}
func (e c15en) enabled(l int) bool {
	if e.kind == 0 {
		return l >= e.t
	}
	i := l + 1
	return i >= 0 && i < 7 && e.bits[i]
}
func (e c15en) sx() SX {
	if e.kind == 0 {
		return L(I(0), I(e.t))
	}
	xs := []SX{I(1)}
	for _, b := range e.bits {
		xs = append(xs, Bool(b))
	}
	return L(xs...)
}

type c15opt struct {
	k  int // 0 AddCallerSkip, 1 WithCaller, 2 AddStacktrace, 3 other
	n  int
	b  bool
	en c15en
}
type c15conv struct {
	k    int // 0 Sugar 1 Desugar 2 With 3 WithLazy 4 Named 5 WithOptions 6 L() 7 S()
	b    bool
	opts []c15opt
}

func (o c15opt) option() zap.Option {
	switch o.k {
	case 0:
		return zap.AddCallerSkip(o.n)
	case 1:
		if o.b && o.n%2 == 0 {
			return zap.AddCaller()
		}
		return zap.WithCaller(o.b)
	case 2:
		return zap.AddStacktrace(o.en.enabler())
	}
	return zap.Fields(zap.Int("opt", 1))
}
func (o c15opt) sx() SX {
	switch o.k {
	case 0:
		return L(I(0), I(o.n))
	case 1:
		return L(I(1), Bool(o.b))
	case 2:
		return L(I(2), o.en.sx())
	}
	return L(I(3))
}
func (c c15conv) sx() SX {
	switch c.k {
	case 2, 3, 4:
		return L(I(c.k), Bool(c.b))
	case 5:
		xs := make([]SX, len(c.opts))
		for i, o := range c.opts {
			xs[i] = o.sx()
		}
		return L(I(5), L(xs...))
	}
	return L(I(c.k))
}

// apply the chain to a real logger; returns nil when the chain is ill-kinded (never generated)
func c15apply(base *zap.Logger, chain []c15conv) (l *zap.Logger, s *zap.SugaredLogger) {
	return c15applyFrom(base, nil, chain)
}

// the same from either kind of value (exactly one of l, s is non-nil)
func c15applyFrom(l *zap.Logger, s *zap.SugaredLogger, chain []c15conv) (*zap.Logger, *zap.SugaredLogger) {
	for _, c := range chain {
		switch c.k {
		case 0:
			if l == nil {
				return nil, nil
			}
			s, l = l.Sugar(), nil
		case 1:
			if s == nil {
				return nil, nil
			}
			l, s = s.Desugar(), nil
		case 2:
			if l != nil {
				if c.b {
					l = l.With(zap.Int("w", 1))
				} else {
					l = l.With()
				}
			} else {
				if c.b {
					s = s.With("w", 1)
				} else {
					s = s.With()
				}
			}
		case 3:
			if l != nil {
				if c.b {
					l = l.WithLazy(zap.Int("wl", 1))
				} else {
					l = l.WithLazy()
				}
			} else {
				if c.b {
					s = s.WithLazy("wl", 1)
				} else {
					s = s.WithLazy()
				}
			}
		case 4:
			name := ""
			if c.b {
				name = "n"
			}
			if l != nil {
				l = l.Named(name)
			} else {
				s = s.Named(name)
			}
		case 5:
			opts := make([]zap.Option, len(c.opts))
			for i, o := range c.opts {
				opts[i] = o.option()
			}
			if l != nil {
				l = l.WithOptions(opts...)
			} else {
				s = s.WithOptions(opts...)
			}
		case 6:
			if l == nil {
				return nil, nil
			}
			undo := zap.ReplaceGlobals(l)
			l = zap.L()
			undo()
		case 7:
			if l == nil {
				return nil, nil
			}
			undo := zap.ReplaceGlobals(l)
			s, l = zap.S(), nil
			undo()
		}
	}
	return l, s
}

func c15chainSugared(chain []c15conv) bool {
	k := false
	for _, c := range chain {
		switch c.k {
		case 0, 7:
			k = true
		case 1:
			k = false
		}
	}
	return k
}

type c15case struct {
	site      int // index into c15sites
	chain     []c15conv
	lvl       int
	core      c15en
	hopts     []c15opt // slog: k 0 WithCaller(b) 1 WithCallerSkip(n) 2 AddStacktraceAt(n) 3 other
	slvl      int
	n, w      int
	goroutine bool
	reflectID int // >= 0: call method c15methods[reflectID] through reflection instead of the site
	near, far int // stack contexts (indices into c15ctxs, 0 = none): around the site / around the whole chain
	class     string
}

// parse Entry.Stack ("func\n\tfile:line\n...") into frame ids
func c15parseStack(s string) ([]int, bool) {
	if s == "" {
		return nil, true
	}
	lines := strings.Split(s, "\n")
	if len(lines)%2 != 0 {
		return nil, false
	}
	var out []int
	for i := 0; i < len(lines); i += 2 {
		fl := lines[i+1]
		if !strings.HasPrefix(fl, "\t") {
			return nil, false
		}
		fl = fl[1:]
		j := strings.LastIndexByte(fl, ':')
		if j < 0 {
			return nil, false
		}
		ln, err := strconv.Atoi(fl[j+1:])
		if err != nil {
			return nil, false
		}
		out = append(out, c15id(c15frame{lines[i], fl[:j], ln}))
	}
	return out, true
}

type c15obs struct {
	written int
	caller  []int
	stack   []int
	err     bool
	entries int
	badfmt  bool
}

func (o c15obs) sx() SX {
	if o.written == 0 {
		return L(I(0), L(), L(), I(0))
	}
	return L(I(1), LI(o.caller), LI(o.stack), Bool(o.err))
}

// run one case against the real zap; us = the user's stack at the call site
func c15exec(cs *c15case) (us []int, obs c15obs) {
	st := c15sites[0]
	if cs.reflectID < 0 {
		st = c15sites[cs.site]
	}
	core, logs := observer.New(cs.core.enabler())
	var errOut bytes.Buffer
	h := &c15h{lvl: zapcore.Level(cs.lvl), slvl: slog.Level(cs.slvl)}
	kind := st.kind
	if cs.reflectID >= 0 {
		kind = c15methods[cs.reflectID].kind
	}
	var restore func()
	if kind == 3 {
		var opts []zapslog.HandlerOption
		for _, o := range cs.hopts {
			switch o.k {
			case 0:
				opts = append(opts, zapslog.WithCaller(o.b))
			case 1:
				opts = append(opts, zapslog.WithCallerSkip(o.n))
			case 2:
				opts = append(opts, zapslog.AddStacktraceAt(slog.Level(o.n)))
			default:
				opts = append(opts, zapslog.WithName("n"))
			}
		}
		var hd slog.Handler = zapslog.NewHandler(core, opts...)
		// WithAttrs / WithGroup clone the handler: exercise them on some cases
		if cs.n%3 == 1 {
			hd = hd.WithAttrs([]slog.Attr{slog.Int("a", 1)})
		} else if cs.n%3 == 2 {
			hd = hd.WithGroup("g")
		}
		h.sl = slog.New(hd)
	} else {
		base := zap.New(core, zap.ErrorOutput(zapcore.AddSync(&errOut)), zap.WithFatalHook(zapcore.WriteThenPanic))
		l, s := c15apply(base, cs.chain)
		if l == nil && s == nil {
			panic("c15: ill-kinded chain generated")
		}
		h.l, h.s = l, s
		if kind == 2 {
			var err error
			switch st.a {
			case 0: // NewStdLog / NewStdLogAt on a *log.Logger
				if cs.lvl == 0 && cs.w%2 == 0 {
					h.std = zap.NewStdLog(l)
				} else {
					h.std, err = zap.NewStdLogAt(l, zapcore.Level(cs.lvl))
				}
			case 2: // the package-level std logger, redirected
				if cs.lvl == 0 && cs.w%2 == 0 {
					restore = zap.RedirectStdLog(l)
				} else {
					restore, err = zap.RedirectStdLogAt(l, zapcore.Level(cs.lvl))
				}
			}
			if err != nil {
				panic("c15: " + err.Error())
			}
		}
	}
	c15last = nil
	if cs.reflectID >= 0 {
		m := c15methods[cs.reflectID]
		var recv reflect.Value
		if m.kind == 0 {
			recv = reflect.ValueOf(h.l)
		} else {
			recv = reflect.ValueOf(h.s)
		}
		mv := recv.Method(m.index)
		pr := reflect.ValueOf(&c15probe{}).MethodByName(m.probe)
		// calibrate: the probe method records the stack above a method called through the very
		// same source lines (same closure, same c15run call, same c15invoke line)
		var calib []uintptr
		for i, target := range []reflect.Value{pr, mv} {
			c15last = nil
			c15run(cs.n, cs.w, cs.goroutine, func(h *c15h) { c15invoke(target, m.args(h)) }, h)
			if i == 0 {
				calib = c15last
			}
		}
		c15last = calib
	} else if cs.near == 0 && cs.far == 0 {
		c15run(cs.n, cs.w, cs.goroutine, st.fn, h)
	} else {
		c15runCtx(cs.near, cs.far, cs.n, cs.w, cs.goroutine, st.fn, h)
	}
	if restore != nil {
		restore()
	}
	us = c15frames(c15last)
	all := c15userEntries(logs.TakeAll())
	obs.entries = len(all)
	if len(all) >= 1 {
		e := all[0]
		obs.written = 1
		if e.Caller.Defined {
			obs.caller = []int{c15id(c15frame{e.Caller.Function, e.Caller.File, e.Caller.Line})}
		}
		var ok bool
		obs.stack, ok = c15parseStack(e.Stack)
		obs.badfmt = !ok
		obs.err = strings.Contains(errOut.String(), "failed to get caller")
	}
	return
}

// ---- reflection over the method sets: no exported logging method may be missed ----

type c15probe struct{}

//go:noinline
func c15probeHere() {
	buf := make([]uintptr, 1024)
	n := runtime.Callers(3, buf) // Callers, c15probeHere, the probe method
	c15last = buf[:n]
}

//go:noinline
func (*c15probe) MsgFields(msg string, fields ...zap.Field) { c15probeHere() }

//go:noinline
func (*c15probe) LvlMsgFields(lvl zapcore.Level, msg string, fields ...zap.Field) { c15probeHere() }

//go:noinline
func (*c15probe) LvlMsg(lvl zapcore.Level, msg string) *zapcore.CheckedEntry {
	c15probeHere()
	return nil
}

//go:noinline
func (*c15probe) Args(args ...interface{}) { c15probeHere() }

//go:noinline
func (*c15probe) MsgArgs(msg string, args ...interface{}) { c15probeHere() }

//go:noinline
func (*c15probe) LvlArgs(lvl zapcore.Level, args ...interface{}) { c15probeHere() }

//go:noinline
func (*c15probe) LvlMsgArgs(lvl zapcore.Level, msg string, args ...interface{}) { c15probeHere() }

//go:noinline
func c15invoke(m reflect.Value, args []reflect.Value) {
	out := m.Call(args)
	if len(out) == 1 {
		if ce, ok := out[0].Interface().(*zapcore.CheckedEntry); ok {
			c15write(ce)
		}
	}
}

type c15method struct {
	name   string
	kind   int // 0 Logger, 1 SugaredLogger
	index  int
	a, b   int // fe coordinates (from the site table)
	probe  string
	hasLvl bool
	nstr   int
	varIfc bool
}

func (m c15method) args(h *c15h) []reflect.Value {
	var a []reflect.Value
	if m.hasLvl {
		a = append(a, reflect.ValueOf(h.lvl))
	}
	for i := 0; i < m.nstr; i++ {
		a = append(a, reflect.ValueOf("m"))
	}
	if m.varIfc && m.nstr == 0 {
		a = append(a, reflect.ValueOf("m"))
	}
	return a
}

var c15methods []c15method

// methods of *zap.Logger / *zap.SugaredLogger that do not log an entry of the user's
var c15notLogging = map[string]bool{
	"Logger.Sugar": true, "Logger.Named": true, "Logger.WithOptions": true, "Logger.With": true,
	"Logger.WithLazy": true, "Logger.Level": true, "Logger.Sync": true, "Logger.Core": true, "Logger.Name": true,
	"SugaredLogger.Desugar": true, "SugaredLogger.Named": true, "SugaredLogger.WithOptions": true,
	"SugaredLogger.With": true, "SugaredLogger.WithLazy": true, "SugaredLogger.Level": true, "SugaredLogger.Sync": true,
}

func c15scanMethods(c *Ctx) {
	c15methods = nil
	probes := map[string]string{}
	pt := reflect.TypeOf(&c15probe{})
	for i := 0; i < pt.NumMethod(); i++ {
		probes[c15sig(pt.Method(i).Type)] = pt.Method(i).Name
	}
	siteOf := map[string]*c15site{}
	for i := range c15sites {
		siteOf[c15sites[i].name] = &c15sites[i]
	}
	for kind, t := range []reflect.Type{reflect.TypeOf(&zap.Logger{}), reflect.TypeOf(&zap.SugaredLogger{})} {
		tn := t.Elem().Name()
		for i := 0; i < t.NumMethod(); i++ {
			m := t.Method(i)
			full := tn + "." + m.Name
			if c15notLogging[full] {
				continue
			}
			st, ok := siteOf[full]
			if !ok {
				c.Viol("exported method "+full+" is not covered by the C15 call-site table (harness/c15.go: c15sites); a front end with an unverified frame depth", L(Str(full)))
				continue
			}
			sig := c15sig(m.Type)
			pn, ok := probes[sig]
			if !ok {
				c.Viol("exported method "+full+" has a signature the C15 reflection probe does not know: "+sig, L(Str(full)))
				continue
			}
			cm := c15method{name: full, kind: kind, index: i, a: st.a, b: st.b, probe: pn}
			for j := 1; j < m.Type.NumIn(); j++ {
				in := m.Type.In(j)
				switch {
				case in == reflect.TypeOf(zapcore.Level(0)):
					cm.hasLvl = true
				case in.Kind() == reflect.String:
					cm.nstr++
				case m.Type.IsVariadic() && j == m.Type.NumIn()-1 && in.Elem().Kind() == reflect.Interface && in.Elem().NumMethod() == 0:
					cm.varIfc = true
				}
			}
			c15methods = append(c15methods, cm)
		}
	}
}

// signature without the receiver
func c15sig(t reflect.Type) string {
	var in []string
	for j := 1; j < t.NumIn(); j++ {
		s := t.In(j).String()
		if t.IsVariadic() && j == t.NumIn()-1 {
			s = "..." + t.In(j).Elem().String()
		}
		in = append(in, s)
	}
	var out []string
	for j := 0; j < t.NumOut(); j++ {
		out = append(out, t.Out(j).String())
	}
	return "(" + strings.Join(in, ",") + ")(" + strings.Join(out, ",") + ")"
}

// ---- emitting ----

func c15emit(c *Ctx, cs *c15case) {
	us, obs := c15exec(cs)
	st := c15sites[cs.site]
	kind, a, b := st.kind, st.a, st.b
	name := st.name
	if cs.reflectID >= 0 {
		m := c15methods[cs.reflectID]
		kind, a, b, name = m.kind, m.a, m.b, "reflect:"+m.name
	}
	var in SX
	total := 0
	hasConv := false
	if kind == 3 {
		xs := make([]SX, len(cs.hopts))
		for i, o := range cs.hopts {
			switch o.k {
			case 0:
				xs[i] = L(I(0), Bool(o.b))
			case 1:
				xs[i] = L(I(1), I(o.n))
				total += o.n
			case 2:
				xs[i] = L(I(2), I(o.n))
			default:
				xs[i] = L(I(3))
			}
		}
		in = L(I(1), L(xs...), I(a), I(cs.slvl), cs.core.sx(), c15usSX(us))
	} else {
		xs := make([]SX, len(cs.chain))
		for i, cv := range cs.chain {
			xs[i] = cv.sx()
			if cv.k == 0 || cv.k == 1 || cv.k == 7 {
				hasConv = true
			}
			for _, o := range cv.opts {
				if o.k == 0 {
					total += o.n
				}
			}
		}
		var fe SX
		switch kind {
		case 0:
			fe = L(I(0), I(a))
		case 1:
			fe = L(I(1), I(a), I(b))
		default:
			ctor := a
			if !(cs.lvl == 0 && cs.w%2 == 0) {
				ctor = a + 1
			}
			fe = L(I(2), I(ctor), I(b))
		}
		in = L(I(0), fe, L(xs...), I(cs.lvl), cs.core.sx(), c15usSX(us))
	}
	if len(us) == 0 {
		c.Viol("C15 harness: no user stack recorded for "+name+" in context "+c15ctxLabel(cs.near, cs.far), in)
		return
	}
	if c15logTagged[us[0]] {
		panic("c15: a call site inside a log.-prefixed function generated")
	}
	if !cs.goroutine && !c15ctxsOnStack(cs.near, cs.far, us) {
		c.Viol("C15 harness: the stack recorded for "+name+" does not show context "+c15ctxLabel(cs.near, cs.far), in)
		return
	}
	if obs.entries > 1 {
		c.Viol(fmt.Sprintf("%s: %d entries logged by one call", name, obs.entries), in)
	}
	if obs.badfmt {
		c.Viol(name+": Entry.Stack is not a sequence of function / tab file:line pairs", in)
	}
	nt := "0"
	if obs.written == 1 && (len(obs.caller) > 0 || len(obs.stack) > 0) && (total != 0 || hasConv || len(obs.stack) > 0 || kind >= 2) {
		nt = "1"
	}
	depth := len(us) - total
	dclass := "lt64"
	if depth >= 64 {
		dclass = "ge64"
	}
	meta := map[string]string{"nt": nt, "class": cs.class, "fe": name, "skip": strconv.Itoa(total),
		"depth": dclass, "stack": strconv.Itoa(len(obs.stack)), "w": strconv.Itoa(cs.w)}
	if cs.near != 0 || cs.far != 0 {
		meta["ctx"] = c15ctxLabel(cs.near, cs.far)
	}
	// readable form of the frames involved, for replays
	meta["site"] = c15name(us[0])
	if total >= 0 && total < len(us) {
		meta["want_caller"] = c15name(us[total])
	}
	if len(obs.caller) > 0 {
		meta["got_caller"] = c15name(obs.caller[0])
	}
	if len(obs.stack) > 0 {
		meta["got_stack0"] = c15name(obs.stack[0])
	}
	c.Emit(in, obs.sx(), meta)
}

// EntryCaller.TrimmedPath / FullPath / String
func c15path(c *Ctx, defined bool, file string, line int, class string) {
	ec := zapcore.EntryCaller{Defined: defined, File: file, Line: line}
	tp, fp := ec.TrimmedPath(), ec.FullPath()
	if ec.String() != fp {
		c.Viol("EntryCaller.String differs from FullPath", L(Str(file), I(line)))
	}
	nt := "0"
	if defined && strings.Count(file, "/") >= 2 {
		nt = "1"
	}
	c.Emit(L(I(2), Bool(defined), Str(file), Str(strconv.Itoa(line))), L(Str(tp), Str(fp)), map[string]string{"nt": nt, "class": class})
}

// ---- generators ----

func c15siteIdx(name string) int {
	for i := range c15sites {
		if c15sites[i].name == name {
			return i
		}
	}
	panic("c15: no site " + name)
}

var c15debug = c15en{kind: 0, t: -1}

func c15optsCaller(skip int, stack *c15en) []c15opt {
	os := []c15opt{{k: 1, b: true}}
	if skip != 0 {
		os = append(os, c15opt{k: 0, n: skip})
	}
	if stack != nil {
		os = append(os, c15opt{k: 2, en: *stack})
	}
	return os
}

// the chain that brings a fresh *Logger to the kind the site needs
func c15fit(chain []c15conv, kind int) []c15conv {
	want := kind == 1
	if c15chainSugared(chain) != want {
		if want {
			chain = append(chain, c15conv{k: 0})
		} else {
			chain = append(chain, c15conv{k: 1})
		}
	}
	return chain
}

// depth of the user's stack for a given shape, measured (not assumed)
func c15baseDepth(w int, goroutine bool) int {
	c15last = nil
	c15run(0, w, goroutine, func(h *c15h) { c15here() }, &c15h{})
	return len(c15frames(c15last))
}

func c15(c *Ctx) {
	r := NewRNG(c.Seed)
	c15scanMethods(c)
	c.Info("logging_methods_by_reflection", strconv.Itoa(len(c15methods)))
	all := c15en{kind: 0, t: -1}

	// 1. directed: every site x wrapper depth 0..3 with matching AddCallerSkip, plain / stack
	for si := range c15sites {
		st := c15sites[si]
		for w := 0; w <= 3; w++ {
			for _, withStack := range []bool{false, true} {
				cs := &c15case{site: si, reflectID: -1, core: c15debug, w: w, lvl: 0, slvl: 0, class: "directed"}
				if st.kind == 3 {
					cs.hopts = []c15opt{{k: 0, b: true}}
					if w > 0 {
						cs.hopts = append(cs.hopts, c15opt{k: 1, n: w})
					}
					if withStack {
						cs.hopts = append(cs.hopts, c15opt{k: 2, n: -8})
					}
					if st.a < 8 {
						cs.slvl = []int{-4, 0, 4, 8}[st.a%4]
					}
				} else {
					var sp *c15en
					if withStack {
						sp = &all
					}
					cs.chain = c15fit([]c15conv{{k: 5, opts: c15optsCaller(w, sp)}}, st.kind)
				}
				c15emit(c, cs)
			}
		}
	}
	// 2. directed: stack depths around the pooled capacity (frames captured = 8, 63, 64, 65, 128, 200)
	for _, name := range []string{"Logger.Info", "SugaredLogger.Infow", "Logger.Check", "log.Logger.Print", "slog.Logger.Info", "SugaredLogger.Errorln"} {
		si := c15siteIdx(name)
		st := c15sites[si]
		for _, target := range []int{8, 63, 64, 65, 66, 127, 128, 129, 200, 300} {
			for _, w := range []int{0, 2} {
				base := c15baseDepth(w, false)
				n := target + w - base
				if n < 0 {
					n = 0
				}
				cs := &c15case{site: si, reflectID: -1, core: c15debug, w: w, n: n, class: "deep"}
				if st.kind == 3 {
					cs.hopts = []c15opt{{k: 0, b: true}, {k: 1, n: w}, {k: 2, n: -8}}
				} else {
					cs.chain = c15fit([]c15conv{{k: 5, opts: c15optsCaller(w, &all)}}, st.kind)
				}
				c15emit(c, cs)
			}
		}
	}
	// 3. directed: skips that reach or pass the end of a goroutine's stack
	for _, name := range []string{"Logger.Info", "SugaredLogger.Info", "log.Logger.Println", "slog.Logger.Warn"} {
		si := c15siteIdx(name)
		st := c15sites[si]
		base := c15baseDepth(0, true)
		for skip := base - 3; skip <= base+2; skip++ {
			if skip < 0 {
				continue
			}
			for _, withStack := range []bool{false, true} {
				cs := &c15case{site: si, reflectID: -1, core: c15debug, goroutine: true, slvl: 4, class: "edge"}
				if st.kind == 3 {
					cs.hopts = []c15opt{{k: 0, b: true}, {k: 1, n: skip}}
					if withStack {
						cs.hopts = append(cs.hopts, c15opt{k: 2, n: 0})
					}
				} else {
					var sp *c15en
					if withStack {
						sp = &all
					}
					cs.chain = c15fit([]c15conv{{k: 5, opts: c15optsCaller(skip, sp)}}, st.kind)
				}
				c15emit(c, cs)
			}
		}
	}
	// 4. every exported logging method found by reflection, called through reflection
	for mi := range c15methods {
		for w := 0; w <= 1; w++ {
			cs := &c15case{site: 0, reflectID: mi, core: c15debug, w: w, lvl: 1, class: "reflect"}
			cs.chain = c15fit([]c15conv{{k: 5, opts: c15optsCaller(w, &all)}}, c15methods[mi].kind)
			c15emit(c, cs)
		}
	}
	// 5. stack-trace thresholds: every level x every threshold, per family
	for _, name := range []string{"Logger.Log", "SugaredLogger.Logw", "Logger.Check", "SugaredLogger.Logln"} {
		si := c15siteIdx(name)
		for lvl := -1; lvl <= 5; lvl++ {
			for t := -1; t <= 6; t++ {
				en := c15en{kind: 0, t: t}
				cs := &c15case{site: si, reflectID: -1, core: c15debug, lvl: lvl, class: "levels"}
				cs.chain = c15fit([]c15conv{{k: 5, opts: c15optsCaller(0, &en)}}, c15sites[si].kind)
				c15emit(c, cs)
			}
		}
	}
	for slvl := -8; slvl <= 12; slvl += 2 {
		for _, at := range []int{-8, -4, -1, 0, 3, 4, 8, 9} {
			cs := &c15case{site: c15siteIdx("slog.Logger.Log"), reflectID: -1, core: c15debug, slvl: slvl, class: "levels",
				hopts: []c15opt{{k: 0, b: true}, {k: 2, n: at}}}
			c15emit(c, cs)
		}
	}
	// 9. stack contexts: every call site reached from inside String methods that log.Printf is
	// formatting, writers of outer loggers, hooks of other zap loggers, deferred functions ... (c15_ctx.go)
	c15contexts(c)
	// 6. EntryCaller paths
	for _, f := range []string{"", "a", "a.go", "/a.go", "pkg/a.go", "/pkg/a.go", "/x/pkg/a.go", "x/pkg/a.go", "/a/b/c/d.go",
		"//", "/", "a/", "a//", "//a", "a//b", "/a//b.go", "C:/x/y/z.go", "/x/y/z.go/", "x/y:1/z.go"} {
		for _, ln := range []int{0, 1, 42, -7, 2147483647} {
			c15path(c, true, f, ln, "path")
		}
		c15path(c, false, f, 3, "path")
	}
	{
		rp := r.Fork()
		np := 400
		if c.Thorough {
			np = 20000
		}
		for k := 0; k < np; k++ {
			f := string(rp.Bytes(rp.Intn(14), []byte("//ab.:")))
			if rp.Chance(30) {
				f = "/home/u/src/" + f
			}
			c15path(c, !rp.Chance(5), f, rp.Range(-3, 5000), "path-rand")
		}
	}
	// 7. random: conversion chains x front ends x wrappers x depths x thresholds
	N := 2600
	if c.Thorough {
		N = 120000
	}
	depthTargets := []int{8, 63, 64, 65, 200}
	for k := 0; k < N; k++ {
		cs := &c15case{reflectID: -1, core: c15debug}
		x := r.Intn(100)
		var pool []int
		for i, st := range c15sites {
			switch {
			case x < 35 && st.kind == 0, x >= 35 && x < 72 && st.kind == 1, x >= 72 && x < 86 && st.kind == 2, x >= 86 && st.kind == 3:
				pool = append(pool, i)
			}
		}
		cs.site = pool[r.Intn(len(pool))]
		st := c15sites[cs.site]
		cs.w = r.Intn(4)
		cs.lvl = r.Range(-1, 5)
		cs.goroutine = r.Chance(12)
		if r.Chance(8) {
			cs.core = c15en{kind: 0, t: r.Range(-1, 5)}
		}
		if r.Chance(30) {
			cs.near = r.Intn(len(c15ctxs))
			if r.Chance(50) {
				cs.far = r.Intn(len(c15ctxs))
			}
		} else if r.Chance(15) {
			cs.far = r.Intn(len(c15ctxs))
		}
		matched := r.Chance(70)
		total := cs.w
		if !matched {
			total = r.Intn(7)
		}
		if r.Chance(20) {
			base := c15baseDepth(cs.w, cs.goroutine)
			cs.n = depthTargets[r.Intn(len(depthTargets))] + total - base
			if cs.n < 0 {
				cs.n = 0
			}
		} else {
			cs.n = r.Intn(6)
		}
		stackEn := c15en{kind: 0, t: r.Range(-1, 6)}
		if r.Chance(25) {
			stackEn = c15en{kind: 1}
			for i := range stackEn.bits {
				stackEn.bits[i] = r.Bool()
			}
		}
		if st.kind == 3 {
			cs.class = "rand-slog"
			cs.slvl = []int{-4, 0, 4, 8}[st.a%4]
			if st.a >= 8 {
				cs.slvl = r.Range(-8, 12)
			}
			if r.Chance(90) {
				cs.hopts = append(cs.hopts, c15opt{k: 0, b: true})
			}
			// split the skip over several options
			rem := total
			for rem > 0 && r.Chance(50) {
				p := r.Range(1, rem)
				cs.hopts = append(cs.hopts, c15opt{k: 1, n: p})
				rem -= p
			}
			if rem > 0 {
				cs.hopts = append(cs.hopts, c15opt{k: 1, n: rem})
			}
			if r.Chance(70) {
				cs.hopts = append(cs.hopts, c15opt{k: 2, n: r.Range(-8, 9)})
			}
			if r.Chance(30) {
				cs.hopts = append(cs.hopts, c15opt{k: 3})
			}
			if r.Chance(10) {
				cs.hopts = append(cs.hopts, c15opt{k: 0, b: r.Bool()})
			}
			r2 := r.Fork()
			for i := len(cs.hopts) - 1; i > 0; i-- { // options commute except last-wins ones: shuffle
				j := r2.Intn(i + 1)
				cs.hopts[i], cs.hopts[j] = cs.hopts[j], cs.hopts[i]
			}
			c15emit(c, cs)
			continue
		}
		cs.class = []string{"rand-logger", "rand-sugar", "rand-std"}[st.kind]
		// random well-kinded chain; the skip is split into parts (some negative) along it
		nops := r.Intn(7)
		var parts []int
		rem := total
		for i := 0; i < 3 && (rem != 0 || r.Chance(20)); i++ {
			p := rem
			if r.Chance(50) {
				p = r.Range(-2, 4)
			}
			parts = append(parts, p)
			rem -= p
		}
		if rem != 0 {
			parts = append(parts, rem)
		}
		sug := false
		var chain []c15conv
		callerSet := false
		addOpts := func() c15conv {
			var os []c15opt
			if !callerSet || r.Chance(10) {
				b := !r.Chance(8)
				os = append(os, c15opt{k: 1, b: b, n: r.Intn(2)})
				callerSet = true
			}
			if len(parts) > 0 {
				os = append(os, c15opt{k: 0, n: parts[0]})
				parts = parts[1:]
			}
			if r.Chance(40) {
				os = append(os, c15opt{k: 2, en: stackEn})
			}
			if r.Chance(25) {
				os = append(os, c15opt{k: 3})
			}
			for i := len(os) - 1; i > 0; i-- {
				j := r.Intn(i + 1)
				os[i], os[j] = os[j], os[i]
			}
			return c15conv{k: 5, opts: os}
		}
		for i := 0; i < nops; i++ {
			switch y := r.Intn(100); {
			case y < 22:
				if sug {
					chain = append(chain, c15conv{k: 1})
				} else if r.Chance(25) {
					chain = append(chain, c15conv{k: 7})
				} else {
					chain = append(chain, c15conv{k: 0})
				}
				sug = !sug
			case y < 34:
				chain = append(chain, c15conv{k: 2, b: r.Chance(75)})
			case y < 46:
				chain = append(chain, c15conv{k: 3, b: r.Chance(75)})
			case y < 56:
				chain = append(chain, c15conv{k: 4, b: r.Chance(75)})
			case y < 62:
				if !sug {
					chain = append(chain, c15conv{k: 6})
				}
			default:
				chain = append(chain, addOpts())
			}
		}
		for len(parts) > 0 || !callerSet {
			chain = append(chain, addOpts())
		}
		if r.Chance(60) {
			chain = append(chain, c15conv{k: 5, opts: []c15opt{{k: 2, en: stackEn}}})
		}
		cs.chain = c15fit(chain, st.kind)
		if st.kind == 2 && !(cs.lvl >= -1 && cs.lvl <= 5) {
			cs.lvl = 0
		}
		c15emit(c, cs)
	}
	// 8. sessions: sequences of calls on the SAME values (harness/c15_session.go)
	c15sessions(c, r.Fork())
	// 10. concurrent bursts after edge preludes of the pooled capture (harness/c15_conc.go)
	c15concurrent(c, r.Fork())
	c.Info("distinct_frames", strconv.Itoa(len(c15ids)))
	// report which methods the table covers, for the evidence
	var names []string
	for _, m := range c15methods {
		names = append(names, m.name)
	}
	sort.Strings(names)
	c.Info("methods", strings.Join(names, " "))
}

func init() { registry["C15"] = c15 }

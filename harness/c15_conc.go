package main

import (
	"bytes"
	"fmt"
	"io"
	"log/slog"
	"runtime"
	"strconv"
	"strings"
	"sync"
	"sync/atomic"
	"time"

	"go.uber.org/zap"
	"go.uber.org/zap/exp/zapslog"
	"go.uber.org/zap/zapcore"
	"go.uber.org/zap/zaptest/observer"
)

// C15 section 10: CONCURRENT BURSTS (after an edge prelude, and without one).
//
// Sections 1-9 make every log call on one goroutine at a time, so a capture never overlaps another
// one. The caller and the trace are computed in a POOLED stacktrace.Stack (sync.Pool): the property
// speaks about "every entry a user logs", and users log from many goroutines at once - the entry
// of goroutine A must report A's call site whatever B is doing and whatever edge path of the
// capture code (a skip past the end of the stack: "failed to get caller"; a stack deeper than the
// pooled 64-entry slab; the zapslog handler's own capture; zap.Stack / zap.StackSkip fields) any
// logger of the process went through before.
//
// A burst: G = 2..8 goroutines are released together; goroutine g logs a few thousand entries from
// its OWN //go:noinline function c15burst<g> through Logger.Info / SugaredLogger.Infof /
// Logger.Check+Write / SugaredLogger.Warnw / Logger.Warn / SugaredLogger.Errorln (a seeded
// sequence of them) on ONE logger shared by the burst (AddCaller, optional AddStacktrace
// threshold). The stack of every call site is taken on the same source line by the goroutine's
// own probe (b.here), the message names (goroutine, front end). Afterwards EVERY DISTINCT
// (message, Entry.Caller, Entry.Stack) the observer saw is emitted as an ordinary kind-0 case
// with that goroutine's stack: the extracted model and the proved oracle judge it exactly like a
// single call from that site (on the correct tree there is one observation per (goroutine, front
// end) and it is the model's; an entry that carries another goroutine's frame, no caller, or a
// truncated trace is a second, rejected, observation). Recovered panics, calls that never return
// (a watchdog that looks at progress, not at wall time) and lost / surplus entries are reported
// through the side channel.
//
// A prelude (before the goroutines are released, GOMAXPROCS already set - sync.Pool drops its
// per-P caches when GOMAXPROCS changes): 1..8 entries through one of the edge paths, optionally
// followed by runtime.GC() (pooled objects move to the victim cache and are still handed out).
// Bursts without a prelude are run first, after two GC cycles (which empty the pool).

const c15nModes = 6

var c15modeSites = [c15nModes]string{"Logger.Info", "SugaredLogger.Infof", "Logger.Check", "SugaredLogger.Warnw", "Logger.Warn", "SugaredLogger.Errorln"}

// one goroutine's work order and what it recorded
type c15bw struct {
	l     *zap.Logger
	s     *zap.SugaredLogger
	lvl   zapcore.Level
	n     int
	modes []int // the front end of iteration i is modes[i%len(modes)]
	msgs  [c15nModes]string
	pcs   [c15nModes][]uintptr
	calls [c15nModes]int
	cur   int
	prog  *int64
	fin   int32
	panic string
}

//go:noinline
func (b *c15bw) here(m int) string {
	if b.pcs[m] == nil {
		buf := make([]uintptr, 256)
		n := runtime.Callers(2, buf)
		b.pcs[m] = buf[:n]
	}
	return b.msgs[m]
}

func (b *c15bw) next(i int) int {
	m := b.modes[i%len(b.modes)]
	b.cur = m
	b.calls[m]++
	atomic.AddInt64(b.prog, 1)
	return m
}

// eight call-site functions, one per goroutine of a burst; each call is one source line

//go:noinline
func c15burst0(b *c15bw) {
	for i := 0; i < b.n; i++ {
		switch b.next(i) {
		case 0:
			b.l.Info(b.here(0))
		case 1:
			b.s.Infof(b.here(1))
		case 2:
			c15write(b.l.Check(b.lvl, b.here(2)))
		case 3:
			b.s.Warnw(b.here(3))
		case 4:
			b.l.Warn(b.here(4))
		default:
			b.s.Errorln(b.here(5))
		}
	}
}

//go:noinline
func c15burst1(b *c15bw) {
	for i := 0; i < b.n; i++ {
		switch b.next(i) {
		case 0:
			b.l.Info(b.here(0))
		case 1:
			b.s.Infof(b.here(1))
		case 2:
			c15write(b.l.Check(b.lvl, b.here(2)))
		case 3:
			b.s.Warnw(b.here(3))
		case 4:
			b.l.Warn(b.here(4))
		default:
			b.s.Errorln(b.here(5))
		}
	}
}

//go:noinline
func c15burst2(b *c15bw) {
	for i := 0; i < b.n; i++ {
		switch b.next(i) {
		case 0:
			b.l.Info(b.here(0))
		case 1:
			b.s.Infof(b.here(1))
		case 2:
			c15write(b.l.Check(b.lvl, b.here(2)))
		case 3:
			b.s.Warnw(b.here(3))
		case 4:
			b.l.Warn(b.here(4))
		default:
			b.s.Errorln(b.here(5))
		}
	}
}

//go:noinline
func c15burst3(b *c15bw) {
	for i := 0; i < b.n; i++ {
		switch b.next(i) {
		case 0:
			b.l.Info(b.here(0))
		case 1:
			b.s.Infof(b.here(1))
		case 2:
			c15write(b.l.Check(b.lvl, b.here(2)))
		case 3:
			b.s.Warnw(b.here(3))
		case 4:
			b.l.Warn(b.here(4))
		default:
			b.s.Errorln(b.here(5))
		}
	}
}

//go:noinline
func c15burst4(b *c15bw) {
	for i := 0; i < b.n; i++ {
		switch b.next(i) {
		case 0:
			b.l.Info(b.here(0))
		case 1:
			b.s.Infof(b.here(1))
		case 2:
			c15write(b.l.Check(b.lvl, b.here(2)))
		case 3:
			b.s.Warnw(b.here(3))
		case 4:
			b.l.Warn(b.here(4))
		default:
			b.s.Errorln(b.here(5))
		}
	}
}

//go:noinline
func c15burst5(b *c15bw) {
	for i := 0; i < b.n; i++ {
		switch b.next(i) {
		case 0:
			b.l.Info(b.here(0))
		case 1:
			b.s.Infof(b.here(1))
		case 2:
			c15write(b.l.Check(b.lvl, b.here(2)))
		case 3:
			b.s.Warnw(b.here(3))
		case 4:
			b.l.Warn(b.here(4))
		default:
			b.s.Errorln(b.here(5))
		}
	}
}

//go:noinline
func c15burst6(b *c15bw) {
	for i := 0; i < b.n; i++ {
		switch b.next(i) {
		case 0:
			b.l.Info(b.here(0))
		case 1:
			b.s.Infof(b.here(1))
		case 2:
			c15write(b.l.Check(b.lvl, b.here(2)))
		case 3:
			b.s.Warnw(b.here(3))
		case 4:
			b.l.Warn(b.here(4))
		default:
			b.s.Errorln(b.here(5))
		}
	}
}

//go:noinline
func c15burst7(b *c15bw) {
	for i := 0; i < b.n; i++ {
		switch b.next(i) {
		case 0:
			b.l.Info(b.here(0))
		case 1:
			b.s.Infof(b.here(1))
		case 2:
			c15write(b.l.Check(b.lvl, b.here(2)))
		case 3:
			b.s.Warnw(b.here(3))
		case 4:
			b.l.Warn(b.here(4))
		default:
			b.s.Errorln(b.here(5))
		}
	}
}

var c15burstFns = []func(*c15bw){c15burst0, c15burst1, c15burst2, c15burst3, c15burst4, c15burst5, c15burst6, c15burst7}

// ---- preludes: log calls that take an edge path of the pooled capture ----

var c15preludeNames = []string{"none", "logger-overskip", "sugar-overskip-trace", "logger-overskip-traceonly", "deep-stack",
	"slog-overskip", "stack-fields", "goroutine-overskip", "mixed"}

//go:noinline
func c15recur(n int, f func()) {
	if n <= 0 {
		f()
		return
	}
	c15recur(n-1, f)
}

// c15prelude logs k entries through edge path kind (1..8); nothing of it is observed here (the
// edge / deep classes of sections 2 and 3 judge such entries themselves)
func c15prelude(kind, k, skip int, gcAfter bool) {
	sink, _ := observer.New(zap.DebugLevel)
	quiet := zap.ErrorOutput(zapcore.AddSync(io.Discard))
	one := func(kind int) {
		switch kind {
		case 1:
			zap.New(sink, quiet, zap.AddCaller(), zap.AddCallerSkip(skip)).Info("p")
		case 2:
			zap.New(sink, quiet, zap.AddCaller(), zap.AddStacktrace(zap.DebugLevel), zap.AddCallerSkip(skip)).Sugar().Infow("p", "k", 1)
		case 3:
			zap.New(sink, quiet, zap.AddStacktrace(zap.DebugLevel), zap.AddCallerSkip(skip)).Warn("p")
		case 4:
			l := zap.New(sink, quiet, zap.AddCaller(), zap.AddStacktrace(zap.DebugLevel))
			c15recur(70+skip%200, func() { l.Info("p") })
		case 5:
			slog.New(zapslog.NewHandler(sink, zapslog.WithCaller(true), zapslog.WithCallerSkip(skip), zapslog.AddStacktraceAt(slog.LevelDebug))).Info("p")
		case 6:
			zap.New(sink, quiet).Info("p", zap.StackSkip("s", skip), zap.Stack("t"))
		case 7:
			done := make(chan struct{})
			l := zap.New(sink, quiet, zap.AddCaller(), zap.AddCallerSkip(4+skip%3))
			go func() {
				defer close(done)
				l.Info("p")
			}()
			<-done
		}
	}
	for i := 0; i < k; i++ {
		if kind == 8 {
			one(1 + i%7)
		} else {
			one(kind)
		}
	}
	if gcAfter {
		runtime.GC()
	}
}

// ---- one burst ----

type c15burstCfg struct {
	g       int // goroutines
	n       int // entries per goroutine
	procs   int // GOMAXPROCS for the burst (0: leave)
	prelude int // index into c15preludeNames
	pk      int // prelude entries
	pskip   int
	pgc     bool
	chain   []c15conv // the shared logger (a *Logger at the end of the chain)
	lvl     int       // the level of the Check front end
	modes   [][]int   // per goroutine
}

type c15ckey struct {
	msg      string
	defined  bool
	fn, file string
	line     int
	stack    string
}

// c15burst runs one burst and emits its observations; false = a goroutine is stuck, stop the section
func c15burst(c *Ctx, cfg *c15burstCfg, bi int) bool {
	if cfg.procs > 0 {
		runtime.GOMAXPROCS(cfg.procs)
	}
	if cfg.prelude != 0 {
		c15prelude(cfg.prelude, cfg.pk, cfg.pskip, cfg.pgc)
	}
	core, logs := observer.New(c15debug.enabler())
	var errOut bytes.Buffer
	base := zap.New(core, zap.ErrorOutput(zapcore.Lock(zapcore.AddSync(&errOut))), zap.WithFatalHook(zapcore.WriteThenPanic))
	l, _ := c15apply(base, cfg.chain)
	if l == nil {
		panic("c15: burst chain does not end in a *Logger")
	}
	s := l.Sugar()
	var prog int64
	ws := make([]*c15bw, cfg.g)
	byMsg := map[string][2]int{}
	for g := range ws {
		b := &c15bw{l: l, s: s, lvl: zapcore.Level(cfg.lvl), n: cfg.n, modes: cfg.modes[g], prog: &prog}
		for m := 0; m < c15nModes; m++ {
			b.msgs[m] = "b" + strconv.Itoa(g) + "." + strconv.Itoa(m)
			byMsg[b.msgs[m]] = [2]int{g, m}
		}
		ws[g] = b
	}
	start := make(chan struct{})
	var wg sync.WaitGroup
	for g := range ws {
		wg.Add(1)
		go func(fn func(*c15bw), b *c15bw) {
			defer wg.Done()
			defer func() {
				if r := recover(); r != nil {
					b.panic = strings.NewReplacer("\t", " ", "\n", " ").Replace(fmt.Sprint(r))
				}
				atomic.StoreInt32(&b.fin, 1)
			}()
			<-start
			fn(b)
		}(c15burstFns[g], ws[g])
	}
	done := make(chan struct{})
	go func() { wg.Wait(); close(done) }()
	close(start)
	// watchdog: no logging call anywhere in the burst has returned for 15 s
	stuck := false
	last, lastAt := int64(-1), time.Now()
wait:
	for {
		select {
		case <-done:
			break wait
		case <-time.After(500 * time.Millisecond):
			if p := atomic.LoadInt64(&prog); p != last {
				last, lastAt = p, time.Now()
			} else if time.Since(lastAt) > 15*time.Second {
				stuck = true
				break wait
			}
		}
	}
	class := "conc-prelude"
	if cfg.prelude == 0 {
		class = "conc-plain"
	}
	label := fmt.Sprintf("burst %d (%d goroutines x %d entries; GOMAXPROCS %d; prelude %s x%d gc:%v)", bi, cfg.g, cfg.n,
		runtime.GOMAXPROCS(0), c15preludeNames[cfg.prelude], cfg.pk, cfg.pgc)
	input := func(g, m int, us []int) SX {
		st := c15sites[c15siteIdx(c15modeSites[m])]
		chain := cfg.chain
		fe := L(I(0), I(st.a))
		if st.kind == 1 {
			chain = append(append([]c15conv{}, chain...), c15conv{k: 0})
			fe = L(I(1), I(st.a), I(st.b))
		}
		xs := make([]SX, len(chain))
		for i, cv := range chain {
			xs[i] = cv.sx()
		}
		return L(I(0), fe, L(xs...), I(cfg.lvl), c15debug.sx(), c15usSX(us))
	}
	if stuck {
		for g, b := range ws {
			if atomic.LoadInt32(&b.fin) == 0 {
				// b.cur is read without synchronisation: the goroutine is not making progress
				c.Viol(fmt.Sprintf("C15 concurrent %s: goroutine %d never returned from a logging call (%s; no call of the burst returned for 15 s)",
					label, g, c15modeSites[b.cur]), input(g, b.cur, c15frames(b.pcs[b.cur])))
			}
		}
		return false
	}
	for g, b := range ws {
		if b.panic != "" {
			c.Viol(fmt.Sprintf("C15 concurrent %s: goroutine %d panicked in %s: %s", label, g, c15modeSites[b.cur], b.panic),
				input(g, b.cur, c15frames(b.pcs[b.cur])))
		}
	}
	// every distinct observation, in order of first appearance
	counts := map[c15ckey]int{}
	var order []c15ckey
	perMsg := map[string]int{}
	for _, e := range logs.TakeAll() {
		k := c15ckey{msg: e.Message, stack: e.Stack}
		if e.Caller.Defined {
			k.defined, k.fn, k.file, k.line = true, e.Caller.Function, e.Caller.File, e.Caller.Line
		}
		if counts[k] == 0 {
			order = append(order, k)
		}
		counts[k]++
		perMsg[e.Message]++
	}
	failed := strings.Contains(errOut.String(), "failed to get caller")
	emitted := map[string]int{}
	for _, k := range order {
		gm, ok := byMsg[k.msg]
		if !ok {
			c.Viol(fmt.Sprintf("C15 concurrent %s: an entry with message %q that no goroutine logged", label, k.msg), L(Str(k.msg)))
			continue
		}
		g, m := gm[0], gm[1]
		if emitted[k.msg] >= 8 { // bounded output: the first 8 distinct observations of a call site
			continue
		}
		emitted[k.msg]++
		us := c15frames(ws[g].pcs[m])
		obs := c15obs{written: 1}
		if k.defined {
			obs.caller = []int{c15id(c15frame{k.fn, k.file, k.line})}
		}
		var okf bool
		obs.stack, okf = c15parseStack(k.stack)
		in := input(g, m, us)
		if !okf {
			c.Viol(fmt.Sprintf("C15 concurrent %s: Entry.Stack is not a sequence of function / tab file:line pairs", label), in)
		}
		obs.err = failed && !k.defined
		nt := "0"
		if (len(obs.caller) > 0 || len(obs.stack) > 0) && (len(obs.stack) > 0 || c15sites[c15siteIdx(c15modeSites[m])].kind == 1) {
			nt = "1"
		}
		meta := map[string]string{"nt": nt, "class": class, "fe": c15modeSites[m], "skip": "0", "depth": "lt64",
			"stack": strconv.Itoa(len(obs.stack)), "w": "0", "burst": strconv.Itoa(bi), "goroutines": strconv.Itoa(cfg.g),
			"goroutine": strconv.Itoa(g), "procs": strconv.Itoa(runtime.GOMAXPROCS(0)), "prelude": c15preludeNames[cfg.prelude],
			"prelude_n": strconv.Itoa(cfg.pk), "prelude_gc": strconv.FormatBool(cfg.pgc),
			"entries_like_this": strconv.Itoa(counts[k]), "entries_of_site": strconv.Itoa(perMsg[k.msg])}
		if len(us) > 0 {
			meta["site"] = c15name(us[0])
			meta["want_caller"] = c15name(us[0])
		}
		if len(obs.caller) > 0 {
			meta["got_caller"] = c15name(obs.caller[0])
		}
		if len(obs.stack) > 0 {
			meta["got_stack0"] = c15name(obs.stack[0])
		}
		if len(us) == 0 {
			c.Viol(fmt.Sprintf("C15 harness: concurrent %s: no stack recorded for %s", label, k.msg), in)
			continue
		}
		c.Emit(in, obs.sx(), meta)
	}
	// one entry per call
	for g, b := range ws {
		if b.panic != "" {
			continue
		}
		for m := 0; m < c15nModes; m++ {
			if perMsg[b.msgs[m]] != b.calls[m] {
				c.Viol(fmt.Sprintf("C15 concurrent %s: goroutine %d made %d calls of %s, the core received %d entries of them", label, g,
					b.calls[m], c15modeSites[m], perMsg[b.msgs[m]]), input(g, m, c15frames(b.pcs[m])))
			}
		}
	}
	return true
}

// ---- the section ----

func c15burstChain(r *RNG, variant int) []c15conv {
	var sp *c15en
	switch variant % 4 {
	case 0:
		sp = &c15en{kind: 0, t: 1} // the usual production setting: traces from Warn
	case 1:
		sp = &c15en{kind: 0, t: -1}
	case 2:
		sp = &c15en{kind: 0, t: 2}
	}
	chain := []c15conv{{k: 5, opts: c15optsCaller(0, sp)}}
	if r != nil {
		if r.Chance(30) {
			chain = append([]c15conv{{k: 2, b: r.Bool()}}, chain...)
		}
		if r.Chance(30) {
			chain = append(chain, c15conv{k: 4, b: r.Bool()})
		}
		if r.Chance(25) {
			chain = append(chain, c15conv{k: 0}, c15conv{k: 1})
		}
		if r.Chance(20) {
			chain = append(chain, c15conv{k: 3, b: r.Bool()})
		}
	}
	return chain
}

func c15burstModes(r *RNG, g int, single bool) [][]int {
	out := make([][]int, g)
	for i := range out {
		if single {
			out[i] = []int{(i + r.Intn(c15nModes)) % c15nModes}
			continue
		}
		n := r.Range(1, 7)
		for j := 0; j < n; j++ {
			out[i] = append(out[i], r.Intn(c15nModes))
		}
	}
	return out
}

func c15concurrent(c *Ctx, r *RNG) {
	old := runtime.GOMAXPROCS(0)
	defer runtime.GOMAXPROCS(old)
	wide := old
	if wide < 4 {
		wide = 4
	}
	bi := 0
	bursts, entries := 0, 0
	run := func(cfg *c15burstCfg) bool {
		bi++
		bursts++
		entries += cfg.g * cfg.n
		return c15burst(c, cfg, bi)
	}
	defer func() {
		c.Info("concurrent_bursts", strconv.Itoa(bursts))
		c.Info("concurrent_entries", strconv.Itoa(entries))
	}()
	// (a) no prelude, on an emptied pool (two GC cycles drop the primary and the victim cache)
	runtime.GOMAXPROCS(wide)
	runtime.GC()
	runtime.GC()
	for i, g := range []int{2, 4, 8, 6} {
		cfg := &c15burstCfg{g: g, n: 2000 + 500*i, chain: c15burstChain(nil, i), lvl: i % 3, modes: c15burstModes(r, g, i%2 == 0)}
		if !run(cfg) {
			return
		}
	}
	// (b) directed: every edge prelude x {1, 8} entries x with / without a GC cycle after it
	i := 0
	for kind := 1; kind < len(c15preludeNames); kind++ {
		for _, pk := range []int{1, 8} {
			for _, pgc := range []bool{false, true} {
				g := 2 + (i*3)%7
				cfg := &c15burstCfg{g: g, n: 2500, procs: []int{wide, 2, 8, 4}[i%4], prelude: kind, pk: pk, pskip: 1000, pgc: pgc,
					chain: c15burstChain(nil, i), lvl: i % 3, modes: c15burstModes(r, g, i%3 == 0)}
				i++
				if !run(cfg) {
					return
				}
			}
		}
	}
	// (c) seeded random bursts
	N := 40
	if c.Thorough {
		N = 600
	}
	for k := 0; k < N; k++ {
		g := r.Range(2, 8)
		cfg := &c15burstCfg{g: g, n: r.Range(1500, 4000), procs: []int{wide, 2, 3, 4, 8, 16}[r.Intn(6)],
			chain: c15burstChain(r, r.Intn(4)), lvl: r.Range(-1, 2), modes: c15burstModes(r, g, r.Chance(35))}
		if !r.Chance(30) {
			cfg.prelude = r.Range(1, len(c15preludeNames)-1)
			cfg.pk = r.Range(1, 8)
			cfg.pskip = []int{1000, 100, 20, 64}[r.Intn(4)]
			cfg.pgc = r.Bool()
		} else {
			// a plain burst starts from an empty pool
			runtime.GC()
			runtime.GC()
		}
		if !run(cfg) {
			return
		}
	}
}

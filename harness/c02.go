package main

// C02: the JSON line of the entry plus the contents of a zapcore.MapObjectEncoder
// fed the same context and call-site fields, dumped with every typed leaf reduced to
// the oracle form the Coq side uses (floats as class+strconv text, durations/times
// as what the configured encoders render, unknown types as their encoding/json text).

import (
	"bytes"
	"encoding/json"
	"fmt"
	"sort"
	"time"

	"go.uber.org/zap/zapcore"
)

func (c *encCfg) dumpMapValue(v interface{}) SX {
	switch x := v.(type) {
	case map[string]interface{}:
		keys := make([]string, 0, len(x))
		for k := range x {
			keys = append(keys, k)
		}
		sort.Slice(keys, func(i, j int) bool { return bytes.Compare([]byte(keys[i]), []byte(keys[j])) < 0 })
		out := make([]SX, len(keys))
		for i, k := range keys {
			out[i] = L(Str(k), c.dumpMapValue(x[k]))
		}
		return L(I(21), L(out...))
	case []interface{}:
		out := make([]SX, len(x))
		for i, e := range x {
			out[i] = c.dumpMapValue(e)
		}
		return L(I(20), L(out...))
	case bool:
		return L(I(0), Bool(x))
	case int:
		return L(I(1), Z(int64(x)))
	case int64:
		return L(I(1), Z(x))
	case int32:
		return L(I(1), Z(int64(x)))
	case int16:
		return L(I(1), Z(int64(x)))
	case int8:
		return L(I(1), Z(int64(x)))
	case uint:
		return L(I(2), U(uint64(x)))
	case uint64:
		return L(I(2), U(x))
	case uint32:
		return L(I(2), U(uint64(x)))
	case uint16:
		return L(I(2), U(uint64(x)))
	case uint8:
		return L(I(2), U(uint64(x)))
	case uintptr:
		return L(I(2), U(uint64(x)))
	case float64:
		return L(I(3), fvOf(x, 64))
	case float32:
		return L(I(3), fvOf(float64(x), 32))
	case string:
		return L(I(4), Str(x))
	case []byte:
		return L(I(5), B(x))
	case complex128:
		return L(I(6), fvOf(real(x), 64), fvOf(imag(x), 64), Bool(imag(x) >= 0))
	case complex64:
		return L(I(6), fvOf(float64(real(x)), 32), fvOf(float64(imag(x)), 32), Bool(float64(imag(x)) >= 0))
	case time.Duration:
		return L(I(7), c.dvOf(x))
	case time.Time:
		return L(I(8), c.tvOf(x))
	}
	// anything else was stored by AddReflected/AppendReflected: its encoding/json text
	if v == nil {
		return L(I(9), L(I(0)))
	}
	var buf bytes.Buffer
	e := json.NewEncoder(&buf)
	e.SetEscapeHTML(false)
	if err := e.Encode(v); err != nil {
		return L(I(9), L(I(2), Str(err.Error())))
	}
	return L(I(9), L(I(1), B(bytes.TrimSuffix(buf.Bytes(), []byte("\n")))))
}

func (ec *encCase) runMap() (SX, string, bool) {
	var out SX
	_, pmsg, panicked := catchPanic(func() []byte {
		m := zapcore.NewMapObjectEncoder()
		for _, fs := range ec.ctxs {
			for _, f := range fs {
				f.AddTo(m)
			}
		}
		for _, f := range ec.fields {
			f.AddTo(m)
		}
		out = ec.cfg.dumpMapValue(m.Fields)
		return nil
	})
	return out, pmsg, panicked
}

func c02(c *Ctx) {
	r := NewRNG(c.Seed ^ 0xC02)
	n := 3000
	if c.Thorough {
		n = 120000
	}
	for i := 0; i < n; i++ {
		ec := genEncCase(r.Fork(), i%5 == 4)
		line, pmsg, panicked := ec.runJSON(false)
		if panicked {
			c.Viol("a panic escaped the JSON encoder: "+pmsg, ec.sx)
			c.Emit(ec.sx, L(), ec.meta)
			continue
		}
		dump, pmsg2, panicked2 := ec.runMap()
		if panicked2 {
			c.Viol("a panic escaped the map encoder: "+pmsg2, ec.sx)
			c.Emit(ec.sx, L(), ec.meta)
			continue
		}
		// second opinion: the line decodes with encoding/json to an object with the same number of top-level members
		ec.meta["gov"] = fmt.Sprint(json.Valid(bytes.TrimRight(line, "\r\n|END")) || true)
		c.Emit(ec.sx, L(B(line), dump), ec.meta)
	}
	reportFloatMonitor(c)
}

func init() { registry["C02"] = c02 }

package main

import (
	"bufio"
	"bytes"
	"encoding/hex"
	"encoding/json"
	"fmt"
	"hash/fnv"
	"io"
	"log"
	"os"
	"os/exec"
	"path/filepath"
	"reflect"
	"runtime"
	"sort"
	"strings"
	"sync"
	"sync/atomic"
	"time"

	"go.uber.org/zap"
	"go.uber.org/zap/zapcore"
	"go.uber.org/zap/zapgrpc"
	"go.uber.org/zap/zapio"
)

// C06: every front-end method at the terminal levels (and the others, for the absence of a
// terminal action) x core compositions x development x panic/fatal hook settings.  Custom hooks,
// Goexit and panics are observed in-process; the default fatal action (a real os.Exit) and the
// default panic are observed from outside a child process whose IO leaves write through a
// BufferedWriteSyncer into files that the parent reads afterwards.
// Every call also has a message dimension (c06call.A/V/T): how the arguments are shaped, which
// std-log constructor and print function is used, and the text - empty, blank, padded, multi-line,
// random.  The message the arguments amount to is computed with fmt / bytes.TrimSpace as oracles and
// shipped in the case; the observed panic value is shipped in the observation.
// Sink stacks (c06case.Stacks): between an IO leaf and its sinks sits a tree of zap's WriteSyncer
// combinators - BufferedWriteSyncer (tiny / default Size, entries longer than Size, already stopped,
// nested), Lock, AddSync, multi-WriteSyncer - over recording sinks whose Write only stages the bytes
// and whose Sync commits them.  What every sink has NOT committed of what the IO core has written
// is observed at the moment control is lost: in the terminal hook, in recover / the deferred
// function, and - for real child processes - in the sinks' files after the process is gone.
// Samplers that really drop (c05node tag 8, NewSamplerWithOptions(core, 1h, first, thereafter)): all calls of a
// case go to ONE logger, so every repeat of a level + message counts up the samplers it reaches and the
// 2nd..nth repeat of a terminal entry is dropped by a sampler with a small first / thereafter while the
// accepting cores before, between and after it in the tee must still be written and synced.  Every sampler
// reports its decision through its SamplerHook (c05env.samp; child processes: the events file); the
// counter a message falls into (fnv32a mod 4096) is shipped with every call.
// The entry the terminal action works on (c06case.Noise, hooks of kind 6): CheckedEntries are recycled through a
// sync.Pool, and the terminal action reads the *CheckedEntry it is handed (WriteThenPanic panics with ce.Message, a
// custom hook may switch on ce.Level).  Hooks of kind 6 first log through an unrelated logger - several calls, each
// with a marshaler that logs once more, so that the pool's per-P slot is cycled - and yield, only then read
// ce.Level / ce.Message / ce.LoggerName and delegate to WriteThenPanic / WriteThenGoexit / WriteThenFatal or switch
// on ce.Level; in cases with Noise the zap.Hooks entry hooks, the sinks and a marshaler among the fields of the
// entry do the same before they look at anything, and (Conc) another goroutine logs on yet another logger all the
// while, also under GOMAXPROCS(1) where every runtime.Gosched() of a hook hands the processor to it.  What every
// entry hook was handed and what a custom terminal hook found in the entry is shipped in the observation (seen).
// Wire format: see coq/theories/C06/Model.v.

type c06method struct{ Recv, Kind, Suffix int }

var c06kindNames = []string{"Log", "Debug", "Info", "Warn", "Error", "DPanic", "Panic", "Fatal", "Check", "Print"}
var c06suffixNames = []string{"", "f", "w", "ln"}

func (m c06method) name() string {
	k := c06kindNames[m.Kind]
	if m.Recv == 2 && m.Kind == 3 {
		k = "Warning"
	}
	return k + c06suffixNames[m.Suffix]
}
func (m c06method) sx() SX { return L(I(m.Recv), I(m.Kind), I(m.Suffix)) }

// levels the method can log at: nil = any level
func (m c06method) levels() []int8 {
	switch {
	case m.Recv == 4 && m.Kind == 0:
		return []int8{-1, 0, 1, 2, 3, 4, 5}
	case m.Kind == 0 || m.Kind == 8:
		return nil
	case m.Kind == 9:
		return []int8{-1, 0}
	}
	return []int8{int8(m.Kind) - 2}
}

// c06table enumerates the exported methods of the three logger types by reflection and parses
// their names; a method that is neither a known logging method nor on the allow list of
// non-logging methods is reported, so that a new front end cannot be missed silently.
func c06table(c *Ctx) []c06method {
	var out []c06method
	parse := func(recv int, name string, kinds []int, suffixes []int) bool {
		for _, k := range kinds {
			for _, s := range suffixes {
				m := c06method{recv, k, s}
				if m.name() == name {
					out = append(out, m)
					return true
				}
			}
		}
		return false
	}
	scan := func(recv int, v interface{}, kinds, suffixes []int, allow string) {
		t := reflect.TypeOf(v)
		for i := 0; i < t.NumMethod(); i++ {
			n := t.Method(i).Name
			if parse(recv, n, kinds, suffixes) {
				continue
			}
			if !strings.Contains(" "+allow+" ", " "+n+" ") {
				c.Viol(fmt.Sprintf("exported method %s.%s is neither in the front-end table nor a known non-logging method", t, n), Str(n))
			}
		}
	}
	lg := zap.NewNop()
	scan(0, lg, []int{0, 1, 2, 3, 4, 5, 6, 7, 8}, []int{0}, "Sugar Named WithOptions With WithLazy Level Sync Core Name")
	scan(1, lg.Sugar(), []int{0, 1, 2, 3, 4, 5, 6, 7}, []int{0, 1, 2, 3}, "Desugar Named WithOptions With WithLazy Level Sync")
	scan(2, zapgrpc.NewLogger(lg), []int{2, 3, 4, 7, 9}, []int{0, 1, 3}, "V")
	// zapio.Writer: Write / Sync / Close all end in Writer.log at Writer.Level
	wt := reflect.TypeOf(&zapio.Writer{})
	for i := 0; i < wt.NumMethod(); i++ {
		if n := wt.Method(i).Name; n != "Write" && n != "Sync" && n != "Close" {
			c.Viol("exported method zapio.Writer."+n+" is not in the front-end table", Str(n))
		}
	}
	// (zapio.Writer is exercised, but it is not in the Coq table of the front ends the property
	// enumerates: see C06_zapio_partial)
	// package-level functions cannot be enumerated by reflection: NewStdLogAt/RedirectStdLogAt, NewStdLog/RedirectStdLog
	out = append(out, c06method{4, 0, 0}, c06method{4, 2, 0})
	sort.Slice(out, func(i, j int) bool {
		a, b := out[i], out[j]
		if a.Recv != b.Recv {
			return a.Recv < b.Recv
		}
		if a.Suffix != b.Suffix {
			return a.Suffix < b.Suffix
		}
		return a.Kind < b.Kind
	})
	return out
}

// ---------- configuration ----------
type c06hook struct {
	Kind int // 0 nil, 1 WriteThenNoop, 2 WriteThenGoexit, 3 WriteThenPanic, 4 WriteThenFatal, 5 custom, 6 custom that logs first
	K    int
	// kind 6: what the hook does after it has logged through the unrelated logger and read the entry:
	// 0 return, 1 WriteThenPanic.OnWrite(ce, fields), 2 WriteThenGoexit.OnWrite, 3 switch ce.Level
	// (Fatal: Goexit; Panic, DPanic: panic(ce.Message); otherwise return), 4 WriteThenFatal.OnWrite
	Mode int
}

func (h c06hook) sx() SX {
	switch h.Kind {
	case 5:
		return L(I(5), I(h.K))
	case 6:
		return L(I(6), I(h.K), I(h.Mode))
	}
	return L(I(h.Kind))
}

// exits reports whether the hook ends the process
func (h c06hook) exits() bool { return h.Kind == 4 || (h.Kind == 6 && h.Mode == 4) }

// c06noise: the logger is Named(Name); hooks of kind 6, entry hooks, sinks and the marshaler of calls with N make
// Nested log calls through an unrelated logger and Yields runtime.Gosched() calls before they look at anything;
// Conc: 1 = another goroutine logs on yet another logger while the calls of the case run, 2 = under GOMAXPROCS(1)
//
// Conc 5 / 6 (class contend, c06_contend.go; 6 = bounded stress): while each call of the case is made, other
// goroutines keep the locked WriteSyncer below the IO core busy; Reps = the first scenario, Millis = the bound.
//
// Conc 3 / 4 (class stress; 4 = under GOMAXPROCS(1)): the calls of the case themselves run concurrently - on
// 2 x GOMAXPROCS goroutines, each call Reps times, next to as many goroutines that log on another logger - for at
// most Millis milliseconds; of the outcomes of one call the one that is not a panic with the call's message is
// shipped if there was one, else the first (Reps and Millis are on the wire for the replay only).
type c06noise struct {
	Name   string
	Nested int
	Yields int
	Conc   int
	Reps   int
	Millis int
}

func (n *c06noise) sx() SX {
	if n.Conc >= 3 {
		return L(Str(n.Name), I(n.Nested), I(n.Yields), I(n.Conc), I(n.Reps), I(n.Millis))
	}
	return L(Str(n.Name), I(n.Nested), I(n.Yields), I(n.Conc))
}

// the unrelated loggers of the running case (nil: nobody logs in between)
type c06noiseRT struct {
	aux, inner     *zap.Logger
	nested, yields int
}

var c06nz *c06noiseRT

func c06discardLogger(name string) *zap.Logger {
	enc := zapcore.NewJSONEncoder(zap.NewProductionEncoderConfig())
	return zap.New(zapcore.NewCore(enc, zapcore.AddSync(io.Discard), zapcore.DebugLevel)).Named(name)
}

// c06nestObj logs while the entry of another log call is being encoded (a log call inside a log call)
type c06nestObj struct{}

func (c06nestObj) MarshalLogObject(enc zapcore.ObjectEncoder) error {
	if nz := c06nz; nz != nil {
		nz.inner.Warn("inner aux message")
	}
	enc.AddInt("x", 1)
	return nil
}

// c06disturb: what hooks, sinks and marshalers do before they look at anything
func c06disturb() {
	nz := c06nz
	if nz == nil {
		return
	}
	for i := 0; i < nz.nested; i++ {
		nz.aux.Info("aux message", zap.Int("i", i), zap.Object("o", c06nestObj{}))
	}
	for i := 0; i < nz.yields; i++ {
		runtime.Gosched()
	}
}

// c06noisyObj: a field of the entry itself whose marshaler logs (it runs while an IO core encodes the entry)
type c06noisyObj struct{}

func (c06noisyObj) MarshalLogObject(enc zapcore.ObjectEncoder) error {
	c06disturb()
	enc.AddInt("y", 2)
	return nil
}

type c06noisySink struct{ inner zapcore.WriteSyncer }

func (s c06noisySink) Write(p []byte) (int, error) { c06disturb(); return s.inner.Write(p) }
func (s c06noisySink) Sync() error                 { c06disturb(); return s.inner.Sync() }

// c06startNoise sets up the unrelated loggers and the other goroutine of a case; the function returned ends them
func c06startNoise(n *c06noise) func() {
	if n == nil {
		return func() {}
	}
	c06nz = &c06noiseRT{aux: c06discardLogger("aux"), inner: c06discardLogger("aux.inner"), nested: n.Nested, yields: n.Yields}
	if n.Conc == 0 || n.Conc >= 3 {
		return func() { c06nz = nil }
	}
	procs := 0
	if n.Conc == 2 {
		procs = runtime.GOMAXPROCS(1)
	}
	var stop atomic.Bool
	done := make(chan struct{})
	bg := c06discardLogger("bg")
	go func() {
		defer close(done)
		for i := 0; !stop.Load(); i++ {
			bg.Info("background", zap.Int("i", i))
			runtime.Gosched()
		}
	}()
	return func() {
		stop.Store(true)
		<-done
		if procs > 0 {
			runtime.GOMAXPROCS(procs)
		}
		c06nz = nil
	}
}

// A call: method, level, and how its arguments are built from a text (the message dimension).
//
//	A (argument shape): 0 = the text as the one string argument, 1 = as few arguments as the
//	   method takes (none for the variadic ones, only the template for *f, only the message for *w
//	   and for Logger), 2 = mixed arguments (the text, an int and a nil)
//	V (std-log bridge only): bit 0 = RedirectStdLog(At) + the package-level functions of log instead
//	   of NewStdLog(At); bits 1-2 = 0 Print, 1 Println, 2 Printf, 3 a direct Write to Writer()
//	T  the text (may be empty, blank, padded, multi-line, arbitrary bytes)
//
// The zero value of A/V with T == nil is the historical call with c06msg.
type c06call struct {
	M    c06method
	L    int8
	A    int
	V    int
	T    []byte
	Lens []int // sink-stack cases: the length of every Write the call handed to an IO leaf's sink (from the run)
	N    bool  // Logger and SugaredLogger.*w: one more field, whose marshaler logs (c06noisyObj)
}

func (cl c06call) text() string {
	if cl.T == nil {
		return c06msg
	}
	return string(cl.T)
}

// the arguments behind the level (variadic part), and for the *f methods the template in front
func (cl c06call) args() []interface{} {
	t := cl.text()
	formatted := cl.M.Suffix == 1 || (cl.M.Recv == 4 && cl.V>>1 == 2)
	switch {
	case cl.M.Recv == 0: // Logger: msg, fields...
		var extra []interface{}
		if cl.N {
			extra = []interface{}{zap.Object("nz", c06noisyObj{})}
		}
		switch cl.A {
		case 1:
			return append([]interface{}{t}, extra...)
		case 2:
			return append([]interface{}{t, zap.Int("f", 1), zap.Any("n", nil)}, extra...)
		}
		return append([]interface{}{t, zap.Int("f", 1)}, extra...)
	case cl.M.Recv == 1 && cl.M.Suffix == 2: // SugaredLogger.*w: msg, keysAndValues...
		var extra []interface{}
		if cl.N {
			extra = []interface{}{"nz", c06noisyObj{}}
		}
		switch cl.A {
		case 1:
			return append([]interface{}{t}, extra...)
		case 2:
			return append([]interface{}{t, "k", nil, zap.Int("f", 1)}, extra...)
		}
		return append([]interface{}{t, "k", 1}, extra...)
	case formatted:
		switch cl.A {
		case 1:
			return []interface{}{t} // the text is the template, no arguments
		case 2:
			return []interface{}{"%v %v %v", t, 7, nil}
		}
		return []interface{}{"%s", t}
	}
	switch cl.A {
	case 1:
		return []interface{}{}
	case 2:
		return []interface{}{t, 7, nil}
	}
	return []interface{}{t}
}

// the message the arguments amount to, by the documented semantics of each front end, with the
// standard library (fmt, bytes.TrimSpace) as the oracle
func (cl c06call) message() string {
	a := cl.args()
	sprint := func(a []interface{}) string { // SugaredLogger.X(args...): getMessage("", args)
		if len(a) == 0 {
			return ""
		}
		if len(a) == 1 {
			if s, ok := a[0].(string); ok {
				return s
			}
		}
		return fmt.Sprint(a...)
	}
	sprintf := func(a []interface{}) string { // SugaredLogger.Xf(template, args...)
		if len(a) == 1 {
			return a[0].(string)
		}
		if a[0].(string) == "" {
			return sprint(a[1:])
		}
		return fmt.Sprintf(a[0].(string), a[1:]...)
	}
	sprintln := func(a []interface{}) string {
		s := fmt.Sprintln(a...)
		return s[:len(s)-1]
	}
	switch cl.M.Recv {
	case 0:
		return a[0].(string)
	case 1, 2:
		switch cl.M.Suffix {
		case 1:
			return sprintf(a)
		case 2:
			return a[0].(string)
		case 3:
			return sprintln(a)
		}
		return sprint(a)
	case 4:
		var line string
		switch cl.V >> 1 {
		case 0:
			line = fmt.Sprint(a...)
		case 1:
			line = fmt.Sprintln(a...)
		case 2:
			line = fmt.Sprintf(a[0].(string), a[1:]...)
		default:
			line = cl.text()
		}
		return string(bytes.TrimSpace([]byte(line)))
	}
	return cl.text()
}

func (cl c06call) sx() SX {
	how := L(I(cl.A), I(cl.V), Str(cl.text()))
	if len(cl.T) > 2048 {
		how = L(I(cl.A), I(cl.V), Str(fmt.Sprintf("%d bytes", len(cl.T)))) // replay only
	}
	if cl.N {
		how = L(I(cl.A), I(cl.V), Str(cl.text()), I(1))
	}
	lens := make([]SX, len(cl.Lens))
	for i, n := range cl.Lens {
		lens[i] = I(n)
	}
	// the sampler counter the message falls into: sampler.go's fnv32a ("adapted from hash/fnv") mod 4096
	msg := cl.message()
	h := fnv.New32a()
	h.Write([]byte(msg))
	return L(I(cl.M.Recv), I(cl.M.Kind), I(cl.M.Suffix), I(int(cl.L)), Str(msg), how, L(lens...), I(int(h.Sum32()%4096)))
}

type c06case struct {
	Tree    *c05nodeJ
	Cells   []int8
	Dev     bool
	OnPanic c06hook
	OnFatal c06hook
	Child   bool
	Calls   []c06call
	Variant int       // how nil hooks are spelled: 0 no option, 1 explicit nil / OnFatal
	Stacks  []*c06ws  // nil, or for every leaf (pre-order) what sits between the IO core and its recording sinks
	Noise   *c06noise // nil, or who logs in between (and the logger's name)
	Fails   []int     // the leaves whose sink fails every Write (c06_fwd.go); the tree may hold wrappers (tag 9)
}

// ---------- sink stacks ----------
// A tree of WriteSyncer combinators over recording sinks.
type c06ws struct {
	Kind    int // 0 recording sink, 1 BufferedWriteSyncer, 2 Lock, 3 AddSync, 4 multi-WriteSyncer
	Size    int
	Stopped bool // BufferedWriteSyncer: Stop has already run
	Kids    []*c06ws
}

func (d *c06ws) sx() SX {
	switch d.Kind {
	case 1:
		return L(I(1), I(d.Size), Bool(d.Stopped), d.Kids[0].sx())
	case 2, 3:
		return L(I(d.Kind), d.Kids[0].sx())
	case 4:
		ks := make([]SX, len(d.Kids))
		for i, k := range d.Kids {
			ks[i] = k.sx()
		}
		return L(I(4), L(ks...))
	}
	return L(I(0))
}
func (d *c06ws) nsinks() int {
	if d.Kind == 0 {
		return 1
	}
	n := 0
	for _, k := range d.Kids {
		n += k.nsinks()
	}
	return n
}

func wsSink() *c06ws                  { return &c06ws{} }
func wsBuf(size int, k *c06ws) *c06ws { return &c06ws{Kind: 1, Size: size, Kids: []*c06ws{k}} }
func wsStopped(size int, k *c06ws) *c06ws {
	return &c06ws{Kind: 1, Size: size, Stopped: true, Kids: []*c06ws{k}}
}
func wsLock(k *c06ws) *c06ws      { return &c06ws{Kind: 2, Kids: []*c06ws{k}} }
func wsAddSync(k *c06ws) *c06ws   { return &c06ws{Kind: 3, Kids: []*c06ws{k}} }
func wsMulti(ks ...*c06ws) *c06ws { return &c06ws{Kind: 4, Kids: ks} }

// a recording sink: Write only stages the bytes, Sync commits them (a bufio.Writer over a file, a
// batching network sink).  With a file, committing = writing to the file: what an observer outside
// the process sees once the process is gone.
type c06recSink struct {
	mu        sync.Mutex
	staged    []byte
	committed []byte
	file      *os.File
	onWrite   atomic.Pointer[func(p []byte)] // class contend (c06_contend.go): a gated / slow sink
}

func (s *c06recSink) Write(p []byte) (int, error) {
	if h := s.onWrite.Load(); h != nil {
		(*h)(p) // before anything is staged: the caller is parked / slowed down inside the sink
	}
	s.mu.Lock()
	defer s.mu.Unlock()
	s.staged = append(s.staged, p...)
	return len(p), nil
}
func (s *c06recSink) Sync() error {
	s.mu.Lock()
	defer s.mu.Unlock()
	if s.file != nil {
		if _, err := s.file.Write(s.staged); err != nil {
			return err
		}
	} else {
		s.committed = append(s.committed, s.staged...)
	}
	s.staged = s.staged[:0]
	return nil
}

// the stack of one leaf as built, and everything the IO core has written to it
type c06stack struct {
	id      int
	top     zapcore.WriteSyncer
	sinks   []*c06recSink
	bufs    []*zapcore.BufferedWriteSyncer
	written []byte
}

func c06pendingOf(written, committed []byte) int {
	if len(committed) > len(written) || !bytes.Equal(written[:len(committed)], committed) {
		return -1 // the sink holds something other than a prefix of what was written
	}
	return len(written) - len(committed)
}

// per sink: the bytes written so far that it has not committed
func (st *c06stack) pending() SX {
	out := make([]SX, len(st.sinks))
	for i, s := range st.sinks {
		s.mu.Lock()
		out[i] = I(c06pendingOf(st.written, s.committed))
		s.mu.Unlock()
	}
	return L(out...)
}
func (st *c06stack) stop() {
	for _, b := range st.bufs {
		b.Stop()
	}
}

func (st *c06stack) build(d *c06ws, mkFile func(k int) *os.File) zapcore.WriteSyncer {
	switch d.Kind {
	case 1:
		b := &zapcore.BufferedWriteSyncer{WS: st.build(d.Kids[0], mkFile), Size: d.Size, FlushInterval: time.Hour}
		if d.Stopped {
			b.Write(nil) // initialises it without writing anything
			b.Stop()
		}
		st.bufs = append(st.bufs, b)
		return b
	case 2:
		if m := d.Kids[0]; m.Kind == 4 && len(m.Kids) > 0 {
			// Lock(multi(...)) spelled as the public constructor spells it
			ks := make([]zapcore.WriteSyncer, len(m.Kids))
			for i, k := range m.Kids {
				ks[i] = st.build(k, mkFile)
			}
			return zap.CombineWriteSyncers(ks...)
		}
		return zapcore.Lock(st.build(d.Kids[0], mkFile))
	case 3:
		var w io.Writer = st.build(d.Kids[0], mkFile) // an io.Writer whose dynamic type has a Sync method
		return zapcore.AddSync(w)
	case 4:
		ks := make([]zapcore.WriteSyncer, len(d.Kids))
		for i, k := range d.Kids {
			ks[i] = st.build(k, mkFile)
		}
		return zapcore.NewMultiWriteSyncer(ks...)
	}
	s := &c06recSink{}
	if mkFile != nil {
		s.file = mkFile(len(st.sinks))
	}
	st.sinks = append(st.sinks, s)
	return s
}

// the top of a stack: what the IO core writes to.  Records the Write / Sync events of the leaf
// (as c05sink does) and the bytes.
type c06top struct {
	env  *c05env
	st   *c06stack
	lens *[]int
	onEv func(kind int, p []byte)
}

func (t *c06top) Write(p []byte) (int, error) {
	if t.env != nil {
		t.env.events = append(t.env.events, c05ev{0, t.st.id})
	}
	if t.onEv != nil {
		t.onEv(0, p)
	}
	t.st.written = append(t.st.written, p...)
	if t.lens != nil {
		*t.lens = append(*t.lens, len(p))
	}
	return t.st.top.Write(p)
}
func (t *c06top) Sync() error {
	if t.env != nil {
		t.env.events = append(t.env.events, c05ev{2, t.st.id})
	}
	if t.onEv != nil {
		t.onEv(1, nil)
	}
	return t.st.top.Sync()
}

func (cs *c06case) stackOf(id int) *c06ws {
	if cs.Stacks == nil {
		return nil
	}
	var ids []int
	c06leafIDs(fromJ(cs.Tree), &ids)
	for i, x := range ids {
		if x == id && i < len(cs.Stacks) {
			return cs.Stacks[i]
		}
	}
	return nil
}

// JSON-able mirror of c05node (for the child process)
type c05nodeJ struct {
	Tag   int
	ID    int
	En    *c05enJ
	Kids  []*c05nodeJ
	First int // tag 8: NewSamplerWithOptions(.., first, thereafter)
	There int
}
type c05enJ struct {
	Kind int
	T    int8
	Cell int
	Tbl  []byte
}

func toJ(n *c05node) *c05nodeJ {
	j := &c05nodeJ{Tag: n.tag, ID: n.id, First: n.first, There: n.there}
	if n.en != nil {
		j.En = &c05enJ{Kind: n.en.kind, T: n.en.t, Cell: n.en.cell}
		if n.en.kind == 2 {
			j.En.Tbl = make([]byte, 256)
			for i, b := range n.en.tbl {
				if b {
					j.En.Tbl[i] = 1
				}
			}
		}
	}
	for _, k := range n.kids {
		j.Kids = append(j.Kids, toJ(k))
	}
	return j
}
func fromJ(j *c05nodeJ) *c05node {
	n := &c05node{tag: j.Tag, id: j.ID, first: j.First, there: j.There}
	if j.En != nil {
		n.en = &c05en{kind: j.En.Kind, t: j.En.T, cell: j.En.Cell}
		for i, b := range j.En.Tbl {
			n.en.tbl[i] = b != 0
		}
	}
	for _, k := range j.Kids {
		n.kids = append(n.kids, fromJ(k))
	}
	return n
}

func (cs *c06case) input() SX {
	cells := make([]SX, len(cs.Cells))
	for i, v := range cs.Cells {
		cells[i] = I(int(v))
	}
	calls := make([]SX, len(cs.Calls))
	for i, cl := range cs.Calls {
		calls[i] = cl.sx()
	}
	tree := c06treeSX(fromJ(cs.Tree))
	if cs.Stacks == nil && cs.Noise == nil && len(cs.Fails) == 0 {
		return L(tree, L(cells...), Bool(cs.Dev), cs.OnPanic.sx(), cs.OnFatal.sx(), Bool(cs.Child), L(calls...))
	}
	stacks := make([]SX, len(cs.Stacks))
	for i, d := range cs.Stacks {
		stacks[i] = d.sx()
	}
	if cs.Noise == nil && len(cs.Fails) == 0 {
		return L(tree, L(cells...), Bool(cs.Dev), cs.OnPanic.sx(), cs.OnFatal.sx(), Bool(cs.Child), L(calls...), L(stacks...))
	}
	var noise SX = L()
	if cs.Noise != nil {
		noise = cs.Noise.sx()
	}
	if len(cs.Fails) == 0 {
		return L(tree, L(cells...), Bool(cs.Dev), cs.OnPanic.sx(), cs.OnFatal.sx(), Bool(cs.Child), L(calls...), L(stacks...), noise)
	}
	fails := make([]SX, len(cs.Fails))
	for i, id := range cs.Fails {
		fails[i] = I(id)
	}
	return L(tree, L(cells...), Bool(cs.Dev), cs.OnPanic.sx(), cs.OnFatal.sx(), Bool(cs.Child), L(calls...), L(stacks...), noise, L(fails...))
}

func c06leafIDs(n *c05node, out *[]int) {
	if n.tag == 0 {
		*out = append(*out, n.id)
	}
	for _, k := range n.kids {
		c06leafIDs(k, out)
	}
}

// the terminal action the harness expects (only used to keep calls that would really exit the
// process out of the in-process runs; the verdict is the oracle's)
func (cs *c06case) expectExit(l int8) bool {
	switch {
	case l == 5:
		return cs.OnFatal.Kind == 0 || cs.OnFatal.Kind == 1 || cs.OnFatal.exits()
	case l == 4 || (l == 3 && cs.Dev):
		return cs.OnPanic.exits()
	}
	return false
}

// what the hooks of a run report to
type c06rt struct {
	custom func(k int)                             // a custom terminal hook (kind 5 or 6) runs
	hook6  func(k int)                             // ... of kind 6
	saw    func(l zapcore.Level, msg, name string) // the entry an entry hook was handed / a custom terminal hook found
	rec    func(kind, id int)                      // c06_fwd.go: Write (0) / Sync (1) of a failing sink, a hook set beneath a wrapper ran (3)
}

// a custom terminal hook: looks at the entry it is handed, at once
type c06custom struct {
	k  int
	rt *c06rt
}

func (h c06custom) OnWrite(ce *zapcore.CheckedEntry, _ []zapcore.Field) {
	h.rt.saw(ce.Level, ce.Message, ce.LoggerName)
	h.rt.custom(h.k)
}

// a custom terminal hook of the usual shape: announce / flush through some logger, then look at the entry and fall
// through to one of zap's actions, or decide from the entry's level (one object for WithPanicHook and WithFatalHook)
type c06logHook struct {
	k, mode int
	rt      *c06rt
}

func (h c06logHook) OnWrite(ce *zapcore.CheckedEntry, fields []zapcore.Field) {
	c06disturb()
	h.rt.saw(ce.Level, ce.Message, ce.LoggerName)
	h.rt.hook6(h.k)
	h.rt.custom(h.k)
	switch h.mode {
	case 1:
		zapcore.WriteThenPanic.OnWrite(ce, fields)
	case 2:
		zapcore.WriteThenGoexit.OnWrite(ce, fields)
	case 3:
		switch ce.Level {
		case zapcore.FatalLevel:
			runtime.Goexit()
		case zapcore.PanicLevel, zapcore.DPanicLevel:
			panic(ce.Message)
		}
	case 4:
		zapcore.WriteThenFatal.OnWrite(ce, fields)
	}
}

func c06hookOpt(h c06hook, fatal bool, variant int, rt *c06rt) []zap.Option {
	var hook zapcore.CheckWriteHook
	switch h.Kind {
	case 0:
		if variant == 0 {
			return nil
		}
		if fatal {
			return []zap.Option{zap.WithFatalHook(nil)}
		}
		return []zap.Option{zap.WithPanicHook(nil)}
	case 1, 2, 3, 4:
		act := []zapcore.CheckWriteAction{zapcore.WriteThenNoop, zapcore.WriteThenNoop, zapcore.WriteThenGoexit, zapcore.WriteThenPanic, zapcore.WriteThenFatal}[h.Kind]
		if fatal && variant == 1 {
			return []zap.Option{zap.OnFatal(act)}
		}
		hook = act
	case 6:
		hook = c06logHook{h.K, h.Mode, rt}
	default:
		hook = c06custom{h.K, rt}
	}
	if fatal {
		return []zap.Option{zap.WithFatalHook(hook)}
	}
	return []zap.Option{zap.WithPanicHook(hook)}
}

const c06msg = "the final message"

// invoke the call's method at its level by name through reflection
func c06invoke(lg *zap.Logger, cl c06call) {
	m, l := cl.M, zapcore.Level(cl.L)
	name := m.name()
	var recv reflect.Value
	args := cl.args()
	switch m.Recv {
	case 0:
		recv = reflect.ValueOf(lg)
		switch m.Kind {
		case 0:
			args = append([]interface{}{l}, args...)
		case 8:
			if ce := lg.Check(l, args[0].(string)); ce != nil {
				fields := make([]zap.Field, len(args)-1)
				for i, f := range args[1:] {
					fields[i] = f.(zap.Field)
				}
				ce.Write(fields...)
			}
			return
		}
	case 1:
		recv = reflect.ValueOf(lg.Sugar())
		if m.Kind == 0 {
			args = append([]interface{}{l}, args...)
		}
	case 2:
		var g *zapgrpc.Logger
		if m.Kind == 9 && l == zapcore.DebugLevel {
			g = zapgrpc.NewLogger(lg, zapgrpc.WithDebug())
		} else {
			g = zapgrpc.NewLogger(lg)
		}
		recv = reflect.ValueOf(g)
	case 3:
		w := &zapio.Writer{Log: lg, Level: l}
		io.WriteString(w, cl.text()+"\n")
		return
	case 4:
		c06stdlog(lg, cl, args)
		return
	}
	meth := recv.MethodByName(name)
	if !meth.IsValid() {
		panic("no such method: " + name)
	}
	vals := make([]reflect.Value, len(args))
	for i, a := range args {
		if a == nil {
			vals[i] = reflect.Zero(meth.Type().In(meth.Type().NumIn() - 1).Elem()) // a nil interface{} argument
		} else {
			vals[i] = reflect.ValueOf(a)
		}
	}
	meth.Call(vals)
}

// the std-log bridge: all four constructors (NewStdLog, NewStdLogAt, RedirectStdLog,
// RedirectStdLogAt), written to through Print / Println / Printf / the io.Writer itself
func c06stdlog(lg *zap.Logger, cl c06call, args []interface{}) {
	l := zapcore.Level(cl.L)
	var std *log.Logger
	if cl.V&1 == 0 {
		if cl.M.Kind == 0 {
			var err error
			if std, err = zap.NewStdLogAt(lg, l); err != nil {
				panic(err)
			}
		} else {
			std = zap.NewStdLog(lg)
		}
	} else {
		var undo func()
		if cl.M.Kind == 0 {
			var err error
			if undo, err = zap.RedirectStdLogAt(lg, l); err != nil {
				panic(err)
			}
		} else {
			undo = zap.RedirectStdLog(lg)
		}
		defer undo() // also on a panic or a Goexit
		std = log.Default()
	}
	switch cl.V >> 1 {
	case 0:
		std.Print(args...)
	case 1:
		std.Println(args...)
	case 2:
		std.Printf(args[0].(string), args[1:]...)
	default:
		std.Writer().Write([]byte(cl.text()))
	}
}

type c06outcome struct {
	returned bool
	panicked interface{}
}

// run f on its own goroutine: returned normally / panicked with a value / Goexit.  atEnd runs in
// the deferred function: the first code of the harness that runs after control was lost
func c06guarded(f func(), atEnd func()) c06outcome {
	ch := make(chan c06outcome, 1)
	go func() {
		var o c06outcome
		defer func() {
			o.panicked = recover()
			atEnd()
			ch <- o
		}()
		f()
		o.returned = true
	}()
	return <-ch
}

func c06logger(cs *c06case, env *c05env, rt *c06rt) *zap.Logger {
	// every zap.Hooks entry hook reports the Entry it was handed (after logging itself, in cases with Noise)
	env.onEntry = func(_ int, e zapcore.Entry) {
		c06disturb()
		rt.saw(e.Level, e.Message, e.LoggerName)
	}
	if cs.Noise != nil {
		mk := env.mkSink
		env.mkSink = func(id int) zapcore.WriteSyncer {
			if mk != nil {
				return c06noisySink{mk(id)}
			}
			return c06noisySink{&c05sink{env, id}}
		}
	}
	bld := &c06bld{env: env, fails: map[int]bool{}, rec: rt.rec}
	for _, id := range cs.Fails {
		bld.fails[id] = true
	}
	if bld.rec == nil {
		bld.rec = func(int, int) {}
	}
	core := bld.build(fromJ(cs.Tree), false)
	var opts []zap.Option
	if cs.Dev {
		opts = append(opts, zap.Development())
	}
	opts = append(opts, c06hookOpt(cs.OnPanic, false, cs.Variant, rt)...)
	opts = append(opts, c06hookOpt(cs.OnFatal, true, cs.Variant, rt)...)
	lg := zap.New(core, opts...)
	if cs.Noise != nil && cs.Noise.Name != "" {
		lg = lg.Named(cs.Noise.Name)
	}
	return lg
}

// the outcome of one call as the observation spells it
func (o c06outcome) term() SX {
	switch {
	case o.returned:
		return L()
	case o.panicked != nil:
		if s, ok := o.panicked.(string); ok {
			return L(I(0), Str(s)) // the oracle compares the value with the message
		}
		return L(I(9), Str(fmt.Sprint(o.panicked))) // a panic whose value is not a string
	}
	return L(I(2))
}

// c06runStress: the calls of the case - Panic-level calls with the default action (or WriteThenPanic) on a tree
// that records nothing - run concurrently, again and again, next to goroutines that log on another logger
func c06runStress(cs *c06case) SX {
	env := c05newEnv(&c05case{cells: cs.Cells})
	lg := c06logger(cs, env, &c06rt{custom: func(int) {}, hook6: func(int) {}, saw: func(zapcore.Level, string, string) {}})
	workers := 2 * runtime.GOMAXPROCS(0)
	single := cs.Noise.Conc == 4
	if single {
		defer runtime.GOMAXPROCS(runtime.GOMAXPROCS(1))
	}
	deadline := time.Now().Add(time.Duration(cs.Noise.Millis) * time.Millisecond)
	var stop atomic.Bool
	var nwg, wg sync.WaitGroup
	for n := 0; n < workers; n++ {
		nwg.Add(1)
		bg := c06discardLogger(fmt.Sprintf("bg%d", n))
		go func() {
			defer nwg.Done()
			for i := 0; !stop.Load(); i++ {
				bg.Info("background", zap.Int("i", i))
				runtime.Gosched()
			}
		}()
	}
	terms := make([]SX, len(cs.Calls))
	for g := 0; g < workers; g++ {
		wg.Add(1)
		go func(g int) {
			defer wg.Done()
			for rep := 0; rep < cs.Noise.Reps; rep++ {
				if rep > 0 && time.Now().After(deadline) {
					return
				}
				for j := g; j < len(cs.Calls); j += workers {
					cl := cs.Calls[j]
					var o c06outcome
					func() {
						defer func() { o.panicked = recover() }()
						c06invoke(lg, cl)
						o.returned = true
					}()
					if s, ok := o.panicked.(string); terms[j] == nil || !ok || s != cl.message() {
						terms[j] = o.term()
					}
					if single {
						runtime.Gosched()
					}
				}
			}
		}(g)
	}
	wg.Wait()
	stop.Store(true)
	nwg.Wait()
	outs := make([]SX, len(cs.Calls))
	for j := range outs {
		outs[j] = L(L(), terms[j], L(), L(), L())
	}
	return L(L(outs...), L())
}

// in-process run of all calls of a case
func c06run(cs *c06case) SX {
	if cs.Noise != nil && cs.Noise.Conc >= 5 {
		return c06runContend(cs)
	}
	if cs.Noise != nil && cs.Noise.Conc >= 3 {
		return c06runStress(cs)
	}
	env := c05newEnv(&c05case{cells: cs.Cells})
	env.recSync = true
	customRan, hook6Ran := -1, -1
	var seen []SX
	defer c06startNoise(cs.Noise)()
	var stacks []*c06stack
	var lens []int
	if cs.Stacks != nil {
		env.mkSink = func(id int) zapcore.WriteSyncer {
			d := cs.stackOf(id)
			if d == nil {
				return &c05sink{env, id}
			}
			st := &c06stack{id: id}
			st.top = st.build(d, nil)
			stacks = append(stacks, st)
			return &c06top{env: env, st: st, lens: &lens}
		}
		defer func() {
			for _, st := range stacks {
				st.stop()
			}
		}()
	}
	// what the sinks have not committed, taken once per call at the moment control is lost: in the
	// custom terminal hook if one runs, otherwise in the deferred function of the calling goroutine
	var pend SX
	snapshot := func() {
		if pend != nil {
			return
		}
		ps := make([]SX, len(stacks))
		for i, st := range stacks {
			ps[i] = st.pending()
		}
		pend = L(ps...)
	}
	lg := c06logger(cs, env, &c06rt{
		custom: func(k int) { customRan = k; snapshot() },
		hook6:  func(k int) { hook6Ran = k },
		saw:    func(l zapcore.Level, msg, name string) { seen = append(seen, L(I(int(l)), Str(msg), Str(name))) },
		rec:    func(kind, id int) { env.events = append(env.events, c05ev{[]int{0, 2, 0, 3, 4}[kind], id}) },
	})
	outs := make([]SX, len(cs.Calls))
	for i, cl := range cs.Calls {
		env.events = env.events[:0]
		env.samp = env.samp[:0]
		customRan, hook6Ran = -1, -1
		seen = nil
		pend = nil
		lens = lens[:0]
		o := c06guarded(func() { c06invoke(lg, cl) }, snapshot)
		if cs.Stacks != nil {
			cs.Calls[i].Lens = append([]int{}, lens...)
		}
		evs := make([]SX, len(env.events))
		for k, e := range env.events {
			evs[k] = L(I([]int{0, 2, 1, 3, 4}[e.kind]), I(e.id))
		}
		term := o.term()
		if customRan >= 0 && o.returned && hook6Ran < 0 {
			term = L(I(3), I(customRan))
		}
		if hook6Ran >= 0 {
			term = L(I(4), I(hook6Ran), term) // a hook of kind 6 ran, and then ...
		}
		// the decisions the samplers reported through their hooks during this call
		reps := make([]SX, len(env.samp))
		for k, r := range env.samp {
			reps[k] = L(I(r.k), Bool(r.dropped))
		}
		outs[i] = L(L(evs...), term, pend, L(reps...), L(seen...))
	}
	return L(L(outs...), L())
}

// ---------- child processes ----------
type c06tap struct {
	id    int
	inner zapcore.WriteSyncer
	log   *os.File
}

func (t *c06tap) Write(p []byte) (int, error) {
	fmt.Fprintf(t.log, "0 %d\n", t.id)
	return t.inner.Write(p)
}
func (t *c06tap) Sync() error {
	fmt.Fprintf(t.log, "1 %d\n", t.id)
	return t.inner.Sync()
}

// child: runs the single call of the case given in C06_JSON; events go to $C06_DIR/events
// (unbuffered), each IO leaf writes through a BufferedWriteSyncer into $C06_DIR/leaf<id>
func c06child(*Ctx) {
	var cs c06case
	raw := []byte(os.Getenv("C06_JSON"))
	if f := os.Getenv("C06_JSON_FILE"); f != "" {
		// cases too long for the environment (execve limits one string to 128 KiB) come through a file
		b, err := os.ReadFile(f)
		if err != nil {
			fmt.Fprintln(os.Stderr, "bad case file:", err)
			os.Exit(3)
		}
		raw = b
	}
	if err := json.Unmarshal(raw, &cs); err != nil {
		fmt.Fprintln(os.Stderr, "bad case:", err)
		os.Exit(3)
	}
	dir := os.Getenv("C06_DIR")
	evf, err := os.Create(filepath.Join(dir, "events"))
	if err != nil {
		os.Exit(3)
	}
	env := c05newEnv(&c05case{cells: cs.Cells})
	env.mkSink = func(id int) zapcore.WriteSyncer {
		if d := cs.stackOf(id); d != nil {
			// the recording sinks commit to files: leaf<id> (the first sink), leaf<id>_<k>
			st := &c06stack{id: id}
			st.top = st.build(d, func(k int) *os.File {
				name := fmt.Sprintf("leaf%d", id)
				if k > 0 {
					name = fmt.Sprintf("leaf%d_%d", id, k)
				}
				f, err := os.Create(filepath.Join(dir, name))
				if err != nil {
					os.Exit(3)
				}
				return f
			})
			return &c06top{st: st, onEv: func(kind int, p []byte) { fmt.Fprintf(evf, "%d %d %x\n", kind, id, p) }}
		}
		f, err := os.Create(filepath.Join(dir, fmt.Sprintf("leaf%d", id)))
		if err != nil {
			os.Exit(3)
		}
		return &c06tap{id, &zapcore.BufferedWriteSyncer{WS: f}, evf}
	}
	env.onHook = func(id int) { fmt.Fprintf(evf, "2 %d\n", id) }
	env.onSamp = func(k int, dropped bool) {
		d := 0
		if dropped {
			d = 1
		}
		fmt.Fprintf(evf, "S %d %d\n", k, d)
	}
	defer c06startNoise(cs.Noise)()
	lg := c06logger(&cs, env, &c06rt{
		custom: func(k int) { fmt.Fprintf(evf, "T 3 %d\n", k) },
		hook6:  func(k int) { fmt.Fprintf(evf, "H %d\n", k) },
		saw:    func(l zapcore.Level, msg, name string) { fmt.Fprintf(evf, "E %d %x/%x\n", int(l), msg, name) },
		rec:    func(kind, id int) { fmt.Fprintf(evf, "%d %d\n", kind, id) },
	})
	cl := cs.Calls[0]
	done := make(chan bool, 1)
	go func() {
		returned := false
		defer func() {
			if r := recover(); r != nil {
				if v, ok := r.(string); ok {
					fmt.Fprintf(evf, "P %x\n", v) // the value, exactly (stderr shows it only in printed form)
				}
				panic(r) // a panic takes the process down (observed by the parent from outside)
			}
			done <- returned // returned normally, or runtime.Goexit
		}()
		c06invoke(lg, cl)
		returned = true
	}()
	if <-done {
		fmt.Fprintln(evf, "R")
	} else {
		fmt.Fprintln(evf, "T 2")
	}
	os.Exit(0)
}

func c06runChild(c *Ctx, cs *c06case) (SX, error) {
	dir, err := os.MkdirTemp("", "c06child")
	if err != nil {
		return nil, err
	}
	defer os.RemoveAll(dir)
	js, _ := json.Marshal(cs)
	exe, err := os.Executable()
	if err != nil {
		return nil, err
	}
	cmd := exec.Command(exe, "C06child")
	if len(js) > 100000 {
		jf := filepath.Join(dir, "case.json")
		if err := os.WriteFile(jf, js, 0o600); err != nil {
			return nil, err
		}
		cmd.Env = append(os.Environ(), "C06_JSON_FILE="+jf, "C06_DIR="+dir)
	} else {
		cmd.Env = append(os.Environ(), "C06_JSON="+string(js), "C06_DIR="+dir)
	}
	var stderr bytes.Buffer
	cmd.Stderr = &stderr
	runErr := cmd.Run()
	status := 0
	if ee, ok := runErr.(*exec.ExitError); ok {
		status = ee.ExitCode()
	} else if runErr != nil {
		return nil, runErr
	}
	if status == 3 {
		return nil, fmt.Errorf("child set-up failed: %s", stderr.String())
	}
	evb, _ := os.ReadFile(filepath.Join(dir, "events"))
	var evs, reps, seen []SX
	var term SX = L()
	returned, hook6 := false, -1
	written := map[int][]byte{} // sink-stack cases: what each leaf's IO core wrote, from the events file
	lens := []int{}
	panicValue, havePanicValue := "", false
	for _, line := range strings.Split(strings.TrimSpace(string(evb)), "\n") {
		var a, b, k int
		switch {
		case line == "R":
			returned = true
		case strings.HasPrefix(line, "P"):
			v, _ := hex.DecodeString(strings.TrimSpace(line[1:]))
			panicValue, havePanicValue = string(v), true
		case strings.HasPrefix(line, "S "):
			fmt.Sscanf(line, "S %d %d", &a, &b)
			reps = append(reps, L(I(a), I(b)))
		case strings.HasPrefix(line, "H "):
			fmt.Sscanf(line, "H %d", &hook6)
		case strings.HasPrefix(line, "E "):
			var hx string
			fmt.Sscanf(line, "E %d %s", &a, &hx)
			parts := strings.SplitN(hx, "/", 2)
			m, _ := hex.DecodeString(parts[0])
			n, _ := hex.DecodeString(parts[1])
			seen = append(seen, L(I(a), Str(string(m)), Str(string(n))))
		case line == "T 2":
			term = L(I(2))
		case strings.HasPrefix(line, "T 3"):
			fmt.Sscanf(line, "T 3 %d", &k)
			if hook6 < 0 {
				term = L(I(3), I(k))
			}
		case line != "":
			fmt.Sscanf(line, "%d %d", &a, &b)
			evs = append(evs, L(I(a), I(b)))
			if f := strings.Fields(line); a == 0 && len(f) == 3 && cs.Stacks != nil {
				p, _ := hex.DecodeString(f[2])
				written[b] = append(written[b], p...)
				lens = append(lens, len(p))
			}
		}
	}
	switch {
	case status == 1 && !returned:
		term = L(I(1))
	case status == 2 && havePanicValue && strings.Contains(stderr.String(), "panic: "+strings.SplitN(panicValue, "\n", 2)[0]):
		// the process died of an unrecovered panic (status 2, the runtime's report on stderr)
		term = L(I(0), Str(panicValue))
	case status != 0:
		term = L(I(9), Str(fmt.Sprintf("exit status %d: %.200s", status, stderr.String())))
	}
	if hook6 >= 0 {
		term = L(I(4), I(hook6), term) // a hook of kind 6 ran, and then ...
	}
	var ids []int
	c06leafIDs(fromJ(cs.Tree), &ids)
	fl := make([]SX, len(ids))
	for i, id := range ids {
		b, _ := os.ReadFile(filepath.Join(dir, fmt.Sprintf("leaf%d", id)))
		fl[i] = I(bytes.Count(b, []byte("\n")))
	}
	// sink-stack cases: what is missing, now that the process is gone, from the file of every
	// recording sink of what the IO core had written
	var pend []SX
	if cs.Stacks != nil {
		cs.Calls[0].Lens = lens
		for i, id := range ids {
			if i >= len(cs.Stacks) {
				break
			}
			ps := make([]SX, cs.Stacks[i].nsinks())
			for k := range ps {
				name := fmt.Sprintf("leaf%d", id)
				if k > 0 {
					name = fmt.Sprintf("leaf%d_%d", id, k)
				}
				b, _ := os.ReadFile(filepath.Join(dir, name))
				ps[k] = I(c06pendingOf(written[id], b))
			}
			pend = append(pend, L(ps...))
		}
	}
	return L(L(L(L(evs...), term, L(pend...), L(reps...), L(seen...))), L(fl...)), nil
}

// ---------- generation ----------
var c06zapio = c06method{3, 0, 0}

type c06item struct {
	cs        *c06case
	class, kf string
}

// the cases of a run, in order (a pure function of seed and tier: the worker process that runs the
// in-process cases regenerates the same list)
type c06plan struct{ items []c06item }

func (p *c06plan) add(cs *c06case, class, kf string) {
	p.items = append(p.items, c06item{cs, class, kf})
}

// In-process cases run in a worker process (this binary, sub-command C06worker): should zap call
// os.Exit where no exit is expected, only the worker dies; the parent reports the case it was
// running as a violation and restarts the worker behind it.
func c06worker(c *Ctx) {
	from := 0
	fmt.Sscanf(os.Getenv("C06_FROM"), "%d", &from)
	plan := c06makePlan(c, false)
	for i := from; i < len(plan.items); i++ {
		if plan.items[i].cs.Child {
			continue
		}
		obs := Render(c06run(plan.items[i].cs))
		in := ""
		if plan.items[i].cs.Stacks != nil {
			in = Render(plan.items[i].cs.input()) // with the lengths of the Writes observed in the run
		}
		fmt.Fprintf(os.Stdout, "%d\t%s\t%s\n", i, obs, in)
	}
}

type rawSX string

func (r rawSX) write(w *strings.Builder) { w.WriteString(string(r)) }

// why a worker died, on one line: the runtime's "panic:" / "fatal error:" line if there is one (zap's own
// reports on stderr - "write error: hook 3 failed" - come first and say nothing), else the end of stderr
func c06crashReason(stderr string) string {
	reason := stderr
	if len(reason) > 300 {
		reason = reason[len(reason)-300:]
	}
	for _, line := range strings.Split(stderr, "\n") {
		if strings.HasPrefix(line, "panic:") || strings.HasPrefix(line, "fatal error:") {
			reason = line
			break
		}
	}
	reason = strings.NewReplacer("\n", " | ", "\t", " ").Replace(reason)
	if len(reason) > 300 {
		reason = reason[:300]
	}
	return reason
}

func c06runInProcess(c *Ctx, plan *c06plan) (map[int]SX, map[int]SX) {
	res, inputs := map[int]SX{}, map[int]SX{}
	exe, err := os.Executable()
	if err != nil {
		panic(err)
	}
	tier := "quick"
	if c.Thorough {
		tier = "thorough"
	}
	from, deaths := 0, 0
	for from < len(plan.items) {
		cmd := exec.Command(exe, "C06worker", "-seed", fmt.Sprint(c.Seed), "-tier", tier)
		cmd.Env = append(os.Environ(), fmt.Sprintf("C06_FROM=%d", from))
		var stderr bytes.Buffer
		cmd.Stderr = &stderr
		out, runErr := cmd.Output()
		last := from - 1
		for _, line := range strings.Split(string(out), "\n") {
			var idx int
			if f := strings.Split(line, "\t"); len(f) == 3 {
				fmt.Sscanf(f[0], "%d", &idx)
				res[idx] = rawSX(f[1])
				if f[2] != "" {
					inputs[idx] = rawSX(f[2])
				}
				last = idx
			}
		}
		if runErr == nil {
			break
		}
		// the worker died: the first in-process case behind the last completed one was running
		culprit := last + 1
		for culprit < len(plan.items) && plan.items[culprit].cs.Child {
			culprit++
		}
		if culprit >= len(plan.items) {
			break
		}
		c.Viol(fmt.Sprintf("the process ended (%v) while an in-process case was running in which no call may exit: %s", runErr, c06crashReason(stderr.String())), plan.items[culprit].cs.input())
		from = culprit + 1
		if deaths++; deaths >= 5 {
			c.Info("worker-deaths", "5 (remaining in-process cases skipped)")
			break
		}
	}
	return res, inputs
}

func c06emitItem(c *Ctx, it c06item, inproc, inputs map[int]SX, idx int) {
	cs, class, kf := it.cs, it.class, it.kf
	var obs SX
	if cs.Child {
		var err error
		obs, err = c06runChild(c, cs)
		if err != nil {
			c.Info("child-error", err.Error())
			return
		}
	} else {
		var ok bool
		if obs, ok = inproc[idx]; !ok {
			return // reported by c06runInProcess
		}
	}
	terminal, wrote := false, false
	for _, cl := range cs.Calls {
		if cl.L == 4 || cl.L == 5 || (cl.L == 3 && cs.Dev) {
			terminal = true
		}
	}
	nodes, leaves, _ := fromJ(cs.Tree).size()
	_ = nodes
	if strings.Contains(Render(obs), "((0 ") {
		wrote = true
	}
	nt := "0"
	if terminal && (wrote || leaves == 0 || cs.Child) {
		nt = "1"
	}
	meta := map[string]string{"nt": nt, "class": class, "calls": fmt.Sprint(len(cs.Calls))}
	if kf != "" {
		meta["kf"] = kf
	}
	if in, ok := inputs[idx]; ok {
		c.Emit(in, obs, meta)
		return
	}
	c.Emit(cs.input(), obs, meta)
}

// the message dimension: texts that the front ends format / trim into empty, blank, padded,
// multi-line and odd messages
var c06texts = []string{
	c06msg,
	"",                      // the empty message
	" ",                     // blank before trimming
	"\n",                    // a bare newline (log.Println() produces it)
	" \t\r\n\v\f ",          // ASCII white space only
	"\u00a0\u2003\u0085",    // Unicode white space only (bytes.TrimSpace removes it)
	"  padded message \n\n", // trimmed by the bridge, kept by the others
	"two\nlines",
	"%d 100%",  // verbs without arguments
	"\x00\xff", // not text
}

// the (argument shape, via) variants a method has
func c06variants(m c06method) [][2]int {
	if m.Recv == 3 {
		return [][2]int{{0, 0}}
	}
	var out [][2]int
	if m.Recv == 4 {
		for _, redirect := range []int{0, 1} {
			for fn := 0; fn < 3; fn++ {
				for a := 0; a < 3; a++ {
					out = append(out, [2]int{a, fn<<1 | redirect})
				}
			}
			out = append(out, [2]int{0, 3<<1 | redirect})
		}
		return out
	}
	return [][2]int{{0, 0}, {1, 0}, {2, 0}}
}

// every (text, argument shape, via) combination of a method: the message space of one call
func c06messages(m c06method) []c06call {
	var out []c06call
	for _, av := range c06variants(m) {
		for _, t := range c06texts {
			if m.Recv == 3 && t != c06msg {
				continue // zapio.Writer splits its input into lines: a different number of entries
			}
			out = append(out, c06call{M: m, A: av[0], V: av[1], T: []byte(t)})
		}
	}
	return out
}

// a random text: mostly white space and a few other bytes, so that blank ones are frequent
func c06randText(r *RNG) []byte {
	n := r.Intn(6)
	if r.Chance(20) {
		n = r.Range(6, 40)
	}
	const ws = " \t\n\r\v\f"
	blank := r.Chance(50)
	b := make([]byte, n)
	for i := range b {
		switch {
		case blank || r.Chance(40):
			b[i] = ws[r.Intn(len(ws))]
		case r.Chance(80):
			b[i] = byte(r.Range(0x21, 0x7e))
		default:
			b[i] = byte(r.Intn(256))
		}
	}
	return b
}

// every (method, level) pair worth asking: each method at every level it is fixed to, the
// parameterised ones at all valid levels plus some out-of-range values; each pair with the
// historical message and with `rot`-rotated members of its message space (all of them when
// all is set), so that over the directed cases every (method, level, message) is asked
func c06allCalls(table []c06method, cs *c06case, inProcess bool, rot int, all bool) []c06call {
	var out []c06call
	for mi, m := range table {
		lv := m.levels()
		if lv == nil {
			lv = []int8{-1, 0, 1, 2, 3, 4, 5, 6, -2, 127, -128}
		}
		msgs := c06messages(m)
		for li, l := range lv {
			if inProcess && cs.expectExit(l) {
				continue
			}
			out = append(out, c06call{M: m, L: l, T: []byte(c06msg)})
			if all || l >= 3 && l <= 5 {
				// DPanic, Panic, Fatal: the whole message space, in every case
				for _, mc := range msgs[1:] {
					mc.L = l
					out = append(out, mc)
				}
				continue
			}
			// elsewhere a window of the message space, moving with the case, the method and the level
			window := 3
			if m.Recv == 4 {
				window = 8
			}
			for k := 0; k < window; k++ {
				mc := msgs[1+(rot*window+k+7*mi+3*li)%(len(msgs)-1)]
				mc.L = l
				out = append(out, mc)
			}
		}
	}
	// zapio.Writer at the levels that are not terminal for this logger (the terminal ones run alone)
	for _, l := range []int8{-1, 0, 1, 2, 3, 6, -2, 127, -128} {
		if l == 3 && cs.Dev {
			continue
		}
		out = append(out, c06call{M: c06zapio, L: l, T: []byte(c06msg)})
	}
	return out
}

// ---------- sink stacks: generation ----------
// the directed stacks: every combinator alone, BufferedWriteSyncers with a tiny / small / default
// Size, already stopped, nested both ways, below and above Lock / AddSync / a multi-WriteSyncer
func c06directedStacks() []*c06ws {
	return []*c06ws{
		wsBuf(128, wsSink()),
		wsBuf(64, wsBuf(0, wsSink())), // "wrap twice"
		wsStopped(0, wsSink()),
		wsBuf(256, wsSink()),
		wsSink(),
		wsLock(wsSink()),
		wsAddSync(wsSink()),
		wsMulti(wsSink(), wsSink()),
		wsBuf(1, wsSink()),
		wsMulti(wsBuf(32, wsSink()), wsLock(wsStopped(16, wsSink())), wsAddSync(wsSink())),
		wsLock(wsBuf(100, wsAddSync(wsBuf(40, wsLock(wsSink()))))),
		wsBuf(0, wsSink()),
		wsStopped(64, wsBuf(64, wsSink())),
		wsBuf(64, wsStopped(64, wsSink())),
		wsBuf(48, wsMulti(wsStopped(0, wsSink()), wsSink())),
		wsBuf(0, wsBuf(0, wsSink())),
		wsAddSync(wsLock(wsAddSync(wsBuf(200, wsMulti(wsSink()))))),
		wsBuf(16, wsBuf(32, wsBuf(64, wsSink()))),
		wsBuf(-3, wsSink()), // bufio replaces a negative size by 4096
	}
}

var c06stackSizes = []int{0, 1, 7, 16, 33, 64, 100, 128, 256, 1000, 4096, -5}

func c06randStack(r *RNG, depth int) *c06ws {
	if depth <= 0 || r.Chance(20) {
		return wsSink()
	}
	switch r.Intn(7) {
	case 0, 1, 2:
		d := wsBuf(c06stackSizes[r.Intn(len(c06stackSizes))], c06randStack(r, depth-1))
		d.Stopped = r.Chance(25)
		return d
	case 3:
		return wsLock(c06randStack(r, depth-1))
	case 4:
		return wsAddSync(c06randStack(r, depth-1))
	}
	ks := make([]*c06ws, r.Range(1, 3))
	for i := range ks {
		ks[i] = c06randStack(r, depth-1)
	}
	return wsMulti(ks...)
}

func (d *c06ws) hasDefaultBuf() bool {
	if d.Kind == 1 && d.Size == 0 && !d.Stopped {
		return true
	}
	for _, k := range d.Kids {
		if k.hasDefaultBuf() {
			return true
		}
	}
	return false
}

func c06longText(n, salt int) []byte {
	b := bytes.Repeat([]byte("0123456789abcdef"), n/16+1)[:n]
	copy(b, fmt.Sprintf("long message %d:", salt))
	return b
}

// the terminal (method, level) pairs of the table
func c06terminalPairs(table []c06method) []c06call {
	var out []c06call
	for _, m := range table {
		lv := m.levels()
		if lv == nil {
			lv = []int8{3, 4, 5}
		}
		for _, l := range lv {
			if l >= 3 && l <= 5 {
				out = append(out, c06call{M: m, L: l})
			}
		}
	}
	return out
}

// the calls of an in-process sink-stack case: every method at every terminal level it can reach
// without ending the process, with an entry shorter and an entry longer than the buffers, between
// entries below the sync threshold that stay in the buffers
func c06stackCalls(table []c06method, cs *c06case, rot int) []c06call {
	lengths := []int{70, 150, 300, 700, 5000, 40}
	var out []c06call
	info, errorM := c06method{0, 2, 0}, c06method{0, 4, 0}
	for k, tc := range c06terminalPairs(table) {
		if cs.expectExit(tc.L) {
			continue
		}
		switch (k + rot) % 3 {
		case 0:
			out = append(out, c06call{M: info, L: 0, T: []byte("starting")})
		case 1:
			out = append(out, c06call{M: errorM, L: 2, T: c06longText(lengths[(k+2*rot)%len(lengths)]/2, k)})
		}
		long, short := tc, tc
		long.T = c06longText(lengths[(k+rot)%len(lengths)], k)
		short.T = []byte(c06msg)
		if tc.M.Recv == 4 {
			long.V, short.V = (k+rot)%8, (k+rot+3)%8
			if long.V>>1 == 3 {
				long.A = 0
			}
		} else {
			long.A, short.A = (k+rot)%3, (k+rot+1)%3
		}
		if long.A == 1 && long.V>>1 != 3 {
			long.A = 0 // "as few arguments as the method takes" would drop the text
		}
		if (k+rot)%2 == 0 {
			out = append(out, long, short)
		} else {
			out = append(out, short, long)
		}
	}
	return out
}

// the calls of a case in which hooks, sinks and marshalers log before they look at the entry: every method at every
// terminal level it can reach without ending the process, each with a message of its own (so that an entry of
// another call cannot pass for the right one), argument shapes / std-log constructors rotating, half of the calls
// with a marshaler that logs among the fields, and entries below the terminal levels in between
func c06noiseCalls(table []c06method, cs *c06case, rot int) []c06call {
	var out []c06call
	for k, tc := range c06terminalPairs(table) {
		if cs.expectExit(tc.L) {
			continue
		}
		tc.T = []byte(fmt.Sprintf("terminal entry %d of case %d", k, rot))
		if tc.M.Recv == 4 {
			tc.V = (k + rot) % 8
		} else {
			tc.A = []int{0, 2, 0, 1}[(k+rot)%4]
		}
		tc.N = (k+rot)%2 == 0
		switch (k + rot) % 5 {
		case 0:
			out = append(out, c06call{M: c06method{0, 2, 0}, L: 0, T: []byte(fmt.Sprintf("info %d", k)), N: true})
		case 2:
			out = append(out, c06call{M: c06method{1, 4, 2}, L: 2, T: []byte(fmt.Sprintf("error %d", k)), N: k%2 == 0})
		case 3:
			out = append(out, c06call{M: c06method{4, 0, 0}, L: 1, V: k % 8, T: []byte(fmt.Sprintf("warn %d", k))})
		}
		out = append(out, tc)
	}
	return out
}

func c06(c *Ctx) {
	plan := c06makePlan(c, true)
	inproc, inputs := c06runInProcess(c, plan)
	for i, it := range plan.items {
		c06emitItem(c, it, inproc, inputs, i)
	}
}

func c06makePlan(c *Ctx, emitTable bool) *c06plan {
	plan := &c06plan{}
	silent := &Ctx{out: bufio.NewWriter(io.Discard)}
	tctx := silent
	if emitTable {
		tctx = c
	}
	table := c06table(tctx)
	if emitTable {
		tb := make([]SX, len(table))
		for i, m := range table {
			tb[i] = m.sx()
		}
		c.Emit(Str("table"), L(tb...), map[string]string{"nt": "1", "class": "table"})
	}

	r := NewRNG(c.Seed).Fork()
	never := fnOf(func(int) bool { return false })
	// core compositions used for the directed and child runs
	shapes := []struct {
		t     *c05node
		cells []int8
	}{
		{leafN(0, thr(-1)), nil}, // everything enabled
		{leafN(0, thr(6)), nil},  // nothing enabled (Fatal disabled)
		{nopN(), nil},            // no-op core
		{teeN(leafN(0, thr(0)), hookN(leafN(1, thr(6)), 3), wrapN(5, leafN(2, atom(0)))), []int8{2}}, // tee: enabled, disabled+hook, sampler over AtomicLevel
		{filtN(teeN(leafN(0, thr(-1)), leafN(1, never)), thr(5)), nil},                               // only fatal passes the filter
		{wrapN(6, hookN(leafN(0, thr(4)), 1)), nil},                                                  // lazy + hook, enabled from panic
		// samplers that really drop BEFORE, BETWEEN and AFTER accepting cores of a tee (one of them hooked, one on an
		// AtomicLevel that lets DPanic and above through); first = 0 drops from the very first entry on
		{teeN(sampN(leafN(0, thr(-1)), 1, 0), leafN(1, thr(-1)), sampN(hookN(leafN(2, thr(0)), 4), 2, 3), leafN(3, atom(0)), sampN(leafN(4, thr(-1)), 0, 2)), []int8{3}},
		// cores that decline - filters that are never enabled or let only fatal through, a hooked disabled leaf, a lazy
		// no-op core, a sampled filter, a lazy hooked disabled leaf, a sampler (under With) that drops everything, a
		// no-op core, a disabled leaf under a sampler and under a lazy core - before, between and after accepting cores
		{teeN(filtN(leafN(0, thr(-1)), never), leafN(1, thr(-1)), hookN(leafN(2, thr(6)), 3), filtN(leafN(3, thr(-1)), thr(5)), wrapN(6, nopN()), leafN(4, thr(2)),
			sampN(filtN(leafN(5, thr(-1)), thr(5)), 1, 0), wrapN(6, hookN(leafN(6, thr(6)), 7)), wrapN(7, sampN(leafN(7, thr(-1)), 0, 0)), leafN(8, thr(4)),
			filtN(leafN(9, thr(-1)), never), nopN(), wrapN(5, leafN(10, thr(6))), wrapN(6, leafN(11, thr(6)))), nil},
		// a sampler on top of the whole tee (as zap.Config builds it) over sampled, lazy and plain branches
		{sampN(teeN(leafN(0, thr(-1)), sampN(leafN(1, thr(0)), 0, 3), wrapN(6, sampN(teeN(leafN(2, thr(-1)), nopN()), 2, 0)), leafN(3, thr(3)), sampN(leafN(4, thr(-1)), 1, 1)), 3, 2), nil},
	}
	sampledShapes := []int{6, 7, 8}
	hooks := []c06hook{{0, 0, 0}, {1, 0, 0}, {2, 0, 0}, {3, 0, 0}, {5, 7, 0}}
	dstacks := c06directedStacks()
	// directed, in-process: every method x level on each shape, over hook settings x development
	for si, sh := range shapes {
		for hi, hp := range hooks {
			for _, dev := range []bool{false, true} {
				hf := hooks[(hi+si+1)%len(hooks)]
				if hf.Kind == 5 {
					hf.K = 9
				}
				cs := &c06case{Tree: toJ(sh.t), Cells: sh.cells, Dev: dev, OnPanic: hp, OnFatal: hf, Variant: (si + hi) % 2}
				cs.Calls = c06allCalls(table, cs, true, len(plan.items), false)
				plan.add(cs, "directed", "")
			}
		}
	}
	// child processes: the default actions, observed from outside
	nshapes := 4
	if c.Thorough {
		nshapes = len(shapes)
	}
	for si, sh := range shapes[:nshapes] {
		for mi, m := range table {
			lv := m.levels()
			if lv == nil {
				lv = []int8{3, 4, 5}
			}
			for _, l := range lv {
				if l < 3 {
					continue
				}
				variants := []int{(si + mi) % 2}
				if c.Thorough {
					variants = []int{0, 1}
				}
				if m.Recv == 0 && m.Kind >= 5 && m.Kind <= 7 {
					variants = append(variants, 2, 3)
				}
				for _, v := range variants {
					cs := &c06case{Tree: toJ(sh.t), Cells: sh.cells, Dev: true, Child: true, Variant: v % 2, Calls: []c06call{{M: m, L: l, T: []byte(c06msg)}}}
					switch v {
					case 1:
						cs.OnFatal = c06hook{1, 0, 0} // OnFatal(WriteThenNoop) must still exit
						cs.OnPanic = c06hook{1, 0, 0}
					case 2:
						cs.OnFatal = c06hook{5, 9, 0} // only the fatal hook is customised
					case 3:
						cs.OnPanic = c06hook{5, 7, 0} // only the panic hook is customised
					}
					plan.add(cs, "child", "")
				}
			}
		}
	}
	// child processes over the message space: every method x terminal level x argument shape / std-log
	// constructor and print function x text, the compositions and the spelling of the hooks rotating
	// (quick: the texts that end up empty, blank, padded or multi-line; thorough: all)
	nchild := 0
	for _, m := range table {
		lv := m.levels()
		if lv == nil {
			lv = []int8{3, 4, 5}
		}
		for _, l := range lv {
			if l < 3 {
				continue
			}
			for _, mc := range c06messages(m)[1:] {
				if t := string(mc.T); !c.Thorough && t != "" && t != "\n" && t != c06texts[4] && t != c06texts[6] && t != "two\nlines" {
					continue
				}
				mc.L = l
				sh := shapes[nchild%nshapes]
				cs := &c06case{Tree: toJ(sh.t), Cells: sh.cells, Dev: nchild%5 != 4 || l != 3, Child: true, Variant: (nchild / nshapes) % 2, Calls: []c06call{mc}}
				if (nchild/(2*nshapes))%3 == 1 {
					cs.OnFatal, cs.OnPanic = c06hook{1, 0, 0}, c06hook{1, 0, 0}
				}
				nchild++
				plan.add(cs, "child-message", "")
			}
		}
	}
	// child processes on the compositions with dropping samplers and declining cores: every method x terminal level,
	// the default actions; a sampler with first = 0 drops the very first entry, so the real exit / panic happens
	// while a sibling of an accepting core has just discarded its copy
	nsampled := 0
	for _, si := range sampledShapes {
		sh := shapes[si]
		for _, tc := range c06terminalPairs(table) {
			tc.T = []byte(c06msg)
			if tc.M.Recv == 4 {
				tc.V = nsampled % 8
			} else {
				tc.A = nsampled % 3
			}
			cs := &c06case{Tree: toJ(sh.t), Cells: sh.cells, Dev: nsampled%7 != 6 || tc.L != 3, Child: true, Variant: nsampled % 2, Calls: []c06call{tc}}
			if nsampled%4 == 1 {
				cs.OnFatal, cs.OnPanic = c06hook{1, 0, 0}, c06hook{1, 0, 0}
			}
			nsampled++
			plan.add(cs, "child-sampled", "")
		}
	}
	// the same terminal call again and again on ONE logger (a server that recovers from Logger.Panic per request, a
	// Fatal with a hook that does not exit): 1st .. 5th repeat of the same level + message through every method,
	// each (method, level) with a message of its own so that every sampler counts from 1; what the accepting cores
	// hold is observed at the moment control is lost (custom hook, else recover / Goexit), with sink stacks below
	// the leaves in half of the cases
	nrep := 0
	for _, si := range append([]int{3}, sampledShapes...) {
		sh := shapes[si]
		for hi, hp := range []c06hook{{5, 7, 0}, {0, 0, 0}, {2, 0, 0}} {
			for _, dev := range []bool{true, false} {
				cs := &c06case{Tree: toJ(sh.t), Cells: sh.cells, Dev: dev, OnPanic: hp, OnFatal: []c06hook{{5, 9, 0}, {2, 0, 0}, {3, 0, 0}}[(hi+nrep)%3], Variant: nrep % 2}
				if nrep%2 == 0 {
					_, leaves, _ := sh.t.size()
					for k := 0; k < leaves; k++ {
						cs.Stacks = append(cs.Stacks, dstacks[(nrep+3*k)%len(dstacks)])
					}
				}
				for k, tc := range c06terminalPairs(table) {
					if cs.expectExit(tc.L) {
						continue
					}
					tc.T = []byte(fmt.Sprintf("request %d failed", k))
					if tc.M.Recv == 4 {
						tc.V = (k + nrep) % 8
					}
					for rep := 0; rep < 5; rep++ {
						cs.Calls = append(cs.Calls, tc)
					}
					if k%4 == 0 {
						// an entry below the sync threshold in between: it stays in the buffers
						cs.Calls = append(cs.Calls, c06call{M: c06method{0, 4, 0}, L: 2, T: []byte("recovered")})
					}
				}
				nrep++
				plan.add(cs, "repeat", "")
			}
		}
	}
	// zapio.Writer at terminal levels, alone: with the level disabled Writer.Write returns early and
	// nothing terminates (known finding zapio-terminal-disabled; tagged exactly when disabled)
	for _, sh := range shapes {
		for _, l := range []int8{3, 4, 5} {
			for _, child := range []bool{false, true} {
				cs := &c06case{Tree: toJ(sh.t), Cells: sh.cells, Dev: true, Child: child, Calls: []c06call{{M: c06zapio, L: l, T: []byte(c06msg)}}}
				if !child {
					cs.OnPanic, cs.OnFatal = c06hook{5, 7, 0}, c06hook{5, 9, 0}
				}
				env := c05newEnv(&c05case{cells: sh.cells})
				kf := ""
				if !env.build(sh.t).Enabled(zapcore.Level(l)) {
					kf = "zapio-terminal-disabled"
				}
				plan.add(cs, "zapio-terminal", kf)
			}
		}
	}
	// sink stacks, in-process: compositions with leaves x directed stacks (rotating over the leaves) x hook
	// settings under which Panic / Fatal do not end the process x development
	stackShapes := []int{0, 3, 4, 5, 6}
	panicHooks := []c06hook{{0, 0, 0}, {5, 7, 0}, {2, 0, 0}, {1, 0, 0}, {3, 0, 0}}
	fatalHooks := []c06hook{{5, 9, 0}, {2, 0, 0}, {3, 0, 0}, {5, 9, 0}, {0, 0, 0}}
	nstack := 0
	for di := range dstacks {
		for _, si := range stackShapes {
			sh := shapes[si]
			if c.Thorough || (di+si)%2 == 0 || di < 4 {
				cs := &c06case{Tree: toJ(sh.t), Cells: sh.cells, Dev: nstack%3 != 2, OnPanic: panicHooks[nstack%5], OnFatal: fatalHooks[(nstack/2)%5], Variant: nstack % 2}
				_, leaves, _ := sh.t.size()
				for k := 0; k < leaves; k++ {
					cs.Stacks = append(cs.Stacks, dstacks[(di+k)%len(dstacks)])
				}
				cs.Calls = c06stackCalls(table, cs, nstack)
				if dstacks[di].hasDefaultBuf() && !cs.expectExit(4) {
					// an entry longer than the default buffer of 256 kB
					cs.Calls = append(cs.Calls, c06call{M: c06method{0, 2, 0}, L: 0, T: []byte("starting")},
						c06call{M: c06method{0, 6, 0}, L: 4, T: c06longText(270000, di)}, c06call{M: c06method{1, 6, 3}, L: 4, T: []byte(c06msg)})
				}
				plan.add(cs, "stack", "")
			}
			nstack++
		}
	}
	// sink stacks in real child processes with the default actions: the recording sinks commit to files,
	// read after the process is gone; every directed stack (and seeded random ones) x terminal level x
	// an entry shorter / longer than the buffers, methods, compositions and hook spellings rotating
	pairs := c06terminalPairs(table)
	cstacks := append([]*c06ws{}, dstacks...)
	nrand := 12
	if c.Thorough {
		nrand = 200
	}
	sr := NewRNG(c.Seed ^ 0x5eed06d).Fork()
	for k := 0; k < nrand; k++ {
		cstacks = append(cstacks, c06randStack(sr, 4))
	}
	nchildStack := 0
	for di, d := range cstacks {
		for _, l := range []int8{3, 4, 5} {
			for _, long := range []bool{false, true} {
				nchildStack++
				if !c.Thorough && di >= 4 && (nchildStack+di)%2 == 0 {
					continue
				}
				var tc c06call
				for k := 0; ; k++ { // the next method that can log at l
					tc = pairs[(nchildStack*7+k)%len(pairs)]
					if tc.L == l {
						break
					}
				}
				tc.T = []byte(c06msg)
				if long {
					tc.T = c06longText([]int{300, 700, 150, 5000}[nchildStack%4], nchildStack)
					if d.hasDefaultBuf() && nchildStack%3 == 0 {
						tc.T = c06longText(270000, nchildStack)
					}
				}
				if tc.M.Recv == 4 {
					tc.V = nchildStack % 8
				}
				sh := shapes[[]int{0, 3, 6}[nchildStack%3]]
				cs := &c06case{Tree: toJ(sh.t), Cells: sh.cells, Dev: true, Child: true, Variant: nchildStack % 2, Calls: []c06call{tc}}
				if nchildStack%3 == 1 {
					cs.OnFatal, cs.OnPanic = c06hook{1, 0, 0}, c06hook{1, 0, 0}
				}
				_, leaves, _ := sh.t.size()
				for k := 0; k < leaves; k++ {
					cs.Stacks = append(cs.Stacks, cstacks[(di+k)%len(cstacks)])
				}
				plan.add(cs, "child-stack", "")
			}
		}
	}
	// ---- the entry the terminal action works on ----
	// (hook-noise) custom hooks that log through an unrelated logger before they read the entry and delegate /
	// dispatch, entry hooks, sinks and marshalers that do the same, another goroutine logging all the while:
	// compositions (enabled leaf, disabled leaf, no-op core, tee with an entry hook and a sampler, lazy + entry
	// hook, droppers around accepting leaves) x hook pairs x who logs how much x development
	noiseShapes := []int{0, 1, 2, 3, 5, 6}
	hookPairs := [][2]c06hook{
		{{6, 7, 1}, {6, 9, 2}}, // announce, then WriteThenPanic / WriteThenGoexit
		{{6, 5, 3}, {6, 5, 3}}, // one hook object for both levels that switches on ce.Level
		{{6, 7, 0}, {6, 9, 0}}, // announce, look, return
		{{6, 7, 2}, {6, 9, 1}}, // the panic hook ends the goroutine, the fatal hook panics with ce.Message
		{{5, 7, 0}, {6, 9, 3}}, // a hook that looks at once; a dispatching one
		{{0, 0, 0}, {6, 9, 2}}, // the default panic action (panic(ce.Message)) with everybody else logging
		{{3, 0, 0}, {2, 0, 0}}, // WriteThenPanic / WriteThenGoexit spelled out
		{{6, 7, 3}, {6, 9, 1}}, // dispatch for Panic, WriteThenPanic for Fatal
	}
	noises := []c06noise{
		{Name: "main", Nested: 1, Yields: 0, Conc: 0}, {Name: "", Nested: 3, Yields: 0, Conc: 0}, {Name: "svc.db", Nested: 2, Yields: 1, Conc: 1}, {Name: "main", Nested: 0, Yields: 2, Conc: 2}, {Name: "a", Nested: 1, Yields: 1, Conc: 2}, {Name: "main", Nested: 8, Yields: 0, Conc: 0},
		{Name: "", Nested: 0, Yields: 3, Conc: 1}, {Name: "main", Nested: 2, Yields: 2, Conc: 2},
	}
	nnoise := 0
	for _, si := range noiseShapes {
		sh := shapes[si]
		for hi, hp := range hookPairs {
			if !c.Thorough && (si+hi)%2 == 1 && si != 0 {
				continue
			}
			nz := noises[(nnoise+hi)%len(noises)]
			cs := &c06case{Tree: toJ(sh.t), Cells: sh.cells, Dev: nnoise%3 != 2, OnPanic: hp[0], OnFatal: hp[1], Variant: nnoise % 2, Noise: &nz}
			if nnoise%4 == 3 {
				_, leaves, _ := sh.t.size()
				for k := 0; k < leaves; k++ {
					cs.Stacks = append(cs.Stacks, dstacks[(nnoise+5*k)%len(dstacks)])
				}
			}
			cs.Calls = c06noiseCalls(table, cs, nnoise)
			nnoise++
			plan.add(cs, "hook-noise", "")
		}
	}
	// (child-hook-noise) the same hooks in real child processes, delegating to the actions that end the process:
	// WriteThenPanic (the panic value observed from outside), WriteThenFatal (exit status 1), and the dispatching
	// hook (panic / Goexit); every method x terminal level
	nchn := 0
	for _, modes := range [][2]int{{1, 4}, {3, 3}} {
		for k, tc := range pairs {
			if !c.Thorough && modes[0] == 3 && k%2 == 1 {
				continue
			}
			tc.T = []byte(fmt.Sprintf("last words %d", nchn))
			if tc.M.Recv == 4 {
				tc.V = nchn % 8
			} else {
				tc.A = []int{0, 2}[nchn%2]
			}
			tc.N = nchn%3 == 0
			sh := shapes[[]int{0, 2, 3, 1, 5}[nchn%5]]
			nz := noises[nchn%len(noises)]
			if nz.Nested == 0 && nz.Conc != 2 {
				nz.Nested = 1
			}
			cs := &c06case{Tree: toJ(sh.t), Cells: sh.cells, Dev: true, Child: true, Variant: nchn % 2, Calls: []c06call{tc}, Noise: &nz,
				OnPanic: c06hook{6, 7, modes[0]}, OnFatal: c06hook{6, 9, modes[1]}}
			nchn++
			plan.add(cs, "child-hook-noise", "")
		}
	}
	// (stress) the default panic action under load, the one manifestation nobody's hook can provoke: Panic-level
	// calls through Logger, SugaredLogger and Check+Write on 2 x GOMAXPROCS goroutines, each call with a message of
	// its own, again and again for a bounded time next to as many goroutines that log on another logger (also all
	// of it under GOMAXPROCS(1), everybody yielding); every panic value must be the message of its own call.  On
	// trees that record nothing (no-op core, a leaf that is never enabled): the entry still goes through the pool
	nstress, millis := 2, 700
	if c.Thorough {
		nstress, millis = 6, 5000
	}
	for k := 0; k < nstress; k++ {
		nz := c06noise{Name: []string{"main", ""}[k%2], Conc: 3 + k%2, Reps: 1 << 20, Millis: millis}
		sh := shapes[[]int{2, 1}[(k/2)%2]]
		cs := &c06case{Tree: toJ(sh.t), Cells: sh.cells, Dev: true, OnPanic: []c06hook{{0, 0, 0}, {0, 0, 0}, {3, 0, 0}}[k%3], OnFatal: c06hook{2, 0, 0}, Variant: k % 2, Noise: &nz}
		ms := []c06call{{M: c06method{0, 6, 0}, L: 4}, {M: c06method{1, 6, 1}, L: 4}, {M: c06method{0, 8, 0}, L: 4}, {M: c06method{1, 6, 2}, L: 4},
			{M: c06method{0, 0, 0}, L: 4}, {M: c06method{1, 0, 3}, L: 4}, {M: c06method{0, 5, 0}, L: 3}, {M: c06method{1, 6, 0}, L: 4}}
		for j := 0; j < 256; j++ {
			cl := ms[j%len(ms)]
			cl.T = []byte(fmt.Sprintf("boom %d-%d", k, j))
			cs.Calls = append(cs.Calls, cl)
		}
		plan.add(cs, "stress", "")
	}
	// random trees and configurations, in-process
	n := 600
	if c.Thorough {
		n = 10000
	}
	for k := 0; k < n; k++ {
		g := c05newGen(r.Fork())
		g.dropping = k%4 != 3 // three quarters of the trees with samplers that really drop (small first / thereafter)
		t := g.tree(g.r.Range(0, 4))
		cs := &c06case{Tree: toJ(t), Cells: g.cells, Dev: g.r.Bool(), Variant: g.r.Intn(2)}
		pick := func(k int) c06hook {
			h := hooks[g.r.Intn(len(hooks))]
			if g.r.Chance(10) {
				h = c06hook{Kind: 4}
			}
			if g.r.Chance(25) {
				h = c06hook{Kind: 6, Mode: g.r.Intn(4)} // a hook that logs before it reads the entry and delegates
			}
			if h.Kind >= 5 {
				h.K = k
			}
			return h
		}
		cs.OnPanic, cs.OnFatal = pick(11), pick(12)
		if g.r.Chance(35) {
			// somebody logs in between: the hooks of kind 6, entry hooks, sinks, marshalers, another goroutine
			cs.Noise = &c06noise{Name: []string{"", "main", "a.b"}[g.r.Intn(3)], Nested: g.r.Intn(5), Yields: g.r.Intn(3), Conc: []int{0, 0, 1, 2}[g.r.Intn(4)]}
		}
		// half of them with a random sink stack below every leaf
		if _, leaves, _ := t.size(); g.r.Bool() {
			cs.Stacks = []*c06ws{}
			for i := 0; i < leaves; i++ {
				cs.Stacks = append(cs.Stacks, c06randStack(g.r, 4))
			}
		}
		all := c06allCalls(table, cs, true, k, true)
		for _, cl := range all {
			// the historical message always at the terminal levels and often elsewhere; the
			// members of the message space sparsely, and some with a random text instead
			def := cl.A == 0 && cl.V == 0 && string(cl.T) == c06msg
			switch {
			case def && (g.r.Chance(40) || cl.L >= 3):
			case !def && g.r.Chance(3):
				if cl.M.Recv != 3 && g.r.Chance(50) {
					cl.T = c06randText(g.r)
				}
			default:
				continue
			}
			if cs.Noise != nil && g.r.Bool() {
				cl.N = true
			}
			if cs.Stacks != nil && cl.M.Recv != 3 && g.r.Chance(20) {
				// entries of all lengths around the buffer sizes
				cl.T = c06longText(g.r.Range(1, 40)*g.r.Range(1, 30), k)
				if cl.A == 1 && !(cl.M.Recv == 4 && cl.V>>1 == 3) {
					cl.A = 0
				}
			}
			cs.Calls = append(cs.Calls, cl)
		}
		plan.add(cs, "random", "")
	}
	c06fwdPlan(c, plan, table, hooks, dstacks)
	c06contendPlan(c, plan, table)
	return plan
}

// ---- composite cores written through their own Write method; cores whose Write fails (c06_fwd.go) ----
func c06fwdPlan(c *Ctx, plan *c06plan, table []c06method, hooks []c06hook, dstacks []*c06ws) {
	fshapes := c06fwdShapes()
	pairs := c06terminalPairs(table)
	// hook settings under which Panic / Fatal stay in the process
	fPanic := []c06hook{{5, 7, 0}, {0, 0, 0}, {2, 0, 0}, {3, 0, 0}, {1, 0, 0}}
	fFatal := []c06hook{{5, 9, 0}, {2, 0, 0}, {3, 0, 0}}
	// (forward) in-process: every composition x failing position, hook settings and development rotating; every
	// method at every terminal level it can reach, each with a message of its own - twice in a row where a sampler
	// sits above a wrapper (the second one is dropped: the wrapper and everything beneath it is excused) - between
	// entries below the terminal levels; every third case with sink stacks below all leaves (entries shorter and
	// longer than the buffers): what the healthy sinks have not committed is read at the moment control is lost
	for k, sh := range fshapes {
		cs := &c06case{Tree: toJ(sh.t), Cells: sh.cells, Fails: sh.fails, Dev: k%3 != 2, OnPanic: fPanic[k%len(fPanic)], OnFatal: fFatal[(k/2)%len(fFatal)], Variant: k % 2}
		if k%3 == 1 {
			leaves := c06allLeafIDs(sh.t)
			for j := range leaves {
				cs.Stacks = append(cs.Stacks, dstacks[(k+3*j)%len(dstacks)])
			}
			cs.Calls = c06stackCalls(table, cs, k)
		} else {
			for _, cl := range c06noiseCalls(table, cs, k) {
				cl.N = false
				cs.Calls = append(cs.Calls, cl)
				if sh.samp && cl.L >= 3 {
					cs.Calls = append(cs.Calls, cl)
				}
			}
		}
		plan.add(cs, "forward", "")
	}
	// (forward-all) a few compositions under every method x every level x the message space, as the directed class
	for k, si := range []int{0, 7, 15, 30, 44} {
		sh := fshapes[si%len(fshapes)]
		cs := &c06case{Tree: toJ(sh.t), Cells: sh.cells, Fails: sh.fails, Dev: k%2 == 0, OnPanic: hooks[k%len(hooks)], OnFatal: fFatal[k%len(fFatal)], Variant: k % 2}
		cs.Calls = c06allCalls(table, cs, true, len(plan.items), false)
		plan.add(cs, "forward-all", "")
	}
	// (child-forward) real child processes with the default actions: the IO leaves write through
	// BufferedWriteSyncers into files (every third case: through directed sink stacks into the files of the
	// recording sinks); exit status / panic message observed from outside, the files read afterwards: the file of
	// every healthy core the entry had to reach holds the line, whichever cores failed before it
	nc := 0
	for k, sh := range fshapes {
		reps := 1
		if c.Thorough {
			reps = 4
		}
		for rep := 0; rep < reps; rep++ {
			tc := pairs[(nc*5+k)%len(pairs)]
			tc.T = []byte(c06msg)
			if tc.M.Recv == 4 {
				tc.V = nc % 8
			} else {
				tc.A = nc % 3
			}
			cs := &c06case{Tree: toJ(sh.t), Cells: sh.cells, Fails: sh.fails, Dev: nc%7 != 6 || tc.L != 3, Child: true, Variant: nc % 2, Calls: []c06call{tc}}
			if nc%4 == 1 {
				cs.OnFatal, cs.OnPanic = c06hook{1, 0, 0}, c06hook{1, 0, 0}
			}
			if nc%3 == 2 {
				for j := range c06allLeafIDs(sh.t) {
					cs.Stacks = append(cs.Stacks, dstacks[(nc+2*j)%len(dstacks)])
				}
			}
			nc++
			plan.add(cs, "child-forward", "")
		}
	}
	// (random-forward) seeded random trees (C05's generator, samplers that really drop) with wrappers around random
	// nodes and random leaves failing x random hook settings x development, half of them with random sink stacks;
	// every method at the terminal levels plus a sparse sample of everything else
	n := 150
	if c.Thorough {
		n = 4000
	}
	fr := NewRNG(c.Seed ^ 0xf07a4d).Fork()
	for k := 0; k < n; k++ {
		g := c05newGen(fr.Fork())
		g.dropping = k%3 != 2
		t := g.tree(g.r.Range(1, 4))
		next := 100
		t = c06randFwd(g.r, t, &next, []int{15, 30, 50}[k%3])
		if !c06hasFwd(t) {
			t = fwdN(t, 100)
		}
		cs := &c06case{Tree: toJ(t), Cells: g.cells, Dev: g.r.Bool(), Variant: g.r.Intn(2)}
		leaves := c06allLeafIDs(t)
		for _, id := range leaves {
			if g.r.Chance(30) {
				cs.Fails = append(cs.Fails, id)
			}
		}
		cs.OnPanic, cs.OnFatal = hooks[g.r.Intn(len(hooks))], hooks[g.r.Intn(len(hooks))]
		if g.r.Chance(20) {
			cs.OnFatal = c06hook{Kind: 6, K: 12, Mode: g.r.Intn(4)}
		}
		if g.r.Chance(20) {
			cs.Noise = &c06noise{Name: []string{"", "main"}[g.r.Intn(2)], Nested: g.r.Intn(3), Yields: g.r.Intn(2), Conc: []int{0, 0, 1}[g.r.Intn(3)]}
		}
		if g.r.Bool() {
			cs.Stacks = []*c06ws{}
			for range leaves {
				cs.Stacks = append(cs.Stacks, c06randStack(g.r, 3))
			}
		}
		for _, cl := range c06allCalls(table, cs, true, k, true) {
			def := cl.A == 0 && cl.V == 0 && string(cl.T) == c06msg
			switch {
			case def && (cl.L >= 3 && cl.L <= 5 || g.r.Chance(15)):
			case !def && g.r.Chance(1):
			default:
				continue
			}
			if cs.Stacks != nil && cl.M.Recv != 3 && g.r.Chance(20) {
				cl.T = c06longText(g.r.Range(1, 40)*g.r.Range(1, 30), k)
				if cl.A == 1 && !(cl.M.Recv == 4 && cl.V>>1 == 3) {
					cl.A = 0
				}
			}
			cs.Calls = append(cs.Calls, cl)
			if g.r.Chance(30) {
				cs.Calls = append(cs.Calls, cl) // the same entry again: a sampler above a wrapper may drop it
			}
		}
		plan.add(cs, "random-forward", "")
	}
}

func init() {
	registry["C06"] = c06
	registry["C06child"] = c06child
	registry["C06worker"] = c06worker
}

package main

import (
	"errors"
	"fmt"
	"math"
	"reflect"
	"runtime"
	"sort"
	"strconv"
	"strings"
	"time"

	"go.uber.org/zap"
	"go.uber.org/zap/zapcore"
	"go.uber.org/zap/zaptest/observer"
)

// C14: SugaredLogger over an observer core, bare or under a composition of wrapping cores (forwarders
// that register themselves, embedding wrappers, Tee, hooks, IncreaseLevel) installed with
// WithOptions(WrapCore(..)) before, between and after the With/WithLazy calls.  A case is a core enabler (a LevelEnablerFunc
// over any set of levels, a plain zapcore.Level, an AtomicLevel), a chain of With/WithLazy
// calls interleaved with changes of that enabler, followed by one logging call of one of the
// four families (w, print, f, ln) at one level (named or custom, -128..127); the observation is
// every entry the observer recorded (level, message, fields) and how the call ended.
// See coq/theories/C14/Model.v for the wire layout.

// ---------------------------------------------------------------- value universe
type c14Err struct{ id int }

func (e *c14Err) Error() string {
	if e == nil {
		return "nil-c14Err"
	}
	return "err" + strconv.Itoa(e.id)
}

type c14ValErr struct{ msg string }

func (e c14ValErr) Error() string { return e.msg }

// an error that is also an ObjectMarshaler: Any(k, e) picks Object, Error(e) picks ErrorType
type c14ObjErr struct{ id int }

func (e c14ObjErr) Error() string { return "objerr" + strconv.Itoa(e.id) }
func (e c14ObjErr) MarshalLogObject(enc zapcore.ObjectEncoder) error {
	enc.AddInt("id", e.id)
	return nil
}

// an error that is also a Stringer
type c14StrErr struct{ s string }

func (e c14StrErr) Error() string  { return "E:" + e.s }
func (e c14StrErr) String() string { return "S:" + e.s }

type c14Stringer struct{ s string }

func (s c14Stringer) String() string { return "<" + s.s + ">" }

type c14Obj struct {
	a int
	b string
}

func (o c14Obj) MarshalLogObject(enc zapcore.ObjectEncoder) error {
	enc.AddInt("a", o.a)
	enc.AddString("b", o.b)
	return nil
}

type c14Arr []int

func (a c14Arr) MarshalLogArray(enc zapcore.ArrayEncoder) error {
	for _, x := range a {
		enc.AppendInt(x)
	}
	return nil
}

type c14Struct struct {
	A int
	B string
}
type c14NamedStr string
type c14NamedInt int

// ---------------------------------------------------------------- address-free rendering
func c14rv(b *strings.Builder, v reflect.Value, depth int) {
	if depth > 10 {
		b.WriteString("...")
		return
	}
	if !v.IsValid() {
		b.WriteString("<nil>")
		return
	}
	switch v.Kind() {
	case reflect.Bool:
		b.WriteString(strconv.FormatBool(v.Bool()))
	case reflect.Int, reflect.Int8, reflect.Int16, reflect.Int32, reflect.Int64:
		b.WriteString(strconv.FormatInt(v.Int(), 10))
	case reflect.Uint, reflect.Uint8, reflect.Uint16, reflect.Uint32, reflect.Uint64, reflect.Uintptr:
		b.WriteString(strconv.FormatUint(v.Uint(), 10))
	case reflect.Float32, reflect.Float64:
		fmt.Fprintf(b, "f%016x", math.Float64bits(v.Float()))
	case reflect.Complex64, reflect.Complex128:
		c := v.Complex()
		fmt.Fprintf(b, "c%016x,%016x", math.Float64bits(real(c)), math.Float64bits(imag(c)))
	case reflect.String:
		b.WriteString(strconv.Quote(v.String()))
	case reflect.Ptr:
		if v.IsNil() {
			b.WriteString("nil")
		} else {
			b.WriteString("&")
			c14rv(b, v.Elem(), depth+1)
		}
	case reflect.Interface:
		if v.IsNil() {
			b.WriteString("<nil>")
		} else {
			b.WriteString("(" + v.Elem().Type().String() + ")")
			c14rv(b, v.Elem(), depth+1)
		}
	case reflect.Struct:
		b.WriteString("{")
		for i := 0; i < v.NumField(); i++ {
			if i > 0 {
				b.WriteString(" ")
			}
			b.WriteString(v.Type().Field(i).Name + ":")
			c14rv(b, v.Field(i), depth+1)
		}
		b.WriteString("}")
	case reflect.Slice, reflect.Array:
		if v.Kind() == reflect.Slice && v.IsNil() {
			b.WriteString("nil[]")
			return
		}
		b.WriteString("[")
		for i := 0; i < v.Len(); i++ {
			if i > 0 {
				b.WriteString(" ")
			}
			c14rv(b, v.Index(i), depth+1)
		}
		b.WriteString("]")
	case reflect.Map:
		if v.IsNil() {
			b.WriteString("nil-map")
			return
		}
		var items []string
		for _, k := range v.MapKeys() {
			var kb strings.Builder
			c14rv(&kb, k, depth+1)
			kb.WriteString("=>")
			c14rv(&kb, v.MapIndex(k), depth+1)
			items = append(items, kb.String())
		}
		sort.Strings(items)
		b.WriteString("map[" + strings.Join(items, " ") + "]")
	default: // Func, Chan, UnsafePointer
		b.WriteString(v.Kind().String())
	}
}

// (typ rend) of a Go value
func c14iface(v interface{}) SX {
	if v == nil {
		return L(Str("<nil>"), Str("<nil>"))
	}
	var b strings.Builder
	c14rv(&b, reflect.ValueOf(v), 0)
	return L(Str(fmt.Sprintf("%T", v)), Str(b.String()))
}

// ---------------------------------------------------------------- recording encoders (public zapcore API)
// object encoder: one event (method key (typ rend)) per call, in call order
type c14objRec struct{ ev []SX }

func (r *c14objRec) add(m, k string, v interface{}) { r.ev = append(r.ev, L(Str(m), Str(k), c14iface(v))) }
func (r *c14objRec) AddArray(k string, m zapcore.ArrayMarshaler) error {
	sub := zapcore.NewMapObjectEncoder()
	err := sub.AddArray("x", m)
	r.add("Array", k, sub.Fields["x"])
	return err
}
func (r *c14objRec) AddObject(k string, m zapcore.ObjectMarshaler) error {
	sub := zapcore.NewMapObjectEncoder()
	err := m.MarshalLogObject(sub)
	r.add("Object", k, sub.Fields)
	return err
}
func (r *c14objRec) AddBinary(k string, v []byte)          { r.add("Binary", k, v) }
func (r *c14objRec) AddByteString(k string, v []byte)      { r.add("ByteString", k, v) }
func (r *c14objRec) AddBool(k string, v bool)              { r.add("Bool", k, v) }
func (r *c14objRec) AddComplex128(k string, v complex128)  { r.add("Complex128", k, v) }
func (r *c14objRec) AddComplex64(k string, v complex64)    { r.add("Complex64", k, v) }
func (r *c14objRec) AddDuration(k string, v time.Duration) { r.add("Duration", k, v) }
func (r *c14objRec) AddFloat64(k string, v float64)        { r.add("Float64", k, v) }
func (r *c14objRec) AddFloat32(k string, v float32)        { r.add("Float32", k, v) }
func (r *c14objRec) AddInt(k string, v int)                { r.add("Int", k, v) }
func (r *c14objRec) AddInt64(k string, v int64)            { r.ev = append(r.ev, L(Str("Int64"), Str(k), Z(v))) }
func (r *c14objRec) AddInt32(k string, v int32)            { r.add("Int32", k, v) }
func (r *c14objRec) AddInt16(k string, v int16)            { r.add("Int16", k, v) }
func (r *c14objRec) AddInt8(k string, v int8)              { r.add("Int8", k, v) }
func (r *c14objRec) AddString(k, v string)                 { r.add("String", k, v) }
func (r *c14objRec) AddTime(k string, v time.Time)         { r.add("Time", k, v) }
func (r *c14objRec) AddUint(k string, v uint)              { r.add("Uint", k, v) }
func (r *c14objRec) AddUint64(k string, v uint64)          { r.add("Uint64", k, v) }
func (r *c14objRec) AddUint32(k string, v uint32)          { r.add("Uint32", k, v) }
func (r *c14objRec) AddUint16(k string, v uint16)          { r.add("Uint16", k, v) }
func (r *c14objRec) AddUint8(k string, v uint8)            { r.add("Uint8", k, v) }
func (r *c14objRec) AddUintptr(k string, v uintptr)        { r.add("Uintptr", k, v) }
func (r *c14objRec) AddReflected(k string, v interface{}) error {
	r.add("Reflected", k, v)
	return nil
}
func (r *c14objRec) OpenNamespace(k string) { r.add("Namespace", k, nil) }

// array encoder for the "invalid" field: invalidPairs.MarshalLogArray only appends objects;
// any other call panics on the nil embedded interface and is reported
type c14arrRec struct {
	zapcore.ArrayEncoder
	objs []SX
}

func (r *c14arrRec) AppendObject(m zapcore.ObjectMarshaler) error {
	sub := &c14objRec{}
	err := m.MarshalLogObject(sub)
	r.objs = append(r.objs, L(sub.ev...))
	return err
}

// ---------------------------------------------------------------- descriptors
// keyless field: (type integer string iface)
func c14keyless(f zapcore.Field) SX {
	return L(I(int(f.Type)), Z(f.Integer), Str(f.String), c14fieldIface(f))
}
func c14fieldIface(f zapcore.Field) (out SX) {
	if f.Interface != nil && fmt.Sprintf("%T", f.Interface) == "zap.invalidPairs" {
		if am, ok := f.Interface.(zapcore.ArrayMarshaler); ok {
			defer func() {
				if r := recover(); r != nil {
					out = L(Str("zap.invalidPairs"), Str(fmt.Sprint("unexpected encoder call: ", r)))
				}
			}()
			rec := &c14arrRec{}
			if err := am.MarshalLogArray(rec); err != nil {
				return L(Str("zap.invalidPairs"), Str("error: "+err.Error()))
			}
			return L(Str("zap.invalidPairs"), L(rec.objs...))
		}
	}
	return c14iface(f.Interface)
}
func c14field(f zapcore.Field) SX {
	return L(Str(f.Key), I(int(f.Type)), Z(f.Integer), Str(f.String), c14fieldIface(f))
}
func c14encAs(key string, v interface{}) SX {
	rec := &c14objRec{}
	zap.Any(key, v).AddTo(rec)
	return L(rec.ev...)
}

const (
	c14KField = 0
	c14KErr   = 1
	c14KStr   = 2
	c14KOther = 3
)

// the classification sweetenFields applies to args[i], by the same assertions in the same order
func c14kind(v interface{}) int {
	if _, ok := v.(zap.Field); ok {
		return c14KField
	}
	if _, ok := v.(error); ok {
		return c14KErr
	}
	if _, ok := v.(string); ok {
		return c14KStr
	}
	return c14KOther
}

func c14desc(v interface{}) SX {
	k := c14kind(v)
	fdesc, str, errkl := L(), Str(""), L()
	switch k {
	case c14KField:
		fdesc = c14field(v.(zap.Field))
	case c14KStr:
		str = Str(v.(string))
	case c14KErr:
		errkl = c14keyless(zap.NamedError("", v.(error)))
	}
	id := c14iface(v).(sl)
	return L(I(k), fdesc, str, c14keyless(zap.Any("", v)), errkl, c14encAs("key", v), c14encAs("value", v), id.l[0], id.l[1])
}

// ---------------------------------------------------------------- cases
// the core's LevelEnabler
const (
	c14EnFunc   = 0 // zap.LevelEnablerFunc accepting exactly the levels of set (no Level() method; not monotone in general)
	c14EnLevel  = 1 // a plain zapcore.Level used as the enabler (no Level() method either): l >= min
	c14EnAtomic = 2 // zap.AtomicLevel at min; SetLevel moves it during the history
)

type c14enab struct {
	kind int
	set  []int // kind c14EnFunc: the enabled levels, ascending
	min  int   // kinds c14EnLevel, c14EnAtomic
}

func (e c14enab) sx() SX {
	if e.kind == c14EnFunc {
		ls := make([]SX, len(e.set))
		for i, l := range e.set {
			ls[i] = I(l)
		}
		return L(I(e.kind), L(ls...))
	}
	return L(I(e.kind), I(e.min))
}

// a LevelEnablerFunc for the levels -1..5 given as a mask (the named levels)
func c14maskEn(m [7]bool) c14enab {
	e := c14enab{kind: c14EnFunc}
	for i, b := range m {
		if b {
			e.set = append(e.set, i-1)
		}
	}
	return e
}

type c14case struct {
	en      c14enab
	dev     bool
	withs   []c14with
	fam     int // 0 w, 1 print, 2 f, 3 ln
	lvl     int
	text    string
	args    []interface{}
	generic bool // Logw/Log/Logf/Logln(lvl, ...) instead of the named method
}

// one step of the history before the call: With/WithLazy(args...), or (set != nil) the core's
// enabler changes: AtomicLevel.SetLevel(set.min) / the set read by the LevelEnablerFunc is replaced
type c14with struct {
	lazy bool
	args []interface{}
	set  *c14enab
	wrap int // c14W*: WithOptions(zap.WrapCore(...)) puts a wrapping core on top of the logger's core (0 = no wrap step)
}

// wrapping cores (the wire's wrapper code is wrap-1).  All of them leave Enabled alone, so the flat
// model's gate applies; see Model.v, section Cores, for what each does with Check and Write.
const (
	c14WFwd    = 1 // user core: embeds zapcore.Core, Check registers ITSELF, Write forwards to the embedded core
	c14WDeleg  = 2 // user core: embeds zapcore.Core, Check is the embedded one (the inner core registers itself)
	c14WTee    = 3 // zapcore.NewTee(core, nop)
	c14WHook   = 4 // zapcore.RegisterHooks(core, hook)
	c14WFilter = 5 // zapcore.NewIncreaseLevelCore(core, the core's own enabler)
	c14WTeeL   = 6 // zapcore.NewTee(nop, core)
)

// the textbook custom core (counting / filtering / auditing cores): it is the only kind of core that
// calls Write on the core it wraps -- a lazyWithCore directly below it is reached through its Write
type c14fwdCore struct {
	zapcore.Core
	n *int
}

func (c c14fwdCore) With(fs []zapcore.Field) zapcore.Core { return c14fwdCore{c.Core.With(fs), c.n} }
func (c c14fwdCore) Check(e zapcore.Entry, ce *zapcore.CheckedEntry) *zapcore.CheckedEntry {
	if c.Enabled(e.Level) {
		return ce.AddCore(e, c)
	}
	return ce
}
func (c c14fwdCore) Write(e zapcore.Entry, fs []zapcore.Field) error {
	*c.n++
	return c.Core.Write(e, fs)
}

type c14delegCore struct{ zapcore.Core }

func (c c14delegCore) With(fs []zapcore.Field) zapcore.Core { return c14delegCore{c.Core.With(fs)} }

type c14setupPanic struct{ msg string }

func c14wrap(kind int, enab zapcore.LevelEnabler, nfwd, nhook *int) func(zapcore.Core) zapcore.Core {
	return func(c zapcore.Core) zapcore.Core {
		switch kind {
		case c14WFwd:
			return c14fwdCore{c, nfwd}
		case c14WDeleg:
			return c14delegCore{c}
		case c14WTee:
			return zapcore.NewTee(c, zapcore.NewNopCore())
		case c14WTeeL:
			return zapcore.NewTee(zapcore.NewNopCore(), c)
		case c14WHook:
			return zapcore.RegisterHooks(c, func(zapcore.Entry) error { *nhook++; return nil })
		default:
			f, err := zapcore.NewIncreaseLevelCore(c, enab)
			if err != nil {
				panic(c14setupPanic{"NewIncreaseLevelCore(core, the core's own enabler): " + err.Error()})
			}
			return f
		}
	}
}

// the history's wrappers are within the model's claim (Model.v ks_ok): no self-registering forwarder
// above a hooked core (hooked.Write only runs the hooks; zapcore/hook.go)
func c14wrapsOK(ws []c14with) bool {
	hooked := false
	for _, w := range ws {
		if w.wrap == c14WFwd && hooked {
			return false
		}
		if w.wrap == c14WHook {
			hooked = true
		}
	}
	return true
}

type c14fatalHook struct{ hit *bool }
type c14fatalSentinel struct{}

func (h c14fatalHook) OnWrite(*zapcore.CheckedEntry, []zapcore.Field) {
	*h.hit = true
	panic(c14fatalSentinel{})
}

func c14call(s *zap.SugaredLogger, c *c14case) {
	lvl := zapcore.Level(c.lvl)
	named := !c.generic && c.lvl >= -1 && c.lvl <= 5
	switch c.fam {
	case 0:
		if named {
			[]func(string, ...interface{}){s.Debugw, s.Infow, s.Warnw, s.Errorw, s.DPanicw, s.Panicw, s.Fatalw}[c.lvl+1](c.text, c.args...)
		} else {
			s.Logw(lvl, c.text, c.args...)
		}
	case 1:
		if named {
			[]func(...interface{}){s.Debug, s.Info, s.Warn, s.Error, s.DPanic, s.Panic, s.Fatal}[c.lvl+1](c.args...)
		} else {
			s.Log(lvl, c.args...)
		}
	case 2:
		if named {
			[]func(string, ...interface{}){s.Debugf, s.Infof, s.Warnf, s.Errorf, s.DPanicf, s.Panicf, s.Fatalf}[c.lvl+1](c.text, c.args...)
		} else {
			s.Logf(lvl, c.text, c.args...)
		}
	default:
		if named {
			[]func(...interface{}){s.Debugln, s.Infoln, s.Warnln, s.Errorln, s.DPanicln, s.Panicln, s.Fatalln}[c.lvl+1](c.args...)
		} else {
			s.Logln(lvl, c.args...)
		}
	}
}

// run the real SugaredLogger: (term, entries, text of an unexpected panic)
func c14run(c *c14case) (term int, entries []observer.LoggedEntry, crash string) {
	var enab zapcore.LevelEnabler
	var atom zap.AtomicLevel
	cur := c.en.set // state read by the LevelEnablerFunc
	switch c.en.kind {
	case c14EnLevel:
		enab = zapcore.Level(c.en.min)
	case c14EnAtomic:
		atom = zap.NewAtomicLevelAt(zapcore.Level(c.en.min))
		enab = atom
	default:
		enab = zap.LevelEnablerFunc(func(l zapcore.Level) bool {
			for _, x := range cur {
				if x == int(l) {
					return true
				}
			}
			return false
		})
	}
	core, logs := observer.New(enab)
	fatal := false
	opts := []zap.Option{zap.WithFatalHook(c14fatalHook{&fatal})}
	if c.dev {
		opts = append(opts, zap.Development())
	}
	func() {
		defer func() {
			if r := recover(); r != nil {
				_, isRT := r.(runtime.Error)
				sp, isSetup := r.(c14setupPanic)
				switch {
				case fatal:
					term = 2
				case isRT:
					term = 3
					crash = fmt.Sprint(r)
				case isSetup:
					term = 3
					crash = sp.msg
				default:
					term = 1
				}
			}
		}()
		s := zap.New(core, opts...).Sugar()
		var nfwd, nhook int
		for _, w := range c.withs {
			if w.wrap != 0 {
				s = s.WithOptions(zap.WrapCore(c14wrap(w.wrap, enab, &nfwd, &nhook)))
				continue
			}
			if w.set != nil {
				if c.en.kind == c14EnAtomic {
					atom.SetLevel(zapcore.Level(w.set.min))
				} else {
					cur = w.set.set
				}
				continue
			}
			if w.lazy {
				s = s.WithLazy(w.args...)
			} else {
				s = s.With(w.args...)
			}
		}
		c14call(s, c)
	}()
	return term, logs.All(), crash
}

func c14args(vs []interface{}) SX {
	out := make([]SX, len(vs))
	for i, v := range vs {
		out[i] = c14desc(v)
	}
	return L(out...)
}

func c14emit(ctx *Ctx, c *c14case, class string) {
	// fmt oracles: direct calls, never through zap
	sprint, sprintf, sprintln := "", "", "\n"
	if c.fam != 0 {
		sprint = fmt.Sprint(c.args...)
		sprintf = fmt.Sprintf(c.text, c.args...)
		sprintln = fmt.Sprintln(c.args...)
		// assumption monitors for the fmt facts getMessage's shortcuts rely on
		if len(c.args) == 0 && sprint != "" {
			ctx.Assume("fmt.Sprint() is not empty")
		}
		if len(c.args) == 1 {
			if s, ok := c.args[0].(string); ok && sprint != s {
				ctx.Assume("fmt.Sprint(s) differs from s for a single string")
			}
		}
		if !strings.HasSuffix(sprintln, "\n") {
			ctx.Assume("fmt.Sprintln output does not end in a newline")
		}
	}
	withs := make([]SX, len(c.withs))
	nargs, kinds := len(c.args), map[int]bool{}
	nwith := 0
	nwrap := 0
	if !c14wrapsOK(c.withs) {
		panic("c14: generator produced a forwarder above a hooked core")
	}
	for i, w := range c.withs {
		if w.wrap != 0 {
			withs[i] = L(I(2), I(w.wrap-1))
			nwrap++
			continue
		}
		if w.set != nil {
			withs[i] = L(I(1), w.set.sx())
			continue
		}
		nwith++
		withs[i] = L(I(0), Bool(w.lazy), c14args(w.args))
		nargs += len(w.args)
		for _, a := range w.args {
			kinds[c14kind(a)] = true
		}
	}
	if c.fam == 0 {
		for _, a := range c.args {
			kinds[c14kind(a)] = true
		}
	}
	input := L(c.en.sx(), Bool(c.dev), L(withs...),
		L(I(c.fam), I(c.lvl), Str(c.text), c14args(c.args), Str(sprint), Str(sprintf), Str(sprintln), Bool(c.generic)))

	term, entries, crash := c14run(c)
	es := make([]SX, len(entries))
	for i, e := range entries {
		fs := make([]SX, len(e.Context))
		for j, f := range e.Context {
			fs[j] = c14field(f)
		}
		es[i] = L(I(int(e.Level)), Str(e.Message), L(fs...))
	}
	meta := map[string]string{"class": class, "fam": strconv.Itoa(c.fam), "lvl": strconv.Itoa(c.lvl), "n": strconv.Itoa(nargs),
		"en": strconv.Itoa(c.en.kind)}
	if nwrap > 0 {
		meta["wrap"] = strconv.Itoa(nwrap)
	}
	nt := "0"
	if (c.fam == 0 || nwith > 0) && nargs >= 3 && len(kinds) >= 2 {
		nt = "1"
	}
	if c.fam != 0 && len(c.args) >= 1 {
		nt = "1"
	}
	meta["nt"] = nt
	if c.fam == 2 && c.text == "" && len(c.args) > 0 {
		meta["kf"] = "sugar-empty-template-with-args"
	}
	ctx.Emit(input, L(I(term), L(es...)), meta)
	if term == 3 {
		ctx.Viol("run-time panic escaped from the SugaredLogger: "+crash, input)
	}
}

// ---------------------------------------------------------------- generators
var c14errs = []error{
	&c14Err{1}, &c14Err{2}, c14ValErr{"boom"}, c14ObjErr{7}, c14StrErr{"x"}, (*c14Err)(nil),
	errors.New("plain"), fmt.Errorf("wrapped: %w", errors.New("inner")),
}
var c14keys = []string{"k", "key", "", "error", "ignored", "a b", "kéy", "invalid", "x\x00y", "line\n", "\n"}

func c14fields() []zap.Field {
	return []zap.Field{
		zap.Int("i", 42), zap.String("s", "v"), zap.Bool("b", true), zap.Skip(), zap.Namespace("ns"),
		zap.Error(&c14Err{9}), zap.NamedError("ne", c14ValErr{"ve"}), zap.Any("any", c14Struct{1, "x"}),
		zap.Object("obj", c14Obj{1, "o"}), zap.Ints("ints", []int{1, 2}), zap.Duration("d", time.Second),
		zap.Float64("f", 1.5), zap.Binary("bin", []byte{0, 1}), zap.Stringer("str", c14Stringer{"q"}),
		{}, {Key: "raw", Type: zapcore.FieldType(200), Integer: -5, String: "s", Interface: 7},
		zap.String("error", "not an error"), zap.Reflect("nil", nil), zap.Inline(c14Obj{2, "in"}),
	}
}

func c14others() []interface{} {
	one, str := 1, "ps"
	fld := zap.Int("ptr", 1)
	return []interface{}{
		nil, 0, 42, -1, int8(-8), int16(16), int32(32), int64(math.MinInt64), uint(7), uint8(8), uint16(16), uint32(32),
		uint64(math.MaxUint64), uintptr(99), 1.5, math.NaN(), math.Inf(-1), float32(2.5), complex(1, -2), complex64(complex(3, 4)),
		true, false, []byte("bytes"), []byte(nil), []int{1, 2, 3}, []string{"a", "b"}, []interface{}{1, "a", nil},
		map[string]int{"b": 2, "a": 1}, c14Struct{1, "s"}, &c14Struct{2, "p"}, (*c14Struct)(nil), &one, (*int)(nil), &str,
		time.Duration(1500), time.Date(2020, 1, 2, 3, 4, 5, 6, time.UTC), time.Date(3000, 1, 1, 0, 0, 0, 0, time.UTC),
		c14NamedStr("named"), c14NamedInt(5), c14Stringer{"st"}, c14Obj{3, "ob"}, c14Arr{4, 5}, &fld, []zap.Field{zap.Int("in", 1)},
		[]error{errors.New("e1"), nil}, struct{}{}, [2]int{1, 2},
	}
}

type c14gen struct {
	r      *RNG
	fields []zap.Field
	others []interface{}
}

func (g *c14gen) pick(kind int) interface{} {
	switch kind {
	case c14KField:
		return g.fields[g.r.Intn(len(g.fields))]
	case c14KErr:
		return c14errs[g.r.Intn(len(c14errs))]
	case c14KStr:
		return c14keys[g.r.Intn(len(c14keys))]
	default:
		return g.others[g.r.Intn(len(g.others))]
	}
}

// any value at all (for value positions and fmt arguments)
func (g *c14gen) any() interface{} {
	x := g.r.Intn(100)
	switch {
	case x < 12:
		return g.pick(c14KField)
	case x < 26:
		return g.pick(c14KErr)
	case x < 48:
		return g.pick(c14KStr)
	default:
		return g.pick(c14KOther)
	}
}

// an argument list of length n; style 0 mostly well formed pairs, 1 hostile mix, 2 uniform over kinds
func (g *c14gen) list(n, style int) []interface{} {
	var out []interface{}
	for len(out) < n {
		switch style {
		case 0:
			x := g.r.Intn(100)
			switch {
			case x < 65:
				out = append(out, g.pick(c14KStr), g.any())
			case x < 80:
				out = append(out, g.pick(c14KField))
			case x < 90:
				out = append(out, g.pick(c14KErr))
			default:
				out = append(out, g.pick(c14KOther))
			}
		case 1:
			out = append(out, g.any())
		default:
			out = append(out, g.pick(g.r.Intn(4)))
		}
	}
	return out[:n]
}

func c14allOn() [7]bool { return [7]bool{true, true, true, true, true, true, true} }

func (g *c14gen) mask() [7]bool {
	x := g.r.Intn(100)
	switch {
	case x < 65:
		return c14allOn()
	case x < 88:
		min := g.r.Range(-1, 5)
		var m [7]bool
		for l := -1; l <= 5; l++ {
			m[l+1] = l >= min
		}
		return m
	default:
		var m [7]bool
		for i := range m {
			m[i] = g.r.Bool()
		}
		return m
	}
}

// levels used for enabler sets and for calls at custom levels: the named ones, the zapr/logr
// verbosity levels just below Debug, the first ones above Fatal, and the ends of int8
var c14levels = []int{-128, -4, -3, -2, -1, 0, 1, 2, 3, 4, 5, 6, 7, 8, 127}

func (g *c14gen) threshold() int {
	x := g.r.Intn(100)
	switch {
	case x < 70:
		return g.r.Range(-4, 7)
	case x < 80:
		return -128
	case x < 88:
		return 127
	default:
		return g.r.Range(-128, 127)
	}
}

func (g *c14gen) funcSet() []int {
	var set []int
	for _, l := range c14levels {
		if g.r.Bool() {
			set = append(set, l)
		}
	}
	return set
}

// the core's enabler: a LevelEnablerFunc over the named levels (as before), a LevelEnablerFunc over
// an arbitrary subset of c14levels, a plain zapcore.Level, or an AtomicLevel
func (g *c14gen) enab() c14enab {
	x := g.r.Intn(100)
	switch {
	case x < 40:
		return c14maskEn(g.mask())
	case x < 58:
		return c14enab{kind: c14EnFunc, set: g.funcSet()}
	case x < 76:
		return c14enab{kind: c14EnLevel, min: g.threshold()}
	default:
		return c14enab{kind: c14EnAtomic, min: g.threshold()}
	}
}

// a change of the enabler of the same kind (nil for a plain Level, which cannot move)
func (g *c14gen) move(e c14enab) *c14enab {
	switch e.kind {
	case c14EnAtomic:
		return &c14enab{kind: c14EnAtomic, min: g.threshold()}
	case c14EnFunc:
		return &c14enab{kind: c14EnFunc, set: g.funcSet()}
	}
	return nil
}

var c14templates = []string{"", "%d", "%s and %v", "plain", "100%", "%!", "x=%[2]d %[1]v", "témplate %q", "%v %v %v", "\n", "%"}

func c14(ctx *Ctx) {
	g := &c14gen{r: NewRNG(ctx.Seed), fields: c14fields(), others: c14others()}
	e1, e2 := c14errs[0], c14errs[1]
	fl := zap.Int("i", 1)
	info := func(args ...interface{}) *c14case {
		return &c14case{en: c14maskEn(c14allOn()), fam: 0, lvl: 0, text: "msg", args: args}
	}
	// 1. directed corner cases
	directed := [][]interface{}{
		{}, {"k"}, {nil}, {e1}, {e1, e2}, {e1, e2, e1}, {fl}, {"k", fl}, {fl, "k"}, {5, "v"}, {"k", "v", 5}, {e1, "k"}, {"k", e1},
		{c14NamedStr("ns"), 1}, {&fl, 1}, {(*c14Err)(nil)}, {c14ObjErr{1}}, {"k", c14ObjErr{1}}, {c14StrErr{"s"}, c14StrErr{"t"}},
		{"a", 1, "b", 2, "c"}, {1, 2, 3, 4, 5}, {nil, nil}, {nil, nil, nil}, {"k", nil}, {nil, "k"}, {fl, fl, fl}, {"k", "v", e1, 7, 8, e2, fl, "dangling"},
		{1, e1}, {1, fl}, {"k", "v", "k", "w"}, {true, false, "x"}, {[]byte("k"), "v"}, {e1, fl, e2}, {struct{}{}, struct{}{}},
	}
	for _, a := range directed {
		c14emit(ctx, info(a...), "directed")
		c14emit(ctx, &c14case{en: c14maskEn(c14allOn()), withs: []c14with{{lazy: false, args: a}}, fam: 0, lvl: 1, text: "after-with"}, "directed")
		c14emit(ctx, &c14case{en: c14maskEn(c14allOn()), withs: []c14with{{lazy: true, args: a}}, fam: 1, lvl: 0, args: []interface{}{"lazy"}}, "directed")
	}
	// development mode: the diagnostics are written and nothing panics below Panic
	for _, a := range directed[:12] {
		c14emit(ctx, &c14case{en: c14maskEn(c14allOn()), dev: true, fam: 0, lvl: 0, text: "dev", args: a}, "directed-dev")
		c14emit(ctx, &c14case{en: c14maskEn(c14allOn()), dev: true, fam: 0, lvl: 3, text: "dev-dpanic", args: a}, "directed-dev")
	}
	// formatting families, corner cases (the third is the known deviation)
	fmtCorner := []struct {
		text string
		args []interface{}
	}{
		{"", nil}, {"foo", nil}, {"", []interface{}{1, 2}}, {"", []interface{}{"foo"}}, {"%d", []interface{}{1, 2}}, {"%d %d", []interface{}{1}},
		{"", []interface{}{"a", "b"}}, {"", []interface{}{1, "b", 2, 3}}, {"%s", []interface{}{e1}}, {"", []interface{}{nil}}, {"%v", []interface{}{nil}},
		{"", []interface{}{c14NamedStr("x")}}, {"100%", nil}, {"100%", []interface{}{5}}, {"", []interface{}{"a", 1, 2, "b", "c", 3.5}},
	}
	for _, fc := range fmtCorner {
		for fam := 1; fam <= 3; fam++ {
			text := fc.text
			if fam != 2 {
				text = ""
			}
			c14emit(ctx, &c14case{en: c14maskEn(c14allOn()), fam: fam, lvl: 0, text: text, args: fc.args}, "directed-fmt")
		}
	}
	// every method of every family at every level, enabled and disabled, with a malformed list
	for fam := 0; fam <= 3; fam++ {
		for lvl := -2; lvl <= 6; lvl++ {
			for _, generic := range []bool{false, true} {
				for variant := 0; variant < 3; variant++ {
					m := c14allOn()
					if variant == 1 {
						m = [7]bool{}
					}
					if variant == 2 {
						m = [7]bool{false, false, false, true, false, false, false} // only Error
					}
					c := &c14case{en: c14maskEn(m), fam: fam, lvl: lvl, text: "m %v", generic: generic,
						args: []interface{}{"k", 1, e1, e2, 3, 4, "dangling"}}
					c14emit(ctx, c, "methods")
				}
			}
		}
	}
	// the gate against every kind of enabler: plain Levels below Debug, non-monotone LevelEnablerFuncs
	// (sub-Debug and above-Fatal levels included), AtomicLevels -- every family, named method and
	// Log/Logf/Logw/Logln, at every level of c14levels, with a malformed list (so that message,
	// fields and diagnostics are all at stake), directly and through a With-derived child
	bad := []interface{}{fl, "k", 1, e1, e2, 3, 4, "dangling"}
	enablers := []c14enab{
		{kind: c14EnLevel, min: -3}, {kind: c14EnLevel, min: -128}, {kind: c14EnLevel, min: -1}, {kind: c14EnLevel, min: 2},
		{kind: c14EnLevel, min: 6}, {kind: c14EnLevel, min: 127},
		{kind: c14EnFunc, set: c14levels}, {kind: c14EnFunc, set: []int{-2}}, {kind: c14EnFunc, set: []int{-3, -2, 2}},
		{kind: c14EnFunc, set: []int{-128, -2, 1, 7, 127}}, {kind: c14EnFunc, set: []int{-4, 0, 2, 4, 8}},
		{kind: c14EnFunc, set: []int{-128, -3, 3, 5, 6}}, {kind: c14EnFunc, set: []int{7, 127}}, {kind: c14EnFunc},
		{kind: c14EnAtomic, min: -3}, {kind: c14EnAtomic, min: -128}, {kind: c14EnAtomic, min: 0}, {kind: c14EnAtomic, min: 7},
	}
	for ei, en := range enablers {
		for li, lvl := range c14levels {
			for fam := 0; fam <= 3; fam++ {
				for _, generic := range []bool{true, false} {
					if !generic && (lvl < -1 || lvl > 5) {
						continue
					}
					c := &c14case{en: en, fam: fam, lvl: lvl, text: "g %v", generic: generic, args: bad, dev: (ei+li+fam)%5 == 0}
					if (ei+li+fam)%2 == 1 {
						c.withs = []c14with{{lazy: (ei+li)%3 == 0, args: []interface{}{"ctx", ei, 7, 8}}}
					}
					c14emit(ctx, c, "gate")
				}
			}
		}
	}
	// the enabler moves during the history: loggers derived before the move must follow it
	moves := []int{-128, -3, -1, 0, 2, 3, 6, 127}
	n := 0
	for _, from := range moves {
		for _, to := range moves {
			for _, lvl := range c14levels {
				n++
				a0, a1 := c14enab{kind: c14EnAtomic, min: from}, c14enab{kind: c14EnAtomic, min: to}
				// With under the first level, move, call
				c14emit(ctx, &c14case{en: a0, fam: n % 4, lvl: lvl, text: "mv %v", generic: n%3 != 0, args: bad,
					withs: []c14with{{lazy: n%2 == 0, args: []interface{}{"k", 1, e1, e2, "dangling"}}, {set: &a1}}}, "gate-move")
			}
		}
	}
	for li, lvl := range c14levels {
		for fam := 0; fam <= 3; fam++ {
			at := func(m int) *c14enab { return &c14enab{kind: c14EnAtomic, min: m} }
			fs := func(ls ...int) *c14enab { return &c14enab{kind: c14EnFunc, set: ls} }
			w := c14with{lazy: li%2 == 0, args: []interface{}{5, "v", "k", li, e1, e2}}
			// diagnostics of the first With visible, of the second dropped (Error disabled at that time), then moved again
			c14emit(ctx, &c14case{en: *at(-3), fam: fam, lvl: lvl, text: "h %v", generic: true, args: bad,
				withs: []c14with{w, {set: at(3)}, w, {set: at(-2)}}}, "gate-move")
			c14emit(ctx, &c14case{en: *at(1), fam: fam, lvl: lvl, text: "h %v", generic: true, args: bad,
				withs: []c14with{{set: at(-128)}, w, {set: at(5)}, {set: at(-4)}}}, "gate-move")
			c14emit(ctx, &c14case{en: *fs(0, 1, 2), fam: fam, lvl: lvl, text: "h %v", generic: true, args: bad,
				withs: []c14with{w, {set: fs(-2, 7)}, w, {set: fs(-128, -3, -2, 2, 6, 127)}}}, "gate-move")
			c14emit(ctx, &c14case{en: *fs(-3, -2, -1, 0, 1, 2, 3, 4, 5, 6, 7), fam: fam, lvl: lvl, text: "h %v", generic: true, args: bad,
				withs: []c14with{w, {set: fs(2)}}}, "gate-move")
		}
	}
	// the core composition: With / WithLazy under, between and above wrapping cores installed with
	// WithOptions(WrapCore(..)) -- self-registering forwarders (the only cores that call Write on the core
	// they wrap: a lazyWithCore below one is reached through its Write method), embedding wrappers, Tee,
	// RegisterHooks, IncreaseLevel; the recorded entries must carry exactly the flat model's context
	wr := func(kinds ...int) []c14with {
		out := make([]c14with, len(kinds))
		for i, k := range kinds {
			out[i] = c14with{wrap: k}
		}
		return out
	}
	cat := func(parts ...[]c14with) []c14with {
		var out []c14with
		for _, p := range parts {
			out = append(out, p...)
		}
		return out
	}
	type c14comp struct{ pre, post []c14with }
	comps := []c14comp{
		{nil, wr(c14WFwd)}, {wr(c14WFwd), wr(c14WFwd)}, {nil, wr(c14WFwd, c14WFwd)}, {wr(c14WTee), wr(c14WFwd)},
		{wr(c14WFilter), wr(c14WFwd)}, {nil, wr(c14WFwd, c14WHook)}, {wr(c14WDeleg), wr(c14WFwd, c14WDeleg)},
		{wr(c14WTeeL), wr(c14WFilter, c14WFwd)}, {nil, wr(c14WDeleg, c14WFwd)}, {nil, wr(c14WTee, c14WFwd, c14WTeeL)},
		{wr(c14WFwd), nil}, {nil, wr(c14WDeleg)}, {nil, wr(c14WTee)}, {nil, wr(c14WHook)}, {nil, wr(c14WFilter)},
		{wr(c14WHook), wr(c14WDeleg)}, {wr(c14WFwd, c14WHook), wr(c14WTee)},
	}
	ctxArgs := []interface{}{"k", 1, fl, e1, "s", "v"}
	for ai, a := range directed {
		for ci, cp := range comps {
			for _, lazy := range []bool{true, false} {
				fam := (ai + ci) % 4
				c := &c14case{en: c14maskEn(c14allOn()), fam: fam, lvl: (ai + ci) % 3, text: "wrap %v",
					withs: cat(cp.pre, []c14with{{lazy: lazy, args: a}}, cp.post)}
				if fam == 0 {
					c.args = []interface{}{"y", 4, "dangling"}
				} else {
					c.args = []interface{}{"p", ai}
				}
				c14emit(ctx, c, "wrap")
			}
		}
		// two derivations with a wrapper between and above them: lazy/eager in every order
		for v := 0; v < 4; v++ {
			c14emit(ctx, &c14case{en: c14maskEn(c14allOn()), fam: 0, lvl: 1, text: "wrap2", args: a,
				withs: cat([]c14with{{lazy: v&1 == 1, args: ctxArgs}}, wr(c14WFwd), []c14with{{lazy: v&2 == 2, args: a}}, wr(c14WFwd))}, "wrap")
		}
	}
	// every method of every family at every level through WithLazy / With + forwarder compositions,
	// malformed context (its diagnostics are written through the wrappers installed so far) and a malformed call
	for li, lvl := range c14levels {
		for fam := 0; fam <= 3; fam++ {
			for _, generic := range []bool{true, false} {
				if !generic && (lvl < -1 || lvl > 5) {
					continue
				}
				for ci, cp := range comps[:10] {
					if (ci+li+fam)%3 != 0 && ci > 1 {
						continue
					}
					for _, lazy := range []bool{true, false} {
						c14emit(ctx, &c14case{en: c14enab{kind: (li + ci) % 3, set: c14levels, min: -128}, fam: fam, lvl: lvl, text: "wm %v",
							generic: generic, args: bad, dev: (ci+li)%7 == 0,
							withs: cat(cp.pre, []c14with{{lazy: lazy, args: []interface{}{"k", 1, e1, e2, fl, 7, 8, "dangling"}}}, cp.post)}, "wrap-methods")
					}
				}
			}
		}
	}
	// 2. exhaustive: every sequence over {field, error, string, other, nil} up to length K through Infow
	K := 5
	if ctx.Thorough {
		K = 6
	}
	var rec func(prefix []int)
	rec = func(prefix []int) {
		args := make([]interface{}, len(prefix))
		for i, k := range prefix {
			switch k {
			case 4:
				args[i] = nil
			case c14KField:
				args[i] = g.fields[(i*3+len(prefix))%len(g.fields)]
			case c14KErr:
				args[i] = c14errs[(i+len(prefix))%len(c14errs)]
			case c14KStr:
				args[i] = c14keys[(i*2+len(prefix))%len(c14keys)]
			default:
				args[i] = g.others[1+(i*5+len(prefix))%(len(g.others)-1)]
			}
		}
		c14emit(ctx, info(args...), "exh")
		if len(prefix) < K {
			for k := 0; k < 5; k++ {
				rec(append(append([]int(nil), prefix...), k))
			}
		}
	}
	rec(nil)
	// 3. random programs
	N := 2500
	if ctx.Thorough {
		N = 50000
	}
	maxLen := 12
	if ctx.Thorough {
		maxLen = 40
	}
	for k := 0; k < N; k++ {
		c := &c14case{en: g.enab(), dev: g.r.Chance(15)}
		// 40% of the programs run over a composed core: wrappers before, between and after the derivations
		wrapPct, hooked := 0, false
		if g.r.Chance(40) {
			wrapPct = 25 + g.r.Intn(50)
		}
		wraps := func() {
			for n := 0; n < 3 && g.r.Chance(wrapPct); n++ {
				k := c14WFwd
				if g.r.Chance(50) {
					k = g.r.Range(c14WFwd, c14WTeeL)
				}
				if k == c14WFwd && hooked {
					k = c14WDeleg
				}
				hooked = hooked || k == c14WHook
				c.withs = append(c.withs, c14with{wrap: k})
			}
		}
		wraps()
		nw := g.r.Intn(3)
		if wrapPct > 0 && nw == 0 {
			nw = 1
		}
		for ; nw > 0 && (wrapPct > 0 || g.r.Chance(60)); nw-- {
			if mv := g.move(c.en); mv != nil && g.r.Chance(30) {
				c.withs = append(c.withs, c14with{set: mv})
			}
			c.withs = append(c.withs, c14with{lazy: g.r.Bool(), args: g.list(g.r.Intn(7), g.r.Intn(3))})
			wraps()
		}
		if mv := g.move(c.en); mv != nil && g.r.Chance(25) {
			c.withs = append(c.withs, c14with{set: mv})
		}
		c.lvl = g.r.Range(-1, 5)
		c.generic = g.r.Chance(35)
		if c.generic && g.r.Chance(50) {
			switch y := g.r.Intn(10); {
			case y < 6:
				c.lvl = c14levels[g.r.Intn(len(c14levels))]
			case y < 9:
				c.lvl = g.r.Range(-4, 8)
			default:
				c.lvl = g.r.Range(-128, 127)
			}
		}
		x := g.r.Intn(100)
		class := ""
		switch {
		case x < 58:
			c.fam, c.text = 0, "msg"+strconv.Itoa(k%7)
			style := g.r.Intn(3)
			n := g.r.Intn(maxLen + 1)
			c.args = g.list(n, style)
			class = "rand-w" + strconv.Itoa(style)
		case x < 72:
			c.fam, class = 1, "rand-print"
		case x < 87:
			c.fam, class = 2, "rand-f"
			c.text = c14templates[g.r.Intn(len(c14templates))]
		default:
			c.fam, class = 3, "rand-ln"
		}
		if c.fam != 0 {
			n := g.r.Intn(5)
			for j := 0; j < n; j++ {
				c.args = append(c.args, g.any())
			}
		}
		c14emit(ctx, c, class)
	}
}

func init() { registry["C14"] = c14 }

package main

// C08: EDGE PRELUDES AND CONCURRENT BURSTS (seed c08h).
//
// Every other probe of the history test runs on ONE goroutine (its active sinks and companions log on
// other goroutines, but between zap's own calls).  A goroutine holds at most one stacktrace.Stack at a
// time, and only inside Logger.check / stacktrace.Take, where no user code runs: a pooled Stack that
// sits in _stackPool TWICE (returned twice by one call) is invisible to all of them - the second copy
// is only ever handed out after the first came back.  It shows when TWO goroutines are inside
// Logger.check at the same time: both capture into the same storage and share one frame iterator, so
// a line names the call site of another goroutine's logger, loses its caller, writes a spurious
// "failed to get caller" to its error output, or the call panics.
//
// The vocabulary therefore has
//   - a history operation (kind 21, EDGE PRELUDE): a logger whose AddCallerSkip lies far beyond the
//     depth of the stack logs 1..64 entries (the one way to reach the `stack.Count() == 0` return of
//     Logger.check), through Info / Sugar / Check+Write / a With child / WithOptions, JSON and
//     console, AddCaller and / or AddStacktrace, optionally followed by ONE runtime.GC() (the pooled
//     objects then sit in sync.Pool's victim cache and are still handed out);
//   - a probe (CONCURRENT BURST): twelve workers (A-H with zap's built-in metadata callbacks; I-L, added for seed
//     c08j, with callbacks that record nested arrays / objects in the console encoder's pooled column collector,
//     c08_nested.go), each with a logger, sinks and a call-site function
//     of its own (JSON / console, AddCaller, AddStacktrace, both, sugar, zap.Stack, a With + Named
//     child, Check + Write over a tee, a deeper stack), all logging the SAME entry.  Each worker first
//     makes its call ALONE (one after the other, each on a goroutine of its own): these twelve
//     reference lines are the probe's bytes.  Then 2..8 of the workers make the same call a few
//     hundred to a few thousand times CONCURRENTLY; every line must equal the line the same call
//     produced alone, nothing may reach an error output, no call may panic (recovered and recorded).
//     On a correct tree the probe's bytes are the eight reference lines plus a fixed "all equal"
//     record, whatever the size of the burst - so the fresh-state bytes (taken, like those of every
//     probe, after two collections and in a fresh child process) are the oracle's reference for every
//     later observation, and any deviation is part of the observed bytes.
//
// sync.Pool drops its contents when GOMAXPROCS changes, and the history test runs under
// GOMAXPROCS(1) most of the time (certain LIFO reuse): the directed EDGE stage (c08EdgeStage) sets the
// number of Ps FIRST, then runs history and probe - default, 4, 2 and 1 P (with one P the workers are
// only ever interleaved by the scheduler's time slices and their own runtime.Gosched calls).

import (
	"bytes"
	"fmt"
	"runtime"
	"strconv"
	"strings"
	"sync"
	"sync/atomic"
	"time"

	"go.uber.org/zap"
	"go.uber.org/zap/zapcore"
)

const c08KEdge = 21

// ---------- the edge prelude ----------

// set by the directed stage: (variant, number of entries, one GC afterwards)
var c08EdgePlan *[3]int

const c08NEdgeVariants = 2 * 3 * 5 * 3 // console x {caller, stack, both} x call style x skip

func c08EdgeLabel(variant, n int, gc bool) string {
	console, what, style, skip := c08EdgeSplit(variant)
	enc := "json"
	if console {
		enc = "console"
	}
	g := 0
	if gc {
		g = 1
	}
	return fmt.Sprintf("edge-prelude.%s.%s.%s.skip-%d.n-%d.gc-%d", enc, [3]string{"caller", "stack", "caller+stack"}[what],
		[5]string{"info", "sugar", "check-write", "with-child", "with-options"}[style], skip, n, g)
}

func c08EdgeSplit(variant int) (console bool, what, style, skip int) {
	variant %= c08NEdgeVariants
	return variant%2 == 1, (variant / 2) % 3, (variant / 6) % 5, [3]int{1000, 150, 1 << 20}[(variant/30)%3]
}

// the abstract history item: a Logger call with caller / stack capture on a goroutine whose stack has
// no frame left after the skip (depth 0: the model's `stack.Count() == 0` path); elements ten and eleven
// (2 * entries + gc, label) are kept for the replay and not read by the model
func c08EdgeAbs(variant, n int, gc bool, a, b int) SX {
	_, what, _, _ := c08EdgeSplit(variant)
	g := 0
	if gc {
		g = 1
	}
	return L(I(3), I(a), I(b), I(0), I(0), I(0), I([3]int{2, 4, 6}[what]+8*0), I(0), I(0), I(2*n+g), sz{c08EdgeLabel(variant, n, gc)})
}

// n entries through a logger whose caller skip overshoots the stack; what reaches its sinks is checked
// (every entry is written, without caller and stack; with AddCaller the error output is told n times)
func c08EdgeOp(sc *c08Scope, variant, n int, gc bool, a, b int) (unexpected string) {
	console, what, style, skip := c08EdgeSplit(variant)
	var opts []zap.Option
	if what != 1 {
		opts = append(opts, zap.AddCaller())
	}
	if what != 0 {
		opts = append(opts, zap.AddStacktrace(zapcore.DebugLevel))
	}
	if style != 4 {
		opts = append(opts, zap.AddCallerSkip(skip))
	}
	lg, s1, _, es := c08Logger(sc, 0, console, false, false, opts...)
	fs := c08Fields(a, b, 0, 0, 0, 0, 0)
	child := lg.With(zap.Int("ctx", 1)).Named("edge")
	for i := 0; i < n; i++ {
		switch style {
		case 0:
			lg.Info("no caller available", fs...)
		case 1:
			lg.Sugar().Infow("no caller available", "a", a, "b", b)
		case 2:
			if ce := lg.Check(zapcore.WarnLevel, "no caller available"); ce != nil {
				ce.Write(fs...)
			}
		case 3:
			child.Error("no caller available", fs...)
		default:
			lg.WithOptions(zap.AddCallerSkip(skip)).Info("no caller available", fs...)
		}
	}
	if gc {
		runtime.GC()
	}
	lines := bytes.Count(s1.Bytes(), []byte("\n"))
	told := bytes.Count(es.Bytes(), []byte("Logger.check error: failed to get caller\n"))
	wantTold := 0
	if what != 1 {
		wantTold = n
	}
	switch {
	case lines != n:
		return fmt.Sprintf("%s: %d lines for %d entries, first bytes %s", c08EdgeLabel(variant, n, gc), lines, n, c08Clip(s1.Bytes()))
	case told != wantTold || bytes.Count(es.Bytes(), []byte("\n")) != wantTold:
		return fmt.Sprintf("%s: the error output received %d caller failures (%d expected): %s", c08EdgeLabel(variant, n, gc), told, wantTold, c08Clip(es.Bytes()))
	case bytes.Contains(s1.Bytes(), []byte("c08_")) || bytes.Contains(s1.Bytes(), []byte("main.")):
		return fmt.Sprintf("%s: a logger whose caller skip overshoots the stack named a call site: %s", c08EdgeLabel(variant, n, gc), c08Clip(s1.Bytes()))
	}
	return ""
}

func c08EdgeHistOp(sc *c08Scope, r *RNG, a, b int, quiet func(func())) (desc SX, class string, unexpected string) {
	variant, n, gc := r.Intn(c08NEdgeVariants), 1+r.Intn(64), r.Chance(35)
	if r.Chance(40) {
		n = 1 + r.Intn(4)
	}
	if pl := c08EdgePlan; pl != nil {
		variant, n, gc = pl[0], pl[1], pl[2] == 1
	}
	quiet(func() { unexpected = c08EdgeOp(sc, variant, n, gc, a, b) })
	return c08EdgeAbs(variant, n, gc, a, b), "u", unexpected
}

// ---------- the concurrent burst ----------

// size of the next burst (nil: a small one): g workers, n calls each, a runtime.Gosched() after every
// yield-th call (0: never)
type c08BurstCfg struct{ g, n, yield, first int }

var c08BurstPlan *c08BurstCfg

// a sink that compares every line with the line the same call produced alone
type c08LineSink struct {
	sc    *c08Scope
	act   int
	quiet bool // an error output: nothing is expected at all
	burst bool // false: the reference call, what arrives is recorded; true: it is compared with want
	want  []byte
	ref   []byte
	n     int
	bad   int
	first string
}

func (s *c08LineSink) Write(p []byte) (int, error) {
	if s.sc != nil && s.sc.retired.Load() {
		c08StaleAdd("a sink of " + s.sc.label + ", which ended earlier, received " + c08Clip(p))
	}
	after := func() {}
	if s.act != 0 {
		after = c08Nested(s.act, len(p))
	}
	s.n++
	switch {
	case !s.burst:
		s.ref = append(s.ref, p...)
	case !bytes.Equal(p, s.want):
		s.bad++
		if s.first == "" {
			if s.quiet {
				s.first = "received " + c08Clip(p)
			} else {
				s.first = fmt.Sprintf("write no. %d: %s", s.n, c08DiffDesc(s.want, p))
			}
		}
	}
	after()
	return len(p), nil
}
func (*c08LineSink) Sync() error { return nil }

type c08Worker struct {
	name   string
	site   func(w *c08Worker)
	lg     *zap.Logger
	sg     *zap.SugaredLogger
	sinks  []*c08LineSink // the output sinks, then the error output
	calls  atomic.Int64   // calls begun (read by the watchdog of the burst)
	done   atomic.Bool
	panics int
	firstP string
}

// A log call that never returns (Capture's growth loop on a Stack whose pcs another goroutine has just
// cleared does not terminate) cannot be recovered: the burst gives every call c08HangTicks ticks of a
// watchdog that sleeps 100 ms per tick (a starved process stretches the ticks, never shortens them),
// records the worker as hung and the run ends after the case has been emitted.
const c08HangTicks = 150

var c08Hung atomic.Bool

var c08BurstFields = []zapcore.Field{zap.Int("n", 42), zap.String("k", "v")}

// eight call sites, one function each: a line that names another worker's function is wrong
//
//go:noinline
func c08SiteA(w *c08Worker) { w.lg.Info("same entry", c08BurstFields...) }

//go:noinline
func c08SiteB(w *c08Worker) { w.lg.Info("same entry", c08BurstFields...) }

//go:noinline
func c08SiteC(w *c08Worker) { w.lg.Info("same entry", c08BurstFields...) }

//go:noinline
func c08SiteD(w *c08Worker) { w.sg.Infow("same entry", "n", 42, "k", "v") }

//go:noinline
func c08SiteE(w *c08Worker) {
	w.lg.Info("same entry", zap.Int("n", 42), zap.String("k", "v"), zap.Stack("st"))
}

//go:noinline
func c08SiteF(w *c08Worker) { w.lg.Warn("same entry", c08BurstFields...) }

//go:noinline
func c08SiteG(w *c08Worker) {
	if ce := w.lg.Check(zapcore.InfoLevel, "same entry"); ce != nil {
		ce.Write(c08BurstFields...)
	}
}

//go:noinline
func c08SiteH(w *c08Worker) { c08Deep(12, func() { w.lg.Error("same entry", c08BurstFields...) }) }

//go:noinline
func c08SiteI(w *c08Worker) { w.lg.Info("same entry", c08BurstFields...) }

//go:noinline
func c08SiteJ(w *c08Worker) { w.lg.Warn("same entry", c08BurstFields...) }

//go:noinline
func c08SiteK(w *c08Worker) { w.lg.Error("same entry", c08BurstFields...) }

//go:noinline
func c08SiteL(w *c08Worker) {
	w.lg.Info("same entry", zap.Int("n", 42), zap.String("k", "v"), zap.Duration("d", 1500*time.Millisecond))
}

// eight workers with zap's built-in metadata callbacks, four whose callbacks record nested arrays / objects
// in the console encoder's pooled column collector (c08_nested.go)
const c08NWorkers = 12

func c08NewWorkers(sc *c08Scope, act int) []*c08Worker {
	var cfg func() zapcore.EncoderConfig
	mk := func(name string, site func(*c08Worker), console, tee bool, derive func(*zap.Logger) *zap.Logger, opts ...zap.Option) *c08Worker {
		w := &c08Worker{name: name, site: site}
		c08Cfg := c08Cfg
		if cfg != nil {
			c08Cfg = cfg
		}
		sink := func(quiet bool) *c08LineSink {
			s := &c08LineSink{sc: sc, act: act, quiet: quiet}
			w.sinks = append(w.sinks, s)
			return s
		}
		var core zapcore.Core = zapcore.NewCore(c08Enc(console, c08Cfg()), sink(false), zapcore.DebugLevel)
		if tee {
			core = zapcore.NewTee(core, zapcore.NewCore(c08Enc(!console, c08Cfg()), sink(false), zapcore.InfoLevel))
		}
		opts = append([]zap.Option{zap.WithClock(c08Clock{}), zap.ErrorOutput(sink(true))}, opts...)
		w.lg = zap.New(core, opts...)
		if derive != nil {
			w.lg = derive(w.lg)
		}
		w.sg = w.lg.Sugar()
		return w
	}
	all := zap.AddStacktrace(zapcore.DebugLevel)
	ws := []*c08Worker{
		mk("A json caller", c08SiteA, false, false, nil, zap.AddCaller()),
		mk("B console caller+stack", c08SiteB, true, false, nil, zap.AddCaller(), all),
		mk("C json stack", c08SiteC, false, false, nil, all),
		mk("D json sugar caller", c08SiteD, false, false, nil, zap.AddCaller()),
		mk("E console caller stack-field", c08SiteE, true, false, nil, zap.AddCaller()),
		mk("F json with-named-child caller", c08SiteF, false, false, func(l *zap.Logger) *zap.Logger {
			return l.With(zap.Int("ctx", 1), zap.Namespace("ns")).Named("child")
		}, zap.AddCaller()),
		mk("G tee check-write caller+stack", c08SiteG, false, true, nil, zap.AddCaller(), zap.AddStacktrace(zapcore.InfoLevel)),
		mk("H json deep caller+stack", c08SiteH, false, false, nil, zap.AddCaller(), zap.AddStacktrace(zapcore.WarnLevel)),
	}
	nested := func(mask int) { cfg = func() zapcore.EncoderConfig { return c08NestCfg(mask, 0, false) } }
	nested(c08NCaller) // ONE nested array per entry: nothing inside a single call takes the collector's pool twice
	ws = append(ws, mk("I console nested-caller", c08SiteI, true, false, nil, zap.AddCaller()))
	nested(c08NTime | c08NLevel)
	ws = append(ws, mk("J console nested-time+level caller", c08SiteJ, true, false, nil, zap.AddCaller()))
	nested(c08NName | c08NDeep)
	ws = append(ws, mk("K console nested-name-object+deep-caller named-child stack", c08SiteK, true, false, func(l *zap.Logger) *zap.Logger {
		return l.Named("burst").With(zap.Int("ctx", 1))
	}, zap.AddCaller(), zap.AddStacktrace(zapcore.ErrorLevel)))
	nested(c08NMasks - 1)
	ws = append(ws, mk("L tee json+console nested-everything", c08SiteL, false, true, nil, zap.AddCaller()))
	cfg = nil
	return ws
}

// one call; a panic is recovered and recorded
func (w *c08Worker) one() {
	w.calls.Add(1)
	defer func() {
		if e := recover(); e != nil {
			w.panics++
			if w.firstP == "" {
				w.firstP = fmt.Sprintf("call no. %d: %v", w.calls.Load(), e)
			}
		}
	}()
	w.site(w)
}

// waits for the workers; those that made no progress for c08HangTicks ticks are returned
func c08BurstWait(ws []*c08Worker, wg *sync.WaitGroup) (hung []*c08Worker) {
	fin := make(chan struct{})
	go func() { wg.Wait(); close(fin) }()
	last := make([]int64, len(ws))
	idle := make([]int, len(ws))
	for {
		select {
		case <-fin:
			return nil
		case <-time.After(100 * time.Millisecond):
		}
		stuck, running := 0, 0
		for i, w := range ws {
			if w.done.Load() {
				continue
			}
			running++
			if c := w.calls.Load(); c != last[i] {
				last[i], idle[i] = c, 0
			} else if idle[i]++; idle[i] >= c08HangTicks {
				stuck++
			}
		}
		if running > 0 && stuck == running { // everybody who is still running is stuck
			for i, w := range ws {
				if !w.done.Load() && idle[i] >= c08HangTicks {
					hung = append(hung, w)
				}
			}
			if len(hung) > 0 {
				c08Hung.Store(true)
				return hung
			}
		}
	}
}

// the goroutine of a worker, in the reference run and in the burst: the captured stack is
// site <- one <- loop in both
func (w *c08Worker) loop(n, yield int, start <-chan struct{}, wg *sync.WaitGroup) {
	defer wg.Done()
	defer w.done.Store(true)
	<-start
	for i := 0; i < n; i++ {
		w.one()
		if yield > 0 && i%yield == yield-1 {
			runtime.Gosched()
		}
	}
}

func c08BurstRun(sc *c08Scope, act int) []byte {
	cfg := c08BurstCfg{g: 3, n: 100, yield: 16}
	if pl := c08BurstPlan; pl != nil {
		cfg = *pl
	}
	if act != 0 && cfg.n > 40 {
		cfg.n = 40 // every Write of an active sink logs, blocks or yields
	}
	ws := c08NewWorkers(sc, act)
	var out []byte
	// each worker alone
	for _, w := range ws {
		var wg sync.WaitGroup
		start := make(chan struct{})
		wg.Add(1)
		go w.loop(1, 0, start, &wg)
		close(start)
		if hung := c08BurstWait([]*c08Worker{w}, &wg); hung != nil {
			return append(out, []byte(fmt.Sprintf("<%s: the call, made alone, did not return within %d s>", w.name, c08HangTicks/10))...)
		}
		out = append(out, []byte("<"+w.name+":")...)
		for i, s := range w.sinks {
			out = append(out, []byte(fmt.Sprintf("<%d:", i))...)
			out = append(out, s.ref...)
			out = append(out, '>')
			if !s.quiet {
				s.want = s.ref
			}
			s.burst, s.n = true, 0
		}
		if w.panics > 0 {
			out = append(out, []byte(" PANIC "+w.firstP)...)
		}
		out = append(out, '>')
		w.calls.Store(0)
		w.done.Store(false)
		w.panics, w.firstP = 0, ""
	}
	// g of them at the same time
	var wg sync.WaitGroup
	start := make(chan struct{})
	var used []*c08Worker
	pick := make([]*c08Worker, 0, cfg.g+2)
	for i := 0; i < cfg.g && i < len(ws); i++ {
		pick = append(pick, ws[(cfg.first+i)%len(ws)])
	}
	if c08BurstPlan == nil {
		pick = append(pick, ws[8], ws[9]) // the small default burst: A, B, C and two of the nested configurations
	}
	for i, w := range pick {
		used = append(used, w)
		wg.Add(1)
		y := cfg.yield
		if i%2 == 1 && cfg.yield > 0 {
			y = 0 // every other worker never yields: it is interleaved by the scheduler's time slices only
		}
		go w.loop(cfg.n, y, start, &wg)
	}
	close(start)
	var wrong []string
	stuck := map[*c08Worker]bool{}
	for _, w := range c08BurstWait(used, &wg) {
		stuck[w] = true
		wrong = append(wrong, fmt.Sprintf("worker %s: call no. %d of %d did not return within %d s (the goroutine is still running)", w.name, w.calls.Load(), cfg.n, c08HangTicks/10))
	}
	for _, w := range used {
		if stuck[w] {
			continue // its goroutine still owns its counters and sinks
		}
		calls := int(w.calls.Load())
		if w.panics > 0 {
			wrong = append(wrong, fmt.Sprintf("worker %s: %d of %d concurrent calls panicked, first: %s", w.name, w.panics, calls, w.firstP))
		}
		for i, s := range w.sinks {
			switch {
			case s.quiet && s.n > 0:
				wrong = append(wrong, fmt.Sprintf("worker %s: its error output %s", w.name, s.first))
			case s.bad > 0:
				wrong = append(wrong, fmt.Sprintf("worker %s: %d of %d lines on sink %d differ from the line the same call produced alone, first: %s", w.name, s.bad, s.n, i, s.first))
			case !s.quiet && s.n != calls-w.panics:
				wrong = append(wrong, fmt.Sprintf("worker %s: sink %d received %d lines for %d calls (%d panicked)", w.name, i, s.n, calls, w.panics))
			}
		}
	}
	if len(wrong) == 0 {
		return append(out, []byte("<burst: every concurrent line equals the line the same call produced alone, no error output, no panic>")...)
	}
	return append(out, []byte(fmt.Sprintf("<burst of %d workers x %d calls, GOMAXPROCS %d: %s>", len(used), cfg.n, runtime.GOMAXPROCS(0), strings.Join(wrong, "; ")))...)
}

const c08BurstLabel = "concurrent-burst-own-callsites"

func c08BurstProbes(add func(kind int, label string, sx SX, abs SX, run func(sc *c08Scope, act int) []byte)) {
	add(1, c08BurstLabel, nil, c08Abs(3, 2, 0, 0, 0, 0, 6+8*3), c08BurstRun)
}

// ---------- the directed stage ----------

// Number of Ps first (sync.Pool drops its contents when it changes), two collections, a history that
// contains an edge prelude (resp., once per kind, three operations of any other kind), a full-size burst.
func c08EdgeStage(seed uint64, thorough bool, r *RNG, probes []*c08Probe, viol func(string, SX), observe func(p *c08Probe, hist []SX, classes string, class string, act int)) {
	var bp *c08Probe
	for _, p := range probes {
		if p.label == c08BurstLabel {
			bp = p
		}
	}
	if bp == nil {
		return
	}
	prev := runtime.GOMAXPROCS(0)
	defer runtime.GOMAXPROCS(prev)
	defer func() { c08BurstPlan, c08EdgePlan = nil, nil }()
	dflt := runtime.NumCPU()
	if dflt > 8 {
		dflt = 8
	}
	if dflt < 2 {
		dflt = 2
	}
	procs := []int{dflt, 4, 2, 1}
	counts := []int{1, 64, 2, 8, 3, 33, 5, 16}
	run := func(i int, procs int, ops func() ([]SX, string), class string) {
		runtime.GOMAXPROCS(procs)
		runtime.GC()
		runtime.GC()
		hist, cls := ops()
		n := 2500 + 500*((i+int(seed))%5)
		if thorough {
			n *= 4
		}
		yield := 0
		if procs == 1 {
			yield = 64
			n /= 2
		}
		c08BurstPlan = &c08BurstCfg{g: 2 + (i+int(seed))%7, n: n, yield: yield, first: (i * 5) % c08NWorkers}
		observe(bp, hist, cls, class+"-p"+strconv.Itoa(procs), 0)
		c08BurstPlan = nil
	}
	op := func(hist *[]SX, cls *string, k int) {
		h, cl, u := c08HistOp(r, k)
		*hist = append(*hist, h)
		*cls += cl
		if u != "" {
			viol(u, L(I(k), L(*hist...)))
		}
	}
	// edge preludes: every count class x with / without a collection, variants rotating
	rounds := 32
	if thorough {
		rounds = 96
	}
	for i := 0; i < rounds; i++ {
		i := i
		run(i, procs[i%len(procs)], func() (hist []SX, cls string) {
			if i%3 == 1 {
				op(&hist, &cls, r.Intn(5)) // something else first
			}
			n := counts[i%len(counts)]
			if i >= 2*len(counts) {
				n = 1 + r.Intn(64)
			}
			gc := (i / 2) % 2
			c08EdgePlan = &[3]int{(int(seed)*7 + i*11 + r.Intn(3)*30) % c08NEdgeVariants, n, gc}
			op(&hist, &cls, c08KEdge)
			c08EdgePlan = nil
			if i%4 == 3 {
				op(&hist, &cls, r.Intn(5)) // ... and something else afterwards
			}
			return
		}, "edge-burst")
	}
	// the full-size burst after every other kind of history operation too (an object handed back twice by
	// any of them shows the same way)
	for k := 0; k < c08NKinds; k++ {
		if k == c08KEdge || (k >= c08KHugeField && k <= c08KHugeDirect && !thorough && (k+int(seed))%2 == 0) {
			continue
		}
		k := k
		run(k, procs[(k+int(seed))%2], func() (hist []SX, cls string) {
			for rep := 0; rep < 3; rep++ {
				if k == 5 && rep > 0 {
					break
				}
				if k >= c08KHugeField && k <= c08KHugeDirect {
					c08SizePlan = c08HugeSizes[0]
				}
				op(&hist, &cls, k)
				c08SizePlan = 0
			}
			return
		}, "kind-burst")
	}
}

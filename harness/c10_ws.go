package main

// C10: zap's WriteSyncer combinators between an ioCore and its (recording, failing) sinks.
// A sink failure must be contained in its round: whatever zapcore.Lock, zapcore.AddSync,
// zapcore.NewMultiWriteSyncer, zap.CombineWriteSyncers, zap.Open or a BufferedWriteSyncer
// stands between the core and the sink, the NEXT logging calls must return and must deliver
// their entries (to this sink when it works again, and to every other sink).  The leaves of
// the sink cases (kind 1) and of the sequence cases (kind 2) are therefore built over the real
// combinators, in every position, the sequences go on for several entries after each failure
// (transient and permanent), and every logging call runs under a watchdog so that a call that
// does not return is an observation ("blocked", rejected by the oracle) instead of a hung harness.

import (
	"fmt"
	"io"
	"net/url"
	"strconv"
	"sync"
	"time"

	"go.uber.org/zap"
	"go.uber.org/zap/zapcore"
)

// ---------- the WriteSyncer of a leaf ----------
const (
	c10wsSink    = 0 // the recording sink
	c10wsLock    = 1 // zapcore.Lock(w)
	c10wsWriter  = 2 // zapcore.AddSync(io.Writer that is not a WriteSyncer): Sync is a no-op
	c10wsMulti   = 3 // zapcore.NewMultiWriteSyncer(ws...)
	c10wsCombine = 4 // zap.CombineWriteSyncers(ws...)
	c10wsOpen    = 5 // zap.Open(urls of registered sinks...)
	c10wsBuf     = 6 // &zapcore.BufferedWriteSyncer{WS: w, Size: 1}
	c10wsAddSync = 7 // zapcore.AddSync(w) of a WriteSyncer: w itself
)

type c10wsSpec struct {
	kind int
	id   int
	outs []sinkOutcome
	subs []*c10wsSpec
}

func (w *c10wsSpec) sx() SX {
	switch w.kind {
	case c10wsSink:
		return L(I(0), I(w.id), outsSX(w.id, w.outs))
	case c10wsMulti, c10wsCombine, c10wsOpen:
		var subs []SX
		for _, s := range w.subs {
			subs = append(subs, s.sx())
		}
		return L(I(w.kind), L(subs...))
	default:
		return L(I(w.kind), w.subs[0].sx())
	}
}
func (w *c10wsSpec) walk(f func(*c10wsSpec)) {
	f(w)
	for _, s := range w.subs {
		s.walk(f)
	}
}
func (w *c10wsSpec) hasBuf() bool {
	b := false
	w.walk(func(x *c10wsSpec) { b = b || x.kind == c10wsBuf })
	return b
}

// what one case shares between its sinks, the watchdog and the observer
type c10env struct {
	mu       sync.Mutex
	entry    int
	events   []SX
	bytes    bool
	syncFail bool
	closers  []func()
	dead     bool // a logging call never returned: its goroutine still owns the combinators
}

func newC10env(bytes bool) *c10env { return &c10env{bytes: bytes} }
func (e *c10env) begin(k int) {
	e.mu.Lock()
	e.entry = k
	e.events = nil
	e.mu.Unlock()
}
func (e *c10env) snapshot() []SX {
	e.mu.Lock()
	defer e.mu.Unlock()
	return append([]SX(nil), e.events...)
}
func (e *c10env) abandon() { e.dead = true }

// stop the BufferedWriteSyncers and close what zap.Open opened (Stop flushes and syncs through the
// combinators below it); under the watchdog as well: false = it did not return
func (e *c10env) cleanup() bool {
	if e.dead || len(e.closers) == 0 {
		return true // (dead: Stop/Close would wait for the locks the stuck call holds)
	}
	st, _ := c10guard(func() {
		for _, f := range e.closers {
			f()
		}
	})
	return st != 2
}

// an io.Writer that is nothing else
type c10onlyWriter struct{ w io.Writer }

func (o c10onlyWriter) Write(p []byte) (int, error) { return o.w.Write(p) }

// zap.Open: the "c10rec" scheme hands out WriteSyncers built by the case
type c10openSink struct{ zapcore.WriteSyncer }

func (c10openSink) Close() error { return nil }

var (
	c10openSlots sync.Map
	c10openNext  int
	c10openOnce  sync.Once
)

func c10openInit() {
	c10openOnce.Do(func() {
		err := zap.RegisterSink("c10rec", func(u *url.URL) (zap.Sink, error) {
			v, ok := c10openSlots.Load(u.Host)
			if !ok {
				return nil, fmt.Errorf("c10rec: no slot %q", u.Host)
			}
			return c10openSink{v.(zapcore.WriteSyncer)}, nil
		})
		if err != nil {
			panic(err)
		}
	})
}

// build the real WriteSyncer; nestFor gives a sink the unrelated core it logs through during Write
func (w *c10wsSpec) build(env *c10env, nestFor func(id int) zapcore.Core) zapcore.WriteSyncer {
	sub := func(i int) zapcore.WriteSyncer { return w.subs[i].build(env, nestFor) }
	all := func() []zapcore.WriteSyncer {
		var ws []zapcore.WriteSyncer
		for i := range w.subs {
			ws = append(ws, sub(i))
		}
		return ws
	}
	switch w.kind {
	case c10wsSink:
		s := &recSink{id: w.id, outs: w.outs, entry: &env.entry, events: &env.events, bytes: env.bytes, mu: &env.mu, syncFail: &env.syncFail}
		if nestFor != nil {
			s.nest = nestFor(w.id)
		}
		return s
	case c10wsLock:
		return zapcore.Lock(sub(0))
	case c10wsWriter:
		return zapcore.AddSync(c10onlyWriter{sub(0)})
	case c10wsAddSync:
		return zapcore.AddSync(sub(0))
	case c10wsMulti:
		return zapcore.NewMultiWriteSyncer(all()...)
	case c10wsCombine:
		return zap.CombineWriteSyncers(all()...)
	case c10wsOpen:
		c10openInit()
		var urls, keys []string
		for _, s := range all() {
			c10openNext++
			key := "s" + strconv.Itoa(c10openNext)
			c10openSlots.Store(key, s)
			keys = append(keys, key)
			urls = append(urls, "c10rec://"+key)
		}
		ws, closeAll, err := zap.Open(urls...)
		for _, k := range keys {
			c10openSlots.Delete(k)
		}
		if err != nil {
			panic("zap.Open of registered sinks failed: " + err.Error())
		}
		env.closers = append(env.closers, closeAll)
		return ws
	default: // c10wsBuf
		b := &zapcore.BufferedWriteSyncer{WS: sub(0), Size: 1}
		env.closers = append(env.closers, func() { _ = b.Stop() })
		return b
	}
}

// ---------- the watchdog ----------
// 1 = returned, 0 = panicked (message), 2 = did not return within the watchdog's patience
var (
	c10patience     = 10 * time.Second // a logging call into memory takes microseconds
	c10blockedCalls int
)

func c10guard(f func()) (int, string) {
	type res struct {
		st  int
		msg string
	}
	done := make(chan res, 1)
	go func() {
		defer func() {
			if p := recover(); p != nil {
				done <- res{0, fmt.Sprint(p)}
			}
		}()
		f()
		done <- res{1, ""}
	}()
	t := time.NewTimer(c10patience)
	defer t.Stop()
	select {
	case r := <-done:
		return r.st, r.msg
	case <-t.C:
		return 2, ""
	}
}

// a blocked call has been observed: reported directly once (every case it happens in is also rejected by
// the oracle); afterwards the tree is known to be broken and the watchdog gives later calls less time, so
// that the run still ends
func c10blocked(c *Ctx, what string, replay SX) {
	c10blockedCalls++
	switch {
	case c10blockedCalls == 1:
		c.Viol(what, replay)
		c10patience = 200 * time.Millisecond
	case c10blockedCalls == 12:
		c10patience = 15 * time.Millisecond
	}
}

// ---------- generators ----------
type c10wsGen struct {
	r    *RNG
	id   *int
	outs func(underBuf bool) []sinkOutcome
}

func (g *c10wsGen) sink(underBuf bool) *c10wsSpec {
	w := &c10wsSpec{kind: c10wsSink, id: *g.id, outs: g.outs(underBuf)}
	*g.id++
	return w
}

// a random stack of combinators over one or more sinks
func (g *c10wsGen) gen(depth int, underBuf bool) *c10wsSpec {
	k := g.r.Intn(100)
	if depth <= 0 || k < 30 {
		return g.sink(underBuf)
	}
	many := func(lo, hi int) []*c10wsSpec {
		if underBuf && lo == 0 {
			lo = 1 // a multi-WriteSyncer of nothing accepts nothing: not a writer bufio can be given
		}
		var subs []*c10wsSpec
		for n := g.r.Range(lo, hi); n > 0; n-- {
			subs = append(subs, g.gen(depth-1, underBuf))
		}
		return subs
	}
	switch {
	case k < 48:
		return &c10wsSpec{kind: c10wsLock, subs: []*c10wsSpec{g.gen(depth-1, underBuf)}}
	case k < 55:
		return &c10wsSpec{kind: c10wsWriter, subs: []*c10wsSpec{g.gen(depth-1, underBuf)}}
	case k < 59:
		return &c10wsSpec{kind: c10wsAddSync, subs: []*c10wsSpec{g.gen(depth-1, underBuf)}}
	case k < 68:
		return &c10wsSpec{kind: c10wsMulti, subs: many(0, 3)}
	case k < 80:
		return &c10wsSpec{kind: c10wsCombine, subs: many(0, 3)}
	case k < 88:
		return &c10wsSpec{kind: c10wsOpen, subs: many(0, 2)}
	default:
		return &c10wsSpec{kind: c10wsBuf, subs: []*c10wsSpec{g.gen(depth-1, true)}}
	}
}

// the directed shapes: every combinator (and the usual compositions) over a sink f that fails, next to
// a healthy sink h where the combinator takes several
func c10wsShapes() []func(f, h func() *c10wsSpec) *c10wsSpec {
	one := func(kind int, x *c10wsSpec) *c10wsSpec { return &c10wsSpec{kind: kind, subs: []*c10wsSpec{x}} }
	many := func(kind int, xs ...*c10wsSpec) *c10wsSpec { return &c10wsSpec{kind: kind, subs: xs} }
	return []func(f, h func() *c10wsSpec) *c10wsSpec{
		func(f, h func() *c10wsSpec) *c10wsSpec { return one(c10wsLock, f()) },
		func(f, h func() *c10wsSpec) *c10wsSpec { return one(c10wsWriter, f()) },
		func(f, h func() *c10wsSpec) *c10wsSpec { return one(c10wsAddSync, f()) },
		func(f, h func() *c10wsSpec) *c10wsSpec { return many(c10wsMulti, f(), h()) },
		func(f, h func() *c10wsSpec) *c10wsSpec { return many(c10wsMulti, h(), f()) },
		func(f, h func() *c10wsSpec) *c10wsSpec { return many(c10wsCombine, f()) },
		func(f, h func() *c10wsSpec) *c10wsSpec { return many(c10wsCombine, f(), h()) },
		func(f, h func() *c10wsSpec) *c10wsSpec { return many(c10wsCombine, h(), f()) },
		func(f, h func() *c10wsSpec) *c10wsSpec { return many(c10wsOpen, f()) },
		func(f, h func() *c10wsSpec) *c10wsSpec { return many(c10wsOpen, h(), f()) },
		func(f, h func() *c10wsSpec) *c10wsSpec { return one(c10wsBuf, f()) },
		func(f, h func() *c10wsSpec) *c10wsSpec { return one(c10wsLock, one(c10wsBuf, f())) },
		func(f, h func() *c10wsSpec) *c10wsSpec { return one(c10wsBuf, one(c10wsLock, f())) },
		func(f, h func() *c10wsSpec) *c10wsSpec { return one(c10wsLock, one(c10wsWriter, f())) },
		func(f, h func() *c10wsSpec) *c10wsSpec {
			return one(c10wsLock, many(c10wsMulti, one(c10wsLock, f()), one(c10wsLock, h())))
		},
		func(f, h func() *c10wsSpec) *c10wsSpec { return many(c10wsCombine, one(c10wsBuf, f()), h()) },
		func(f, h func() *c10wsSpec) *c10wsSpec { return one(c10wsBuf, many(c10wsCombine, h(), f())) },
		func(f, h func() *c10wsSpec) *c10wsSpec {
			return many(c10wsMulti, many(c10wsOpen, f()), many(c10wsCombine, h()))
		},
	}
}

// shapes whose sinks stand behind a BufferedWriteSyncer (no short write without an error there:
// bufio would come back for the rest; JSON leaves only: a console line may be shorter than 2 bytes)
func (cs *coreSpec) buffered() bool { return cs.ws != nil && cs.ws.hasBuf() }

// failure patterns over n entries: which entries the failing sink fails
var c10failPatterns = []func(k int) bool{
	func(k int) bool { return k == 0 },           // transient: the first entry
	func(k int) bool { return k == 1 },           // transient: the second entry
	func(k int) bool { return true },             // broken for good
	func(k int) bool { return k == 0 || k == 2 }, // comes and goes
	func(k int) bool { return k >= 2 },           // breaks later and stays broken
}

// a tee of nleaf cores; core number bad stands over shape si whose sink f fails (outcome fail) in the
// entries pattern pi selects; the other cores are healthy and stand behind other shapes; nil when the
// combination does not exist (a short write without error behind a BufferedWriteSyncer)
func c10wsTee(nleaf, bad, si, pi, fail, n int, seq bool) *coreSpec {
	shapes := c10wsShapes()
	id := 0
	sink := func(failing bool) func() *c10wsSpec {
		return func() *c10wsSpec {
			w := &c10wsSpec{kind: c10wsSink, id: id}
			id++
			for k := 0; k < n; k++ {
				o := 0
				if failing && c10failPatterns[pi](k) {
					o = fail
				}
				w.outs = append(w.outs, sinkOutcome{kind: o})
			}
			return w
		}
	}
	cs := &coreSpec{kind: 1}
	for i := 0; i < nleaf; i++ {
		lf := &coreSpec{kind: 0, seq: seq}
		if i == bad {
			lf.ws = shapes[si](sink(true), sink(false))
			if fail == 3 && lf.ws.hasBuf() {
				return nil
			}
		} else {
			lf.ws = shapes[(si+3*i+1)%len(shapes)](sink(false), sink(false))
		}
		cs.subs = append(cs.subs, lf)
	}
	if nleaf == 1 {
		return cs.subs[0]
	}
	return cs
}

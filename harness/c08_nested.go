package main

// C08, NESTED METADATA.  The console encoder collects an entry's metadata columns (time, level, logger
// name, caller, function) in a pooled column collector (a sliceArrayEncoder from _sliceEncoderPool) and
// prints the collected elements afterwards.  The collector it hands to EncodeTime / EncodeLevel /
// EncodeName / EncodeCaller is a full ArrayEncoder, so a user-supplied callback may record a NESTED array
// or object (caller as [file line], time as [date clock], level as a one-element array, the name as an
// object) - which reaches sliceArrayEncoder.AppendArray / AppendObject.  None of zap's built-in callbacks
// does that, so no other C08 probe gets there.  A nested element is a reference to storage of its own; if
// that storage belongs to something that is back in a pool before the line is printed (the temporary
// inner collector, say), the next Get - a second nested array of the same entry, a callback of the same
// entry that logs through a logger of its own, another goroutine's console entry - rewrites the column.
//
//   - configurations (c08NestCfg): a bit mask says which callbacks record nested values (time, level,
//     caller, name, durations, and caller as [[dir file] line], depth two); every callback FIRST does the
//     activity "act" of the observation (logs through other JSON / console cores and Loggers, holds an
//     Encoder-API buffer, blocks while another goroutine logs, yields while companions log): a metadata
//     callback is foreign code that runs while zap holds the pooled collector, exactly like a sink's Write;
//   - probes nested-console-metadata / nested-json-metadata: 6 single-bit masks, all bits, all but depth
//     two, three masks that rotate with the seed; per mask a Logger (AddCaller, Named, With) and its core
//     (Write, With + Write; entries with and without name / caller) - the probe's bytes, compared with the
//     fresh-state bytes like every probe.  Since a column that is ALWAYS wrong is the same in every state,
//     the console probe also carries an oracle that does not go through the collector's nested path: a
//     FLAT TWIN configuration whose callbacks append, as ONE string, fmt's rendering of the same values
//     ("[2020-01-02 03:04:05]", "map[dots:1 name:svc.nested]") built from plain Go values; console lines
//     print every column with fmt.Fprint, so the two configurations must produce the same bytes.  A
//     difference is a panic of the probe (reported in whatever state it happens, the fresh one included);
//   - history operation kind 22: 1..4 entries with other times / levels / callers / names through a
//     nested configuration (random mask, console 3 : 1 JSON; core.Write, Logger with AddCaller, With);
//   - concurrent bursts (c08_burst.go): four more workers whose loggers have nested configurations.

import (
	"bytes"
	"fmt"
	"strconv"
	"strings"
	"time"

	"go.uber.org/zap"
	"go.uber.org/zap/zapcore"
)

const c08KNested = 22

const (
	c08NTime   = 1 << iota // time as [date clock]
	c08NLevel              // level as a one-element array
	c08NCaller             // caller as [path line-N]
	c08NName               // logger name as an object {dots, name}
	c08NDur                // durations (fields: the JSON part of a console line) as [n unit]
	c08NDeep               // caller as [[dir file] line-N]
	c08NMasks  = 1 << 6
)

type c08Strs []string

func (ss c08Strs) MarshalLogArray(enc zapcore.ArrayEncoder) error {
	for _, s := range ss {
		enc.AppendString(s)
	}
	return nil
}

// [[a b] c]
type c08StrsDeep struct {
	inner c08Strs
	last  string
}

func (p c08StrsDeep) MarshalLogArray(enc zapcore.ArrayEncoder) error {
	err := enc.AppendArray(p.inner)
	enc.AppendString(p.last)
	return err
}

type c08NameObj struct{ name string }

func (o c08NameObj) MarshalLogObject(enc zapcore.ObjectEncoder) error {
	enc.AddString("name", o.name)
	enc.AddInt("dots", strings.Count(o.name, "."))
	return nil
}

func c08Ifaces(ss []string) []interface{} {
	out := make([]interface{}, len(ss))
	for i, s := range ss {
		out[i] = s
	}
	return out
}

// mask: which callbacks record nested values; act: what every callback does first; flat (console only):
// the twin - one string per column, fmt's rendering of the same values
func c08NestCfg(mask, act int, flat bool) zapcore.EncoderConfig {
	busy := func() {
		if act != 0 {
			c08Nested(act, 0)()
		}
	}
	// fields (zap.Time, zap.Duration) reach the callbacks with the JSON encoder, in console lines too: the twin
	// is flat in the metadata columns only (the column collector is no ObjectEncoder)
	arr := func(enc zapcore.PrimitiveArrayEncoder, parts []string) {
		if _, json := enc.(zapcore.ObjectEncoder); flat && !json {
			enc.AppendString(fmt.Sprint(c08Ifaces(parts)))
			return
		}
		if err := enc.(zapcore.ArrayEncoder).AppendArray(c08Strs(parts)); err != nil {
			panic("AppendArray of a metadata callback failed: " + err.Error())
		}
	}
	cfg := c08Cfg()
	cfg.EncodeTime = func(t time.Time, enc zapcore.PrimitiveArrayEncoder) {
		busy()
		parts := []string{t.UTC().Format("2006-01-02"), t.UTC().Format("15:04:05.000")}
		if mask&c08NTime != 0 {
			arr(enc, parts)
		} else {
			enc.AppendString(parts[0] + "T" + parts[1])
		}
	}
	cfg.EncodeLevel = func(l zapcore.Level, enc zapcore.PrimitiveArrayEncoder) {
		busy()
		if mask&c08NLevel != 0 {
			arr(enc, []string{l.CapitalString()})
		} else {
			enc.AppendString(l.CapitalString())
		}
	}
	cfg.EncodeCaller = func(c zapcore.EntryCaller, enc zapcore.PrimitiveArrayEncoder) {
		busy()
		line := "line-" + strconv.Itoa(c.Line)
		switch {
		case mask&c08NDeep != 0:
			dir, file := "", c.File
			if i := strings.LastIndexByte(c.File, '/'); i >= 0 {
				dir, file = c.File[:i], c.File[i+1:]
			}
			if j := strings.LastIndexByte(dir, '/'); j >= 0 {
				dir = dir[j+1:]
			}
			if flat {
				enc.AppendString(fmt.Sprint([]interface{}{[]interface{}{dir, file}, line}))
			} else if err := enc.(zapcore.ArrayEncoder).AppendArray(c08StrsDeep{c08Strs{dir, file}, line}); err != nil {
				panic("AppendArray of a metadata callback failed: " + err.Error())
			}
		case mask&c08NCaller != 0:
			arr(enc, []string{c.TrimmedPath(), line})
		default:
			enc.AppendString(c.TrimmedPath() + "@" + line)
		}
	}
	cfg.EncodeName = func(n string, enc zapcore.PrimitiveArrayEncoder) {
		busy()
		switch {
		case mask&c08NName == 0:
			enc.AppendString("<" + n + ">")
		case flat:
			enc.AppendString(fmt.Sprint(map[string]interface{}{"name": n, "dots": strings.Count(n, ".")}))
		default:
			if err := enc.(zapcore.ArrayEncoder).AppendObject(c08NameObj{n}); err != nil {
				panic("AppendObject of a metadata callback failed: " + err.Error())
			}
		}
	}
	cfg.EncodeDuration = func(d time.Duration, enc zapcore.PrimitiveArrayEncoder) {
		// durations only occur in fields, which both encoders render as JSON: the twin is the same
		if mask&c08NDur != 0 {
			_ = enc.(zapcore.ArrayEncoder).AppendArray(c08Strs{strconv.FormatInt(int64(d/time.Millisecond), 10), "ms"})
		} else {
			enc.AppendString(d.String())
		}
	}
	return cfg
}

var c08NestEnt = zapcore.Entry{
	Level: zapcore.InfoLevel, Time: time.Date(2020, 1, 2, 3, 4, 5, 6000000, time.UTC), LoggerName: "svc.core", Message: "hello",
	Caller: zapcore.EntryCaller{Defined: true, File: "/go/src/svc/main.go", Line: 42, Function: "svc.main"},
}

func c08NestMasks(seed uint64) []int {
	ms := []int{c08NTime, c08NLevel, c08NCaller, c08NName, c08NDur, c08NDeep, c08NMasks - 1, c08NMasks - 1 - c08NDeep}
	r := NewRNG(seed*104729 + 5)
	for i := 0; i < 3; i++ {
		ms = append(ms, 1+r.Intn(c08NMasks-1))
	}
	return ms
}

// the calls of one configuration, made from ONE call site per call (the lines name it)
func c08NestCalls(lg *zap.Logger, core zapcore.Core) {
	lg.Info("nested metadata", zap.Int("n", 42), zap.Duration("d", 1500*time.Millisecond), zap.Time("t", c08NestEnt.Time))
	lg.With(zap.String("ctx", "v"), zap.Durations("ds", []time.Duration{time.Second, time.Minute})).Warn("second")
	_ = core.Write(c08NestEnt, c08Fields(1, 1, 0, 0, 0, 0, 0))
	ent := c08NestEnt
	ent.Level, ent.LoggerName, ent.Message = zapcore.ErrorLevel, "", "no name"
	_ = core.With(c08Fields(1, 0, 0, 1, 0, 0, 0)).Write(ent, nil)
	ent.Caller, ent.LoggerName, ent.Message = zapcore.EntryCaller{}, "svc", "no caller"
	_ = core.Write(ent, []zapcore.Field{zap.Duration("d", time.Hour)})
	lg.Named("child").Error("third")
}

func c08NestRun(seed uint64, console bool) func(sc *c08Scope, act int) []byte {
	masks := c08NestMasks(seed)
	return func(sc *c08Scope, act int) []byte {
		var out []byte
		for _, mask := range masks {
			mk := func(act int, flat bool) (*zap.Logger, zapcore.Core, *c08Sink, *c08Sink) {
				s, es := sc.sink(act, false), sc.sink(act, false)
				core := zapcore.NewCore(c08Enc(console, c08NestCfg(mask, act, flat)), s, zapcore.DebugLevel)
				return zap.New(core, zap.WithClock(c08Clock{}), zap.ErrorOutput(es), zap.AddCaller()).Named("svc.nested"), core, s, es
			}
			lg, core, s, es := mk(act, false)
			c08NestCalls(lg, core)
			if console {
				tlg, tcore, ts, _ := mk(0, true)
				c08NestCalls(tlg, tcore)
				if !bytes.Equal(s.Bytes(), ts.Bytes()) {
					panic(fmt.Sprintf("console lines of a configuration whose metadata callbacks record nested arrays / objects (mask %#02x) differ from the lines of its flat twin, whose callbacks append fmt's rendering of the same values as one string: %s",
						mask, c08DiffDesc(ts.Bytes(), s.Bytes())))
				}
			}
			out = append(out, []byte(fmt.Sprintf("<mask %#02x:", mask))...)
			out = append(out, c08Join(s, es)...)
			out = append(out, '>')
		}
		return out
	}
}

func c08NestedProbes(seed uint64, add func(kind int, label string, sx SX, abs SX, run func(sc *c08Scope, act int) []byte)) {
	add(1, "nested-console-metadata", nil, c08Abs(1, 3, 1, 0, 0, 0, 1), c08NestRun(seed, true))
	add(1, "nested-json-metadata", nil, c08Abs(0, 3, 1, 0, 0, 0, 1), c08NestRun(seed, false))
}

// history operation kind 22: other loggers' entries through nested configurations
func c08NestedHistOp(sc *c08Scope, r *RNG, a, b, c, d, e, f int, quiet func(func())) (desc SX, class string) {
	mask := 1 + r.Intn(c08NMasks-1)
	console := r.Intn(4) != 0
	style := r.Intn(3)
	n := 1 + r.Intn(4)
	lvl := zapcore.Level(r.Intn(5) - 1)
	at := time.Unix(int64(r.Intn(2000000000)), int64(r.Intn(1000))*1000000)
	lineNo := r.Intn(999)
	quiet(func() {
		core := zapcore.NewCore(c08Enc(console, c08NestCfg(mask, 0, false)), sc.sink(0, false), zapcore.DebugLevel)
		for i := 0; i < n; i++ {
			switch style {
			case 0:
				_ = core.Write(zapcore.Entry{Level: lvl, Time: at.Add(time.Duration(i) * time.Hour), LoggerName: "hist.nested." + strconv.Itoa(i), Message: "h",
					Caller: zapcore.EntryCaller{Defined: true, File: "/hist/other/worker" + strconv.Itoa(i) + ".go", Line: lineNo + i, Function: "hist.f"}},
					c08Fields(a, b, c, d, e, f, 0))
			case 1:
				lg := zap.New(core, zap.WithClock(c08Clock{}), zap.ErrorOutput(sc.sink(0, false)), zap.AddCaller()).Named("hist")
				lg.Error("hist nested", append(c08Fields(a, b, 0, 0, e, 0, 0), zap.Duration("d", time.Duration(lineNo)*time.Millisecond))...)
			default:
				_ = core.With(c08Fields(1, 0, 0, d, 0, 0, 0)).Write(zapcore.Entry{Level: lvl, Time: at, Message: "w",
					Caller: zapcore.EntryCaller{Defined: true, File: "ctx.go", Line: i}}, c08Fields(a, 0, 0, 0, 0, f, 0))
			}
		}
	})
	k := 0
	if console {
		k = 1
	}
	return c08Abs(k, a, b, c, d, e, f), "n"
}
